(* Proofs/HeapRefine.v — refinement of the heap-level programs (Model/HeapOps.v) to the pure L0 model
   (Model/Frame.v, Model/Ops.v, Model/Filter.v, Model/Sort.v) through abs1.
   For a frame reference that is well formed in a store ([ref_ok]: slices inside their arrays, by-name
   map = "last column with that name, at that position") running the heap program yields a reference
   whose abs1 is the L0 operation applied to abs1 of the input; the store only grows ([keeps]).
   Proved for: Slice, index.Filter (the result construction of Filter), Sort (copy, then the sorter
   script as Less/Swap of Model/Sort.v), setColumn, Copy, Select. *)
From QF Require Import Base.Prelude Model.Heap Model.HeapOps Proofs.HeapProofs.
From QF Require Model.Frame Model.Ops Model.Filter Model.Sort.

#[local] Arguments bind : simpl never.
#[local] Arguments bindO : simpl never.

(* ==================================================================== lists *)
Lemma firstn_skipn_comm' {X} (l : list X) a b : firstn a (skipn b l) = skipn b (firstn (b + a) l).
Proof. revert l. induction b as [|b IH]; intros [|x l]; simpl; auto. now rewrite firstn_nil. Qed.

Lemma firstn_firstn_min {X} (l : list X) a b : firstn a (firstn b l) = firstn (Nat.min a b) l.
Proof. apply firstn_firstn. Qed.

Lemma skipn_skipn' {X} (l : list X) a b : skipn a (skipn b l) = skipn (b + a) l.
Proof. revert l. induction b as [|b IH]; intros [|x l]; simpl; auto. now rewrite skipn_nil. Qed.

Lemma seg_sub {X} (arr : list X) off len a b :
  a <= b -> b <= len ->
  firstn (b - a) (skipn (off + a) arr) = firstn (b - a) (skipn a (firstn len (skipn off arr))).
Proof.
  intros Hab Hbl.
  rewrite <- (skipn_skipn' arr a off).
  rewrite (firstn_skipn_comm' (firstn len (skipn off arr)) (b - a) a).
  rewrite (firstn_skipn_comm' (skipn off arr) (b - a) a).
  rewrite firstn_firstn. f_equal. f_equal. lia.
Qed.

Lemma nth_error_firstn_lt {X} (l : list X) n i : i < n -> nth_error (firstn n l) i = nth_error l i.
Proof. revert l i. induction n as [|n IH]; intros [|x l] [|i] H; simpl; auto; try lia. apply IH. lia. Qed.

Lemma nth_error_skipn' {X} (l : list X) n i : nth_error (skipn n l) i = nth_error l (n + i).
Proof. revert l. induction n as [|n IH]; intros [|x l]; simpl; auto. destruct i; reflexivity. Qed.

Lemma set_nth_firstn {X} (l : list X) n i v : firstn n (set_nth l i v) = set_nth (firstn n l) i v.
Proof. revert l i. induction n as [|n IH]; intros [|x l] [|i]; simpl; auto. f_equal. apply IH. Qed.

Lemma set_nth_skipn {X} (l : list X) n i v : skipn n (set_nth l (n + i) v) = set_nth (skipn n l) i v.
Proof. revert l. induction n as [|n IH]; intros [|x l]; simpl; auto. Qed.

Lemma set_nth_beyond {X} (l : list X) i v : length l <= i -> set_nth l i v = l.
Proof. revert i. induction l as [|x l IH]; intros [|i] H; simpl in *; auto; try lia. f_equal. apply IH. lia. Qed.

Lemma set_nth_map {X Y} (f : X -> Y) (l : list X) i v : map f (set_nth l i v) = set_nth (map f l) i (f v).
Proof. revert i. induction l as [|x l IH]; intros [|i]; simpl; auto. f_equal. apply IH. Qed.

Lemma set_nth_snoc {X} (l : list X) (x v : X) : set_nth (l ++ [x]) (length l) v = l ++ [v].
Proof. induction l as [|y l IH]; simpl; auto. f_equal. exact IH. Qed.

Lemma set_nth_app_l {X} (l r : list X) i v : i < length l -> set_nth (l ++ r) i v = set_nth l i v ++ r.
Proof. revert i. induction l as [|y l IH]; intros [|i] H; simpl in *; try lia; auto. f_equal. apply IH. lia. Qed.

Lemma firstn_snoc_set {X} (l : list X) n v :
  n < length l -> firstn (S n) (set_nth l n v) = firstn n l ++ [v].
Proof.
  revert n. induction l as [|x l IH]; intros [|n] H; simpl in *; try lia; auto.
  f_equal. apply IH. lia.
Qed.

Lemma firstn_snoc_exact {X} (l r : list X) v n : length l = n -> firstn (S n) (l ++ v :: r) = l ++ [v].
Proof. intros <-. induction l as [|x l IH]; simpl; auto. f_equal. exact IH. Qed.

Lemma skipn_set_nth_lt {X} (l : list X) k j v : k < j -> skipn j (set_nth l k v) = skipn j l.
Proof.
  revert k j. induction l as [|x l IH]; intros [|k] [|j] H; simpl; auto; try lia.
  apply IH. lia.
Qed.

Lemma firstn_set_nth_ge {X} (l : list X) k j v : j <= k -> firstn j (set_nth l k v) = firstn j l.
Proof.
  revert k j. induction l as [|x l IH]; intros [|k] [|j] H; simpl; auto; try lia.
  f_equal. apply IH. lia.
Qed.

(* ==================================================================== stores *)
Definition keeps (st st' : store) : Prop := forall l a, lookup st l = Some a -> lookup st' l = Some a.

Lemma keeps_refl st : keeps st st.
Proof. intros l a H. exact H. Qed.
Lemma keeps_trans a b c : keeps a b -> keeps b c -> keeps a c.
Proof. intros H1 H2 l x H. apply H2, H1, H. Qed.
Lemma keeps_update st l a : lookup st l = None -> keeps st (update st l a).
Proof.
  intros H q x Hq. rewrite lookup_update. destruct (loc_eqb q l) eqn:E; auto.
  apply loc_eqb_eq in E. subst. congruence.
Qed.
Lemma keeps_write st0 st l i v : keeps st0 st -> lookup st0 l = None -> keeps st0 (write_loc st l i v).
Proof.
  intros H Hl q x Hq. destruct (loc_eq_dec q l) as [->|Hne]; [congruence|].
  rewrite lookup_write_other by exact Hne. apply H. exact Hq.
Qed.
Lemma keeps_none st st' l : keeps st st' -> lookup st' l = None -> lookup st l = None.
Proof. intros H Hl. destruct (lookup st l) eqn:E; auto. apply H in E. congruence. Qed.
Lemma keeps_read st st' l a : keeps st st' -> lookup st l = Some a -> read_loc st' l = read_loc st l.
Proof. intros H Hl. unfold read_loc. rewrite (H _ _ Hl), Hl. reflexivity. Qed.

Lemma update_same st l a : lookup st l = Some a -> update st l a = st.
Proof.
  induction st as [|[l' a'] r IH]; simpl; [discriminate|].
  destruct (loc_eqb l l') eqn:E.
  - intro H. inversion H; subst. apply loc_eqb_eq in E. subst. reflexivity.
  - intro H. f_equal. apply IH. exact H.
Qed.

Lemma read_update_same st l a : read_loc (update st l a) l = a.
Proof. unfold read_loc. rewrite lookup_update_same. reflexivity. Qed.
Lemma read_update_other st l a q : q <> l -> read_loc (update st l a) q = read_loc st q.
Proof. intro H. unfold read_loc. rewrite lookup_update_other by exact H. reflexivity. Qed.
Lemma read_write_other st l i v q : q <> l -> read_loc (write_loc st l i v) q = read_loc st q.
Proof. intro H. unfold read_loc. rewrite lookup_write_other by exact H. reflexivity. Qed.
Lemma read_write_same st l i v : read_loc (write_loc st l i v) l = set_nth (read_loc st l) i v.
Proof. unfold read_loc. rewrite lookup_write_same. destruct (lookup st l); reflexivity. Qed.

Lemma fresh_update t n st a : store_fresh t n st -> store_fresh t (S n) (update st (t, n) a).
Proof.
  intros H k Hk. rewrite lookup_update_other; [apply H; lia|]. intro E. inversion E. lia.
Qed.
Lemma fresh_write t n st l i v : store_fresh t n st -> store_fresh t n (write_loc st l i v).
Proof.
  intros H k Hk. destruct (loc_eq_dec (t, k) l) as [<-|Hne].
  - rewrite lookup_write_same, (H k Hk). reflexivity.
  - rewrite lookup_write_other by exact Hne. apply H. exact Hk.
Qed.
Lemma fresh_le t n n' st : n <= n' -> store_fresh t n st -> store_fresh t n' st.
Proof. intros Hle H k Hk. apply H. lia. Qed.

Lemma skipn_repeat' {X} (x : X) n k : skipn k (repeat x n) = repeat x (n - k).
Proof. revert k. induction n as [|n IH]; intros [|k]; simpl; auto. Qed.

Lemma map_of_keeps' st st' m :
  keeps st st' -> (forall l, m = Some l -> lookup st l <> None) -> map_of st' m = map_of st m.
Proof.
  intros Hk Hl. destruct m as [l|]; simpl; auto.
  destruct (lookup st l) as [a|] eqn:E; [|exfalso; eapply Hl; eauto].
  rewrite (keeps_read _ _ _ _ Hk E). reflexivity.
Qed.

(* ==================================================================== slices inside their arrays *)
Definition in_bounds (st : store) (s : slice) : Prop :=
  s_len s <= s_cap s /\ s_off s + s_cap s <= length (read_loc st (s_base s)).

Lemma seg_length st s : in_bounds st s -> length (seg_of st s) = s_len s.
Proof.
  intros [H1 H2]. unfold seg_of, slice_seg. rewrite firstn_length, skipn_length. lia.
Qed.

Lemma seg_keeps st st' s : keeps st st' -> in_bounds st s -> seg_of st' s = seg_of st s /\ in_bounds st' s.
Proof.
  intros Hk [H1 H2]. unfold seg_of, in_bounds.
  destruct (lookup st (s_base s)) as [a|] eqn:E.
  - rewrite (keeps_read _ _ _ _ Hk E). auto.
  - assert (Hr : read_loc st (s_base s) = []) by (unfold read_loc; rewrite E; reflexivity).
    rewrite Hr in *. simpl in H2.
    assert (s_len s = 0) by lia. assert (s_cap s = 0) by lia. assert (s_off s = 0) by lia.
    unfold slice_seg. rewrite H. simpl. split; [reflexivity|]. lia.
Qed.

Lemma seg_keeps_eq st st' s : keeps st st' -> in_bounds st s -> seg_of st' s = seg_of st s.
Proof. intros H1 H2. apply (seg_keeps _ _ _ H1 H2). Qed.
Lemma in_bounds_keeps st st' s : keeps st st' -> in_bounds st s -> in_bounds st' s.
Proof. intros H1 H2. apply (seg_keeps _ _ _ H1 H2). Qed.

Lemma in_bounds_live st s : in_bounds st s -> 0 < s_cap s -> exists a, lookup st (s_base s) = Some a.
Proof.
  intros [H1 H2] Hc. unfold read_loc in H2. destruct (lookup st (s_base s)) as [a|]; [eauto|].
  simpl in H2. lia.
Qed.

Lemma nil_in_bounds st : in_bounds st nil_slice.
Proof. split; simpl; lia. Qed.

(* ==================================================================== by-name maps and L0 lookup *)
Lemma bytes_eqb_sym a b : bytes_eqb a b = bytes_eqb b a.
Proof.
  destruct (bytes_eqb a b) eqn:E1, (bytes_eqb b a) eqn:E2; auto.
  - apply bytes_eqb_spec in E1. subst. rewrite bytes_eqb_refl in E2. discriminate.
  - apply bytes_eqb_spec in E2. subst. rewrite bytes_eqb_refl in E1. discriminate.
Qed.

Lemma map_get_put m k c k' : map_get (map_put m k c) k' = if bytes_eqb k' k then Some c else map_get m k'.
Proof.
  induction m as [|[k0 c0] r IH]; simpl.
  - destruct (bytes_eqb k' k); reflexivity.
  - destruct (bytes_eqb k k0) eqn:E; simpl.
    + apply bytes_eqb_spec in E. subst k0. destruct (bytes_eqb k' k); reflexivity.
    + rewrite IH. destruct (bytes_eqb k' k0) eqn:E2; auto.
      destruct (bytes_eqb k' k) eqn:E3; auto.
      apply bytes_eqb_spec in E2. apply bytes_eqb_spec in E3. subst. rewrite bytes_eqb_refl in E. discriminate.
Qed.

Lemma map_get_notin m k : ~ In k (map fst m) -> map_get m k = None.
Proof.
  induction m as [|[k0 c0] r IH]; simpl; auto. intro H.
  destruct (bytes_eqb k k0) eqn:E.
  - apply bytes_eqb_spec in E. subst. exfalso. apply H. left. reflexivity.
  - apply IH. intro Hin. apply H. right. exact Hin.
Qed.

Definition map_copy (kv acc : list (bytes * col)) : list (bytes * col) :=
  fold_left (fun a e => map_put a (fst e) (snd e)) kv acc.

Lemma map_copy_get kv : NoDup (map fst kv) -> forall acc k,
  map_get (map_copy kv acc) k = match map_get kv k with Some c => Some c | None => map_get acc k end.
Proof.
  induction kv as [|[k0 c0] r IH]; intros Hnd acc k; simpl; auto.
  inversion Hnd as [|? ? Hnotin Hnd']; subst. unfold map_copy in *. simpl. rewrite IH by exact Hnd'.
  rewrite map_get_put. destruct (bytes_eqb k k0) eqn:E.
  - apply bytes_eqb_spec in E. subst. rewrite (map_get_notin r k0 Hnotin). reflexivity.
  - reflexivity.
Qed.

Lemma map_put_keys m k c :
  (In k (map fst m) /\ map fst (map_put m k c) = map fst m) \/
  (~ In k (map fst m) /\ map fst (map_put m k c) = map fst m ++ [k]).
Proof.
  induction m as [|[k0 c0] r IH]; simpl.
  - right. split; auto.
  - destruct (bytes_eqb k k0) eqn:E; simpl.
    + apply bytes_eqb_spec in E. subst. left. auto.
    + destruct IH as [[H1 H2]|[H1 H2]].
      * left. split; auto. rewrite H2. reflexivity.
      * right. split; [|rewrite H2; reflexivity].
        intros [H|H]; [|contradiction]. subst. rewrite bytes_eqb_refl in E. discriminate.
Qed.

Lemma NoDup_snoc {X} (l : list X) x : NoDup l -> ~ In x l -> NoDup (l ++ [x]).
Proof.
  induction l as [|y l IH]; simpl; intros Hnd Hx.
  - constructor; auto.
  - inversion Hnd; subst. constructor.
    + rewrite in_app_iff. simpl. intros [H|[H|[]]]; auto.
    + apply IH; auto.
Qed.

Lemma map_put_nodup m k c : NoDup (map fst m) -> NoDup (map fst (map_put m k c)).
Proof.
  intro H. destruct (map_put_keys m k c) as [[_ E]|[Hn E]]; rewrite E; auto. apply NoDup_snoc; auto.
Qed.

Lemma map_copy_nodup kv : forall acc, NoDup (map fst acc) -> NoDup (map fst (map_copy kv acc)).
Proof.
  induction kv as [|e r IH]; intros acc H; simpl; auto. apply IH. apply map_put_nodup. exact H.
Qed.

Lemma map_put_Forall (P : bytes * col -> Prop) m k c :
  (forall k1 k2 x, P (k1, x) -> P (k2, x)) -> Forall P m -> P (k, c) -> Forall P (map_put m k c).
Proof.
  intros Hk H Hc. induction H as [|[k0 c0] r H0 Hr IH]; simpl.
  - constructor; auto.
  - destruct (bytes_eqb k k0); constructor; auto.
Qed.

Lemma map_copy_Forall (P : bytes * col -> Prop) kv :
  (forall k1 k2 x, P (k1, x) -> P (k2, x)) -> Forall P kv -> forall acc, Forall P acc -> Forall P (map_copy kv acc).
Proof.
  intros Hk H. induction H as [|[k0 c0] r H0 Hr IH]; intros acc Hacc; simpl; auto.
  apply IH. apply map_put_Forall; auto.
Qed.

(* Frame.lookup_from: the LAST column with the name, with its position *)
Fixpoint last_match (name : bytes) (cs : list (bytes * Frame.coldata)) : option (nat * Frame.coldata) :=
  match cs with
  | [] => None
  | (n, c) :: r => match last_match name r with
                   | Some (i, d) => Some (S i, d)
                   | None => if bytes_eqb n name then Some (0, c) else None
                   end
  end.

Lemma lookup_from_last name cs : forall k acc,
  Frame.lookup_from name cs k acc =
  match last_match name cs with Some (i, d) => Some (k + i, d) | None => acc end.
Proof.
  induction cs as [|[n c] r IH]; intros k acc; simpl; auto.
  rewrite IH. destruct (last_match name r) as [[i d]|].
  - f_equal. f_equal. lia.
  - destruct (bytes_eqb n name); auto. f_equal. f_equal. lia.
Qed.

Lemma last_match_lt name cs i d : last_match name cs = Some (i, d) -> i < length cs.
Proof.
  revert i. induction cs as [|[n c] r IH]; intros i; simpl; [discriminate|].
  destruct (last_match name r) as [[j dd]|].
  - intro H. inversion H; subst. specialize (IH j eq_refl). lia.
  - destruct (bytes_eqb n name); [|discriminate]. intro H. inversion H; subst. lia.
Qed.

Lemma last_match_app name' cs nm d :
  last_match name' (cs ++ [(nm, d)]) = if bytes_eqb nm name' then Some (length cs, d) else last_match name' cs.
Proof.
  induction cs as [|[n c] r IH]; simpl.
  - destruct (bytes_eqb nm name'); reflexivity.
  - rewrite IH. destruct (bytes_eqb nm name'); auto.
Qed.

Lemma last_match_set name name' cs d : forall i dold,
  last_match name cs = Some (i, dold) ->
  last_match name' (set_nth cs i (name, d)) = if bytes_eqb name name' then Some (i, d) else last_match name' cs.
Proof.
  induction cs as [|[n0 c0] r IH]; intros i dold; simpl; [discriminate|].
  destruct (last_match name r) as [[j dd]|] eqn:El.
  - intro H. inversion H; subst. simpl. rewrite (IH j dold eq_refl).
    destruct (bytes_eqb name name'); reflexivity.
  - destruct (bytes_eqb n0 name) eqn:E0; [|discriminate]. intro H. inversion H; subst. simpl.
    apply bytes_eqb_spec in E0. subst n0.
    destruct (bytes_eqb name name') eqn:E.
    + apply bytes_eqb_spec in E. subst name'. rewrite El. reflexivity.
    + reflexivity.
Qed.

Notation empty_col_val := (VCol (mkCol [] 0 0 [])).

(* ==================================================================== the sequential semantics of the primitives *)
Section RunLemmas.
  Variable env : fnid -> list val -> val.

  Lemma run_bind_eq {A B} t (p : prog A) (f : A -> prog B) n s a n' s' :
    run env t p n s = (a, n', s') -> run env t (bind p f) n s = run env t (f a) n' s'.
  Proof. intro H. rewrite run_bind, H. reflexivity. Qed.

  Lemma run_bindO_ok {A B} t (p : prog (outcome A)) (f : A -> prog (outcome B)) n s a n' s' :
    run env t p n s = (Ok a, n', s') -> run env t (bindO p f) n s = run env t (f a) n' s'.
  Proof. intro H. unfold bindO. rewrite run_bind, H. reflexivity. Qed.
  Lemma run_bindO_panic {A B} t (p : prog (outcome A)) (f : A -> prog (outcome B)) n s n' s' :
    run env t p n s = (Panic, n', s') -> run env t (bindO p f) n s = (Panic, n', s').
  Proof. intro H. unfold bindO. rewrite run_bind, H. reflexivity. Qed.
  Lemma run_bindO_fail {A B} t (p : prog (outcome A)) (f : A -> prog (outcome B)) n s n' s' :
    run env t p n s = (Fail, n', s') -> run env t (bindO p f) n s = (Fail, n', s').
  Proof. intro H. unfold bindO. rewrite run_bind, H. reflexivity. Qed.
  Lemma run_bindO_unfold {A B} t (p : prog (outcome A)) (f : A -> prog (outcome B)) n s :
    run env t (bindO p f) n s =
    let '(o, n', s') := run env t p n s in
    match o with Ok a => run env t (f a) n' s' | Fail => (Fail, n', s') | Panic => (Panic, n', s') end.
  Proof. unfold bindO. rewrite run_bind. destruct (run env t p n s) as [[[a| |] n'] s']; reflexivity. Qed.
  Lemma run_lift {A} t (p : prog A) n s a n' s' :
    run env t p n s = (a, n', s') -> run env t (lift p) n s = (Ok a, n', s').
  Proof. intro H. unfold lift. rewrite run_bind, H. reflexivity. Qed.

  Lemma run_make t k c z n st :
    run env t (make_slice k c z) n st = (mkSlice (t, n) 0 k c, S n, update st (t, n) (repeat z c)).
  Proof. reflexivity. Qed.

  Lemma run_map_make t n st : run env t map_make n st = ((t, n), S n, update st (t, n) [VMap []]).
  Proof. reflexivity. Qed.

  Lemma run_slice_read t s n st : run env t (slice_read s) n st = (seg_of st s, n, st).
  Proof.
    unfold slice_read, seg_of, slice_seg. destruct (s_len s =? 0) eqn:E; simpl; auto.
    apply Nat.eqb_eq in E. rewrite E. reflexivity.
  Qed.

  Lemma run_read_zs t s n st : run env t (read_zs s) n st = (map as_z (seg_of st s), n, st).
  Proof. unfold read_zs. rewrite (run_bind_eq _ _ _ _ _ _ _ _ (run_slice_read t s n st)). reflexivity. Qed.
  Lemma run_read_bs t s n st : run env t (read_bs s) n st = (map as_b (seg_of st s), n, st).
  Proof. unfold read_bs. rewrite (run_bind_eq _ _ _ _ _ _ _ _ (run_slice_read t s n st)). reflexivity. Qed.

  Definition get_val (st : store) (s : slice) (i : nat) : outcome val :=
    if (i <? s_len s)%nat then idx (read_loc st (s_base s)) (s_off s + i) else Panic.

  Lemma run_slice_get t s i n st : run env t (slice_get s i) n st = (get_val st s i, n, st).
  Proof. unfold slice_get, get_val. destruct (i <? s_len s); reflexivity. Qed.

  Lemma get_val_seg st s i : in_bounds st s -> get_val st s i = idx (seg_of st s) i.
  Proof.
    intros [H1 H2]. unfold get_val, seg_of, slice_seg, idx. destruct (i <? s_len s) eqn:E.
    - apply Nat.ltb_lt in E. rewrite nth_error_firstn_lt by exact E. rewrite nth_error_skipn'. reflexivity.
    - apply Nat.ltb_ge in E.
      assert (Hn : nth_error (firstn (s_len s) (skipn (s_off s) (read_loc st (s_base s)))) i = None).
      { apply nth_error_None. rewrite firstn_length. lia. }
      rewrite Hn. reflexivity.
  Qed.

  Lemma run_get_z t s i n st :
    run env t (get_z s i) n st =
    (match get_val st s i with Ok v => Ok (as_z v) | Fail => Fail | Panic => Panic end, n, st).
  Proof. unfold get_z. rewrite (run_bind_eq _ _ _ _ _ _ _ _ (run_slice_get t s i n st)). reflexivity. Qed.

  Lemma run_slice_set t s i v n st :
    run env t (slice_set s i v) n st =
    if (i <? s_len s)%nat then (Ok tt, n, write_loc st (s_base s) (s_off s + i) v) else (Panic, n, st).
  Proof. unfold slice_set. destruct (i <? s_len s); reflexivity. Qed.

  Lemma run_map_read t m n st : run env t (map_read m) n st = (map_of st (Some m), n, st).
  Proof. reflexivity. Qed.

  Lemma run_by_name_m t m k n st : run env t (by_name_m m k) n st = (map_get (map_of st m) k, n, st).
  Proof. destruct m as [l|]; reflexivity. Qed.

  Lemma run_map_store t m k c n st :
    run env t (map_store m k c) n st = (tt, n, write_loc st m 0 (VMap (map_put (map_of st (Some m)) k c))).
  Proof. reflexivity. Qed.

  (* the cells Sorter.Less reads *)
  Lemma run_col_cell t c r n st : run env t (col_cell c r) n st = (cell_val st c r, n, st).
  Proof.
    unfold col_cell, cell_val. destruct (c_parts c) as [|d rest]; [reflexivity|].
    pose proof (run_slice_get t d (row r) n st) as Hg. unfold get_val in Hg.
    destruct (row r <? s_len d) eqn:E.
    - destruct (idx (read_loc st (s_base d)) (s_off d + row r)) as [v| |] eqn:Ei.
      + rewrite (run_bindO_ok _ _ _ _ _ _ _ _ Hg). simpl obind.
        assert (Hl : forall acc, run env t (for_each rest (fun p acc => let* vs := slice_read p in Ret (acc ++ vs)) acc) n st
                                 = (acc ++ flat_map (seg_of st) rest, n, st)).
        { induction rest as [|p rest IH]; intro acc; simpl.
          - rewrite app_nil_r. reflexivity.
          - rewrite run_bind. rewrite run_bind. rewrite run_slice_read. simpl. rewrite IH, app_assoc. reflexivity. }
        rewrite (run_bind_eq _ _ _ _ _ _ _ _ (Hl [])). reflexivity.
      + rewrite (run_bindO_fail _ _ _ _ _ _ _ Hg). reflexivity.
      + rewrite (run_bindO_panic _ _ _ _ _ _ _ Hg). reflexivity.
    - rewrite (run_bindO_panic _ _ _ _ _ _ _ Hg). reflexivity.
  Qed.

  Lemma cell_val_not_fail st c r : cell_val st c r <> Fail.
  Proof.
    unfold cell_val. destruct (c_parts c) as [|d rest]; [discriminate|].
    destruct (row r <? s_len d); [|discriminate].
    unfold idx. destruct (nth_error _ _); simpl; discriminate.
  Qed.

  Lemma run_cols_cell t cs r n st : run env t (cols_cell cs r) n st = (cells_val st cs r, n, st).
  Proof.
    unfold cols_cell, cells_val.
    assert (H : forall acc, run env t (for_eachO cs (fun c acc => let? x := col_cell c r in Ret (Ok (acc ++ [x]))) acc) n st
                            = (do xs <- omap (fun c => cell_val st c r) cs; Ok (acc ++ xs), n, st)).
    { induction cs as [|c cs IH]; intro acc; simpl.
      - rewrite app_nil_r. reflexivity.
      - pose proof (run_col_cell t c r n st) as Hc.
        destruct (cell_val st c r) as [x| |] eqn:Ex.
        + assert (Hb : run env t (let? x := col_cell c r in Ret (Ok (acc ++ [x]))) n st = (Ok (acc ++ [x]), n, st))
            by (rewrite (run_bindO_ok _ _ _ _ _ _ _ _ Hc); reflexivity).
          rewrite (run_bindO_ok _ _ _ _ _ _ _ _ Hb). rewrite IH. simpl.
          destruct (omap (fun c0 => cell_val st c0 r) cs); simpl; auto. rewrite <- app_assoc. reflexivity.
        + exfalso. exact (cell_val_not_fail _ _ _ Ex).
        + assert (Hb : run env t (let? x := col_cell c r in Ret (Ok (acc ++ [x]))) n st = (Panic, n, st))
            by (rewrite (run_bindO_panic _ _ _ _ _ _ _ Hc); reflexivity).
          rewrite (run_bindO_panic _ _ _ _ _ _ _ Hb). reflexivity. }
    rewrite H. destruct (omap _ cs); reflexivity.
  Qed.

  (* dst[i], dst[i+1], ... = vs *)
  Fixpoint wl_store (dst : slice) (i : nat) (vs : list val) (st : store) : store :=
    match vs with
    | [] => st
    | v :: r => if (i <? s_len dst)%nat then wl_store dst (S i) r (write_loc st (s_base dst) (s_off dst + i) v) else st
    end.

  Lemma run_write_list t dst vs : forall i n st,
    run env t (slice_write_list dst i vs) n st = (tt, n, wl_store dst i vs st).
  Proof.
    induction vs as [|v r IH]; intros i n st; simpl; auto.
    destruct (i <? s_len dst); simpl; auto.
  Qed.

  Lemma wl_store_other dst vs l : l <> s_base dst -> forall i st, lookup (wl_store dst i vs st) l = lookup st l.
  Proof.
    intro Hne. induction vs as [|v r IH]; intros i st; simpl; auto.
    destruct (i <? s_len dst); auto. rewrite IH. apply lookup_write_other. exact Hne.
  Qed.

  Lemma wl_store_fresh t n dst vs : forall i st, store_fresh t n st -> store_fresh t n (wl_store dst i vs st).
  Proof.
    induction vs as [|v r IH]; intros i st H; simpl; auto.
    destruct (i <? s_len dst); auto. apply IH. apply fresh_write. exact H.
  Qed.

  Lemma wl_store_keeps st0 dst vs : lookup st0 (s_base dst) = None ->
    forall i st, keeps st0 st -> keeps st0 (wl_store dst i vs st).
  Proof.
    intro Hb. induction vs as [|v r IH]; intros i st H; simpl; auto.
    destruct (i <? s_len dst); auto. apply IH. apply keeps_write; auto.
  Qed.

  Lemma wl_store_read dst vs : forall i st,
    i + length vs <= s_len dst -> s_off dst + s_len dst <= length (read_loc st (s_base dst)) ->
    read_loc (wl_store dst i vs st) (s_base dst) =
    firstn (s_off dst + i) (read_loc st (s_base dst)) ++ vs ++ skipn (s_off dst + i + length vs) (read_loc st (s_base dst)).
  Proof.
    clear env.
    induction vs as [|v r IH]; intros i st Hi Hb; simpl.
    - rewrite Nat.add_0_r, firstn_skipn. reflexivity.
    - assert (E : (i <? s_len dst) = true) by (apply Nat.ltb_lt; simpl in Hi; lia). rewrite E.
      simpl in Hi. rewrite IH; [|lia|rewrite read_write_same, set_nth_length; exact Hb].
      rewrite read_write_same.
      replace (s_off dst + S i) with (S (s_off dst + i)) by lia.
      rewrite firstn_snoc_set by lia. rewrite <- app_assoc. cbn [app].
      rewrite skipn_set_nth_lt by lia.
      replace (S (s_off dst + i) + length r) with (s_off dst + i + S (length r)) by lia. reflexivity.
  Qed.

  (* for k, v := range m { nm[k] = v } *)
  Lemma map_copy_loop t nm kv : forall acc n st,
    lookup st nm = Some [VMap acc] ->
    exists st', run env t (for_each kv (fun e _ => map_store nm (fst e) (snd e)) tt) n st = (tt, n, st') /\
      lookup st' nm = Some [VMap (map_copy kv acc)] /\
      (forall l, l <> nm -> lookup st' l = lookup st l).
  Proof.
    induction kv as [|[k c] r IH]; intros acc n st Hl.
    - exists st. simpl. auto.
    - cbn [for_each fst snd].
      assert (Hm : map_of st (Some nm) = acc) by (simpl; unfold read_loc; rewrite Hl; reflexivity).
      set (st1 := write_loc st nm 0 (VMap (map_put acc k c))).
      assert (Hl1 : lookup st1 nm = Some [VMap (map_put acc k c)]).
      { unfold st1. rewrite lookup_write_same, Hl. reflexivity. }
      destruct (IH (map_put acc k c) n st1 Hl1) as (st' & Hrun & Hl' & Hoth).
      exists st'. split; [|split].
      + erewrite run_bind_eq; [exact Hrun|]. rewrite run_map_store, Hm. reflexivity.
      + exact Hl'.
      + intros l Hne. rewrite Hoth by exact Hne. unfold st1. apply lookup_write_other. exact Hne.
  Qed.

  (* setColumn, operationally: fresh header array (t,n) = copy of the old header with the new column at
     [pos], fresh map (t,n+1) = copy of the old map plus the new entry *)
  Lemma set_column_run t n st name ty parts qf :
    store_fresh t n st -> in_bounds st (q_cols qf) ->
    (forall l, q_map qf = Some l -> lookup st l <> None) ->
    forall kv ex nlen pos cnt news,
    kv = map_of st (q_map qf) -> ex = map_get kv name -> nlen = s_len (q_cols qf) ->
    pos = match ex with Some c => c_pos c | None => nlen end ->
    cnt = match ex with Some _ => nlen | None => S nlen end ->
    news = mkCol name pos ty parts ->
    pos < cnt -> nlen <= cnt ->
    exists st',
      run env t (set_column true name ty parts qf) n st =
        (Ok (mkQF (mkSlice (t, n) 0 cnt cnt) (Some (t, S n)) (q_idx qf) (q_err qf)), S (S n), st') /\
      keeps st st' /\ store_fresh t (S (S n)) st' /\
      read_loc st' (t, n) = set_nth (map san_col (seg_of st (q_cols qf)) ++ repeat empty_col_val (cnt - nlen)) pos (VCol news) /\
      lookup st' (t, S n) = Some [VMap (map_put (map_copy kv []) name news)].
  Proof.
    intros Hf Hb Hlive kv ex nlen pos cnt news Ekv Eex Enlen Epos Ecnt Enews Hpos Hcnt.
    assert (Hfr0 : lookup st (t, n) = None) by (apply Hf; lia).
    assert (Hfr1 : lookup st (t, S n) = None) by (apply Hf; lia).
    assert (Hne : (t, S n) <> (t, n)) by (intro E; inversion E; lia).
    set (nc := mkSlice (t, n) 0 cnt cnt).
    set (st1 := update st (t, n) (repeat empty_col_val cnt)).
    set (st2 := update st1 (t, S n) [VMap []]).
    set (vs := seg_of st (q_cols qf)).
    set (st3 := wl_store nc 0 (map san_col vs) st2).
    assert (Hk1 : keeps st st1) by (apply keeps_update; exact Hfr0).
    assert (Hk2 : keeps st st2).
    { eapply keeps_trans; [exact Hk1|]. apply keeps_update. unfold st1. rewrite lookup_update_other; auto. }
    assert (Hk3 : keeps st st3) by (apply wl_store_keeps; auto).
    assert (Hvs : length vs = nlen) by (subst nlen; apply seg_length; exact Hb).
    assert (Hl3 : lookup st3 (t, S n) = Some [VMap []]).
    { unfold st3. rewrite wl_store_other by exact Hne. unfold st2. apply lookup_update_same. }
    assert (Hm3 : map_of st3 (q_map qf) = kv) by (subst kv; apply map_of_keeps'; auto).
    destruct (map_copy_loop t (t, S n) kv [] (S (S n)) st3 Hl3) as (st4 & Hloop & Hl4 & Hoth4).
    set (st5 := write_loc st4 (t, S n) 0 (VMap (map_put (map_copy kv []) name news))).
    set (st6 := write_loc st5 (t, n) (0 + pos) (VCol news)).
    exists st6. split; [|split; [|split; [|split]]].
    - unfold set_column. simpl negb. cbv iota. unfold by_name.
      erewrite run_bind_eq; [|apply run_by_name_m]. rewrite <- Ekv, <- Eex, <- Enlen, <- Epos, <- Ecnt, <- Enews.
      erewrite run_bind_eq; [|apply run_make]. fold nc st1.
      erewrite run_bind_eq; [|apply run_map_make]. fold st2.
      erewrite run_bind_eq.
      2:{ unfold slice_copy. erewrite run_bind_eq; [|apply run_slice_read]. apply run_write_list. }
      rewrite (seg_keeps_eq _ _ _ Hk2 Hb). fold vs st3.
      erewrite run_bind_eq.
      2:{ instantiate (1 := st3). instantiate (1 := S (S n)). instantiate (1 := kv).
          rewrite <- Hm3. destruct (q_map qf); reflexivity. }
      erewrite run_bind_eq; [|exact Hloop].
      erewrite run_bind_eq.
      2:{ rewrite run_map_store. simpl map_of. unfold read_loc. rewrite Hl4. reflexivity. }
      fold st5.
      erewrite run_bindO_ok.
      2:{ rewrite run_slice_set. simpl s_len. replace (pos <? cnt) with true by (symmetry; apply Nat.ltb_lt; exact Hpos).
          reflexivity. }
      reflexivity.
    - unfold st6, st5. apply keeps_write; auto. apply keeps_write; auto.
      intros l a Hl. destruct (loc_eq_dec l (t, S n)) as [->|Hne']; [congruence|].
      rewrite Hoth4 by exact Hne'. apply Hk3. exact Hl.
    - unfold st6, st5. apply fresh_write, fresh_write.
      intros k Hk. rewrite Hoth4 by (intro E; inversion E; lia).
      unfold st3. apply (wl_store_fresh t (S (S n)) nc (map san_col vs) 0 st2); [|exact Hk].
      unfold st2, st1. apply fresh_update, fresh_update. exact Hf.
    - unfold st6. rewrite read_write_same. unfold st5. rewrite read_write_other by (intro E; inversion E; lia).
      unfold read_loc at 1. rewrite Hoth4 by (intro E; inversion E; lia). fold (read_loc st3 (t, n)).
      change (t, n) with (s_base nc) at 1. unfold st3. rewrite wl_store_read.
      + simpl. unfold st2. rewrite read_update_other by (intro E; inversion E; lia). unfold st1. rewrite read_update_same.
        rewrite map_length, Hvs. f_equal. f_equal.
        rewrite skipn_repeat'. reflexivity.
      + simpl. rewrite map_length. lia.
      + simpl. unfold st2. rewrite read_update_other by (intro E; inversion E; lia). unfold st1. rewrite read_update_same, repeat_length. lia.
    - unfold st6. rewrite lookup_write_other by exact Hne. unfold st5. rewrite lookup_write_same, Hl4. reflexivity.
  Qed.

  (* checkColumns *)
  Definition has_key (kv : list (bytes * col)) (nm : bytes) : bool :=
    match map_get kv nm with Some _ => true | None => false end.

  Lemma run_check_columns t m names n st :
    run env t (check_columns m names) n st = (forallb (has_key (map_of st m)) names, n, st).
  Proof.
    unfold check_columns.
    assert (H : forall acc, run env t (for_each names (fun nm ok => let* oc := by_name_m m nm in
                               Ret (match oc with None => false | Some _ => ok end)) acc) n st
                            = (acc && forallb (has_key (map_of st m)) names, n, st)).
    { induction names as [|nm r IH]; intro acc; simpl.
      - rewrite andb_true_r. reflexivity.
      - erewrite run_bind_eq.
        2:{ erewrite run_bind_eq; [|apply run_by_name_m]. reflexivity. }
        rewrite IH. unfold has_key at 2. destruct (map_get (map_of st m) nm); simpl.
        + reflexivity.
        + rewrite andb_false_r. reflexivity. }
    rewrite H. reflexivity.
  Qed.

  (* the loop of Select *)
  Definition sel_col (kv : list (bytes * col)) (ic : nat * bytes) : col :=
    set_pos (match map_get kv (snd ic) with Some c => c | None => mkCol [] 0 0 [] end) (fst ic).
  Definition sel_entries (kv : list (bytes * col)) (l : list (nat * bytes)) : list (bytes * col) :=
    map (fun ic => (snd ic, sel_col kv ic)) l.

  Lemma set_nth_app_mid {X} (pre : list X) x r v : set_nth (pre ++ x :: r) (length pre) v = pre ++ v :: r.
  Proof. induction pre as [|y pre IH]; simpl; auto. f_equal. exact IH. Qed.

  Lemma select_loop t nm ncb qf kv0 ntot :
    nm <> ncb -> (forall lm, q_map qf = Some lm -> lm <> nm /\ lm <> ncb) ->
    forall names k0 pre acc n st,
    map_of st (q_map qf) = kv0 ->
    lookup st nm = Some [VMap acc] ->
    (exists a, lookup st ncb = Some a) ->
    read_loc st ncb = pre ++ repeat empty_col_val (length names) -> length pre = k0 ->
    ntot = k0 + length names ->
    exists st',
      run env t (for_eachO (combine (seq k0 (length names)) names)
                   (fun (ic : nat * bytes) (_ : unit) =>
                      let* oc := by_name qf (snd ic) in
                      let s := set_pos (match oc with Some c => c | None => mkCol [] 0 0 [] end) (fst ic) in
                      let* _ := map_store nm (snd ic) s in
                      slice_set (mkSlice ncb 0 ntot ntot) (fst ic) (VCol s)) tt) n st = (Ok tt, n, st') /\
      lookup st' nm = Some [VMap (map_copy (sel_entries kv0 (combine (seq k0 (length names)) names)) acc)] /\
      read_loc st' ncb = pre ++ map (fun ic => VCol (sel_col kv0 ic)) (combine (seq k0 (length names)) names) /\
      (forall l, l <> nm -> l <> ncb -> lookup st' l = lookup st l).
  Proof.
    intros Hne Hlm. induction names as [|nm0 r IH]; intros k0 pre acc n st Hkv Hl Hlive Hr Hpre Htot.
    - simpl in *. exists st. rewrite app_nil_r in Hr. rewrite app_nil_r. auto.
    - cbn [length seq combine for_eachO fst snd].
      set (s := sel_col kv0 (k0, nm0)).
      set (st1 := write_loc st nm 0 (VMap (map_put acc nm0 s))).
      set (st2 := write_loc st1 ncb (0 + k0) (VCol s)).
      assert (Hm : map_of st (Some nm) = acc) by (simpl; unfold read_loc; rewrite Hl; reflexivity).
      assert (Hbody : run env t (let* oc := by_name qf nm0 in
                                 let s0 := set_pos (match oc with Some c => c | None => mkCol [] 0 0 [] end) k0 in
                                 let* _ := map_store nm nm0 s0 in
                                 slice_set (mkSlice ncb 0 ntot ntot) k0 (VCol s0)) n st = (Ok tt, n, st2)).
      { unfold by_name. erewrite run_bind_eq; [|apply run_by_name_m]. rewrite Hkv. cbv zeta.
        erewrite run_bind_eq; [|rewrite run_map_store, Hm; reflexivity].
        rewrite run_slice_set. simpl s_len.
        replace (k0 <? ntot) with true by (symmetry; apply Nat.ltb_lt; simpl in Htot; lia). reflexivity. }
      destruct Hlive as [a Ha].
      assert (Hl1 : lookup st1 nm = Some [VMap (map_put acc nm0 s)]).
      { unfold st1. rewrite lookup_write_same, Hl. reflexivity. }
      assert (Hr2 : read_loc st2 ncb = (pre ++ [VCol s]) ++ repeat empty_col_val (length r)).
      { unfold st2. rewrite read_write_same. unfold st1. rewrite read_write_other by (intro E; apply Hne; auto).
        rewrite Hr. simpl repeat. rewrite Nat.add_0_l. rewrite <- Hpre, set_nth_app_mid, <- app_assoc. reflexivity. }
      destruct (IH (S k0) (pre ++ [VCol s]) (map_put acc nm0 s) n st2) as (st' & Hrun & Hl' & Hr' & Hoth).
      + destruct (q_map qf) as [lm|] eqn:Eq; [|exact Hkv].
        destruct (Hlm lm eq_refl) as [N1 N2]. simpl in *. unfold st2, st1.
        rewrite read_write_other by exact N2. rewrite read_write_other by exact N1. exact Hkv.
      + unfold st2. rewrite lookup_write_other by exact Hne. exact Hl1.
      + exists (set_nth a (0 + k0) (VCol s)). unfold st2. rewrite lookup_write_same.
        unfold st1. rewrite lookup_write_other by (intro E; apply Hne; auto). rewrite Ha. reflexivity.
      + exact Hr2.
      + rewrite app_length. simpl. lia.
      + simpl in Htot. lia.
      + exists st'. split; [|split; [|split]].
        * erewrite run_bindO_ok; [exact Hrun|exact Hbody].
        * exact Hl'.
        * rewrite Hr'. rewrite <- app_assoc. reflexivity.
        * intros l N1 N2. rewrite Hoth by auto. unfold st2, st1.
          rewrite lookup_write_other by exact N2. apply lookup_write_other. exact N1.
  Qed.

  (* append(s, v) on a slice the program owns (its array is not in the initial store st0, or it is nil):
     in place or into a fresh array - in both cases the elements are the old ones followed by v *)
  Definition own_in (st0 : store) (s : slice) : Prop := s_cap s = 0 \/ lookup st0 (s_base s) = None.

  Lemma append_spec t s v n st0 st :
    keeps st0 st -> store_fresh t n st -> in_bounds st s -> own_in st0 s ->
    exists s' n' st', run env t (slice_append s v) n st = (s', n', st') /\
      seg_of st' s' = seg_of st s ++ [v] /\ in_bounds st' s' /\ s_len s' = S (s_len s) /\
      keeps st0 st' /\ store_fresh t n' st' /\ n <= n' /\ own_in st0 s' /\
      (forall l a, lookup st l = Some a -> l <> s_base s -> lookup st' l = Some a) /\
      s_cap s - s_len s <= S (s_cap s' - s_len s').
  Proof.
    intros Hk Hf [Hlc Hbd] Hown. unfold slice_append.
    destruct (s_len s <? s_cap s) eqn:E.
    - apply Nat.ltb_lt in E. simpl.
      assert (Hb0 : lookup st0 (s_base s) = None) by (destruct Hown; [lia|auto]).
      eexists _, _, _. split; [reflexivity|].
      repeat split; simpl; try lia.
      + unfold seg_of, slice_seg. simpl. rewrite read_write_same, set_nth_skipn.
        apply firstn_snoc_set. rewrite skipn_length. lia.
      + rewrite read_write_same, set_nth_length. exact Hbd.
      + apply keeps_write; auto.
      + apply fresh_write; auto.
      + right. exact Hb0.
      + intros l a Hl Hne. rewrite lookup_write_other; auto.
    - apply Nat.ltb_ge in E. assert (Hlen : s_len s = s_cap s) by lia.
      assert (Hfr : lookup st (t, n) = None) by (apply Hf; lia).
      assert (Hfr0 : lookup st0 (t, n) = None) by (eapply keeps_none; eauto).
      assert (Hc : S (s_len s) <= grow_cap (s_cap s) (S (s_len s))) by (unfold grow_cap; lia).
      assert (Hseg : length (seg_of st s) = s_len s) by (apply seg_length; split; auto).
      assert (Hgen : exists s' n' st',
                 run env t (Alloc (seg_of st s ++ v :: repeat VNil (grow_cap (s_cap s) (S (s_len s)) - S (s_len s)))
                                  (fun l => Ret (mkSlice l 0 (S (s_len s)) (grow_cap (s_cap s) (S (s_len s)))))) n st
                 = (s', n', st') /\
                 seg_of st' s' = seg_of st s ++ [v] /\ in_bounds st' s' /\ s_len s' = S (s_len s) /\
                 keeps st0 st' /\ store_fresh t n' st' /\ n <= n' /\ own_in st0 s' /\
                 (forall l a, lookup st l = Some a -> l <> s_base s -> lookup st' l = Some a) /\
                 s_cap s - s_len s <= S (s_cap s' - s_len s')).
      { simpl. eexists _, _, _. split; [reflexivity|].
        repeat split; simpl; try lia.
        - unfold seg_of at 1, slice_seg. cbn [s_len s_off s_base skipn]. rewrite read_update_same.
          apply firstn_snoc_exact. exact Hseg.
        - rewrite read_update_same, app_length. simpl. rewrite repeat_length. lia.
        - eapply keeps_trans; [exact Hk|]. apply keeps_update; auto.
        - apply fresh_update; auto.
        - right. exact Hfr0.
        - intros l a Hl Hne. rewrite lookup_update_other; auto. intros ->. congruence. }
      destruct (s_len s =? 0) eqn:E0.
      + apply Nat.eqb_eq in E0.
        assert (Hnil : seg_of st s = []) by (destruct (seg_of st s); [reflexivity|simpl in Hseg; lia]).
        rewrite Hnil in Hgen |- *. exact Hgen.
      + simpl. exact Hgen.
  Qed.
End RunLemmas.

(* ==================================================================== well-formed references *)
Section Refine.
  Variable env : fnid -> list val -> val.
  Variable dec : decoder.

  (* the by-name map read at L0: name -> (position, column) of the LAST column with that name *)
  Definition map_rel (st : store) (kv : list (bytes * col)) (cs : list (bytes * Frame.coldata)) : Prop :=
    forall name,
      match map_get kv name, Frame.lookup_from name cs 0 None with
      | None, None => True
      | Some c, Some (p, d) => c_pos c = p /\ c_name c = name /\ abs_col dec st c = Some d
      | _, _ => False
      end.

  Definition parts_in_bounds (st : store) (c : col) : Prop := Forall (in_bounds st) (c_parts c).

  Record ref_ok (st : store) (qf : qframe) : Prop := mkRefOk {
    ro_cols : in_bounds st (q_cols qf);
    ro_idx : in_bounds st (q_idx qf);
    ro_parts : Forall (parts_in_bounds st) (hdr_of st (q_cols qf));
    ro_keys : NoDup (map fst (map_of st (q_map qf)));
    ro_mparts : Forall (fun e => parts_in_bounds st (snd e)) (map_of st (q_map qf));
    ro_mlive : forall l, q_map qf = Some l -> lookup st l <> None;
    ro_map : forall cs, abs_cols dec st (hdr_of st (q_cols qf)) = Some cs -> map_rel st (map_of st (q_map qf)) cs
  }.

  Lemma abs_col_keeps st st' c : keeps st st' -> parts_in_bounds st c -> abs_col dec st' c = abs_col dec st c.
  Proof.
    intros Hk Hp. unfold abs_col. f_equal. unfold parts_in_bounds in Hp.
    induction Hp as [|p r Hp Hr IH]; simpl; auto. f_equal; auto. apply seg_keeps_eq; auto.
  Qed.

  Lemma parts_keeps st st' c : keeps st st' -> parts_in_bounds st c -> parts_in_bounds st' c.
  Proof. intros Hk Hp. eapply Forall_impl; [|exact Hp]. intros s. apply in_bounds_keeps; auto. Qed.

  Lemma abs_cols_keeps st st' cs :
    keeps st st' -> Forall (parts_in_bounds st) cs -> abs_cols dec st' cs = abs_cols dec st cs.
  Proof.
    intros Hk Hp. induction Hp as [|c r Hc Hr IH]; simpl; auto.
    rewrite (abs_col_keeps _ _ _ Hk Hc), IH. reflexivity.
  Qed.

  Lemma map_of_keeps st st' m :
    keeps st st' -> (forall l, m = Some l -> lookup st l <> None) -> map_of st' m = map_of st m.
  Proof.
    intros Hk Hl. destruct m as [l|]; simpl; auto.
    destruct (lookup st l) as [a|] eqn:E; [|exfalso; eapply Hl; eauto].
    rewrite (keeps_read _ _ _ _ Hk E). reflexivity.
  Qed.

  Lemma map_rel_keeps st st' kv cs :
    keeps st st' -> Forall (fun e => parts_in_bounds st (snd e)) kv -> map_rel st kv cs -> map_rel st' kv cs.
  Proof.
    intros Hk Hp Hr name. specialize (Hr name).
    destruct (map_get kv name) as [c|] eqn:Eg; auto.
    destruct (Frame.lookup_from name cs 0 None) as [[p d]|]; auto.
    destruct Hr as (H1 & H2 & H3). repeat split; auto.
    rewrite abs_col_keeps with (st := st); auto.
    clear - Eg Hp. induction kv as [|[k x] r IH]; simpl in *; [discriminate|].
    inversion Hp; subst. destruct (bytes_eqb name k); [inversion Eg; subst; auto|auto].
  Qed.

  (* a well-formed reference stays well formed, with the same abstraction, when the store grows *)
  Lemma ref_ok_keeps st st' qf : keeps st st' -> ref_ok st qf -> ref_ok st' qf.
  Proof.
    intros Hk [H1 H2 H3 H4 H5 H6 H7].
    assert (Eh : hdr_of st' (q_cols qf) = hdr_of st (q_cols qf)).
    { unfold hdr_of. rewrite (seg_keeps_eq _ _ _ Hk H1). reflexivity. }
    assert (Em : map_of st' (q_map qf) = map_of st (q_map qf)) by (apply map_of_keeps; auto).
    constructor.
    - eapply in_bounds_keeps; eauto.
    - eapply in_bounds_keeps; eauto.
    - rewrite Eh. eapply Forall_impl; [|exact H3]. intros c. apply parts_keeps; auto.
    - rewrite Em. exact H4.
    - rewrite Em. eapply Forall_impl; [|exact H5]. intros e. apply parts_keeps; auto.
    - intros l Hl E. apply (H6 l Hl). eapply keeps_none; eauto.
    - intros cs Hcs. rewrite Eh in Hcs. rewrite abs_cols_keeps with (st := st) in Hcs; auto.
      rewrite Em. eapply map_rel_keeps; eauto.
  Qed.

  Lemma abs1_keeps st st' qf : keeps st st' -> ref_ok st qf -> abs1 dec st' qf = abs1 dec st qf.
  Proof.
    intros Hk [H1 H2 H3 _ _ _ _]. unfold abs1, hdr_of, abs_ix.
    rewrite (seg_keeps_eq _ _ _ Hk H1), (seg_keeps_eq _ _ _ Hk H2).
    rewrite abs_cols_keeps with (st := st); auto.
  Qed.

  Lemma abs1_inv st qf f :
    abs1 dec st qf = Some f ->
    abs_cols dec st (hdr_of st (q_cols qf)) = Some (Frame.cols f) /\
    Frame.ix f = abs_ix st (q_idx qf) /\ Frame.ferr f = q_err qf.
  Proof.
    unfold abs1. destruct (abs_cols dec st (hdr_of st (q_cols qf))) as [cs|]; [|discriminate].
    intro H. inversion H; subst. simpl. auto.
  Qed.

  Lemma abs_ix_length st s : in_bounds st s -> length (abs_ix st s) = s_len s.
  Proof. intro H. unfold abs_ix. rewrite map_length. apply seg_length; auto. Qed.

  (* ==================================================================== Slice *)
  Lemma with_err_abs st qf f : abs1 dec st qf = Some f -> abs1 dec st (with_err qf) = Some (Frame.with_err f).
  Proof.
    intro H. destruct (abs1_inv _ _ _ H) as (H1 & H2 & H3). unfold abs1. simpl. rewrite H1.
    unfold Frame.with_err. rewrite H2. reflexivity.
  Qed.
  Lemma with_err_ok st qf : ref_ok st qf -> ref_ok st (with_err qf).
  Proof. intros [H1 H2 H3 H4 H5 H6 H7]. constructor; auto. Qed.

  Lemma frame_eta f : Frame.mkFrame (Frame.cols f) (Frame.ix f) (Frame.ferr f) = f.
  Proof. destruct f; reflexivity. Qed.

  Theorem refines_slice st qf f a b :
    ref_ok st qf -> abs1 dec st qf = Some f ->
    exists qf', op_slice a b qf = Ok qf' /\ ref_ok st qf' /\ abs1 dec st qf' = Some (Ops.slice f a b).
  Proof.
    intros Hok Habs. destruct (abs1_inv _ _ _ Habs) as (Hc & Hi & He).
    pose proof (abs_ix_length _ _ (ro_idx _ _ Hok)) as Hlen.
    unfold op_slice, Ops.slice. rewrite He, Hi, Hlen.
    destruct (q_err qf) eqn:Eerr; [exists qf; auto|].
    destruct (a <? 0)%Z eqn:Ea; [exists (with_err qf); auto using with_err_ok, with_err_abs|].
    destruct (b <? a)%Z eqn:Eb; [exists (with_err qf); auto using with_err_ok, with_err_abs|].
    destruct (Z.of_nat (s_len (q_idx qf)) <? b)%Z eqn:El; [exists (with_err qf); auto using with_err_ok, with_err_abs|].
    destruct Hok as [H1 H2 H3 H4 H5 H6 H7]. pose proof H2 as [Hlc Hbd].
    unfold subslice.
    assert (E : (Z.to_nat a <=? Z.to_nat b) && (Z.to_nat b <=? s_cap (q_idx qf)) = true).
    { apply andb_true_iff. split; apply Nat.leb_le; lia. }
    rewrite E. simpl. eexists. split; [reflexivity|]. split.
    - constructor; simpl; auto. split; simpl; lia.
    - unfold abs1. simpl. rewrite Hc. f_equal. unfold Frame.with_ix. rewrite He. f_equal.
      unfold abs_ix, seg_of, slice_seg. simpl.
      rewrite <- firstn_map, <- skipn_map, <- firstn_map.
      replace (Z.to_nat (b - a)) with (Z.to_nat b - Z.to_nat a) by lia.
      rewrite <- !skipn_map.
      apply seg_sub; lia.
      exact Eerr.
  Qed.

  (* ==================================================================== index.Filter *)
  Definition ix_of_vals (vs : list val) : list nat := map (fun v => row (as_z v)) vs.

  Lemma skipn_nth_cons {X} (l : list X) k x : nth_error l k = Some x -> skipn k l = x :: skipn (S k) l.
  Proof. revert l. induction k as [|k IH]; intros [|y l] H; simpl in *; try discriminate; [inversion H; auto|auto]. Qed.
  Lemma skipn_none_nil {X} (l : list X) k : nth_error l k = None -> skipn k l = [].
  Proof. intro H. apply skipn_all2. apply nth_error_None. exact H. Qed.

  Lemma index_filter_loop t ix st0 :
    in_bounds st0 ix ->
    forall bs k r n st,
    keeps st0 st -> store_fresh t n st -> in_bounds st r -> own_in st0 r ->
    exists res n' st',
      run env t (for_eachO (combine (seq k (length bs)) bs)
                   (fun (ib : nat * bool) (r : slice) =>
                      if snd ib
                      then let? x := get_z ix (fst ib) in lift (slice_append r (VZ x))
                      else Ret (Ok r)) r) n st = (res, n', st') /\
      keeps st0 st' /\ store_fresh t n' st' /\ n <= n' /\
      match res with
      | Ok r' => exists out, Filter.index_filter (skipn k (abs_ix st0 ix)) bs = Ok out /\
                             abs_ix st' r' = abs_ix st r ++ out /\ in_bounds st' r' /\ own_in st0 r'
      | Panic => Filter.index_filter (skipn k (abs_ix st0 ix)) bs = Panic
      | Fail => False
      end.
  Proof.
    intros Hix. induction bs as [|x bs IH]; intros k r n st Hk Hf Hr Hown.
    - simpl. eexists _, _, _. split; [reflexivity|]. repeat split; auto.
      exists []. rewrite app_nil_r. auto.
    - cbn [length seq combine for_eachO snd fst].
      destruct x.
      + (* the row is kept: index[k] is read and appended *)
        pose proof (run_get_z env t ix k n st) as Hg.
        assert (Hgv : get_val st ix k = idx (seg_of st0 ix) k).
        { rewrite get_val_seg by (eapply in_bounds_keeps; eauto). rewrite (seg_keeps_eq _ _ _ Hk Hix). reflexivity. }
        rewrite Hgv in Hg. unfold idx in Hg.
        destruct (nth_error (seg_of st0 ix) k) as [v|] eqn:En; simpl in Hg.
        * destruct (append_spec env t r (VZ (as_z v)) n st0 st Hk Hf Hr Hown)
            as (r1 & n1 & st1 & Hrun & Hseg & Hb1 & Hlen1 & Hk1 & Hf1 & Hn1 & Hown1 & _).
          destruct (IH (S k) r1 n1 st1 Hk1 Hf1 Hb1 Hown1) as (res & n' & st' & Hloop & Hk' & Hf' & Hn' & Hres).
          eexists res, n', st'. split.
          { erewrite run_bindO_ok; [exact Hloop|].
            erewrite run_bindO_ok; [|exact Hg]. apply run_lift. exact Hrun. }
          repeat split; auto; try lia.
          assert (Esk : skipn k (abs_ix st0 ix) = row (as_z v) :: skipn (S k) (abs_ix st0 ix)).
          { apply skipn_nth_cons. unfold abs_ix. rewrite nth_error_map, En. reflexivity. }
          rewrite Esk. cbn [Filter.index_filter].
          destruct res as [r'| |]; auto.
          -- destruct Hres as (out & Ho & Ha & Hb' & Hown'). rewrite Ho. simpl.
             exists (row (as_z v) :: out). split; [reflexivity|]. split; [|split; assumption].
             rewrite Ha. unfold abs_ix. rewrite Hseg, map_app. simpl. rewrite <- app_assoc. reflexivity.
          -- rewrite Hres. reflexivity.
        * eexists Panic, n, st. split.
          { erewrite run_bindO_panic; [reflexivity|]. erewrite run_bindO_panic; [reflexivity|exact Hg]. }
          repeat split; auto.
          rewrite skipn_none_nil by (unfold abs_ix; rewrite nth_error_map, En; reflexivity).
          reflexivity.
      + (* the row is dropped *)
        destruct (IH (S k) r n st Hk Hf Hr Hown) as (res & n' & st' & Hloop & Hk' & Hf' & Hn' & Hres).
        eexists res, n', st'. split.
        { erewrite run_bindO_ok; [exact Hloop|reflexivity]. }
        repeat split; auto.
        destruct (nth_error (abs_ix st0 ix) k) as [p|] eqn:En.
        * rewrite (skipn_nth_cons _ _ _ En). cbn [Filter.index_filter].
          destruct res as [r'| |]; auto.
          -- destruct Hres as (out & Ho & Ha & Hb' & Hown'). rewrite Ho. simpl. exists out. auto.
          -- rewrite Hres. reflexivity.
        * rewrite (skipn_none_nil _ _ En). cbn [Filter.index_filter].
          rewrite (skipn_none_nil (abs_ix st0 ix) (S k)) in Hres; [exact Hres|].
          apply nth_error_None. apply nth_error_None in En. lia.
  Qed.

  (* ix.Filter(bIx): the heap program computes Filter.index_filter of the abstractions *)
  Theorem refines_index_filter t n st ix b :
    store_fresh t n st -> in_bounds st ix -> in_bounds st b ->
    exists res n' st',
      run env t (index_filter ix b) n st = (res, n', st') /\
      keeps st st' /\ store_fresh t n' st' /\
      match res with
      | Ok r => Filter.index_filter (abs_ix st ix) (map as_b (seg_of st b)) = Ok (abs_ix st' r) /\ in_bounds st' r
      | Panic => Filter.index_filter (abs_ix st ix) (map as_b (seg_of st b)) = Panic
      | Fail => False
      end.
  Proof.
    intros Hf Hix Hb. unfold index_filter.
    set (bs := map as_b (seg_of st b)).
    set (st1 := update st (t, n) (repeat (VZ 0) (count_true bs))).
    set (r0 := mkSlice (t, n) 0 0 (count_true bs)).
    assert (Hfr : lookup st (t, n) = None) by (apply Hf; lia).
    assert (Hk1 : keeps st st1) by (apply keeps_update; exact Hfr).
    assert (Hr0 : in_bounds st1 r0).
    { split; simpl; [lia|]. unfold st1. rewrite read_update_same, repeat_length. lia. }
    destruct (index_filter_loop t ix st Hix bs 0 r0 (S n) st1 Hk1 (fresh_update _ _ _ _ Hf) Hr0 (or_intror Hfr))
      as (res & n' & st' & Hloop & Hk' & Hf' & Hn' & Hres).
    exists res, n', st'. split.
    { erewrite run_bind_eq; [|apply run_read_bs]. fold bs.
      erewrite run_bind_eq; [|apply run_make]. exact Hloop. }
    repeat split; auto.
    simpl skipn in Hres. destruct res as [r| |]; auto.
    destruct Hres as (out & Ho & Ha & Hb' & _). split; auto.
    rewrite Ho, Ha. f_equal.
  Qed.

  (* the tail of QFrame.filter: qf.withIndex(qf.index.Filter(bIndex)) *)
  Theorem refines_filter_index t n st qf f b :
    ref_ok st qf -> abs1 dec st qf = Some f -> store_fresh t n st -> in_bounds st b ->
    exists res n' st',
      run env t (let? ix := index_filter (q_idx qf) b in Ret (Ok (with_index qf ix))) n st = (res, n', st') /\
      keeps st st' /\ store_fresh t n' st' /\
      match res with
      | Ok qf' => ref_ok st' qf' /\
                  exists i, Filter.index_filter (Frame.ix f) (map as_b (seg_of st b)) = Ok i /\
                            abs1 dec st' qf' = Some (Frame.with_ix f i)
      | Panic => Filter.index_filter (Frame.ix f) (map as_b (seg_of st b)) = Panic
      | Fail => False
      end.
  Proof.
    intros Hok Habs Hf Hb. destruct (abs1_inv _ _ _ Habs) as (Hc & Hi & He).
    destruct (refines_index_filter t n st (q_idx qf) b Hf (ro_idx _ _ Hok) Hb)
      as (res & n' & st' & Hrun & Hk & Hf' & Hres).
    destruct res as [r| |].
    - exists (Ok (with_index qf r)), n', st'. split; [erewrite run_bindO_ok; [reflexivity|exact Hrun]|].
      destruct Hres as [Ho Hb']. split; [exact Hk|]. split; [exact Hf'|]. split.
      + pose proof (ref_ok_keeps _ _ _ Hk Hok) as [H1 H2 H3 H4 H5 H6 H7]. constructor; auto.
      + exists (abs_ix st' r). rewrite Hi. split; [exact Ho|].
        pose proof (abs1_keeps _ _ _ Hk Hok) as Ea. rewrite Habs in Ea.
        destruct (abs1_inv _ _ _ Ea) as (Hc' & _ & _).
        unfold abs1. simpl. rewrite Hc'. unfold Frame.with_ix. rewrite He. reflexivity.
    - contradiction.
    - exists Panic, n', st'. split; [erewrite run_bindO_panic; [reflexivity|exact Hrun]|].
      split; [exact Hk|]. split; [exact Hf'|]. rewrite Hi. exact Hres.
  Qed.

  (* ==================================================================== Sort *)
  Definition nonneg (vs : list val) : Prop := Forall (fun v => (0 <= as_z v)%Z) vs.

  Lemma cell_val_keeps st st' c r : keeps st st' -> parts_in_bounds st c -> cell_val st' c r = cell_val st c r.
  Proof.
    intros Hk Hp. unfold cell_val. unfold parts_in_bounds in Hp.
    destruct (c_parts c) as [|d rest]; [reflexivity|].
    inversion Hp as [|? ? Hd Hrest]; subst.
    destruct (row r <? s_len d) eqn:E; [|reflexivity]. apply Nat.ltb_lt in E.
    destruct (in_bounds_live _ _ Hd) as [a Ha]; [destruct Hd; lia|].
    rewrite (keeps_read _ _ _ _ Hk Ha).
    replace (flat_map (seg_of st') rest) with (flat_map (seg_of st) rest); [reflexivity|].
    clear - Hk Hrest. induction Hrest as [|p r Hp Hr IH]; simpl; auto.
    rewrite IH, (seg_keeps_eq _ _ _ Hk Hp). reflexivity.
  Qed.

  Lemma cells_val_keeps st st' cs r :
    keeps st st' -> Forall (parts_in_bounds st) cs -> cells_val st' cs r = cells_val st cs r.
  Proof.
    intros Hk Hp. unfold cells_val. induction Hp as [|c cs Hc Hcs IH]; simpl; auto.
    rewrite (cell_val_keeps _ _ _ _ Hk Hc), IH. reflexivity.
  Qed.

  (* Int.Copy: a fresh array holding the elements of the index *)
  Lemma index_copy_spec t n st ix :
    store_fresh t n st -> in_bounds st ix ->
    exists st2, run env t (index_copy ix) n st = (mkSlice (t, n) 0 (s_len ix) (s_len ix), S n, st2) /\
      keeps st st2 /\ store_fresh t (S n) st2 /\
      read_loc st2 (t, n) = map san_z (seg_of st ix).
  Proof.
    intros Hf Hix. unfold index_copy, slice_copy.
    assert (Hfr : lookup st (t, n) = None) by (apply Hf; lia).
    set (st1 := update st (t, n) (repeat (VZ 0) (s_len ix))).
    set (nix := mkSlice (t, n) 0 (s_len ix) (s_len ix)).
    assert (Hk1 : keeps st st1) by (apply keeps_update; exact Hfr).
    exists (wl_store nix 0 (map san_z (seg_of st ix)) st1). split.
    { erewrite run_bind_eq; [|apply run_make]. fold st1 nix.
      erewrite run_bind_eq.
      2:{ erewrite run_bind_eq; [|apply run_slice_read]. apply run_write_list. }
      rewrite (seg_keeps_eq _ _ _ Hk1 Hix). reflexivity. }
    split; [|split].
    - apply wl_store_keeps; auto.
    - apply wl_store_fresh. apply fresh_update. exact Hf.
    - change (t, n) with (s_base nix).
      rewrite wl_store_read; simpl; rewrite ?map_length, ?(seg_length _ _ Hix); try lia.
      + unfold st1. rewrite read_update_same. simpl.
        rewrite skipn_all2 by (rewrite repeat_length; lia). apply app_nil_r.
      + unfold st1. rewrite read_update_same, repeat_length. lia.
  Qed.

  Lemma idx_map {X Y} (g : X -> Y) (l : list X) i : idx (map g l) i = match idx l i with Ok v => Ok (g v) | Fail => Fail | Panic => Panic end.
  Proof. unfold idx. rewrite nth_error_map. destruct (nth_error l i); reflexivity. Qed.

  Lemma nonneg_set arr i z : nonneg arr -> (0 <= z)%Z -> nonneg (set_nth arr i (VZ z)).
  Proof. intros H Hz. apply Forall_set_nth; auto. Qed.

  Lemma nonneg_idx arr i v : nonneg arr -> idx arr i = Ok v -> (0 <= as_z v)%Z.
  Proof.
    intros H Hi. unfold idx in Hi. destruct (nth_error arr i) eqn:E; [|discriminate]. inversion Hi; subst.
    unfold nonneg in H. rewrite Forall_forall in H. apply H. eapply nth_error_In; eauto.
  Qed.

  Section Sorter.
    Variable t : nat.
    Variable st0 : store.
    Variable l : loc.
    Variable len : nat.
    Variable cols : list col.
    Variable less : sort_less.
    Variable lt : nat -> nat -> bool.
    Hypothesis l_own : lookup st0 l = None.
    Hypothesis cols_ok : Forall (parts_in_bounds st0) cols.
    Hypothesis less_lt : forall a b ca cb,
      cells_val st0 cols (Z.of_nat a) = Ok ca -> cells_val st0 cols (Z.of_nat b) = Ok cb ->
      less (Z.of_nat a) (Z.of_nat b) ca cb = lt a b.

    Let nix := mkSlice l 0 len len.

    Lemma get_nix st i : get_val st nix i = if (i <? len)%nat then idx (read_loc st l) i else Panic.
    Proof. reflexivity. Qed.

    Definition rows_ok (arr : list val) : Prop :=
      Forall (fun v => exists c, cells_val st0 cols (as_z v) = Ok c) arr.

    Lemma rows_ok_idx arr i v : rows_ok arr -> idx arr i = Ok v -> exists c, cells_val st0 cols (as_z v) = Ok c.
    Proof.
      intros H Hi. unfold idx in Hi. destruct (nth_error arr i) eqn:E; [|discriminate]. inversion Hi; subst.
      unfold rows_ok in H. rewrite Forall_forall in H. apply H. eapply nth_error_In; eauto.
    Qed.

    Lemma idx_beyond {X} (a : list X) i : length a <= i -> idx a i = Panic.
    Proof. intro H. unfold idx. replace (nth_error a i) with (@None X); [reflexivity|]. symmetry. apply nth_error_None. exact H. Qed.

    Lemma run_sorter_spec sc : forall n st,
      keeps st0 st -> store_fresh t n st -> length (read_loc st l) = len -> nonneg (read_loc st l) ->
      exists res st',
        run env t (run_sorter nix cols less sc) n st = (res, n, st') /\
        keeps st0 st' /\ store_fresh t n st' /\
        match res with
        | Ok _ => script_run lt sc (ix_of_vals (read_loc st l)) = Ok (ix_of_vals (read_loc st' l)) /\
                  length (read_loc st' l) = len
        | Panic => rows_ok (read_loc st l) -> script_run lt sc (ix_of_vals (read_loc st l)) = Panic
        | Fail => False
        end.
    Proof.
      induction sc as [|i j k IH|i j k IH]; intros n st Hk Hf Hlen Hnn.
      - simpl. exists (Ok tt), st. auto.
      - cbn [run_sorter script_run]. unfold Sort.less.
        pose proof (run_get_z env t nix i n st) as Hgi. rewrite get_nix in Hgi.
        unfold ix_of_vals. rewrite !idx_map.
        destruct (i <? len) eqn:Ei.
        2:{ exists Panic, st. split; [erewrite run_bindO_panic; [reflexivity|exact Hgi]|].
            split; [exact Hk|]. split; [exact Hf|]. intros _.
            rewrite idx_beyond by (apply Nat.ltb_ge in Ei; lia). reflexivity. }
        destruct (idx (read_loc st l) i) as [vi| |] eqn:Evi.
        2:{ unfold idx in Evi. destruct (nth_error (read_loc st l) i); discriminate. }
        2:{ exists Panic, st. split; [erewrite run_bindO_panic; [reflexivity|exact Hgi]|]. auto. }
        erewrite run_bindO_ok; [|exact Hgi].
        pose proof (run_get_z env t nix j n st) as Hgj. rewrite get_nix in Hgj.
        destruct (j <? len) eqn:Ej.
        2:{ exists Panic, st. split; [erewrite run_bindO_panic; [reflexivity|exact Hgj]|].
            split; [exact Hk|]. split; [exact Hf|]. intros _.
            rewrite (idx_beyond (read_loc st l) j) by (apply Nat.ltb_ge in Ej; lia). reflexivity. }
        destruct (idx (read_loc st l) j) as [vj| |] eqn:Evj.
        2:{ unfold idx in Evj. destruct (nth_error (read_loc st l) j); discriminate. }
        2:{ exists Panic, st. split; [erewrite run_bindO_panic; [reflexivity|exact Hgj]|]. auto. }
        erewrite run_bindO_ok; [|exact Hgj].
        pose proof (run_cols_cell env t cols (as_z vi) n st) as Hci.
        rewrite (cells_val_keeps _ _ _ _ Hk cols_ok) in Hci.
        destruct (cells_val st0 cols (as_z vi)) as [ci| |] eqn:Eci.
        2:{ exists Fail, st. split; [erewrite run_bindO_fail; [reflexivity|exact Hci]|].
            exfalso. clear - Eci. unfold cells_val in Eci.
            induction cols as [|c cs IHc]; simpl in Eci; [discriminate|].
            destruct (cell_val st0 c (as_z vi)) eqn:Ec; simpl in Eci; try discriminate.
            - destruct (omap (fun c0 => cell_val st0 c0 (as_z vi)) cs); simpl in Eci; try discriminate. auto.
            - exact (cell_val_not_fail _ _ _ Ec). }
        2:{ exists Panic, st. split; [erewrite run_bindO_panic; [reflexivity|exact Hci]|].
            split; [exact Hk|]. split; [exact Hf|]. intros Hro.
            destruct (rows_ok_idx _ _ _ Hro Evi) as [c Hc]. congruence. }
        erewrite run_bindO_ok; [|exact Hci].
        pose proof (run_cols_cell env t cols (as_z vj) n st) as Hcj.
        rewrite (cells_val_keeps _ _ _ _ Hk cols_ok) in Hcj.
        destruct (cells_val st0 cols (as_z vj)) as [cj| |] eqn:Ecj.
        2:{ exists Fail, st. split; [erewrite run_bindO_fail; [reflexivity|exact Hcj]|].
            exfalso. clear - Ecj. unfold cells_val in Ecj.
            induction cols as [|c cs IHc]; simpl in Ecj; [discriminate|].
            destruct (cell_val st0 c (as_z vj)) eqn:Ec; simpl in Ecj; try discriminate.
            - destruct (omap (fun c0 => cell_val st0 c0 (as_z vj)) cs); simpl in Ecj; try discriminate. auto.
            - exact (cell_val_not_fail _ _ _ Ec). }
        2:{ exists Panic, st. split; [erewrite run_bindO_panic; [reflexivity|exact Hcj]|].
            split; [exact Hk|]. split; [exact Hf|]. intros Hro.
            destruct (rows_ok_idx _ _ _ Hro Evj) as [c Hc]. congruence. }
        erewrite run_bindO_ok; [|exact Hcj].
        assert (Hl : less (as_z vi) (as_z vj) ci cj = lt (row (as_z vi)) (row (as_z vj))).
        { pose proof (nonneg_idx _ _ _ Hnn Evi) as Hpi. pose proof (nonneg_idx _ _ _ Hnn Evj) as Hpj.
          rewrite <- (less_lt (row (as_z vi)) (row (as_z vj)) ci cj); unfold row; rewrite ?Z2Nat.id; auto. }
        rewrite Hl. simpl obind.
        destruct (IH (lt (row (as_z vi)) (row (as_z vj))) n st Hk Hf Hlen Hnn) as (res & st' & Hrun & Hk' & Hf' & Hres).
        exists res, st'. auto.
      - cbn [run_sorter script_run]. unfold Sort.swap.
        pose proof (run_get_z env t nix i n st) as Hgi. rewrite get_nix in Hgi.
        unfold ix_of_vals. rewrite !idx_map.
        destruct (i <? len) eqn:Ei.
        2:{ exists Panic, st. split; [erewrite run_bindO_panic; [reflexivity|exact Hgi]|].
            split; [exact Hk|]. split; [exact Hf|]. intros _.
            rewrite idx_beyond by (apply Nat.ltb_ge in Ei; lia). reflexivity. }
        destruct (idx (read_loc st l) i) as [vi| |] eqn:Evi.
        2:{ unfold idx in Evi. destruct (nth_error (read_loc st l) i); discriminate. }
        2:{ exists Panic, st. split; [erewrite run_bindO_panic; [reflexivity|exact Hgi]|]. auto. }
        erewrite run_bindO_ok; [|exact Hgi].
        pose proof (run_get_z env t nix j n st) as Hgj. rewrite get_nix in Hgj.
        destruct (j <? len) eqn:Ej.
        2:{ exists Panic, st. split; [erewrite run_bindO_panic; [reflexivity|exact Hgj]|].
            split; [exact Hk|]. split; [exact Hf|]. intros _.
            rewrite (idx_beyond (read_loc st l) j) by (apply Nat.ltb_ge in Ej; lia). reflexivity. }
        destruct (idx (read_loc st l) j) as [vj| |] eqn:Evj.
        2:{ unfold idx in Evj. destruct (nth_error (read_loc st l) j); discriminate. }
        2:{ exists Panic, st. split; [erewrite run_bindO_panic; [reflexivity|exact Hgj]|]. auto. }
        erewrite run_bindO_ok; [|exact Hgj].
        set (st1 := write_loc st l (0 + i) (VZ (as_z vj))).
        set (st2 := write_loc st1 l (0 + j) (VZ (as_z vi))).
        assert (Hs1 : run env t (slice_set nix i (VZ (as_z vj))) n st = (Ok tt, n, st1)).
        { rewrite run_slice_set. simpl s_len. rewrite Ei. reflexivity. }
        assert (Hs2 : run env t (slice_set nix j (VZ (as_z vi))) n st1 = (Ok tt, n, st2)).
        { rewrite run_slice_set. simpl s_len. rewrite Ej. reflexivity. }
        erewrite run_bindO_ok; [|exact Hs1]. erewrite run_bindO_ok; [|exact Hs2].
        assert (Hr2 : read_loc st2 l = set_nth (set_nth (read_loc st l) i (VZ (as_z vj))) j (VZ (as_z vi))).
        { unfold st2, st1. rewrite !read_write_same. reflexivity. }
        destruct (IH n st2) as (res & st' & Hrun & Hk' & Hf' & Hres).
        + unfold st2, st1. apply keeps_write; auto. apply keeps_write; auto.
        + unfold st2, st1. apply fresh_write, fresh_write. exact Hf.
        + rewrite Hr2, !set_nth_length. exact Hlen.
        + rewrite Hr2. apply nonneg_set; [apply nonneg_set; auto|].
          * eapply nonneg_idx; eauto.
          * eapply nonneg_idx; eauto.
        + exists res, st'. split; [exact Hrun|]. split; [exact Hk'|]. split; [exact Hf'|].
          rewrite Hr2 in Hres. unfold ix_of_vals in Hres. rewrite !set_nth_map in Hres. simpl in Hres.
          destruct res as [u| |]; auto. simpl obind.
          intro Hro. apply Hres. unfold rows_ok.
          apply Forall_set_nth; [apply Forall_set_nth; [exact Hro|]|]; simpl.
          * eapply rows_ok_idx; eauto.
          * eapply rows_ok_idx; eauto.
    Qed.
  End Sorter.

  Lemma map_get_In kv k c : map_get kv k = Some c -> exists k', In (k', c) kv.
  Proof.
    induction kv as [|[k0 c0] r IH]; simpl; [discriminate|].
    destruct (bytes_eqb k k0).
    - intro H. inversion H; subst. exists k0. left. reflexivity.
    - intro H. destruct (IH H) as [k' Hk']. exists k'. right. exact Hk'.
  Qed.

  Lemma lookup_cols_run t m names n st :
    exists res, run env t (lookup_cols m names) n st = (res, n, st) /\
                forall cs, res = Ok cs -> Forall (fun c => exists k, In (k, c) (map_of st m)) cs.
  Proof.
    unfold lookup_cols.
    assert (H : forall acc, Forall (fun c => exists k, In (k, c) (map_of st m)) acc ->
              exists res, run env t (for_eachO names
                 (fun nm acc => let* oc := by_name_m m nm in
                                Ret (match oc with None => Fail | Some c => Ok (acc ++ [c]) end)) acc) n st = (res, n, st) /\
                forall cs, res = Ok cs -> Forall (fun c => exists k, In (k, c) (map_of st m)) cs).
    { induction names as [|nm names IH]; intros acc Hacc.
      - simpl. exists (Ok acc). split; [reflexivity|]. intros cs Hcs. inversion Hcs; subst. exact Hacc.
      - cbn [for_eachO].
        assert (Hb : run env t (let* oc := by_name_m m nm in
                                Ret (match oc with None => Fail | Some c => Ok (acc ++ [c]) end)) n st
                     = (match map_get (map_of st m) nm with None => Fail | Some c => Ok (acc ++ [c]) end, n, st)).
        { erewrite run_bind_eq; [|apply run_by_name_m]. reflexivity. }
        destruct (map_get (map_of st m) nm) as [c|] eqn:Eg.
        + destruct (IH (acc ++ [c])) as (res & Hrun & Hres).
          { apply Forall_app. split; [exact Hacc|]. constructor; [eapply map_get_In; eauto|constructor]. }
          exists res. split; [|exact Hres]. erewrite run_bindO_ok; [exact Hrun|exact Hb].
        + exists Fail. split; [erewrite run_bindO_fail; [reflexivity|exact Hb]|]. intros cs Hcs. discriminate. }
    apply H. constructor.
  Qed.

  (* QFrame.Sort: the index is copied, the copy is permuted by the sorter script; read at L0 the new index
     is [script_run] (Less / Swap of Model/Sort.v) of the old one; columns, names and Err are untouched.
     [lt] is the L0 reading of Sorter.Less: any function that agrees with [less] on the cells of the sort
     columns.  The theorem speaks about runs that return (a panicking Less - row out of range - has no
     L0 counterpart). *)
  Theorem refines_sort t n st qf f names less script lt cols :
    ref_ok st qf -> abs1 dec st qf = Some f -> store_fresh t n st ->
    q_err qf = false -> names <> [] ->
    fst (fst (run env t (lookup_cols (q_map qf) names) n st)) = Ok cols ->
    nonneg (seg_of st (q_idx qf)) ->
    (forall a b ca cb, cells_val st cols (Z.of_nat a) = Ok ca -> cells_val st cols (Z.of_nat b) = Ok cb ->
                       less (Z.of_nat a) (Z.of_nat b) ca cb = lt a b) ->
    forall qf' n' st', run env t (op_sort names less script qf) n st = (Ok qf', n', st') ->
      keeps st st' /\ store_fresh t n' st' /\ ref_ok st' qf' /\
      exists ids', script_run lt (script (length (Frame.ix f))) (Frame.ix f) = Ok ids' /\
                   abs1 dec st' qf' = Some (Frame.with_ix f ids').
  Proof.
    intros Hok Habs Hf Herr Hnames Hcols Hnn Hless qf' n' st' Hrun.
    destruct (abs1_inv _ _ _ Habs) as (Hc & Hi & He).
    unfold op_sort in Hrun. rewrite Herr in Hrun.
    destruct names as [|n0 nr]; [congruence|].
    destruct (lookup_cols_run t (q_map qf) (n0 :: nr) n st) as (res & Hlr & Hlc).
    rewrite Hlr in Hcols. simpl in Hcols. subst res.
    erewrite run_bind_eq in Hrun; [|exact Hlr]. cbv beta iota in Hrun.
    destruct (index_copy_spec t n st (q_idx qf) Hf (ro_idx _ _ Hok)) as (st2 & Hcopy & Hk2 & Hf2 & Hr2).
    erewrite run_bind_eq in Hrun; [|exact Hcopy].
    assert (Hfr : lookup st (t, n) = None) by (apply Hf; lia).
    assert (Hcols_ok : Forall (parts_in_bounds st) cols).
    { specialize (Hlc cols eq_refl). pose proof (ro_mparts _ _ Hok) as Hm. rewrite Forall_forall in Hm, Hlc.
      apply Forall_forall. intros c Hcin. destruct (Hlc c Hcin) as [k Hk]. apply (Hm (k, c) Hk). }
    assert (Hlen2 : length (read_loc st2 (t, n)) = s_len (q_idx qf)).
    { rewrite Hr2, map_length. apply seg_length. apply (ro_idx _ _ Hok). }
    assert (Hnn2 : nonneg (read_loc st2 (t, n))).
    { rewrite Hr2. clear - Hnn. induction Hnn; simpl; constructor; auto. }
    destruct (run_sorter_spec t st (t, n) (s_len (q_idx qf)) cols less lt Hfr Hcols_ok Hless
                (script (s_len (q_idx qf))) (S n) st2 Hk2 Hf2 Hlen2 Hnn2)
      as (res & st3 & Hsort & Hk3 & Hf3 & Hres).
    simpl s_len in Hrun.
    destruct res as [u| |].
    - erewrite run_bindO_ok in Hrun; [|exact Hsort]. simpl in Hrun. inversion Hrun; subst; clear Hrun.
      destruct Hres as [Hscr Hlen3].
      split; [exact Hk3|]. split; [exact Hf3|].
      pose proof (ref_ok_keeps _ _ _ Hk3 Hok) as [H1 H2 H3 H4 H5 H6 H7].
      split.
      + constructor; auto. split; simpl; lia.
      + exists (ix_of_vals (read_loc st' (t, n))). split.
        * rewrite Hi. rewrite (abs_ix_length _ _ (ro_idx _ _ Hok)).
          rewrite Hr2 in Hscr. unfold ix_of_vals in Hscr at 1. rewrite map_map in Hscr.
          unfold abs_ix. exact Hscr.
        * pose proof (abs1_keeps _ _ _ Hk3 Hok) as Ea. rewrite Habs in Ea.
          destruct (abs1_inv _ _ _ Ea) as (Hc' & _ & _).
          unfold abs1. simpl. rewrite Hc'. unfold Frame.with_ix. rewrite He, Herr. f_equal. f_equal.
          unfold abs_ix, seg_of, slice_seg. simpl. rewrite <- Hlen3, firstn_all. reflexivity.
    - contradiction.
    - erewrite run_bindO_panic in Hrun; [|exact Hsort]. discriminate.
  Qed.

  (* ... and a run of Sort that panics does so because the script itself leaves the index (which
     Model/Sort.v shows the real sorter never does), provided the rows of the index are rows of the sort
     columns (the L0 well-formedness wf_frame) *)
  Theorem refines_sort_panic t n st qf f names less script lt cols :
    ref_ok st qf -> abs1 dec st qf = Some f -> store_fresh t n st ->
    q_err qf = false -> names <> [] ->
    fst (fst (run env t (lookup_cols (q_map qf) names) n st)) = Ok cols ->
    nonneg (seg_of st (q_idx qf)) ->
    Forall (fun v => exists c, cells_val st cols (as_z v) = Ok c) (seg_of st (q_idx qf)) ->
    (forall a b ca cb, cells_val st cols (Z.of_nat a) = Ok ca -> cells_val st cols (Z.of_nat b) = Ok cb ->
                       less (Z.of_nat a) (Z.of_nat b) ca cb = lt a b) ->
    forall res n' st', run env t (op_sort names less script qf) n st = (res, n', st') ->
      match res with
      | Ok _ => True
      | Panic => script_run lt (script (length (Frame.ix f))) (Frame.ix f) = Panic
      | Fail => False
      end.
  Proof.
    intros Hok Habs Hf Herr Hnames Hcols Hnn Hrows Hless res n' st' Hrun.
    destruct (abs1_inv _ _ _ Habs) as (Hc & Hi & He).
    unfold op_sort in Hrun. rewrite Herr in Hrun.
    destruct names as [|n0 nr]; [congruence|].
    destruct (lookup_cols_run t (q_map qf) (n0 :: nr) n st) as (res0 & Hlr & Hlc).
    rewrite Hlr in Hcols. simpl in Hcols. subst res0.
    erewrite run_bind_eq in Hrun; [|exact Hlr]. cbv beta iota in Hrun.
    destruct (index_copy_spec t n st (q_idx qf) Hf (ro_idx _ _ Hok)) as (st2 & Hcopy & Hk2 & Hf2 & Hr2).
    erewrite run_bind_eq in Hrun; [|exact Hcopy].
    assert (Hfr : lookup st (t, n) = None) by (apply Hf; lia).
    assert (Hcols_ok : Forall (parts_in_bounds st) cols).
    { specialize (Hlc cols eq_refl). pose proof (ro_mparts _ _ Hok) as Hm. rewrite Forall_forall in Hm, Hlc.
      apply Forall_forall. intros c Hcin. destruct (Hlc c Hcin) as [k Hk]. apply (Hm (k, c) Hk). }
    assert (Hlen2 : length (read_loc st2 (t, n)) = s_len (q_idx qf)).
    { rewrite Hr2, map_length. apply seg_length. apply (ro_idx _ _ Hok). }
    assert (Hnn2 : nonneg (read_loc st2 (t, n))).
    { rewrite Hr2. clear - Hnn. induction Hnn; simpl; constructor; auto. }
    assert (Hro2 : rows_ok st cols (read_loc st2 (t, n))).
    { rewrite Hr2. unfold rows_ok. clear - Hrows. induction Hrows; simpl; constructor; auto. }
    destruct (run_sorter_spec t st (t, n) (s_len (q_idx qf)) cols less lt Hfr Hcols_ok Hless
                (script (s_len (q_idx qf))) (S n) st2 Hk2 Hf2 Hlen2 Hnn2)
      as (res1 & st3 & Hsort & Hk3 & Hf3 & Hres).
    simpl s_len in Hrun.
    destruct res1 as [u| |].
    - erewrite run_bindO_ok in Hrun; [|exact Hsort]. simpl in Hrun. inversion Hrun; subst. exact I.
    - contradiction.
    - erewrite run_bindO_panic in Hrun; [|exact Hsort]. inversion Hrun; subst.
      specialize (Hres Hro2). rewrite Hi, (abs_ix_length _ _ (ro_idx _ _ Hok)).
      rewrite Hr2 in Hres. unfold ix_of_vals in Hres. rewrite map_map in Hres. exact Hres.
  Qed.

  (* ==================================================================== setColumn *)
  Lemma abs_cols_length st cs : forall ds, abs_cols dec st cs = Some ds -> length ds = length cs.
  Proof.
    induction cs as [|c r IH]; simpl; intros ds H.
    - inversion H; reflexivity.
    - destruct (abs_col dec st c); [|discriminate]. destruct (abs_cols dec st r) as [ds'|]; [|discriminate].
      inversion H; subst. simpl. f_equal. apply IH. reflexivity.
  Qed.

  Lemma abs_cols_app st a b :
    abs_cols dec st (a ++ b) =
    match abs_cols dec st a, abs_cols dec st b with Some x, Some y => Some (x ++ y) | _, _ => None end.
  Proof.
    induction a as [|c r IH]; simpl.
    - destruct (abs_cols dec st b); reflexivity.
    - destruct (abs_col dec st c); [|reflexivity]. rewrite IH.
      destruct (abs_cols dec st r); [|reflexivity]. destruct (abs_cols dec st b); reflexivity.
  Qed.

  Lemma abs_cols_set_nth st c d : abs_col dec st c = Some d -> forall cs ds i,
    abs_cols dec st cs = Some ds -> abs_cols dec st (set_nth cs i c) = Some (set_nth ds i (c_name c, d)).
  Proof.
    intro Hc. induction cs as [|c0 r IH]; intros ds i H; simpl in *.
    - inversion H; subst. destruct i; reflexivity.
    - destruct (abs_col dec st c0) as [d0|] eqn:E0; [|discriminate].
      destruct (abs_cols dec st r) as [ds'|] eqn:Er; [|discriminate]. inversion H; subst.
      destruct i as [|i]; simpl.
      + rewrite Hc, Er. reflexivity.
      + rewrite E0, (IH ds' i eq_refl). reflexivity.
  Qed.

  Lemma map_get_parts st kv k c :
    Forall (fun e => parts_in_bounds st (snd e)) kv -> map_get kv k = Some c -> parts_in_bounds st c.
  Proof.
    intros Hp Hg. destruct (map_get_In _ _ _ Hg) as [k' Hk']. rewrite Forall_forall in Hp. apply (Hp _ Hk').
  Qed.

  Lemma set_column_finish t n st st' qf f name ty parts d pos cnt hdr' cs' :
    ref_ok st qf -> abs1 dec st qf = Some f -> keeps st st' ->
    Forall (in_bounds st) parts -> dec ty (map (seg_of st) parts) = Some d ->
    length (read_loc st' (t, n)) = cnt ->
    map as_col (read_loc st' (t, n)) = hdr' ->
    lookup st' (t, S n) = Some [VMap (map_put (map_copy (map_of st (q_map qf)) []) name (mkCol name pos ty parts))] ->
    abs_cols dec st' hdr' = Some cs' ->
    Forall (parts_in_bounds st') hdr' ->
    (forall name', last_match name' cs' = if bytes_eqb name name' then Some (pos, d) else last_match name' (Frame.cols f)) ->
    ref_ok st' (mkQF (mkSlice (t, n) 0 cnt cnt) (Some (t, S n)) (q_idx qf) (q_err qf)) /\
    abs1 dec st' (mkQF (mkSlice (t, n) 0 cnt cnt) (Some (t, S n)) (q_idx qf) (q_err qf))
      = Some (Frame.mkFrame cs' (Frame.ix f) (Frame.ferr f)).
  Proof.
    intros Hok Habs Hk Hparts Hd Hlen Hhdr Hmap Hcs' Hhp Hlm.
    destruct (abs1_inv _ _ _ Habs) as (Hc & Hi & He).
    set (news := mkCol name pos ty parts) in *.
    set (kv := map_of st (q_map qf)) in *.
    set (qf' := mkQF (mkSlice (t, n) 0 cnt cnt) (Some (t, S n)) (q_idx qf) (q_err qf)).
    assert (Eh : hdr_of st' (q_cols qf') = hdr').
    { unfold hdr_of, seg_of, slice_seg. simpl. rewrite <- Hlen, firstn_all. exact Hhdr. }
    assert (Em : map_of st' (q_map qf') = map_put (map_copy kv []) name news).
    { simpl. unfold read_loc. rewrite Hmap. reflexivity. }
    assert (Hnews : parts_in_bounds st' news).
    { unfold parts_in_bounds. simpl. eapply Forall_impl; [|exact Hparts]. intros s0. apply in_bounds_keeps; auto. }
    assert (Hnewsd : abs_col dec st' news = Some d).
    { unfold abs_col. simpl. rewrite <- Hd. f_equal. clear - Hk Hparts.
      induction Hparts as [|p r Hp Hr IH]; simpl; auto. rewrite IH, (seg_keeps_eq _ _ _ Hk Hp). reflexivity. }
    pose proof Hok as [H1 H2 H3 H4 H5 H6 H7]. fold kv in H4, H5, H7.
    split.
    - constructor.
      + split; simpl; lia.
      + simpl. eapply in_bounds_keeps; eauto.
      + rewrite Eh. exact Hhp.
      + rewrite Em. apply map_put_nodup. apply map_copy_nodup. constructor.
      + rewrite Em. apply map_put_Forall; auto.
        apply map_copy_Forall; auto.
        eapply Forall_impl; [|exact H5]. intros e. apply parts_keeps; auto.
      + intros l Hl. simpl in Hl. inversion Hl; subst. rewrite Hmap. discriminate.
      + intros cs0 Hcs0. rewrite Eh, Hcs' in Hcs0. inversion Hcs0; subst cs0. rewrite Em.
        intro name'. rewrite lookup_from_last, Hlm. rewrite map_get_put, (map_copy_get kv H4). simpl map_get.
        rewrite (bytes_eqb_sym name' name).
        destruct (bytes_eqb name name') eqn:E.
        * apply bytes_eqb_spec in E. subst name'. simpl. auto.
        * pose proof (H7 _ Hc name') as Hr. rewrite lookup_from_last in Hr.
          destruct (map_get kv name') as [c|] eqn:Eg; destruct (last_match name' (Frame.cols f)) as [[p0 d0]|]; auto.
          destruct Hr as (R1 & R2 & R3). repeat split; auto.
          rewrite (abs_col_keeps _ _ _ Hk); auto. eapply map_get_parts; eauto.
    - unfold abs1. rewrite Eh, Hcs'. f_equal. f_equal.
      + simpl. unfold abs_ix. rewrite (seg_keeps_eq _ _ _ Hk H2). symmetry. exact Hi.
      + simpl. symmetry. exact He.
  Qed.

  Lemma as_san_col vs : map as_col (map san_col vs) = map as_col vs.
  Proof. induction vs as [|v r IH]; simpl; auto. f_equal; auto. Qed.

  Theorem refines_set_column t n st qf f name_ok name ty parts d :
    ref_ok st qf -> abs1 dec st qf = Some f -> store_fresh t n st ->
    Forall (in_bounds st) parts -> dec ty (map (seg_of st) parts) = Some d ->
    name_ok = Ops.check_name name ->
    exists qf' n' st',
      run env t (set_column name_ok name ty parts qf) n st = (Ok qf', n', st') /\
      keeps st st' /\ store_fresh t n' st' /\ ref_ok st' qf' /\
      abs1 dec st' qf' = Some (Ops.set_column f name d).
  Proof.
    intros Hok Habs Hf Hparts Hd Hname.
    destruct (abs1_inv _ _ _ Habs) as (Hc & Hi & He).
    unfold Ops.set_column. rewrite <- Hname.
    destruct name_ok.
    2:{ exists (with_err qf), n, st. simpl. split; [reflexivity|].
        split; [apply keeps_refl|]. split; [exact Hf|]. split; [apply with_err_ok; auto|apply with_err_abs; auto]. }
    simpl negb. cbv iota.
    set (kv := map_of st (q_map qf)). set (hdr := hdr_of st (q_cols qf)).
    assert (Hlenh : length hdr = s_len (q_cols qf)).
    { unfold hdr, hdr_of. rewrite map_length. apply seg_length. apply (ro_cols _ _ Hok). }
    assert (Hlenc : length (Frame.cols f) = s_len (q_cols qf)).
    { rewrite <- Hlenh. apply (abs_cols_length _ _ _ Hc). }
    pose proof (ro_map _ _ Hok _ Hc name) as Hrel. fold kv in Hrel. rewrite lookup_from_last in Hrel.
    unfold Frame.lookup. rewrite lookup_from_last.
    pose proof (ro_parts _ _ Hok) as Hhp. fold hdr in Hhp.
    destruct (map_get kv name) as [c|] eqn:Eg; destruct (last_match name (Frame.cols f)) as [[p dold]|] eqn:El;
      try contradiction.
    - (* the column exists: replaced in position *)
      destruct Hrel as (R1 & R2 & R3). simpl in R1.
      pose proof (last_match_lt _ _ _ _ El) as Hp.
      destruct (set_column_run env t n st name ty parts qf Hf (ro_cols _ _ Hok) (ro_mlive _ _ Hok)
                  kv (Some c) (s_len (q_cols qf)) (c_pos c) (s_len (q_cols qf)) (mkCol name (c_pos c) ty parts)
                  eq_refl (eq_sym Eg) eq_refl eq_refl eq_refl eq_refl) as (st' & Hrun & Hk & Hf' & Hr & Hm); [lia|lia|].
      rewrite Nat.sub_diag in Hr. simpl repeat in Hr. rewrite app_nil_r in Hr.
      destruct (set_column_finish t n st st' qf f name ty parts d (c_pos c) (s_len (q_cols qf))
                  (set_nth hdr (c_pos c) (mkCol name (c_pos c) ty parts))
                  (set_nth (Frame.cols f) (c_pos c) (name, d)) Hok Habs Hk Hparts Hd) as [Hok' Habs'].
      + rewrite Hr, set_nth_length, map_length. apply seg_length. apply (ro_cols _ _ Hok).
      + rewrite Hr, set_nth_map, as_san_col. reflexivity.
      + exact Hm.
      + apply (abs_cols_set_nth st' (mkCol name (c_pos c) ty parts) d).
        * unfold abs_col. simpl. rewrite <- Hd. f_equal. clear - Hk Hparts.
          induction Hparts as [|p0 r Hp0 Hr IH]; simpl; auto. rewrite IH, (seg_keeps_eq _ _ _ Hk Hp0). reflexivity.
        * rewrite (abs_cols_keeps _ _ _ Hk Hhp). exact Hc.
      + apply Forall_set_nth.
        * eapply Forall_impl; [|exact Hhp]. intros c0. apply parts_keeps; auto.
        * unfold parts_in_bounds. simpl. eapply Forall_impl; [|exact Hparts]. intros s0. apply in_bounds_keeps; auto.
      + intro name'. rewrite R1. apply (last_match_set name name' (Frame.cols f) d p dold El).
      + eexists _, _, st'. split; [exact Hrun|]. split; [exact Hk|]. split; [exact Hf'|]. split; [exact Hok'|].
        rewrite Habs'. rewrite R1. simpl. reflexivity.
    - (* a new column: appended *)
      destruct (set_column_run env t n st name ty parts qf Hf (ro_cols _ _ Hok) (ro_mlive _ _ Hok)
                  kv None (s_len (q_cols qf)) (s_len (q_cols qf)) (S (s_len (q_cols qf)))
                  (mkCol name (s_len (q_cols qf)) ty parts)
                  eq_refl (eq_sym Eg) eq_refl eq_refl eq_refl eq_refl) as (st' & Hrun & Hk & Hf' & Hr & Hm); [lia|lia|].
      replace (S (s_len (q_cols qf)) - s_len (q_cols qf)) with 1 in Hr by lia. simpl repeat in Hr.
      assert (Hvs : length (map san_col (seg_of st (q_cols qf))) = s_len (q_cols qf)).
      { rewrite map_length. apply seg_length. apply (ro_cols _ _ Hok). }
      pose proof (set_nth_snoc (map san_col (seg_of st (q_cols qf))) empty_col_val
                    (VCol (mkCol name (s_len (q_cols qf)) ty parts))) as Hsn.
      rewrite Hvs in Hsn. rewrite Hsn in Hr. clear Hsn.
      destruct (set_column_finish t n st st' qf f name ty parts d (s_len (q_cols qf)) (S (s_len (q_cols qf)))
                  (hdr ++ [mkCol name (s_len (q_cols qf)) ty parts])
                  (Frame.cols f ++ [(name, d)]) Hok Habs Hk Hparts Hd) as [Hok' Habs'].
      + rewrite Hr, app_length, Hvs. simpl. lia.
      + rewrite Hr, map_app, as_san_col. reflexivity.
      + exact Hm.
      + rewrite abs_cols_app. rewrite (abs_cols_keeps _ _ _ Hk Hhp). fold hdr in Hc. rewrite Hc. simpl.
        replace (abs_col dec st' (mkCol name (s_len (q_cols qf)) ty parts)) with (Some d); [reflexivity|].
        unfold abs_col. simpl. rewrite <- Hd. f_equal. clear - Hk Hparts.
        induction Hparts as [|p0 r Hp0 Hr IH]; simpl; auto. rewrite IH, (seg_keeps_eq _ _ _ Hk Hp0). reflexivity.
      + apply Forall_app. split.
        * eapply Forall_impl; [|exact Hhp]. intros c0. apply parts_keeps; auto.
        * constructor; [|constructor]. unfold parts_in_bounds. simpl.
          eapply Forall_impl; [|exact Hparts]. intros s0. apply in_bounds_keeps; auto.
      + intro name'. rewrite last_match_app, Hlenc. reflexivity.
      + eexists _, _, st'. split; [exact Hrun|]. split; [exact Hk|]. split; [exact Hf'|]. split; [exact Hok'|].
        rewrite Habs'. reflexivity.
  Qed.

  (* ==================================================================== Copy *)
  Theorem refines_copy t n st qf f name_ok dst src :
    ref_ok st qf -> abs1 dec st qf = Some f -> store_fresh t n st ->
    name_ok = Ops.check_name dst ->
    exists qf' n' st',
      run env t (op_copy name_ok dst src qf) n st = (Ok qf', n', st') /\
      keeps st st' /\ store_fresh t n' st' /\ ref_ok st' qf' /\
      abs1 dec st' qf' = Some (Ops.copy f dst src).
  Proof.
    intros Hok Habs Hf Hname.
    destruct (abs1_inv _ _ _ Habs) as (Hc & Hi & He).
    unfold op_copy, Ops.copy. rewrite He.
    destruct (q_err qf) eqn:Eerr.
    { exists qf, n, st. split; [reflexivity|]. split; [apply keeps_refl|]. auto. }
    pose proof (ro_map _ _ Hok _ Hc src) as Hrel. rewrite lookup_from_last in Hrel.
    unfold Frame.lookup_col, Frame.lookup. rewrite lookup_from_last.
    unfold by_name. erewrite run_bind_eq; [|apply run_by_name_m].
    destruct (map_get (map_of st (q_map qf)) src) as [c|] eqn:Eg;
      destruct (last_match src (Frame.cols f)) as [[p d]|] eqn:El; try contradiction.
    - destruct Hrel as (R1 & R2 & R3). simpl option_map.
      destruct (bytes_eqb dst src).
      + exists qf, n, st. split; [reflexivity|]. split; [apply keeps_refl|]. auto.
      + apply refines_set_column; auto.
        eapply map_get_parts; [apply (ro_mparts _ _ Hok)|exact Eg].
    - simpl. exists (with_err qf), n, st. split; [reflexivity|]. split; [apply keeps_refl|].
      split; [exact Hf|]. split; [apply with_err_ok; auto|apply with_err_abs; auto].
  Qed.

  (* ==================================================================== Select *)
  Definition lcol (cs : list (bytes * Frame.coldata)) (n : bytes) : option Frame.coldata :=
    option_map snd (last_match n cs).
  Definition l0_sel (cs : list (bytes * Frame.coldata)) (names : list bytes) : list (bytes * Frame.coldata) :=
    flat_map (fun n => match lcol cs n with Some c => [(n, c)] | None => [] end) names.

  Lemma lookup_col_last f n : Frame.lookup_col f n = lcol (Frame.cols f) n.
  Proof.
    unfold Frame.lookup_col, Frame.lookup, lcol. rewrite lookup_from_last.
    destruct (last_match n (Frame.cols f)) as [[i d]|]; reflexivity.
  Qed.

  Lemma contains_last f n : Frame.contains f n = match last_match n (Frame.cols f) with Some _ => true | None => false end.
  Proof.
    unfold Frame.contains, Frame.lookup. rewrite lookup_from_last.
    destruct (last_match n (Frame.cols f)) as [[i d]|]; reflexivity.
  Qed.

  Section Sel.
    Variables (st st' : store) (kv : list (bytes * col)) (cs : list (bytes * Frame.coldata)).
    Hypothesis Hk : keeps st st'.
    Hypothesis Hrel : map_rel st kv cs.
    Hypothesis Hmp : Forall (fun e => parts_in_bounds st (snd e)) kv.

    Lemma sel_present nm : has_key kv nm = true ->
      exists c p d, map_get kv nm = Some c /\ last_match nm cs = Some (p, d) /\
                    c_name c = nm /\ abs_col dec st' c = Some d /\ parts_in_bounds st' c.
    Proof.
      unfold has_key. intro H. pose proof (Hrel nm) as R. rewrite lookup_from_last in R.
      destruct (map_get kv nm) as [c|] eqn:Eg; [|discriminate].
      destruct (last_match nm cs) as [[p d]|]; [|contradiction]. destruct R as (R1 & R2 & R3).
      exists c, p, d. repeat split; auto.
      - rewrite (abs_col_keeps _ _ _ Hk); auto. eapply map_get_parts; eauto.
      - eapply parts_keeps; eauto. eapply map_get_parts; eauto.
    Qed.

    Lemma sel_abs names : forallb (has_key kv) names = true -> forall k0,
      abs_cols dec st' (map (sel_col kv) (combine (seq k0 (length names)) names)) = Some (l0_sel cs names) /\
      Forall (parts_in_bounds st') (map (sel_col kv) (combine (seq k0 (length names)) names)).
    Proof.
      induction names as [|nm r IH]; intros Hall k0; simpl; [split; [reflexivity|constructor]|].
      simpl in Hall. apply andb_true_iff in Hall as [H1 H2].
      destruct (sel_present nm H1) as (c & p & d & Eg & El & En & Ea & Ep).
      destruct (IH H2 (S k0)) as [IHa IHp].
      unfold l0_sel in *. simpl. unfold lcol at 1. rewrite El. simpl.
      unfold sel_col at 1. simpl. rewrite Eg.
      replace (abs_col dec st' (set_pos c k0)) with (abs_col dec st' c) by reflexivity.
      rewrite Ea, IHa. simpl. rewrite En. split; [reflexivity|].
      constructor; [|exact IHp]. unfold sel_col. simpl. rewrite Eg. exact Ep.
    Qed.

    Lemma sel_map_rel names : forallb (has_key kv) names = true -> forall k0 acc name',
      match map_get (map_copy (sel_entries kv (combine (seq k0 (length names)) names)) acc) name',
            last_match name' (l0_sel cs names) with
      | Some c, Some (j, d) => c_pos c = k0 + j /\ c_name c = name' /\ abs_col dec st' c = Some d
      | Some c, None => map_get acc name' = Some c
      | None, None => map_get acc name' = None
      | None, Some _ => False
      end.
    Proof.
      induction names as [|nm r IH]; intros Hall k0 acc name'.
      - simpl. destruct (map_get acc name'); auto.
      - simpl in Hall. apply andb_true_iff in Hall as [H1 H2].
        destruct (sel_present nm H1) as (c & p & d & Eg & El & En & Ea & Ep).
        assert (El0 : l0_sel cs (nm :: r) = (nm, d) :: l0_sel cs r).
        { unfold l0_sel. simpl. unfold lcol at 1. rewrite El. reflexivity. }
        rewrite El0. cbn [last_match].
        unfold map_copy. simpl. fold (map_copy (sel_entries kv (combine (seq (S k0) (length r)) r))
                                              (map_put acc nm (sel_col kv (k0, nm)))).
        specialize (IH H2 (S k0) (map_put acc nm (sel_col kv (k0, nm))) name').
        destruct (map_get (map_copy (sel_entries kv (combine (seq (S k0) (length r)) r))
                                    (map_put acc nm (sel_col kv (k0, nm)))) name') as [c1|] eqn:Em;
          destruct (last_match name' (l0_sel cs r)) as [[j d1]|] eqn:Elm.
        + destruct IH as (I1 & I2 & I3). repeat split; auto. lia.
        + rewrite map_get_put in IH. rewrite (bytes_eqb_sym nm name').
          destruct (bytes_eqb name' nm) eqn:E.
          * inversion IH; subst c1. apply bytes_eqb_spec in E. subst name'.
            unfold sel_col. simpl. rewrite Eg. simpl. repeat split; auto.
          * exact IH.
        + contradiction.
        + rewrite map_get_put in IH. rewrite (bytes_eqb_sym nm name').
          destruct (bytes_eqb name' nm); [discriminate|exact IH].
    Qed.
  End Sel.

  Lemma zero_frame_ok st : ref_ok st zero_frame.
  Proof.
    constructor; simpl; try apply nil_in_bounds; try constructor.
    - intros l H. discriminate.
    - intros cs0 H name. unfold hdr_of, seg_of, slice_seg in H. simpl in H. inversion H; subst. simpl. exact I.
  Qed.

  Theorem refines_select t n st qf f names :
    ref_ok st qf -> abs1 dec st qf = Some f -> store_fresh t n st ->
    exists qf' n' st',
      run env t (op_select names qf) n st = (Ok qf', n', st') /\
      keeps st st' /\ store_fresh t n' st' /\ ref_ok st' qf' /\
      abs1 dec st' qf' = Some (Ops.select f names).
  Proof.
    intros Hok Habs Hf. destruct (abs1_inv _ _ _ Habs) as (Hc & Hi & He).
    unfold op_select, Ops.select. rewrite He.
    destruct (q_err qf) eqn:Eerr.
    { exists qf, n, st. split; [reflexivity|]. split; [apply keeps_refl|]. auto. }
    erewrite run_bind_eq; [|apply run_check_columns].
    set (kv := map_of st (q_map qf)).
    pose proof (ro_map _ _ Hok _ Hc) as Hrel. fold kv in Hrel.
    assert (Hall : forallb (Frame.contains f) names = forallb (has_key kv) names).
    { clear - Hrel. induction names as [|nm r IH]; simpl; auto. rewrite IH. f_equal.
      rewrite contains_last. unfold has_key. specialize (Hrel nm). rewrite lookup_from_last in Hrel.
      destruct (map_get kv nm); destruct (last_match nm (Frame.cols f)) as [[p d]|]; auto; contradiction. }
    rewrite Hall.
    destruct (forallb (has_key kv) names) eqn:Eall; simpl negb; cbv iota.
    2:{ exists (with_err qf), n, st. split; [reflexivity|]. split; [apply keeps_refl|].
        split; [exact Hf|]. split; [apply with_err_ok; auto|apply with_err_abs; auto]. }
    destruct names as [|nm0 nr] eqn:Enames.
    { exists zero_frame, n, st. split; [reflexivity|]. split; [apply keeps_refl|]. split; [exact Hf|].
      split; [apply zero_frame_ok|]. reflexivity. }
    assert (Hnn : names <> []) by (rewrite Enames; discriminate).
    rewrite <- Enames in *. clear Enames.
    (* the two allocations *)
    set (nm := (t, n)). set (ncb := (t, S n)). set (ntot := length names).
    set (st1 := update st nm [VMap []]).
    set (st2 := update st1 ncb (repeat empty_col_val ntot)).
    assert (Hfr0 : lookup st nm = None) by (apply Hf; lia).
    assert (Hfr1 : lookup st ncb = None) by (apply Hf; lia).
    assert (Hne : nm <> ncb) by (intro E; inversion E; lia).
    assert (Hk2 : keeps st st2).
    { eapply keeps_trans; [apply keeps_update; exact Hfr0|]. apply keeps_update.
      unfold st1. rewrite lookup_update_other; auto. }
    assert (Hlm : forall lm, q_map qf = Some lm -> lm <> nm /\ lm <> ncb).
    { intros lm Hq. pose proof (ro_mlive _ _ Hok lm Hq) as Hl. split; intros ->; congruence. }
    destruct (select_loop env t nm ncb qf kv ntot Hne Hlm names 0 [] [] (S (S n)) st2) as (st' & Hloop & Hl' & Hr' & Hoth).
    { apply map_of_keeps'; [exact Hk2|apply (ro_mlive _ _ Hok)]. }
    { unfold st2. rewrite lookup_update_other by exact Hne. unfold st1. apply lookup_update_same. }
    { eexists. unfold st2. apply lookup_update_same. }
    { unfold st2. rewrite read_update_same. reflexivity. }
    { reflexivity. }
    { reflexivity. }
    assert (Hk' : keeps st st').
    { intros l a Hl. destruct (loc_eq_dec l nm) as [->|N1]; [congruence|].
      destruct (loc_eq_dec l ncb) as [->|N2]; [congruence|]. rewrite Hoth by auto. apply Hk2. exact Hl. }
    assert (Hf' : store_fresh t (S (S n)) st').
    { intros k Hk. rewrite Hoth; [|intro E; inversion E; lia|intro E; inversion E; lia].
      unfold st2, st1. apply (fresh_update t (S n)); [apply fresh_update; exact Hf|exact Hk]. }
    set (L := combine (seq 0 (length names)) names) in *.
    destruct (sel_abs st st' kv (Frame.cols f) Hk' Hrel (ro_mparts _ _ Hok) names Eall 0) as [Habs' Hparts'].
    fold L in Habs', Hparts'.
    set (qf' := mkQF (mkSlice ncb 0 ntot ntot) (Some nm) (q_idx qf) false).
    assert (Hlen' : length (read_loc st' ncb) = ntot).
    { rewrite Hr'. simpl. rewrite map_length. unfold L. rewrite combine_length, seq_length. unfold ntot. lia. }
    assert (Eh : hdr_of st' (q_cols qf') = map (sel_col kv) L).
    { unfold hdr_of, seg_of, slice_seg. simpl. rewrite <- Hlen', firstn_all, Hr'. simpl. rewrite map_map. reflexivity. }
    assert (Em : map_of st' (q_map qf') = map_copy (sel_entries kv L) []).
    { simpl. unfold read_loc. rewrite Hl'. reflexivity. }
    exists qf', (S (S n)), st'. split; [|split; [exact Hk'|split; [exact Hf'|split]]].
    - destruct names as [|x y]; [congruence|].
      erewrite run_bind_eq; [|apply run_map_make]. fold nm st1.
      erewrite run_bind_eq; [|apply run_make]. fold ncb st2.
      erewrite run_bindO_ok; [|exact Hloop]. reflexivity.
    - pose proof Hok as [H1 H2 H3 H4 H5 H6 H7]. constructor.
      + split; simpl; lia.
      + simpl. eapply in_bounds_keeps; eauto.
      + rewrite Eh. exact Hparts'.
      + rewrite Em. apply map_copy_nodup. constructor.
      + rewrite Em. apply map_copy_Forall; auto.
        unfold sel_entries. apply Forall_map. rewrite Forall_map in Hparts'. exact Hparts'.
      + intros l Hl. simpl in Hl. inversion Hl; subst. rewrite Hl'. discriminate.
      + intros cs0 Hcs0. rewrite Eh, Habs' in Hcs0. inversion Hcs0; subst cs0. rewrite Em.
        intro name'. rewrite lookup_from_last.
        pose proof (sel_map_rel st st' kv (Frame.cols f) Hk' Hrel (ro_mparts _ _ Hok) names Eall 0 [] name') as R.
        fold L in R.
        destruct (map_get (map_copy (sel_entries kv L) []) name') as [c1|];
          destruct (last_match name' (l0_sel (Frame.cols f) names)) as [[j d1]|]; auto.
        simpl in R. discriminate.
    - unfold abs1. rewrite Eh, Habs'. destruct names as [|x y]; [congruence|].
      f_equal. f_equal.
      + unfold l0_sel. apply flat_map_ext. intro a. rewrite lookup_col_last. reflexivity.
      + simpl. unfold abs_ix. rewrite (seg_keeps_eq _ _ _ Hk' (ro_idx _ _ Hok)). symmetry. exact Hi.
  Qed.
End Refine.

(* ==================================================================== Drop *)
Section DropRefine.
  Variable env : fnid -> list val -> val.
  Variable dec : decoder.

  Lemma run_read_cols t s n st : run env t (read_cols s) n st = (hdr_of st s, n, st).
  Proof. unfold read_cols. rewrite (run_bind_eq env _ _ _ _ _ _ _ _ (run_slice_read env t s n st)). reflexivity. Qed.

  Lemma abs_cols_names st cs : forall ds, abs_cols dec st cs = Some ds -> map fst ds = map c_name cs.
  Proof.
    induction cs as [|c r IH]; simpl; intros ds H.
    - inversion H; reflexivity.
    - destruct (abs_col dec st c); [|discriminate]. destruct (abs_cols dec st r) as [ds'|]; [|discriminate].
      inversion H; subst. simpl. f_equal. apply IH. reflexivity.
  Qed.

  Lemma map_filter_comm {X Y} (g : X -> Y) (p : Y -> bool) (l : list X) :
    map g (filter (fun x => p (g x)) l) = filter p (map g l).
  Proof. induction l as [|x l IH]; simpl; auto. destruct (p (g x)); simpl; rewrite IH; reflexivity. Qed.

  Theorem refines_drop t n st qf f names :
    ref_ok dec st qf -> abs1 dec st qf = Some f -> store_fresh t n st ->
    exists qf' n' st',
      run env t (op_drop names qf) n st = (Ok qf', n', st') /\
      keeps st st' /\ store_fresh t n' st' /\ ref_ok dec st' qf' /\
      abs1 dec st' qf' = Some (Ops.drop f names).
  Proof.
    intros Hok Habs Hf. destruct (abs1_inv _ _ _ _ Habs) as (Hc & Hi & He).
    unfold op_drop, Ops.drop. rewrite He.
    destruct (q_err qf) eqn:Eerr.
    { exists qf, n, st. split; [reflexivity|]. split; [apply keeps_refl|]. auto. }
    destruct names as [|n0 nr].
    { exists qf, n, st. split; [reflexivity|]. split; [apply keeps_refl|]. auto. }
    erewrite run_bind_eq; [|apply run_read_cols].
    unfold Frame.col_names. rewrite (abs_cols_names _ _ _ Hc).
    rewrite (map_filter_comm c_name (fun nm => negb (existsb (bytes_eqb nm) (n0 :: nr)))).
    apply refines_select; auto.
  Qed.
End DropRefine.

(* ==================================================================== orFrames / NotClause.filter *)
Lemma skipn_cons_S {X} (l : list X) j x l' : skipn j l = x :: l' -> skipn (S j) l = l'.
Proof.
  revert l. induction j as [|j IH]; intros [|y l] H; simpl in *; try discriminate.
  - inversion H; reflexivity.
  - apply IH. exact H.
Qed.

Section Merges.
  Variable env : fnid -> list val -> val.
  Variable dec : decoder.

  Lemma row_eqb x y : (0 <= x)%Z -> (0 <= y)%Z -> Nat.eqb (row x) (row y) = (x =? y)%Z.
  Proof.
    intros Hx Hy. unfold row. destruct (x =? y)%Z eqn:E.
    - apply Z.eqb_eq in E. subst. apply Nat.eqb_refl.
    - apply Z.eqb_neq in E. apply Nat.eqb_neq. intro H. apply E. apply Z2Nat.inj; auto.
  Qed.

  (* one probe of orFrames / Not: the cursor j into [other] against the current row ix *)
  Lemma step2_run t other j ix n st0 st :
    keeps st0 st -> in_bounds st0 other -> nonneg (seg_of st0 other) -> (0 <= ix)%Z ->
    run env t (step2 (j <? s_len other)%nat other j ix) n st =
    (Ok (match skipn j (abs_ix st0 other) with
         | x :: _ => if Nat.eqb x (row ix) then (true, S j) else (false, j)
         | [] => (false, j)
         end), n, st).
  Proof.
    intros Hk Hb Hnn Hix. unfold step2.
    pose proof (seg_length _ _ Hb) as Hlen.
    destruct (j <? s_len other) eqn:E.
    - apply Nat.ltb_lt in E.
      pose proof (run_get_z env t other j n st) as Hg.
      rewrite get_val_seg in Hg by (eapply in_bounds_keeps; eauto).
      rewrite (seg_keeps_eq _ _ _ Hk Hb) in Hg. unfold idx in Hg.
      destruct (nth_error (seg_of st0 other) j) as [v|] eqn:En.
      2:{ apply nth_error_None in En. lia. }
      simpl in Hg. erewrite run_bindO_ok; [|exact Hg]. simpl.
      assert (Esk : skipn j (abs_ix st0 other) = row (as_z v) :: skipn (S j) (abs_ix st0 other)).
      { apply skipn_nth_cons. unfold abs_ix. rewrite nth_error_map, En. reflexivity. }
      rewrite Esk. rewrite row_eqb; auto.
      unfold nonneg in Hnn. rewrite Forall_forall in Hnn. apply Hnn. eapply nth_error_In; eauto.
    - apply Nat.ltb_ge in E. simpl.
      rewrite skipn_all2 by (unfold abs_ix; rewrite map_length; lia). reflexivity.
  Qed.

  Section OrLoop.
    Variables (t : nat) (st0 : store) (l r : slice).
    Hypothesis Hl : in_bounds st0 l.
    Hypothesis Hr : in_bounds st0 r.
    Hypothesis Hln : nonneg (seg_of st0 l).
    Hypothesis Hrn : nonneg (seg_of st0 r).

    Lemma or_loop_spec : forall oix res li ri n st,
      Forall (fun z => (0 <= z)%Z) oix ->
      keeps st0 st -> store_fresh t n st -> in_bounds st res -> own_in st0 res ->
      exists res' li' ri' n' st',
        run env t (for_eachO oix
           (fun ix (st : slice * nat * nat) =>
              let '(r0, li, ri) := st in
              let? f1 := step2 (li <? s_len l)%nat l li ix in
              let? f2 := step2 (ri <? s_len r)%nat r ri ix in
              if (fst f1 || fst f2)%bool
              then let* r' := slice_append r0 (VZ ix) in Ret (Ok (r', snd f1, snd f2))
              else Ret (Ok (r0, snd f1, snd f2))) (res, li, ri)) n st = (Ok (res', li', ri'), n', st') /\
        keeps st0 st' /\ store_fresh t n' st' /\ in_bounds st' res' /\
        abs_ix st' res' = abs_ix st res ++
                          Filter.or_merge (map row oix) (skipn li (abs_ix st0 l)) (skipn ri (abs_ix st0 r)).
    Proof.
      induction oix as [|ix oix IH]; intros res li ri n st Hnn Hk Hf Hb Hown.
      - simpl. exists res, li, ri, n, st. rewrite app_nil_r. auto.
      - inversion Hnn as [|? ? Hix Hnn']; subst. cbn [for_eachO map Filter.or_merge].
        pose proof (step2_run t l li ix n st0 st Hk Hl Hln Hix) as H1.
        pose proof (step2_run t r ri ix n st0 st Hk Hr Hrn Hix) as H2.
        set (f1 := match skipn li (abs_ix st0 l) with
                   | x :: _ => if Nat.eqb x (row ix) then (true, S li) else (false, li) | [] => (false, li) end) in *.
        set (f2 := match skipn ri (abs_ix st0 r) with
                   | x :: _ => if Nat.eqb x (row ix) then (true, S ri) else (false, ri) | [] => (false, ri) end) in *.
        assert (E1 : match skipn li (abs_ix st0 l) with
                     | x :: l' => if Nat.eqb x (row ix) then (true, l') else (false, skipn li (abs_ix st0 l))
                     | [] => (false, skipn li (abs_ix st0 l)) end = (fst f1, skipn (snd f1) (abs_ix st0 l))).
        { unfold f1. destruct (skipn li (abs_ix st0 l)) as [|x l'] eqn:Es; [simpl; rewrite Es; reflexivity|].
          destruct (Nat.eqb x (row ix)); simpl; [|rewrite Es; reflexivity].
          f_equal. symmetry. apply (skipn_cons_S _ _ _ _ Es). }
        assert (E2 : match skipn ri (abs_ix st0 r) with
                     | x :: l' => if Nat.eqb x (row ix) then (true, l') else (false, skipn ri (abs_ix st0 r))
                     | [] => (false, skipn ri (abs_ix st0 r)) end = (fst f2, skipn (snd f2) (abs_ix st0 r))).
        { unfold f2. destruct (skipn ri (abs_ix st0 r)) as [|x l'] eqn:Es; [simpl; rewrite Es; reflexivity|].
          destruct (Nat.eqb x (row ix)); simpl; [|rewrite Es; reflexivity].
          f_equal. symmetry. apply (skipn_cons_S _ _ _ _ Es). }
        rewrite E1, E2.
        destruct (fst f1 || fst f2) eqn:Ef.
        + destruct (append_spec env t res (VZ ix) n st0 st Hk Hf Hb Hown)
            as (r1 & n1 & st1 & Hrun & Hseg & Hb1 & _ & Hk1 & Hf1 & _ & Hown1 & _).
          destruct (IH r1 (snd f1) (snd f2) n1 st1 Hnn' Hk1 Hf1 Hb1 Hown1)
            as (res' & li' & ri' & n' & st' & Hloop & Hk' & Hf' & Hb' & Ha').
          exists res', li', ri', n', st'. split; [|split; [exact Hk'|split; [exact Hf'|split; [exact Hb'|]]]].
          * erewrite run_bindO_ok; [exact Hloop|].
            erewrite run_bindO_ok; [|exact H1]. erewrite run_bindO_ok; [|exact H2]. rewrite Ef.
            erewrite run_bind_eq; [|exact Hrun]. reflexivity.
          * rewrite Ha'. unfold abs_ix at 1. rewrite Hseg, map_app. simpl. rewrite <- app_assoc. reflexivity.
        + destruct (IH res (snd f1) (snd f2) n st Hnn' Hk Hf Hb Hown)
            as (res' & li' & ri' & n' & st' & Hloop & Hk' & Hf' & Hb' & Ha').
          exists res', li', ri', n', st'. split; [|split; [exact Hk'|split; [exact Hf'|split; [exact Hb'|exact Ha']]]].
          erewrite run_bindO_ok; [exact Hloop|].
          erewrite run_bindO_ok; [|exact H1]. erewrite run_bindO_ok; [|exact H2]. rewrite Ef. reflexivity.
    Qed.
  End OrLoop.

  Lemma nonneg_as_z vs : nonneg vs -> Forall (fun z => (0 <= z)%Z) (map as_z vs).
  Proof. intro H. induction H; simpl; constructor; auto. Qed.

  Lemma with_index_ok st qf s : ref_ok dec st qf -> in_bounds st s -> ref_ok dec st (with_index qf s).
  Proof. intros [H1 H2 H3 H4 H5 H6 H7] Hs. constructor; auto. Qed.

  Lemma with_index_abs st qf f s :
    abs1 dec st qf = Some f -> abs1 dec st (with_index qf s) = Some (Frame.with_ix f (abs_ix st s)).
  Proof.
    intro H. destruct (abs1_inv _ _ _ _ H) as (Hc & Hi & He). unfold abs1. simpl. rewrite Hc.
    unfold Frame.with_ix. rewrite He. reflexivity.
  Qed.

  (* orFrames(original, lhs, rhs) *)
  Theorem refines_or_frames t n st orig l rhs fo fl fr :
    ref_ok dec st orig -> ref_ok dec st l -> ref_ok dec st rhs ->
    abs1 dec st orig = Some fo -> abs1 dec st l = Some fl -> abs1 dec st rhs = Some fr ->
    nonneg (seg_of st (q_idx orig)) -> nonneg (seg_of st (q_idx l)) -> nonneg (seg_of st (q_idx rhs)) ->
    store_fresh t n st ->
    exists qf' n' st',
      run env t (or_frames orig (Some l) rhs) n st = (Ok qf', n', st') /\
      keeps st st' /\ store_fresh t n' st' /\ ref_ok dec st' qf' /\
      abs1 dec st' qf' = Some (Filter.or_frames fo (Some fl) fr).
  Proof.
    intros Hoo Hol Hor Hao Hal Har Hno Hnl Hnr Hf.
    destruct (abs1_inv _ _ _ _ Hao) as (_ & Hio & _).
    destruct (abs1_inv _ _ _ _ Hal) as (_ & Hil & Hel).
    destruct (abs1_inv _ _ _ _ Har) as (_ & Hir & Her).
    unfold or_frames, Filter.or_frames. rewrite Hel, Her.
    destruct (q_err l). { exists l, n, st. split; [reflexivity|]. split; [apply keeps_refl|]. auto. }
    destruct (q_err rhs). { exists rhs, n, st. split; [reflexivity|]. split; [apply keeps_refl|]. auto. }
    set (c := Nat.max (s_len (q_idx l)) (s_len (q_idx rhs))).
    set (st1 := update st (t, n) (repeat (VZ 0) c)).
    set (r0 := mkSlice (t, n) 0 0 c).
    assert (Hfr : lookup st (t, n) = None) by (apply Hf; lia).
    assert (Hk1 : keeps st st1) by (apply keeps_update; exact Hfr).
    assert (Hr0 : in_bounds st1 r0).
    { split; simpl; [lia|]. unfold st1. rewrite read_update_same, repeat_length. lia. }
    destruct (or_loop_spec t st (q_idx l) (q_idx rhs) (ro_idx _ _ _ Hol) (ro_idx _ _ _ Hor) Hnl Hnr
                (map as_z (seg_of st (q_idx orig))) r0 0 0 (S n) st1 (nonneg_as_z _ Hno) Hk1
                (fresh_update _ _ _ _ Hf) Hr0 (or_intror Hfr))
      as (res' & li' & ri' & n' & st' & Hloop & Hk' & Hf' & Hb' & Ha').
    exists (with_index orig res'), n', st'. split; [|split; [exact Hk'|split; [exact Hf'|split]]].
    - erewrite run_bind_eq; [|apply run_make]. fold st1 r0 c.
      erewrite run_bind_eq; [|apply run_read_zs].
      rewrite (seg_keeps_eq _ _ _ Hk1 (ro_idx _ _ _ Hoo)).
      erewrite run_bindO_ok; [|exact Hloop]. reflexivity.
    - apply with_index_ok; [eapply ref_ok_keeps; eauto|exact Hb'].
    - rewrite (with_index_abs st' orig fo).
      + f_equal. f_equal. rewrite Ha'. simpl. rewrite Hio, Hil, Hir. unfold abs_ix at 2. rewrite map_map. reflexivity.
      + rewrite (abs1_keeps _ _ _ _ Hk' Hoo). exact Hao.
  Qed.

  Section NotLoop.
    Variables (t : nat) (st0 : store) (sub : slice).
    Hypothesis Hs : in_bounds st0 sub.
    Hypothesis Hsn : nonneg (seg_of st0 sub).

    Lemma not_loop_spec : forall oix res j n st,
      Forall (fun z => (0 <= z)%Z) oix ->
      keeps st0 st -> store_fresh t n st -> in_bounds st res -> own_in st0 res ->
      exists res' j' n' st',
        run env t (for_eachO oix
           (fun ix (st : slice * nat) =>
              let '(r0, j) := st in
              let? f := step2 (j <? s_len sub)%nat sub j ix in
              if fst f then Ret (Ok (r0, snd f))
              else let* r' := slice_append r0 (VZ ix) in Ret (Ok (r', snd f))) (res, j)) n st = (Ok (res', j'), n', st') /\
        keeps st0 st' /\ store_fresh t n' st' /\ in_bounds st' res' /\
        abs_ix st' res' = abs_ix st res ++ Filter.not_merge (map row oix) (skipn j (abs_ix st0 sub)).
    Proof.
      induction oix as [|ix oix IH]; intros res j n st Hnn Hk Hf Hb Hown.
      - simpl. exists res, j, n, st. rewrite app_nil_r. auto.
      - inversion Hnn as [|? ? Hix Hnn']; subst. cbn [for_eachO map Filter.not_merge].
        pose proof (step2_run t sub j ix n st0 st Hk Hs Hsn Hix) as H1.
        destruct (skipn j (abs_ix st0 sub)) as [|x sub'] eqn:Es.
        + destruct (append_spec env t res (VZ ix) n st0 st Hk Hf Hb Hown)
            as (r1 & n1 & st1 & Hrun & Hseg & Hb1 & _ & Hk1 & Hf1 & _ & Hown1 & _).
          destruct (IH r1 j n1 st1 Hnn' Hk1 Hf1 Hb1 Hown1) as (res' & j' & n' & st' & Hloop & Hk' & Hf' & Hb' & Ha').
          exists res', j', n', st'. split; [|split; [exact Hk'|split; [exact Hf'|split; [exact Hb'|]]]].
          * erewrite run_bindO_ok; [exact Hloop|]. erewrite run_bindO_ok; [|exact H1]. simpl fst. cbv iota.
            erewrite run_bind_eq; [|exact Hrun]. reflexivity.
          * rewrite Ha', Es. unfold abs_ix at 1. rewrite Hseg, map_app. simpl. rewrite <- app_assoc. reflexivity.
        + destruct (Nat.eqb x (row ix)) eqn:Ex.
          * destruct (IH res (S j) n st Hnn' Hk Hf Hb Hown) as (res' & j' & n' & st' & Hloop & Hk' & Hf' & Hb' & Ha').
            exists res', j', n', st'. split; [|split; [exact Hk'|split; [exact Hf'|split; [exact Hb'|]]]].
            -- erewrite run_bindO_ok; [exact Hloop|]. erewrite run_bindO_ok; [|exact H1]. reflexivity.
            -- rewrite Ha', (skipn_cons_S _ _ _ _ Es). reflexivity.
          * destruct (append_spec env t res (VZ ix) n st0 st Hk Hf Hb Hown)
              as (r1 & n1 & st1 & Hrun & Hseg & Hb1 & _ & Hk1 & Hf1 & _ & Hown1 & _).
            destruct (IH r1 j n1 st1 Hnn' Hk1 Hf1 Hb1 Hown1) as (res' & j' & n' & st' & Hloop & Hk' & Hf' & Hb' & Ha').
            exists res', j', n', st'. split; [|split; [exact Hk'|split; [exact Hf'|split; [exact Hb'|]]]].
            -- erewrite run_bindO_ok; [exact Hloop|]. erewrite run_bindO_ok; [|exact H1]. simpl fst. cbv iota.
               erewrite run_bind_eq; [|exact Hrun]. reflexivity.
            -- rewrite Ha', Es. unfold abs_ix at 1. rewrite Hseg, map_app. simpl. rewrite <- app_assoc. reflexivity.
    Qed.
  End NotLoop.

  (* the tail of NotClause.filter *)
  Theorem refines_not_index t n st qf nq f fn :
    ref_ok dec st qf -> ref_ok dec st nq ->
    abs1 dec st qf = Some f -> abs1 dec st nq = Some fn ->
    nonneg (seg_of st (q_idx qf)) -> nonneg (seg_of st (q_idx nq)) ->
    store_fresh t n st ->
    exists qf' n' st',
      run env t (not_index qf nq) n st = (Ok qf', n', st') /\
      keeps st st' /\ store_fresh t n' st' /\ ref_ok dec st' qf' /\
      abs1 dec st' qf' = Some (Frame.with_ix f (Filter.not_merge (Frame.ix f) (Frame.ix fn))).
  Proof.
    intros Hoq Hon Haq Han Hnq Hnn Hf.
    destruct (abs1_inv _ _ _ _ Haq) as (_ & Hiq & _).
    destruct (abs1_inv _ _ _ _ Han) as (_ & Hin & _).
    unfold not_index.
    set (c := s_len (q_idx qf) - s_len (q_idx nq)).
    set (st1 := update st (t, n) (repeat (VZ 0) c)).
    set (r0 := mkSlice (t, n) 0 0 c).
    assert (Hfr : lookup st (t, n) = None) by (apply Hf; lia).
    assert (Hk1 : keeps st st1) by (apply keeps_update; exact Hfr).
    assert (Hr0 : in_bounds st1 r0).
    { split; simpl; [lia|]. unfold st1. rewrite read_update_same, repeat_length. lia. }
    destruct (not_loop_spec t st (q_idx nq) (ro_idx _ _ _ Hon) Hnn
                (map as_z (seg_of st (q_idx qf))) r0 0 (S n) st1 (nonneg_as_z _ Hnq) Hk1
                (fresh_update _ _ _ _ Hf) Hr0 (or_intror Hfr))
      as (res' & j' & n' & st' & Hloop & Hk' & Hf' & Hb' & Ha').
    exists (with_index qf res'), n', st'. split; [|split; [exact Hk'|split; [exact Hf'|split]]].
    - erewrite run_bind_eq; [|apply run_make]. fold st1 r0 c.
      erewrite run_bind_eq; [|apply run_read_zs].
      rewrite (seg_keeps_eq _ _ _ Hk1 (ro_idx _ _ _ Hoq)).
      erewrite run_bindO_ok; [|exact Hloop]. reflexivity.
    - apply with_index_ok; [eapply ref_ok_keeps; eauto|exact Hb'].
    - rewrite (with_index_abs st' qf f).
      + f_equal. f_equal. rewrite Ha'. simpl. rewrite Hiq, Hin. unfold abs_ix at 2. rewrite map_map. reflexivity.
      + rewrite (abs1_keeps _ _ _ _ Hk' Hoq). exact Haq.
  Qed.
End Merges.

(* ==================================================================== WithRowNums (apply0 with a counter) *)
(* An operation that WRITES column data: a fresh array of the physical length, zero everywhere, the k-th
   index entry's row := k (Ops.scatter), then setColumn.  Here the decoder matters: the theorem holds
   for every decoder that reads an int column as its array and whose columns have the length of their
   first storage array (dec_std does). *)
Section RowNums.
  Variable env : fnid -> list val -> val.
  Variable dec : decoder.
  Hypothesis dec_int : forall arr, dec ty_int [arr] = Some (Frame.ICol (map as_z arr)).
  Hypothesis dec_len : forall ty parts d, dec ty parts = Some d -> Frame.col_len d = length (hd [] parts).

  Definition cint (v : val) : Frame.cell := Frame.CInt (as_z v).

  Lemma scatter_loop t l len : forall ixs k n st,
    length (read_loc st l) = len ->
    exists res st',
      run env t (for_eachO (combine (seq k (length ixs)) ixs)
                   (fun (ki : nat * Z) (_ : unit) =>
                      slice_set (mkSlice l 0 len len) (row (snd ki)) (VZ (Z.of_nat (fst ki)))) tt) n st = (res, n, st') /\
      (forall q, q <> l -> lookup st' q = lookup st q) /\
      match res with
      | Ok _ => length (read_loc st' l) = len /\
                Ops.scatter (map cint (read_loc st l)) (map row ixs)
                            (map (fun j => Frame.CInt (Z.of_nat j)) (seq k (length ixs)))
                = Ok (map cint (read_loc st' l))
      | Panic => Ops.scatter (map cint (read_loc st l)) (map row ixs)
                             (map (fun j => Frame.CInt (Z.of_nat j)) (seq k (length ixs))) = Panic
      | Fail => False
      end.
  Proof.
    induction ixs as [|i ixs IH]; intros k n st Hlen.
    - simpl. exists (Ok tt), st. auto.
    - cbn [length seq combine for_eachO map fst snd Ops.scatter]. rewrite map_length, Hlen.
      rewrite run_bindO_unfold. rewrite run_slice_set. simpl s_len. simpl s_base. simpl s_off.
      destruct (row i <? len) eqn:E.
      + set (st1 := write_loc st l (0 + row i) (VZ (Z.of_nat k))).
        assert (Hr1 : read_loc st1 l = set_nth (read_loc st l) (row i) (VZ (Z.of_nat k))).
        { unfold st1. rewrite read_write_same. reflexivity. }
        destruct (IH (S k) n st1) as (res & st' & Hrun & Hoth & Hres).
        { rewrite Hr1, set_nth_length. exact Hlen. }
        exists res, st'. split; [exact Hrun|]. split.
        * intros q Hq. rewrite Hoth by exact Hq. unfold st1. apply lookup_write_other. exact Hq.
        * rewrite Hr1, set_nth_map in Hres. unfold cint at 2 in Hres. simpl as_z in Hres. exact Hres.
      + exists Panic, st. auto.
  Qed.

  Lemma col_of_cells_int arr : Ops.col_of_cells Frame.TInt (map cint arr) = Ok (Frame.ICol (map as_z arr)).
  Proof.
    unfold Ops.col_of_cells.
    assert (H : omap (fun c => match c with Frame.CInt z => Ok z | _ => Panic end) (map cint arr) = Ok (map as_z arr)).
    { induction arr as [|v r IH]; simpl; auto. rewrite IH. reflexivity. }
    rewrite H. reflexivity.
  Qed.

  Lemma first_col_len_spec t n st qf f :
    ref_ok dec st qf -> abs1 dec st qf = Some f ->
    run env t (first_col_len qf) n st = (Ok (Frame.phys_len f), n, st).
  Proof.
    intros Hok Habs. destruct (abs1_inv _ _ _ _ Habs) as (Hc & _ & _).
    pose proof (ro_cols _ _ _ Hok) as Hb. pose proof (seg_length _ _ Hb) as Hlen.
    pose proof (ro_parts _ _ _ Hok) as Hparts.
    unfold first_col_len, Frame.phys_len. unfold hdr_of in Hc, Hparts.
    destruct (s_len (q_cols qf) =? 0) eqn:E.
    - apply Nat.eqb_eq in E. rewrite E in Hlen.
      destruct (seg_of st (q_cols qf)); [|simpl in Hlen; lia]. simpl in Hc. inversion Hc. reflexivity.
    - apply Nat.eqb_neq in E.
      destruct (seg_of st (q_cols qf)) as [|v0 vs] eqn:Es; [simpl in Hlen; lia|].
      simpl in Hc, Hparts.
      destruct (abs_col dec st (as_col v0)) as [d0|] eqn:E0; [|discriminate].
      destruct (abs_cols dec st (map as_col vs)) as [ds|]; [|discriminate]. inversion Hc as [Hcs]. clear Hc.
      unfold get_col. rewrite run_bindO_unfold.
      erewrite run_bind_eq; [|apply run_slice_get]. rewrite get_val_seg by exact Hb. rewrite Es. simpl.
      f_equal. f_equal. f_equal.
      unfold abs_col in E0. apply dec_len in E0. rewrite E0.
      inversion Hparts as [|? ? Hp0 _]; subst. unfold parts_in_bounds in Hp0.
      unfold col_len, col_data. destruct (c_parts (as_col v0)) as [|p0 pr]; simpl; [reflexivity|].
      inversion Hp0; subst. symmetry. apply seg_length. assumption.
  Qed.

  Theorem refines_with_row_nums t n st qf f name_ok name :
    ref_ok dec st qf -> abs1 dec st qf = Some f -> store_fresh t n st ->
    name_ok = Ops.check_name name ->
    exists res n' st',
      run env t (op_with_row_nums name_ok name qf) n st = (res, n', st') /\
      keeps st st' /\ store_fresh t n' st' /\
      match res with
      | Ok qf' => ref_ok dec st' qf' /\
                  exists f', Ops.with_row_nums f name = Ok f' /\ abs1 dec st' qf' = Some f'
      | Panic => Ops.with_row_nums f name = Panic
      | Fail => False
      end.
  Proof.
    intros Hok Habs Hf Hname. destruct (abs1_inv _ _ _ _ Habs) as (Hc & Hi & He).
    unfold op_with_row_nums, op_apply. cbn [for_eachO]. unfold apply_instr. cbn [i_src1 i_src2].
    assert (EL0 : Ops.with_row_nums f name =
                  Ops.apply0 f (Ops.F0Stream Frame.TInt (map (fun k => Frame.CInt (Z.of_nat k)) (seq 0 (length (Frame.ix f))))) name)
      by reflexivity.
    rewrite EL0. unfold apply0, Ops.apply0. rewrite He.
    destruct (q_err qf) eqn:Eerr.
    { exists (Ok qf), n, st. split; [reflexivity|]. split; [apply keeps_refl|]. split; [exact Hf|].
      split; [exact Hok|]. exists f. auto. }
    cbn [i_fn i_name_ok i_dst]. simpl Frame.ctype_eqb. cbv iota.
    change (Ops.zero_cell Frame.TInt) with (Frame.CInt 0).
    set (len := Frame.phys_len f).
    set (l := (t, n)).
    set (st1 := update st l (repeat (VZ 0) len)).
    assert (Hfr : lookup st l = None) by (apply Hf; lia).
    assert (Hk1 : keeps st st1) by (apply keeps_update; exact Hfr).
    assert (Hr1 : read_loc st1 l = repeat (VZ 0) len) by (unfold st1; apply read_update_same).
    set (ixs := map as_z (seg_of st (q_idx qf))).
    destruct (scatter_loop t l len ixs 0 (S n) st1) as (res & st2 & Hloop & Hoth & Hres).
    { rewrite Hr1, repeat_length. reflexivity. }
    assert (Hk2 : keeps st st2).
    { intros q a Hq. destruct (loc_eq_dec q l) as [->|Hne]; [congruence|]. rewrite Hoth by exact Hne. apply Hk1. exact Hq. }
    assert (Hf2 : store_fresh t (S n) st2).
    { intros k Hk. rewrite Hoth by (intro E; inversion E; lia). unfold st1. apply (fresh_update t n); auto. }
    assert (Hrun0 : forall (K : slice -> unit -> prog (outcome qframe)),
              run env t (let? n0 := first_col_len qf in
                         let* res0 := make_slice n0 n0 (VZ 0) in
                         let* ixs0 := read_zs (q_idx qf) in
                         let? u := for_eachO (combine (seq 0 (length ixs0)) ixs0)
                                      (fun (ki : nat * Z) (_ : unit) => slice_set res0 (row (snd ki)) (VZ (Z.of_nat (fst ki)))) tt in
                         K res0 u) n st
              = match res with Ok u => run env t (K (mkSlice l 0 len len) u) (S n) st2
                | Fail => (Fail, S n, st2) | Panic => (Panic, S n, st2) end).
    { intro K. erewrite run_bindO_ok; [|apply (first_col_len_spec t n st qf f Hok Habs)]. fold len.
      erewrite run_bind_eq; [|apply run_make]. fold l st1.
      erewrite run_bind_eq; [|apply run_read_zs]. rewrite (seg_keeps_eq _ _ _ Hk1 (ro_idx _ _ _ Hok)). fold ixs.
      rewrite run_bindO_unfold, Hloop. reflexivity. }
    assert (Escat : map cint (read_loc st1 l) = repeat (Frame.CInt 0) len).
    { rewrite Hr1. clear. induction len; simpl; auto. f_equal. assumption. }
    assert (Eix : map row ixs = Frame.ix f).
    { rewrite Hi. unfold ixs, abs_ix. rewrite map_map. reflexivity. }
    assert (Elen : length ixs = length (Frame.ix f)) by (rewrite <- Eix, map_length; reflexivity).
    rewrite Escat, Eix, Elen in Hres.
    destruct res as [u| |].
    - destruct Hres as [Hlen2 Hsc]. fold len. rewrite Hsc. cbn [obind]. rewrite col_of_cells_int. cbn [obind].
      destruct (refines_set_column env dec t (S n) st2 qf f name_ok name ty_int [mkSlice l 0 len len]
                  (Frame.ICol (map as_z (read_loc st2 l))))
        as (qf' & n' & st' & Hrun & Hk' & Hf' & Hok' & Habs'); auto.
      + eapply ref_ok_keeps; eauto.
      + rewrite (abs1_keeps _ _ _ _ Hk2 Hok). exact Habs.
      + constructor; [|constructor]. split; simpl; lia.
      + simpl. unfold seg_of, slice_seg. simpl. rewrite <- Hlen2, firstn_all. apply dec_int.
      + exists (Ok qf'), n', st'. split; [|split; [eapply keeps_trans; eauto|split; [exact Hf'|split; [exact Hok'|]]]].
        * rewrite run_bindO_unfold. rewrite (Hrun0 (fun r0 _ => set_column name_ok name ty_int [r0] qf)).
          rewrite Hrun. reflexivity.
        * eexists. split; [reflexivity|exact Habs'].
    - contradiction.
    - exists Panic, (S n), st2. split; [|split; [exact Hk2|split; [exact Hf2|]]].
      + rewrite run_bindO_unfold. rewrite (Hrun0 (fun r0 _ => set_column name_ok name ty_int [r0] qf)).
        reflexivity.
      + fold len. rewrite Hres. reflexivity.
  Qed.
End RowNums.

Lemma dec_std_int arr : dec_std ty_int [arr] = Some (Frame.ICol (map as_z arr)).
Proof. reflexivity. Qed.

Lemma dec_strings_length ptrs : forall blob, length (dec_strings ptrs blob) = length ptrs.
Proof. induction ptrs as [|p r IH]; intro blob; simpl; auto. destruct (as_z p <? 0)%Z; simpl; rewrite IH; reflexivity. Qed.

Lemma dec_std_len ty parts d : dec_std ty parts = Some d -> Frame.col_len d = length (hd [] parts).
Proof.
  unfold dec_std. destruct parts as [|a [|b [|c r]]]; try discriminate.
  - destruct (ty =? ty_int)%N; [intro H; inversion H; subst; simpl; apply map_length|].
    destruct (ty =? ty_float)%N; [intro H; inversion H; subst; simpl; apply map_length|].
    destruct (ty =? ty_bool)%N; [intro H; inversion H; subst; simpl; apply map_length|discriminate].
  - destruct (ty =? ty_string)%N; [intro H; inversion H; subst; simpl; apply dec_strings_length|].
    destruct (ty =? ty_enum)%N; [intro H; inversion H; subst; simpl; apply map_length|discriminate].
Qed.

(* ==================================================================== the insertion-sort script *)
(* [insertion_script] (the script the share engine replays) read at L0 IS insertionSort of Model/Sort.v *)
Lemma ins_inner_script lt rest : forall j s,
  script_run lt (ins_inner j rest) s = (do s' <- Sort.ins_inner lt 0 j s; script_run lt rest s').
Proof.
  induction j as [|j IH]; intro s; simpl; [reflexivity|].
  change Sort.k_is_prev with 1. replace (j - 0) with j by lia.
  destruct (Sort.less lt s (S j) j) as [c| |]; simpl; auto.
  destruct c; simpl; auto.
  destruct (Sort.swap s (S j) j) as [s'| |]; simpl; auto.
Qed.

Lemma ins_from_script lt : forall fuel i s,
  script_run lt (ins_from i fuel) s = Sort.ins_outer lt fuel 0 i s.
Proof.
  induction fuel as [|f IH]; intros i s; simpl; [reflexivity|].
  rewrite ins_inner_script. destruct (Sort.ins_inner lt 0 i s) as [s'| |]; simpl; auto.
Qed.

Theorem insertion_script_l0 lt n s : script_run lt (insertion_script n) s = Sort.insertion_sort lt 0 n s.
Proof. unfold insertion_script, Sort.insertion_sort. change Sort.k_is_one with 1. simpl. apply ins_from_script. Qed.

(* ==================================================================== pipelines *)
(* The single-operation theorems compose: each returns a well-formed reference in a store that keeps the
   old one, so any finite chain of Slice / Select / Drop / Copy, each applied to the result of the
   previous one, computes at the heap level what the chain of L0 operations computes - and every
   intermediate (and the initial) frame still reads as before in the final store. *)
Inductive rop :=
| RSlice (a b : Z)
| RSelect (names : list bytes)
| RDrop (names : list bytes)
| RCopy (dst src : bytes).

Definition rop_prog (r : rop) (q : qframe) : prog (outcome qframe) :=
  match r with
  | RSlice a b => Ret (op_slice a b q)
  | RSelect ns => op_select ns q
  | RDrop ns => op_drop ns q
  | RCopy d s => op_copy (Ops.check_name d) d s q
  end.

Definition rop_l0 (f : Frame.frame) (r : rop) : Frame.frame :=
  match r with
  | RSlice a b => Ops.slice f a b
  | RSelect ns => Ops.select f ns
  | RDrop ns => Ops.drop f ns
  | RCopy d s => Ops.copy f d s
  end.

Section Pipeline.
  Variable env : fnid -> list val -> val.
  Variable dec : decoder.

  Lemma refines_rop t n st q f r :
    ref_ok dec st q -> abs1 dec st q = Some f -> store_fresh t n st ->
    exists q' n' st',
      run env t (rop_prog r q) n st = (Ok q', n', st') /\
      keeps st st' /\ store_fresh t n' st' /\ ref_ok dec st' q' /\
      abs1 dec st' q' = Some (rop_l0 f r).
  Proof.
    intros Hok Habs Hf. destruct r as [a b|ns|ns|d s0]; simpl.
    - destruct (refines_slice dec st q f a b Hok Habs) as (q' & E & Hok' & Habs').
      exists q', n, st. rewrite E. split; [reflexivity|]. split; [apply keeps_refl|]. auto.
    - apply refines_select; auto.
    - apply refines_drop; auto.
    - apply refines_copy; auto.
  Qed.

  Theorem refines_pipeline t rs : forall n st q f,
    ref_ok dec st q -> abs1 dec st q = Some f -> store_fresh t n st ->
    exists q' n' st',
      run env t (for_eachO rs rop_prog q) n st = (Ok q', n', st') /\
      keeps st st' /\ store_fresh t n' st' /\ ref_ok dec st' q' /\
      abs1 dec st' q' = Some (fold_left rop_l0 rs f) /\
      ref_ok dec st' q /\ abs1 dec st' q = Some f.
  Proof.
    induction rs as [|r rs IH]; intros n st q f Hok Habs Hf.
    - simpl. exists q, n, st. split; [reflexivity|]. split; [apply keeps_refl|]. auto.
    - destruct (refines_rop t n st q f r Hok Habs Hf) as (q1 & n1 & st1 & Hrun & Hk1 & Hf1 & Hok1 & Habs1).
      destruct (IH n1 st1 q1 (rop_l0 f r) Hok1 Habs1 Hf1) as (q' & n' & st' & Hrun' & Hk' & Hf' & Hok' & Habs' & _).
      exists q', n', st'. split; [|split; [|split; [exact Hf'|split; [exact Hok'|split; [exact Habs'|]]]]].
      + cbn [for_eachO]. erewrite run_bindO_ok; [exact Hrun'|exact Hrun].
      + eapply keeps_trans; eauto.
      + assert (Hk : keeps st st') by (eapply keeps_trans; eauto).
        split; [eapply ref_ok_keeps; eauto|]. rewrite (abs1_keeps dec st st' q Hk Hok). exact Habs.
  Qed.
End Pipeline.

(* ==================================================================== the executable well-formedness check *)
Lemma slice_eqb_spec a b : slice_eqb a b = true <-> a = b.
Proof.
  unfold slice_eqb. destruct a as [ab ao al ac], b as [bb bo bl bc]. cbn [s_base s_off s_len s_cap]. split.
  - intro H. apply andb_true_iff in H as [H H2]. apply andb_true_iff in H as [H H1]. apply andb_true_iff in H as [H H0].
    apply loc_eqb_eq in H. apply Nat.eqb_eq in H0, H1, H2. subst. reflexivity.
  - intro H. inversion H; subst. rewrite loc_eqb_refl, !Nat.eqb_refl. reflexivity.
Qed.

Lemma col_eqb_eq a b : col_eqb a b = true -> a = b.
Proof.
  unfold col_eqb. destruct a as [an ap at_ ar], b as [bn bp bt br]. cbn [c_name c_pos c_ty c_parts]. intro H.
  apply andb_true_iff in H as [H H0]. apply andb_true_iff in H as [H H1]. apply andb_true_iff in H as [H H2].
  apply bytes_eqb_spec in H. apply Nat.eqb_eq in H2. apply N.eqb_eq in H1.
  apply (list_eqb_spec slice_eqb slice_eqb_spec) in H0. subst. reflexivity.
Qed.

Lemma in_bounds_b_sound st s : in_bounds_b st s = true -> in_bounds st s.
Proof.
  unfold in_bounds_b. intro H. apply andb_true_iff in H as [H1 H2].
  apply Nat.leb_le in H1. apply Nat.leb_le in H2. split; auto.
Qed.

Lemma existsb_bytes_false k l : existsb (bytes_eqb k) l = false -> ~ In k l.
Proof.
  induction l as [|x l IH]; simpl; [tauto|]. intro H. apply orb_false_iff in H as [H1 H2].
  intros [E|E]; [subst; rewrite bytes_eqb_refl in H1; discriminate|apply IH; auto].
Qed.

Lemma existsb_bytes_true k l : existsb (bytes_eqb k) l = true -> In k l.
Proof.
  induction l as [|x l IH]; simpl; [discriminate|]. intro H. apply orb_true_iff in H as [H|H].
  - apply bytes_eqb_spec in H. subst. left. reflexivity.
  - right. apply IH. exact H.
Qed.

Lemma nodup_keys_sound ks : nodup_keys ks = true -> NoDup ks.
Proof.
  induction ks as [|k r IH]; simpl; intro H; [constructor|].
  apply andb_true_iff in H as [H1 H2]. constructor; [|apply IH; exact H2].
  apply existsb_bytes_false. destruct (existsb (bytes_eqb k) r); [discriminate|reflexivity].
Qed.

Lemma hdr_last_notin name hs : ~ In name (map c_name hs) -> hdr_last name hs = None.
Proof.
  induction hs as [|h r IH]; simpl; auto. intro H. rewrite IH by tauto.
  destruct (bytes_eqb (c_name h) name) eqn:E; auto.
  apply bytes_eqb_spec in E. exfalso. apply H. left. exact E.
Qed.

Lemma hdr_last_abs dec st hs : forall cs, abs_cols dec st hs = Some cs -> forall name,
  match hdr_last name hs, last_match name cs with
  | None, None => True
  | Some (p, h), Some (p', d) => p = p' /\ abs_col dec st h = Some d
  | _, _ => False
  end.
Proof.
  induction hs as [|h r IH]; simpl; intros cs H name.
  - inversion H; subst. simpl. exact I.
  - destruct (abs_col dec st h) as [d0|] eqn:E0; [|discriminate].
    destruct (abs_cols dec st r) as [ds|] eqn:Er; [|discriminate]. inversion H; subst. simpl.
    specialize (IH ds eq_refl name).
    destruct (hdr_last name r) as [[p h']|]; destruct (last_match name ds) as [[p' d]|]; try contradiction.
    + destruct IH as [-> Hd]. auto.
    + destruct (bytes_eqb (c_name h) name); auto.
Qed.

Theorem ref_ok_b_sound dec st qf : ref_ok_b st qf = true -> ref_ok dec st qf.
Proof.
  unfold ref_ok_b. intro H.
  apply andb_true_iff in H as [H B7]. apply andb_true_iff in H as [H B6]. apply andb_true_iff in H as [H B5].
  apply andb_true_iff in H as [H B4]. apply andb_true_iff in H as [H B3]. apply andb_true_iff in H as [B1 B2].
  constructor.
  - apply in_bounds_b_sound; exact B1.
  - apply in_bounds_b_sound; exact B2.
  - apply Forall_forall. intros c Hc. rewrite forallb_forall in B3. specialize (B3 c Hc).
    apply Forall_forall. intros s0 Hs0. rewrite forallb_forall in B3. apply in_bounds_b_sound. auto.
  - apply nodup_keys_sound. exact B4.
  - apply Forall_forall. intros e He. rewrite forallb_forall in B5. specialize (B5 e He).
    apply Forall_forall. intros s0 Hs0. rewrite forallb_forall in B5. apply in_bounds_b_sound. auto.
  - intros l Hl. rewrite Hl in B6. unfold in_dom in B6. destruct (lookup st l); [discriminate|discriminate].
  - intros cs Hcs name. rewrite lookup_from_last.
    pose proof (hdr_last_abs dec st _ cs Hcs name) as HA.
    set (kv := map_of st (q_map qf)) in *. set (hs := hdr_of st (q_cols qf)) in *.
    destruct (existsb (bytes_eqb name) (map c_name hs ++ map fst kv)) eqn:Ein.
    + apply existsb_bytes_true in Ein. rewrite forallb_forall in B7. specialize (B7 name Ein).
      destruct (map_get kv name) as [c|]; destruct (hdr_last name hs) as [[p h]|];
        destruct (last_match name cs) as [[p' d]|]; try contradiction; try discriminate; auto.
      destruct HA as [-> Hd].
      apply andb_true_iff in B7 as [B7 Bn]. apply andb_true_iff in B7 as [Be Bp].
      apply col_eqb_eq in Be. subst h. apply Nat.eqb_eq in Bp. apply bytes_eqb_spec in Bn. auto.
    + apply existsb_bytes_false in Ein. rewrite in_app_iff in Ein.
      rewrite (map_get_notin kv name) by tauto.
      rewrite (hdr_last_notin name hs) in HA by tauto.
      destruct (last_match name cs) as [[p' d]|]; auto.
Qed.

(* ==================================================================== non-vacuity *)
From QF Require Import Proofs.HeapOpsProofs Proofs.ConcProofs.

Module RefineExamples.
  Import HeapExamples.

  Definition f0 : Frame.frame :=
    Frame.mkFrame [(nA, Frame.ICol [30; 10; 5; 20]%Z)] [0; 1; 3; 2] false.

  Example abs1_example : abs1 dec_std st0 qf0 = Some f0.
  Proof. vm_compute. reflexivity. Qed.

  Lemma in_bounds_b st s :
    ((s_len s <=? s_cap s) && (s_off s + s_cap s <=? length (read_loc st (s_base s))))%bool = true -> in_bounds st s.
  Proof. intro H. apply andb_true_iff in H as [H1 H2]. apply Nat.leb_le in H1. apply Nat.leb_le in H2. split; auto. Qed.

  Example ref_ok_example : ref_ok dec_std st0 qf0.
  Proof.
    constructor.
    - apply in_bounds_b. reflexivity.
    - apply in_bounds_b. reflexivity.
    - repeat constructor.
    - simpl. constructor; [intros []|constructor].
    - simpl. repeat constructor.
    - intros l H. inversion H; subst. discriminate.
    - intros cs H. vm_compute in H. inversion H; subst cs. clear H.
      change [65%N] with nA. change (map_of st0 (q_map qf0)) with [(nA, cA)].
      intro name. unfold map_get, Frame.lookup_from. rewrite (bytes_eqb_sym nA name).
      destruct (bytes_eqb name nA) eqn:E; auto.
      apply bytes_eqb_spec in E. subst. repeat split.
  Qed.

  Example ref_ok_b_example : ref_ok_b st0 qf0 = true.
  Proof. vm_compute. reflexivity. Qed.
  (* every frame of the example history of Properties/C01.v (Slice, Sort, Filter, Apply x2, GroupBy, QFrames)
     passes the executable check in the final store *)
  Example ref_ok_b_history :
    match nth_error states 7 with
    | Some (st, fam) => forallb (fun m => match m with MemF q => ref_ok_b st q | MemG _ => true end) fam
    | None => false
    end = true.
  Proof. vm_compute. reflexivity. Qed.
  Example fresh_example : store_fresh 1 0 st0.
  Proof. intros k _. apply st0_fresh. lia. Qed.

  (* Sort: the premises of refines_sort for the example frame, sort key "A" ascending *)
  Definition ltA (a b : nat) : bool := (nth a [30; 10; 5; 20] 0 <? nth b [30; 10; 5; 20] 0)%Z.
  Example sort_premises :
    q_err qf0 = false /\ [nA] <> [] /\
    fst (fst (run env0 1 (lookup_cols (q_map qf0) [nA]) 0 st0)) = Ok [cA] /\
    nonneg (seg_of st0 (q_idx qf0)) /\
    (forall a b ca cb, cells_val st0 [cA] (Z.of_nat a) = Ok ca -> cells_val st0 [cA] (Z.of_nat b) = Ok cb ->
                       lessA (Z.of_nat a) (Z.of_nat b) ca cb = ltA a b).
  Proof.
    split; [reflexivity|]. split; [discriminate|]. split; [reflexivity|]. split.
    - vm_compute. repeat constructor; discriminate.
    - intros a b ca cb Ha Hb.
      assert (Hc : forall x cx, cells_val st0 [cA] (Z.of_nat x) = Ok cx ->
                                cx = [[VZ (nth x [30; 10; 5; 20] 0)%Z]] /\ x < 4).
      { intros x cx Hx. unfold cells_val, cell_val in Hx. simpl in Hx. unfold row in Hx. rewrite Nat2Z.id in Hx.
        destruct x as [|[|[|[|x]]]]; simpl in Hx; inversion Hx; subst; split; auto; lia. }
      destruct (Hc a ca Ha) as [-> _]. destruct (Hc b cb Hb) as [-> _]. reflexivity.
  Qed.
  Example sort_rows :
    Forall (fun v => exists c, cells_val st0 [cA] (as_z v) = Ok c) (seg_of st0 (q_idx qf0)).
  Proof. vm_compute. repeat constructor; eexists; reflexivity. Qed.
  Example sort_result :
    exists qf' n' st', run env0 1 (op_sort [nA] lessA insertion_script qf0) 0 st0 = (Ok qf', n', st') /\
      abs1 dec_std st' qf' = Some (Frame.with_ix f0 [2; 1; 3; 0]) /\
      script_run ltA (insertion_script 4) (Frame.ix f0) = Ok [2; 1; 3; 0] /\
      Sort.sort_ids ltA (Frame.ix f0) = Ok [2; 1; 3; 0].
  Proof. eexists _, _, _. split; [vm_compute; reflexivity|]. repeat split; vm_compute; reflexivity. Qed.

  (* setColumn / Copy / Select / Slice / index.Filter on the example: both sides computed *)
  Example set_column_example :
    let '(r, _, st') := run env0 1 (set_column true [66%N] ty_int [mkSlice (0, 3) 0 4 4] qf0) 0 st0 in
    match r with Ok q => abs1 dec_std st' q | _ => None end
    = Some (Ops.set_column f0 [66%N] (Frame.ICol [30; 10; 5; 20]%Z)).
  Proof. vm_compute. reflexivity. Qed.
  Example select_example :
    let '(r, _, st') := run env0 1 (op_select [nA; nA] qf0) 0 st0 in
    match r with Ok q => abs1 dec_std st' q | _ => None end = Some (Ops.select f0 [nA; nA]).
  Proof. vm_compute. reflexivity. Qed.
  Example slice_example :
    match op_slice 1 3 qf0 with Ok q => abs1 dec_std st0 q | _ => None end = Some (Ops.slice f0 1 3).
  Proof. vm_compute. reflexivity. Qed.
  Example row_nums_example :
    let '(r, _, st') := run env0 1 (op_with_row_nums true [66%N] qf0) 0 st0 in
    match r with Ok q => option_map Ok (abs1 dec_std st' q) | _ => None end = Some (Ops.with_row_nums f0 [66%N]).
  Proof. vm_compute. reflexivity. Qed.
  Example check_name_example : Ops.check_name [66%N] = true.
  Proof. vm_compute. reflexivity. Qed.
End RefineExamples.

(* ==================================================================== persistence at L0 *)
(* The L0 reading of a well-formed frame reference never changes: along every history of ANY operations
   of the quantifier (C01) and under every schedule of any multiset of them (C11).  This is the frame
   condition of run_tr_sound (= keeps) composed with abs1_keeps. *)
From QF Require Import Model.Conc Proofs.HeapAggregate.

Lemma frame_keeps st st' : (forall l, in_dom st l = true -> lookup st' l = lookup st l) -> keeps st st'.
Proof. intros H l a Hl. rewrite H; auto. unfold in_dom. rewrite Hl. reflexivity. Qed.

Section HistoryAbs.
  Variable env : fnid -> list val -> val.
  Variable dec : decoder.

  Lemma history_states_suffix : forall h t st fam j sj fj,
    nth_error (history_states env h t st fam) j = Some (sj, fj) ->
    forall k, nth_error (history_states env h t st fam) (j + k) =
              nth_error (history_states env (skipn j h) (t + j) sj fj) k.
  Proof.
    induction h as [|x r IH]; intros t st fam j sj fj Hj k.
    - destruct j as [|j]; simpl in Hj; [|destruct j; discriminate].
      inversion Hj; subst. replace (t + 0) with t by lia. reflexivity.
    - destruct j as [|j].
      + simpl in Hj. inversion Hj; subst. replace (t + 0) with t by lia. reflexivity.
      + simpl in Hj. simpl.
        destruct (history_step env t st fam x) as [st' fam'] eqn:Es.
        rewrite (IH (S t) st' fam' j sj fj Hj k). replace (t + S j) with (S t + j) by lia. reflexivity.
  Qed.

  Theorem history_abs_persistent h t st fam :
    hist_inv t st fam ->
    forall j k sj fj sk fk, j <= k ->
      nth_error (history_states env h t st fam) j = Some (sj, fj) ->
      nth_error (history_states env h t st fam) k = Some (sk, fk) ->
      keeps sj sk /\ incl fj fk /\
      forall q, ref_ok dec sj q -> ref_ok dec sk q /\ abs1 dec sk q = abs1 dec sj q.
  Proof.
    intros Hinv j k sj fj sk fk Hjk Hj Hk.
    assert (Hall : forall hh, Forall (fun x : nat * nat * lop => lop_safe (snd x)) hh)
      by (intro hh; apply Forall_forall; intros x _; apply lop_all_safe).
    destruct (history_frame env h t st fam Hinv (Hall h) j sj fj Hj) as (_ & _ & Hinvj).
    replace k with (j + (k - j)) in Hk by lia.
    rewrite (history_states_suffix h t st fam j sj fj Hj (k - j)) in Hk.
    destruct (history_frame env (skipn j h) (t + j) sj fj Hinvj (Hall _) (k - j) sk fk Hk) as (Hfr & Hincl & _).
    pose proof (frame_keeps _ _ Hfr) as Hkeeps.
    split; [exact Hkeeps|]. split; [exact Hincl|].
    intros q Hq. split; [eapply ref_ok_keeps; eauto|apply abs1_keeps; auto].
  Qed.
End HistoryAbs.

Theorem conc_abs_stable env dec (s0 : store) (jobs : list job) :
  closed_store s0 ->
  (forall t k, 1 <= t -> lookup s0 (t, k) = None) ->
  Forall (job_ref_ok s0) jobs ->
  forall (sched : list nat) q,
    ref_ok dec s0 q ->
    let c := run_conc env (map job_prog jobs) sched s0 in
    ref_ok dec (c_store c) q /\ abs1 dec (c_store c) q = abs1 dec s0 q.
Proof.
  intros Hc Hf Hjobs sched q Hq c.
  destruct (C11_ops_all env s0 jobs Hc Hf Hjobs sched) as (_ & _ & Hfr & _).
  pose proof (frame_keeps _ _ Hfr) as Hk.
  split; [eapply ref_ok_keeps; eauto|apply abs1_keeps; auto].
Qed.

(* one operation, directly on [run]: whatever the operation (incl. Aggregate), receiver and argument, the
   store after it keeps the store before it, hence every well-formed frame reference reads as before *)
Theorem op_keeps env op recv other t n st :
  closed_store st -> store_fresh t n st ->
  mem_ok (in_dom st) recv [] -> mem_ok (in_dom st) other [] ->
  keeps st (snd (run env t (lop_prog op recv other) n st)).
Proof.
  intros Hc Hf Hr Ho.
  destruct (spq_solo_safe env t (lop_prog op recv other) n st _ Hc Hf (lop_all_safe op _ _ _ _ Hr Ho))
    as (a & n' & s' & own & Hrun & _).
  destruct (run_tr_sound env _ _ _ _ _ _ _ _ Hrun) as [Hr1 Hfr]. rewrite Hr1. simpl.
  apply frame_keeps. exact Hfr.
Qed.

Theorem op_abs_stable env dec op recv other t n st q :
  closed_store st -> store_fresh t n st ->
  mem_ok (in_dom st) recv [] -> mem_ok (in_dom st) other [] ->
  ref_ok dec st q ->
  let st' := snd (run env t (lop_prog op recv other) n st) in
  ref_ok dec st' q /\ abs1 dec st' q = abs1 dec st q.
Proof.
  intros Hc Hf Hr Ho Hq st'. pose proof (op_keeps env op recv other t n st Hc Hf Hr Ho) as Hk.
  split; [eapply ref_ok_keeps; eauto|apply abs1_keeps; auto].
Qed.

(* ==================================================================== the frame Aggregate returns is well formed *)
(* Grouper.Aggregate gives every column of its result the position it has in the NEW header (an aggregated
   column used to keep the position of its source column in the grouped frame, so that the by-name map of the
   result pointed outside the header or at another column).  A frame with two columns A, B; GroupBy() without key
   columns; Aggregate(fn over B, as C): the result has the single column C at position 0, its by-name map agrees
   with its header (ref_ok_b, hence ref_ok for every decoder), although the source column B sits at position 1. *)
Module AggregateRefExamples.
  Import HeapExamples AggExamples.
  Definition cA2 := mkCol nA 0 0 [mkSlice (0, 3) 0 4 4].
  Definition cB2 := mkCol nB 1 0 [mkSlice (0, 4) 0 4 4].
  Definition st2 : store :=
    [((0, 0), [VZ 0; VZ 1; VZ 3; VZ 2]);
     ((0, 1), [VCol cA2; VCol cB2]);
     ((0, 2), [VMap [(nA, cA2); (nB, cB2)]]);
     ((0, 3), [VZ 30; VZ 10; VZ 5; VZ 20]);
     ((0, 4), [VZ 1; VZ 2; VZ 3; VZ 4])].
  Definition qf2 := mkQF (mkSlice (0, 1) 0 2 2) (Some (0, 2)) (mkSlice (0, 0) 0 4 4) false.
  Definition g2_run := run env0 0 (op_group_by gp0 [] qf2) 10 st2.
  Definition g2 : grouper := match fst (fst g2_run) with Ok g => g | _ => mkG nil_slice [] nil_slice None true end.
  Definition st_g2 : store := snd g2_run.
  Definition aggs2 : list agg := [mkAgg false (Some 1%N) 0%N nB nC].
  Definition r2 := run env0 2 (op_aggregate aggs2 g2) 0 st_g2.

  Example aggregate_positions :
    ref_ok_b st2 qf2 = true /\ c_pos cB2 = 1 /\
    match fst (fst r2) with
    | Ok q => ref_ok_b (snd r2) q = true
              /\ map (fun c => (c_name c, c_pos c)) (hdr_of (snd r2) (q_cols q)) = [(nC, 0)]
              /\ map (fun e => (fst e, c_pos (snd e))) (map_of (snd r2) (q_map q)) = [(nC, 0)]
    | _ => False
    end.
  Proof. vm_compute. repeat split; reflexivity. Qed.

  Theorem aggregate_result_ref_ok dec :
    match fst (fst r2) with Ok q => ref_ok dec (snd r2) q | _ => False end.
  Proof.
    destruct (fst (fst r2)) as [q| |] eqn:E; try (vm_compute in E; discriminate E).
    apply ref_ok_b_sound. pose proof aggregate_positions as (_ & _ & H). rewrite E in H. apply H.
  Qed.
End AggregateRefExamples.
