(* Proofs/EnumProofs.v — property C17 on the enum factory of Model/Ops.v (ecolumn.New / NewFactory / AppendString /
   AppendNil): every inserted string is read back unchanged, null stays null and distinct from every value,
   strict enums reject undeclared values, the value table never exceeds 255 entries, ranks follow the declared
   positions. *)
From QF Require Import Base.Prelude Gen.GenConsts Model.Frame Model.Filter Model.Ops.
Local Open Scope nat_scope.

Lemma c_null_is_255 : c_nullValue = 255%N /\ c_maxCardinality = 255%N.
Proof. split; reflexivity. Qed.

(* find_value_last returns a position of the value *)
Lemma find_value_last_aux (s : bytes) : forall (vals : list bytes) (k : nat) acc r,
  fold_left (fun acc iv => if bytes_eqb (snd iv) s then Some (fst iv) else acc)
            (combine (map N.of_nat (seq k (length vals))) vals) acc = Some r ->
  (acc = Some r) \/ (exists j, j < length vals /\ r = N.of_nat (k + j) /\ nth_error vals j = Some s).
Proof.
  induction vals as [|v vals IH]; intros k acc r H; simpl in H; [left; exact H|].
  apply IH in H. destruct H as [H|[j [Hj [Hr Hn]]]].
  - destruct (bytes_eqb v s) eqn:E.
    + inversion H; subst. right. exists 0. apply bytes_eqb_spec in E. subst.
      split; [simpl; lia|]. split; [f_equal; lia|reflexivity].
    + left. exact H.
  - right. exists (S j). split; [simpl; lia|]. split; [rewrite Hr; f_equal; lia|exact Hn].
Qed.

Lemma find_value_last_some vals s r :
  find_value_last vals s = Some r -> exists j, j < length vals /\ r = N.of_nat j /\ nth_error vals j = Some s.
Proof.
  unfold find_value_last. intro H. apply find_value_last_aux in H.
  destruct H as [H|[j [Hj [Hr Hn]]]]; [discriminate|]. exists j. auto.
Qed.

Lemma fold_some_stays (s : bytes) : forall (l : list (N * bytes)) (a : N),
  fold_left (fun acc iv => if bytes_eqb (snd iv) s then Some (fst iv) else acc) l (Some a) <> None.
Proof.
  induction l as [|iv l IH]; intros a; simpl; [discriminate|].
  destruct (bytes_eqb (snd iv) s); apply IH.
Qed.

Lemma find_value_last_none_aux (s : bytes) : forall (vals : list bytes) (k : nat),
  fold_left (fun acc iv => if bytes_eqb (snd iv) s then Some (fst iv) else acc)
            (combine (map N.of_nat (seq k (length vals))) vals) None = None ->
  ~ In s vals.
Proof.
  induction vals as [|v vals IH]; intros k H; simpl in *; [tauto|].
  destruct (bytes_eqb v s) eqn:E.
  - exfalso. exact (fold_some_stays s _ _ H).
  - intros [Hv|Hin]; [subst; rewrite bytes_eqb_refl in E; discriminate|]. exact (IH (S k) H Hin).
Qed.

Lemma find_value_last_none vals s : find_value_last vals s = None -> ~ In s vals.
Proof. unfold find_value_last. apply find_value_last_none_aux. Qed.

(* the cell a rank decodes to *)
Definition decode (vals : list bytes) (r : N) : option (option bytes) :=
  if enum_is_null r then Some None
  else match nth_error vals (N.to_nat r) with Some s => Some (Some s) | None => None end.

Lemma decode_app vals b r s : decode vals r = Some s -> decode (vals ++ [b]) r = Some s.
Proof.
  unfold decode. destruct (enum_is_null r); [auto|].
  destruct (nth_error vals (N.to_nat r)) eqn:E; [|discriminate].
  rewrite nth_error_app1 by (apply nth_error_Some; rewrite E; discriminate). rewrite E. auto.
Qed.

Lemma decode_rank_lt vals j s : j < length vals -> length vals <= 255 -> nth_error vals j = Some s ->
  decode vals (N.of_nat j) = Some (Some s).
Proof.
  intros Hj Hl Hn. unfold decode, enum_is_null. change c_nullValue with 255%N.
  destruct (N.of_nat j =? 255)%N eqn:E; [apply N.eqb_eq in E; lia|].
  rewrite Nat2N.id, Hn. reflexivity.
Qed.

Definition enum_inv (data : list (option bytes)) (st : list bytes * list N) : Prop :=
  length (fst st) <= 255 /\ map (decode (fst st)) (snd st) = map Some data.

Lemma enum_step_inv strict data st s st' :
  enum_inv data st -> enum_step strict st s = Ok st' ->
  enum_inv (data ++ [s]) st' /\ (exists ext, fst st' = fst st ++ ext) /\ (strict = true -> fst st' = fst st).
Proof.
  destruct st as [vals acc]. intros [Hl Hd] H. unfold enum_step in H.
  destruct s as [b|].
  - destruct (find_value_last vals b) as [rk|] eqn:Ef.
    + inversion H; subst. destruct (find_value_last_some _ _ _ Ef) as [j [Hj [Hr Hn]]]. subst rk.
      split; [|split; [exists []; simpl; rewrite app_nil_r; reflexivity|reflexivity]].
      split; [exact Hl|]. simpl in *. rewrite !map_app, Hd. simpl.
      rewrite (decode_rank_lt vals j b Hj Hl Hn). reflexivity.
    + destruct strict; [discriminate|].
      destruct (N.to_nat c_maxCardinality <=? length vals) eqn:Ec; [discriminate|].
      apply Nat.leb_gt in Ec. change (N.to_nat c_maxCardinality) with 255 in Ec.
      inversion H; subst.
      split; [|split; [exists [b]; reflexivity|discriminate]].
      split; [simpl; rewrite app_length; simpl; lia|].
      simpl in *. rewrite !map_app. simpl. f_equal.
      * rewrite <- Hd. apply map_ext_in. intros r Hr.
        destruct (decode vals r) as [x|] eqn:Ex.
        -- apply decode_app. exact Ex.
        -- exfalso. assert (In (decode vals r) (map (decode vals) acc)) by (apply in_map; exact Hr).
           rewrite Hd, Ex in H0. apply in_map_iff in H0. destruct H0 as [? [? _]]. discriminate.
      * f_equal. apply decode_rank_lt.
        -- rewrite app_length. simpl. lia.
        -- rewrite app_length. simpl. lia.
        -- rewrite nth_error_app2 by lia. rewrite Nat.sub_diag. reflexivity.
  - inversion H; subst.
    split; [|split; [exists []; simpl; rewrite app_nil_r; reflexivity|reflexivity]].
    split; [exact Hl|]. simpl in *. rewrite !map_app, Hd. simpl. reflexivity.
Qed.

Lemma ofold_enum strict : forall data0 data st st',
  enum_inv data0 st ->
  ofold (enum_step strict) data st = Ok st' ->
  enum_inv (data0 ++ data) st' /\ (exists ext, fst st' = fst st ++ ext) /\ (strict = true -> fst st' = fst st).
Proof.
  intros data0 data. revert data0. induction data as [|s data IH]; intros data0 st st' Hinv H.
  - unfold ofold in H. simpl in H. inversion H; subst. rewrite app_nil_r.
    split; [exact Hinv|]. split; [exists []; rewrite app_nil_r; reflexivity|reflexivity].
  - unfold ofold in H. simpl in H.
    destruct (enum_step strict st s) as [st1| |] eqn:E1.
    + destruct (enum_step_inv strict data0 st s st1 Hinv E1) as [Hinv1 [[e1 He1] Hs1]].
      destruct (IH (data0 ++ [s]) st1 st' Hinv1 H) as [Hinv' [[e2 He2] Hs2]].
      rewrite <- app_assoc in Hinv'. split; [exact Hinv'|].
      split; [exists (e1 ++ e2); rewrite He2, He1, app_assoc; reflexivity|].
      intro Hst. rewrite (Hs2 Hst), (Hs1 Hst). reflexivity.
    + exfalso. clear - H. induction data as [|x data IHd]; simpl in H; [discriminate|apply IHd; exact H].
    + exfalso. clear - H. induction data as [|x data IHd]; simpl in H; [discriminate|apply IHd; exact H].
Qed.

(* the duplicate check of NewFactory decides NoDup *)
Lemma existsb_bytes_eqb_In x l : existsb (bytes_eqb x) l = true <-> In x l.
Proof.
  rewrite existsb_exists. split.
  - intros [y [Hy He]]. apply bytes_eqb_spec in He. subst. exact Hy.
  - intro H. exists x. split; [exact H|apply bytes_eqb_refl].
Qed.

Lemma nodup_bytes_spec l : nodup_bytes l = true <-> NoDup l.
Proof.
  induction l as [|x l IH]; simpl.
  - split; [constructor|reflexivity].
  - rewrite andb_true_iff, negb_true_iff, IH. split.
    + intros [Hx Hn]. constructor; [|exact Hn]. intro Hin. apply existsb_bytes_eqb_In in Hin. congruence.
    + intro H. inversion H as [|? ? Hx Hn]; subst. split; [|exact Hn].
      destruct (existsb (bytes_eqb x) l) eqn:E; [|reflexivity]. apply existsb_bytes_eqb_In in E. tauto.
Qed.

Lemma nodup_bytes_false l : nodup_bytes l = false <-> ~ NoDup l.
Proof.
  rewrite <- nodup_bytes_spec. destruct (nodup_bytes l); split; intro H; try reflexivity; try discriminate.
  - exfalso. apply H. reflexivity.
Qed.

(* the value table of an enum column lists no value twice: what NewFactory asks of a declaration, and what every
   column the factory returns has (Proofs/EnumOrderProofs.v enum_new_nodup) *)
Definition enum_table_nodup (c : coldata) : bool :=
  match c with ECol _ vs _ => nodup_bytes vs | _ => true end.
Definition enum_tables_nodup (f : frame) : bool := forallb (fun nc => enum_table_nodup (snd nc)) (cols f).

Lemma enum_new_unfold data values :
  enum_new data values =
  if (N.to_nat c_maxCardinality <? length values) then Fail
  else if negb (nodup_bytes values) then Fail
  else let strict := negb (Nat.eqb (length values) 0) in
       do r <- ofold (enum_step strict) data (values, []); Ok (ECol (snd r) (fst r) strict).
Proof.
  unfold enum_new. destruct (N.to_nat c_maxCardinality <? length values); [reflexivity|].
  destruct (nodup_bytes values); reflexivity.
Qed.

(* C17: a declaration that lists a value twice is rejected by the factory, whatever the data *)
Theorem enum_new_duplicate_rejected data values : ~ NoDup values -> enum_new data values = Fail.
Proof.
  intro H. apply nodup_bytes_false in H. rewrite enum_new_unfold, H.
  destruct (N.to_nat c_maxCardinality <? length values); reflexivity.
Qed.

Theorem enum_new_const_duplicate_rejected v n values : ~ NoDup values -> enum_new_const v n values = Fail.
Proof.
  intro H. apply nodup_bytes_false in H. unfold enum_new_const. rewrite H.
  destruct (N.to_nat c_maxCardinality <? length values); reflexivity.
Qed.

(* ... hence a successful construction proves the declaration free of repetitions *)
Theorem enum_new_ok_nodup data values c : enum_new data values = Ok c -> NoDup values.
Proof.
  intro H. apply nodup_bytes_spec. rewrite enum_new_unfold in H.
  destruct (N.to_nat c_maxCardinality <? length values); [discriminate|].
  destruct (nodup_bytes values); [reflexivity|discriminate].
Qed.

Theorem enum_new_const_ok_nodup v n values c : enum_new_const v n values = Ok c -> NoDup values.
Proof.
  intro H. apply nodup_bytes_spec. unfold enum_new_const in H.
  destruct (N.to_nat c_maxCardinality <? length values); [discriminate|].
  destruct (nodup_bytes values); [reflexivity|discriminate].
Qed.

(* C17 decode: whatever New accepted is read back exactly: every string as itself, null as null *)
Theorem enum_new_decode data values d vals strict :
  enum_new data values = Ok (ECol d vals strict) ->
  length vals <= 255
  /\ (exists ext, vals = values ++ ext) /\ (values <> [] -> vals = values)
  /\ length d = length data
  /\ forall k s, nth_error data k = Some s -> cell_at (ECol d vals strict) k = Ok (CEnum s).
Proof.
  rewrite enum_new_unfold.
  destruct (N.to_nat c_maxCardinality <? length values) eqn:Ec; [discriminate|].
  apply Nat.ltb_ge in Ec. change (N.to_nat c_maxCardinality) with 255 in Ec.
  destruct (nodup_bytes values) eqn:End; [|discriminate].
  cbv zeta. cbn [negb]. intro H.
  destruct (ofold (enum_step (negb (length values =? 0))) data (values, [])) as [[vs acc]| |] eqn:Ef; try discriminate.
  simpl in H. inversion H; subst. clear H.
  assert (Hinv0 : enum_inv [] (values, [])) by (split; [exact Ec|reflexivity]).
  destruct (ofold_enum _ [] data _ _ Hinv0 Ef) as [[Hl Hd] [[ext He] Hs]]. simpl in *.
  split; [exact Hl|]. split; [exists ext; exact He|].
  split; [intro Hne; apply Hs; destruct values; [congruence|reflexivity]|].
  assert (Hlen : length d = length data).
  { apply (f_equal (@length _)) in Hd. rewrite !map_length in Hd. exact Hd. }
  split; [exact Hlen|].
  intros k s Hk.
  assert (Hdk : exists r, nth_error d k = Some r /\ decode vals r = Some s).
  { assert (Hm : nth_error (map (decode vals) d) k = Some (Some s)) by (rewrite Hd, nth_error_map, Hk; reflexivity).
    rewrite nth_error_map in Hm. destruct (nth_error d k) as [r|]; [|discriminate].
    exists r. split; [reflexivity|]. simpl in Hm. inversion Hm. reflexivity. }
  destruct Hdk as [r [Hr Hdec]].
  unfold cell_at, idx. rewrite Hr. simpl. unfold enum_string. unfold decode in Hdec.
  destruct (enum_is_null r); [inversion Hdec; reflexivity|].
  unfold idx. destruct (nth_error vals (N.to_nat r)); [inversion Hdec; reflexivity|discriminate].
Qed.

(* C17 strict: with declared values any undeclared string makes the construction fail *)
Theorem enum_new_strict data values b :
  values <> [] -> In (Some b) data -> ~ In b values -> enum_new data values <> Ok (ECol [] [] false) /\
  forall d vals strict, enum_new data values <> Ok (ECol d vals strict).
Proof.
  intros Hne Hin Hnot.
  assert (G : forall d vals strict, enum_new data values <> Ok (ECol d vals strict)).
  { intros d vals strict H.
    destruct (enum_new_decode data values d vals strict H) as [_ [_ [Hv [_ Hcell]]]].
    specialize (Hv Hne). subst vals.
    destruct (In_nth_error _ _ Hin) as [k Hk].
    specialize (Hcell k (Some b) Hk).
    unfold cell_at, idx in Hcell. destruct (nth_error d k) as [r|]; [|discriminate]. simpl in Hcell.
    unfold enum_string in Hcell. destruct (enum_is_null r); [discriminate|].
    unfold idx in Hcell. destruct (nth_error values (N.to_nat r)) eqn:En; [|discriminate].
    simpl in Hcell. inversion Hcell; subst. apply Hnot. eapply nth_error_In. exact En. }
  split; [apply G|exact G].
Qed.

(* more than 255 declared values are rejected outright *)
Theorem enum_new_too_many data values : 255 < length values -> enum_new data values = Fail.
Proof.
  intro H. rewrite enum_new_unfold. change (N.to_nat c_maxCardinality) with 255.
  destruct (255 <? length values) eqn:E; [reflexivity|]. apply Nat.ltb_ge in E. lia.
Qed.

(* C17 order: the rank stored for a cell is a position of its string in the value table (for declared values:
   a DECLARED position), so comparing ranks — what <, <=, >, >= and Sort do on enum columns — is comparing
   declared positions; and a null cell has the reserved rank 255, which no value can have. *)
Theorem enum_rank_is_position data values d vals strict :
  enum_new data values = Ok (ECol d vals strict) ->
  forall k r, nth_error d k = Some r ->
    match nth_error data k with
    | Some (Some s) => r <> 255%N /\ nth_error vals (N.to_nat r) = Some s
    | Some None => r = 255%N
    | None => False
    end.
Proof.
  intros H k r Hr.
  destruct (enum_new_decode data values d vals strict H) as [Hl [_ [_ [Hlen Hcell]]]].
  destruct (nth_error data k) as [s|] eqn:Ek.
  - specialize (Hcell k s Ek). unfold cell_at, idx in Hcell. rewrite Hr in Hcell. simpl in Hcell.
    unfold enum_string, enum_is_null in Hcell. change c_nullValue with 255%N in Hcell.
    destruct (r =? 255)%N eqn:E.
    + inversion Hcell; subst. apply N.eqb_eq. exact E.
    + unfold idx in Hcell. destruct (nth_error vals (N.to_nat r)) as [s0|] eqn:En; [|discriminate].
      simpl in Hcell. inversion Hcell; subst. split; [apply N.eqb_neq; exact E|reflexivity].
  - apply nth_error_None in Ek. assert (k < length d) by (apply nth_error_Some; rewrite Hr; discriminate). lia.
Qed.
