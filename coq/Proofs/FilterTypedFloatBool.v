(* Proofs/FilterTypedFloatBool.v — C02, typed meaning of the leaves over FLOAT and BOOL columns
   (internal/fcolumn, internal/bcolumn): every built-in comparator x every argument kind, one row at a time,
   against Model/FilterSpec.v.  NaN: every comparison false except != (true); a NaN constant is an error. *)
From QF Require Import Base.Prelude Base.KernelSyntax Gen.GenConsts Gen.GenTables Gen.GenKernels.
From QF Require Import Model.Frame Model.Bits Model.Kernel Model.Filter Model.FilterSpec.
From QF Require Import Proofs.FilterProofs Proofs.FilterLeafProofs Proofs.FilterTyped.
Local Open Scope nat_scope.

Ltac fb_known rew :=
  reduce_closed1; spec_done;
  first [ exact I
        | model_unfold; reduce_closed1;
          first [ intros i b; reflexivity
                | eval_run; rew; cbn [obind]; kcmp; cbn [obind as_bool k_inset]; cbn [map]; reflexivity ] ].

Ltac fb_unknown Hunk :=
  unk Hunk; spec_done; first [ exact I | intros i b; model_unfold; unk Hunk; reflexivity ].

Ltac fb_invalid Hv := unfold builtin_sat; cbn [cell_at]; rewrite Hv; cbn [obind]; spec_done; intros i b; reflexivity.

Theorem colrow_float mt f d s arg p :
  p < length d -> arg_row_ok f arg p -> colrow_ok mt f (FCol d) (CmpName s) arg p.
Proof.
  intros Hp Harg. destruct (idx_lt d p Hp) as [v Hv].
  unfold colrow_ok, leaf_core, resolve.
  destruct arg as [z|fb ft|bb|str|zs|fs|ss|ifs|n| |].
  - fb_invalid Hv.
  - (* float constant *)
    unfold builtin_sat. cbn [cell_at]. rewrite Hv. cbn [obind].
    destruct (f_isnan fb) eqn:Hnan.
    + spec_done. intros i b. model_unfold. rewrite Hnan. reflexivity.
    + name_cases s Hunk;
        [ reduce_closed1; spec_done;
          first [ exact I
                | model_unfold; rewrite ?Hnan; reduce_closed1;
                  first [ intros i b; reflexivity
                        | eval_run; rewrite ?Hv; cbn [obind]; kcmp; cbn [obind as_bool]; reflexivity ] ] ..
        | unk Hunk; spec_done; intros i b; model_unfold; rewrite ?Hnan; unk Hunk; reflexivity ].
  - fb_invalid Hv.
  - fb_invalid Hv.
  - fb_invalid Hv.
  - fb_invalid Hv.
  - fb_invalid Hv.
  - fb_invalid Hv.
  - (* another column *)
    unfold arg_row_ok in Harg.
    destruct (lookup_col f n) as [c2|] eqn:Hl; [|exact I].
    destruct Harg as [Hp2 _].
    destruct c2 as [d2|d2|d2|d2|d2 vs2 st2]; cbn [col_len] in Hp2.
    + destruct (idx_lt d2 p Hp2) as [w Hw].
      unfold builtin_sat. cbn [cell_at]. rewrite Hv. cbn [obind]. rewrite Hl, Hw. cbn [obind].
      name_cases s Hunk;
        [ fb_known ltac:(unfold float_slice; rewrite ?idx_map, ?Hv, ?Hw) .. | fb_unknown Hunk ].
    + destruct (idx_lt d2 p Hp2) as [w Hw].
      unfold builtin_sat. cbn [cell_at]. rewrite Hv. cbn [obind]. rewrite Hl, Hw. cbn [obind].
      name_cases s Hunk; [ fb_known ltac:(rewrite ?Hv, ?Hw) .. | fb_unknown Hunk ].
    + unfold builtin_sat. cbn [cell_at]. rewrite Hv. cbn [obind]. rewrite Hl. spec_done. intros i b. reflexivity.
    + unfold builtin_sat. cbn [cell_at]. rewrite Hv. cbn [obind]. rewrite Hl. spec_done. intros i b. reflexivity.
    + unfold builtin_sat. cbn [cell_at]. rewrite Hv. cbn [obind]. rewrite Hl. spec_done. intros i b. reflexivity.
  - (* nil : isnull / isnotnull = NaN test *)
    unfold builtin_sat. cbn [cell_at]. rewrite Hv. cbn [obind].
    name_cases s Hunk; [ fb_known ltac:(rewrite ?Hv) .. | fb_unknown Hunk ].
  - fb_invalid Hv.
Qed.

Theorem colrow_bool mt f d s arg p :
  p < length d -> arg_row_ok f arg p -> colrow_ok mt f (BCol d) (CmpName s) arg p.
Proof.
  intros Hp Harg. destruct (idx_lt d p Hp) as [v Hv].
  unfold colrow_ok, leaf_core, resolve.
  destruct arg as [z|fb ft|bb|str|zs|fs|ss|ifs|n| |].
  - fb_invalid Hv.
  - fb_invalid Hv.
  - (* bool constant *)
    unfold builtin_sat. cbn [cell_at]. rewrite Hv. cbn [obind].
    name_cases s Hunk; [ fb_known ltac:(rewrite ?Hv) .. | fb_unknown Hunk ].
  - fb_invalid Hv.
  - fb_invalid Hv.
  - fb_invalid Hv.
  - fb_invalid Hv.
  - fb_invalid Hv.
  - unfold arg_row_ok in Harg.
    destruct (lookup_col f n) as [c2|] eqn:Hl; [|exact I].
    destruct Harg as [Hp2 _].
    destruct c2 as [d2|d2|d2|d2|d2 vs2 st2]; cbn [col_len] in Hp2;
      try (unfold builtin_sat; cbn [cell_at]; rewrite Hv; cbn [obind]; rewrite Hl; spec_done; intros i b; reflexivity).
    destruct (idx_lt d2 p Hp2) as [w Hw].
    unfold builtin_sat. cbn [cell_at]. rewrite Hv. cbn [obind]. rewrite Hl, Hw. cbn [obind].
    name_cases s Hunk; [ fb_known ltac:(rewrite ?Hv, ?Hw) .. | fb_unknown Hunk ].
  - fb_invalid Hv.
  - fb_invalid Hv.
Qed.
