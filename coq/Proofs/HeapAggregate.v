(* Proofs/HeapAggregate.v — the safety of Grouper.Aggregate (the one operation HeapOpsProofs.v left open),
   hence: EVERY operation of the quantifier of C01 / C11 writes only what it allocated itself.
     * Column.Subset (key columns): fresh data (string: fresh pointers and blob; enum: the value table
       is shared, read only);
     * Column.Aggregate with the reusable buffer of subsetWithBuf: the buffer is nil or own, buf[:0]
       keeps the base, every append goes into the buffer (own) or into a fresh array;
     * the result frame: fresh header slice (appends into an own slice), fresh map, fresh ascending index.
   Then [lop_all_safe], the history theorem and the schedule theorem without a safety premise. *)
From QF Require Import Base.Prelude Model.Heap Model.HeapOps Model.Conc
     Proofs.HeapProofs Proofs.HeapOpsProofs Proofs.ConcProofs.

#[local] Arguments bind : simpl never.
#[local] Arguments bindO : simpl never.
#[local] Arguments lift : simpl never.
#[local] Arguments make_slice : simpl never.
#[local] Arguments slice_lit : simpl never.
#[local] Arguments slice_get : simpl never.
#[local] Arguments slice_set : simpl never.
#[local] Arguments slice_read : simpl never.
#[local] Arguments slice_append : simpl never.
#[local] Arguments slice_append_list : simpl never.
#[local] Arguments slice_write_list : simpl never.
#[local] Arguments slice_copy : simpl never.
#[local] Arguments map_make : simpl never.
#[local] Arguments map_read : simpl never.
#[local] Arguments map_lookup : simpl never.
#[local] Arguments map_store : simpl never.
#[local] Arguments get_z : simpl never.
#[local] Arguments get_b : simpl never.
#[local] Arguments get_col : simpl never.
#[local] Arguments read_zs : simpl never.
#[local] Arguments read_bs : simpl never.
#[local] Arguments read_cols : simpl never.
#[local] Arguments read_slices : simpl never.
#[local] Arguments for_each : simpl never.
#[local] Arguments for_eachO : simpl never.
#[local] Arguments new_ascending : simpl never.
#[local] Arguments wrap_result : simpl never.
#[local] Arguments col_cell : simpl never.

Section AggSafe.
  Variable pre : loc -> bool.

  Local Notation SP := (spq pre).
  Local Notation s_ok := (slice_ok pre).
  Local Notation c_ok := (col_ok pre).

  Ltac up Hi :=
    repeat match goal with
    | H : slice_ok _ ?o _ |- _ =>
        match type of Hi with incl o _ => eapply slice_ok_mono in H; [|exact Hi] end
    | H : slice_own ?o _ |- _ =>
        match type of Hi with incl o _ => eapply slice_own_mono in H; [|exact Hi] end
    | H : col_ok _ ?o _ |- _ =>
        match type of Hi with incl o _ => eapply col_ok_mono in H; [|exact Hi] end
    | H : Forall (col_ok _ ?o) _ |- _ =>
        match type of Hi with incl o _ => eapply cols_ok_mono in H; [|exact Hi] end
    | H : Forall (slice_ok _ ?o) _ |- _ =>
        match type of Hi with incl o _ => eapply slices_ok_mono in H; [|exact Hi] end
    | H : map_acc _ ?o _ |- _ =>
        match type of Hi with incl o _ => eapply map_acc_mono in H; [|exact Hi] end
    | H : acc _ ?o _ |- _ =>
        match type of Hi with incl o _ => eapply acc_mono in H; [|exact Hi] end
    | H : In _ ?o |- _ =>
        match type of Hi with incl o _ => eapply In_mono in H; [|exact Hi] end
    | H : opt_ok _ ?o _ |- _ =>
        match type of Hi with incl o _ => eapply opt_col_mono in H; [|exact Hi] end
    end.

  Ltac step lem := eapply spq_seq; [eapply lem; eauto|cbv beta].
  Ltac stepO lem := eapply spq_seqO; [eapply lem; eauto|cbv beta].
  Ltac stepA lem := eapply spq_seqO; [eapply to_anyO; eapply lem; eauto|cbv beta].

  Local Notation any := (fun _ (_ : list loc) => True).
  Local Notation own_slice := (fun (s : slice) (own : list loc) => slice_own own s).
  Local Notation ok_col := (fun (c : col) (own : list loc) => c_ok own c).

  Lemma scalar_val_ok P own v : val_ok pre P own (scalar v).
  Proof. apply scalar_ok. unfold scalar. destruct (is_scalar v) eqn:E; auto. Qed.

  Lemma Forall_san_z P own vs : Forall (val_ok pre P own) (map san_z vs).
  Proof. induction vs as [|v r IH]; simpl; constructor; auto. exact I. Qed.

  (* ------------------------------------------------------------ Column.Subset *)
  Local Notation ok_vals := (fun (cells : list val) (own : list loc) => Forall (val_ok pre True own) cells).

  Lemma sp_col_subset c ix own :
    c_ok own c -> s_ok own ix -> SP (col_subset c ix) own (okO ok_col).
  Proof.
    intros Hc Hix. unfold col_subset.
    step sp_read_zs. intros ixs own1 Hi1 ->.
    eapply spq_seqO with (Q1 := ok_vals).
    { eapply (sp_for_eachO pre _ ok_vals _ (fun _ => True)); auto using Forall_True.
      intros i acc0 own2 _ Hi2 Hacc. up Hi2.
      stepA sp_col_cell. intros x own3 Hi3 _. simpl.
      apply Forall_app. split.
      - eapply vals_ok_mono; [| exact Hi3 | exact Hacc]. auto.
      - constructor; [apply scalar_val_ok|constructor]. }
    intros cells own2 Hi2 Hcells. up Hi2.
    step sp_lit_own. intros d own3 Hi3 Hd. up Hi3.
    unfold col_ok in Hc.
    destruct (c_parts c) as [|p1 [|p2 [|p3 r]]] eqn:Ep; simpl.
    - constructor; [apply slice_own_ok; exact Hd|constructor].
    - constructor; [apply slice_own_ok; exact Hd|constructor].
    - inversion Hc as [|? ? Hp1 Hr]; subst. inversion Hr as [|? ? Hp2 _]; subst.
      destruct (c_ty c =? ty_string)%N.
      + step sp_read. intros vs own4 Hi4 [-> _].
        step sp_lit_own; [apply Forall_san_z|]. intros blob own5 Hi5 Hblob. up Hi5. simpl.
        constructor; [apply slice_own_ok; exact Hd|]. constructor; [apply slice_own_ok; exact Hblob|constructor].
      + simpl. constructor; [apply slice_own_ok; exact Hd|]. constructor; [exact Hp2|constructor].
    - constructor; [apply slice_own_ok; exact Hd|constructor].
  Qed.

  (* ------------------------------------------------------------ Column.Aggregate / subsetWithBuf *)
  Local Notation agg_inv := (fun (st : slice * slice) (own : list loc) => slice_own own (fst st) /\ slice_own own (snd st)).

  Lemma reslice0_own own b : slice_own own b -> slice_own own (mkSlice (s_base b) (s_off b) 0 (s_cap b)).
  Proof. intros [[H1 H2]|H]; [left; simpl; auto|right; simpl; auto]. Qed.

  Lemma sp_col_aggregate c fn rty groups own :
    c_ok own c -> Forall (s_ok own) groups ->
    SP (col_aggregate c fn rty groups) own (okO own_slice).
  Proof.
    intros Hc Hg. unfold col_aggregate.
    step sp_make_own; [apply zero_of_ok|]. intros data own1 Hi1 Hdata. up Hi1.
    eapply spq_seqO with (Q1 := agg_inv).
    - eapply (sp_for_eachO pre _ agg_inv groups (s_ok own1)); auto.
      { split; simpl; [exact Hdata|apply nil_own]. }
      intros g [d buf] own2 Hgk Hi2 [Hd Hbuf]. simpl in Hd, Hbuf. up Hi2.
      eapply spq_seq with (Q1 := own_slice).
      { destruct (s_cap buf <? s_len g); [apply sp_make_own; exact I|simpl; exact Hbuf]. }
      intros buf1 own3 Hi3 Hbuf1. up Hi3.
      step sp_read_zs. intros gix own4 Hi4 ->.
      eapply spq_seqO with (Q1 := own_slice).
      { eapply (sp_for_eachO pre _ own_slice _ (fun _ => True)); auto using Forall_True.
        - apply reslice0_own. exact Hbuf1.
        - intros i b own5 _ Hi5 Hb. up Hi5.
          stepA sp_col_cell. intros x own6 Hi6 _. up Hi6.
          apply sp_lift. apply sp_append_own; auto. apply scalar_val_ok. }
      intros sub own5 Hi5 Hsub. up Hi5.
      step sp_read_own. intros vs own6 Hi6 [-> _].
      eapply spq_seq with (Q1 := own_slice).
      { simpl. intros v Hv. apply sp_append_own; auto. apply scalar_ok; auto. }
      intros d' own7 Hi7 Hd'. up Hi7. simpl. split; auto.
    - intros st own2 Hi2 [Hst _]. simpl. exact Hst.
  Qed.

  (* ------------------------------------------------------------ Grouper.Aggregate *)
  Lemma Forall_combine_snd {X Y} (P : Y -> Prop) (xs : list X) (ys : list Y) :
    Forall P ys -> Forall (fun xy => P (snd xy)) (combine xs ys).
  Proof.
    intro H. revert xs. induction H as [|y r Hy Hr IH]; intros [|x xs]; simpl; constructor; auto.
  Qed.

  Lemma sp_op_aggregate aggs g own :
    g_ok pre g own -> SP (op_aggregate aggs g) own (okO (fun q own' => qf_ok pre q own')).
  Proof.
    intros (Hg1 & Hg2 & Hg3). unfold op_aggregate.
    destruct (g_err g); [apply err_frame_ok|].
    step sp_read_slices. intros groups own1 Hi1 [-> Hgroups].
    step sp_make_own; [exact I|]. intros fe own2 Hi2 Hfe. up Hi2.
    eapply spq_seqO with (Q1 := any).
    { eapply sp_anyO.
      eapply (sp_for_eachO pre _ any _ (fun ig : nat * slice => s_ok own2 (snd ig))).
      - apply Forall_combine_snd. exact Hgroups.
      - exact I.
      - intros [i gi] _ own3 Hgi Hi3 _. simpl in Hgi. up Hi3. simpl.
        stepA sp_get_z. intros x own4 Hi4 _. up Hi4.
        eapply to_anyO, sp_set; eauto. exact I. }
    intros _ own3 Hi3 _. up Hi3.
    step sp_map_make. intros nm own4 Hi4 Hnm. up Hi4.
    step sp_make_own; [apply empty_col_ok|]. intros nc0 own5 Hi5 Hnc0. up Hi5.
    eapply spq_seqO with (Q1 := own_slice).
    { eapply (sp_for_eachO pre _ own_slice _ (fun _ => True)); auto using Forall_True.
      intros [i nm0] nc own6 _ Hi6 Hnc. up Hi6. simpl.
      step sp_by_name_m. intros oc own7 Hi7 Hoc. up Hi7.
      assert (Hs : c_ok own7 (set_pos match oc with Some c => c | None => mkCol [] 0 0 [] end i)).
      { destruct oc as [c0|]; [apply set_pos_ok, opt_ok_some; exact Hoc|apply empty_col_ok]. }
      stepO sp_col_subset; [apply own_ok; exact Hfe|]. intros c' own8 Hi8 Hc'. up Hi8.
      step sp_map_store. intros _ own9 Hi9 _. up Hi9.
      apply sp_lift. apply sp_append_own; auto. }
    intros nc1 own6 Hi6 Hnc1. up Hi6.
    eapply spq_seq with (Q1 := okO own_slice).
    { eapply (sp_for_eachO pre _ own_slice _ (fun _ => True)); auto using Forall_True.
      intros a nc own7 _ Hi7 Hnc. up Hi7.
      step sp_by_name_m. intros oc own8 Hi8 Hoc. up Hi8.
      destruct oc as [c|]; [|exact I].
      pose proof (opt_ok_some _ _ _ Hoc) as Hc.
      step sp_map_lookup; [right; exact Hnm|]. intros dup own9 Hi9 [-> _].
      destruct dup as [d0|]; [exact I|].
      eapply spq_seqO with (Q1 := ok_col).
      { destruct (a_count a).
        - step sp_lit_own.
          { clear. induction groups as [|s r IH]; simpl; constructor; auto. exact I. }
          intros counts own10 Hi10 Hcounts. simpl.
          constructor; [apply slice_own_ok; exact Hcounts|constructor].
        - destruct (a_fn a) as [fn|]; [|exact I].
          stepO sp_col_aggregate. intros d own10 Hi10 Hd. up Hi10.
          step sp_wrap_result. intros w own11 Hi11 Hw. simpl. exact Hw. }
      intros c' own10 Hi10 Hc'. up Hi10.
      step sp_map_store. intros _ own11 Hi11 _. up Hi11.
      apply sp_lift. apply sp_append_own; auto. }
    intros r own7 Hi7 Hr. up Hi7.
    destruct r as [nc| |]; [|apply err_frame_ok|exact I].
    simpl in Hr.
    step sp_new_ascending. intros ix own8 Hi8 Hix. up Hi8. simpl.
    repeat split; simpl.
    - apply slice_own_ok; exact Hr.
    - intros l Hl. inversion Hl; subst. right. exact Hnm.
    - apply slice_own_ok; exact Hix.
  Qed.
End AggSafe.

(* ==================================================================== every operation is safe *)
Lemma safe_aggregate aggs : lop_safe (LAggregate aggs).
Proof.
  intros pre own recv other Hr Ho. unfold lop_prog.
  destruct recv as [q|g]; simpl in Hr; [simpl; constructor|].
  apply sp_one. apply sp_op_aggregate. exact Hr.
Qed.

Theorem lop_all_safe op : lop_safe op.
Proof.
  destruct (lop_proved op) eqn:E; [apply lop_proved_safe; exact E|].
  destruct op; try discriminate. apply safe_aggregate.
Qed.

(* C01, full statement: histories over ALL operations of the quantifier *)
Theorem history_persistent_all env h t st fam tobs :
  hist_inv t st fam -> t + length h <= tobs ->
  forall j k sj fj sk fk, j <= k ->
    nth_error (history_states env h t st fam) j = Some (sj, fj) ->
    nth_error (history_states env h t st fam) k = Some (sk, fk) ->
    forall m, In m fj -> observe env tobs sk m = observe env tobs sj m.
Proof.
  intros Hinv Hobs. apply history_persistent; auto.
  apply Forall_forall. intros x _. apply lop_all_safe.
Qed.

(* every operation, every closed store, every valid reference: the instrumented run does not fault *)
Theorem op_solo_safe_all env op recv other t n st :
  closed_store st -> store_fresh t n st ->
  mem_ok (in_dom st) recv [] -> mem_ok (in_dom st) other [] ->
  run_tr env t (lop_prog op recv other) n st <> None.
Proof. apply op_solo_safe. apply lop_all_safe. Qed.

(* C11 for multisets of ANY operations: the only premises are about the store and the references *)
Definition job_ref_ok (st : store) (j : job) : Prop :=
  let '(op, recv, other) := j in mem_ok (in_dom st) recv [] /\ mem_ok (in_dom st) other [].

Theorem C11_ops_all env (s0 : store) (jobs : list job) :
  closed_store s0 ->
  (forall t k, 1 <= t -> lookup s0 (t, k) = None) ->
  Forall (job_ref_ok s0) jobs ->
  forall sched : list nat,
    let progs := map job_prog jobs in
    let c := run_conc env progs sched s0 in
    (forall i p th a, nth_error progs i = Some p -> nth_error (c_pool c) i = Some th ->
                      ts_code th = Ret a -> a = solo_value env _ s0 i p) /\
    no_race (c_trace c) /\
    (forall l, in_dom s0 l = true -> lookup (c_store c) l = lookup s0 l) /\
    (complete c = true -> results c = solo_results env progs s0).
Proof.
  intros Hc Hf Hjobs. apply C11_ops; auto.
  eapply Forall_impl; [|exact Hjobs]. intros [[op recv] other] [H1 H2]. simpl.
  split; [apply lop_all_safe|split; assumption].
Qed.

(* ==================================================================== negative examples as theorems *)
(* 1. setColumn without the copy.  For EVERY store, thread and receiver whose header slice has spare
      capacity: adding a new column is rejected by the instrumented run (the append writes the
      receiver's header array in place); overwriting an existing column is rejected as well. *)
Lemma by_name_tr env pre t qf name n own st a n' s' own' :
  run_tr_aux env pre t (by_name qf name) n own st = Some (a, n', s', own') ->
  a = fst (fst (run env t (by_name qf name) n st)) /\ n' = n /\ s' = st /\ own' = own.
Proof.
  unfold by_name, by_name_m. destruct (q_map qf) as [l|]; simpl.
  - destruct (pre l || mem_loc l own); [|discriminate]. intro H. inversion H; subst. auto.
  - intro H. inversion H; subst. auto.
Qed.

Theorem set_column_nocopy_append_rejected env t n st name ty parts qf :
  s_len (q_cols qf) < s_cap (q_cols qf) ->
  fst (fst (run env t (by_name qf name) n st)) = None ->          (* the column is new *)
  run_tr env t (set_column_nocopy true name ty parts qf) n st = None.
Proof.
  intros Hcap Hnew. unfold run_tr, set_column_nocopy. simpl negb. cbv iota.
  rewrite run_tr_aux_bind.
  destruct (run_tr_aux env (in_dom st) t (by_name qf name) n [] st) as [[[[a n'] s'] own']|] eqn:E; [|reflexivity].
  apply by_name_tr in E. destruct E as (-> & -> & -> & ->). rewrite Hnew.
  unfold bindO, lift. rewrite !run_tr_aux_bind.
  unfold slice_append. assert (E : (s_len (q_cols qf) <? s_cap (q_cols qf)) = true) by (apply Nat.ltb_lt; exact Hcap).
  rewrite E. reflexivity.
Qed.

Theorem set_column_nocopy_overwrite_rejected env t n st name ty parts qf c :
  fst (fst (run env t (by_name qf name) n st)) = Some c ->        (* the column exists ... *)
  c_pos c < s_len (q_cols qf) ->                                  (* ... at a position of the header *)
  run_tr env t (set_column_nocopy true name ty parts qf) n st = None.
Proof.
  intros Hex Hpos. unfold run_tr, set_column_nocopy. simpl negb. cbv iota.
  rewrite run_tr_aux_bind.
  destruct (run_tr_aux env (in_dom st) t (by_name qf name) n [] st) as [[[[a n'] s'] own']|] eqn:E; [|reflexivity].
  apply by_name_tr in E. destruct E as (-> & -> & -> & ->). rewrite Hex.
  unfold bindO. rewrite !run_tr_aux_bind.
  unfold slice_set. assert (E : (c_pos c <? s_len (q_cols qf)) = true) by (apply Nat.ltb_lt; exact Hpos).
  rewrite E. reflexivity.
Qed.

(* 2. Aggregate that sorts the groups' index slices in place (concrete instance): the grouper of
      GroupBy() (no columns), whose single group IS the receiver's index; the instrumented run rejects
      the program, the uninstrumented run shows the damage (the receiver's rows are reordered). *)
Module AggExamples.
  Import HeapExamples.

  (* a store whose frame has spare capacity behind its header slice (cap 2, len 1) *)
  Definition st1 : store :=
    [((0, 0), [VZ 0; VZ 1; VZ 3; VZ 2]);
     ((0, 1), [VCol cA; VNil]);
     ((0, 2), [VMap [(nA, cA)]]);
     ((0, 3), [VZ 30; VZ 10; VZ 5; VZ 20])].
  Definition qf1 := mkQF (mkSlice (0, 1) 0 1 2) (Some (0, 2)) (mkSlice (0, 0) 0 4 4) false.
  Definition nB : bytes := [66%N].
  Definition nC : bytes := [67%N].

  (* the premises of set_column_nocopy_append_rejected hold for (st1, qf1, "B"); the real setColumn is accepted *)
  Example nocopy_premises :
    s_len (q_cols qf1) < s_cap (q_cols qf1) /\
    fst (fst (run env0 1 (by_name qf1 nB) 0 st1)) = None /\
    (exists r, run_tr env0 1 (set_column true nB 0 [mkSlice (0, 3) 0 4 4] qf1) 0 st1 = Some r).
  Proof. split; [vm_compute; lia|split; [reflexivity|eexists; vm_compute; reflexivity]]. Qed.

  Example nocopy_overwrite_premises :
    fst (fst (run env0 1 (by_name qf1 nA) 0 st1)) = Some cA /\ c_pos cA < s_len (q_cols qf1) /\
    (exists r, run_tr env0 1 (set_column true nA 0 [mkSlice (0, 3) 0 4 4] qf1) 0 st1 = Some r).
  Proof. split; [reflexivity|split; [vm_compute; lia|eexists; vm_compute; reflexivity]]. Qed.

  (* what the rejection protects: with the wrong setColumn two frames derived from qf1 share the
     header array; deriving the second one changes what the first one shows (uninstrumented run) *)
  Definition names_of (st : store) (q : qframe) : list bytes := map fst (concat (map ob_cols (observe env0 100 st (MemF q)))).
  Definition bad_pair :=
    let '(r1, _, s1) := run env0 1 (set_column_nocopy true nB 0 [mkSlice (0, 3) 0 4 4] qf1) 0 st1 in
    let '(r2, _, s2) := run env0 2 (set_column_nocopy true nC 0 [mkSlice (0, 3) 0 4 4] qf1) 0 s1 in
    match r1 with Ok q1 => (names_of s1 q1, names_of s2 q1) | _ => ([], []) end.
  Definition good_pair :=
    let '(r1, _, s1) := run env0 1 (set_column true nB 0 [mkSlice (0, 3) 0 4 4] qf1) 0 st1 in
    let '(r2, _, s2) := run env0 2 (set_column true nC 0 [mkSlice (0, 3) 0 4 4] qf1) 0 s1 in
    match r1 with Ok q1 => (names_of s1 q1, names_of s2 q1) | _ => ([], []) end.
  Example nocopy_damage : bad_pair = ([nA; nB], [nA; nC]) /\ good_pair = ([nA; nB], [nA; nB]).
  Proof. vm_compute. split; reflexivity. Qed.

  (* GroupBy() without columns on the frame of HeapExamples: one group, the receiver's own index.
     (Run in the name space of thread 0 so that the name spaces of all threads >= 1 stay unused.) *)
  Definition gp0 : gparams := mkGP (fun _ _ => 0%Z) (fun _ _ _ _ => true).
  Definition g0_run := run env0 0 (op_group_by gp0 [] qf0) 10 st0.
  Definition g0 : grouper := match fst (fst g0_run) with Ok g => g | _ => mkG nil_slice [] nil_slice None true end.
  Definition st_g0 : store := snd g0_run.
  Definition less_ix : sort_less := fun di dj _ _ => (di <? dj)%Z.
  Definition aggs0 : list agg := [mkAgg false (Some 1%N) 0%N nA nB].

  Example group_shares_index :
    fst (fst (run env0 9 (read_slices (g_indices g0)) 0 st_g0)) = [q_idx qf0].
  Proof. vm_compute. reflexivity. Qed.

  Example wrong_aggregate_rejected :
    run_tr env0 2 (op_aggregate_sorting less_ix insertion_script aggs0 g0) 0 st_g0 = None /\
    (exists r, run_tr env0 2 (op_aggregate aggs0 g0) 0 st_g0 = Some r) /\
    (* the damage the rejection protects from: the receiver's rows are reordered *)
    observe env0 100 (snd (run env0 2 (op_aggregate_sorting less_ix insertion_script aggs0 g0) 0 st_g0)) (MemF qf0)
      <> observe env0 100 st_g0 (MemF qf0) /\
    observe env0 100 (snd (run env0 2 (op_aggregate aggs0 g0) 0 st_g0)) (MemF qf0) = observe env0 100 st_g0 (MemF qf0).
  Proof.
    split; [vm_compute; reflexivity|]. split; [eexists; vm_compute; reflexivity|].
    split; [vm_compute; intro H; discriminate H|vm_compute; reflexivity].
  Qed.

  (* the grouper (and the frame) satisfy the premises of the safety theorems *)
  Lemma st_g0_closed : closed_store st_g0.
  Proof.
    assert (E : st_g0 = st0 ++ [((0, 10), [VSl (mkSlice (0, 0) 0 4 4)])]) by (vm_compute; reflexivity).
    rewrite E. intros l a Hl _. unfold st0 in Hl. simpl in Hl.
    repeat match type of Hl with
           | (if ?c then _ else _) = _ => destruct c
           end; inversion Hl; subst; clear Hl;
      repeat (apply Forall_cons; [try exact I|]); try apply Forall_nil.
    - right. left. reflexivity.
    - right. left. reflexivity.
    - right. left. reflexivity.
  Qed.

  Lemma st_g0_fresh t k : 1 <= t -> lookup st_g0 (t, k) = None.
  Proof. intro H. destruct t as [|t]; [lia|]. reflexivity. Qed.

  Lemma g0_ok : mem_ok (in_dom st_g0) (MemG g0) [].
  Proof.
    simpl. repeat split; simpl; try (right; left; reflexivity).
    intros l Hl. inversion Hl; subst. left. reflexivity.
  Qed.

  Lemma qf0_ok_g : mem_ok (in_dom st_g0) (MemF qf0) [].
  Proof. simpl. repeat split; simpl; try (right; left; reflexivity). intros l Hl. inversion Hl; subst. left. reflexivity. Qed.

  Example aggregate_premises :
    closed_store st_g0 /\ store_fresh 2 0 st_g0 /\ mem_ok (in_dom st_g0) (MemG g0) [].
  Proof.
    split; [exact st_g0_closed|]. split; [|exact g0_ok].
    intros k _. apply st_g0_fresh. lia.
  Qed.

  (* C11: two Aggregates (one of them "count"), QFrames and a Sort of the frame whose index the
     grouper's group shares, started at once *)
  Definition jobs1 : list job :=
    [(LAggregate aggs0, MemG g0, MemG g0);
     (LSort [nA] lessA insertion_script, MemF qf0, MemF qf0);
     (LAggregate [mkAgg true None 0%N nA nB], MemG g0, MemG g0);
     (LQFrames, MemG g0, MemG g0)].
  Example jobs1_premises :
    closed_store st_g0 /\ (forall t k, 1 <= t -> lookup st_g0 (t, k) = None) /\ Forall (job_ref_ok st_g0) jobs1.
  Proof.
    split; [exact st_g0_closed|]. split; [exact st_g0_fresh|].
    repeat (apply Forall_cons; [split; first [exact g0_ok | exact qf0_ok_g]|]). apply Forall_nil.
  Qed.
  Definition conc1 := run_conc env0 (map job_prog jobs1) (round_robin 4 400) st_g0.
  Example conc1_example :
    complete conc1 = true /\ has_race (c_trace conc1) = false /\
    results conc1 = solo_results env0 (map job_prog jobs1) st_g0.
  Proof. vm_compute. repeat split; reflexivity. Qed.
End AggExamples.
