(* Proofs/GrouperHash.v — the per-type Hash methods respect the per-type Compare methods:
   Compare = Equal on every key column  ==>  the same bytes are handed to memhash in every column
   ==>  the same folded hash, for EVERY function memhash.  Rows that are equal to nothing (null keys
   under Null(false)) are the only ones that get a random hash.  Also: key equality is a partial
   equivalence, so the premises of C04/C05 hold for real frames. *)
From QF Require Import Base.Prelude Gen.GenConsts Model.Grouper.
Local Open Scope N_scope.

(* a key cell is well formed when its float bit pattern fits 64 bits (uint64 in Go) *)
Definition cell_wf (c : cell) : Prop :=
  match c with CFloat b => b < 2 ^ 64 | _ => True end.

Lemma bytes_cmp_eq a : forall b, bytes_cmp a b = Eq -> a = b.
Proof.
  induction a as [|x a IH]; intros [|y b] H; simpl in H; try discriminate; auto.
  destruct (N.compare x y) eqn:E; try discriminate.
  apply N.compare_eq_iff in E. subst. f_equal. apply IH. exact H.
Qed.

Lemma bytes_cmp_refl a : bytes_cmp a a = Eq.
Proof. induction a as [|x a IH]; simpl; auto. rewrite N.compare_refl. exact IH. Qed.

(* ---------------------------------------------------------------- floats *)

Lemma f_decomp b : b < 2 ^ 64 ->
  b = (if f_sign b then 2 ^ 63 else 0) + N.land b 0x7FFFFFFFFFFFFFFF.
Proof.
  intro Hb. change 0x7FFFFFFFFFFFFFFF with (N.ones 63). rewrite N.land_ones.
  unfold f_sign. rewrite N.testbit_eqb.
  assert (Hq : b / 2 ^ 63 < 2).
  { apply N.div_lt_upper_bound; [apply N.pow_nonzero; discriminate|].
    change (2 ^ 63 * 2) with (2 ^ 64). exact Hb. }
  pose proof (N.div_mod' b (2 ^ 63)) as D.
  rewrite (N.mod_small (b / 2 ^ 63) 2) by exact Hq.
  destruct (N.eqb_spec (b / 2 ^ 63) 1) as [E|E].
  - rewrite E in D. lia.
  - assert (E0 : b / 2 ^ 63 = 0) by lia. rewrite E0 in D. lia.
Qed.

Lemma f_key_inj x y :
  x < 2 ^ 64 -> y < 2 ^ 64 -> f_key x = f_key y -> f_key x <> 0%Z -> x = y.
Proof.
  intros Hx Hy E Hnz. pose proof (f_decomp x Hx) as Dx. pose proof (f_decomp y Hy) as Dy.
  unfold f_key in *.
  set (mx := N.land x 0x7FFFFFFFFFFFFFFF) in *. set (my := N.land y 0x7FFFFFFFFFFFFFFF) in *.
  destruct (f_sign x), (f_sign y); lia.
Qed.

(* ---------------------------------------------------------------- canonical keys *)

(* Compare = Equal means "same canonical key"; a null under Null(false) has no key at all *)
Inductive ckeyT :=
| KInt (z : Z) | KFloat (k : Z) | KNaN | KBool (b : bool) | KStr (s : bytes) | KNullStr | KEnum (r : N).

Definition ckey (nulleq : bool) (c : cell) : option ckeyT :=
  match c with
  | CInt z => Some (KInt z)
  | CFloat b => if f_isnan b then (if nulleq then Some KNaN else None) else Some (KFloat (f_key b))
  | CBool b => Some (KBool b)
  | CStr None => if nulleq then Some KNullStr else None
  | CStr (Some s) => Some (KStr s)
  | CEnum r => if r =? c_nullValue then (if nulleq then Some (KEnum r) else None) else Some (KEnum r)
  end.

Lemma cell_equal_ckey nulleq a b :
  cell_equal nulleq a b = true <-> exists k, ckey nulleq a = Some k /\ ckey nulleq b = Some k.
Proof.
  destruct a as [x|x|x|[x|]|x], b as [y|y|y|[y|]|y]; cbn [cell_equal ckey];
    try (split; [discriminate | intros (k & H1 & H2);
                 repeat match goal with
                        | H : context [if ?c then _ else _] |- _ => destruct c
                        end; congruence]).
  - (* int *) split.
    + intro H. assert (x = y) by lia. subst. eauto.
    + intros (k & H1 & H2). assert (x = y) by congruence. subst. lia.
  - (* float *)
    destruct (f_isnan x), (f_isnan y), nulleq; cbn [orb andb];
      try (split; [discriminate | intros (k & H1 & H2); congruence]).
    + split; eauto.
    + split.
      * intro H. assert (f_key x = f_key y) by lia. exists (KFloat (f_key x)). split; congruence.
      * intros (k & H1 & H2). assert (f_key x = f_key y) by congruence. lia.
    + split.
      * intro H. assert (f_key x = f_key y) by lia. exists (KFloat (f_key x)). split; congruence.
      * intros (k & H1 & H2). assert (f_key x = f_key y) by congruence. lia.
  - (* bool *) split.
    + intro H. apply eqb_prop in H. subst. eauto.
    + intros (k & H1 & H2). assert (x = y) by congruence. subst. apply eqb_reflx.
  - (* string / string *) split.
    + intro H. destruct (bytes_cmp x y) eqn:E; try discriminate. apply bytes_cmp_eq in E. subst. eauto.
    + intros (k & H1 & H2). assert (x = y) by congruence. subst. rewrite bytes_cmp_refl. reflexivity.
  - (* null / null *) destruct nulleq; split; eauto; try discriminate. intros (k & H1 & _). discriminate.
  - (* enum *)
    destruct (N.eqb_spec x c_nullValue) as [Ex|Ex], (N.eqb_spec y c_nullValue) as [Ey|Ey], nulleq;
      cbn [orb andb];
      try (split; [discriminate | intros (k & H1 & H2); congruence]).
    + split; [|reflexivity]. intros _. exists (KEnum x). split; congruence.
    + split.
      * intro H. assert (x = y) by lia. subst. eauto.
      * intros (k & H1 & H2). assert (x = y) by congruence. lia.
    + split.
      * intro H. assert (x = y) by lia. subst. eauto.
      * intros (k & H1 & H2). assert (x = y) by congruence. lia.
Qed.

Lemma cell_equal_sym nulleq a b : cell_equal nulleq a b = true -> cell_equal nulleq b a = true.
Proof. rewrite !cell_equal_ckey. intros (k & H1 & H2). eauto. Qed.

Lemma cell_equal_trans nulleq a b c :
  cell_equal nulleq a b = true -> cell_equal nulleq b c = true -> cell_equal nulleq a c = true.
Proof.
  rewrite !cell_equal_ckey. intros (k & H1 & H2) (k' & H3 & H4).
  exists k. split; congruence.
Qed.

(* ---------------------------------------------------------------- hash input *)

(* Theorem 4, one column: Compare = Equal  ==>  both cells hand the same bytes to memhash
   (in particular neither of them takes the rand.Uint64() branch) *)
Lemma cell_equal_hash_input nulleq a b :
  cell_wf a -> cell_wf b -> cell_equal nulleq a b = true ->
  exists bs, hash_input nulleq a = Some bs /\ hash_input nulleq b = Some bs.
Proof.
  intros Wa Wb H.
  destruct a as [x|x|x|[x|]|x], b as [y|y|y|[y|]|y];
    cbn [cell_equal hash_input cell_wf] in *; try discriminate.
  - assert (x = y) by lia. subst. eauto.
  - destruct (f_isnan x), (f_isnan y), nulleq; cbn [orb andb] in H; try discriminate; eauto.
    + assert (E : f_key x = f_key y) by lia. rewrite <- E.
      destruct (Z.eqb_spec (f_key x) 0) as [E0|E0]; eauto.
      assert (x = y) by (apply f_key_inj; auto). subst. eauto.
    + assert (E : f_key x = f_key y) by lia. rewrite <- E.
      destruct (Z.eqb_spec (f_key x) 0) as [E0|E0]; eauto.
      assert (x = y) by (apply f_key_inj; auto). subst. eauto.
  - apply eqb_prop in H. subst. eauto.
  - destruct (bytes_cmp x y) eqn:E; try discriminate. apply bytes_cmp_eq in E. subst. eauto.
  - subst nulleq. eauto.
  - destruct (N.eqb_spec x c_nullValue) as [Ex|Ex], (N.eqb_spec y c_nullValue) as [Ey|Ey];
      cbn [orb andb] in H; try discriminate.
    + subst. eauto.
    + assert (x = y) by lia. subst. eauto.
Qed.

(* the rand.Uint64() branch is taken only for cells that are equal to nothing, themselves included *)
Lemma random_hash_never_equal nulleq a :
  hash_input nulleq a = None ->
  forall b, cell_equal nulleq a b = false /\ cell_equal nulleq b a = false.
Proof.
  intros H b.
  destruct a as [x|x|x|[x|]|x]; cbn [hash_input] in H; try discriminate.
  - destruct (f_isnan x) eqn:Ex; [|destruct (f_key x =? 0)%Z; discriminate].
    destruct nulleq; [discriminate|].
    destruct b as [y|y|y|[y|]|y]; cbn [cell_equal]; auto. rewrite Ex. cbn [orb andb].
    rewrite !andb_false_r, orb_true_r. auto.
  - destruct nulleq; [discriminate|]. destruct b as [y|y|y|[y|]|y]; cbn [cell_equal]; auto.
Qed.

(* the converse of [cell_equal_hash_input] does NOT hold: a null string under Null(true) and the one
   byte string "\x00" hand the same byte to memhash but are not Equal (a harmless collision) *)
Example null_string_collides_with_nul_byte :
  hash_input true (CStr None) = hash_input true (CStr (Some [0])) /\
  cell_equal true (CStr None) (CStr (Some [0])) = false.
Proof. split; reflexivity. Qed.

(* ---------------------------------------------------------------- whole keys *)

Lemma key_equal_sym nulleq a : forall b, key_equal nulleq a b = true -> key_equal nulleq b a = true.
Proof.
  induction a as [|x a IH]; intros [|y b] H; cbn [key_equal] in *; try discriminate; auto.
  destruct (cell_equal nulleq x y) eqn:E; [|discriminate].
  rewrite (cell_equal_sym _ _ _ E). apply IH. exact H.
Qed.

Lemma key_equal_trans nulleq a : forall b c,
  key_equal nulleq a b = true -> key_equal nulleq b c = true -> key_equal nulleq a c = true.
Proof.
  induction a as [|x a IH]; intros [|y b] [|z c] H1 H2; cbn [key_equal] in *; try discriminate; auto.
  destruct (cell_equal nulleq x y) eqn:E1; [|discriminate].
  destruct (cell_equal nulleq y z) eqn:E2; [|discriminate].
  rewrite (cell_equal_trans _ _ _ _ E1 E2). eapply IH; eauto.
Qed.

(* Theorem 4: equal keys fold to equal hashes, whatever memhash is and whatever the random source
   returns (rnd1 / rnd2: the two rows make different calls to rand.Uint64()) *)
Theorem key_equal_hash (memhash : bytes -> N -> N) nulleq (rnd1 rnd2 : nat -> N) a :
  forall b col seed,
    Forall cell_wf a -> Forall cell_wf b -> key_equal nulleq a b = true ->
    key_hash_from memhash nulleq rnd1 col seed a = key_hash_from memhash nulleq rnd2 col seed b.
Proof.
  induction a as [|x a IH]; intros [|y b] col seed Wa Wb H;
    cbn [key_equal key_hash_from] in *; try discriminate; auto.
  destruct (cell_equal nulleq x y) eqn:E; [|discriminate].
  inversion Wa as [|? ? Wx Wa']; inversion Wb as [|? ? Wy Wb']; subst.
  destruct (cell_equal_hash_input nulleq x y Wx Wy E) as (bs & Hb1 & Hb2).
  rewrite Hb1, Hb2. apply IH; auto.
Qed.

(* ---------------------------------------------------------------- frames *)

(* For a frame whose key cells are [cells i] (row i), with any memhash and any random source, the
   equality and hash functions seen by the table satisfy the premises of C04 / C05. *)
Section Frame.
Context {A : Type}.
Variable cells : A -> list cell.
Variable nulleq : bool.
Variable memhash : bytes -> N -> N.
Variable rnd : A -> nat -> N.        (* the values rand.Uint64() returns while row i is hashed *)

Definition frame_eqb (a b : A) : bool := key_equal nulleq (cells a) (cells b).
Definition frame_hash (a : A) : N := key_hash memhash nulleq (rnd a) (cells a).

Lemma frame_per ids : per_on frame_eqb ids.
Proof.
  split.
  - intros a b _ _. apply key_equal_sym.
  - intros a b c _ _ _. apply key_equal_trans.
Qed.

Lemma frame_hash_respects ids :
  (forall i, In i ids -> Forall cell_wf (cells i)) -> hash_respects frame_eqb frame_hash ids.
Proof.
  intros W a b Ha Hb E. unfold frame_hash, key_hash. apply key_equal_hash; auto.
Qed.

End Frame.
