(* Proofs/CsvFragFullBase.v — groundwork for buffer_refines_stream (C12, general fragmentation theorem):
   list facts about windows of the scan buffer, the reader oracle, and the abstraction
     stream b = (bytes buffered behind the cursor) ++ (bytes still in the reader)
   together with the one-step lemmas for more / reset / the look-ahead refill loop.
   Only the slice data[0:len] ("view") of the physical array matters: stale bytes beyond len are never
   read by the scanner, which is why every lemma below is stated on [view]. *)
From QF Require Import Base.Prelude Gen.GenConsts Model.FastCsv Model.CsvSpec.
Local Open Scope nat_scope.

(* split conjunctions without unfolding definitions *)
Ltac nsplit := repeat match goal with |- _ /\ _ => split end.

(* ------------------------------------------------------------------ lists *)
Section Lists.
Context {A : Type}.
Implicit Types (v : list A).

(* the window v[s:e] *)
Definition sub v (s e : nat) : list A := firstn (e - s) (skipn s v).

Lemma sub_alt v s e : sub v s e = skipn s (firstn e v).
Proof. unfold sub. symmetry. apply skipn_firstn_comm. Qed.

Lemma sub_nil v s : sub v s s = [].
Proof. unfold sub. rewrite Nat.sub_diag. reflexivity. Qed.

Lemma nth_error_firstn_lt v n i : i < n -> nth_error (firstn n v) i = nth_error v i.
Proof.
  revert n i; induction v as [|a v IH]; intros [|n] [|i] H; simpl; try lia; auto.
  apply IH; lia.
Qed.

Lemma nth_error_skipn_plus v s i : nth_error (skipn s v) i = nth_error v (s + i).
Proof.
  revert s; induction v as [|a v IH]; intros [|s]; simpl; auto.
  destruct i; reflexivity.
Qed.

Lemma skipn_nth_cons v i c : nth_error v i = Some c -> skipn i v = c :: skipn (S i) v.
Proof.
  revert i; induction v as [|a v IH]; intros [|i] H; simpl in *; try discriminate.
  - injection H as ->. reflexivity.
  - apply IH. exact H.
Qed.

Lemma firstn_snoc v n c : nth_error v n = Some c -> firstn (S n) v = firstn n v ++ [c].
Proof.
  revert n; induction v as [|a v IH]; intros [|n] H; simpl in *; try discriminate.
  - injection H as ->. reflexivity.
  - f_equal. apply IH. exact H.
Qed.

Lemma sub_snoc v s e c : s <= e -> nth_error v e = Some c -> sub v s (S e) = sub v s e ++ [c].
Proof.
  intros Hse Hn. unfold sub. replace (S e - s) with (S (e - s)) by lia.
  apply firstn_snoc. rewrite nth_error_skipn_plus. replace (s + (e - s)) with e by lia. exact Hn.
Qed.

Lemma sub_length v s e : s <= e -> e <= length v -> length (sub v s e) = e - s.
Proof. intros H1 H2. unfold sub. rewrite firstn_length, skipn_length. lia. Qed.

(* v and v' agree on their first k positions *)
Lemma agree_nth v v' k i : firstn k v' = firstn k v -> i < k -> nth_error v' i = nth_error v i.
Proof.
  intros H Hi.
  rewrite <- (nth_error_firstn_lt v' k i Hi), <- (nth_error_firstn_lt v k i Hi), H. reflexivity.
Qed.

Lemma agree_le v v' k j : firstn k v' = firstn k v -> j <= k -> firstn j v' = firstn j v.
Proof.
  intros H Hj. replace j with (Nat.min j k) by lia. rewrite <- !firstn_firstn, H. reflexivity.
Qed.

Lemma agree_sub v v' k s e : firstn k v' = firstn k v -> e <= k -> sub v' s e = sub v s e.
Proof. intros H He. rewrite !sub_alt, (agree_le v v' k e H He). reflexivity. Qed.

Lemma agree_app v x k : k <= length v -> firstn k (v ++ x) = firstn k v.
Proof.
  intros H. rewrite firstn_app. replace (k - length v) with 0 by lia. simpl. apply app_nil_r.
Qed.

Lemma agree_set_nth v i x k : k <= i -> firstn k (set_nth v i x) = firstn k v.
Proof.
  revert i k; induction v as [|a v IH]; intros [|i] [|k] H; simpl; try lia; auto.
  f_equal. apply IH. lia.
Qed.

Lemma skipn_set_nth v i x k : i < k -> skipn k (set_nth v i x) = skipn k v.
Proof.
  revert i k; induction v as [|a v IH]; intros [|i] [|k] H; simpl; try lia; auto.
  apply IH. lia.
Qed.

Lemma firstn_set_nth v i x n : firstn n (set_nth v i x) = set_nth (firstn n v) i x.
Proof.
  revert i n; induction v as [|a v IH]; intros [|i] [|n]; simpl; auto.
  f_equal. apply IH.
Qed.

Lemma skipn_app_le v x k : k <= length v -> skipn k (v ++ x) = skipn k v ++ x.
Proof.
  intros H. rewrite skipn_app. replace (k - length v) with 0 by lia. reflexivity.
Qed.

Lemma skipn_skipn' v a b : skipn a (skipn b v) = skipn (b + a) v.
Proof.
  revert b; induction v as [|c v IH]; intros [|b]; simpl; auto.
  - destruct a; reflexivity.
Qed.

Lemma nth_error_lt_some v i : i < length v -> exists c, nth_error v i = Some c.
Proof.
  intros H. destruct (nth_error v i) as [c|] eqn:E; [eauto|].
  apply nth_error_None in E. lia.
Qed.
End Lists.

(* ------------------------------------------------------------------ the reader oracle *)

(* chunks are non-empty, the stream ends in EOF (with or after the last data), and once the wrapper has seen
   EOF-with-data nothing is left *)
Definition rinv (r : reader) : Prop :=
  Forall (fun c : bytes => c <> []) (r_chunks r)
  /\ (r_term r = TEofSep \/ r_term r = TEofWith)
  /\ (r_iseof r = true -> r_chunks r = []).

Lemma wrapped_read_spec c r out e r' :
  rinv r -> 1 <= c -> wrapped_read c r = (out, e, r') ->
  rinv r' /\ concat (r_chunks r) = out ++ concat (r_chunks r') /\ length out <= c
  /\ ((e = RNil /\ out <> []) \/ (e = REof /\ out = [] /\ r_chunks r = [])).
Proof.
  intros (Hne & Ht & Hiseof) Hc. destruct r as [chunks t iseof]. simpl in *.
  unfold wrapped_read, raw_read. simpl.
  destruct iseof.
  - pose proof (Hiseof eq_refl) as Hnil. subst chunks. intros H. injection H as <- <- <-.
    simpl. repeat split; auto; try lia.
  - destruct chunks as [|ch more].
    + assert (Hte : term_err t = REof) by (destruct Ht as [-> | ->]; reflexivity).
      rewrite Hte. simpl. intros H. injection H as <- <- <-.
      simpl. repeat split; auto; try lia.
    + inversion Hne as [|? ? Hch Hmore]; subst.
      assert (Hout : firstn c ch <> []).
      { destruct ch as [|x ch]; [congruence|]. destruct c; [lia|]. simpl. discriminate. }
      assert (Hlen : length (firstn c ch) <= c) by (rewrite firstn_length; lia).
      remember (if is_nil (skipn c ch) then more else skipn c ch :: more) as chunks' eqn:Ech.
      assert (Hcat : concat (ch :: more) = firstn c ch ++ concat chunks').
      { subst chunks'. simpl. rewrite <- (firstn_skipn c ch) at 1. rewrite <- app_assoc. f_equal.
        destruct (skipn c ch) eqn:E; reflexivity. }
      assert (Hne' : Forall (fun c0 : bytes => c0 <> []) chunks').
      { subst chunks'. destruct (skipn c ch) eqn:E; simpl; auto. constructor; auto. discriminate. }
      clear Ech.
      destruct (is_nil chunks' && term_with t) eqn:Ew.
      * apply andb_prop in Ew. destruct Ew as [Enil Ewith].
        assert (Hte : term_err t = REof) by (destruct Ht as [-> | ->]; reflexivity).
        rewrite Hte. simpl.
        destruct (firstn c ch) as [|o os] eqn:Eo; [congruence|]. simpl.
        intros H. injection H as <- <- <-. simpl.
        destruct chunks' as [|? ?]; [|discriminate].
        repeat split; auto; try (left; split; [reflexivity|discriminate]).
      * simpl. intros H. injection H as <- <- <-. simpl.
        repeat split; auto; try discriminate.
Qed.

(* ------------------------------------------------------------------ the buffer abstraction *)

Definition binv (b : buf) : Prop :=
  b_len b <= length (b_data b) /\ b_cur b <= b_len b /\ rinv (b_rd b).

Definition view (b : buf) : bytes := firstn (b_len b) (b_data b).
Definition rest (b : buf) : bytes := concat (r_chunks (b_rd b)).
Definition stream (b : buf) : bytes := skipn (b_cur b) (view b) ++ rest b.

Lemma view_length b : b_len b <= length (b_data b) -> length (view b) = b_len b.
Proof. intros H. unfold view. rewrite firstn_length. lia. Qed.

Lemma stream_length b : binv b -> length (stream b) = b_len b - b_cur b + length (rest b).
Proof.
  intros (H1 & H2 & _). unfold stream. rewrite app_length, skipn_length, view_length by exact H1.
  reflexivity.
Qed.

Lemma grow_pos n : N.to_nat c_csv_grow_mul * n + N.to_nat c_csv_grow_add - n >= 1.
Proof. unfold c_csv_grow_mul, c_csv_grow_add. lia. Qed.

(* more(): the view grows by the bytes x delivered by the reader; nothing else changes *)
Lemma more_spec b b' e :
  binv b -> more b = (b', e) ->
  binv b' /\ b_cur b' = b_cur b
  /\ exists x, view b' = view b ++ x /\ rest b = x ++ rest b' /\ b_len b' = b_len b + length x
     /\ ((e = RNil /\ x <> []) \/ (e = REof /\ x = [] /\ rest b = [])).
Proof.
  intros (Hlen & Hcur & Hr). unfold more.
  set (data0 := if Nat.eqb (b_len b) (b_cap b) then _ else _).
  assert (Hd0 : b_len b < length data0 /\ firstn (b_len b) data0 = firstn (b_len b) (b_data b)).
  { unfold data0, b_cap. destruct (Nat.eqb (b_len b) (length (b_data b))) eqn:E.
    - apply Nat.eqb_eq in E. pose proof (grow_pos (b_len b)) as Hg.
      split.
      + rewrite app_length, firstn_length, repeat_length. lia.
      + rewrite agree_app by (rewrite firstn_length; lia).
        rewrite firstn_firstn. f_equal. lia.
    - apply Nat.eqb_neq in E. split; [lia|reflexivity]. }
  destruct Hd0 as [Hd0len Hd0eq].
  destruct (wrapped_read (length data0 - b_len b) (b_rd b)) as [[out e0] rd'] eqn:Ew.
  intros H. injection H as <- <-.
  assert (Hw : 1 <= length data0 - b_len b) by lia.
  destruct (wrapped_read_spec _ _ _ _ _ Hr Hw Ew) as (Hr' & Hcat & Hol & Hcase).
  assert (Hview : view (mkBuf (blit data0 (b_len b) out) (b_len b + length out) (b_cur b) rd')
                  = view b ++ out).
  { unfold view, blit. simpl.
    rewrite firstn_app, firstn_length.
    replace (Nat.min (b_len b) (length data0)) with (b_len b) by lia.
    rewrite (firstn_all2 (n := b_len b + length out)) by (rewrite firstn_length; lia).
    replace (b_len b + length out - b_len b) with (length out) by lia.
    rewrite firstn_app, Nat.sub_diag. simpl. rewrite firstn_all, app_nil_r, Hd0eq. reflexivity. }
  split; [|split; [reflexivity|]].
  - unfold binv. simpl. split; [|split; [lia|exact Hr']].
    unfold blit. rewrite !app_length, firstn_length, skipn_length. lia.
  - exists out. unfold rest. simpl. split; [exact Hview|split; [exact Hcat|split; [reflexivity|]]].
    destruct Hcase as [[-> Ho]|[-> [-> Hn]]]; [left; auto|right]. rewrite Hn. auto.
Qed.

(* consequences for the stream abstraction *)
Lemma more_stream b b' e : binv b -> more b = (b', e) -> stream b' = stream b.
Proof.
  intros Hb Hm. destruct (more_spec b b' e Hb Hm) as (_ & Hc & x & Hv & Hrest & _ & _).
  destruct Hb as (Hlen & Hcur & _).
  unfold stream. rewrite Hc, Hv, Hrest, skipn_app_le, <- app_assoc; [reflexivity|].
  rewrite view_length; assumption.
Qed.

Lemma view_with_cur b c : view (with_cur b c) = view b.
Proof. reflexivity. Qed.
Lemma rest_with_cur b c : rest (with_cur b c) = rest b.
Proof. reflexivity. Qed.

Lemma binv_with_cur b c : binv b -> c <= b_len b -> binv (with_cur b c).
Proof. intros (H1 & H2 & H3) Hc. unfold binv. simpl. auto. Qed.

(* reading the byte under the cursor *)
Lemma nth_view b i : i < b_len b -> nth_error (view b) i = nth_error (b_data b) i.
Proof. intros H. unfold view. apply nth_error_firstn_lt. exact H. Qed.

Lemma buf_get_spec b i : binv b -> i < b_len b ->
  exists c, buf_get b i = Ok c /\ nth_error (view b) i = Some c.
Proof.
  intros (Hlen & _ & _) Hi. unfold buf_get.
  assert (E : Nat.ltb i (b_len b) = true) by (apply Nat.ltb_lt; exact Hi). rewrite E.
  destruct (nth_error_lt_some (b_data b) i ltac:(lia)) as [c Hc].
  exists c. unfold idx. rewrite Hc. split; [reflexivity|]. rewrite nth_view by exact Hi. exact Hc.
Qed.

Lemma stream_cons b c : nth_error (view b) (b_cur b) = Some c ->
  stream b = c :: stream (with_cur b (S (b_cur b))).
Proof.
  intros H. unfold stream. rewrite view_with_cur, rest_with_cur. simpl.
  rewrite (skipn_nth_cons _ _ _ H). reflexivity.
Qed.

Lemma stream_nil_at_end b : binv b -> b_len b <= b_cur b -> stream b = rest b.
Proof.
  intros (Hlen & Hcur & _) H. unfold stream. rewrite skipn_all2; [reflexivity|].
  rewrite view_length; assumption.
Qed.

(* reset(): the unconsumed bytes move to the front *)
Lemma reset_spec b : binv b ->
  binv (buf_reset b) /\ view (buf_reset b) = skipn (b_cur b) (view b)
  /\ b_cur (buf_reset b) = 0 /\ stream (buf_reset b) = stream b.
Proof.
  intros (Hlen & Hcur & Hr).
  assert (Hv : view (buf_reset b) = skipn (b_cur b) (view b)).
  { unfold view, buf_reset. simpl.
    rewrite agree_app by (rewrite firstn_length, skipn_length; lia).
    rewrite firstn_firstn, Nat.min_id. symmetry. apply skipn_firstn_comm. }
  split; [|split; [exact Hv|split; [reflexivity|]]].
  - unfold binv, buf_reset. simpl. split; [|split; [lia|exact Hr]].
    rewrite app_length, firstn_length, !skipn_length. lia.
  - unfold stream. rewrite Hv. reflexivity.
Qed.

Lemma resolve_view b s e : e <= b_len b -> resolve b (s, e) = sub (view b) s e.
Proof.
  intros He. unfold resolve. simpl. fold (sub (b_data b) s e).
  symmetry. apply (agree_sub (b_data b) (view b) (b_len b)); [|exact He].
  unfold view. rewrite firstn_firstn, Nat.min_id. reflexivity.
Qed.

(* ------------------------------------------------------------------ the look-ahead refill loop *)

Lemma q_fill_spec fuel : forall b,
  binv b -> length (rest b) < fuel ->
  exists b' e, q_fill fuel b = Ok (b', e)
    /\ binv b' /\ b_cur b' = b_cur b /\ stream b' = stream b
    /\ (exists x, view b' = view b ++ x) /\ b_len b <= b_len b'
    /\ length (rest b') <= length (rest b)
    /\ ((e = RNil /\ b_cur b' + 1 < b_len b') \/ (e = REof /\ rest b' = [] /\ b_len b' <= b_cur b' + 1)).
Proof.
  induction fuel as [|fuel IH]; intros b Hb Hf; [lia|].
  cbn [q_fill].
  destruct (Nat.leb (b_len b) (b_cur b + 1)) eqn:El.
  - apply Nat.leb_le in El.
    destruct (more b) as [b1 e1] eqn:Em.
    destruct (more_spec b b1 e1 Hb Em) as (Hb1 & Hc1 & x & Hv1 & Hrest1 & Hl1 & Hcase).
    pose proof (more_stream b b1 e1 Hb Em) as Hs1.
    destruct Hcase as [[-> Hx] | [-> [Hx Hrest0]]].
    + assert (Hlx : 1 <= length x) by (destruct x; [congruence|simpl; lia]).
      destruct (IH b1 Hb1) as (b' & e & Hq & Hb' & Hc' & Hs' & [y Hv'] & Hl' & Hrl & Hcase').
      { rewrite Hrest1, app_length in Hf. lia. }
      assert (Hv'' : exists z, view b' = view b ++ z)
        by (exists (x ++ y); rewrite Hv', Hv1, app_assoc; reflexivity).
      assert (Hrl' : length (rest b') <= length (rest b)) by (rewrite Hrest1, app_length; lia).
      exists b', e. rewrite Hq. nsplit; auto; try congruence; try lia.
    + exists b1, REof. subst x. rewrite app_nil_r in Hv1. cbn [app] in Hrest1.
      cbn [length] in Hl1.
      assert (Hv'' : exists z, view b1 = view b ++ z) by (exists []; rewrite app_nil_r; exact Hv1).
      assert (Hrl' : length (rest b1) <= length (rest b)) by (rewrite <- Hrest1; lia).
      nsplit; auto; try lia.
      right. nsplit; auto; try congruence; lia.
  - apply Nat.leb_gt in El.
    assert (Hv'' : exists z, view b = view b ++ z) by (exists []; rewrite app_nil_r; reflexivity).
    exists b, RNil. nsplit; auto.
Qed.
