(* Proofs/RyuNoPanic.v — AppendFloat64f never panics (no failed assert, no table index out of range, no
   shift >= 64, no non-terminating loop, no slice index out of range) for any of the 2^64 bit patterns,
   and what it appends does not depend on the buffer.

   Structure of the argument:
   * SWEEP (finite, vm_compute over the 2047 biased exponents 0..2046): everything in float64ToDecimal that
     depends on the exponent only — e2, q, the arguments of log10Pow2/log10Pow5/pow5Bits, the table index,
     the shift — is computed by [plan_of]; [plan_good] checks the asserts, the index, the shift range and
     four numeric bounds on F(x) = floor(x * mul / 2^shift) at x = 2, 3 and the largest possible mp.
   * SYMBOLIC (all mantissas): mulShift64 computes F exactly (Proofs/RyuArith.v); F is monotone and
     superadditive, which turns the four bounds into bounds on vr, vp, vm for every mantissa; loop lemmas
     show that the digit-removal loops terminate within the fuel and keep vm <= vr, vm <> 0 where needed,
     and 0 < out < 2^59; decimalLen64/appendF are total on that range (Proofs/RyuAppendF.v). *)
From QF Require Import Base.Prelude Gen.GenConsts Gen.GenRyu Model.Ryu.
From QF Require Import Proofs.RyuTables Proofs.RyuArith Proofs.RyuAppendF Proofs.RyuExactInt.
Local Open Scope N_scope.

Ltac dlia := zify; Z.div_mod_to_equations; lia.

(* ------------------------------------------------------------------ the exponent-only part of step 3 *)

Record plan := { p_pos : bool; p_q : N; p_mul : N * N; p_sh : Z; p_e10 : Z }.

Definition plan_of (exp : N) : outcome plan :=
  let bias := Z.of_N c_bias64 in
  let mb := Z.of_N c_mantBits64 in
  let e2 := if exp =? 0 then i32 (1 - bias - mb - 2) else i32 (i32_of_N exp - bias - mb - 2) in
  if (0 <=? e2)%Z then
    do l <- log10Pow2 e2;
    let q := sub32 l (b2n (c_e2_pos_cut <? e2)%Z) in
    let e10 := i32_of_N q in
    do pb <- pow5Bits (i32_of_N q);
    let k := i32 (i32 (Z.of_N c_pow5InvNumBits64 + pb) - 1) in
    let i := i32 (i32 (i32 (- e2) + i32_of_N q) + k) in
    do mul <- idxN g_pow5InvSplit64 q;
    Ok {| p_pos := true; p_q := q; p_mul := mul; p_sh := i; p_e10 := e10 |}
  else
    let ne2 := i32 (- e2) in
    do l <- log10Pow5 ne2;
    let q := sub32 l (b2n (c_e2_neg_cut <? ne2)%Z) in
    let e10 := i32 (i32_of_N q + e2) in
    let i := i32 (ne2 - i32_of_N q) in
    do pb <- pow5Bits i;
    let k := i32 (pb - Z.of_N c_pow5NumBits64) in
    let j := i32 (i32_of_N q - k) in
    do mul <- idxZ g_pow5Split64 i;
    Ok {| p_pos := false; p_q := q; p_mul := mul; p_sh := j; p_e10 := e10 |}.

(* the mantissa-dependent rest of step 3, given the plan *)
Definition step3_with (pl : plan) (mant exp : N) : outcome (step3 * bool) :=
  let m2 := if exp =? 0 then mant else N.lor (shl64 1 c_mantBits64) mant in
  let even := N.land m2 1 =? 0 in
  let acceptBounds := even in
  let mv := u64 (4 * m2) in
  let mmShift := b2n (negb (mant =? 0) || (exp <=? 1)) in
  let mp := u64 (mv + 2) in
  let mm := sub64 (sub64 mv 1) mmShift in
  let q := p_q pl in
  let e10 := p_e10 pl in
  do vr <- mulShift64 mv (p_mul pl) (p_sh pl);
  do vp <- mulShift64 mp (p_mul pl) (p_sh pl);
  do vm <- mulShift64 mm (p_mul pl) (p_sh pl);
  if p_pos pl then
    if q <=? c_q_pos_small then
      if mv mod 5 =? 0 then
        do t <- multipleOfPowerOfFive64 mv q;
        Ok ({| s_vr := vr; s_vp := vp; s_vm := vm; s_e10 := e10; s_vmTZ := false; s_vrTZ := t |}, acceptBounds)
      else if acceptBounds then
        do t <- multipleOfPowerOfFive64 mm q;
        Ok ({| s_vr := vr; s_vp := vp; s_vm := vm; s_e10 := e10; s_vmTZ := t; s_vrTZ := false |}, acceptBounds)
      else
        do t <- multipleOfPowerOfFive64 mp q;
        Ok ({| s_vr := vr; s_vp := if t then sub64 vp 1 else vp; s_vm := vm; s_e10 := e10;
               s_vmTZ := false; s_vrTZ := false |}, acceptBounds)
    else
      Ok ({| s_vr := vr; s_vp := vp; s_vm := vm; s_e10 := e10; s_vmTZ := false; s_vrTZ := false |}, acceptBounds)
  else
    if q <=? c_q_neg_small then
      if acceptBounds then
        Ok ({| s_vr := vr; s_vp := vp; s_vm := vm; s_e10 := e10; s_vmTZ := (mmShift =? 1); s_vrTZ := true |},
            acceptBounds)
      else
        Ok ({| s_vr := vr; s_vp := sub64 vp 1; s_vm := vm; s_e10 := e10; s_vmTZ := false; s_vrTZ := true |},
            acceptBounds)
    else if q <? c_q_neg_max then
      Ok ({| s_vr := vr; s_vp := vp; s_vm := vm; s_e10 := e10; s_vmTZ := false;
             s_vrTZ := multipleOfPowerOfTwo64 mv (sub32 q 1) |}, acceptBounds)
    else
      Ok ({| s_vr := vr; s_vp := vp; s_vm := vm; s_e10 := e10; s_vmTZ := false; s_vrTZ := false |}, acceptBounds).

(* the model's step 3 is exactly plan + rest *)
Lemma f2d_step3_split (mant exp : N) :
  f2d_step3 mant exp = do pl <- plan_of exp; step3_with pl mant exp.
Proof.
  unfold f2d_step3, plan_of, step3_with.
  destruct (exp =? 0); cbv beta iota zeta.
  - destruct (0 <=? _)%Z.
    + destruct (log10Pow2 _) as [l| |]; cbn [obind]; try reflexivity.
      destruct (pow5Bits _) as [pb| |]; cbn [obind]; try reflexivity.
      destruct (idxN _ _) as [mul| |]; cbn [obind p_pos p_q p_mul p_sh p_e10]; reflexivity.
    + destruct (log10Pow5 _) as [l| |]; cbn [obind]; try reflexivity.
      destruct (pow5Bits _) as [pb| |]; cbn [obind]; try reflexivity.
      destruct (idxZ _ _) as [mul| |]; cbn [obind p_pos p_q p_mul p_sh p_e10]; reflexivity.
  - destruct (0 <=? _)%Z.
    + destruct (log10Pow2 _) as [l| |]; cbn [obind]; try reflexivity.
      destruct (pow5Bits _) as [pb| |]; cbn [obind]; try reflexivity.
      destruct (idxN _ _) as [mul| |]; cbn [obind p_pos p_q p_mul p_sh p_e10]; reflexivity.
    + destruct (log10Pow5 _) as [l| |]; cbn [obind]; try reflexivity.
      destruct (pow5Bits _) as [pb| |]; cbn [obind]; try reflexivity.
      destruct (idxZ _ _) as [mul| |]; cbn [obind p_pos p_q p_mul p_sh p_e10]; reflexivity.
Qed.

(* ------------------------------------------------------------------ the per-exponent sweep *)

(* F pl x = floor(x * mul / 2^shift): what mulShift64 computes (as long as it fits 64 bits) *)
Definition F (pl : plan) (x : N) : N := N.shiftr (x * val128 (p_mul pl)) (Z.to_N (p_sh pl)).
Definition mp_max : N := 4 * (2 ^ 53 - 1) + 2.

Definition plan_good (pl : plan) : bool :=
  (114 <=? p_sh pl)%Z && (p_sh pl <=? 122)%Z           (* the shift handed to shiftRight128 is in [50, 58] *)
  && word_ok (p_mul pl) && (snd (p_mul pl) <? 2 ^ 63)
  && (F pl mp_max <? 2 ^ 64)                            (* no 64-bit truncation of vr, vp, vm *)
  && (1 <=? F pl 2)                                     (* vm >= 1 *)
  && ((F pl mp_max + 1 <? 2 ^ 59)                       (* out < 2^59 without removing a digit, or ... *)
      || ((11 <=? F pl 3) && (F pl mp_max / 10 + 1 <? 2 ^ 59))).  (* ... a digit is always removed *)

Definition exp_good (exp : N) : bool :=
  match plan_of exp with Ok pl => plan_good pl | _ => false end.

Lemma all_exp_good : forallb exp_good (map N.of_nat (seq 0 2047)) = true.
Proof. vm_cast_no_check (eq_refl true). Qed.

(* For ALL 2047 biased exponents of finite floats: log10Pow2/log10Pow5/pow5Bits are called inside their
   asserted domains, the table index is inside the table, and the shift passed to shiftRight128 is in
   [50, 58] (the Go comment says [2, 59]; what the code needs is [0, 63]). *)
Theorem ryu_indices_ok (exp : N) :
  exp <= 2046 ->
  exists pl, plan_of exp = Ok pl /\ plan_good pl = true /\ (50 <= p_sh pl - 64 <= 58)%Z.
Proof.
  intro H. pose proof all_exp_good as G. rewrite forallb_forall in G.
  assert (IN : In exp (map N.of_nat (seq 0 2047))).
  { apply in_map_iff. exists (N.to_nat exp). split; [lia|]. apply in_seq. lia. }
  specialize (G exp IN). unfold exp_good in G.
  destruct (plan_of exp) as [pl| |]; try discriminate.
  exists pl. split; [reflexivity|]. split; [exact G|].
  unfold plan_good in G. repeat (apply andb_true_iff in G as [G ?]).
  apply Z.leb_le in G. match goal with H : (p_sh pl <=? 122)%Z = true |- _ => apply Z.leb_le in H end. lia.
Qed.

(* ------------------------------------------------------------------ F: exactness, monotonicity *)

Lemma F_div pl x : F pl x = x * val128 (p_mul pl) / 2 ^ Z.to_N (p_sh pl).
Proof. unfold F. apply N.shiftr_div_pow2. Qed.

Lemma F_mono pl x y : x <= y -> F pl x <= F pl y.
Proof.
  intro H. rewrite !F_div. apply N.div_le_mono; [apply N.pow_nonzero; lia|].
  apply N.mul_le_mono_r. exact H.
Qed.

Lemma F_superadd pl x y : F pl x + F pl y <= F pl (x + y).
Proof.
  rewrite !F_div. set (V := val128 (p_mul pl)). set (D := 2 ^ Z.to_N (p_sh pl)).
  assert (P : D <> 0) by (apply N.pow_nonzero; lia).
  apply N.div_le_lower_bound; [exact P|].
  pose proof (N.mul_div_le (x * V) D P) as H1. pose proof (N.mul_div_le (y * V) D P) as H2.
  set (a := x * V / D) in *. set (b := y * V / D) in *. clearbody a b V D. nia.
Qed.

Lemma mulShift64_F pl x :
  plan_good pl = true -> x <= mp_max ->
  mulShift64 x (p_mul pl) (p_sh pl) = Ok (F pl x).
Proof.
  intros G Hx. unfold plan_good in G.
  repeat (apply andb_true_iff in G as [G ?]).
  apply Z.leb_le in G.
  repeat match goal with
         | H : (_ <=? _)%Z = true |- _ => apply Z.leb_le in H
         | H : (_ <? _) = true |- _ => apply N.ltb_lt in H
         | H : word_ok _ = true |- _ => unfold word_ok in H; apply andb_true_iff in H as [? ?]
         end.
  assert (B : F pl x < 2 ^ 64) by (pose proof (F_mono pl x mp_max Hx); lia).
  rewrite F_div in B.
  destruct (p_mul pl) as [lo hi] eqn:EM. cbn [fst snd] in *.
  assert (MM : mp_max < 2 ^ 64) by (vm_compute; reflexivity).
  rewrite mulShift64_spec by (assumption || lia).
  f_equal. rewrite F_div, EM. unfold val128 in *; cbn [fst snd] in *.
  apply N.mod_small. exact B.
Qed.

(* ------------------------------------------------------------------ pow5Factor64 terminates on v <> 0 *)

Lemma pow5Factor64_aux_ok : forall fuel v n,
  v <> 0 -> v < 5 ^ N.of_nat fuel -> exists r, pow5Factor64_aux fuel v n = Ok r.
Proof.
  induction fuel as [|f IH]; intros v n Hv Hf.
  - cbn in Hf. lia.
  - cbn [pow5Factor64_aux]. destruct (v mod 5 =? 0) eqn:E.
    + apply N.eqb_eq in E. apply IH.
      * dlia.
      * rewrite Nat2N.inj_succ, N.pow_succ_r' in Hf. apply N.div_lt_upper_bound; lia.
    + eexists. reflexivity.
Qed.

Lemma multipleOfPowerOfFive64_ok v p :
  v <> 0 -> v < 2 ^ 64 -> exists t, multipleOfPowerOfFive64 v p = Ok t.
Proof.
  intros Hv Hlt. unfold multipleOfPowerOfFive64, pow5Factor64.
  destruct (pow5Factor64_aux_ok 64 v 0 Hv) as (r & E).
  - assert (2 ^ 64 < 5 ^ N.of_nat 64) by (vm_compute; reflexivity). lia.
  - rewrite E. cbn [obind]. eexists. reflexivity.
Qed.

(* ------------------------------------------------------------------ step 3 for every mantissa *)

Definition post3 (pl : plan) (st : step3) : Prop :=
  1 <= s_vm st /\ s_vm st <= s_vr st /\ s_vr st <= F pl mp_max /\ s_vp st < 2 ^ 64 /\
  (11 <= F pl 3 -> s_vm st + 10 <= s_vp st).

Lemma step3_with_ok (pl : plan) (mant exp : N) :
  plan_good pl = true -> mant < 2 ^ 52 -> exp <= 2046 -> ~ (exp = 0 /\ mant = 0) ->
  exists st ab, step3_with pl mant exp = Ok (st, ab) /\ post3 pl st.
Proof.
  intros G Hmant Hexp Hnz.
  pose proof G as G'. unfold plan_good in G'.
  repeat (apply andb_true_iff in G' as [G' ?]).
  repeat match goal with
         | H : (_ <=? _) = true |- _ => apply N.leb_le in H
         | H : (_ <? _) = true |- _ => apply N.ltb_lt in H
         end.
  clear G'.
  unfold step3_with.
  set (m2 := if exp =? 0 then mant else N.lor (shl64 1 c_mantBits64) mant).
  assert (B52 : 2 ^ 52 = 4503599627370496) by reflexivity.
  assert (Hm2 : 1 <= m2 < 2 ^ 53).
  { assert (B53' : 2 ^ 53 = 9007199254740992) by reflexivity.
    unfold m2. destruct (exp =? 0) eqn:E0.
    - apply N.eqb_eq in E0. lia.
    - replace (shl64 1 c_mantBits64) with (1 * 2 ^ 52) by (vm_compute; reflexivity).
      rewrite lor_disjoint by exact Hmant. lia. }
  set (mmShift := b2n (negb (mant =? 0) || (exp <=? 1))).
  assert (HmmS : mmShift <= 1).
  { unfold mmShift. destruct (negb (mant =? 0) || (exp <=? 1)); cbv [b2n]; clear; lia. }
  assert (B53 : 2 ^ 53 = 9007199254740992) by reflexivity.
  assert (B64 : 2 ^ 64 = 18446744073709551616) by reflexivity.
  assert (Emv : u64 (4 * m2) = 4 * m2) by (apply u64_small; lia).
  rewrite Emv.
  assert (Emp : u64 (4 * m2 + 2) = 4 * m2 + 2) by (apply u64_small; lia).
  rewrite Emp.
  assert (Emm : sub64 (sub64 (4 * m2) 1) mmShift = 4 * m2 - 1 - mmShift).
  { rewrite (sub64_spec (4 * m2) 1) by lia.
    replace (1 <=? 4 * m2) with true by (symmetry; apply N.leb_le; lia).
    rewrite sub64_spec by lia.
    replace (mmShift <=? 4 * m2 - 1) with true by (symmetry; apply N.leb_le; lia). reflexivity. }
  rewrite Emm.
  set (mm := 4 * m2 - 1 - mmShift). set (mp := 4 * m2 + 2). set (mv := 4 * m2).
  assert (Hmax : mp_max = 36028797018963966) by reflexivity.
  assert (Hmv : mv <= mp_max) by (unfold mv; lia).
  assert (Hmp : mp <= mp_max) by (unfold mp; lia).
  assert (Hmm : mm <= mp_max) by (unfold mm; lia).
  rewrite !mulShift64_F by assumption. cbn [obind].
  (* bounds for every mantissa from the bounds at 2, 3, mp_max *)
  assert (Vm1 : 1 <= F pl mm) by (pose proof (F_mono pl 2 mm ltac:(unfold mm; lia)); lia).
  assert (Vmr : F pl mm <= F pl mv) by (apply F_mono; unfold mm, mv; lia).
  assert (Vrp : F pl mv <= F pl mp_max) by (apply F_mono; exact Hmv).
  assert (Vp64 : F pl mp < 2 ^ 64) by (pose proof (F_mono pl mp mp_max Hmp); lia).
  assert (Vp1 : 1 <= F pl mp) by (pose proof (F_mono pl 2 mp ltac:(unfold mp; lia)); lia).
  assert (Vgap : 11 <= F pl 3 -> F pl mm + 11 <= F pl mp).
  { intro H11. pose proof (F_superadd pl mm 3). pose proof (F_mono pl (mm + 3) mp ltac:(unfold mm, mp; lia)). lia. }
  assert (Esub : sub64 (F pl mp) 1 = F pl mp - 1).
  { rewrite sub64_spec by lia. replace (1 <=? F pl mp) with true by (symmetry; apply N.leb_le; lia). reflexivity. }
  assert (NZv : mv <> 0 /\ mv < 2 ^ 64) by (unfold mv; lia).
  assert (NZp : mp <> 0 /\ mp < 2 ^ 64) by (unfold mp; lia).
  assert (NZm : mm <> 0 /\ mm < 2 ^ 64) by (unfold mm; lia).
  unfold post3.
  assert (FIN : forall vp, vp = F pl mp \/ vp = F pl mp - 1 ->
                1 <= F pl mm /\ F pl mm <= F pl mv /\ F pl mv <= F pl mp_max /\ vp < 2 ^ 64 /\
                (11 <= F pl 3 -> F pl mm + 10 <= vp)).
  { intros vp Hvp. refine (conj _ (conj _ (conj _ (conj _ _)))); try assumption.
    - destruct Hvp; subst vp; lia.
    - intro H11. specialize (Vgap H11). destruct Hvp; subst vp; lia. }
  destruct (p_pos pl).
  - destruct (p_q pl <=? c_q_pos_small).
    + destruct (mv mod 5 =? 0).
      * destruct (multipleOfPowerOfFive64_ok mv (p_q pl)) as (t & ->); try tauto. cbn [obind].
        eexists _, _. split; [reflexivity|]. cbn [s_vr s_vp s_vm]. apply FIN; auto.
      * destruct (N.land m2 1 =? 0).
        -- destruct (multipleOfPowerOfFive64_ok mm (p_q pl)) as (t & ->); try tauto. cbn [obind].
           eexists _, _. split; [reflexivity|]. cbn [s_vr s_vp s_vm]. apply FIN; auto.
        -- destruct (multipleOfPowerOfFive64_ok mp (p_q pl)) as (t & ->); try tauto. cbn [obind].
           eexists _, _. split; [reflexivity|]. cbn [s_vr s_vp s_vm]. rewrite Esub.
           apply FIN. destruct t; auto.
    + eexists _, _. split; [reflexivity|]. cbn [s_vr s_vp s_vm]. apply FIN; auto.
  - destruct (p_q pl <=? c_q_neg_small).
    + destruct (N.land m2 1 =? 0).
      * eexists _, _. split; [reflexivity|]. cbn [s_vr s_vp s_vm]. apply FIN; auto.
      * eexists _, _. split; [reflexivity|]. cbn [s_vr s_vp s_vm]. rewrite Esub. apply FIN; auto.
    + destruct (p_q pl <? c_q_neg_max).
      * eexists _, _. split; [reflexivity|]. cbn [s_vr s_vp s_vm]. apply FIN; auto.
      * eexists _, _. split; [reflexivity|]. cbn [s_vr s_vp s_vm]. apply FIN; auto.
Qed.

(* ------------------------------------------------------------------ step 4: the digit-removal loops *)

Lemma pow10_S (f : nat) : 10 ^ N.of_nat (S f) = 10 * 10 ^ N.of_nat f.
Proof. rewrite Nat2N.inj_succ. apply N.pow_succ_r'. Qed.

Lemma gen_loop1_ok : forall fuel s,
  (1 <= fuel)%nat -> g_vp s < 10 ^ N.of_nat fuel -> g_vm s <= g_vr s ->
  (g_vmTZ s = true -> g_vm s <> 0) ->
  exists s', gen_loop1 fuel s = Ok s' /\ g_vm s' <= g_vr s' /\ g_vr s' <= g_vr s /\
             (g_vm s / 10 < g_vp s / 10 -> g_vr s' <= g_vr s / 10) /\
             (g_vmTZ s' = true -> g_vm s' <> 0) /\ g_vm s' <= g_vm s.
Proof.
  induction fuel as [|f IH]; intros s Hf Hvp Hmr Htz; [lia|].
  cbn [gen_loop1]. destruct (g_vp s / 10 <=? g_vm s / 10) eqn:E.
  - apply N.leb_le in E. exists s. split; [reflexivity|].
    refine (conj _ (conj _ (conj _ (conj _ _)))); try assumption; try lia.
  - apply N.leb_gt in E. rewrite pow10_S in Hvp.
    set (s1 := {| g_vr := g_vr s / 10; g_vp := g_vp s / 10; g_vm := g_vm s / 10;
                  g_vmTZ := g_vmTZ s && (g_vm s mod 10 =? 0);
                  g_vrTZ := g_vrTZ s && (g_last s =? 0);
                  g_last := u8 (g_vr s mod 10); g_removed := i32 (g_removed s + 1) |}).
    set (P := 10 ^ N.of_nat f) in *.
    destruct (IH s1) as (s' & E1 & A1 & A2 & A3 & A4 & A5).
    + destruct f as [|f']; [|lia]. exfalso. change P with 1 in Hvp. clearbody s1. dlia.
    + cbn [s1 g_vp]. clearbody P. dlia.
    + cbn [s1 g_vm g_vr]. dlia.
    + cbn [s1 g_vmTZ g_vm]. intro H. apply andb_true_iff in H as [H1 H2].
      apply N.eqb_eq in H2. specialize (Htz H1). dlia.
    + cbn [s1 g_vr g_vm] in A2, A5. exists s'. split; [exact E1|].
      refine (conj _ (conj _ (conj _ (conj _ _)))); try assumption.
      * dlia.
      * intros _. exact A2.
      * dlia.
Qed.

Lemma gen_loop2_ok : forall fuel s,
  g_vm s <> 0 -> g_vm s < 10 ^ N.of_nat fuel -> g_vm s <= g_vr s ->
  exists s', gen_loop2 fuel s = Ok s' /\ g_vm s' <> 0 /\ g_vm s' <= g_vr s' /\ g_vr s' <= g_vr s /\
             g_vmTZ s' = g_vmTZ s.
Proof.
  induction fuel as [|f IH]; intros s Hnz Hlt Hmr.
  - change (10 ^ N.of_nat 0) with 1 in Hlt. lia.
  - cbn [gen_loop2]. destruct (negb (g_vm s mod 10 =? 0)) eqn:E.
    + exists s. split; [reflexivity|]. refine (conj _ (conj _ (conj _ _))); try assumption; try lia; try reflexivity.
    + apply negb_false_iff, N.eqb_eq in E. rewrite pow10_S in Hlt.
      set (P := 10 ^ N.of_nat f) in *.
      set (s1 := {| g_vr := g_vr s / 10; g_vp := g_vp s / 10; g_vm := g_vm s / 10;
                    g_vmTZ := g_vmTZ s; g_vrTZ := g_vrTZ s && (g_last s =? 0);
                    g_last := u8 (g_vr s mod 10); g_removed := i32 (g_removed s + 1) |}).
      destruct (IH s1) as (s' & E1 & A1 & A2 & A3 & A4).
      * cbn [s1 g_vm]. dlia.
      * cbn [s1 g_vm]. clearbody P. dlia.
      * cbn [s1 g_vm g_vr]. dlia.
      * cbn [s1 g_vr g_vmTZ] in A3, A4. exists s'. split; [exact E1|].
        refine (conj _ (conj _ (conj _ _))); try assumption. dlia.
Qed.

Lemma com_loop100_ok : forall fuel s,
  (1 <= fuel)%nat -> c_vp s < 10 ^ N.of_nat fuel -> c_vm s <= c_vr s ->
  exists s', com_loop100 fuel s = Ok s' /\ c_vm s' <= c_vr s' /\ c_vr s' <= c_vr s /\ c_vp s' <= c_vp s /\
             (c_vm s / 100 < c_vp s / 100 -> c_vr s' <= c_vr s / 10) /\
             (c_vp s / 100 <= c_vm s / 100 -> s' = s).
Proof.
  induction fuel as [|f IH]; intros s Hf Hvp Hmr; [lia|].
  cbn [com_loop100]. destruct (c_vm s / 100 <? c_vp s / 100) eqn:E.
  - apply N.ltb_lt in E. rewrite pow10_S in Hvp.
    set (P := 10 ^ N.of_nat f) in *.
    set (s1 := {| c_vr := c_vr s / 100; c_vp := c_vp s / 100; c_vm := c_vm s / 100;
                  c_roundUp := 50 <=? c_vr s mod 100; c_removed := i32 (c_removed s + 2) |}).
    destruct (IH s1) as (s' & E1 & A1 & A2 & A3 & A4 & A5).
    + destruct f as [|f']; [|lia]. exfalso. change P with 1 in Hvp. clearbody s1. dlia.
    + cbn [s1 c_vp]. clearbody P. dlia.
    + cbn [s1 c_vm c_vr]. dlia.
    + cbn [s1 c_vr c_vp] in A2, A3. exists s'. split; [exact E1|].
      refine (conj _ (conj _ (conj _ (conj _ _)))); try assumption.
      * dlia.
      * dlia.
      * intros _. dlia.
      * intro. dlia.
  - apply N.ltb_ge in E. exists s. split; [reflexivity|].
    refine (conj _ (conj _ (conj _ (conj _ _)))); try assumption; try lia; try (intros _; reflexivity).
Qed.

Lemma com_loop10_ok : forall fuel s,
  (1 <= fuel)%nat -> c_vp s < 10 ^ N.of_nat fuel -> c_vm s <= c_vr s ->
  exists s', com_loop10 fuel s = Ok s' /\ c_vm s' <= c_vr s' /\ c_vr s' <= c_vr s /\
             (c_vm s / 10 < c_vp s / 10 -> c_vr s' <= c_vr s / 10).
Proof.
  induction fuel as [|f IH]; intros s Hf Hvp Hmr; [lia|].
  cbn [com_loop10]. destruct (c_vm s / 10 <? c_vp s / 10) eqn:E.
  - apply N.ltb_lt in E. rewrite pow10_S in Hvp.
    set (P := 10 ^ N.of_nat f) in *.
    set (s1 := {| c_vr := c_vr s / 10; c_vp := c_vp s / 10; c_vm := c_vm s / 10;
                  c_roundUp := 5 <=? c_vr s mod 10; c_removed := i32 (c_removed s + 1) |}).
    destruct (IH s1) as (s' & E1 & A1 & A2 & A3).
    + destruct f as [|f']; [|lia]. exfalso. change P with 1 in Hvp. clearbody s1. dlia.
    + cbn [s1 c_vp]. clearbody P. dlia.
    + cbn [s1 c_vm c_vr]. dlia.
    + cbn [s1 c_vr] in A2. exists s'. split; [exact E1|].
      refine (conj _ (conj _ _)); try assumption.
      * dlia.
      * intros _. exact A2.
  - apply N.ltb_ge in E. exists s. split; [reflexivity|].
    refine (conj _ (conj _ _)); try assumption; try lia.
Qed.

Lemma f2d_step4_ok (pl : plan) (st : step3) (ab : bool) :
  plan_good pl = true -> post3 pl st ->
  exists out e, f2d_step4 st ab = Ok (out, e) /\ 0 < out /\ out < 2 ^ 59.
Proof.
  intros G (P1 & P2 & P3 & P4 & P5).
  unfold plan_good in G. repeat (apply andb_true_iff in G as [G ?]).
  match goal with H : (_ || _) = true |- _ => rename H into C end.
  match goal with H : (F pl mp_max <? 2 ^ 64) = true |- _ => apply N.ltb_lt in H; rename H into V64 end.
  clear G.
  set (V := F pl mp_max) in *.
  assert (B59 : 2 ^ 59 = 576460752303423488) by reflexivity.
  assert (B64 : 2 ^ 64 = 18446744073709551616) by reflexivity.
  assert (B24 : 10 ^ N.of_nat loop_fuel = 1000000000000000000000000) by reflexivity.
  assert (KEY : forall vr', vr' <= s_vr st -> (s_vm st / 10 < s_vp st / 10 -> vr' <= s_vr st / 10) ->
                vr' + 1 < 2 ^ 59).
  { intros vr' K1 K2. apply orb_true_iff in C as [C|C].
    - apply N.ltb_lt in C. lia.
    - apply andb_true_iff in C as [C1 C2]. apply N.leb_le in C1. apply N.ltb_lt in C2.
      specialize (P5 C1). assert (K3 : s_vm st / 10 < s_vp st / 10) by dlia.
      specialize (K2 K3). clear - K2 C2 P3 B59. dlia. }
  unfold f2d_step4. destruct (s_vmTZ st || s_vrTZ st).
  - (* general case *)
    set (s0 := {| g_vr := s_vr st; g_vp := s_vp st; g_vm := s_vm st; g_vmTZ := s_vmTZ st;
                  g_vrTZ := s_vrTZ st; g_last := 0; g_removed := 0%Z |}).
    destruct (gen_loop1_ok loop_fuel s0) as (s1 & E1 & A1 & A2 & A3 & A4 & A5).
    + unfold loop_fuel. lia.
    + cbn [s0 g_vp]. lia.
    + cbn [s0 g_vm g_vr]. exact P2.
    + cbn [s0 g_vm]. intros _. lia.
    + rewrite E1. cbn [obind]. cbn [s0 g_vr g_vm g_vp] in A2, A3, A5.
      assert (S2 : exists s2, (if g_vmTZ s1 then gen_loop2 loop_fuel s1 else Ok s1) = Ok s2 /\
                              g_vm s2 <= g_vr s2 /\ g_vr s2 <= g_vr s1 /\
                              (g_vmTZ s2 = true -> g_vm s2 <> 0)).
      { destruct (g_vmTZ s1) eqn:T.
        - destruct (gen_loop2_ok loop_fuel s1) as (s2 & E2 & D1 & D2 & D3 & D4).
          + apply A4. reflexivity.
          + lia.
          + exact A1.
          + exists s2. split; [exact E2|]. split; [exact D2|]. split; [exact D3|]. intros _. exact D1.
        - exists s1. split; [reflexivity|]. split; [exact A1|]. split; [lia|]. rewrite T. discriminate. }
      destruct S2 as (s2 & E2 & D1 & D2 & D3). rewrite E2. cbn [obind].
      assert (K : g_vr s2 + 1 < 2 ^ 59).
      { apply KEY; [lia|]. intro K3. specialize (A3 K3). lia. }
      set (last := if g_vrTZ s2 && (g_last s2 =? 5) && (g_vr s2 mod 2 =? 0) then 4 else g_last s2).
      destruct (((g_vr s2 =? g_vm s2) && (negb ab || negb (g_vmTZ s2))) || (5 <=? last)) eqn:CC.
      * eexists _, _. split; [reflexivity|]. rewrite u64_small by lia. lia.
      * eexists _, _. split; [reflexivity|]. split; [|lia].
        apply orb_false_iff in CC as [CC _].
        destruct (N.eq_dec (g_vr s2) 0) as [Z0|]; [|lia]. exfalso.
        assert (Zm : g_vm s2 = 0) by lia.
        rewrite Z0, Zm in CC. change (0 =? 0) with true in CC. cbn [andb] in CC.
        apply orb_false_iff in CC as [_ CC]. apply negb_false_iff in CC.
        exact (D3 CC Zm).
  - (* common case *)
    set (s0 := {| c_vr := s_vr st; c_vp := s_vp st; c_vm := s_vm st; c_roundUp := false; c_removed := 0%Z |}).
    destruct (com_loop100_ok loop_fuel s0) as (s1 & E1 & A1 & A2 & A3 & A4 & A5).
    + unfold loop_fuel. lia.
    + cbn [s0 c_vp]. lia.
    + cbn [s0 c_vm c_vr]. exact P2.
    + rewrite E1. cbn [obind]. cbn [s0 c_vr c_vm c_vp] in A2, A3, A4, A5.
      destruct (com_loop10_ok loop_fuel s1) as (s2 & E2 & D1 & D2 & D3).
      * unfold loop_fuel. lia.
      * lia.
      * exact A1.
      * rewrite E2. cbn [obind].
        assert (K : c_vr s2 + 1 < 2 ^ 59).
        { apply KEY; [lia|]. intro K3.
          destruct (N.lt_ge_cases (s_vm st / 100) (s_vp st / 100)) as [L|L].
          - specialize (A4 L). lia.
          - specialize (A5 L). subst s1. cbn [s0 c_vm c_vp c_vr] in D3. apply D3. exact K3. }
        eexists _, _. split; [reflexivity|].
        assert (BB : b2n ((c_vr s2 =? c_vm s2) || c_roundUp s2) <= 1) by (destruct ((c_vr s2 =? c_vm s2) || c_roundUp s2); cbv [b2n]; clear; lia).
        rewrite u64_small by lia. split; [|lia].
        destruct (N.eq_dec (c_vr s2) 0) as [Z0|]; [|lia].
        assert (Zm : c_vm s2 = 0) by lia. rewrite Z0, Zm. change (0 =? 0) with true. cbn. lia.
Qed.

(* float64ToDecimal for every finite non-zero float: no panic, and 0 < out < 2^59 *)
Theorem float64ToDecimal_total (mant exp : N) :
  mant < 2 ^ 52 -> exp <= 2046 -> ~ (exp = 0 /\ mant = 0) ->
  exists out e, float64ToDecimal mant exp = Ok (out, e) /\ 0 < out /\ out < 2 ^ 59.
Proof.
  intros Hm He Hnz. unfold float64ToDecimal. rewrite f2d_step3_split.
  destruct (ryu_indices_ok exp He) as (pl & EP & G & _). rewrite EP. cbn [obind].
  destruct (step3_with_ok pl mant exp G Hm He Hnz) as (st & ab & E3 & P3). rewrite E3. cbn [obind fst snd].
  exact (f2d_step4_ok pl st ab G P3).
Qed.

(* ------------------------------------------------------------------ AppendFloat64f *)

(* the text the model writes for a bit pattern, defined on the empty buffer *)
Definition ryu_text (bits : N) : bytes :=
  match AppendFloat64f (fun _ => []) {| bdata := []; bspare := [] |} bits with
  | Ok r => bdata r
  | _ => []
  end.

Lemma appendSpecialf_data (neg ez mz : bool) :
  exists t, forall g' b', bdata (appendSpecialf g' b' neg ez mz) = bdata b' ++ t.
Proof.
  unfold appendSpecialf. destruct (negb mz).
  - eexists. intros. apply go_append_data.
  - destruct (negb ez).
    + destruct neg; eexists; intros; apply go_append_data.
    + destruct neg.
      * exists [ch_minus; ch_0]. intros. rewrite !go_append_data, <- app_assoc. reflexivity.
      * eexists. intros. apply go_append_data.
Qed.

(* For every one of the 2^64 bit patterns (NaNs included), every buffer and every behaviour of the
   allocator: no panic, the old contents are kept, and the appended text depends on the bit pattern only. *)
Theorem AppendFloat64f_total (g : nat -> bytes) (b : buf) (bits : N) :
  bits < 2 ^ 64 ->
  exists sp, AppendFloat64f g b bits = Ok {| bdata := bdata b ++ ryu_text bits; bspare := sp |}.
Proof.
  intro Hb.
  assert (GEN : exists t, forall g' b', exists sp,
             AppendFloat64f g' b' bits = Ok {| bdata := bdata b' ++ t; bspare := sp |}).
  { unfold AppendFloat64f.
    replace (sub64 (shl64 1 c_mantBits64) 1) with (N.ones 52) by (vm_compute; reflexivity).
    replace (sub64 (shl64 1 c_expBits64) 1) with (N.ones 11) by (vm_compute; reflexivity).
    change c_mantBits64 with 52. change c_expBits64 with 11.
    rewrite !N.land_ones. rewrite (shr64_spec bits 52) by lia.
    set (mant := bits mod 2 ^ 52). set (exp := (bits / 2 ^ 52) mod 2 ^ 11).
    assert (Hmant : mant < 2 ^ 52) by (apply N.mod_upper_bound; lia).
    assert (Hexp : exp < 2048) by (apply (N.mod_upper_bound _ (2 ^ 11)); lia).
    replace (N.ones 11) with 2047 by (vm_compute; reflexivity).
    set (neg := negb (shr64 bits (52 + 11) =? 0)).
    destruct ((exp =? 2047) || ((exp =? 0) && (mant =? 0))) eqn:SP.
    - destruct (appendSpecialf_data neg (exp =? 0) (mant =? 0)) as (t & Ht).
      exists t. intros g' b'. specialize (Ht g' b').
      destruct (appendSpecialf g' b' neg (exp =? 0) (mant =? 0)) as [d s] eqn:EA. cbn [bdata] in Ht.
      exists s. rewrite Ht. reflexivity.
    - apply orb_false_iff in SP as [S1 S2]. apply N.eqb_neq in S1.
      assert (Hnz : ~ (exp = 0 /\ mant = 0)).
      { intros [Z1 Z2]. rewrite Z1, Z2 in S2. discriminate. }
      pose proof (exact_int_ok mant exp Hmant Hexp) as EI. cbv zeta in EI.
      destruct (float64ToDecimalExactInt mant exp) as [[[m e]|]| |] eqn:EE; try contradiction.
      + destruct EI as (_ & _ & EV & _ & Hpos).
        assert (Hm59 : m < 2 ^ 59).
        { assert (2 ^ 52 + mant < 2 ^ 59).
          { assert (2 ^ 52 + 2 ^ 52 < 2 ^ 59) by (vm_compute; reflexivity). lia. }
          assert (1 <= 10 ^ Z.to_N e * 2 ^ (1075 - exp)).
          { assert (10 ^ Z.to_N e <> 0) by (apply N.pow_nonzero; lia).
            assert (2 ^ (1075 - exp) <> 0) by (apply N.pow_nonzero; lia). nia. }
          nia. }
        exists (render_f neg m e). intros g' b'. cbn [obind fst snd].
        exact (appendF_ok59 g' b' m e neg Hpos Hm59).
      + destruct (float64ToDecimal_total mant exp Hmant ltac:(lia) Hnz) as (out & e & ED & O1 & O2).
        exists (render_f neg out e). intros g' b'. cbn [obind]. rewrite ED. cbn [obind fst snd].
        exact (appendF_ok59 g' b' out e neg O1 O2). }
  destruct GEN as (t & Ht).
  assert (ET : ryu_text bits = t).
  { unfold ryu_text. destruct (Ht (fun _ => []) {| bdata := []; bspare := [] |}) as (sp & E).
    rewrite E. reflexivity. }
  rewrite ET. apply Ht.
Qed.
