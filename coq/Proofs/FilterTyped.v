(* Proofs/FilterTyped.v — C02, typed meaning of the leaves, part 1: machinery.
   The per-leaf step of QFrame.filter (Model/Filter.v: filter_leaf -> col_filter -> generated tables ->
   generated kernels) is LOCAL: what it does to a mask over an index is determined by what it does on each
   single row.  This reduces every statement "the leaf ORs exactly the rows of the specification into the
   shared mask" to a statement about ONE row, which the typed files (FilterTypedInt/Float/...) prove by
   running the generated kernel symbolically on that row. *)
From QF Require Import Base.Prelude Base.KernelSyntax Gen.GenConsts Gen.GenTables Gen.GenKernels.
From QF Require Import Model.Frame Model.Bits Model.Kernel Model.Filter Model.FilterSpec.
From QF Require Import Proofs.FilterProofs Proofs.FilterLeafProofs.
Local Open Scope nat_scope.

(* ------------------------------------------------------------------ masks *)

Lemma mask_or_falses (i : list nat) (s : nat -> bool) : forall b,
  length i = length b -> (forall p, In p i -> s p = false) -> mask_or b (map s i) = b.
Proof.
  induction i as [|p i IH]; intros [|x b] Hlen Hs; simpl in *; try discriminate; [reflexivity|].
  unfold mask_or in *. simpl. rewrite (Hs p (or_introl eq_refl)), orb_false_r. f_equal.
  apply IH; [lia|]. intros q Hq. apply Hs. right. exact Hq.
Qed.

Lemma mask_or_trues (i : list nat) (s : nat -> bool) : forall b,
  length i = length b -> (forall p, In p i -> s p = true) -> mask_or b (map s i) = map (fun _ => true) b.
Proof.
  induction i as [|p i IH]; intros [|x b] Hlen Hs; simpl in *; try discriminate; [reflexivity|].
  unfold mask_or in *. simpl. rewrite (Hs p (or_introl eq_refl)), orb_true_r. f_equal.
  apply IH; [lia|]. intros q Hq. apply Hs. right. exact Hq.
Qed.

Lemma mask_or_ext (i : list nat) (s t : nat -> bool) b :
  (forall p, In p i -> s p = t p) -> mask_or b (map s i) = mask_or b (map t i).
Proof. intro H. f_equal. apply map_ext_in. exact H. Qed.

(* the fallback of an inverted leaf: run on a cleared mask, complement, OR into the shared mask *)
Lemma invert_combine (i : list nat) (s : nat -> bool) : forall b,
  length i = length b ->
  map (fun xy : bool * bool => if fst xy then true else negb (snd xy))
      (combine b (mask_or (map (fun _ => false) b) (map s i)))
  = mask_or b (map (fun p => negb (s p)) i).
Proof.
  induction i as [|p i IH]; intros [|x b] Hlen; simpl in Hlen; try discriminate.
  - reflexivity.
  - unfold mask_or in *. cbn [map combine fst snd]. f_equal. apply IH. lia.
Qed.

(* ------------------------------------------------------------------ one row of a guarded loop *)

Lemma guarded_loop_single env c e p :
  guarded_loop env c e [p] [false] = do v <- body_point env c e p; Ok [v].
Proof.
  cbn [guarded_loop]. unfold body_point, obind.
  destruct c as [ce|];
    repeat match goal with
           | |- context[match keval env p ?x with _ => _ end] => destruct (keval env p x)
           | |- context[match as_bool ?x with _ => _ end] => destruct (as_bool x) as [[|]| |]
           end; reflexivity.
Qed.

(* ------------------------------------------------------------------ kernels by name *)

Lemma kernel_named_forallb (P : kernel -> bool) : forall tbl n k,
  forallb (fun nk => P (snd nk)) tbl = true -> kernel_named tbl n = Some k -> P k = true.
Proof.
  induction tbl as [|[m k0] tbl IH]; intros n k Hall Hk; simpl in *; [discriminate|].
  apply andb_true_iff in Hall as [H0 Hall].
  destruct (bytes_eqb m n); [inversion Hk; subst; exact H0|]. eapply IH; eassumption.
Qed.

(* the generated obligation "no kernel clears bits", for a kernel looked up by name *)
Lemma kernel_named_no_clear n k : kernel_named g_kernels n = Some k -> kernel_clears k = false.
Proof.
  intro H. pose proof (kernel_named_forallb (fun k => negb (kernel_clears k)) g_kernels n k kernels_never_clear H) as E.
  cbv beta in E. destruct (kernel_clears k); [discriminate E|reflexivity].
Qed.

Definition direct (env : kenv) (index : list nat) (b : list bool) (k : kernel) : outcome (list bool) :=
  match k with
  | KNoOp => Ok b
  | KFill v => Ok (map (fun _ => v) b)
  | KGuarded _ e => guarded_loop env None e index b
  | KGuardedIf _ c e => guarded_loop env (Some c) e index b
  | KDelegate _ _ => Panic
  end.

Lemma run_kernel_direct d env k index b :
  run_kernel d env k index b
  = match k with
    | KDelegate fn _ => match d fn with Some k' => direct env index b k' | None => Panic end
    | _ => direct env index b k
    end.
Proof. destruct k; reflexivity. Qed.

Lemma ok_single_inj (x y : bool) : @Ok (list bool) [x] = Ok [y] -> x = y.
Proof. intro H. inversion H. reflexivity. Qed.

Lemma bind_single_inv (o : outcome bool) (y : bool) : (do v <- o; Ok [v]) = Ok [y] -> o = Ok y.
Proof. destruct o; simpl; intro H; inversion H; reflexivity. Qed.

Lemma direct_local env k i b (s : nat -> bool) p0 v0 :
  kernel_clears k = false ->
  direct env [p0] [false] k = Ok [v0] ->
  length i = length b ->
  (forall p, In p i -> direct env [p] [false] k = Ok [s p]) ->
  direct env i b k = Ok (mask_or b (map s i)).
Proof.
  intros Hclr H0 Hlen Hpt.
  destruct k as [|v|pre e|pre c e|fn fl]; cbn [direct] in *.
  - f_equal. symmetry. apply mask_or_falses; [exact Hlen|].
    intros p Hp. specialize (Hpt p Hp). apply ok_single_inj in Hpt. auto.
  - destruct v; [|discriminate]. f_equal. symmetry. apply mask_or_trues; [exact Hlen|].
    intros p Hp. specialize (Hpt p Hp). cbn [map] in Hpt. apply ok_single_inj in Hpt. auto.
  - rewrite guarded_loop_realised.
    + f_equal. apply mask_or_ext. intros p Hp. specialize (Hpt p Hp).
      rewrite guarded_loop_single in Hpt. apply bind_single_inv in Hpt. rewrite Hpt. reflexivity.
    + exact Hlen.
    + intros p Hp. specialize (Hpt p Hp).
      rewrite guarded_loop_single in Hpt. apply bind_single_inv in Hpt. eexists; exact Hpt.
  - rewrite guarded_loop_realised.
    + f_equal. apply mask_or_ext. intros p Hp. specialize (Hpt p Hp).
      rewrite guarded_loop_single in Hpt. apply bind_single_inv in Hpt. rewrite Hpt. reflexivity.
    + exact Hlen.
    + intros p Hp. specialize (Hpt p Hp).
      rewrite guarded_loop_single in Hpt. apply bind_single_inv in Hpt. eexists; exact Hpt.
  - discriminate.
Qed.

(* run: the generated kernel [letter.fname] over an index = its effect row by row *)
Lemma run_local letter fname env i b (s : nat -> bool) p0 v0 :
  run letter fname env [p0] [false] = Ok [v0] ->
  length i = length b ->
  (forall p, In p i -> run letter fname env [p] [false] = Ok [s p]) ->
  run letter fname env i b = Ok (mask_or b (map s i)).
Proof.
  unfold run.
  destruct (kernel_named g_kernels (kname letter fname)) as [k|] eqn:Hk; [|discriminate].
  pose proof (kernel_named_no_clear _ _ Hk) as Hclr.
  rewrite !run_kernel_direct. intros H0 Hlen Hpt.
  destruct k as [|v|pre e|pre c e|fn fl].
  - eapply direct_local; eauto.
  - eapply direct_local; eauto.
  - eapply direct_local; eauto.
  - eapply direct_local; eauto.
  - unfold delegates in *.
    destruct (kernel_named g_kernels (kname letter fn)) as [k'|] eqn:Hk'; [|discriminate].
    pose proof (kernel_named_no_clear _ _ Hk') as Hclr'.
    eapply direct_local; eauto.
    intros p Hp. specialize (Hpt p Hp). rewrite ?run_kernel_direct in Hpt. unfold delegates in Hpt.
    rewrite Hk' in Hpt. exact Hpt.
Qed.

Lemma run_tbl_local t letter cmp env i b (s : nat -> bool) p0 v0 :
  run_tbl t letter cmp env [p0] [false] = Ok [v0] ->
  length i = length b ->
  (forall p, In p i -> run_tbl t letter cmp env [p] [false] = Ok [s p]) ->
  run_tbl t letter cmp env i b = Ok (mask_or b (map s i)).
Proof.
  unfold run_tbl. destruct (assocb cmp t) as [fname|]; [apply run_local|discriminate].
Qed.

(* ------------------------------------------------------------------ Column.Filter is local *)

Ltac local_leaf :=
  first
    [ discriminate
    | eapply run_tbl_local; eassumption
    | eapply run_local; eassumption ].

Ltac split_dispatch :=
  repeat match goal with
         | H : context[match ?x with _ => _ end] |- _ =>
             lazymatch x with
             | run_tbl _ _ _ _ _ _ => fail
             | run _ _ _ _ _ => fail
             | _ => destruct x eqn:?
             end
         end.

Lemma const_local_true (i : list nat) (b : list bool) (s : nat -> bool) :
  length i = length b ->
  (forall p, In p i -> @Ok (list bool) (map (fun _ => true) [false]) = Ok [s p]) ->
  @Ok (list bool) (map (fun _ => true) b) = Ok (mask_or b (map s i)).
Proof.
  intros Hlen Hpt. f_equal. symmetry. apply mask_or_trues; [exact Hlen|].
  intros p Hp. specialize (Hpt p Hp). cbn [map] in Hpt. apply ok_single_inj in Hpt. auto.
Qed.

Lemma const_local_false (i : list nat) (b : list bool) (s : nat -> bool) :
  length i = length b ->
  (forall p, In p i -> @Ok (list bool) [false] = Ok [s p]) ->
  @Ok (list bool) b = Ok (mask_or b (map s i)).
Proof.
  intros Hlen Hpt. f_equal. symmetry. apply mask_or_falses; [exact Hlen|].
  intros p Hp. specialize (Hpt p Hp). apply ok_single_inj in Hpt. auto.
Qed.

Theorem col_filter_local mt c cmp a i b (s : nat -> bool) p0 v0 :
  col_filter mt c [p0] cmp a [false] = Ok [v0] ->
  length i = length b ->
  (forall p, In p i -> col_filter mt c [p] cmp a [false] = Ok [s p]) ->
  col_filter mt c i cmp a b = Ok (mask_or b (map s i)).
Proof.
  intros H0 Hlen Hpt.
  unfold col_filter, i_filter_builtin, f_filter_builtin, b_filter_builtin, s_filter_builtin, e_filter_builtin in *.
  split_dispatch;
    first [ local_leaf
          | apply const_local_true; assumption
          | apply const_local_false; assumption ].
Qed.

(* ------------------------------------------------------------------ the two sides, row by row *)

(* the part of FilterSpec.leaf_sat below the column lookup and above Filter.Inverse *)
Definition leaf_core (mt : matcher_table) (f : frame) (c : coldata) (cmp : fcmp) (arg : farg) (p : nat)
  : outcome (option (option bool)) :=
  match cmp with
  | CmpName s =>
      match arg with
      | AColName n => match lookup_col f n with None => Ok invalid | Some _ => builtin_sat mt f c s arg p end
      | _ => builtin_sat mt f c s arg p
      end
  | CmpFn1 t tbl =>
      match arg with
      | AColName n =>
          match lookup_col f n with
          | None => Ok invalid
          | Some c2 =>
              let c' := match c, c2 with ICol d, FCol _ => FCol (float_slice d) | _, _ => c end in
              if fn_type_ok c' t then
                do x <- cell_at c' p;
                Ok (match find (fun e => cell_key_eqb (fst e) x) tbl with Some e => det (snd e) | None => open_ end)
              else Ok invalid
          end
      | _ =>
          if fn_type_ok c t then
            do x <- cell_at c p;
            Ok (match find (fun e => cell_key_eqb (fst e) x) tbl with Some e => det (snd e) | None => open_ end)
          else Ok invalid
      end
  | CmpFn2 t tbl =>
      match arg with
      | AColName n =>
          match lookup_col f n with
          | None => Ok invalid
          | Some c2 =>
              let '(c', c2') := match c, c2 with
                                | ICol d, FCol _ => (FCol (float_slice d), c2)
                                | FCol _, ICol d2 => (c, FCol (float_slice d2))
                                | _, _ => (c, c2)
                                end in
              if fn_type_ok c' t && ctype_eqb (col_type c') (col_type c2') then
                do x <- cell_at c' p; do y <- cell_at c2' p;
                Ok (match find (fun e => cell_key_eqb (fst (fst e)) x && cell_key_eqb (snd (fst e)) y) tbl with
                    | Some e => det (snd e) | None => open_ end)
              else Ok invalid
          end
      | _ => Ok invalid
      end
  | CmpOther => Ok invalid
  end.

(* Filter.Inverse = the logical complement *)
Definition apply_inv (inv : bool) (r : option (option bool)) : option (option bool) :=
  match r with Some (Some b) => Some (Some (xorb b inv)) | other => other end.

Lemma leaf_sat_unfold mt f l p :
  leaf_sat mt f l p
  = match lookup_col f (lcol l) with
    | None => Ok invalid
    | Some c => do r <- leaf_core mt f c (lcmp l) (larg l) p; Ok (apply_inv (linv l) r)
    end.
Proof. reflexivity. Qed.

(* QFrame.filter: the argument of the leaf, resolved (column name -> column, int/float promotion) *)
Definition resolve (f : frame) (s : coldata) (arg : farg) : outcome (coldata * rarg) :=
  match arg with
  | AColName n =>
      match lookup_col f n with
      | None => Fail
      | Some argc =>
          match s, argc with
          | ICol d, FCol _ => Ok (FCol (float_slice d), RCol argc)
          | FCol _, ICol d2 => Ok (s, RCol (FCol (float_slice d2)))
          | _, _ => Ok (s, RCol argc)
          end
      end
  | a => Ok (s, RConst a)
  end.

(* QFrame.filter: plain or inverted call of Column.Filter *)
Definition leaf_step (mt : matcher_table) (index : list nat) (s' : coldata) (a : rarg) (cmp : fcmp) (inv : bool)
           (b : list bool) : outcome (list bool) :=
  if inv then
    let shortcut :=
      match cmp with
      | CmpName sc =>
          if is_order_comparator sc then None
          else match assocb sc t_filter_inverse with
               | Some inv =>
                   match col_filter mt s' index (CmpName inv) a b with
                   | Ok r => Some (Ok r)
                   | Panic => Some Panic
                   | Fail => None
                   end
               | None => None
               end
      | _ => None
      end in
    match shortcut with
    | Some r => r
    | None =>
        do inv <- col_filter mt s' index cmp a (map (fun _ => false) b);
        Ok (map (fun xy : bool * bool => if fst xy then true else negb (snd xy)) (combine b inv))
    end
  else col_filter mt s' index cmp a b.

Lemma filter_leaf_unfold mt f l b :
  filter_leaf mt f l b
  = match lookup_col f (lcol l) with
    | None => Fail
    | Some s => do sa <- resolve f s (larg l); leaf_step mt (ix f) (fst sa) (snd sa) (lcmp l) (linv l) b
    end.
Proof.
  unfold filter_leaf, resolve, leaf_step.
  destruct (lookup_col f (lcol l)) as [s|]; [|reflexivity].
  destruct (larg l); try reflexivity.
  destruct (lookup_col f n) as [argc|]; [|reflexivity].
  destruct s, argc; reflexivity.
Qed.

(* THE ROW STATEMENT the typed files prove for each column type:
   - where the specification determines the answer v for row p, Column.Filter run on that single row
     with a cleared mask writes exactly v;
   - where the specification calls the leaf invalid, Column.Filter (or already the argument lookup) returns
     an error whatever index and mask it is given. *)
Definition colrow_ok (mt : matcher_table) (f : frame) (c : coldata) (cmp : fcmp) (arg : farg) (p : nat) : Prop :=
  match leaf_core mt f c cmp arg p with
  | Ok (Some (Some v)) =>
      match resolve f c arg with
      | Ok (s', a) => col_filter mt s' [p] cmp a [false] = Ok [v]
      | _ => False
      end
  | Ok None =>
      match resolve f c arg with
      | Ok (s', a) => forall i b, col_filter mt s' i cmp a b = Fail
      | Fail => True
      | Panic => False
      end
  | _ => True
  end.

(* what must hold of a column for a row of it to be readable *)
Definition col_row_ok (c : coldata) (p : nat) : Prop :=
  p < col_len c /\ col_wf c = true /\ match c with ECol _ vs _ => NoDup vs | _ => True end.

Definition arg_row_ok (f : frame) (arg : farg) (p : nat) : Prop :=
  match arg with
  | AColName n => match lookup_col f n with Some c2 => col_row_ok c2 p | None => True end
  | _ => True
  end.

(* ------------------------------------------------------------------ comparator names *)

Definition all_names : list bytes :=
  [ bs 1 0x3c; bs 2 0x3c3d; bs 1 0x3e; bs 2 0x3e3d; bs 1 0x3d; bs 2 0x213d;
    name_in; name_isnull; name_isnotnull; name_any_bits; name_all_bits;
    bs 4 0x6c696b65; bs 5 0x696c696b65; bs 6 0x6e6f7420696e ]%N.

Definition unknown_name (s : bytes) : Prop :=
  forall k, In k all_names -> bytes_eqb k s = false /\ bytes_eqb s k = false.

Lemma bytes_eqb_sym a b : bytes_eqb a b = bytes_eqb b a.
Proof.
  destruct (bytes_eqb a b) eqn:E1; destruct (bytes_eqb b a) eqn:E2; try reflexivity.
  - apply bytes_eqb_spec in E1. subst. rewrite bytes_eqb_refl in E2. discriminate.
  - apply bytes_eqb_spec in E2. subst. rewrite bytes_eqb_refl in E1. discriminate.
Qed.

Lemma classify_name s : In s all_names \/ unknown_name s.
Proof.
  destruct (existsb (bytes_eqb s) all_names) eqn:E.
  - left. apply existsb_exists in E as [x [Hx Hs]]. apply bytes_eqb_spec in Hs. subst. exact Hx.
  - right. intros k Hk.
    assert (Hsk : bytes_eqb s k = false).
    { destruct (bytes_eqb s k) eqn:E2; [|reflexivity].
      assert (existsb (bytes_eqb s) all_names = true) by (apply existsb_exists; exists k; split; assumption).
      congruence. }
    split; [rewrite bytes_eqb_sym|]; exact Hsk.
Qed.

Definition keys_known {A} (t : list (bytes * A)) : bool :=
  forallb (fun kv => existsb (bytes_eqb (fst kv)) all_names) t.

Lemma assocb_unknown {A} s (t : list (bytes * A)) :
  unknown_name s -> keys_known t = true -> assocb s t = None.
Proof.
  intros Hu. induction t as [|[k v] t IH]; intro Hk; [reflexivity|].
  unfold keys_known in Hk. cbn [forallb fst] in Hk. cbn [assocb].
  apply andb_true_iff in Hk as [Hk0 Hk].
  apply existsb_exists in Hk0 as [x [Hx Hkx]]. apply bytes_eqb_spec in Hkx. subst x.
  rewrite (proj1 (Hu k Hx)). apply IH. exact Hk.
Qed.

Ltac in_names := unfold all_names; simpl In; solve [repeat (first [left; reflexivity | right])].

Lemma unknown_eqb s k : unknown_name s -> In k all_names -> bytes_eqb s k = false.
Proof. intros Hu Hk. exact (proj2 (Hu k Hk)). Qed.

Lemma cop_of_unknown s : unknown_name s -> cop_of s = None.
Proof.
  intro Hu. unfold cop_of.
  rewrite !(unknown_eqb s _ Hu) by in_names. reflexivity.
Qed.

Lemma is_like_unknown s : unknown_name s -> is_like s = None.
Proof. intro Hu. unfold is_like. rewrite !(unknown_eqb s _ Hu) by in_names. reflexivity. Qed.

Lemma null_test_unknown s x : unknown_name s -> null_test s x = invalid.
Proof. intro Hu. unfold null_test. rewrite !(unknown_eqb s _ Hu) by in_names. reflexivity. Qed.

Lemma is_order_unknown s : unknown_name s -> is_order_comparator s = false.
Proof. intro Hu. unfold is_order_comparator. rewrite !(unknown_eqb s _ Hu) by in_names. reflexivity. Qed.

Lemma tables_keys_known :
  keys_known t_filter_inverse && keys_known t_i_filter0 && keys_known t_i_filter1 && keys_known t_i_filter2
  && keys_known t_i_filterN && keys_known t_f_filter0 && keys_known t_f_filter1 && keys_known t_f_filter2
  && keys_known t_b_filter1 && keys_known t_b_filter2
  && keys_known t_s_filter0 && keys_known t_s_filter1 && keys_known t_s_filter2 && keys_known t_s_filterN
  && keys_known t_e_filter0 && keys_known t_e_filter1 && keys_known t_e_filter2 && keys_known t_e_filterN
  && keys_known t_e_filterLike = true.
Proof. vm_compute. reflexivity. Qed.

Lemma assocb_unknown_gen s (t : list (bytes * bytes)) :
  unknown_name s -> keys_known t = true -> assocb s t = None.
Proof. apply assocb_unknown. Qed.

(* split a comparator name into the 14 names the code knows and "anything else" *)
Ltac name_cases s Hunk :=
  destruct (classify_name s) as [Hunk|Hunk];
  [ unfold all_names in Hunk; simpl In in Hunk;
    repeat (destruct Hunk as [Hunk|Hunk]; [subst s|]); [..|contradiction]
  | ].

(* evaluate closed look-ups in the generated tables *)
Ltac reduce_closed1 :=
  repeat match goal with
         | |- context[cop_of ?c] => let r := eval vm_compute in (cop_of c) in change (cop_of c) with r
         | |- context[is_like ?c] => let r := eval vm_compute in (is_like c) in change (is_like c) with r
         | |- context[is_order_comparator ?c] =>
             let r := eval vm_compute in (is_order_comparator c) in change (is_order_comparator c) with r
         | |- context[null_test ?c ?x] => let r := eval cbv in (null_test c x) in change (null_test c x) with r
         | |- context[bytes_eqb ?c ?t] => let r := eval vm_compute in (bytes_eqb c t) in change (bytes_eqb c t) with r
         | |- context[assocb ?c ?t] => let r := eval vm_compute in (assocb c t) in change (assocb c t) with r
         | |- context[kernel_named ?g ?n] => let r := eval vm_compute in (kernel_named g n) in change (kernel_named g n) with r
         end; cbv beta iota.

Lemma idx_lt {A} (d : list A) p : p < length d -> exists v, idx d p = Ok v.
Proof.
  intro H. unfold idx. destruct (nth_error d p) eqn:E; [eexists; reflexivity|].
  apply nth_error_None in E. lia.
Qed.

(* ------------------------------------------------------------------ comparison lemmas: kernel operators = specification *)

Lemma ord_lt a b : ord_sat OLt (Z.compare a b) = (a <? b)%Z.
Proof. unfold Z.ltb. destruct (Z.compare a b); reflexivity. Qed.
Lemma ord_le a b : ord_sat OLe (Z.compare a b) = (a <=? b)%Z.
Proof. unfold Z.leb. destruct (Z.compare a b); reflexivity. Qed.
Lemma ord_gt a b : ord_sat OGt (Z.compare a b) = (b <? a)%Z.
Proof. unfold Z.ltb. rewrite (Z.compare_antisym a b). destruct (Z.compare a b); reflexivity. Qed.
Lemma ord_ge a b : ord_sat OGe (Z.compare a b) = (b <=? a)%Z.
Proof. unfold Z.leb. rewrite (Z.compare_antisym a b). destruct (Z.compare a b); reflexivity. Qed.
Lemma ord_eq a b : ord_sat OEq (Z.compare a b) = (a =? b)%Z.
Proof. destruct (Z.compare_spec a b); simpl; symmetry; [apply Z.eqb_eq|apply Z.eqb_neq|apply Z.eqb_neq]; lia. Qed.
Lemma ord_ne a b : ord_sat ONe (Z.compare a b) = negb (a =? b)%Z.
Proof. rewrite <- ord_eq. destruct (Z.compare a b); reflexivity. Qed.

(* Go's float64 operators (NaN makes <, <=, >, >=, == false and != true) = the statement's comparison *)
Lemma f_lt_spec a b : f_lt a b = cmp_float OLt a b.
Proof. unfold f_lt, cmp_float, f_compare, null_answer. rewrite ord_lt. destruct (f_isnan a), (f_isnan b); reflexivity. Qed.
Lemma f_le_spec a b : f_le a b = cmp_float OLe a b.
Proof. unfold f_le, cmp_float, f_compare, null_answer. rewrite ord_le. destruct (f_isnan a), (f_isnan b); reflexivity. Qed.
Lemma f_gt_spec a b : f_lt b a = cmp_float OGt a b.
Proof. unfold f_lt, cmp_float, f_compare, null_answer. rewrite ord_gt. destruct (f_isnan a), (f_isnan b); reflexivity. Qed.
Lemma f_ge_spec a b : f_le b a = cmp_float OGe a b.
Proof. unfold f_le, cmp_float, f_compare, null_answer. rewrite ord_ge. destruct (f_isnan a), (f_isnan b); reflexivity. Qed.
Lemma f_eq_spec a b : f_eq a b = cmp_float OEq a b.
Proof. unfold f_eq, cmp_float, f_compare, null_answer. rewrite ord_eq. destruct (f_isnan a), (f_isnan b); reflexivity. Qed.
Lemma f_ne_spec a b : negb (f_eq a b) = cmp_float ONe a b.
Proof. unfold f_eq, cmp_float, f_compare, null_answer. rewrite ord_ne. destruct (f_isnan a), (f_isnan b); reflexivity. Qed.

Lemma idx_map {A B} (g : A -> B) (d : list A) p : idx (map g d) p = do v <- idx d p; Ok (g v).
Proof. unfold idx. rewrite nth_error_map. destruct (nth_error d p); reflexivity. Qed.

Lemma any_bits_pos v z : (z <? 0)%Z = false -> is_gt (Z.land v z ?= 0)%Z = negb (Z.land v z =? 0)%Z.
Proof.
  intro Hz. assert (0 <= Z.land v z)%Z by (apply Z.land_nonneg; right; lia).
  destruct (Z.compare_spec (Z.land v z) 0); simpl; symmetry;
    [apply negb_false_iff, Z.eqb_eq | | apply negb_true_iff, Z.eqb_neq]; lia.
Qed.

Lemma existsb_VZ v s : existsb (kval_eqb (VZ v)) (map VZ s) = existsb (Z.eqb v) s.
Proof. induction s as [|x s IH]; simpl; [reflexivity|]. rewrite IH. reflexivity. Qed.

(* ------------------------------------------------------------------ tactics shared by the typed files *)

(* rewrite with "this comparator name is none of the known ones" *)
Ltac unk Hunk :=
  repeat first
    [ rewrite (cop_of_unknown _ Hunk)
    | rewrite (is_like_unknown _ Hunk)
    | rewrite (null_test_unknown _ _ Hunk)
    | rewrite (unknown_eqb _ _ Hunk) by in_names
    | rewrite (assocb_unknown_gen _ _ Hunk) by (vm_compute; reflexivity) ].

(* run one generated kernel on one row *)
Ltac eval_run :=
  unfold run; reduce_closed1; rewrite ?run_kernel_direct; unfold delegates; reduce_closed1; cbn [direct];
  rewrite ?guarded_loop_single; unfold body_point;
  cbn [keval base_env k_cell k_const k_inset k_match k_bitset k_fn raw_kval obind].

Ltac fin_cmp :=
  repeat match goal with
         | |- context[cmp_int ?op ?a ?b] => unfold cmp_int, ord_sat; destruct (Z.compare a b)
         end; try reflexivity.

Ltac spec_done := unfold det, invalid, open_; cbv beta iota.

Ltac model_unfold :=
  unfold col_filter, i_filter_builtin, f_filter_builtin, b_filter_builtin, int_comp, int_set, run_tbl.

(* the six comparison operators of the kernels, per value type, in terms of the specification *)
Lemma kcompare_VZ0 a b : kcompare 0 (VZ a) (VZ b) = Ok (cmp_int OLt a b).
Proof. cbn. unfold cmp_int. destruct (a ?= b)%Z; reflexivity. Qed.
Lemma kcompare_VZ1 a b : kcompare 1 (VZ a) (VZ b) = Ok (cmp_int OLe a b).
Proof. cbn. unfold cmp_int. destruct (a ?= b)%Z; reflexivity. Qed.
Lemma kcompare_VZ2 a b : kcompare 2 (VZ a) (VZ b) = Ok (cmp_int OGt a b).
Proof. cbn. unfold cmp_int. destruct (a ?= b)%Z; reflexivity. Qed.
Lemma kcompare_VZ3 a b : kcompare 3 (VZ a) (VZ b) = Ok (cmp_int OGe a b).
Proof. cbn. unfold cmp_int. destruct (a ?= b)%Z; reflexivity. Qed.
Lemma kcompare_VZ4 a b : kcompare 4 (VZ a) (VZ b) = Ok (cmp_int OEq a b).
Proof. cbn. unfold cmp_int. destruct (a ?= b)%Z; reflexivity. Qed.
Lemma kcompare_VZ5 a b : kcompare 5 (VZ a) (VZ b) = Ok (cmp_int ONe a b).
Proof. cbn. unfold cmp_int. destruct (a ?= b)%Z; reflexivity. Qed.

Lemma kcompare_VF0 a b : kcompare 0 (VF a) (VF b) = Ok (cmp_float OLt a b).
Proof. cbn. rewrite f_lt_spec. reflexivity. Qed.
Lemma kcompare_VF1 a b : kcompare 1 (VF a) (VF b) = Ok (cmp_float OLe a b).
Proof. cbn. rewrite f_le_spec. reflexivity. Qed.
Lemma kcompare_VF2 a b : kcompare 2 (VF a) (VF b) = Ok (cmp_float OGt a b).
Proof. cbn. rewrite f_gt_spec. reflexivity. Qed.
Lemma kcompare_VF3 a b : kcompare 3 (VF a) (VF b) = Ok (cmp_float OGe a b).
Proof. cbn. rewrite f_ge_spec. reflexivity. Qed.
Lemma kcompare_VF4 a b : kcompare 4 (VF a) (VF b) = Ok (cmp_float OEq a b).
Proof. cbn. rewrite f_eq_spec. reflexivity. Qed.
Lemma kcompare_VF5 a b : kcompare 5 (VF a) (VF b) = Ok (cmp_float ONe a b).
Proof. cbn. rewrite f_ne_spec. reflexivity. Qed.

Definition str_ord (op : cop) (a b : option bytes) : bool := ord_sat op (bytes_cmp (str_of a) (str_of b)).
Lemma kcompare_VS0 a b : kcompare 0 (VS a) (VS b) = Ok (str_ord OLt a b).
Proof. cbn. unfold str_ord. destruct (bytes_cmp (str_of a) (str_of b)); reflexivity. Qed.
Lemma kcompare_VS1 a b : kcompare 1 (VS a) (VS b) = Ok (str_ord OLe a b).
Proof. cbn. unfold str_ord. destruct (bytes_cmp (str_of a) (str_of b)); reflexivity. Qed.
Lemma kcompare_VS2 a b : kcompare 2 (VS a) (VS b) = Ok (str_ord OGt a b).
Proof. cbn. unfold str_ord. destruct (bytes_cmp (str_of a) (str_of b)); reflexivity. Qed.
Lemma kcompare_VS3 a b : kcompare 3 (VS a) (VS b) = Ok (str_ord OGe a b).
Proof. cbn. unfold str_ord. destruct (bytes_cmp (str_of a) (str_of b)); reflexivity. Qed.
Lemma kcompare_VS4 a b : kcompare 4 (VS a) (VS b) = Ok (str_ord OEq a b).
Proof. cbn. unfold str_ord. destruct (bytes_cmp (str_of a) (str_of b)); reflexivity. Qed.
Lemma kcompare_VS5 a b : kcompare 5 (VS a) (VS b) = Ok (str_ord ONe a b).
Proof. cbn. unfold str_ord. destruct (bytes_cmp (str_of a) (str_of b)); reflexivity. Qed.

Lemma kcompare_VB4 a b : kcompare 4 (VB a) (VB b) = Ok (Bool.eqb a b).
Proof. reflexivity. Qed.
Lemma kcompare_VB5 a b : kcompare 5 (VB a) (VB b) = Ok (negb (Bool.eqb a b)).
Proof. reflexivity. Qed.

Ltac kcmp :=
  rewrite ?kcompare_VZ0, ?kcompare_VZ1, ?kcompare_VZ2, ?kcompare_VZ3, ?kcompare_VZ4, ?kcompare_VZ5,
          ?kcompare_VF0, ?kcompare_VF1, ?kcompare_VF2, ?kcompare_VF3, ?kcompare_VF4, ?kcompare_VF5,
          ?kcompare_VS0, ?kcompare_VS1, ?kcompare_VS2, ?kcompare_VS3, ?kcompare_VS4, ?kcompare_VS5,
          ?kcompare_VB4, ?kcompare_VB5.
