(* Proofs/FilterTypedLeaf.v — C02: the per-leaf step of QFrame.filter against the row-wise specification.
   For a well-formed frame, every leaf (all five column types, every comparator, every argument kind, custom
   predicates, Filter.Inverse with its shortcut through filter.Inverse and its fallback):
     - if the specification determines the leaf on the rows of the index, filter_leaf ORs exactly those
       answers into the shared mask;
     - if the specification calls the leaf invalid, filter_leaf returns an error. *)
From QF Require Import Base.Prelude Base.KernelSyntax Gen.GenConsts Gen.GenTables Gen.GenKernels.
From QF Require Import Model.Frame Model.Bits Model.Kernel Model.Filter Model.FilterSpec.
From QF Require Import Proofs.FilterProofs Proofs.FilterLeafProofs Proofs.FilterTyped.
From QF Require Import Proofs.FilterTypedInt Proofs.FilterTypedFloatBool Proofs.FilterTypedStr
                       Proofs.FilterTypedEnum Proofs.FilterTypedCustom.
Local Open Scope nat_scope.

(* ------------------------------------------------------------------ well-formed frames *)

(* wf_frame of Model/Frame.v plus: the values of an enum type are pairwise different (an invariant of
   ecolumn's factory; without it "the rank of a string" is not defined) *)
Definition frame_ok (f : frame) : Prop :=
  wf_frame f = true /\ forall n d vs st, In (n, ECol d vs st) (cols f) -> NoDup vs.

Lemma lookup_from_in name : forall cs pos acc q c,
  lookup_from name cs pos acc = Some (q, c) -> acc = Some (q, c) \/ exists n, In (n, c) cs.
Proof.
  induction cs as [|[n0 c0] cs IH]; intros pos acc q c H; simpl in H; [left; exact H|].
  apply IH in H as [H|[n H]].
  - destruct (bytes_eqb n0 name); [|left; exact H]. inversion H; subst. right. exists n0. left. reflexivity.
  - right. exists n. right. exact H.
Qed.

Lemma lookup_col_in f n c : lookup_col f n = Some c -> exists m, In (m, c) (cols f).
Proof.
  unfold lookup_col, lookup. intro H.
  destruct (lookup_from n (cols f) 0 None) as [[q c']|] eqn:E; [|discriminate]. simpl in H. inversion H; subst.
  apply lookup_from_in in E as [E|E]; [discriminate|exact E].
Qed.

Lemma frame_col_row_ok f n c p : frame_ok f -> lookup_col f n = Some c -> p < phys_len f -> col_row_ok c p.
Proof.
  intros [Hwf Hnd] Hl Hp. destruct (lookup_col_in f n c Hl) as [m Hin].
  unfold wf_frame in Hwf. apply andb_true_iff in Hwf as [Hcols _].
  rewrite forallb_forall in Hcols. specialize (Hcols _ Hin). cbn [snd] in Hcols.
  apply andb_true_iff in Hcols as [Hlen Hcwf]. apply Nat.eqb_eq in Hlen.
  unfold col_row_ok. split; [lia|]. split; [exact Hcwf|].
  destruct c; try exact I. eapply Hnd. exact Hin.
Qed.

Section Leaves.
  Variable mt : matcher_table.
  Variable f : frame.
  Hypothesis Hok : frame_ok f.

  (* THE ROW THEOREM, all column types and comparator kinds together *)
  Theorem colrow_all n c cmp arg p :
    lookup_col f n = Some c -> p < phys_len f -> colrow_ok mt f c cmp arg p.
  Proof.
    intros Hl Hp.
    pose proof (frame_col_row_ok f n c p Hok Hl Hp) as Hrow.
    assert (Harg : arg_row_ok f arg p).
    { unfold arg_row_ok. destruct arg; try exact I.
      destruct (lookup_col f n0) as [c2|] eqn:Hl2; [|exact I].
      eapply frame_col_row_ok; eassumption. }
    destruct cmp as [s|t tbl|t tbl|].
    - destruct c as [d|d|d|d|d vs st].
      + apply colrow_int; [exact (proj1 Hrow)|exact Harg].
      + apply colrow_float; [exact (proj1 Hrow)|exact Harg].
      + apply colrow_bool; [exact (proj1 Hrow)|exact Harg].
      + apply colrow_str; [exact (proj1 Hrow)|exact Harg].
      + apply colrow_enum; assumption.
    - apply colrow_fn1; assumption.
    - apply colrow_fn2; assumption.
    - apply colrow_other.
  Qed.
End Leaves.

(* ------------------------------------------------------------------ filter.Inverse at the level of the specification *)

Ltac rc := repeat (progress reduce_closed1).

Lemma ord_ne_eq c : ord_sat ONe c = negb (ord_sat OEq c).
Proof. destruct c; reflexivity. Qed.
Lemma cmp_int_ne a b : cmp_int ONe a b = negb (cmp_int OEq a b).
Proof. unfold cmp_int. apply ord_ne_eq. Qed.
Lemma cmp_float_ne a b : cmp_float ONe a b = negb (cmp_float OEq a b).
Proof. unfold cmp_float. destruct (f_isnan a || f_isnan b); [reflexivity|apply ord_ne_eq]. Qed.
Lemma cmp_str_ne a b : cmp_str ONe a b = negb (cmp_str OEq a b).
Proof. unfold cmp_str. destruct a, b; try reflexivity. apply ord_ne_eq. Qed.
Lemma cmp_rank_ne a b : cmp_rank ONe a b = negb (cmp_rank OEq a b).
Proof. unfold cmp_rank. destruct a, b; try reflexivity. apply ord_ne_eq. Qed.

Ltac split_spec :=
  repeat (rc; cbn [norm_strs int_set is_eqne];
          match goal with
          | |- context[match ?x with _ => _ end] => destruct x eqn:?
          | |- context[if ?x then _ else _] => destruct x eqn:?
          end).

Ltac fin_spec :=
  unfold det, invalid, open_, not3;
  rewrite ?cmp_int_ne, ?cmp_float_ne, ?cmp_str_ne, ?cmp_rank_ne, ?negb_involutive; try reflexivity; try congruence.

Definition n_eq : bytes := bs 1 0x3d.
Definition n_ne : bytes := bs 2 0x213d.
Definition n_notin : bytes := bs 6 0x6e6f7420696e.

(* != is the complement of = on every type, argument kind, null and NaN pattern *)
Lemma invspec_eq mt f c a p :
  builtin_sat mt f c n_ne a p = do r <- builtin_sat mt f c n_eq a p; Ok (not3 r).
Proof. unfold builtin_sat, like_sat, obind, n_ne, n_eq. split_spec; fin_spec. Qed.

Lemma invspec_isnull mt f c a p :
  builtin_sat mt f c name_isnotnull a p = do r <- builtin_sat mt f c name_isnull a p; Ok (not3 r).
Proof. unfold builtin_sat, like_sat, obind. split_spec; fin_spec. Qed.

Lemma invspec_isnotnull mt f c a p :
  builtin_sat mt f c name_isnull a p = do r <- builtin_sat mt f c name_isnotnull a p; Ok (not3 r).
Proof. unfold builtin_sat, like_sat, obind. split_spec; fin_spec. Qed.

(* "not in" is not a comparator of any column type *)
Lemma invspec_in mt f c a p :
  builtin_sat mt f c n_notin a p = do r <- builtin_sat mt f c name_in a p; Ok invalid.
Proof. unfold builtin_sat, like_sat, obind, n_notin. split_spec; fin_spec. Qed.

(* what the specification says about the comparator that filter.Inverse substitutes for [sc] *)
Definition inv_result (sc : bytes) (r : option (option bool)) : option (option bool) :=
  if bytes_eqb sc name_in then invalid else not3 r.

Lemma leaf_core_inv mt f c sc sci arg p :
  is_order_comparator sc = false -> assocb sc t_filter_inverse = Some sci -> sc <> n_notin ->
  leaf_core mt f c (CmpName sci) arg p = do r <- leaf_core mt f c (CmpName sc) arg p; Ok (inv_result sc r).
Proof.
  intros Hord Hinv Hne.
  assert (B : forall a, builtin_sat mt f c sci a p = do r <- builtin_sat mt f c sc a p; Ok (inv_result sc r)).
  { intro a. revert Hord Hinv Hne.
    name_cases sc Hunk;
      [ intros Hord Hinv Hne;
        first [ discriminate Hord
              | discriminate Hinv
              | exfalso; apply Hne; reflexivity
              | vm_compute in Hinv; inversion Hinv; subst sci; unfold inv_result; rc;
                first [ apply invspec_eq | apply invspec_isnull | apply invspec_isnotnull | apply invspec_in ] ] ..
      | intros _ Hinv _; rewrite (assocb_unknown_gen _ _ Hunk) in Hinv by (vm_compute; reflexivity); discriminate Hinv ]. }
  unfold leaf_core.
  destruct arg as [z|fb ft|bb|str|zs|fs|ss|ifs|n| |]; try apply B.
  destruct (lookup_col f n); [apply B|].
  unfold inv_result. destruct (bytes_eqb sc name_in); reflexivity.
Qed.

(* "not in" is never valid, whatever the column and the argument *)
Lemma notin_never mt f c arg p r : leaf_core mt f c (CmpName n_notin) arg p = Ok r -> r = None.
Proof.
  assert (B : forall a r, builtin_sat mt f c n_notin a p = Ok r -> r = None).
  { intros a r0. rewrite invspec_in. destruct (builtin_sat mt f c name_in a p); simpl; intro H; inversion H; reflexivity. }
  unfold leaf_core.
  destruct arg as [z|fb ft|bb|str|zs|fs|ss|ifs|n| |]; try apply B.
  destruct (lookup_col f n); [apply B|]. intro H. inversion H. reflexivity.
Qed.

(* ------------------------------------------------------------------ the leaf theorems *)

Definition leaf_in_scope (l : leaf) : Prop := lcmp l <> CmpName n_notin.

Section LeafTheorems.
  Variable mt : matcher_table.
  Variable f : frame.
  Hypothesis Hok : frame_ok f.

  Lemma xorb_true_negb x : xorb x true = negb x.
  Proof. destruct x; reflexivity. Qed.

  (* 1. where the specification determines the leaf on every row of the index (and on one witness row p0,
        which matters only for an empty index), the per-leaf step ORs exactly its answers into the mask *)
  Theorem leaf_ok (l : leaf) (s : nat -> bool) (i : list nat) (b : list bool) (p0 : nat) :
    (forall p, p = p0 \/ In p i -> p < phys_len f /\ leaf_sat mt f l p = Ok (Some (Some (s p)))) ->
    length i = length b ->
    filter_leaf mt (with_ix f i) l b = Ok (mask_or b (map s i)).
  Proof.
    intros Hrows Hlen.
    rewrite filter_leaf_unfold.
    change (lookup_col (with_ix f i) (lcol l)) with (lookup_col f (lcol l)).
    change (ix (with_ix f i)) with i.
    change (resolve (with_ix f i)) with (resolve f).
    destruct (Hrows p0 (or_introl eq_refl)) as [Hp0 Hs0].
    rewrite leaf_sat_unfold in Hs0.
    destruct (lookup_col f (lcol l)) as [c|] eqn:Hc; [|discriminate].
    assert (Hcore : forall p, p = p0 \/ In p i ->
              p < phys_len f /\ leaf_core mt f c (lcmp l) (larg l) p = Ok (Some (Some (xorb (s p) (linv l))))).
    { intros p Hp. destruct (Hrows p Hp) as [Hlt Hs]. split; [exact Hlt|].
      rewrite leaf_sat_unfold, Hc in Hs.
      destruct (leaf_core mt f c (lcmp l) (larg l) p) as [[[v|]|]| |]; simpl in Hs; try discriminate.
      inversion Hs. destruct v, (linv l); reflexivity. }
    pose proof (colrow_all mt f Hok _ c (lcmp l) (larg l) p0 Hc Hp0) as R0.
    unfold colrow_ok in R0. rewrite (proj2 (Hcore p0 (or_introl eq_refl))) in R0.
    destruct (resolve f c (larg l)) as [[s' a]| |] eqn:Hres; try contradiction.
    cbn [obind fst snd].
    assert (Hrow : forall p, p = p0 \/ In p i ->
              col_filter mt s' [p] (lcmp l) a [false] = Ok [xorb (s p) (linv l)]).
    { intros p Hp. destruct (Hcore p Hp) as [Hlt Hcp].
      pose proof (colrow_all mt f Hok _ c (lcmp l) (larg l) p Hc Hlt) as R.
      unfold colrow_ok in R. rewrite Hcp, Hres in R. exact R. }
    unfold leaf_step. destruct (linv l) eqn:Hinv.
    - (* Filter.Inverse *)
      assert (Hfb : (do inv <- col_filter mt s' i (lcmp l) a (map (fun _ => false) b);
                     Ok (map (fun xy : bool * bool => if fst xy then true else negb (snd xy)) (combine b inv)))
                    = Ok (mask_or b (map s i))).
      { rewrite (col_filter_local mt s' (lcmp l) a i (map (fun _ => false) b) (fun p => xorb (s p) true) p0 _
                                  (Hrow p0 (or_introl eq_refl)));
          [|rewrite map_length; exact Hlen|intros p Hp; apply Hrow; right; exact Hp].
        cbn [obind]. rewrite invert_combine by exact Hlen. f_equal. apply mask_or_ext.
        intros p _. rewrite xorb_true_negb. apply negb_involutive. }
      destruct (lcmp l) as [sc|t tbl|t tbl|] eqn:Hcmp; try exact Hfb.
      destruct (is_order_comparator sc) eqn:Hord; [exact Hfb|].
      destruct (assocb sc t_filter_inverse) as [sci|] eqn:Hsci; [|exact Hfb].
      assert (Hne : sc <> n_notin).
      { intro E. subst sc. pose proof (proj2 (Hcore p0 (or_introl eq_refl))) as H.
        apply notin_never in H. discriminate H. }
      assert (Hinvc : forall p, p = p0 \/ In p i ->
                leaf_core mt f c (CmpName sci) (larg l) p = Ok (inv_result sc (Some (Some (xorb (s p) true))))).
      { intros p Hp. rewrite (leaf_core_inv mt f c sc sci (larg l) p Hord Hsci Hne).
        rewrite (proj2 (Hcore p Hp)). reflexivity. }
      unfold inv_result in Hinvc. destruct (bytes_eqb sc name_in) eqn:Hin.
      + (* "in" -> "not in": no column implements it, the fallback runs *)
        pose proof (colrow_all mt f Hok _ c (CmpName sci) (larg l) p0 Hc Hp0) as R.
        unfold colrow_ok in R. rewrite (Hinvc p0 (or_introl eq_refl)), Hres in R.
        rewrite (R i b). exact Hfb.
      + assert (Hrow' : forall p, p = p0 \/ In p i -> col_filter mt s' [p] (CmpName sci) a [false] = Ok [s p]).
        { intros p Hp. destruct (Hcore p Hp) as [Hlt _].
          pose proof (colrow_all mt f Hok _ c (CmpName sci) (larg l) p Hc Hlt) as R.
          unfold colrow_ok in R. rewrite (Hinvc p Hp), Hres in R.
          cbn [not3] in R. rewrite xorb_true_negb, negb_involutive in R. exact R. }
        rewrite (col_filter_local mt s' (CmpName sci) a i b s p0 _ (Hrow' p0 (or_introl eq_refl)) Hlen
                                  (fun p Hp => Hrow' p (or_intror Hp))).
        reflexivity.
    - rewrite (col_filter_local mt s' (lcmp l) a i b (fun p => xorb (s p) false) p0 _
                                (Hrow p0 (or_introl eq_refl)) Hlen (fun p Hp => Hrow p (or_intror Hp))).
      f_equal. apply mask_or_ext. intros p _. apply xorb_false_r.
  Qed.

  (* 2. where the specification calls the leaf invalid (judged on any one row), the per-leaf step returns an error,
        whatever index and mask it is given *)
  Theorem leaf_err (l : leaf) (i : list nat) (b : list bool) (p0 : nat) :
    p0 < phys_len f -> leaf_sat mt f l p0 = Ok None -> leaf_in_scope l ->
    filter_leaf mt (with_ix f i) l b = Fail.
  Proof.
    intros Hp0 Hs0 Hscope.
    rewrite filter_leaf_unfold.
    change (lookup_col (with_ix f i) (lcol l)) with (lookup_col f (lcol l)).
    change (ix (with_ix f i)) with i.
    change (resolve (with_ix f i)) with (resolve f).
    rewrite leaf_sat_unfold in Hs0.
    destruct (lookup_col f (lcol l)) as [c|] eqn:Hc; [|reflexivity].
    assert (Hcore : leaf_core mt f c (lcmp l) (larg l) p0 = Ok None).
    { destruct (leaf_core mt f c (lcmp l) (larg l) p0) as [[[v|]|]| |]; simpl in Hs0; try discriminate. reflexivity. }
    pose proof (colrow_all mt f Hok _ c (lcmp l) (larg l) p0 Hc Hp0) as R0.
    unfold colrow_ok in R0. rewrite Hcore in R0.
    destruct (resolve f c (larg l)) as [[s' a]| |] eqn:Hres; try contradiction; [|reflexivity].
    cbn [obind fst snd]. unfold leaf_step. destruct (linv l) eqn:Hinv; [|apply R0].
    assert (Hfb : (do inv <- col_filter mt s' i (lcmp l) a (map (fun _ => false) b);
                   Ok (map (fun xy : bool * bool => if fst xy then true else negb (snd xy)) (combine b inv)))
                  = Fail) by (rewrite R0; reflexivity).
    unfold leaf_in_scope in Hscope.
    destruct (lcmp l) as [sc|t tbl|t tbl|] eqn:Hcmp; try exact Hfb.
    destruct (is_order_comparator sc) eqn:Hord; [exact Hfb|].
    destruct (assocb sc t_filter_inverse) as [sci|] eqn:Hsci; [|exact Hfb].
    assert (Hne : sc <> n_notin) by (intro E; apply Hscope; rewrite E; reflexivity).
    pose proof (colrow_all mt f Hok _ c (CmpName sci) (larg l) p0 Hc Hp0) as R.
    unfold colrow_ok in R. rewrite (leaf_core_inv mt f c sc sci (larg l) p0 Hord Hsci Hne), Hcore, Hres in R.
    cbn [obind] in R. unfold inv_result in R.
    destruct (bytes_eqb sc name_in); cbn [not3] in R; rewrite (R i b); exact Hfb.
  Qed.
End LeafTheorems.
