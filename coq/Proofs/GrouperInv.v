(* Proofs/GrouperInv.v — the table invariant of the grouper and its preservation by insert_entry
   (including the growth step), for an arbitrary hash function that respects key equality. *)
From QF Require Import Base.Prelude Gen.GenConsts Model.Grouper Proofs.GrouperProofs.
Local Open Scope N_scope.

Lemma in_mid {X} (l1 l2 : list X) a x : In x (l1 ++ a :: l2) <-> x = a \/ In x (l1 ++ l2).
Proof.
  rewrite !in_app_iff. simpl. split.
  - intros [H|[H|H]]; auto.
  - intros [H|[H|H]]; auto.
Qed.

Section Inv.
Context {A : Type}.
Variable eqb : A -> A -> bool.
Variable hash : A -> N.
Variable all : list A.                       (* the whole index handed to GroupBy *)
Hypothesis Hper : per_on eqb all.
Hypothesis Hhash : hash_respects eqb hash all.
Hypothesis Hbound : N.of_nat (length all) <= 2 ^ 30.

Notation slot := (option (entry A)).

(* what the occupied entries L say about the processed prefix [done] of the index *)
Record content (L : list (entry A)) (done : list A) : Prop := {
  c_perm : Permutation (concat (map members L)) done;
  c_ent : forall e, In e L ->
      ehash e = u32 (hash (first e)) /\
      exists rest, members e = first e :: rest /\
                   (forall m, In m rest -> eqb m (first e) = true) /\
                   subseq (members e) done;
  c_pair : forall e1 e2, In e1 L -> In e2 L -> eqb (first e1) (first e2) = true -> e1 = e2;
  c_nodup : NoDup (map first L)
}.

Lemma first_in_done L done e : content L done -> In e L -> In (first e) done.
Proof.
  intros C He. destruct (c_ent _ _ C e He) as (_ & rest & Hm & _ & Hs).
  apply (subseq_incl _ _ Hs). rewrite Hm. left; reflexivity.
Qed.

Lemma content_perm L L' done : Permutation L' L -> content L done -> content L' done.
Proof.
  intros P C. constructor.
  - eapply Permutation_trans; [|exact (c_perm _ _ C)].
    apply Permutation_concat. apply Permutation_map. exact P.
  - intros e He. apply (c_ent _ _ C). eapply Permutation_in; eauto.
  - intros e1 e2 H1 H2. apply (c_pair _ _ C); eapply Permutation_in; eauto.
  - eapply Permutation_NoDup; [|exact (c_nodup _ _ C)].
    apply Permutation_map. apply Permutation_sym. exact P.
Qed.

Lemma content_new l1 l2 done i :
  content (l1 ++ l2) done -> incl done all -> In i all -> ~ In i done ->
  (forall e, In e (l1 ++ l2) -> eqb i (first e) = false) ->
  content (l1 ++ mkEntry (u32 (hash i)) i [] :: l2) (done ++ [i]).
Proof.
  intros C Hincl Hi Hni Hnone. constructor.
  - pose proof (c_perm _ _ C) as P. rewrite map_app, concat_app in P.
    rewrite map_app, concat_app. simpl. unfold members at 2. simpl.
    eapply Permutation_trans; [apply Permutation_sym, Permutation_middle|].
    eapply Permutation_trans; [|apply Permutation_cons_append].
    apply perm_skip. exact P.
  - intros e He. apply in_mid in He. destruct He as [->|He].
    + split; [reflexivity|]. exists []. simpl. split; [reflexivity|]. split; [intros m []|].
      unfold members. simpl. apply (subseq_snoc [] done i). apply subseq_nil_l.
    + destruct (c_ent _ _ C e He) as (Hh & rest & Hm & Hrel & Hs).
      split; [exact Hh|]. exists rest. split; [exact Hm|]. split; [exact Hrel|].
      apply subseq_app_r. exact Hs.
  - intros e1 e2 H1 H2 He. apply in_mid in H1. apply in_mid in H2.
    destruct H1 as [->|H1], H2 as [->|H2]; simpl in He.
    + reflexivity.
    + rewrite Hnone in He by exact H2. discriminate.
    + destruct Hper as (Hsym & _).
      apply Hsym in He; auto.
      * rewrite Hnone in He by exact H1. discriminate.
      * apply Hincl. eapply first_in_done; eauto.
    + apply (c_pair _ _ C); auto.
  - rewrite map_app. simpl.
    eapply Permutation_NoDup; [apply Permutation_middle|].
    constructor.
    + rewrite <- map_app. intro Hin. apply in_map_iff in Hin. destruct Hin as (e & He1 & He2).
      apply Hni. rewrite <- He1. eapply first_in_done; eauto.
    + rewrite <- map_app. exact (c_nodup _ _ C).
Qed.

Definition upd (e : entry A) (i : A) : entry A :=
  mkEntry (ehash e) (first e) (match ix e with [] => [first e; i] | _ :: _ => ix e ++ [i] end).

Lemma members_upd e i : members (upd e i) = members e ++ [i].
Proof. unfold members, upd. simpl. destruct (ix e) as [|x r]; simpl; reflexivity. Qed.

Lemma content_upd l1 l2 e done i :
  content (l1 ++ e :: l2) done -> incl done all -> In i all -> ~ In i done ->
  eqb i (first e) = true ->
  content (l1 ++ upd e i :: l2) (done ++ [i]).
Proof.
  intros C Hincl Hi Hni Hrel.
  assert (Hne : ~ In e (l1 ++ l2)).
  { intro Hin. pose proof (c_nodup _ _ C) as ND. rewrite map_app in ND. simpl in ND.
    apply NoDup_remove_2 in ND. apply ND. rewrite <- map_app. apply in_map. exact Hin. }
  assert (HeL : In e (l1 ++ e :: l2)) by (apply in_mid; auto).
  constructor.
  - pose proof (c_perm _ _ C) as P. rewrite map_app, concat_app in P. simpl in P.
    rewrite map_app, concat_app. simpl. rewrite members_upd.
    eapply Permutation_trans; [|apply Permutation_cons_append].
    eapply Permutation_trans; [|apply perm_skip; exact P].
    rewrite <- app_assoc. simpl.
    rewrite !app_assoc. apply Permutation_sym. apply Permutation_middle.
  - intros x Hx. apply in_mid in Hx. destruct Hx as [->|Hx].
    + destruct (c_ent _ _ C e HeL) as (Hh & rest & Hm & Hrel' & Hs).
      split; [exact Hh|]. exists (rest ++ [i]). rewrite members_upd. split.
      * rewrite Hm. reflexivity.
      * split.
        -- intros m Hm'. apply in_app_or in Hm'. destruct Hm' as [Hm'|[<-|[]]]; auto.
        -- apply subseq_snoc. exact Hs.
    + assert (HxL : In x (l1 ++ e :: l2)) by (apply in_mid; auto).
      destruct (c_ent _ _ C x HxL) as (Hh & rest & Hm & Hrel' & Hs).
      split; [exact Hh|]. exists rest. split; [exact Hm|]. split; [exact Hrel'|].
      apply subseq_app_r. exact Hs.
  - intros e1 e2 H1 H2 He. apply in_mid in H1. apply in_mid in H2.
    destruct H1 as [->|H1], H2 as [->|H2]; simpl in He.
    + reflexivity.
    + exfalso. apply Hne. rewrite (c_pair _ _ C e e2); auto. apply in_mid; auto.
    + exfalso. apply Hne. rewrite <- (c_pair _ _ C e1 e); auto. apply in_mid; auto.
    + apply (c_pair _ _ C); auto; apply in_mid; auto.
  - pose proof (c_nodup _ _ C) as ND. rewrite map_app in *. simpl in *. exact ND.
Qed.

(* ------------------------------------------------------------------ the table invariant *)

Record tinv (t : table A) (done : list A) : Prop := {
  i_pow : exists k, 3 <= k /\ N.of_nat (length (entries t)) = 2 ^ k;
  i_reach : reach (entries t) (N.of_nat (length (entries t)));
  i_gc : group_count t = N.of_nat (length (occ (entries t)));
  i_lf : lf_num t * N.of_nat (length (entries t)) = group_count t * lf_den t /\ 0 < lf_den t;
  i_load : 2 * group_count t <= N.of_nat (length (entries t)) + 2;
  i_gcb : group_count t <= N.of_nat (length done);
  i_content : content (occ (entries t)) done
}.

Lemma pow2_ge8 k : 3 <= k -> 8 <= 2 ^ k.
Proof. intro H. change 8 with (2 ^ 3). apply N.pow_le_mono_r; [discriminate | exact H]. Qed.

(* "if t.loadFactor > maxLoadFactor { t.grow() }" : afterwards at most half of the slots are occupied *)
Lemma maybe_grow_spec t done :
  tinv t done -> N.of_nat (length done) <= 2 ^ 30 ->
  exists t1,
    (if c_maxLoadFactor_num * lf_den t <? lf_num t * c_maxLoadFactor_den then grow t else Ok t) = Ok t1 /\
    tinv t1 done /\ 2 * group_count t1 <= N.of_nat (length (entries t1)).
Proof.
  intros I Hd. destruct (i_pow _ _ I) as (k & Hk & Hlen).
  destruct (i_lf _ _ I) as (Hlf & Hden).
  pose proof (i_load _ _ I) as Hload. pose proof (i_gcb _ _ I) as Hgcb.
  pose proof (pow2_ge8 k Hk) as H8.
  change c_maxLoadFactor_num with 1. change c_maxLoadFactor_den with 2.
  rewrite Hlen in *.
  destruct (N.ltb_spec (1 * lf_den t) (lf_num t * 2)) as [Hlt|Hge].
  - (* grow *)
    assert (Hfull : 2 ^ k < 2 * group_count t) by nia.
    assert (E2 : 2 ^ (k + 1) = 2 * 2 ^ k) by (rewrite N.add_1_r, N.pow_succ_r'; reflexivity).
    assert (Hb32 : 2 ^ (k + 1) < 2 ^ 32).
    { rewrite E2. change (2 ^ 32) with (4 * 2 ^ 30). lia. }
    destruct (grow_spec t k Hlen Hb32) as (es' & c' & Hg & Hlen' & Hr' & Hperm).
    eexists. split; [exact Hg|]. cbn [entries group_count lf_num lf_den]. split.
    + constructor; cbn [entries group_count lf_num lf_den].
      * exists (k + 1). split; [lia | exact Hlen'].
      * rewrite Hlen'. exact Hr'.
      * rewrite (Permutation_length Hperm). exact (i_gc _ _ I).
      * rewrite Hlen', E2. split; [nia | lia].
      * rewrite Hlen', E2. lia.
      * exact Hgcb.
      * eapply content_perm; [exact Hperm | exact (i_content _ _ I)].
    + rewrite Hlen', E2. lia.
  - exists t. split; [reflexivity|]. split; [exact I|]. rewrite Hlen. nia.
Qed.

Lemma insert_spec t done i :
  tinv t done -> NoDup (done ++ [i]) -> incl (done ++ [i]) all ->
  exists t', insert_entry eqb hash true t i = Ok t' /\ tinv t' (done ++ [i]).
Proof.
  intros I ND Hincl.
  assert (Hi : In i all) by (apply Hincl, in_or_app; right; left; reflexivity).
  assert (Hincl' : incl done all) by (intros x Hx; apply Hincl, in_or_app; auto).
  assert (Hni : ~ In i done).
  { apply NoDup_remove_2 in ND. rewrite app_nil_r in ND. exact ND. }
  assert (Hlen_all : N.of_nat (length (done ++ [i])) <= 2 ^ 30).
  { pose proof (NoDup_incl_length ND Hincl). lia. }
  assert (Hlen_done : N.of_nat (length done) + 1 <= 2 ^ 30).
  { rewrite app_length in Hlen_all. simpl in Hlen_all. lia. }
  destruct (maybe_grow_spec t done I) as (t1 & Hg & I1 & Hroom); [lia|].
  unfold insert_entry. rewrite Hg. cbn [obind].
  destruct (i_pow _ _ I1) as (k & Hk & Hlen).
  pose proof (pow2_ge8 k Hk) as H8. pose proof (pow2_pos k) as Hpos.
  pose proof (i_gc _ _ I1) as Hgc. pose proof (i_gcb _ _ I1) as Hgcb.
  set (h := u32 (hash i)).
  set (stop := fun e : entry A => if ehash e =? h then eqb i (first e) else false).
  rewrite Hlen. rewrite <- N.sub_1_r. rewrite land_mask.
  assert (Hocc : (length (occ (entries t1)) < length (entries t1))%nat) by lia.
  assert (Hstart : h mod 2 ^ k < 2 ^ k) by (apply N.mod_upper_bound; lia).
  destruct (probe_total stop (entries t1) k (h mod 2 ^ k) (insert_coll t1) Hlen Hocc Hstart)
    as (d & Hd & Hp & Hpath & Hend).
  rewrite Hp. cbn [obind fst snd].
  set (p := posn (2 ^ k) (h mod 2 ^ k) d) in *.
  pose proof (i_reach _ _ I1) as Hreach. rewrite Hlen in Hreach.
  pose proof (i_content _ _ I1) as C.
  destruct Hend as [Hempty|(e & He & Hstop)].
  - (* Eden entry *)
    unfold idx. rewrite Hempty. cbn [of_option obind].
    destruct (occ_set_nth (entries t1) p None Hempty) as (l1 & l2 & E1 & E2).
    specialize (E2 (Some (mkEntry h i []))). simpl in E1, E2.
    assert (Hnone : forall e, In e (occ (entries t1)) -> eqb i (first e) = false).
    { intros e He. destruct (eqb i (first e)) eqn:Erel; [exfalso|reflexivity].
      assert (Hf : In (first e) all) by (apply Hincl'; eapply first_in_done; eauto).
      assert (Hh : ehash e = h).
      { destruct (c_ent _ _ C e He) as (Hh & _). rewrite Hh. unfold h.
        f_equal. symmetry. apply Hhash; auto. }
      assert (Hs : stop e = false).
      { eapply (probe_miss stop (entries t1) (2 ^ k) h d); eauto. }
      unfold stop in Hs. rewrite Hh, N.eqb_refl, Erel in Hs. discriminate. }
    assert (Hu : u32 (group_count t1 + 1) = group_count t1 + 1).
    { apply N.mod_small. change (2 ^ 32) with (4 * 2 ^ 30). lia. }
    eexists. split; [reflexivity|].
    constructor; cbn [entries group_count lf_num lf_den]; rewrite ?set_nth_length, ?Hlen, ?Hu.
    + exists k. auto.
    + apply (reach_insert (entries t1) (2 ^ k) p (mkEntry h i []) d Hreach Hempty); auto.
      intros d' Hd'. destruct (Hpath d' Hd') as (e' & He' & _). exists e'. exact He'.
    + rewrite E2, Hgc, E1, !app_length. simpl. lia.
    + split; [reflexivity | lia].
    + lia.
    + rewrite app_length. simpl. lia.
    + rewrite E2. rewrite E1 in C, Hnone. apply content_new; auto.
  - (* existing entry *)
    unfold idx. rewrite He. cbn [of_option obind].
    unfold stop in Hstop. destruct (ehash e =? h) eqn:Eh; [|discriminate].
    destruct (occ_set_nth (entries t1) p (Some e) He) as (l1 & l2 & E1 & E2).
    specialize (E2 (Some (upd e i))). simpl in E1, E2.
    eexists. split; [reflexivity|]. fold (upd e i).
    constructor; cbn [entries group_count lf_num lf_den]; rewrite ?set_nth_length, ?Hlen.
    + exists k. auto.
    + apply (reach_update (entries t1) (2 ^ k) p e (upd e i) Hreach He). reflexivity.
    + rewrite E2, Hgc, E1, !app_length. simpl. reflexivity.
    + rewrite <- Hlen. exact (i_lf _ _ I1).
    + lia.
    + rewrite app_length. simpl. lia.
    + rewrite E2. rewrite E1 in C. apply content_upd; auto.
Qed.

End Inv.
