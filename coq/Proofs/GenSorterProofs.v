(* Proofs/GenSorterProofs.v — tie T1 for the sorter: the definitions that tools/qf2coq/sorter.go generates
   from internal/sort/sorter.go (Gen/GenSorter.v, state passing over s : list nat, integers on Z, every loop a
   Fixpoint over its own counter) are equal to the hand-written loop-for-loop model of Model/Sort.v.

   Conventions of the statements.
   * Model positions are nat; the generated functions take Z: every statement injects the model's arguments
     with Z.of_nat ([zn]).  Results of doPivot are compared through [zpair].
   * Fuel.  gs_f fuel = (O => Panic | S fuel' => body); inside, every loop starts with fuel' as its counter and
     every call gets fuel'.  The model's own conventions (recursion on the trip count, on the counted variable
     itself, or on an explicit fuel that its callers choose) are related to it lemma by lemma; the headline
     statements say: for every fuel above the stated bound the generated function IS the model function.
   * There is no premise on the list, on lt, or on the range, except where stated (doPivot: 0 < hi and the
     arguments are Go ints; quickSort: the arguments are Go ints; Sort: the length is a Go int). *)
From QF Require Import Base.Prelude Gen.GenConsts Gen.GenSorter Model.Sort Proofs.SortProofs Proofs.SortSafe.

Notation zn := Z.of_nat (only parsing).

Definition ofmap {A B : Type} (f : A -> B) (o : outcome A) : outcome B :=
  match o with Ok a => Ok (f a) | Fail => Fail | Panic => Panic end.

Lemma obind_ret {A} (x : outcome A) : (do a <- x; Ok a) = x.
Proof. destruct x; reflexivity. Qed.

Lemma obind_assoc {A B C} (x : outcome A) (f : A -> outcome B) (g : B -> outcome C) :
  (do b <- (do a <- x; f a); g b) = (do a <- x; do b <- f a; g b).
Proof. destruct x; reflexivity. Qed.

Lemma gs_idx_nat s i : gs_idx s (zn i) = idx s i.
Proof. unfold gs_idx. replace (zn i <? 0)%Z with false by lia. rewrite Nat2Z.id. reflexivity. Qed.

Lemma gs_idx_neg s i : (i < 0)%Z -> gs_idx s i = Panic.
Proof. intros H. unfold gs_idx. replace (i <? 0)%Z with true by lia. reflexivity. Qed.

Lemma gs_less_z lt s i j i' j' : i = zn i' -> j = zn j' -> gs_less lt s i j = less lt s i' j'.
Proof. intros -> ->. unfold gs_less, less. rewrite !gs_idx_nat. reflexivity. Qed.

Lemma gs_swap_z s i j i' j' : i = zn i' -> j = zn j' -> gs_swap s i j = swap s i' j'.
Proof. intros -> ->. unfold gs_swap, swap. rewrite !gs_idx_nat, !Nat2Z.id. reflexivity. Qed.

(* rewrite the next generated Less / Swap into the model's, taking the nat arguments from the model side *)
Ltac less_step :=
  match goal with
  | |- context [gs_less ?lt ?s ?i ?j] =>
      match goal with
      | |- context [less lt s ?i' ?j'] => rewrite (gs_less_z lt s i j i' j') by (kunf; lia)
      end
  end.
Ltac swap_step :=
  match goal with
  | |- context [gs_swap ?s ?i ?j] =>
      match goal with
      | |- context [swap s ?i' ?j'] => rewrite (gs_swap_z s i j i' j') by (kunf; lia)
      end
  end.

(* one step of the lockstep walk through a generated body (left) and the model body (right) *)
Ltac sim1 :=
  match goal with
  | |- ?x = ?x => reflexivity
  | |- obind (Ok _) _ = _ => cbn [obind]
  | |- _ = obind (Ok _) _ => cbn [obind]
  | |- obind (obind _ _) _ = _ => rewrite obind_assoc
  | |- _ = obind (obind _ _) _ => rewrite obind_assoc
  | |- obind ?x (fun a => Ok a) = _ => rewrite (obind_ret x)
  | |- obind ?x _ = obind ?x _ => destruct x as [?| |]; [cbn [obind]|reflexivity|reflexivity]
  | |- obind ?x _ = ?x => rewrite (obind_ret x)
  | |- obind (gs_less _ _ _ _) _ = _ => less_step
  | |- obind (gs_swap _ _ _) _ = _ => swap_step
  | |- gs_swap _ _ _ = _ => swap_step
  | |- gs_less _ _ _ _ = _ => less_step
  | |- (if ?c then _ else _) = (if ?c then _ else _) => destruct c eqn:?
  | |- obind (if ?c then _ else _) _ = obind (if ?c then _ else _) _ => destruct c eqn:?
  | |- (if ?c then _ else _) = (if ?c' then _ else _) => replace c with c' by (kunf; lia)
  | |- obind (if ?c then _ else _) _ = obind (if ?c' then _ else _) _ => replace c with c' by (kunf; lia)
  end.
Ltac sim := cbv zeta; repeat sim1.

(* ================================================================== insertionSort *)
Section InsertionSort.
  Variable lt : nat -> nat -> bool.

  (* the inner loop: the model recurses on j itself, the generated loop on its counter *)
  Lemma ins_inner_eq : forall k a j s, j - a < k ->
    gs_insertionSort_loop1 lt k (zn a) (zn j) s = ins_inner lt a j s.
  Proof.
    induction k as [|k IH]; intros a j s Hk; [lia|].
    cbn [gs_insertionSort_loop1]. destruct j as [|j'].
    - cbn [ins_inner]. replace (zn a <? zn 0)%Z with false by lia. reflexivity.
    - cbn [ins_inner]. replace (zn a <? zn (S j'))%Z with (a <? S j') by lia.
      destruct (a <? S j') eqn:C; [|reflexivity].
      less_step. destruct (less lt s (S j') (S j' - k_is_prev)) as [c| |]; [|reflexivity|reflexivity].
      cbn [obind]. destruct c; [|reflexivity].
      swap_step. destruct (swap s (S j') (S j' - k_is_prev)) as [s'| |]; [|reflexivity|reflexivity].
      cbn [obind]. replace (zn (S j') - 1)%Z with (zn j') by lia. apply IH. lia.
  Qed.

  (* the outer loop: the model recurses on the number of iterations left *)
  Lemma ins_outer_eq f : forall k n a b i s, n = b - i -> b - i < k -> b - a <= f -> a <= i ->
    gs_insertionSort_loop2 lt f k (zn a) (zn b) (zn i) s = ins_outer lt n a i s.
  Proof.
    induction k as [|k IH]; intros n a b i s Hn Hk Hf Hai; [lia|].
    cbn [gs_insertionSort_loop2]. replace (zn i <? zn b)%Z with (i <? b) by lia.
    destruct (i <? b) eqn:C.
    - destruct n as [|n']; [lia|]. cbn [ins_outer].
      rewrite ins_inner_eq by lia.
      destruct (ins_inner lt a i s) as [s'| |]; [|reflexivity|reflexivity]. cbn [obind].
      replace (zn i + 1)%Z with (zn (S i)) by lia. apply IH; lia.
    - destruct n as [|n']; [|lia]. reflexivity.
  Qed.

  Theorem gs_insertionSort_eq fuel a b s : b - a + 2 <= fuel ->
    gs_insertionSort lt fuel (zn a) (zn b) s = insertion_sort lt a b s.
  Proof.
    intros Hf. destruct fuel as [|f]; [lia|]. unfold gs_insertionSort, insertion_sort. cbv zeta.
    rewrite obind_ret. kunf. replace (zn a + 1)%Z with (zn (a + 1)) by lia.
    apply ins_outer_eq; lia.
  Qed.
End InsertionSort.

(* ================================================================== siftDown *)
Section SiftDown.
  Variable lt : nat -> nat -> bool.

  (* the generated loop and the model's fuelled function run in lockstep on the same counter *)
  Lemma sift_loop_eq : forall k root hi first s,
    gs_siftDown_loop1 lt k (zn hi) (zn first) (zn root) s = sift_down lt k root hi first s.
  Proof.
    induction k as [|k IH]; intros root hi first s; [reflexivity|].
    cbn [gs_siftDown_loop1 sift_down]. cbv zeta. kunf.
    replace (zn hi <=? 2 * zn root + 1)%Z with (hi <=? 2 * root + 1) by lia.
    destruct (hi <=? 2 * root + 1) eqn:C; [reflexivity|].
    replace (2 * zn root + 1 + 1 <? zn hi)%Z with (2 * root + 1 + 1 <? hi) by lia.
    rewrite obind_assoc.
    assert (Tail : forall child, root < child ->
      (do t <- (do t <- gs_less lt s (zn first + zn root) (zn first + zn child); Ok (negb t));
       if t then Ok s
       else do s0 <- gs_swap s (zn first + zn root) (zn first + zn child);
            gs_siftDown_loop1 lt k (zn hi) (zn first) (zn child) s0)
      = (do c2 <- less lt s (first + root) (first + child);
         if negb c2 then Ok s
         else do s' <- swap s (first + root) (first + child); sift_down lt k child hi first s')).
    { intros child Hc. rewrite obind_assoc. less_step.
      destruct (less lt s (first + root) (first + child)) as [c2| |]; [|reflexivity|reflexivity].
      cbn [obind]. destruct (negb c2); [reflexivity|].
      swap_step. destruct (swap s (first + root) (first + child)) as [s'| |]; [|reflexivity|reflexivity].
      cbn [obind]. apply IH. }
    destruct (2 * root + 1 + 1 <? hi) eqn:C2.
    - less_step.
      destruct (less lt s (first + (2 * root + 1)) (first + (2 * root + 1) + 1)) as [c1| |];
        [|reflexivity|reflexivity].
      cbn [obind]. destruct c1; cbn [obind].
      + replace (2 * zn root + 1 + 1)%Z with (zn (S (2 * root + 1))) by lia. apply Tail. lia.
      + replace (2 * zn root + 1)%Z with (zn (2 * root + 1)) by lia. apply Tail. lia.
    - cbn [obind]. replace (2 * zn root + 1)%Z with (zn (2 * root + 1)) by lia. apply Tail. lia.
  Qed.

  (* fuel convention: generated fuel = model fuel + 1, for EVERY fuel (also an insufficient one) *)
  Theorem gs_siftDown_eq f lo hi first s :
    gs_siftDown lt (S f) (zn lo) (zn hi) (zn first) s = sift_down lt f lo hi first s.
  Proof. unfold gs_siftDown. cbv zeta. apply sift_loop_eq. Qed.

  (* the model's fuel is irrelevant above hi - root *)
  Lemma sift_down_fuel : forall f1 f2 root hi first s, hi - root < f1 -> hi - root < f2 ->
    sift_down lt f1 root hi first s = sift_down lt f2 root hi first s.
  Proof.
    induction f1 as [|f1 IH]; intros f2 root hi first s H1 H2; [lia|].
    destruct f2 as [|f2]; [lia|]. cbn [sift_down]. cbv zeta. kunf.
    destruct (hi <=? 2 * root + 1) eqn:C; [reflexivity|].
    destruct (if 2 * root + 1 + 1 <? hi
              then less lt s (first + (2 * root + 1)) (first + (2 * root + 1) + 1)
              else Ok false) as [c1| |]; [|reflexivity|reflexivity].
    cbn [obind].
    assert (Hc : root < (if c1 then S (2 * root + 1) else 2 * root + 1) < hi \/
                 (if c1 then S (2 * root + 1) else 2 * root + 1) = hi) by (destruct c1; lia).
    set (child := if c1 then S (2 * root + 1) else 2 * root + 1) in *.
    destruct (less lt s (first + root) (first + child)) as [c2| |]; [|reflexivity|reflexivity].
    cbn [obind]. destruct (negb c2); [reflexivity|].
    destruct (swap s (first + root) (first + child)) as [s'| |]; [|reflexivity|reflexivity].
    cbn [obind]. apply IH; lia.
  Qed.

  Corollary gs_siftDown_suff f f' lo hi first s : hi - lo + 2 <= f -> hi - lo < f' ->
    gs_siftDown lt f (zn lo) (zn hi) (zn first) s = sift_down lt f' lo hi first s.
  Proof.
    intros H H'. destruct f as [|f]; [lia|]. rewrite gs_siftDown_eq. apply sift_down_fuel; lia.
  Qed.
End SiftDown.

(* ================================================================== heapSort *)
Section HeapSort.
  Variable lt : nat -> nat -> bool.

  (* for i := (hi-1)/2; i >= 0; i-- : the model recurses on i+1 *)
  Lemma heap_build_eq f : forall k n hi first s, n < k -> hi + 2 <= f ->
    gs_heapSort_loop1 lt f k (zn first) (zn hi) (zn n - 1) s = heap_build lt n hi first s.
  Proof.
    induction k as [|k IH]; intros n hi first s Hk Hf; [lia|].
    cbn [gs_heapSort_loop1]. destruct n as [|n].
    - replace (0 <=? zn 0 - 1)%Z with false by lia. reflexivity.
    - replace (0 <=? zn (S n) - 1)%Z with true by lia. cbn [heap_build].
      replace (zn (S n) - 1)%Z with (zn n) by lia.
      rewrite (gs_siftDown_suff lt f (S hi)) by lia.
      destruct (sift_down lt (S hi) n hi first s) as [s'| |]; [|reflexivity|reflexivity].
      cbn [obind]. apply IH; lia.
  Qed.

  (* for i := hi - 1; i >= 0; i-- *)
  Lemma heap_pop_eq f : forall k n lo first s, n < k -> n + 2 <= f ->
    gs_heapSort_loop2 lt f k (zn first) (zn lo) (zn n - 1) s = heap_pop lt n lo first s.
  Proof.
    induction k as [|k IH]; intros n lo first s Hk Hf; [lia|].
    cbn [gs_heapSort_loop2]. destruct n as [|n].
    - replace (0 <=? zn 0 - 1)%Z with false by lia. reflexivity.
    - replace (0 <=? zn (S n) - 1)%Z with true by lia. cbn [heap_pop].
      replace (zn (S n) - 1)%Z with (zn n) by lia.
      swap_step. destruct (swap s first (first + n)) as [s1| |]; [|reflexivity|reflexivity].
      cbn [obind]. rewrite (gs_siftDown_suff lt f (S n)) by lia.
      destruct (sift_down lt (S n) lo n first s1) as [s2| |]; [|reflexivity|reflexivity].
      cbn [obind]. apply IH; lia.
  Qed.

  (* a counting-down loop entered with a negative counter does nothing *)
  Lemma heap_loop1_neg f k first hi i s : (i < 0)%Z -> gs_heapSort_loop1 lt f (S k) first hi i s = Ok s.
  Proof. intros H. cbn [gs_heapSort_loop1]. replace (0 <=? i)%Z with false by lia. reflexivity. Qed.
  Lemma heap_loop2_neg f k first lo i s : (i < 0)%Z -> gs_heapSort_loop2 lt f (S k) first lo i s = Ok s.
  Proof. intros H. cbn [gs_heapSort_loop2]. replace (0 <=? i)%Z with false by lia. reflexivity. Qed.

  Theorem gs_heapSort_eq fuel a b s : b - a + 4 <= fuel ->
    gs_heapSort lt fuel (zn a) (zn b) s = heap_sort lt a b s.
  Proof.
    intros Hf. destruct fuel as [|f]; [lia|]. unfold gs_heapSort, heap_sort. cbv zeta. kunf.
    destruct (Nat.le_gt_cases a b) as [Hab|Hab].
    - replace (zn b - zn a)%Z with (zn (b - a)) by lia.
      assert (E : Z.quot (zn (b - a) - 1) 2 = (zn (S ((b - a - 1) / 2)) - 1)%Z).
      { destruct (b - a) as [|h]; [reflexivity|].
        rewrite Z.quot_div_nonneg by lia. lia. }
      rewrite E. rewrite heap_build_eq by lia.
      destruct (heap_build lt (S ((b - a - 1) / 2)) (b - a) a s) as [s1| |]; [|reflexivity|reflexivity].
      cbn [obind]. rewrite obind_ret.
      assert (N : (if 1 <=? b - a then S (b - a - 1) else 0) = b - a)
        by (destruct (1 <=? b - a) eqn:C; lia).
      rewrite N. apply (heap_pop_eq f f (b - a) 0 a s1); lia.
    - (* b < a: hi is negative in Go, 0 in the model; nothing happens on either side *)
      replace (b - a) with 0 by lia. destruct f as [|f]; [lia|].
      assert (E : (Z.quot (zn b - zn a - 1) 2 < 0)%Z).
      { pose proof (Z.quot_rem' (zn b - zn a - 1) 2) as Q.
        pose proof (Z.rem_bound_pos_neg (zn b - zn a - 1) 2) as R. lia. }
      rewrite heap_loop1_neg by exact E. cbn [obind]. rewrite heap_loop2_neg by lia. reflexivity.
  Qed.
End HeapSort.

(* ================================================================== medianOfThree *)
Section Median.
  Variable lt : nat -> nat -> bool.

  (* no loop: one unit of fuel is enough, more changes nothing *)
  Theorem gs_medianOfThree_eq f m1 m0 m2 s :
    gs_medianOfThree lt (S f) (zn m1) (zn m0) (zn m2) s = median_of_three lt m1 m0 m2 s.
  Proof. unfold gs_medianOfThree, median_of_three. sim. Qed.
End Median.

(* ================================================================== maxDepth *)
Lemma max_depth_loop_eq : forall k i depth,
  gs_maxDepth_loop1 k (zn depth) (zn i) = ofmap zn (max_depth_loop k i depth).
Proof.
  induction k as [|k IH]; intros i depth; [reflexivity|].
  cbn [gs_maxDepth_loop1 max_depth_loop]. kunf.
  replace (0 <? zn i)%Z with (0 <? i) by lia.
  destruct (0 <? i) eqn:C; [|reflexivity].
  replace (zn depth + 1)%Z with (zn (S depth)) by lia.
  replace (Z.shiftr (zn i) 1) with (zn (i / 2)) by (rewrite Z.shiftr_div_pow2 by lia; change (2 ^ 1)%Z with 2%Z; lia).
  apply IH.
Qed.

Lemma max_depth_loop_fuel : forall f1 f2 i depth, i < f1 -> i < f2 ->
  max_depth_loop f1 i depth = max_depth_loop f2 i depth.
Proof.
  induction f1 as [|f1 IH]; intros f2 i depth H1 H2; [lia|]. destruct f2 as [|f2]; [lia|].
  cbn [max_depth_loop]. kunf. destruct (0 <? i) eqn:C; [|reflexivity]. apply IH; lia.
Qed.

Theorem gs_maxDepth_eq fuel n : n + 2 <= fuel ->
  gs_maxDepth fuel (zn n) = ofmap zn (max_depth n).
Proof.
  intros Hf. destruct fuel as [|f]; [lia|]. unfold gs_maxDepth, max_depth. cbv zeta.
  change 0%Z with (zn 0). rewrite max_depth_loop_eq.
  rewrite (max_depth_loop_fuel f (S n)) by lia.
  destruct (max_depth_loop (S n) n 0) as [d| |]; [|reflexivity|reflexivity].
  cbn [obind ofmap]. kunf. f_equal. lia.
Qed.

(* ================================================================== doPivot: the scanning loops *)
Lemma ofmap_bind {A B C} (f : B -> C) (x : outcome A) (g : A -> outcome B) :
  ofmap f (do a <- x; g a) = (do a <- x; ofmap f (g a)).
Proof. destruct x; reflexivity. Qed.

Lemma obind_ofmap {A B C} (f : A -> B) (x : outcome A) (g : B -> outcome C) :
  (do b <- ofmap f x; g b) = (do a <- x; g (f a)).
Proof. destruct x; reflexivity. Qed.

(* for ; i < bound && T(i); i++ {}  — any generated loop with this unfolding is the model's scan_up *)
Lemma scan_up_generic (L : nat -> Z -> outcome Z) (T : Z -> outcome bool) (test : nat -> outcome bool) bound :
  (forall x, L 0 x = Panic) ->
  (forall k x, L (S k) x =
     (do t <- (if (x <? zn bound)%Z then T x else Ok false); if t then L k (x + 1)%Z else Ok x)) ->
  (forall i, T (zn i) = test i) ->
  forall k km i, bound - i < k -> bound - i < km -> L k (zn i) = ofmap zn (scan_up km test i bound).
Proof.
  intros L0 LS HT. induction k as [|k IH]; intros km i Hk Hkm; [lia|]. destruct km as [|km]; [lia|].
  rewrite LS. cbn [scan_up]. replace (zn i <? zn bound)%Z with (i <? bound) by lia.
  destruct (i <? bound) eqn:C; [|reflexivity].
  rewrite HT. destruct (test i) as [r| |]; [|reflexivity|reflexivity]. cbn [obind].
  destruct r; [|reflexivity]. replace (zn i + 1)%Z with (zn (S i)) by lia. apply IH; lia.
Qed.

(* for ; bound < i && T(i); i-- {}  — the model's scan_down recurses on i itself *)
Lemma scan_down_generic (L : nat -> Z -> outcome Z) (T : Z -> outcome bool) (test : nat -> outcome bool) bound :
  (forall x, L 0 x = Panic) ->
  (forall k x, L (S k) x =
     (do t <- (if (zn bound <? x)%Z then T x else Ok false); if t then L k (x - 1)%Z else Ok x)) ->
  (forall i, bound < i -> T (zn i) = test i) ->
  forall k i, i - bound < k -> L k (zn i) = ofmap zn (scan_down test i bound).
Proof.
  intros L0 LS HT. induction k as [|k IH]; intros i Hk; [lia|].
  rewrite LS. destruct i as [|i].
  - cbn [scan_down]. replace (zn bound <? zn 0)%Z with false by lia. reflexivity.
  - cbn [scan_down]. replace (zn bound <? zn (S i))%Z with (bound <? S i) by lia.
    destruct (bound <? S i) eqn:C; [|reflexivity].
    rewrite HT by lia. destruct (test (S i)) as [r| |]; [|reflexivity|reflexivity]. cbn [obind].
    destruct r; [|reflexivity]. replace (zn (S i) - 1)%Z with (zn i) by lia. apply IH; lia.
Qed.

Lemma scan_up_range (test : nat -> outcome bool) bound : forall f i r,
  scan_up f test i bound = Ok r -> i <= r <= Nat.max i bound.
Proof.
  induction f as [|f IH]; intros i r E; [discriminate|]. cbn [scan_up] in E.
  destruct (i <? bound) eqn:C; [|injection E as <-; lia].
  destruct (test i) as [t| |]; [|discriminate|discriminate]. cbn [obind] in E.
  destruct t; [|injection E as <-; lia]. apply IH in E. lia.
Qed.

Lemma scan_down_range (test : nat -> outcome bool) bound : forall i r,
  scan_down test i bound = Ok r -> Nat.min i bound <= r <= i.
Proof.
  induction i as [|i IH]; intros r E; cbn [scan_down] in E; [injection E as <-; lia|].
  destruct (bound <? S i) eqn:C; [|injection E as <-; lia].
  destruct (test (S i)) as [t| |]; [|discriminate|discriminate]. cbn [obind] in E.
  destruct t; [|injection E as <-; lia]. apply IH in E. lia.
Qed.

Section PivotLoops.
  Variable lt : nat -> nat -> bool.

  Lemma dp_loop1_eq pivot c s : forall k km a, c - a < k -> c - a < km ->
    gs_doPivot_loop1 lt k (zn pivot) (zn a) (zn c) s = ofmap zn (scan_up km (fun a => less lt s a pivot) a c).
  Proof.
    apply (scan_up_generic (fun k x => gs_doPivot_loop1 lt k (zn pivot) x (zn c) s)
             (fun x => gs_less lt s x (zn pivot))); [reflexivity|reflexivity|].
    intros i. apply gs_less_z; reflexivity.
  Qed.

  Lemma dp_loop6_eq pivot b s : forall k km a, b - a < k -> b - a < km ->
    gs_doPivot_loop6 lt k (zn pivot) (zn a) (zn b) s = ofmap zn (scan_up km (fun a => less lt s a pivot) a b).
  Proof.
    apply (scan_up_generic (fun k x => gs_doPivot_loop6 lt k (zn pivot) x (zn b) s)
             (fun x => gs_less lt s x (zn pivot))); [reflexivity|reflexivity|].
    intros i. apply gs_less_z; reflexivity.
  Qed.

  Lemma dp_loop2_eq pivot c s : forall k km b, c - b < k -> c - b < km ->
    gs_doPivot_loop2 lt k (zn pivot) (zn c) (zn b) s
    = ofmap zn (scan_up km (fun b => do r <- less lt s pivot b; Ok (negb r)) b c).
  Proof.
    apply (scan_up_generic (fun k x => gs_doPivot_loop2 lt k (zn pivot) (zn c) x s)
             (fun x => do t <- gs_less lt s (zn pivot) x; Ok (negb t))); [reflexivity|reflexivity|].
    intros i. rewrite (gs_less_z lt s (zn pivot) (zn i) pivot i) by reflexivity. reflexivity.
  Qed.

  Lemma dp_loop3_eq pivot b s : forall k c, c - b < k ->
    gs_doPivot_loop3 lt k (zn pivot) (zn c) (zn b) s
    = ofmap zn (scan_down (fun c => less lt s pivot (c - k_one_g)) c b).
  Proof.
    apply (scan_down_generic (fun k x => gs_doPivot_loop3 lt k (zn pivot) x (zn b) s)
             (fun x => gs_less lt s (zn pivot) (x - 1)%Z)); [reflexivity|reflexivity|].
    intros i Hi. apply gs_less_z; kunf; lia.
  Qed.

  Lemma dp_loop5_eq pivot a s : forall k b, b - a < k ->
    gs_doPivot_loop5 lt k (zn pivot) (zn a) (zn b) s
    = ofmap zn (scan_down (fun b => do r <- less lt s (b - k_one_m) pivot; Ok (negb r)) b a).
  Proof.
    apply (scan_down_generic (fun k x => gs_doPivot_loop5 lt k (zn pivot) (zn a) x s)
             (fun x => do t <- gs_less lt s (x - 1)%Z (zn pivot); Ok (negb t))); [reflexivity|reflexivity|].
    intros i Hi. rewrite (gs_less_z lt s (zn i - 1)%Z (zn pivot) (i - k_one_m) pivot) by (kunf; lia).
    reflexivity.
  Qed.
End PivotLoops.

(* ================================================================== doPivot: the partition and the protection loop *)
Definition zcbs (r : nat * nat * list nat) : Z * Z * list nat := let '(b, c, s) := r in (zn c, zn b, s).
Definition zpair (r : nat * nat * list nat) : Z * Z * list nat := let '(a, b, s) := r in (zn a, zn b, s).
Definition zdups (r : bool * nat * nat * list nat) : Z * Z * bool * list nat :=
  let '(p, b, c, s) := r in (zn c, zn b, p, s).

Section PivotMain.
  Variable lt : nat -> nat -> bool.

  Lemma dp_main_range pivot : forall f b c s b' c' s',
    dp_main lt f pivot b c s = Ok (b', c', s') ->
    b <= b' <= Nat.max b c /\ Nat.min b c <= c' <= c /\ c' <= b'.
  Proof.
    induction f as [|f IH]; intros b c s b' c' s' E; [discriminate|]. cbn [dp_main] in E.
    destruct (scan_up (S c) (fun b0 => do r <- less lt s pivot b0; Ok (negb r)) b c) as [b1| |] eqn:E1;
      [|discriminate|discriminate].
    apply scan_up_range in E1. cbn [obind] in E.
    destruct (scan_down (fun c0 => less lt s pivot (c0 - k_one_g)) c b1) as [c1| |] eqn:E2;
      [|discriminate|discriminate].
    apply scan_down_range in E2. cbn [obind] in E.
    destruct (c1 <=? b1) eqn:C.
    - injection E as <- <- <-. lia.
    - destruct (swap s b1 (c1 - k_one_h)) as [s1| |]; [|discriminate|discriminate]. cbn [obind] in E.
      apply IH in E. lia.
  Qed.

  Lemma dp_main_eq f pivot : forall k km b c s, c - b < k -> c - b < km -> c - b < f ->
    gs_doPivot_loop4 lt f k (zn pivot) (zn c) (zn b) s = ofmap zcbs (dp_main lt km pivot b c s).
  Proof.
    induction k as [|k IH]; intros km b c s Hk Hkm Hf; [lia|]. destruct km as [|km]; [lia|].
    cbn [gs_doPivot_loop4 dp_main].
    rewrite (dp_loop2_eq lt pivot c s f (S c)) by lia. rewrite obind_ofmap, ofmap_bind.
    destruct (scan_up (S c) (fun b0 => do r <- less lt s pivot b0; Ok (negb r)) b c) as [b1| |] eqn:E1;
      [|reflexivity|reflexivity].
    apply scan_up_range in E1. cbn [obind].
    rewrite dp_loop3_eq by lia. rewrite obind_ofmap, ofmap_bind.
    destruct (scan_down (fun c0 => less lt s pivot (c0 - k_one_g)) c b1) as [c1| |] eqn:E2;
      [|reflexivity|reflexivity].
    apply scan_down_range in E2. cbn [obind].
    replace (zn c1 <=? zn b1)%Z with (c1 <=? b1) by lia.
    destruct (c1 <=? b1) eqn:C; [reflexivity|].
    rewrite ofmap_bind. swap_step.
    destruct (swap s b1 (c1 - k_one_h)) as [s1| |]; [|reflexivity|reflexivity]. cbn [obind].
    replace (zn c1 - 1)%Z with (zn (c1 - 1)) by lia. replace (zn b1 + 1)%Z with (zn (S b1)) by lia.
    apply IH; lia.
  Qed.

  Lemma dp_protect_range pivot : forall f a b s a' b' s',
    dp_protect lt f pivot a b s = Ok (a', b', s') -> a <= a' /\ Nat.min a b <= b' <= b.
  Proof.
    induction f as [|f IH]; intros a b s a' b' s' E; [discriminate|]. cbn [dp_protect] in E.
    destruct (scan_down (fun b0 => do r <- less lt s (b0 - k_one_m) pivot; Ok (negb r)) b a) as [b1| |] eqn:E1;
      [|discriminate|discriminate].
    apply scan_down_range in E1. cbn [obind] in E.
    destruct (scan_up (S b1) (fun a0 => less lt s a0 pivot) a b1) as [a1| |] eqn:E2;
      [|discriminate|discriminate].
    apply scan_up_range in E2. cbn [obind] in E.
    destruct (b1 <=? a1) eqn:C.
    - injection E as <- <- <-. lia.
    - destruct (swap s a1 (b1 - k_one_n)) as [s1| |]; [|discriminate|discriminate]. cbn [obind] in E.
      apply IH in E. lia.
  Qed.

  Lemma dp_protect_eq f pivot : forall k km a b s, b - a < k -> b - a < km -> b - a < f ->
    gs_doPivot_loop7 lt f k (zn pivot) (zn a) (zn b) s = ofmap zpair (dp_protect lt km pivot a b s).
  Proof.
    induction k as [|k IH]; intros km a b s Hk Hkm Hf; [lia|]. destruct km as [|km]; [lia|].
    cbn [gs_doPivot_loop7 dp_protect].
    rewrite dp_loop5_eq by lia. rewrite obind_ofmap, ofmap_bind.
    destruct (scan_down (fun b0 => do r <- less lt s (b0 - k_one_m) pivot; Ok (negb r)) b a) as [b1| |] eqn:E1;
      [|reflexivity|reflexivity].
    apply scan_down_range in E1. cbn [obind].
    rewrite (dp_loop6_eq lt pivot b1 s f (S b1)) by lia. rewrite obind_ofmap, ofmap_bind.
    destruct (scan_up (S b1) (fun a0 => less lt s a0 pivot) a b1) as [a1| |] eqn:E2;
      [|reflexivity|reflexivity].
    apply scan_up_range in E2. cbn [obind].
    replace (zn b1 <=? zn a1)%Z with (b1 <=? a1) by lia.
    destruct (b1 <=? a1) eqn:C; [reflexivity|].
    rewrite ofmap_bind. swap_step.
    destruct (swap s a1 (b1 - k_one_n)) as [s1| |]; [|reflexivity|reflexivity]. cbn [obind].
    replace (zn b1 - 1)%Z with (zn (b1 - 1)) by lia. replace (zn a1 + 1)%Z with (zn (S a1)) by lia.
    apply IH; lia.
  Qed.
End PivotMain.

(* ================================================================== doPivot *)
Lemma gs_mot_z lt f m1 m0 m2 n1 n0 n2 s : 1 <= f -> m1 = zn n1 -> m0 = zn n0 -> m2 = zn n2 ->
  gs_medianOfThree lt f m1 m0 m2 s = median_of_three lt n1 n0 n2 s.
Proof. intros Hf -> -> ->. destruct f as [|f]; [lia|]. apply gs_medianOfThree_eq. Qed.

Ltac mot_step :=
  match goal with
  | |- context [gs_medianOfThree ?lt ?f ?a ?b ?c ?s] =>
      match goal with
      | |- context [median_of_three lt ?a' ?b' ?c' s] =>
          rewrite (gs_mot_z lt f a b c a' b' c' s) by (kunf; lia)
      end
  end.

Ltac sim2 :=
  match goal with
  | |- _ = ofmap _ (obind _ _) => rewrite ofmap_bind
  | |- obind (gs_medianOfThree _ _ _ _ _ _) _ = _ => mot_step
  | |- gs_medianOfThree _ _ _ _ _ _ = _ => mot_step
  | |- context [if negb ?r then _ else _] => is_var r; destruct r; cbn [negb]
  | |- context [match ?v with pair _ _ => _ end] => is_var v; destruct v
  | _ => sim1
  end.
Ltac simx := cbv zeta; repeat sim2.

Lemma dp_dups_range lt lo hi m b c s p b' c' s' :
  dp_dups lt lo hi m b c s = Ok (p, b', c', s') -> b - 2 <= b' <= b /\ c <= c' <= S c.
Proof.
  unfold dp_dups. kunf. intros E.
  repeat match type of E with
         | obind (obind _ _) _ = _ => rewrite obind_assoc in E
         | obind (Ok _) _ = _ => cbn [obind] in E
         | obind (if negb ?r then _ else _) _ = _ => destruct r; cbn [negb] in E
         | (let '(_, _) := (if negb ?r then _ else _) in _) = _ => destruct r; cbn [negb] in E
         | obind ?x _ = _ => destruct x as [?| |]; cbn [obind] in E; try discriminate
         end.
  all: injection E as <- <- <- <-; lia.
Qed.

Section Pivot.
  Variable lt : nat -> nat -> bool.

  Theorem gs_doPivot_eq fuel lo hi s : lo < hi -> (zn hi < 9223372036854775808)%Z -> hi - lo + 3 <= fuel ->
    gs_doPivot lt fuel (zn lo) (zn hi) s = ofmap zpair (do_pivot lt lo hi s).
  Proof.
    intros Hlh Hint Hf. destruct fuel as [|f]; [lia|]. unfold gs_doPivot, do_pivot, dp_choose_pivot.
    cbv zeta. kunf.
    assert (Em : gs_int (Z.shiftr (gs_uint (zn lo + zn hi)) 1) = zn ((lo + hi) / 2)).
    { unfold gs_int, gs_uint. rewrite (Z.mod_small (zn lo + zn hi)) by lia.
      rewrite Z.shiftr_div_pow2 by lia. change (2 ^ 1)%Z with 2%Z.
      rewrite Z.mod_small by lia. lia. }
    rewrite Em. clear Em.
    rewrite !Z.quot_div_nonneg by lia.
    replace ((zn hi - zn lo) / 8)%Z with (zn ((hi - lo) / 8)) by lia.
    replace ((zn hi - zn lo) / 4)%Z with (zn ((hi - lo) / 4)) by lia.
    replace (zn lo + 1)%Z with (zn (lo + 1)) by lia. replace (zn hi - 1)%Z with (zn (hi - 1)) by lia.
    rewrite ofmap_bind, obind_assoc.
    replace (40 <? zn hi - zn lo)%Z with (40 <? hi - lo) by lia.
    (* Tukey's ninther *)
    match goal with |- obind ?G _ = obind ?M _ => assert (E0 : G = M) end.
    { destruct (40 <? hi - lo) eqn:C40; [|reflexivity]. simx. }
    rewrite E0. clear E0.
    match goal with |- obind ?M _ = obind ?M _ => destruct M as [s0| |]; [cbn [obind]|reflexivity|reflexivity] end.
    mot_step.
    destruct (median_of_three lt lo ((lo + hi) / 2) (hi - 1) s0) as [s1| |]; [cbn [obind]|reflexivity|reflexivity].
    (* the first scan *)
    rewrite ofmap_bind.
    rewrite (dp_loop1_eq lt lo (hi - 1) s1 f (S (hi - 1))) by lia. rewrite obind_ofmap.
    destruct (scan_up (S (hi - 1)) (fun a0 => less lt s1 a0 lo) (lo + 1) (hi - 1)) as [a1| |] eqn:E1;
      [cbn [obind]|reflexivity|reflexivity].
    apply scan_up_range in E1.
    (* the partition loop *)
    rewrite ofmap_bind.
    rewrite (dp_main_eq lt f lo f (S hi)) by lia. rewrite obind_ofmap.
    destruct (dp_main lt (S hi) lo a1 (hi - 1) s1) as [[[b1 c1] s2]| |] eqn:E2;
      [cbn [obind zcbs]|reflexivity|reflexivity].
    apply dp_main_range in E2.
    (* the duplicates test *)
    rewrite ofmap_bind.
    replace (negb (zn hi - zn c1 <? 5)%Z && (zn hi - zn c1 <? zn ((hi - lo) / 4))%Z)
      with (negb (hi - c1 <? 5) && (hi - c1 <? (hi - lo) / 4)) by lia.
    replace (zn hi - zn c1 <? 5)%Z with (hi - c1 <? 5) by lia.
    match goal with |- obind ?G _ = obind ?M _ => assert (ED : G = ofmap zdups M) end.
    { destruct (negb (hi - c1 <? 5) && (hi - c1 <? (hi - lo) / 4)) eqn:CD; [|reflexivity].
      unfold dp_dups. kunf. simx.
      all: cbn [ofmap zdups]; repeat f_equal; lia. }
    rewrite ED. clear ED. rewrite obind_ofmap.
    match goal with |- obind ?M _ = obind ?M _ =>
      destruct M as [[[[p b2] c2] s3]| |] eqn:ED; [cbn [obind zdups]|reflexivity|reflexivity] end.
    assert (R2 : lo + 1 <= b2 <= b1 /\ c1 <= c2 <= S c1).
    { destruct (negb (hi - c1 <? 5) && (hi - c1 <? (hi - lo) / 4)) eqn:CD.
      - apply dp_dups_range in ED. lia.
      - injection ED as <- <- <- <-. lia. }
    clear ED.
    (* the protection loop and the final swap *)
    assert (Fin : forall b3 s4, lo + 1 <= b3 ->
      (do s5 <- gs_swap s4 (zn lo) (zn b3 - 1); Ok ((zn b3 - 1)%Z, zn c2, s5))
      = ofmap zpair (do s5 <- swap s4 lo (b3 - 1); Ok (b3 - 1, c2, s5))).
    { intros b3 s4 Hb3. rewrite ofmap_bind. swap_step.
      destruct (swap s4 lo (b3 - 1)) as [s5| |]; [cbn [obind ofmap zpair]|reflexivity|reflexivity].
      repeat f_equal; lia. }
    rewrite ofmap_bind. destruct p.
    - rewrite obind_assoc. rewrite (dp_protect_eq lt f lo f (S hi)) by lia. rewrite obind_ofmap.
      destruct (dp_protect lt (S hi) lo a1 b2 s3) as [[[a3 b3] s4]| |] eqn:E3;
        [cbn [obind zpair]|reflexivity|reflexivity].
      apply dp_protect_range in E3. apply Fin. lia.
    - cbn [obind]. apply Fin. lia.
  Qed.

  (* the ranges of the answer, for every list and every lt (an Ok answer means that hi - 1 was read) *)
  Lemma median_ok_len m1 m0 m2 s s' : median_of_three lt m1 m0 m2 s = Ok s' ->
    length s' = length s /\ m2 < length s.
  Proof.
    assert (Hless : forall s i j c, less lt s i j = Ok c -> i < length s /\ j < length s).
    { intros s0 i j c E. unfold less, idx in E.
      destruct (nth_error s0 i) eqn:Ei; [|discriminate]. cbn [of_option obind] in E.
      destruct (nth_error s0 j) eqn:Ej; [|discriminate].
      split; apply nth_error_Some; congruence. }
    assert (Hswap : forall s i j s1, swap s i j = Ok s1 -> length s1 = length s).
    { intros s0 i j s1 E. unfold swap in E.
      destruct (idx s0 i); [|discriminate|discriminate]. cbn [obind] in E.
      destruct (idx s0 j); [|discriminate|discriminate]. cbn [obind] in E.
      injection E as <-. rewrite !set_nth_length. reflexivity. }
    unfold median_of_three. intros E.
    destruct (less lt s m1 m0) as [c1| |] eqn:L1; [|discriminate|discriminate]. cbn [obind] in E.
    assert (exists s1, (if c1 then swap s m1 m0 else Ok s) = Ok s1 /\ length s1 = length s /\
              (do c2 <- less lt s1 m2 m1;
               if c2 then do s2 <- swap s1 m2 m1; do c3 <- less lt s2 m1 m0; if c3 then swap s2 m1 m0 else Ok s2
               else Ok s1) = Ok s') as (s1 & _ & Len1 & E').
    { destruct c1.
      - destruct (swap s m1 m0) as [s1| |] eqn:S1; [|discriminate|discriminate].
        exists s1. split; [reflexivity|]. split; [eapply Hswap; eassumption|exact E].
      - exists s. split; [reflexivity|]. split; [reflexivity|exact E]. }
    clear E. destruct (less lt s1 m2 m1) as [c2| |] eqn:L2; [|discriminate|discriminate].
    cbn [obind] in E'. apply Hless in L2. destruct c2.
    - destruct (swap s1 m2 m1) as [s2| |] eqn:S2; [|discriminate|discriminate]. cbn [obind] in E'.
      apply Hswap in S2.
      destruct (less lt s2 m1 m0) as [c3| |]; [|discriminate|discriminate]. cbn [obind] in E'.
      destruct c3.
      + apply Hswap in E'. lia.
      + injection E' as <-. lia.
    - injection E' as <-. lia.
  Qed.

  Lemma do_pivot_ok_range lo hi s mlo mhi s' : 12 < hi - lo ->
    do_pivot lt lo hi s = Ok (mlo, mhi, s') -> lo <= mlo < hi /\ lo < mhi <= hi.
  Proof.
    intros Hn E.
    assert (Hh : hi <= length s).
    { unfold do_pivot, dp_choose_pivot in E. cbv zeta in E. rewrite obind_assoc in E.
      match type of E with obind ?X _ = _ => destruct X as [s0| |] eqn:E0; [|discriminate|discriminate] end.
      cbn [obind] in E.
      match type of E with obind ?X _ = _ => destruct X as [s1| |] eqn:E1; [|discriminate|discriminate] end.
      apply median_ok_len in E1. kunf.
      assert (length s0 = length s); [|lia].
      destruct (40 <? hi - lo); [|injection E0 as <-; reflexivity].
      match type of E0 with obind ?X _ = _ => destruct X as [t1| |] eqn:T1; [|discriminate|discriminate] end.
      cbn [obind] in E0.
      match type of E0 with obind ?X _ = _ => destruct X as [t2| |] eqn:T2; [|discriminate|discriminate] end.
      cbn [obind] in E0.
      apply median_ok_len in T1, T2, E0. lia. }
    destruct (do_pivot_safe lt lo hi s) as (mlo' & mhi' & s'' & E' & _ & R1 & R2); [unfold k_ins_max in *; lia|lia|].
    rewrite E in E'. injection E' as <- <- <-. lia.
  Qed.
End Pivot.

(* ================================================================== quickSort *)
Section Quick.
  Variable lt : nat -> nat -> bool.

  (* the ShellSort pass with gap 6: the model recurses on the number of iterations left *)
  Lemma shell_pass_eq : forall k n b i s, n = b - i -> b - i < k -> 6 <= i ->
    gs_quickSort_loop1 lt k (zn b) (zn i) s = shell_pass lt n i s.
  Proof.
    induction k as [|k IH]; intros n b i s Hn Hk Hi; [lia|].
    cbn [gs_quickSort_loop1]. replace (zn i <? zn b)%Z with (i <? b) by lia.
    destruct (i <? b) eqn:C.
    - destruct n as [|n']; [lia|]. cbn [shell_pass]. kunf.
      rewrite obind_assoc. less_step.
      destruct (less lt s i (i - 6)) as [c| |]; [cbn [obind]|reflexivity|reflexivity].
      assert (E : (if c then do s0 <- gs_swap s (zn i) (zn i - 6); Ok s0 else Ok s)
                  = (if c then swap s i (i - 6) else Ok s)).
      { destruct c; [|reflexivity]. rewrite obind_ret. apply gs_swap_z; lia. }
      rewrite E. clear E.
      destruct (if c then swap s i (i - 6) else Ok s) as [s'| |]; [cbn [obind]|reflexivity|reflexivity].
      replace (zn i + 1)%Z with (zn (S i)) by lia. apply IH; lia.
    - destruct n as [|n']; [|lia]. reflexivity.
  Qed.

  (* n is a Go int *)
  Local Notation go_int n := (zn n < 9223372036854775808)%Z (only parsing).

  (* the loop of quickSort (with the statements that follow it), for any [self] that is the model on the
     ranges the recursive calls can reach *)
  Lemma qs_loop_eq (self : Z -> Z -> Z -> list nat -> outcome (list nat)) f :
    (forall a b d s fm, b - a + 5 <= f -> b - a < fm -> go_int b ->
       self (zn a) (zn b) (zn d) s = quick_sort lt fm a b d s) ->
    forall k a b d s fm, b - a < k -> b - a < fm -> b - a + 4 <= f -> go_int b ->
      gs_quickSort_loop2 lt self f k (zn a) (zn b) (zn d) s = quick_sort lt fm a b d s.
  Proof.
    intros Hself. induction k as [|k IH]; intros a b d s fm Hk Hfm Hf Hb; [lia|].
    destruct fm as [|fm]; [lia|]. cbn [gs_quickSort_loop2 quick_sort]. kunf.
    replace (12 <? zn b - zn a)%Z with (12 <? b - a) by lia.
    destruct (12 <? b - a) eqn:C12.
    - replace (zn d =? 0)%Z with (d =? 0) by lia.
      destruct (d =? 0) eqn:Cd.
      + rewrite obind_ret. apply gs_heapSort_eq. lia.
      + cbv zeta. rewrite gs_doPivot_eq by lia. rewrite obind_ofmap.
        destruct (do_pivot lt a b s) as [[[mlo mhi] s1]| |] eqn:EP; [cbn [obind zpair]|reflexivity|reflexivity].
        apply do_pivot_ok_range in EP; [|unfold k_ins_max; lia].
        replace (zn mlo - zn a <? zn b - zn mhi)%Z with (mlo - a <? b - mhi) by lia.
        replace (zn d - 1)%Z with (zn (d - 1)) by lia.
        destruct (mlo - a <? b - mhi) eqn:Cs.
        * rewrite obind_assoc. rewrite (Hself a mlo (d - 1) s1 fm) by lia.
          destruct (quick_sort lt fm a mlo (d - 1) s1) as [s2| |]; [cbn [obind]|reflexivity|reflexivity].
          apply IH; lia.
        * rewrite obind_assoc. rewrite (Hself mhi b (d - 1) s1 fm) by lia.
          destruct (quick_sort lt fm mhi b (d - 1) s1) as [s2| |]; [cbn [obind]|reflexivity|reflexivity].
          apply IH; lia.
    - rewrite obind_ret. replace (1 <? zn b - zn a)%Z with (1 <? b - a) by lia.
      destruct (1 <? b - a) eqn:C1; [|reflexivity].
      replace (zn a + 6)%Z with (zn (a + 6)) by lia.
      rewrite (shell_pass_eq f (b - (a + 6))) by lia.
      destruct (shell_pass lt (b - (a + 6)) (a + 6) s) as [s1| |]; [cbn [obind]|reflexivity|reflexivity].
      rewrite obind_ret. apply gs_insertionSort_eq. lia.
  Qed.

  Theorem gs_quickSort_eq : forall fuel a b d s fm, b - a + 5 <= fuel -> b - a < fm -> go_int b ->
    gs_quickSort lt fuel (zn a) (zn b) (zn d) s = quick_sort lt fm a b d s.
  Proof.
    induction fuel as [|f IH]; intros a b d s fm Hf Hfm Hb; [lia|].
    cbn [gs_quickSort]. apply qs_loop_eq; try lia.
    intros a' b' d' s' fm' H1 H2 H3. apply IH; assumption.
  Qed.

  (* the model's own fuel is irrelevant above b - a (instance of the above at two model fuels) *)
  Corollary quick_sort_fuel a b d s f1 f2 : b - a < f1 -> b - a < f2 -> go_int b ->
    quick_sort lt f1 a b d s = quick_sort lt f2 a b d s.
  Proof.
    intros H1 H2 Hb. rewrite <- (gs_quickSort_eq (b - a + 5) a b d s f1) by lia.
    apply gs_quickSort_eq; lia.
  Qed.

  Theorem gs_Sort_eq fuel ids : length ids + 6 <= fuel -> go_int (length ids) ->
    gs_Sort lt fuel ids = sort_ids lt ids.
  Proof.
    intros Hf Hl. destruct fuel as [|f]; [lia|]. unfold gs_Sort, sort_ids. cbv zeta.
    rewrite gs_maxDepth_eq by lia. rewrite obind_ofmap.
    destruct (max_depth (length ids)) as [d| |]; [cbn [obind]|reflexivity|reflexivity].
    rewrite obind_ret. change 0%Z with (zn 0).
    apply gs_quickSort_eq; lia.
  Qed.
End Quick.

(* ================================================================== what the tie buys *)
(* the correctness theorem of property C03 (proved about Model/Sort.v) read on the translated Go text *)
From QF Require Proofs.SortQuickSorted.

Corollary gs_Sort_correct lt fuel ids :
  strict_weak_order lt -> length ids + 6 <= fuel -> (zn (length ids) < 9223372036854775808)%Z ->
  exists out, gs_Sort lt fuel ids = Ok out /\ Permutation out ids /\
    forall i j a b, i < j -> nth_error out i = Some a -> nth_error out j = Some b -> lt b a = false.
Proof.
  intros W Hf Hl. rewrite gs_Sort_eq by assumption. exact (SortQuickSorted.sort_ids_correct lt W ids).
Qed.

(* and for ANY lt (an inconsistent one included) the translated Sort does not panic *)
Corollary gs_Sort_no_panic lt fuel ids :
  length ids + 6 <= fuel -> (zn (length ids) < 9223372036854775808)%Z ->
  exists out, gs_Sort lt fuel ids = Ok out /\ length out = length ids.
Proof. intros Hf Hl. rewrite gs_Sort_eq by assumption. exact (sort_ids_safe lt ids). Qed.
