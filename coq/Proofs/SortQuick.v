(* Proofs/SortQuick.v — lemmas about Model/Sort.v, part 4: the partition post-condition of doPivot
   for a strict weak order [lt].

     do_pivot lt lo hi s = Ok (mlo, mhi, s')   with   lo <= mlo < mhi <= hi   and, for pv = s'[mlo],
       s'[lo, mlo)  <= pv        s'[mlo, mhi)  equivalent to pv        s'[mhi, hi)  >= pv,
     nothing outside [lo, hi) moves and every value of s'[lo, hi) was a value of s[lo, hi).

   The loop invariants are the ones written as comments in sorter.go (Go standard library), in the
   weakened form that is enough for sortedness:
       data[lo] = pivot, data[lo <= i < b] <= pivot, data[b <= i < c] = pivot, data[c <= i < hi] >= pivot.
   medianOfThree is only used for  data[lo] <= data[hi-1]  (the pivot need not be a median). *)
From QF Require Import Base.Prelude Model.Sort Proofs.SortProofs Proofs.SortSafe Proofs.SortSorted.

(* ------------------------------------------------------------------ ranges and frames *)
Definition all_in (s : list nat) (x y : nat) (P : nat -> Prop) : Prop :=
  forall p, x <= p -> p < y -> P (nth p s 0).

(* s' differs from s only inside [a, b) and holds there only values that s held there *)
Definition rframe (a b : nat) (s s' : list nat) : Prop :=
  length s' = length s /\
  (forall q, q < a \/ b <= q -> nth q s' 0 = nth q s 0) /\
  (forall p, a <= p -> p < b -> exists p', a <= p' /\ p' < b /\ nth p s' 0 = nth p' s 0).

Lemma rframe_refl a b s : rframe a b s s.
Proof. split; [reflexivity|]. split; [reflexivity|]. intros p H1 H2. exists p. auto. Qed.

Lemma rframe_trans a b s1 s2 s3 : rframe a b s1 s2 -> rframe a b s2 s3 -> rframe a b s1 s3.
Proof.
  intros (L1 & U1 & F1) (L2 & U2 & F2). split; [congruence|]. split.
  - intros q Hq. rewrite U2, U1; auto.
  - intros p Hp1 Hp2. destruct (F2 p Hp1 Hp2) as (p' & Hp1' & Hp2' & E').
    destruct (F1 p' Hp1' Hp2') as (p'' & Hp1'' & Hp2'' & E'').
    exists p''. repeat split; auto. congruence.
Qed.

Lemma rframe_mono a b a' b' s s' : a' <= a -> b <= b' -> rframe a b s s' -> rframe a' b' s s'.
Proof.
  intros Ha Hb (L & U & F). split; [exact L|]. split.
  - intros q Hq. apply U. lia.
  - intros p Hp1 Hp2. destruct (le_lt_dec a p) as [H1|H1]; [destruct (le_lt_dec b p) as [H2|H2]|].
    + exists p. repeat split; auto; apply U; lia.
    + destruct (F p H1 H2) as (p' & Hp1' & Hp2' & E'). exists p'. repeat split; auto; lia.
    + exists p. repeat split; auto; apply U; lia.
Qed.

Lemma rframe_swap a b s i j : a <= i -> i < b -> a <= j -> j < b -> b <= length s ->
  rframe a b s (swapl s i j).
Proof.
  intros Hi1 Hi2 Hj1 Hj2 Hl. split; [apply swapl_length|]. split.
  - intros q Hq. rewrite nth_swapl by lia.
    destruct (Nat.eqb_spec q j); [lia|]. destruct (Nat.eqb_spec q i); [lia|]. reflexivity.
  - intros p Hp1 Hp2. rewrite nth_swapl by lia.
    destruct (Nat.eqb_spec p j); [exists i; auto|].
    destruct (Nat.eqb_spec p i); [exists j; auto|]. exists p; auto.
Qed.

(* a property of all values of a range survives when the frame is inside or beside the range *)
Lemma rframe_all a b x y s s' (P : nat -> Prop) : rframe a b s s' ->
  (b <= x \/ y <= a \/ (x <= a /\ b <= y)) -> all_in s x y P -> all_in s' x y P.
Proof.
  intros (L & U & F) Hc H p Hp1 Hp2.
  destruct (le_lt_dec a p) as [H1|H1]; [destruct (le_lt_dec b p) as [H2|H2]|].
  - rewrite U by lia. apply H; auto.
  - destruct (F p H1 H2) as (p' & Hp1' & Hp2' & ->). apply H; lia.
  - rewrite U by lia. apply H; auto.
Qed.

Lemma rframe_nth a b s s' q : rframe a b s s' -> q < a \/ b <= q -> nth q s' 0 = nth q s 0.
Proof. intros (_ & U & _). apply U. Qed.

Lemma rframe_length a b s s' : rframe a b s s' -> length s' = length s.
Proof. intros (L & _). exact L. Qed.

Ltac len := rewrite ?swapl_length in *; lia.
Ltac swc :=
  rewrite ?nth_swapl by len;
  repeat match goal with
         | |- context [?x =? ?y] => destruct (Nat.eqb_spec x y)
         end; try lia.

Section Quick.
  Variable lt : nat -> nat -> bool.
  Hypothesis W : strict_weak_order lt.

  Local Notation lee := (SortSorted.le lt).

  (* x is neither smaller nor larger than pv *)
  Definition eqv (pv x : nat) : Prop := lee x pv /\ lee pv x.

  Lemma eqv_refl pv : eqv pv pv.
  Proof. split; apply (le_refl lt W). Qed.

  (* ---------------------------------------------------------------- medianOfThree *)
  (* any three positions of [a, b): only values of the range move; for three different positions
     data[m1] <= data[m2] afterwards (m1 is where the median goes, m2 holds the largest) *)
  Lemma median_spec a b m1 m0 m2 s :
    a <= m1 -> m1 < b -> a <= m0 -> m0 < b -> a <= m2 -> m2 < b -> b <= length s ->
    exists s', median_of_three lt m1 m0 m2 s = Ok s' /\ rframe a b s s' /\
      (m1 <> m0 -> m1 <> m2 -> m0 <> m2 -> lee (nth m1 s' 0) (nth m2 s' 0)).
  Proof.
    intros A1 B1 A0 B0 A2 B2 Hl. unfold median_of_three.
    rewrite less_eq by lia. cbn [obind].
    assert (E1 : exists s1, (if lt (nth m1 s 0) (nth m0 s 0) then swap s m1 m0 else Ok s) = Ok s1
                            /\ rframe a b s s1 /\ lee (nth m0 s1 0) (nth m1 s1 0)).
    { destruct (lt (nth m1 s 0) (nth m0 s 0)) eqn:C1.
      - rewrite swap_eq by lia. eexists. split; [reflexivity|]. split; [apply rframe_swap; lia|].
        apply (lt_le lt W) in C1. swc; try exact C1; apply (le_refl lt W).
      - eexists. split; [reflexivity|]. split; [apply rframe_refl|]. exact C1. }
    destruct E1 as (s1 & -> & F1 & O1). cbn [obind].
    pose proof (rframe_length _ _ _ _ F1) as L1.
    rewrite less_eq by lia. cbn [obind].
    destruct (lt (nth m2 s1 0) (nth m1 s1 0)) eqn:C2.
    - rewrite swap_eq by lia. cbn [obind].
      assert (F2 : rframe a b s (swapl s1 m2 m1)).
      { eapply rframe_trans; [exact F1|]. apply rframe_swap; lia. }
      rewrite less_eq by len. cbn [obind].
      destruct (lt (nth m1 (swapl s1 m2 m1) 0) (nth m0 (swapl s1 m2 m1) 0)) eqn:C3.
      + rewrite swap_eq by len. eexists. split; [reflexivity|]. split.
        * eapply rframe_trans; [exact F2|]. apply rframe_swap; len.
        * intros N10 N12 N02. swc. exact O1.
      + eexists. split; [reflexivity|]. split; [exact F2|].
        intros N10 N12 N02. swc. apply (lt_le lt W). exact C2.
    - eexists. split; [reflexivity|]. split; [exact F1|]. intros _ _ _. exact C2.
  Qed.

  (* doPivot, first block: afterwards data[lo] <= data[hi-1] *)
  Lemma choose_pivot_spec lo hi s :
    12 < hi - lo -> hi <= length s ->
    exists s', dp_choose_pivot lt lo hi ((lo + hi) / 2) s = Ok s' /\ rframe lo hi s s' /\
      lee (nth lo s' 0) (nth (hi - 1) s' 0).
  Proof.
    intros Hn Hh. unfold dp_choose_pivot. kunf.
    assert (Tail : forall s0, rframe lo hi s s0 ->
              exists s', median_of_three lt lo ((lo + hi) / 2) (hi - 1) s0 = Ok s'
                         /\ rframe lo hi s s' /\ lee (nth lo s' 0) (nth (hi - 1) s' 0)).
    { intros s0 F0. pose proof (rframe_length _ _ _ _ F0) as L0.
      destruct (median_spec lo hi lo ((lo + hi) / 2) (hi - 1) s0) as (s1 & E1 & F1 & O1);
        try lia.
      exists s1. split; [exact E1|]. split; [eapply rframe_trans; eauto|]. apply O1; lia. }
    destruct (40 <? hi - lo) eqn:C; cbv zeta; cbn [obind]; [|apply Tail; apply rframe_refl].
    apply Nat.ltb_lt in C.
    destruct (median_spec lo hi lo (lo + (hi - lo) / 8) (lo + 2 * ((hi - lo) / 8)) s)
      as (s1 & E1 & F1 & _); try lia. rewrite E1. cbn [obind].
    pose proof (rframe_length _ _ _ _ F1) as L1.
    destruct (median_spec lo hi ((lo + hi) / 2) ((lo + hi) / 2 - (hi - lo) / 8)
                ((lo + hi) / 2 + (hi - lo) / 8) s1) as (s2 & E2 & F2 & _); try lia.
    rewrite E2. cbn [obind].
    pose proof (rframe_length _ _ _ _ F2) as L2.
    destruct (median_spec lo hi (hi - 1) (hi - 1 - (hi - lo) / 8)
                (hi - 1 - 2 * ((hi - lo) / 8)) s2) as (s3 & E3 & F3 & _); try lia.
    rewrite E3. cbn [obind]. apply Tail.
    eapply rframe_trans; [exact F1|]. eapply rframe_trans; [exact F2|]. exact F3.
  Qed.

  (* ---------------------------------------------------------------- the loops of doPivot *)
  Section Pivot.
    Variables lo hi pv : nat.

    (* data[lo] = pivot, data[lo <= i < b] <= pivot, data[b <= i < c] = pivot, data[c <= i < hi] >= pivot *)
    Definition Z3 (s : list nat) (b c : nat) : Prop :=
      nth lo s 0 = pv /\
      all_in s lo b (fun x => lee x pv) /\
      all_in s b c (eqv pv) /\
      all_in s c hi (fun x => lee pv x).

    (* the middle zone grows downwards over values equivalent to the pivot *)
    Lemma Z3_shrink s b c b1 :
      Z3 s b c -> lo <= b1 -> b1 <= b -> (forall q, b1 <= q -> q < b -> lt (nth q s 0) pv = false) ->
      Z3 s b1 c.
    Proof.
      intros (Hpv & Z1 & Z2 & Z3') Hlb Hb He. split; [exact Hpv|]. split; [|split; [|exact Z3']].
      - intros p Hp1 Hp2. apply Z1; lia.
      - intros p Hp1 Hp2. destruct (le_lt_dec b p) as [H|H]; [apply Z2; lia|].
        split; [apply Z1; lia|]. apply He; lia.
    Qed.

    (* Swap(m, b-1); b-- with data[m] equivalent to the pivot *)
    Lemma Z3_swap_b s b c m :
      Z3 s b c -> lo < m -> m < b -> b <= c -> c <= hi -> hi <= length s ->
      lt (nth m s 0) pv = false -> Z3 (swapl s m (b - 1)) (b - 1) c.
    Proof.
      intros (Hpv & Z1 & Z2 & Z3') Hm1 Hm2 Hbc Hch Hl He.
      split; [swc|]. split; [|split].
      - intros p Hp1 Hp2. swc. apply Z1; lia. apply Z1; lia.
      - intros p Hp1 Hp2. swc; try (split; [apply Z1; lia|exact He]). apply Z2; lia.
      - intros p Hp1 Hp2. swc. apply Z3'; lia.
    Qed.

    (* Swap(c, hi-1); c++ with data[hi-1] equivalent to the pivot *)
    Lemma Z3_swap_c s b c :
      Z3 s b c -> lo < b -> b <= c -> c < hi -> hi <= length s ->
      lt pv (nth (hi - 1) s 0) = false -> Z3 (swapl s c (hi - 1)) b (S c).
    Proof.
      intros (Hpv & Z1 & Z2 & Z3') Hb Hbc Hch Hl He.
      split; [swc|]. split; [|split].
      - intros p Hp1 Hp2. swc. apply Z1; lia.
      - intros p Hp1 Hp2. swc; try (split; [exact He|apply Z3'; lia]); try (apply Z2; lia).
        replace c with (hi - 1) by lia. split; [exact He|apply Z3'; lia].
      - intros p Hp1 Hp2. swc; apply Z3'; lia.
    Qed.

    (* the partition loop: for { for ; b < c && !Less(pivot, b); b++ {} for ; b < c && Less(pivot, c-1); c-- {}
       if b >= c { break }; Swap(b, c-1); b++; c-- } ends with b = c *)
    Lemma dp_main_spec : forall fuel b c s,
      lo < b -> b <= c -> c < hi -> hi <= length s -> c - b < fuel ->
      nth lo s 0 = pv ->
      all_in s lo b (fun x => lee x pv) -> all_in s c hi (fun x => lee pv x) ->
      exists b' s', dp_main lt fuel lo b c s = Ok (b', b', s') /\ rframe (lo + 1) hi s s' /\
        b <= b' /\ b' <= c /\
        all_in s' lo b' (fun x => lee x pv) /\ all_in s' b' hi (fun x => lee pv x).
    Proof.
      induction fuel as [|f IH]; intros b c s Hlb Hbc Hch Hh Hf Hpv Z1 Z2; [lia|].
      cbn [dp_main]. kunf.
      destruct (scan_up_safe lt (fun b0 => do r <- less lt s lo b0; Ok (negb r)) c (S c) b)
        as (b1 & E1 & R1 & T1 & S1); [lia| |].
      { intros p Hp'. rewrite less_eq by lia. cbn [obind]. eauto. }
      rewrite E1. cbn [obind].
      destruct (scan_down_safe lt (fun c0 => less lt s lo (c0 - 1)) b1 c) as (c1 & E2 & R2 & T2 & S2).
      { intros p Hp'. rewrite less_eq by lia. eauto. }
      rewrite E2. cbn [obind].
      assert (A1 : forall p, b <= p -> p < b1 -> lt pv (nth p s 0) = false).
      { intros p Hp1 Hp2. specialize (T1 p (conj Hp1 Hp2)). rewrite less_eq in T1 by lia.
        cbn [obind] in T1. rewrite Hpv in T1. inversion T1 as [H1].
        destruct (lt pv (nth p s 0)); [discriminate|reflexivity]. }
      assert (A2 : b1 < c -> lt pv (nth b1 s 0) = true).
      { intros H. specialize (S1 H). rewrite less_eq in S1 by lia.
        cbn [obind] in S1. rewrite Hpv in S1. inversion S1 as [H1].
        destruct (lt pv (nth b1 s 0)); [reflexivity|discriminate]. }
      assert (B1 : forall p, c1 <= p -> p < c -> lt pv (nth p s 0) = true).
      { intros p Hp1 Hp2. assert (Hp : c1 < S p <= c) by lia. specialize (T2 (S p) Hp).
        rewrite less_eq in T2 by lia. rewrite Hpv in T2.
        replace (S p - 1) with p in T2 by lia. inversion T2 as [H1]. reflexivity. }
      assert (B2 : b1 < c1 -> lt pv (nth (c1 - 1) s 0) = false).
      { intros H. specialize (S2 H). rewrite less_eq in S2 by lia. rewrite Hpv in S2.
        inversion S2 as [H1]. reflexivity. }
      assert (Z1b : all_in s lo b1 (fun x => lee x pv)).
      { intros p Hp1 Hp2. destruct (le_lt_dec b p) as [H|H]; [apply A1; lia|apply Z1; lia]. }
      assert (Z2b : all_in s c1 hi (fun x => lee pv x)).
      { intros p Hp1 Hp2. destruct (le_lt_dec c p) as [H|H]; [apply Z2; lia|].
        apply (lt_le lt W). apply B1; lia. }
      destruct (c1 <=? b1) eqn:C.
      - apply Nat.leb_le in C. assert (c1 = b1) by lia. subst c1.
        exists b1, s. split; [reflexivity|]. split; [apply rframe_refl|]. repeat split; auto; lia.
      - apply Nat.leb_gt in C.
        assert (Hb1 : lt pv (nth b1 s 0) = true) by (apply A2; lia).
        assert (Hc1 : lt pv (nth (c1 - 1) s 0) = false) by (apply B2; lia).
        assert (Hne : b1 <> c1 - 1) by (intros ->; congruence).
        rewrite swap_eq by lia. cbn [obind].
        destruct (IH (S b1) (c1 - 1) (swapl s b1 (c1 - 1))) as (b' & s' & E & F & Rb1 & Rb2 & Z1' & Z2');
          try len.
        { swc. }
        { intros p Hp1 Hp2. swc. exact Hc1. apply Z1b; lia. }
        { intros p Hp1 Hp2. swc. apply (lt_le lt W). exact Hb1. apply Z2b; lia. }
        exists b', s'. split; [exact E|]. split.
        { eapply rframe_trans; [|exact F]. apply rframe_swap; lia. }
        repeat split; auto; lia.
    Qed.

    (* the block "Lets test some points for equality to pivot": entered with b = c *)
    Lemma dp_dups_spec m c s :
      lo + 3 <= c -> lo < m -> m + 2 <= c -> c + 2 <= hi -> hi <= length s ->
      Z3 s c c ->
      exists p b' c' s', dp_dups lt lo hi m c c s = Ok (p, b', c', s') /\
        rframe (lo + 1) hi s s' /\ lo + 1 <= b' /\ b' <= c' /\ c' <= hi /\ Z3 s' b' c'.
    Proof.
      intros Hc Hm1 Hm2 Hch Hl Z. unfold dp_dups. kunf.
      rewrite less_eq by lia. cbn [obind].
      assert (E1 : exists c1 d1 s1,
        (if negb (lt (nth lo s 0) (nth (hi - 1) s 0))
         then do s' <- swap s c (hi - 1); Ok (S c, 1, s') else Ok (c, 0, s)) = Ok (c1, d1, s1)
        /\ rframe (lo + 1) hi s s1 /\ c <= c1 /\ c1 <= S c /\ Z3 s1 c c1).
      { destruct (lt (nth lo s 0) (nth (hi - 1) s 0)) eqn:C1; cbn [negb].
        - do 3 eexists. split; [reflexivity|]. split; [apply rframe_refl|]. split; [lia|]. split; [lia|]. exact Z.
        - rewrite swap_eq by lia. cbn [obind]. do 3 eexists. split; [reflexivity|].
          split; [apply rframe_swap; lia|]. split; [lia|]. split; [lia|].
          apply Z3_swap_c; auto; try lia. destruct Z as (Hpv & _). rewrite <- Hpv. exact C1. }
      destruct E1 as (c1 & d1 & s1 & -> & F1 & Rc1 & Rc2 & Z'). cbn [obind].
      pose proof (rframe_length _ _ _ _ F1) as L1.
      rewrite less_eq by lia. cbn [obind].
      set (bd := if negb (lt (nth (c - 1) s1 0) (nth lo s1 0)) then (c - 1, S d1) else (c, d1)).
      assert (Hbd : c - 1 <= fst bd /\ fst bd <= c /\ Z3 s1 (fst bd) c1).
      { subst bd. destruct (lt (nth (c - 1) s1 0) (nth lo s1 0)) eqn:C2; cbn [negb fst].
        - split; [lia|]. split; [lia|]. exact Z'.
        - split; [lia|]. split; [lia|]. apply (Z3_shrink s1 c c1); auto; try lia.
          intros q Hq1 Hq2. assert (q = c - 1) by lia. subst q.
          destruct Z' as (Hpv & _). rewrite <- Hpv. exact C2. }
      destruct bd as [b1 d2]. cbn [fst] in Hbd. destruct Hbd as (Rb1 & Rb2 & Z'').
      rewrite less_eq by lia. cbn [obind].
      destruct (lt (nth m s1 0) (nth lo s1 0)) eqn:C3; cbn [negb].
      - do 4 eexists. split; [reflexivity|]. split; [exact F1|]. split; [lia|]. split; [lia|]. split; [lia|]. exact Z''.
      - rewrite swap_eq by lia. cbn [obind]. do 4 eexists. split; [reflexivity|]. split.
        { eapply rframe_trans; [exact F1|]. apply rframe_swap; lia. }
        split; [lia|]. split; [lia|]. split; [lia|].
        apply Z3_swap_b; auto; try lia. destruct Z'' as (Hpv & _). rewrite <- Hpv. exact C3.
    Qed.

    (* the duplicate protection loop *)
    Lemma dp_protect_spec c : forall fuel a b s,
      lo + 1 <= a -> lo + 1 <= b -> b <= c -> c <= hi -> hi <= length s -> b - a < fuel ->
      Z3 s b c ->
      exists a' b' s', dp_protect lt fuel lo a b s = Ok (a', b', s') /\
        rframe (lo + 1) hi s s' /\ lo + 1 <= b' /\ b' <= b /\ Z3 s' b' c.
    Proof.
      induction fuel as [|f IH]; intros a b s Ha Hb Hbc Hch Hl Hf Z; [lia|].
      cbn [dp_protect]. kunf.
      pose proof Z as (Hpv & Z1 & _).
      destruct (scan_down_safe lt (fun b0 => do r <- less lt s (b0 - 1) lo; Ok (negb r)) a b)
        as (b1 & E1 & R1 & T1 & S1).
      { intros p Hp'. rewrite less_eq by lia. cbn [obind]. eauto. }
      rewrite E1. cbn [obind].
      destruct (scan_up_safe lt (fun a0 => less lt s a0 lo) b1 (S b1) a) as (a1 & E2 & R2 & T2 & S2);
        [lia| |].
      { intros p Hp'. rewrite less_eq by lia. eauto. }
      rewrite E2. cbn [obind].
      assert (A1 : forall q, b1 <= q -> q < b -> lt (nth q s 0) pv = false).
      { intros q Hq1 Hq2. assert (Hq : b1 < S q <= b) by lia. specialize (T1 (S q) Hq).
        rewrite less_eq in T1 by lia. cbn [obind] in T1. rewrite Hpv in T1.
        replace (S q - 1) with q in T1 by lia. inversion T1 as [H1].
        destruct (lt (nth q s 0) pv); [discriminate|reflexivity]. }
      assert (A2 : a1 < b1 -> lt (nth a1 s 0) pv = false).
      { intros H. specialize (S2 H). rewrite less_eq in S2 by lia. rewrite Hpv in S2.
        inversion S2 as [H1]. reflexivity. }
      assert (Zb : Z3 s b1 c) by (apply (Z3_shrink s b c); auto; lia).
      destruct (b1 <=? a1) eqn:C.
      - apply Nat.leb_le in C. exists a1, b1, s. split; [reflexivity|]. split; [apply rframe_refl|].
        split; [lia|]. split; [lia|]. exact Zb.
      - apply Nat.leb_gt in C. rewrite swap_eq by lia. cbn [obind].
        destruct (IH (S a1) (b1 - 1) (swapl s a1 (b1 - 1))) as (a' & b' & s' & E & F & Rb1 & Rb2 & Z');
          try len.
        { apply Z3_swap_b; auto; try lia. }
        exists a', b', s'. split; [exact E|]. split.
        { eapply rframe_trans; [|exact F]. apply rframe_swap; lia. }
        split; [lia|]. split; [lia|]. exact Z'.
    Qed.
  End Pivot.

  (* ---------------------------------------------------------------- doPivot *)
  Theorem do_pivot_partition lo hi s :
    12 < hi - lo -> hi <= length s ->
    exists mlo mhi s', do_pivot lt lo hi s = Ok (mlo, mhi, s') /\ rframe lo hi s s' /\
      lo <= mlo /\ mlo < mhi /\ mhi <= hi /\
      all_in s' lo mlo (fun x => lee x (nth mlo s' 0)) /\
      all_in s' mlo mhi (eqv (nth mlo s' 0)) /\
      all_in s' mhi hi (fun x => lee (nth mlo s' 0) x).
  Proof.
    intros Hn Hh. unfold do_pivot. kunf.
    destruct (choose_pivot_spec lo hi s) as (s0 & E0 & F0 & O0); [lia|lia|]. rewrite E0. cbn [obind].
    pose proof (rframe_length _ _ _ _ F0) as L0.
    set (pv := nth lo s0 0).
    destruct (scan_up_safe lt (fun a => less lt s0 a lo) (hi - 1) (S (hi - 1)) (lo + 1))
      as (a1 & E1 & R1 & T1 & _); [lia| |].
    { intros p Hp. rewrite less_eq by lia. eauto. }
    rewrite E1. cbn [obind].
    destruct (dp_main_spec lo hi pv (S hi) a1 (hi - 1) s0) as (c1 & s1 & E2 & F1 & Rc1 & Rc2 & Z1 & Z2);
      try lia.
    { intros p Hp1 Hp2. destruct (Nat.eq_dec p lo) as [->|Np]; [apply (le_refl lt W)|].
      assert (Hp : lo + 1 <= p < a1) by lia. specialize (T1 p Hp). rewrite less_eq in T1 by lia.
      inversion T1 as [H1]. apply (lt_le lt W). exact H1. }
    { intros p Hp1 Hp2. replace p with (hi - 1) by lia. exact O0. }
    rewrite E2. cbn [obind].
    pose proof (rframe_length _ _ _ _ F1) as L1.
    assert (Hpv1 : nth lo s1 0 = pv) by (apply (rframe_nth _ _ _ _ lo F1); lia).
    assert (E3 : exists p b2 c2 s2,
      (if negb (hi - c1 <? 5) && (hi - c1 <? (hi - lo) / 4)
       then dp_dups lt lo hi ((lo + hi) / 2) c1 c1 s1
       else Ok (hi - c1 <? 5, c1, c1, s1)) = Ok (p, b2, c2, s2)
      /\ rframe (lo + 1) hi s1 s2 /\ lo + 1 <= b2 /\ b2 <= c2 /\ c2 <= hi /\ Z3 lo hi pv s2 b2 c2).
    { assert (Z : Z3 lo hi pv s1 c1 c1).
      { split; [exact Hpv1|]. split; [exact Z1|]. split; [|exact Z2]. intros p Hp1 Hp2. lia. }
      destruct (negb (hi - c1 <? 5) && (hi - c1 <? (hi - lo) / 4)) eqn:C.
      - apply andb_true_iff in C as [C1 C2]. apply negb_true_iff, Nat.ltb_ge in C1.
        apply Nat.ltb_lt in C2.
        apply dp_dups_spec; auto; lia.
      - do 4 eexists. split; [reflexivity|]. split; [apply rframe_refl|].
        split; [lia|]. split; [lia|]. split; [lia|]. exact Z. }
    destruct E3 as (p & b2 & c2 & s2 & -> & F2 & Rb2 & Rbc2 & Rc2' & Z). cbn [obind].
    pose proof (rframe_length _ _ _ _ F2) as L2.
    assert (E4 : exists a3 b3 s3,
      (if p then dp_protect lt (S hi) lo a1 b2 s2 else Ok (a1, b2, s2)) = Ok (a3, b3, s3)
      /\ rframe (lo + 1) hi s2 s3 /\ lo + 1 <= b3 /\ b3 <= b2 /\ Z3 lo hi pv s3 b3 c2).
    { destruct p.
      - apply dp_protect_spec; auto; lia.
      - do 3 eexists. split; [reflexivity|]. split; [apply rframe_refl|].
        split; [lia|]. split; [lia|]. exact Z. }
    destruct E4 as (a3 & b3 & s3 & -> & F3 & Rb3 & Rb3' & (Hpv3 & Y1 & Y2 & Y3)). cbn [obind].
    pose proof (rframe_length _ _ _ _ F3) as L3.
    rewrite swap_eq by lia. cbn [obind].
    exists (b3 - 1), c2, (swapl s3 lo (b3 - 1)). split; [reflexivity|].
    assert (Hm : nth (b3 - 1) (swapl s3 lo (b3 - 1)) 0 = pv) by (swc; exact Hpv3).
    rewrite Hm. split.
    { eapply rframe_trans; [exact F0|].
      eapply rframe_trans; [apply (rframe_mono (lo + 1) hi); [lia|lia|exact F1]|].
      eapply rframe_trans; [apply (rframe_mono (lo + 1) hi); [lia|lia|exact F2]|].
      eapply rframe_trans; [apply (rframe_mono (lo + 1) hi); [lia|lia|exact F3]|].
      apply rframe_swap; lia. }
    split; [lia|]. split; [lia|]. split; [lia|]. split; [|split].
    - intros q Hq1 Hq2. swc; apply Y1; lia.
    - intros q Hq1 Hq2. swc; try (rewrite Hpv3; apply eqv_refl). apply Y2; lia.
    - intros q Hq1 Hq2. swc. apply Y3; lia.
  Qed.
End Quick.
