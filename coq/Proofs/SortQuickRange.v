(* Proofs/SortQuickRange.v — lemmas about Model/Sort.v, part 6: doPivot and quickSort permute their
   range.  A list that is a permutation of another and agrees with it outside [a, b) holds in [a, b)
   a permutation of what the other holds there; with the whole-slice permutation lemmas of
   Proofs/SortProofs.v (any lt) and the frames of Proofs/SortQuick.v this gives: every value of the
   range occurs after the call exactly as often as before. *)
From QF Require Import Base.Prelude Model.Sort Proofs.SortProofs Proofs.SortSafe Proofs.SortSorted.
From QF Require Import Proofs.SortQuick Proofs.SortQuickSorted.

(* data[a:b] *)
Definition range (s : list nat) (a b : nat) : list nat := firstn (b - a) (skipn a s).

Lemma nth_firstn_lt : forall n (l : list nat) i, i < n -> nth i (firstn n l) 0 = nth i l 0.
Proof.
  induction n as [|n IH]; intros l i Hi; [lia|].
  destruct l as [|x l]; [destruct i; reflexivity|].
  destruct i as [|i]; cbn [firstn nth]; [reflexivity|]. apply IH. lia.
Qed.

Lemma nth_skipn_add : forall n (l : list nat) i, nth i (skipn n l) 0 = nth (n + i) l 0.
Proof.
  induction n as [|n IH]; intros l i; [reflexivity|].
  destruct l as [|x l]; [destruct i; reflexivity|]. cbn [skipn Nat.add nth]. apply IH.
Qed.

Lemma range_length s a b : b <= length s -> length (range s a b) = b - a.
Proof. intros H. unfold range. rewrite firstn_length, skipn_length. lia. Qed.

Lemma nth_range s a b i : i < b - a -> nth i (range s a b) 0 = nth (a + i) s 0.
Proof. intros H. unfold range. rewrite nth_firstn_lt by exact H. apply nth_skipn_add. Qed.

Lemma split3 s a b : s = firstn a s ++ range s a b ++ skipn (b - a) (skipn a s).
Proof. unfold range. rewrite firstn_skipn, firstn_skipn. reflexivity. Qed.

Lemma range_perm s s' a b :
  Permutation s' s -> length s' = length s ->
  (forall q, q < a \/ b <= q -> nth q s' 0 = nth q s 0) ->
  a <= b -> b <= length s ->
  Permutation (range s' a b) (range s a b).
Proof.
  intros P L U Hab Hb.
  assert (E1 : firstn a s' = firstn a s).
  { apply (nth_ext _ _ 0 0); [rewrite !firstn_length; lia|].
    intros n Hn. rewrite firstn_length in Hn. rewrite !nth_firstn_lt by lia. apply U. lia. }
  assert (E2 : skipn (b - a) (skipn a s') = skipn (b - a) (skipn a s)).
  { apply (nth_ext _ _ 0 0); [rewrite !skipn_length; lia|].
    intros n Hn. rewrite !nth_skipn_add. apply U. lia. }
  rewrite (split3 s' a b), (split3 s a b), E1, E2 in P.
  apply Permutation_app_inv_l in P. apply Permutation_app_inv_r in P. exact P.
Qed.

Lemma rframe_range_perm s s' a b :
  Permutation s' s -> rframe a b s s' -> a <= b -> b <= length s ->
  Permutation (range s' a b) (range s a b).
Proof. intros P (L & U & _) Hab Hb. apply range_perm; auto. Qed.

Section RangePerm.
  Variable lt : nat -> nat -> bool.
  Hypothesis W : strict_weak_order lt.

  Theorem do_pivot_range_perm lo hi s mlo mhi s' :
    12 < hi - lo -> hi <= length s -> do_pivot lt lo hi s = Ok (mlo, mhi, s') ->
    Permutation (range s' lo hi) (range s lo hi).
  Proof.
    intros Hn Hh E.
    destruct (do_pivot_partition lt W lo hi s Hn Hh) as (mlo' & mhi' & s1 & E1 & F1 & _).
    rewrite E in E1. inversion E1; subst mlo' mhi' s1.
    apply rframe_range_perm; [eapply do_pivot_perm; eauto|exact F1|lia|lia].
  Qed.

  Theorem quick_sort_range_perm fuel a b d s s' :
    a <= b -> b <= length s -> b - a < fuel -> quick_sort lt fuel a b d s = Ok s' ->
    Permutation (range s' a b) (range s a b).
  Proof.
    intros Hab Hb Hf E.
    destruct (quick_sort_sorted lt W fuel a b d s Hab Hb Hf) as (s1 & E1 & F1 & _).
    rewrite E in E1. inversion E1; subst s1.
    apply rframe_range_perm; [eapply quick_sort_perm; eauto|exact F1|lia|lia].
  Qed.
End RangePerm.
