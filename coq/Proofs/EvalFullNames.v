(* Proofs/EvalFullNames.v — property C07, "no temporary column survives", for EVERY frame (no well-formedness,
   repeated column names allowed), every evaluation context and every tree: each column of the frame returned by
   Eval without error is a column of the original frame or the destination. *)
From QF Require Import Base.Prelude Model.Frame Model.Filter Model.Ops Model.Eval.
From QF Require Import Proofs.OpsProofs Proofs.EvalFullBase.
Local Open Scope nat_scope.

Definition names_within (g f : frame) (extra : bytes) : Prop :=
  forall m, contains g m = true -> contains f m = true \/ m = extra.

Lemma with_err_contains f m : contains (with_err f) m = contains f m.
Proof. reflexivity. Qed.

Lemma set_column_names f name c : names_within (set_column f name c) f name.
Proof.
  intros m Hm. unfold set_column in Hm. destruct (negb (check_name name)); [left; exact Hm|].
  destruct (bytes_eq_dec m name) as [->|Hne]; [right; reflexivity|left].
  destruct (lookup f name) as [[pos c0]|] eqn:E.
  - unfold contains, lookup in *. cbn [cols] in Hm.
    rewrite (lookup_from_set_other name m c (cols f) 0 None pos c0) in Hm; [exact Hm| |].
    + apply (lookup_some_nth f name pos c0 E).
    + apply bytes_eqb_false. congruence.
  - unfold contains, lookup in *. cbn [cols] in Hm.
    rewrite lookup_from_app_other in Hm; [exact Hm|]. apply bytes_eqb_false. congruence.
Qed.

Lemma set_column_ferr f name c : ferr (set_column f name c) = false -> ferr f = false.
Proof.
  unfold set_column. destruct (negb (check_name name)); [discriminate|].
  destruct (lookup f name) as [[pos c0]|]; cbn [ferr]; auto.
Qed.

Lemma copy_names f dst src : names_within (copy f dst src) f dst.
Proof.
  intros m Hm. unfold copy in Hm. destruct (ferr f); [left; exact Hm|].
  destruct (lookup_col f src) as [c|]; [|left; exact Hm].
  destruct (bytes_eqb dst src); [left; exact Hm|]. apply (set_column_names f dst c m Hm).
Qed.

Lemma copy_ferr f dst src : ferr (copy f dst src) = false -> ferr f = false.
Proof.
  unfold copy. destruct (ferr f) eqn:E; [intro H; congruence|intros _; reflexivity].
Qed.

(* Select keeps only requested names that resolve in the frame *)
Lemma select_names f names m :
  ferr (select f names) = false -> contains (select f names) m = true -> contains f m = true /\ In m names.
Proof.
  unfold select. destruct (ferr f) eqn:Ef.
  - intros H. congruence.
  - destruct (negb (forallb (contains f) names)); [discriminate|].
    destruct names as [|n0 ns]; [intros _ H; discriminate H|].
    intros _ Hm. apply contains_In in Hm. unfold col_names in Hm. cbn [cols] in Hm.
    apply in_map_iff in Hm as [[m' c] [Hfst Hin]]. cbn [fst] in Hfst. subst m'.
    apply in_flat_map in Hin as [x [Hx Hin]].
    destruct (lookup_col f x) as [cx|] eqn:El; [|destruct Hin].
    destruct Hin as [Hin|[]]. inversion Hin; subst. split; [|exact Hx].
    rewrite lookup_col_contains, El. reflexivity.
Qed.

Lemma drop_names f names m :
  ferr (drop f names) = false -> contains (drop f names) m = true -> contains f m = true /\ ~ In m names.
Proof.
  unfold drop. destruct (ferr f) eqn:Ef; [congruence|].
  destruct names as [|n0 ns]; [intros _ H; split; [exact H|intros []]|].
  intros He Hm. destruct (select_names f _ m He Hm) as [H1 H2]. split; [exact H1|].
  apply filter_In in H2 as [_ H2]. apply negb_true_iff in H2. intro Hi.
  apply existsb_bytes_In in Hi. congruence.
Qed.

Lemma drop_ferr f names : ferr (drop f names) = false -> ferr f = false.
Proof. unfold drop. destruct (ferr f) eqn:E; [intro H; congruence|intros _; reflexivity]. Qed.

(* one Apply instruction: the frame itself, the frame with Err, or setColumn(dst) *)
Lemma apply_instr_names ut f i g :
  apply_instr ut f i = Ok g -> ferr g = false -> ferr f = false /\ names_within g f (idst i).
Proof.
  intros H Hg.
  assert (K : forall c, g = set_column f (idst i) c -> ferr f = false /\ names_within g f (idst i)).
  { intros c ->. split; [apply (set_column_ferr _ _ _ Hg)|apply set_column_names]. }
  assert (Kerr : g = with_err f -> ferr f = false /\ names_within g f (idst i)) by (intros ->; discriminate Hg).
  assert (Kself : g = f -> ferr f = false /\ names_within g f (idst i)).
  { intros ->. split; [exact Hg|intros m Hm; left; exact Hm]. }
  unfold apply_instr in H. destruct (empty_name (isrc1 i)); [|destruct (empty_name (isrc2 i))].
  - unfold apply0 in H. destruct (ferr f) eqn:Ef; [inversion H; subst; congruence|].
    destruct (ifn i) as [ty vals|c|src|tin tout tbl|ty tbl|nm|]; try (inversion H; subst; apply Kerr; reflexivity).
    + destruct (ctype_eqb ty TEnum); [discriminate|].
      destruct (scatter _ (ix f) vals) as [cells| |]; cbn [obind] in H; try discriminate.
      destruct (col_of_cells ty cells) as [c| |]; cbn [obind] in H; try discriminate.
      inversion H; subst. apply (K c eq_refl).
    + destruct (Nat.eqb (length (ix f)) (phys_len f)).
      * destruct (const_col c (phys_len f)) as [col| |]; cbn [obind] in H; try discriminate.
        inversion H; subst. apply (K col eq_refl).
      * destruct (const_type c) as [t|]; [|discriminate].
        destruct (scatter _ (ix f) _) as [cells| |]; cbn [obind] in H; try discriminate.
        destruct (col_of_cells t cells) as [col| |]; cbn [obind] in H; try discriminate.
        inversion H; subst. apply (K col eq_refl).
    + inversion H; subst. split; [reflexivity|apply copy_names].
  - unfold apply1 in H. destruct (ferr f) eqn:Ef; [inversion H; subst; congruence|].
    destruct (lookup_col f (isrc1 i)) as [c|]; [|inversion H; subst; apply Kerr; reflexivity].
    destruct (col_apply1 ut c (ifn i) (ix f)) as [r| |]; try discriminate; inversion H; subst;
      [apply (K r eq_refl)|apply Kerr; reflexivity].
  - unfold apply2 in H. destruct (ferr f) eqn:Ef; [inversion H; subst; congruence|].
    destruct (lookup_col f (isrc1 i)) as [c1|]; [|inversion H; subst; apply Kerr; reflexivity].
    destruct (lookup_col f (isrc2 i)) as [c2|]; [|inversion H; subst; apply Kerr; reflexivity].
    destruct (col_apply2 c1 c2 (ifn i) (ix f)) as [r| |]; try discriminate; inversion H; subst;
      [apply (K r eq_refl)|apply Kerr; reflexivity].
Qed.

Section Names.
  Variable ut : upper_table.
  Variable cx : ctx.

  Lemma exec_const_names f v r name :
    exec_const ut f v = Ok (r, name) -> ferr r = false -> ferr f = false /\ names_within r f name.
  Proof.
    unfold exec_const. destruct (ferr f) eqn:Ef; [intros H; inversion H; subst; congruence|].
    destruct (temp_col_name f p_const) as [nm| |]; cbn [obind]; try discriminate.
    change (apply ut f [mkInstr (F0Const v) nm [] []]) with (apply_instr ut f (mkInstr (F0Const v) nm [] [])).
    destruct (apply_instr ut f _) as [g| |] eqn:Ea; cbn [obind]; try discriminate.
    intros H Hr. inversion H; subst. destruct (apply_instr_names ut f _ r Ea Hr) as [_ Hn]. split; [reflexivity|exact Hn].
  Qed.

  Lemma get_fn_cases two f col op :
    (exists fn, get_fn cx two f col op = (f, fn)) \/ (exists fn, get_fn cx two f col op = (with_err f, fn)).
  Proof.
    unfold get_fn. destruct (ferr f); [left; eexists; reflexivity|].
    destruct (lookup_col f col) as [c|]; [|right; eexists; reflexivity].
    destruct (get_func cx (col_ftype c) two op); [left|right]; eexists; reflexivity.
  Qed.

  Lemma exec_unary_names f op col r name :
    exec_unary ut cx f op col = Ok (r, name) -> ferr r = false -> ferr f = false /\ names_within r f name.
  Proof.
    unfold exec_unary. destruct (get_fn_cases false f col op) as [[fn Hg]|[fn Hg]]; rewrite Hg.
    2:{ cbn [ferr with_err]. intros H Hr. inversion H; subst. discriminate Hr. }
    destruct (ferr f) eqn:Ef; [intros H; inversion H; subst; congruence|].
    destruct fn as [g|]; [|discriminate].
    destruct (temp_col_name f p_unary) as [nm| |]; cbn [obind]; try discriminate.
    change (apply ut f [mkInstr g nm col []]) with (apply_instr ut f (mkInstr g nm col [])).
    destruct (apply_instr ut f _) as [g'| |] eqn:Ea; cbn [obind]; try discriminate.
    intros H Hr. inversion H; subst. destruct (apply_instr_names ut f _ r Ea Hr) as [_ Hn]. split; [reflexivity|exact Hn].
  Qed.

  Lemma exec_colcol_names f op c1 c2 r name :
    exec_colcol ut cx f op c1 c2 = Ok (r, name) -> ferr r = false -> ferr f = false /\ names_within r f name.
  Proof.
    unfold exec_colcol. destruct (get_fn_cases true f c1 op) as [[fn Hg]|[fn Hg]]; rewrite Hg.
    2:{ cbn [ferr with_err]. intros H Hr. inversion H; subst. discriminate Hr. }
    destruct (ferr f) eqn:Ef; [intros H; inversion H; subst; congruence|].
    destruct fn as [g|]; [|discriminate].
    destruct (temp_col_name f p_colcol) as [nm| |]; cbn [obind]; try discriminate.
    change (apply ut f [mkInstr g nm c1 c2]) with (apply_instr ut f (mkInstr g nm c1 c2)).
    destruct (apply_instr ut f _) as [g'| |] eqn:Ea; cbn [obind]; try discriminate.
    intros H Hr. inversion H; subst. destruct (apply_instr_names ut f _ r Ea Hr) as [_ Hn]. split; [reflexivity|exact Hn].
  Qed.

  (* executing a tree without error adds at most the column that carries the result *)
  Theorem execute_names e : forall f r name,
    execute ut cx e f = Ok (r, name) -> ferr r = false -> ferr f = false /\ names_within r f name.
  Proof.
    induction e as [m|v|op c|op c v cf|op c1 c2|op e1 IH1|op l IHl rr IHr|]; intros f r name H Hr; cbn [execute] in H.
    - inversion H; subst. split; [exact Hr|intros x Hx; left; exact Hx].
    - apply (exec_const_names f v r name H Hr).
    - apply (exec_unary_names f op c r name H Hr).
    - destruct (ferr f) eqn:Ef; [inversion H; subst; congruence|]. split; [reflexivity|].
      destruct (exec_const ut f v) as [[r1 cname]| |] eqn:E1; cbn [obind] in H; try discriminate.
      set (o2 := if cf then exec_colcol ut cx r1 op cname c else exec_colcol ut cx r1 op c cname) in H.
      destruct o2 as [[r2 nm]| |] eqn:E2; cbn [obind] in H; try discriminate. inversion H; subst r name. clear H.
      pose proof (drop_ferr r2 [cname] Hr) as Hr2.
      assert (H2 : ferr r1 = false /\ names_within r2 r1 nm).
      { subst o2. destruct cf; [apply (exec_colcol_names r1 op cname c r2 nm E2 Hr2)|apply (exec_colcol_names r1 op c cname r2 nm E2 Hr2)]. }
      destruct H2 as [Hr1 Hn2]. destruct (exec_const_names f v r1 cname E1 Hr1) as [_ Hn1].
      intros x Hx. destruct (drop_names r2 [cname] x Hr Hx) as [Hx2 Hnot].
      destruct (Hn2 x Hx2) as [Hx1| ->]; [|right; reflexivity].
      destruct (Hn1 x Hx1) as [Hx0| ->]; [left; exact Hx0|]. exfalso. apply Hnot. left. reflexivity.
    - apply (exec_colcol_names f op c1 c2 r name H Hr).
    - destruct (execute ut cx e1 f) as [[r1 tmp]| |] eqn:E1; cbn [obind] in H; try discriminate.
      destruct (exec_unary ut cx r1 op tmp) as [[r2 nm]| |] eqn:E2; cbn [obind] in H; try discriminate.
      inversion H; subst r name. clear H.
      assert (Hr2 : ferr r2 = false) by (destruct (contains f tmp); [exact Hr|apply (drop_ferr r2 [tmp] Hr)]).
      destruct (exec_unary_names r1 op tmp r2 nm E2 Hr2) as [Hr1 Hn2].
      destruct (IH1 f r1 tmp E1 Hr1) as [Hf Hn1]. split; [exact Hf|].
      intros x Hx. destruct (contains f tmp) eqn:Ec.
      + destruct (Hn2 x Hx) as [Hx1| ->]; [|right; reflexivity].
        destruct (Hn1 x Hx1) as [Hx0| ->]; [left; exact Hx0|left; exact Ec].
      + destruct (drop_names r2 [tmp] x Hr Hx) as [Hx2 Hnot].
        destruct (Hn2 x Hx2) as [Hx1| ->]; [|right; reflexivity].
        destruct (Hn1 x Hx1) as [Hx0| ->]; [left; exact Hx0|]. exfalso. apply Hnot. left. reflexivity.
    - destruct (execute ut cx l f) as [[fl ln]| |] eqn:E1; cbn [obind] in H; try discriminate.
      destruct (execute ut cx rr fl) as [[fr rn]| |] eqn:E2; cbn [obind] in H; try discriminate.
      destruct (exec_colcol ut cx fr op ln rn) as [[f' nm]| |] eqn:E3; cbn [obind] in H; try discriminate.
      inversion H; subst r name. clear H. unfold drop_unless_original in *.
      pose proof (drop_ferr f' _ Hr) as Hf'.
      destruct (exec_colcol_names fr op ln rn f' nm E3 Hf') as [Hfr Hn3].
      destruct (IHr fl fr rn E2 Hfr) as [Hfl Hn2].
      destruct (IHl f fl ln E1 Hfl) as [Hf Hn1]. split; [exact Hf|].
      intros x Hx. destruct (drop_names f' _ x Hr Hx) as [Hx3 Hnot].
      destruct (Hn3 x Hx3) as [Hxr| ->]; [|right; reflexivity]. left.
      assert (Hkeep : forall y, In y [ln; rn] -> x = y -> contains f x = true).
      { intros y Hy ->. destruct (contains f y) eqn:Ec; [reflexivity|]. exfalso. apply Hnot.
        apply filter_In. split; [exact Hy|rewrite Ec; reflexivity]. }
      destruct (Hn2 x Hxr) as [Hxl|Hxe]; [|apply (Hkeep rn); [right; left; reflexivity|exact Hxe]].
      destruct (Hn1 x Hxl) as [Hx0|Hxe]; [exact Hx0|apply (Hkeep ln); [left; reflexivity|exact Hxe]].
    - destruct (ferr f) eqn:Ef; inversion H; subst; [congruence|discriminate Hr].
  Qed.

  (* QFrame.Eval: every column of the result is a column of the original frame or the destination *)
  Theorem eval_names f dst e g :
    ferr f = false -> eval ut cx f dst e = Ok g -> ferr g = false ->
    forall m, contains g m = true -> contains f m = true \/ m = dst.
  Proof.
    intros Hf H Hg. unfold eval in H. rewrite Hf in H.
    destruct (execute ut cx e f) as [[r name]| |] eqn:E; cbn [obind] in H; try discriminate.
    inversion H; subst g. clear H.
    assert (Hc : ferr (copy r dst name) = false).
    { destruct (negb (bytes_eqb name dst) && negb (contains f name)); [apply (drop_ferr _ _ Hg)|exact Hg]. }
    pose proof (copy_ferr r dst name Hc) as Hr.
    destruct (execute_names e f r name E Hr) as [_ Hn].
    intros m Hm.
    destruct (negb (bytes_eqb name dst) && negb (contains f name)) eqn:Ed.
    - destruct (drop_names _ [name] m Hg Hm) as [Hm2 Hnot].
      destruct (copy_names r dst name m Hm2) as [Hm1| ->]; [|right; reflexivity].
      destruct (Hn m Hm1) as [Hm0| ->]; [left; exact Hm0|]. exfalso. apply Hnot. left. reflexivity.
    - destruct (copy_names r dst name m Hm) as [Hm1| ->]; [|right; reflexivity].
      destruct (Hn m Hm1) as [Hm0| ->]; [left; exact Hm0|].
      apply andb_false_iff in Ed as [Ed|Ed]; apply negb_false_iff in Ed.
      + right. apply bytes_eqb_spec. exact Ed.
      + left. exact Ed.
  Qed.
End Names.
