(* Proofs/FilterTypedStr.v — C02, typed meaning of the leaves over a STRING column (internal/scolumn):
   every built-in comparator x every argument kind, one row at a time, against Model/FilterSpec.v.
   Null: every comparison false except != (true); in / like / ilike never match a null. *)
From QF Require Import Base.Prelude Base.KernelSyntax Gen.GenConsts Gen.GenTables Gen.GenKernels.
From QF Require Import Model.Frame Model.Bits Model.Kernel Model.Filter Model.FilterSpec.
From QF Require Import Proofs.FilterProofs Proofs.FilterLeafProofs Proofs.FilterTyped.
Local Open Scope nat_scope.

Ltac rc := repeat (progress reduce_closed1).

Ltac s_model_unfold := unfold col_filter, s_filter_builtin, run_tbl; cbn [norm_strs].

Ltac s_fin :=
  unfold str_ord; cbn [cmp_str str_of null_answer is_ne_op negb andb orb map obind as_bool];
  reflexivity.

Ltac s_known rew :=
  reduce_closed1; unfold like_sat; reduce_closed1;
  try match goal with
      | |- context[find_matcher ?m ?s ?c] => destruct (find_matcher m s c) as [[?mm|]|] eqn:?Hfm
      end;
  spec_done;
  first [ exact I
        | s_model_unfold; rew; rc;
          try match goal with H : find_matcher _ _ _ = _ |- _ => rewrite ?H end;
          first [ intros i b; reflexivity
                | unfold str_set_env; eval_run; rew; cbn [obind]; kcmp;
                  cbn [obind as_bool k_inset k_match str_set_env negb]; s_fin ] ].

Ltac s_unknown rew Hunk :=
  unk Hunk; unfold like_sat; unk Hunk; spec_done;
  first [ exact I | intros i b; s_model_unfold; rew; unk Hunk; reflexivity ].

Ltac s_invalid Hv := unfold builtin_sat; cbn [cell_at norm_strs]; rewrite Hv; cbn [obind]; spec_done; intros i b; reflexivity.

Theorem colrow_str mt f d s arg p :
  p < length d -> arg_row_ok f arg p -> colrow_ok mt f (SCol d) (CmpName s) arg p.
Proof.
  intros Hp Harg. destruct (idx_lt d p Hp) as [v Hv].
  unfold colrow_ok, leaf_core, resolve.
  destruct arg as [z|fb ft|bb|str|zs|fs|ss|ifs|n| |].
  - s_invalid Hv.
  - s_invalid Hv.
  - s_invalid Hv.
  - (* string constant, incl. like / ilike *)
    unfold builtin_sat. cbn [cell_at norm_strs]. rewrite Hv. cbn [obind].
    destruct v as [x|];
      (name_cases s Hunk; [ s_known ltac:(rewrite ?Hv) .. | s_unknown ltac:(idtac) Hunk ]).
  - s_invalid Hv.
  - s_invalid Hv.
  - (* []string *)
    unfold builtin_sat. cbn [cell_at norm_strs]. rewrite Hv. cbn [obind].
    destruct v as [x|];
      (name_cases s Hunk; [ s_known ltac:(rewrite ?Hv) .. | s_unknown ltac:(idtac) Hunk ]).
  - (* []interface{} *)
    unfold builtin_sat. cbn [cell_at norm_strs]. rewrite Hv. cbn [obind].
    destruct (iface_strs ifs) as [l|] eqn:Hif.
    + destruct v as [x|];
        (name_cases s Hunk; [ s_known ltac:(rewrite ?Hv, ?Hif) .. | s_unknown ltac:(rewrite ?Hif) Hunk ]).
    + spec_done. intros i b. s_model_unfold. rewrite Hif. reflexivity.
  - (* another column *)
    unfold arg_row_ok in Harg.
    destruct (lookup_col f n) as [c2|] eqn:Hl; [|exact I].
    destruct Harg as [Hp2 _].
    destruct c2 as [d2|d2|d2|d2|d2 vs2 st2]; cbn [col_len] in Hp2;
      try (unfold builtin_sat; cbn [cell_at norm_strs]; rewrite Hv; cbn [obind]; rewrite Hl; spec_done; intros i b; reflexivity).
    destruct (idx_lt d2 p Hp2) as [w Hw].
    unfold builtin_sat. cbn [cell_at norm_strs]. rewrite Hv. cbn [obind]. rewrite Hl, Hw. cbn [obind].
    destruct v as [x|]; destruct w as [y|];
      (name_cases s Hunk; [ s_known ltac:(rewrite ?Hv, ?Hw) .. | s_unknown ltac:(idtac) Hunk ]).
  - (* nil : isnull / isnotnull *)
    unfold builtin_sat. cbn [cell_at norm_strs]. rewrite Hv. cbn [obind].
    destruct v as [x|];
      (name_cases s Hunk; [ s_known ltac:(rewrite ?Hv) .. | s_unknown ltac:(idtac) Hunk ]).
  - s_invalid Hv.
Qed.
