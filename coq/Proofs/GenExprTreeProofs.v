(* Proofs/GenExprTreeProofs.v — the definitions GENERATED from expression.go (Gen/GenExprTree.v, translator
   tools/qf2coq/exprtree.go) equal the hand-written model of Model/Eval.v, function by function, for all inputs
   and all sufficient fuel.

   Part 1 (any error type E, any payload of the unnamed dynamic types DV, float64 = FL): the decoding functions
   newColExpr .. newExprExpr / newExpr / Val / Expr equal a fuel-free reference decoder ref_newExpr / ref_Expr
   written over the generated types (it keeps the error values, so the message class of every malformed
   argument is visible).  Fuel relation: newExpr needs more than 2 * depth + 1 where depth counts nested []interface{}.
   Part 2 (FL = N): the reference decoder, seen through the abstraction abs_any / abs_expr (generated value ->
   the model's earg / expr), IS Eval.new_expr / Eval.expr_call.
   Part 3: the generated code instantiated with the model's frames (Apply = Ops.apply, Drop = Ops.drop,
   Contains = Frame.contains, functionType = lookup_col + col_ftype, GetFunc = Eval.get_func, Itoa = Eval.itoa):
   tempColName = temp_col_name, getFunc = get_fn, execute = Eval.execute for every node. *)
From QF Require Import Base.Prelude Gen.GenExprTree.
From QF Require Import Model.Frame Model.Filter Model.Ops Model.TableSpec Model.Eval Proofs.EvalFullTemp.
From QF Require Import Corr.FrameCorr Proofs.EvalFull.
Local Open Scope Z_scope.

(* ------------------------------------------------------------------ Part 1: decoding, generic *)

Section Decode.
Context {E FL DV : Type}.
Variable err_New : bytes -> bytes -> E.
Variable err_Propagate : bytes -> option E -> E.

Notation Any := (@ge_Any E FL DV).
Notation Expression := (@ge_Expression E FL DV).

Definition is_op (a : Any) : bool := match a with ge_dyn_string _ => true | _ => false end.
Definition op_of (a : Any) : bytes := match a with ge_dyn_string s => s | _ => [] end.
Definition is_col (a : Any) : bool := match a with ge_dyn_ColumnName _ => true | _ => false end.
Definition col_of (a : Any) : bytes := match a with ge_dyn_ColumnName s => s | _ => [] end.
(* newConstExpr: nil is implicitly a nil string pointer; int, float64, bool, string, *string are constants *)
Definition norm_const (a : Any) : Any := match a with ge_dyn_nil => ge_dyn_pstring None | _ => a end.
Definition is_const (a : Any) : bool :=
  match a with
  | ge_dyn_nil | ge_dyn_int _ | ge_dyn_float64 _ | ge_dyn_bool _ | ge_dyn_string _ | ge_dyn_pstring _ => true
  | _ => false
  end.

Lemma ge_opIdentifier_eq (a : Any) : ge_opIdentifier a = Ok (op_of a, is_op a).
Proof. destruct a; reflexivity. Qed.

Lemma ge_colIdentifier_eq (a : Any) : ge_colIdentifier a = Ok (col_of a, is_col a).
Proof. destruct a; reflexivity. Qed.

Lemma ge_newColExpr_eq (a : Any) : ge_newColExpr a = Ok (ge_new_colExpr (col_of a), is_col a).
Proof. unfold ge_newColExpr. rewrite ge_colIdentifier_eq. reflexivity. Qed.

Lemma ge_newConstExpr_eq (a : Any) : ge_newConstExpr a = Ok (ge_new_constExpr (norm_const a), is_const a).
Proof. destruct a; reflexivity. Qed.

(* the three list shapes *)
Definition unary_of (a : Any) : ge_unaryExpr * bool :=
  match a with
  | ge_dyn_slice [o; x] => (ge_new_unaryExpr (op_of o) (col_of x), is_op o && is_col x)
  | _ => (ge_new_unaryExpr [] [], false)
  end.
Definition colconst_of (a : Any) : @ge_colConstExpr E FL DV * bool :=
  match a with
  | ge_dyn_slice [o; x; y] =>
      if negb (is_col x) || negb (is_const y)
      then (ge_new_colConstExpr (op_of o) (col_of y) (norm_const x) true, is_col y && is_const x && is_op o)
      else (ge_new_colConstExpr (op_of o) (col_of x) (norm_const y) false, is_col x && is_const y && is_op o)
  | _ => (ge_new_colConstExpr [] [] ge_dyn_nil false, false)
  end.
Definition colcol_of (a : Any) : ge_colColExpr * bool :=
  match a with
  | ge_dyn_slice [o; x; y] => (ge_new_colColExpr (op_of o) (col_of x) (col_of y), is_op o && is_col x && is_col y)
  | _ => (ge_new_colColExpr [] [] [], false)
  end.

Lemma len2 {T} (a b : T) : (Z.of_nat (length [a; b]) =? 2) = true.
Proof. reflexivity. Qed.
Lemma len3 {T} (a b c : T) : (Z.of_nat (length [a; b; c]) =? 3) = true.
Proof. reflexivity. Qed.

Lemma ge_index0 {T} (a : T) l : ge_index (a :: l) 0 = Ok a.
Proof. reflexivity. Qed.
Lemma ge_index1 {T} (a b : T) l : ge_index (a :: b :: l) 1 = Ok b.
Proof. reflexivity. Qed.
Lemma ge_index2 {T} (a b c : T) l : ge_index (a :: b :: c :: l) 2 = Ok c.
Proof. reflexivity. Qed.

Lemma ge_newUnaryExpr_eq (a : Any) : ge_newUnaryExpr a = Ok (unary_of a).
Proof.
  destruct a as [| | | | | | | |l|]; try reflexivity.
  destruct l as [|o [|x [|y l]]]; try reflexivity.
  - unfold ge_newUnaryExpr. rewrite len2. cbn [andb]. rewrite ge_index0, ge_index1. cbn [obind].
    rewrite ge_opIdentifier_eq. cbn [obind]. rewrite ge_colIdentifier_eq. reflexivity.
  - unfold ge_newUnaryExpr. cbn [andb].
    replace (Z.of_nat (length (o :: x :: y :: l)) =? 2) with false by (cbn [length]; lia). reflexivity.
Qed.

Lemma ge_newColConstExpr_eq (a : Any) : ge_newColConstExpr a = Ok (colconst_of a).
Proof.
  destruct a as [| | | | | | | |l|]; try reflexivity.
  destruct l as [|o [|x [|y [|z l]]]]; try reflexivity.
  - unfold ge_newColConstExpr. rewrite len3. cbn [andb]. rewrite ge_index0, ge_index1, ge_index2. cbn [obind].
    rewrite ge_opIdentifier_eq. cbn [obind]. rewrite !ge_colIdentifier_eq. cbn [obind]. rewrite !ge_newConstExpr_eq. cbn [obind].
    unfold colconst_of. destruct (negb (is_col x) || negb (is_const y)); reflexivity.
  - unfold ge_newColConstExpr. cbn [andb].
    replace (Z.of_nat (length (o :: x :: y :: z :: l)) =? 3) with false by (cbn [length]; lia). reflexivity.
Qed.

Lemma ge_newColColExpr_eq (a : Any) : ge_newColColExpr a = Ok (colcol_of a).
Proof.
  destruct a as [| | | | | | | |l|]; try reflexivity.
  destruct l as [|o [|x [|y [|z l]]]]; try reflexivity.
  - unfold ge_newColColExpr. rewrite len3. cbn [andb]. rewrite ge_index0, ge_index1, ge_index2. cbn [obind].
    rewrite ge_opIdentifier_eq. cbn [obind]. rewrite !ge_colIdentifier_eq. reflexivity.
  - unfold ge_newColColExpr. cbn [andb].
    replace (Z.of_nat (length (o :: x :: y :: z :: l)) =? 3) with false by (cbn [length]; lia). reflexivity.
Qed.

(* Err(): only the error node carries one *)
Definition err_of (e : Expression) : option E := match e with ge_mk_errorExpr x => x | _ => None end.

Lemma ge_Expression_Err_eq (e : Expression) : ge_Expression_Err e = Ok (err_of e).
Proof. destruct e; reflexivity. Qed.

(* the message formats of newExprExpr and Expr *)
Definition s_newExprExpr : bytes := bs 11 0x6e65774578707245787072.
Definition m_invalid_op : bytes := bs 21 0x696e76616c6964206f7065726174696f6e3a202576.
Definition m_bad_len : bytes := bs 51 0x45787065637465642061206c69737420776974682074776f206f7220746872656520656c656d656e74732c207761733a202576.
Definition m_not_list : bytes := bs 36 0x45787065637465642061206c697374206f6620656c656d656e74732c207761733a202576.
Definition s_Expr : bytes := bs 4 0x45787072.
Definition m_no_args : bytes := bs 41 0x45787072657373696f6e732072657175697265206174206c65617374206f6e6520617267756d656e74.

Definition mk_err (e : E) : Expression := ge_mk_errorExpr (Some e).
Definition propagate (e : Expression) (k : Expression) : Expression :=
  match err_of e with
  | Some x => mk_err (err_Propagate s_newExprExpr (Some x))
  | None => k
  end.

(* the reference decoder: newExpr, without fuel, by recursion over the argument *)
Fixpoint ref_newExpr (a : Any) {struct a} : Expression :=
  match a with
  | ge_dyn_Expression e => e
  | ge_dyn_ColumnName n => ge_mk_colExpr n
  | ge_dyn_nil => ge_mk_constExpr (ge_dyn_pstring None)
  | ge_dyn_int _ | ge_dyn_float64 _ | ge_dyn_bool _ | ge_dyn_string _ | ge_dyn_pstring _ => ge_mk_constExpr a
  | ge_dyn_other _ => mk_err (err_New s_newExprExpr m_not_list)
  | ge_dyn_slice l =>
      match l with
      | [o; x] =>
          if is_op o && is_col x then ge_mk_unaryExpr (op_of o) (col_of x)
          else if negb (is_op o) then mk_err (err_New s_newExprExpr m_invalid_op)
          else let lhs := ref_newExpr x in propagate lhs (ge_mk_exprExpr1 (op_of o) lhs)
      | [o; x; y] =>
          if snd (colconst_of a) then ge_colConstExpr_box (fst (colconst_of a))
          else if snd (colcol_of a) then ge_colColExpr_box (fst (colcol_of a))
          else if negb (is_op o) then mk_err (err_New s_newExprExpr m_invalid_op)
          else let lhs := ref_newExpr x in
               propagate lhs (let rhs := ref_newExpr y in propagate rhs (ge_mk_exprExpr2 (op_of o) lhs rhs))
      | _ => mk_err (err_New s_newExprExpr m_bad_len)
      end
  end.

(* nesting depth of []interface{} *)
Fixpoint depth (a : Any) : nat :=
  match a with
  | ge_dyn_slice l => S (fold_right (fun x acc => Nat.max (depth x) acc) 0%nat l)
  | _ => 0%nat
  end.

Lemma depth_elem (l : list Any) x : In x l -> (depth x < depth (ge_dyn_slice l))%nat.
Proof.
  intro H. cbn [depth]. induction l as [|y l IH]; [destruct H|].
  cbn [fold_right]. destruct H as [->|H]; [lia|]. specialize (IH H). lia.
Qed.

Lemma ge_newExpr_S fuel (a : Any) :
  ge_newExpr err_New err_Propagate (S fuel) a =
  match a with
  | ge_dyn_Expression e => Ok e
  | _ =>
      if is_col a then Ok (ge_mk_colExpr (col_of a))
      else if is_const a then Ok (ge_mk_constExpr (norm_const a))
      else if snd (unary_of a) then Ok (ge_unaryExpr_box (fst (unary_of a)))
      else if snd (colconst_of a) then Ok (ge_colConstExpr_box (fst (colconst_of a)))
      else if snd (colcol_of a) then Ok (ge_colColExpr_box (fst (colcol_of a)))
      else ge_newExprExpr err_New err_Propagate fuel a
  end.
Proof.
  cbn [ge_newExpr]. fold (@ge_newExprExpr E FL DV err_New err_Propagate).
  rewrite ge_newColExpr_eq, ge_newConstExpr_eq, ge_newUnaryExpr_eq, ge_newColConstExpr_eq, ge_newColColExpr_eq.
  cbn [obind].
  destruct a; try reflexivity;
    cbn [is_col is_const col_of norm_const ge_colExpr_box ge_constExpr_box ge_colExpr_f_srcCol ge_constExpr_f_value];
    try reflexivity.
  - destruct (unary_of _) as [u bu]. cbn [fst snd]. destruct bu; [reflexivity|].
    destruct (colconst_of _) as [c bc]. cbn [fst snd]. destruct bc; [reflexivity|].
    destruct (colcol_of _) as [d bd]. cbn [fst snd]. destruct bd; [reflexivity|].
    destruct (ge_newExprExpr _ _ _ _); reflexivity.
  - destruct (ge_newExprExpr _ _ _ _); reflexivity.
Qed.

Lemma ge_newExprExpr_S fuel (a : Any) :
  ge_newExprExpr err_New err_Propagate (S fuel) a =
  match a with
  | ge_dyn_slice [o; x] =>
      if negb (is_op o) then Ok (mk_err (err_New s_newExprExpr m_invalid_op))
      else do lhs <- ge_newExpr err_New err_Propagate fuel x;
           Ok (propagate lhs (ge_mk_exprExpr1 (op_of o) lhs))
  | ge_dyn_slice [o; x; y] =>
      if negb (is_op o) then Ok (mk_err (err_New s_newExprExpr m_invalid_op))
      else do lhs <- ge_newExpr err_New err_Propagate fuel x;
           match err_of lhs with
           | Some e => Ok (mk_err (err_Propagate s_newExprExpr (Some e)))
           | None => do rhs <- ge_newExpr err_New err_Propagate fuel y;
                     Ok (propagate rhs (ge_mk_exprExpr2 (op_of o) lhs rhs))
           end
  | ge_dyn_slice _ => Ok (mk_err (err_New s_newExprExpr m_bad_len))
  | _ => Ok (mk_err (err_New s_newExprExpr m_not_list))
  end.
Proof.
  destruct a as [| | | | | | | |l|]; try reflexivity.
  destruct l as [|o [|x [|y [|z l]]]]; try reflexivity.
  - (* two elements *)
    cbn [ge_newExprExpr]. fold (@ge_newExpr E FL DV err_New err_Propagate). cbn [length Z.of_nat Pos.of_succ_nat Pos.succ Z.eqb Pos.eqb orb].
    rewrite ge_index0. cbn [obind]. rewrite ge_opIdentifier_eq. cbn [obind].
    destruct (is_op o); cbn [negb]; [|reflexivity].
    rewrite ge_index1. cbn [obind].
    destruct (ge_newExpr err_New err_Propagate fuel x) as [lhs| |]; try reflexivity. cbn [obind].
    rewrite ge_Expression_Err_eq. cbn [obind]. unfold propagate.
    destruct (err_of lhs); reflexivity.
  - (* three elements *)
    cbn [ge_newExprExpr]. fold (@ge_newExpr E FL DV err_New err_Propagate). cbn [length Z.of_nat Pos.of_succ_nat Pos.succ Z.eqb Pos.eqb orb].
    rewrite ge_index0. cbn [obind]. rewrite ge_opIdentifier_eq. cbn [obind].
    destruct (is_op o); cbn [negb]; [|reflexivity].
    rewrite ge_index1. cbn [obind].
    destruct (ge_newExpr err_New err_Propagate fuel x) as [lhs| |]; try reflexivity. cbn [obind].
    rewrite ge_Expression_Err_eq. cbn [obind].
    destruct (err_of lhs); cbn [ge_isnil negb]; [reflexivity|].
    rewrite ge_index2. cbn [obind].
    destruct (ge_newExpr err_New err_Propagate fuel y) as [rhs| |]; try reflexivity. cbn [obind].
    rewrite ge_Expression_Err_eq. cbn [obind]. unfold propagate.
    destruct (err_of rhs); reflexivity.
  - (* four or more *)
    cbn [ge_newExprExpr].
    replace ((Z.of_nat (length (o :: x :: y :: z :: l)) =? 2) || (Z.of_nat (length (o :: x :: y :: z :: l)) =? 3))
      with false by (cbn [length]; lia).
    reflexivity.
Qed.

(* newExpr = the reference decoder; fuel: more than 2 * depth + 1 *)
Theorem ge_newExpr_ref : forall (fuel : nat) (a : Any), (2 * depth a + 1 < fuel)%nat ->
  ge_newExpr err_New err_Propagate fuel a = Ok (ref_newExpr a).
Proof.
  induction fuel as [fuel IH] using lt_wf_ind. intros a Hf.
  destruct fuel as [|fuel]; [lia|]. rewrite ge_newExpr_S.
  destruct a as [| | | | | | | |l|d]; try reflexivity.
  2: { cbn [is_col is_const unary_of colconst_of colcol_of fst snd].
       destruct fuel as [|fuel]; [cbn [depth] in Hf; lia|]. rewrite ge_newExprExpr_S. reflexivity. }
  cbn [is_col is_const].
  destruct l as [|o [|x [|y [|z l]]]].
  - (* [] *) cbn [unary_of colconst_of colcol_of fst snd].
    destruct fuel as [|fuel]; [cbn [depth fold_right] in Hf; lia|]. rewrite ge_newExprExpr_S. reflexivity.
  - cbn [unary_of colconst_of colcol_of fst snd].
    destruct fuel as [|fuel]; [cbn [depth fold_right] in Hf; lia|]. rewrite ge_newExprExpr_S. reflexivity.
  - (* [o; x] *)
    cbn [unary_of colconst_of colcol_of fst snd ref_newExpr].
    destruct (is_op o && is_col x) eqn:Eu; [reflexivity|].
    destruct fuel as [|fuel]; [cbn [depth fold_right] in Hf; lia|]. rewrite ge_newExprExpr_S.
    destruct (negb (is_op o)); [reflexivity|].
    assert (Hx : (depth x < depth (ge_dyn_slice [o; x]))%nat) by (apply depth_elem; right; left; reflexivity).
    rewrite (IH fuel) by lia. reflexivity.
  - (* [o; x; y] *)
    cbn [unary_of fst snd]. cbn [ref_newExpr].
    destruct (snd (colconst_of (ge_dyn_slice [o; x; y]))) eqn:Ec; [reflexivity|].
    destruct (snd (colcol_of (ge_dyn_slice [o; x; y]))) eqn:Ed; [reflexivity|].
    destruct fuel as [|fuel]; [cbn [depth fold_right] in Hf; lia|]. rewrite ge_newExprExpr_S.
    destruct (negb (is_op o)); [reflexivity|].
    assert (Hx : (depth x < depth (ge_dyn_slice [o; x; y]))%nat) by (apply depth_elem; right; left; reflexivity).
    assert (Hy : (depth y < depth (ge_dyn_slice [o; x; y]))%nat) by (apply depth_elem; right; right; left; reflexivity).
    rewrite (IH fuel) by lia. cbn [obind].
    destruct (err_of (ref_newExpr x)) eqn:Ex; [unfold propagate; rewrite Ex; reflexivity|].
    rewrite (IH fuel) by lia. cbn [obind]. unfold propagate at 2. rewrite Ex. reflexivity.
  - (* longer *)
    cbn [unary_of colconst_of colcol_of fst snd].
    destruct fuel as [|fuel]; [cbn [depth fold_right] in Hf; lia|]. rewrite ge_newExprExpr_S. reflexivity.
Qed.

Theorem ge_newExprExpr_ref (fuel : nat) (a : Any) : (2 * depth a + 1 <= fuel)%nat ->
  is_col a = false -> is_const a = false -> snd (unary_of a) = false -> snd (colconst_of a) = false ->
  snd (colcol_of a) = false -> (forall e, a <> ge_dyn_Expression e) ->
  ge_newExprExpr err_New err_Propagate (S fuel) a = Ok (ref_newExpr a).
Proof.
  intros Hf H1 H2 H3 H4 H5 H6.
  rewrite <- (ge_newExpr_ref (S (S fuel)) a) by lia. rewrite ge_newExpr_S.
  destruct a; try (rewrite H1, H2, H3, H4, H5; reflexivity). exfalso. now apply (H6 v).
Qed.

Theorem ge_Val_ref (fuel : nat) (a : Any) : (2 * depth a + 2 < fuel)%nat ->
  ge_Val err_New err_Propagate fuel a = Ok (ref_newExpr a).
Proof.
  intro Hf. destruct fuel as [|fuel]; [lia|]. unfold ge_Val. rewrite ge_newExpr_ref by lia. reflexivity.
Qed.

(* Expr(name, args...) *)
Definition call1 (name : bytes) (x : Any) : Any := ge_dyn_slice [ge_dyn_string name; x].
Definition call2 (name : bytes) (x y : Any) : Any := ge_dyn_slice [ge_dyn_string name; x; y].

Definition ref_Expr (name : bytes) (args : list Any) : Expression :=
  match args with
  | [] => mk_err (err_New s_Expr m_no_args)
  | [x] => ref_newExpr (call1 name x)
  | x :: y :: rest =>
      fold_left (fun acc z => ref_newExpr (call2 name (ge_dyn_Expression acc) z)) rest (ref_newExpr (call2 name x y))
  end.

Definition depth_list (l : list Any) : nat := fold_right (fun x acc => Nat.max (depth x) acc) 0%nat l.

Lemma depth_call2 name x y : depth (call2 name x y) = S (Nat.max (depth x) (depth y)).
Proof. unfold call2. cbn [depth fold_right]. lia. Qed.

Lemma copy_tail {T} (z : T) (e : T) (rest : list T) :
  ge_copy_at (set_nth (z :: repeat z (length rest)) 0 e) 1 rest = Ok (e :: rest).
Proof.
  unfold ge_copy_at. cbn [repeat set_nth length].
  replace ((1 <? 0) || (Z.of_nat (S (length (repeat z (length rest)))) <? 1)) with false by lia.
  change (Z.to_nat 1) with 1%nat. cbn [skipn firstn]. rewrite repeat_length.
  rewrite firstn_all. rewrite skipn_all2 by (rewrite repeat_length; lia). rewrite app_nil_r. reflexivity.
Qed.

Theorem ge_Expr_ref name : forall (args : list Any) (fuel : nat),
  (2 * depth_list args + 4 + length args < fuel)%nat ->
  ge_Expr err_New err_Propagate fuel name args = Ok (ref_Expr name args).
Proof.
  intros args. remember (length args) as n eqn:Hn. revert args Hn.
  induction n as [n IH] using lt_wf_ind. intros args Hn fuel Hf. subst n.
  destruct fuel as [|fuel]; [lia|].
  destruct args as [|x [|y [|z rest]]].
  - reflexivity.
  - cbn [ge_Expr]. cbn [length Z.of_nat Pos.of_succ_nat Z.eqb]. rewrite ge_index0. cbn [obind].
    rewrite ge_newExpr_ref; [reflexivity|]. cbn [depth_list fold_right] in Hf. cbn [depth fold_right]. lia.
  - cbn [ge_Expr]. cbn [length Z.of_nat Pos.of_succ_nat Pos.succ Z.eqb Pos.eqb]. rewrite ge_index0, ge_index1. cbn [obind].
    rewrite ge_newExpr_ref; [reflexivity|]. cbn [depth_list fold_right] in Hf. cbn [depth fold_right]. lia.
  - cbn [ge_Expr].
    replace (Z.of_nat (length (x :: y :: z :: rest)) =? 0) with false by (cbn [length]; lia).
    replace (Z.of_nat (length (x :: y :: z :: rest)) =? 1) with false by (cbn [length]; lia).
    replace (Z.of_nat (length (x :: y :: z :: rest)) =? 2) with false by (cbn [length]; lia).
    unfold ge_make.
    replace (Z.of_nat (length (x :: y :: z :: rest)) - 1 <? 0) with false by (cbn [length]; lia).
    cbn [obind]. rewrite ge_index0, ge_index1. cbn [obind].
    cbn [depth_list fold_right] in Hf.
    rewrite ge_newExpr_ref by (cbn [depth fold_right]; lia). cbn [obind].
    replace (Z.to_nat (Z.of_nat (length (x :: y :: z :: rest)) - 1)) with (S (length (z :: rest))) by (cbn [length]; lia).
    unfold ge_update. cbn [Z.ltb Z.compare Z.to_nat idx repeat nth_error of_option obind].
    unfold ge_from.
    replace ((2 <? 0) || (Z.of_nat (length (x :: y :: z :: rest)) <? 2)) with false by (cbn [length]; lia).
    cbn [obind]. change (Z.to_nat 2) with 2%nat. cbn [skipn].
    rewrite copy_tail. cbn [obind].
    rewrite (IH (length (ge_dyn_Expression (ref_newExpr (call2 name x y)) :: z :: rest))); try reflexivity.
    + cbn [length]. lia.
    + cbn [length] in *. cbn [depth_list fold_right depth]. fold (depth_list rest) in *. lia.
Qed.

(* the error node of the malformed shapes *)
Lemma ref_error_class :
  (forall d : DV, ref_newExpr (ge_dyn_other d) = mk_err (err_New s_newExprExpr m_not_list))
  /\ ref_newExpr (ge_dyn_slice []) = mk_err (err_New s_newExprExpr m_bad_len)
  /\ (forall a : Any, ref_newExpr (ge_dyn_slice [a]) = mk_err (err_New s_newExprExpr m_bad_len))
  /\ (forall a b c d l, ref_newExpr (ge_dyn_slice (a :: b :: c :: d :: l)) = mk_err (err_New s_newExprExpr m_bad_len))
  /\ (forall o x : Any, is_op o = false ->
        ref_newExpr (ge_dyn_slice [o; x]) = mk_err (err_New s_newExprExpr m_invalid_op))
  /\ (forall (op : bytes) (x : Any) e, is_col x = false -> err_of (ref_newExpr x) = Some e ->
        ref_newExpr (ge_dyn_slice [ge_dyn_string op; x]) = mk_err (err_Propagate s_newExprExpr (Some e)))
  /\ ref_Expr [] (@nil Any) = mk_err (err_New s_Expr m_no_args).
Proof.
  repeat split; try reflexivity.
  - intros o x Ho. cbn [ref_newExpr]. rewrite Ho. reflexivity.
  - intros op x e Hc He. cbn [ref_newExpr is_op andb negb]. rewrite Hc. cbv zeta. unfold propagate. rewrite He. reflexivity.
Qed.

End Decode.

(* ------------------------------------------------------------------ Part 2: the abstraction to the model *)

Section Abstraction.
Context {E DV : Type}.
Variable err_New : bytes -> bytes -> E.
Variable err_Propagate : bytes -> option E -> E.

Notation Any := (@ge_Any E N DV).
Notation Expression := (@ge_Expression E N DV).

(* THE REPRESENTATION RELATION.  A Go interface{} value is abstracted to the model's tagged union earg: float64 is
   its bit pattern (FL = N), a string constant and a string pointer both become a CStr cell, the unnamed dynamic
   types collapse into EOther, an Expression value is abstracted node by node; the error value of an error node is
   forgotten (the model has one XError). *)
Definition cell_of (a : Any) : cell :=
  match a with
  | ge_dyn_int z => CInt z
  | ge_dyn_float64 b => CFloat b
  | ge_dyn_bool b => CBool b
  | ge_dyn_string s => CStr (Some s)
  | ge_dyn_pstring p => CStr p
  | _ => CStr None
  end.

Fixpoint abs_expr (e : Expression) {struct e} : expr :=
  match e with
  | ge_mk_colExpr n => XCol n
  | ge_mk_constExpr v => XConst (cell_of v)
  | ge_mk_unaryExpr op c => XUnary op c
  | ge_mk_colConstExpr op c v fl => XColConst op c (cell_of v) fl
  | ge_mk_colColExpr op c1 c2 => XColCol op c1 c2
  | ge_mk_exprExpr1 op s => XExpr1 op (abs_expr s)
  | ge_mk_exprExpr2 op l r => XExpr2 op (abs_expr l) (abs_expr r)
  | ge_mk_errorExpr _ => XError
  end.

Fixpoint abs_any (a : Any) {struct a} : earg :=
  match a with
  | ge_dyn_nil => ENil
  | ge_dyn_Expression e => EBuilt (abs_expr e)
  | ge_dyn_string s => EStr s
  | ge_dyn_ColumnName n => EColName n
  | ge_dyn_int z => EConst (CInt z)
  | ge_dyn_float64 b => EConst (CFloat b)
  | ge_dyn_bool b => EConst (CBool b)
  | ge_dyn_pstring p => EConst (CStr p)
  | ge_dyn_slice l => EList (map abs_any l)
  | ge_dyn_other _ => EOther
  end.

(* well-formed values: what the package can build.  A constant node holds a constant (nil already replaced by the
   nil string pointer), an error node holds an error. *)
Definition stored_const (v : Any) : bool := is_const v && negb (ge_Any_isnil v).

Fixpoint wf_expr (e : Expression) {struct e} : bool :=
  match e with
  | ge_mk_constExpr v => stored_const v
  | ge_mk_colConstExpr _ _ v _ => stored_const v
  | ge_mk_exprExpr1 _ s => wf_expr s
  | ge_mk_exprExpr2 _ l r => wf_expr l && wf_expr r
  | ge_mk_errorExpr x => negb (ge_isnil x)
  | _ => true
  end.

Fixpoint wf_any (a : Any) {struct a} : bool :=
  match a with
  | ge_dyn_Expression e => wf_expr e
  | ge_dyn_slice l => forallb wf_any l
  | _ => true
  end.

Lemma as_op_abs (a : Any) : as_op (abs_any a) = if is_op a then Some (op_of a) else None.
Proof. destruct a; reflexivity. Qed.
Lemma as_col_abs (a : Any) : as_col (abs_any a) = if is_col a then Some (col_of a) else None.
Proof. destruct a; reflexivity. Qed.
Lemma as_const_abs (a : Any) : as_const (abs_any a) = if is_const a then Some (cell_of (norm_const a)) else None.
Proof. destruct a; reflexivity. Qed.
Lemma stored_norm (a : Any) : is_const a = true -> stored_const (norm_const a) = true.
Proof. destruct a; intro H; try discriminate H; reflexivity. Qed.

Lemma xerror_abs (e : Expression) : wf_expr e = true -> is_xerror (abs_expr e) = negb (ge_isnil (err_of e)).
Proof. destruct e; cbn [wf_expr abs_expr is_xerror err_of ge_isnil negb]; intro H; try reflexivity. now rewrite H. Qed.

Lemma new_expr_2 o a :
  new_expr (EList [o; a]) =
  match as_op o, as_col a with
  | Some op, Some c => XUnary op c
  | _, _ => match as_op o with
            | None => XError
            | Some op => let lhs := new_expr a in if is_xerror lhs then XError else XExpr1 op lhs
            end
  end.
Proof. reflexivity. Qed.

Lemma new_expr_3 o a b :
  new_expr (EList [o; a; b]) =
  let cc :=
    match as_col a, as_const b with
    | Some c, Some k => Some (c, k, false)
    | _, _ => match as_col b, as_const a with
              | Some c, Some k => Some (c, k, true)
              | _, _ => None
              end
    end in
  match as_op o, cc with
  | Some op, Some (c, k, flipped) => XColConst op c k flipped
  | _, _ =>
      match as_op o, as_col a, as_col b with
      | Some op, Some c1, Some c2 => XColCol op c1 c2
      | _, _, _ =>
          match as_op o with
          | None => XError
          | Some op =>
              let lhs := new_expr a in
              if is_xerror lhs then XError
              else let rhs := new_expr b in
                   if is_xerror rhs then XError else XExpr2 op lhs rhs
          end
      end
  end.
Proof. reflexivity. Qed.

Lemma propagate_abs (e k : Expression) (m : expr) : wf_expr e = true -> wf_expr k = true ->
  abs_expr k = m ->
  abs_expr (propagate err_Propagate e k) = (if is_xerror (abs_expr e) then XError else m)
  /\ wf_expr (propagate err_Propagate e k) = true.
Proof.
  intros He Hk Hm. rewrite (xerror_abs e He). unfold propagate.
  destruct (err_of e); cbn [ge_isnil negb]; [split; reflexivity|]. now split.
Qed.

Lemma propagate_wf (e k : Expression) : wf_expr e = true -> wf_expr k = true ->
  wf_expr (propagate err_Propagate e k) = true.
Proof. intros He Hk. exact (proj2 (propagate_abs e k _ He Hk eq_refl)). Qed.

(* the reference decoder, seen through the abstraction, is Eval.new_expr — on every well-formed argument *)
Theorem ref_newExpr_abs : forall (n : nat) (a : Any), (depth a < n)%nat -> wf_any a = true ->
  abs_expr (ref_newExpr err_New err_Propagate a) = new_expr (abs_any a)
  /\ wf_expr (ref_newExpr err_New err_Propagate a) = true.
Proof.
  induction n as [|n IH]; intros a Hd Hw; [lia|].
  destruct a as [|e|s|c|z|b|b|p|l|d]; try (split; reflexivity).
  - (* an Expression value *) split; [reflexivity|exact Hw].
  - destruct l as [|o [|x [|y [|z l]]]]; try (split; reflexivity).
    + (* [o; x] *)
      cbn [abs_any map]. rewrite new_expr_2, as_op_abs, as_col_abs. cbn [ref_newExpr].
      assert (Hx : (depth x < n)%nat).
      { assert ((depth x < depth (ge_dyn_slice [o; x]))%nat) by (apply depth_elem; right; left; reflexivity). lia. }
      assert (Hwx : wf_any x = true).
      { cbn [wf_any forallb] in Hw. destruct (wf_any o); [|discriminate Hw]. destruct (wf_any x); [reflexivity|discriminate Hw]. }
      destruct (IH x Hx Hwx) as [IHa IHw].
      destruct (is_op o) eqn:Eo; destruct (is_col x) eqn:Ec; cbn [andb negb]; try (split; reflexivity).
      cbv zeta. rewrite <- IHa.
      apply propagate_abs; [exact IHw|exact IHw|reflexivity].
    + (* [o; x; y] *)
      cbn [abs_any map]. rewrite new_expr_3, as_op_abs, !as_col_abs, !as_const_abs. cbn [ref_newExpr].
      assert (Hx : (depth x < n)%nat).
      { assert ((depth x < depth (ge_dyn_slice [o; x; y]))%nat) by (apply depth_elem; right; left; reflexivity). lia. }
      assert (Hy : (depth y < n)%nat).
      { assert ((depth y < depth (ge_dyn_slice [o; x; y]))%nat) by (apply depth_elem; right; right; left; reflexivity). lia. }
      assert (Hwx : wf_any x = true /\ wf_any y = true).
      { cbn [wf_any forallb] in Hw. destruct (wf_any o); [|discriminate Hw]. destruct (wf_any x); [|discriminate Hw].
        destruct (wf_any y); [split; reflexivity|discriminate Hw]. }
      destruct Hwx as [Hwx Hwy].
      destruct (IH x Hx Hwx) as [IHa IHw]. destruct (IH y Hy Hwy) as [IHb IHwb].
      unfold colconst_of, colcol_of.
      destruct (is_op o) eqn:Eo; destruct (is_col x) eqn:Ecx; destruct (is_const x) eqn:Ekx;
        destruct (is_col y) eqn:Ecy; destruct (is_const y) eqn:Eky;
        cbn [andb orb negb fst snd ge_colConstExpr_box ge_colColExpr_box abs_expr wf_expr
             ge_colConstExpr_f_operation ge_colConstExpr_f_srcCol ge_colConstExpr_f_value ge_colConstExpr_f_constFirst
             ge_colColExpr_f_operation ge_colColExpr_f_srcCol1 ge_colColExpr_f_srcCol2];
        try (split; [reflexivity|first [reflexivity|apply stored_norm; assumption]]).
      all: cbv zeta; rewrite <- IHa, <- IHb.
      all: apply propagate_abs; [exact IHw| |].
      all: try (apply propagate_abs; [exact IHwb|cbn [wf_expr]; rewrite IHw, IHwb; reflexivity|reflexivity]).
      all: apply propagate_wf; [exact IHwb|cbn [wf_expr]; rewrite IHw, IHwb; reflexivity].
Qed.

Theorem ref_newExpr_model (a : Any) : wf_any a = true ->
  abs_expr (ref_newExpr err_New err_Propagate a) = new_expr (abs_any a).
Proof. intro H. exact (proj1 (ref_newExpr_abs (S (depth a)) a (Nat.lt_succ_diag_r _) H)). Qed.

Theorem ref_newExpr_wf (a : Any) : wf_any a = true -> wf_expr (ref_newExpr err_New err_Propagate a) = true.
Proof. intro H. exact (proj2 (ref_newExpr_abs (S (depth a)) a (Nat.lt_succ_diag_r _) H)). Qed.

(* Expr(name, args...) = Eval.expr_call *)
Lemma ref_fold_abs name : forall (rest : list Any) (acc : Expression),
  wf_expr acc = true -> forallb wf_any rest = true ->
  abs_expr (fold_left (fun acc z => ref_newExpr err_New err_Propagate (call2 name (ge_dyn_Expression acc) z)) rest acc)
  = fold_left (fun acc x => new_expr (EList [EStr name; EBuilt acc; x])) (map abs_any rest) (abs_expr acc)
  /\ wf_expr (fold_left (fun acc z => ref_newExpr err_New err_Propagate (call2 name (ge_dyn_Expression acc) z)) rest acc) = true.
Proof.
  induction rest as [|z rest IH]; intros acc Ha Hr; [split; [reflexivity|exact Ha]|].
  cbn [forallb] in Hr. destruct (wf_any z) eqn:Hz; [|discriminate Hr]. cbn [andb] in Hr.
  assert (Hc : wf_any (call2 name (ge_dyn_Expression acc) z) = true).
  { unfold call2. cbn [wf_any forallb]. rewrite Ha, Hz. reflexivity. }
  cbn [fold_left map].
  destruct (IH (ref_newExpr err_New err_Propagate (call2 name (ge_dyn_Expression acc) z)) (ref_newExpr_wf _ Hc) Hr) as [H1 H2].
  split; [|exact H2]. rewrite H1. rewrite (ref_newExpr_model _ Hc). reflexivity.
Qed.

Theorem ref_Expr_abs name (args : list Any) : forallb wf_any args = true ->
  abs_expr (ref_Expr err_New err_Propagate name args) = expr_call name (map abs_any args)
  /\ wf_expr (ref_Expr err_New err_Propagate name args) = true.
Proof.
  intro Hw. destruct args as [|x [|y rest]].
  - split; reflexivity.
  - cbn [forallb] in Hw. destruct (wf_any x) eqn:Hx; [|discriminate Hw].
    assert (Hc : wf_any (call1 name x) = true) by (unfold call1; cbn [wf_any forallb]; rewrite Hx; reflexivity).
    cbn [ref_Expr map expr_call]. split; [exact (ref_newExpr_model _ Hc)|exact (ref_newExpr_wf _ Hc)].
  - cbn [forallb] in Hw. destruct (wf_any x) eqn:Hx; [|discriminate Hw]. destruct (wf_any y) eqn:Hy; [|discriminate Hw].
    cbn [andb] in Hw.
    assert (Hc : wf_any (call2 name x y) = true) by (unfold call2; cbn [wf_any forallb]; rewrite Hx, Hy; reflexivity).
    cbn [ref_Expr map expr_call].
    destruct (ref_fold_abs name rest _ (ref_newExpr_wf _ Hc) Hw) as [H1 H2].
    split; [|exact H2]. rewrite H1. rewrite (ref_newExpr_model _ Hc). reflexivity.
Qed.

(* newExpr / Expr against the model, in one statement each *)
Theorem ge_newExpr_model (fuel : nat) (a : Any) : wf_any a = true -> (2 * depth a + 1 < fuel)%nat ->
  exists e, ge_newExpr err_New err_Propagate fuel a = Ok e
            /\ abs_expr e = new_expr (abs_any a) /\ wf_expr e = true.
Proof.
  intros Hw Hf. exists (ref_newExpr err_New err_Propagate a).
  split; [exact (ge_newExpr_ref err_New err_Propagate fuel a Hf)|].
  split; [exact (ref_newExpr_model a Hw)|exact (ref_newExpr_wf a Hw)].
Qed.

Theorem ge_Expr_model (fuel : nat) (name : bytes) (args : list Any) : forallb wf_any args = true ->
  (2 * depth_list args + 4 + length args < fuel)%nat ->
  exists e, ge_Expr err_New err_Propagate fuel name args = Ok e
            /\ abs_expr e = expr_call name (map abs_any args) /\ wf_expr e = true.
Proof.
  intros Hw Hf. exists (ref_Expr err_New err_Propagate name args).
  split; [exact (ge_Expr_ref err_New err_Propagate name args fuel Hf)|exact (ref_Expr_abs name args Hw)].
Qed.

End Abstraction.

(* ------------------------------------------------------------------ Part 3: execution on the model's frames *)

(* error values as free terms: the operation, the message format, the propagated source *)
Inductive err_msg := XNew (op fmt : bytes) | XProp (op : bytes) (src : option err_msg).

Notation MAny := (@ge_Any err_msg N afn).
Notation MExpression := (@ge_Expression err_msg N afn).
Notation MInstruction := (@ge_Instruction err_msg N afn).

(* the model keeps only the flag of qf.Err *)
Definition m_Err (f : frame) : option err_msg := if ferr f then Some (XNew [] []) else None.
Definition m_withErr (f : frame) (e : option err_msg) : frame :=
  match e with Some _ => with_err f | None => mkFrame (cols f) (ix f) false end.
Definition m_Contains (f : frame) (n : bytes) : outcome bool := Ok (contains f n).
Definition m_Drop (f : frame) (ns : list bytes) : outcome frame := Ok (drop f ns).
Definition s_functionType : bytes := bs 12 0x66756e6374696f6e54797065.
(* types.FunctionType is the model's ctype (enum columns answer string); an unknown column is an error *)
Definition m_functionType (f : frame) (n : bytes) : outcome (ctype * option err_msg) :=
  Ok (match lookup_col f n with
      | Some c => (col_ftype c, None)
      | None => (TInt, Some (XNew s_functionType []))
      end).
Definition m_Itoa (z : Z) : bytes := itoa (Z.to_nat z).
(* reflection inside Apply as the model's tagged union: constants, a column name, a function of the context *)
Definition afn_of (a : MAny) : afn :=
  match a with
  | ge_dyn_int z => F0Const (CInt z)
  | ge_dyn_float64 b => F0Const (CFloat b)
  | ge_dyn_bool b => F0Const (CBool b)
  | ge_dyn_string s => F0Const (CStr (Some s))
  | ge_dyn_pstring p => F0Const (CStr p)
  | ge_dyn_ColumnName n => F0ColName n
  | ge_dyn_other fn => fn
  | _ => FOther
  end.
Definition instr_of (i : MInstruction) : instr :=
  mkInstr (afn_of (ge_Instruction_f_Fn i)) (ge_Instruction_f_DstCol i) (ge_Instruction_f_SrcCol1 i) (ge_Instruction_f_SrcCol2 i).

Section Exec.
Variable ut : upper_table.

Definition m_Apply (f : frame) (is : list MInstruction) : outcome frame := apply ut f (map instr_of is).
(* eval.ArgCountOne = false, eval.ArgCountTwo = true *)
Definition m_GetFunc (cx : ctx) (t : ctype) (two : bool) (name : bytes) : outcome (MAny * bool) :=
  Ok (match get_func cx t two name with Some fn => (ge_dyn_other fn, true) | None => (ge_dyn_nil, false) end).

Definition g_tempColName := @ge_tempColName frame m_Contains m_Itoa.
Definition g_getFunc := @ge_getFunc frame ctx bool ctype err_msg N afn m_Err m_withErr m_functionType XNew XProp m_GetFunc.
Definition g_execute :=
  @ge_Expression_execute frame ctx bool ctype err_msg N afn m_Err m_withErr m_Contains m_Drop m_functionType XNew XProp
    false true m_Itoa m_Apply m_GetFunc.

(* tempColName *)
Lemma g_temp_loop (f : frame) (prefix : bytes) : forall (m i k : nat),
  (i + m = N.to_nat 10000)%nat -> (m <= k)%nat ->
  ge_tempColName_loop1 m_Contains m_Itoa k f prefix (Z.of_nat i) = tgo f prefix m i.
Proof.
  induction m as [|m IH]; intros i k Hi Hk.
  - destruct k as [|k]; [reflexivity|]. cbn [ge_tempColName_loop1 tgo].
    replace (Z.of_nat i <? 10000) with false by lia. reflexivity.
  - destruct k as [|k]; [lia|]. cbn [ge_tempColName_loop1]. rewrite tgo_S.
    replace (Z.of_nat i <? 10000) with true by lia.
    cbv zeta. unfold m_Contains at 1. cbn [obind]. unfold m_Itoa at 1 2. rewrite !Nat2Z.id.
    change (bs 6 0x2d74656d702d) with temp_suffix. rewrite <- !app_assoc.
    destruct (contains f (prefix ++ temp_suffix ++ itoa i)); cbn [negb]; [|reflexivity].
    replace (Z.of_nat i + 1) with (Z.of_nat (S i)) by lia. apply IH; lia.
Qed.

(* tempColName = the model's, for every frame; fuel: more than 10000 *)
Theorem g_tempColName_eq (fuel : nat) (f : frame) (prefix : bytes) : (N.to_nat 10000 < fuel)%nat ->
  g_tempColName fuel f prefix = temp_col_name f prefix.
Proof.
  intro Hf. destruct fuel as [|fuel]; [lia|]. unfold g_tempColName, ge_tempColName.
  rewrite temp_col_name_tgo. apply (g_temp_loop f prefix (N.to_nat 10000) 0%nat fuel); lia.
Qed.

(* getFunc = the model's get_fn *)
Definition fn_any (fn : option afn) : MAny := match fn with Some g => ge_dyn_other g | None => ge_dyn_nil end.

Theorem g_getFunc_eq (cx : ctx) (two : bool) (f : frame) (col op : bytes) :
  g_getFunc cx two f col op = Ok (fst (get_fn cx two f col op), fn_any (snd (get_fn cx two f col op))).
Proof.
  unfold g_getFunc, ge_getFunc, get_fn, m_Err.
  destruct (ferr f) eqn:Ef; cbn [ge_isnil negb]; [reflexivity|].
  unfold m_functionType. cbn [obind].
  destruct (lookup_col f col) as [c|]; cbn [ge_isnil negb]; [|reflexivity].
  unfold m_GetFunc. cbn [obind].
  destruct (get_func cx (col_ftype c) two op); reflexivity.
Qed.

Lemma get_fn_some (cx : ctx) (two : bool) (f : frame) (col op : bytes) f' fn :
  get_fn cx two f col op = (f', fn) -> ferr f' = false -> exists g, fn = Some g.
Proof.
  unfold get_fn. destruct (ferr f) eqn:E0.
  - intros H Hf. inversion H; subst. congruence.
  - destruct (lookup_col f col) as [c|].
    + destruct (get_func cx (col_ftype c) two op) as [g|]; intros H Hf; inversion H; subst.
      * exists g. reflexivity.
      * discriminate Hf.
    + intros H Hf. inversion H; subst. discriminate Hf.
Qed.

Lemma m_Err_nil (f : frame) : negb (ge_isnil (m_Err f)) = ferr f.
Proof. unfold m_Err. destruct (ferr f); reflexivity. Qed.

(* the leaf nodes.  Fuel: 2 more than tempColName needs *)
Definition fuel_leaf : nat := S (S (N.to_nat 10000)).

Lemma g_const_exec (cx : ctx) (fuel : nat) (v : MAny) (f : frame) : (fuel_leaf <= fuel)%nat ->
  stored_const v = true ->
  ge_constExpr_execute m_Err m_Contains m_Itoa m_Apply fuel v f cx = exec_const ut f (cell_of v).
Proof.
  unfold fuel_leaf. intros Hf Hv. destruct fuel as [|fuel]; [lia|]. unfold ge_constExpr_execute, exec_const.
  rewrite m_Err_nil. destruct (ferr f); [reflexivity|].
  change (ge_tempColName m_Contains m_Itoa fuel f (bs 5 0x636f6e7374)) with (g_tempColName fuel f p_const).
  rewrite g_tempColName_eq by lia.
  destruct (temp_col_name f p_const) as [name| |]; try reflexivity. cbn [obind].
  unfold m_Apply. cbn [map]. unfold instr_of. cbn [ge_Instruction_f_Fn ge_Instruction_f_DstCol ge_Instruction_f_SrcCol1 ge_Instruction_f_SrcCol2].
  replace (afn_of v) with (F0Const (cell_of v)) by (destruct v; try discriminate Hv; reflexivity).
  reflexivity.
Qed.

Lemma g_unary_exec (cx : ctx) (fuel : nat) (op col : bytes) (f : frame) : (fuel_leaf <= fuel)%nat ->
  ge_unaryExpr_execute m_Err m_withErr m_Contains m_functionType XNew XProp false m_Itoa m_Apply m_GetFunc fuel op col f cx
  = exec_unary ut cx f op col.
Proof.
  unfold fuel_leaf. intros Hf. destruct fuel as [|fuel]; [lia|]. unfold ge_unaryExpr_execute, exec_unary.
  change (ge_getFunc m_Err m_withErr m_functionType XNew XProp m_GetFunc cx false f col op) with (g_getFunc cx false f col op).
  rewrite g_getFunc_eq. cbn [obind]. destruct (get_fn cx false f col op) as [f' fn] eqn:Eg. cbn [fst snd].
  rewrite m_Err_nil. destruct (ferr f') eqn:Ef; [reflexivity|].
  destruct (get_fn_some _ _ _ _ _ _ _ Eg Ef) as [g ->]. cbn [fn_any].
  change (ge_tempColName m_Contains m_Itoa fuel f' (bs 5 0x756e617279)) with (g_tempColName fuel f' p_unary).
  rewrite g_tempColName_eq by lia.
  reflexivity.
Qed.

Lemma g_colcol_exec (cx : ctx) (fuel : nat) (op c1 c2 : bytes) (f : frame) : (fuel_leaf <= fuel)%nat ->
  ge_colColExpr_execute m_Err m_withErr m_Contains m_functionType XNew XProp true m_Itoa m_Apply m_GetFunc fuel op c1 c2 f cx
  = exec_colcol ut cx f op c1 c2.
Proof.
  unfold fuel_leaf. intros Hf. destruct fuel as [|fuel]; [lia|]. unfold ge_colColExpr_execute, exec_colcol.
  change (ge_getFunc m_Err m_withErr m_functionType XNew XProp m_GetFunc cx true f c1 op) with (g_getFunc cx true f c1 op).
  rewrite g_getFunc_eq. cbn [obind]. destruct (get_fn cx true f c1 op) as [f' fn] eqn:Eg. cbn [fst snd].
  rewrite m_Err_nil. destruct (ferr f') eqn:Ef; [reflexivity|].
  destruct (get_fn_some _ _ _ _ _ _ _ Eg Ef) as [g ->]. cbn [fn_any].
  change (ge_tempColName m_Contains m_Itoa fuel f' (bs 6 0x636f6c636f6c)) with (g_tempColName fuel f' p_colcol).
  rewrite g_tempColName_eq by lia.
  reflexivity.
Qed.

(* the fuel a node needs: one unit per nesting level above what its leaves need *)
Fixpoint fuel_need (e : MExpression) : nat :=
  match e with
  | ge_mk_colExpr _ | ge_mk_errorExpr _ => 0%nat
  | ge_mk_constExpr _ | ge_mk_unaryExpr _ _ | ge_mk_colColExpr _ _ _ => fuel_leaf
  | ge_mk_colConstExpr _ _ _ _ => S fuel_leaf
  | ge_mk_exprExpr1 _ s => S (Nat.max (fuel_need s) fuel_leaf)
  | ge_mk_exprExpr2 _ l r => S (Nat.max (fuel_need l) (Nat.max (fuel_need r) fuel_leaf))
  end.

Fixpoint nesting (e : MExpression) : nat :=
  match e with
  | ge_mk_exprExpr1 _ s => S (nesting s)
  | ge_mk_exprExpr2 _ l r => S (Nat.max (nesting l) (nesting r))
  | _ => 0%nat
  end.

Lemma fuel_need_bound (e : MExpression) : (fuel_need e <= S fuel_leaf + nesting e)%nat.
Proof.
  induction e as [n|v|op c|op c v fl|op c1 c2|op s IH|op l IHl r IHr|x]; cbn [fuel_need nesting]; lia.
Qed.

Lemma norm_stored (v : MAny) : stored_const v = true -> norm_const v = v /\ is_const v = true.
Proof. destruct v; intro H; try discriminate H; split; reflexivity. Qed.

Lemma g_drop_loop (f : frame) (l : list bytes) : forall acc,
  ge_exprExpr2_execute_loop1 m_Contains l f acc = Ok (acc ++ filter (fun n => negb (contains f n)) l).
Proof.
  induction l as [|n l IH]; intro acc; cbn [ge_exprExpr2_execute_loop1 filter]; [now rewrite app_nil_r|].
  unfold m_Contains at 1. cbn [obind]. destruct (contains f n); cbn [negb obind]; rewrite IH; [reflexivity|].
  now rewrite <- app_assoc.
Qed.

(* execute = Eval.execute, for every node, frame and context *)
Theorem g_execute_eq (cx : ctx) (e : MExpression) : forall (fuel : nat) (f : frame),
  wf_expr e = true -> (fuel_need e <= fuel)%nat ->
  g_execute fuel e f cx = execute ut cx (abs_expr e) f.
Proof.
  unfold g_execute.
  induction e as [n|v|op c|op c v fl|op c1 c2|op s IH|op l IHl r IHr|x]; intros fuel f Hw Hf;
    cbn [ge_Expression_execute abs_expr execute fuel_need wf_expr] in *.
  - reflexivity.
  - apply g_const_exec; assumption.
  - apply g_unary_exec; assumption.
  - (* column and constant *)
    destruct fuel as [|fuel]; [unfold fuel_leaf in Hf; lia|].
    unfold ge_colConstExpr_execute. rewrite m_Err_nil. destruct (ferr f) eqn:Ef; [reflexivity|].
    rewrite ge_newConstExpr_eq. cbn [obind ge_constExpr_f_value].
    destruct (norm_stored v Hw) as [-> _].
    rewrite g_const_exec by (assumption || lia).
    destruct (exec_const ut f (cell_of v)) as [[r cname]| |]; try reflexivity. cbn [obind].
    destruct fl.
    + cbv zeta. cbn [obind]. rewrite ge_newColColExpr_eq. cbn [obind colcol_of is_op is_col op_of col_of andb fst snd
        ge_colColExpr_f_operation ge_colColExpr_f_srcCol1 ge_colColExpr_f_srcCol2].
      rewrite g_colcol_exec by lia.
      destruct (exec_colcol ut cx r op cname c) as [[r' name]| |]; reflexivity.
    + cbv zeta. cbn [obind]. rewrite ge_newColColExpr_eq. cbn [obind colcol_of is_op is_col op_of col_of andb fst snd
        ge_colColExpr_f_operation ge_colColExpr_f_srcCol1 ge_colColExpr_f_srcCol2].
      rewrite g_colcol_exec by lia.
      destruct (exec_colcol ut cx r op c cname) as [[r' name]| |]; reflexivity.
  - apply g_colcol_exec; assumption.
  - (* one nested operand *)
    destruct fuel as [|fuel]; [lia|]. unfold ge_exprExpr1_execute.
    rewrite IH by (assumption || lia).
    destruct (execute ut cx (abs_expr s) f) as [[r tmp]| |]; try reflexivity. cbn [obind].
    rewrite ge_newUnaryExpr_eq. cbn [obind unary_of is_op is_col op_of col_of andb fst snd
      ge_unaryExpr_f_operation ge_unaryExpr_f_srcCol].
    rewrite g_unary_exec by lia.
    destruct (exec_unary ut cx r op tmp) as [[r' name]| |]; try reflexivity. cbn [obind].
    unfold m_Contains, m_Drop. cbn [obind]. destruct (contains f tmp); reflexivity.
  - (* two nested operands *)
    destruct fuel as [|fuel]; [lia|]. unfold ge_exprExpr2_execute.
    apply andb_prop in Hw. destruct Hw as [Hwl Hwr].
    rewrite IHl by (assumption || lia).
    destruct (execute ut cx (abs_expr l) f) as [[fl lname]| |]; try reflexivity. cbn [obind].
    rewrite IHr by (assumption || lia).
    destruct (execute ut cx (abs_expr r) fl) as [[fr rname]| |]; try reflexivity. cbn [obind].
    rewrite ge_newColColExpr_eq. cbn [obind colcol_of is_op is_col op_of col_of andb fst snd
      ge_colColExpr_f_operation ge_colColExpr_f_srcCol1 ge_colColExpr_f_srcCol2].
    rewrite g_colcol_exec by lia.
    destruct (exec_colcol ut cx fr op lname rname) as [[f' name]| |]; try reflexivity. cbn [obind].
    rewrite g_drop_loop. cbn [obind app]. reflexivity.
  - (* the error node *)
    unfold ge_errorExpr_execute. rewrite m_Err_nil. destruct (ferr f); [reflexivity|].
    destruct x; [reflexivity|discriminate Hw].
Qed.

(* a simpler sufficient budget *)
Theorem g_execute_eq_nesting (cx : ctx) (e : MExpression) (fuel : nat) (f : frame) :
  wf_expr e = true -> (S fuel_leaf + nesting e <= fuel)%nat ->
  g_execute fuel e f cx = execute ut cx (abs_expr e) f.
Proof. intros Hw Hf. apply g_execute_eq; [exact Hw|]. pose proof (fuel_need_bound e). lia. Qed.

End Exec.

(* ------------------------------------------------------------------ Eval on the translated execute *)

(* QFrame.Eval (qframe.go, not part of this translation: the model's wrapper) around the GENERATED execute *)
Definition g_eval (ut : upper_table) (fuel : nat) (cx : ctx) (f : frame) (dst : bytes) (e : MExpression) : outcome frame :=
  if ferr f then Ok f
  else
    do rc <- g_execute ut fuel e f cx;
    let '(r, name) := rc in
    let r' := copy r dst name in
    Ok (if negb (bytes_eqb name dst) && negb (contains f name) then drop r' [name] else r').

Theorem g_eval_eq (ut : upper_table) (fuel : nat) (cx : ctx) (f : frame) (dst : bytes) (e : MExpression) :
  wf_expr e = true -> (fuel_need e <= fuel)%nat ->
  g_eval ut fuel cx f dst e = eval ut cx f dst (abs_expr e).
Proof. intros Hw Hf. unfold g_eval, eval. rewrite (g_execute_eq ut cx e fuel f Hw Hf). reflexivity. Qed.

(* C07_eval (Proofs/EvalFull.v eval_full) restated on the translated execute *)
Theorem g_eval_full :
  forall ut cx f dst (ge : MExpression) fuel t,
    wf_expr ge = true -> (fuel_need ge <= fuel)%nat ->
    ctx_ok cx = true -> wf_frame f = true -> ferr f = false -> names_ok f = true ->
    expr_ok f (abs_expr ge) = true -> (N.of_nat (length (cols f) + temps_needed (abs_expr ge)) <= 10000)%N ->
    abs f = Ok t ->
    eval_meets (has_open cx t (abs_expr ge) = true) f t dst (abs_expr ge) (denote cx t (abs_expr ge))
               (g_eval ut fuel cx f dst ge).
Proof.
  intros ut cx f dst ge fuel t Hw Hf H1 H2 H3 H4 H5 H6 H7.
  rewrite (g_eval_eq ut fuel cx f dst ge Hw Hf). exact (eval_full ut cx f dst (abs_expr ge) t H1 H2 H3 H4 H5 H6 H7).
Qed.
