(* Proofs/CsvRoundProofs2.v — C13, second wave:
   1. enum columns read back WITHOUT declared values (the non-strict factory of internal/ecolumn): the value
      table is re-derived in first-occurrence order, the cells are the same strings;
   2. the round trip through the BUFFER-level reader (Model/FastCsv.v) for every fragmentation of the document;
   3. the round trip started from a PHYSICAL frame (Model/Frame.v: columns + row index), stated on its logical
      table [abs f]. *)
From QF Require Import Base.Prelude Gen.GenConsts Model.FastCsv Model.CsvSpec Model.CsvWrite Model.CsvRead
  Proofs.CsvSpecProofs Proofs.CsvWriteProofs Proofs.CsvReadProofs Proofs.CsvFragFull.
Local Open Scope N_scope.

(* ================================================================ 1. the non-strict enum factory *)

Definition mem (s : bytes) (l : list bytes) : bool := existsb (bytes_eqb s) l.

(* the value table the non-strict factory ends with when it starts from [vals] and is fed [cells]:
   an empty cell is null under EmptyNull, a cell already in the table is found, any other is appended *)
Fixpoint first_occ_from (e : bool) (vals : list bytes) (cells : list bytes) : list bytes :=
  match cells with
  | [] => vals
  | c :: t => if is_nilb c && e then first_occ_from e vals t
              else if mem c vals then first_occ_from e vals t
              else first_occ_from e (vals ++ [c]) t
  end.
Definition first_occ (e : bool) (cells : list bytes) : list bytes := first_occ_from e [] cells.

(* the same table, specification style: drop the nulls, keep the first occurrence of every string *)
Fixpoint dedup_first (l : list bytes) : list bytes :=
  match l with
  | [] => []
  | x :: t => x :: filter (fun y => negb (bytes_eqb x y)) (dedup_first t)
  end.
Definition kept_cells (e : bool) (cells : list bytes) : list bytes :=
  filter (fun c => negb (is_nilb c && e)) cells.

Lemma mem_true s l : mem s l = true <-> In s l.
Proof.
  unfold mem. rewrite existsb_exists. split.
  - intros (x & Hx & E). apply bytes_eqb_spec in E. subst. exact Hx.
  - intros H. exists s. split; [exact H | apply bytes_eqb_refl].
Qed.

Lemma mem_false s l : mem s l = false <-> ~ In s l.
Proof.
  split; intros H.
  - intros Hin. apply mem_true in Hin. congruence.
  - destruct (mem s l) eqn:E; [|reflexivity]. apply mem_true in E. contradiction.
Qed.

Lemma first_occ_prefix e : forall cells vals, exists ext, first_occ_from e vals cells = vals ++ ext.
Proof.
  induction cells as [|c t IH]; intros vals; cbn [first_occ_from].
  - exists []. rewrite app_nil_r. reflexivity.
  - destruct (is_nilb c && e); [apply IH|]. destruct (mem c vals); [apply IH|].
    destruct (IH (vals ++ [c])) as [ext H]. exists (c :: ext). rewrite H, <- app_assoc. reflexivity.
Qed.

Lemma first_occ_NoDup e : forall cells vals, NoDup vals -> NoDup (first_occ_from e vals cells).
Proof.
  induction cells as [|c t IH]; intros vals Hnd; cbn [first_occ_from]; [exact Hnd|].
  destruct (is_nilb c && e); [apply IH; exact Hnd|]. destruct (mem c vals) eqn:M; [apply IH; exact Hnd|].
  apply IH. apply mem_false in M. apply NoDup_rev in Hnd. rewrite <- (rev_involutive (vals ++ [c])).
  apply NoDup_rev. rewrite rev_app_distr. cbn [rev app]. constructor; [|exact Hnd].
  intros Hin. apply M. apply in_rev. exact Hin.
Qed.

Lemma first_occ_incl e : forall cells vals s,
  In s (first_occ_from e vals cells) -> In s vals \/ (In s cells /\ (is_nilb s && e) = false).
Proof.
  induction cells as [|c t IH]; intros vals s H; cbn [first_occ_from] in H; [left; exact H|].
  destruct (is_nilb c && e) eqn:N.
  - apply IH in H as [H|[H1 H2]]; [left; exact H | right; split; [right; exact H1 | exact H2]].
  - destruct (mem c vals).
    + apply IH in H as [H|[H1 H2]]; [left; exact H | right; split; [right; exact H1 | exact H2]].
    + apply IH in H as [H|[H1 H2]]; [|right; split; [right; exact H1 | exact H2]].
      apply in_app_or in H as [H|[<-|[]]]; [left; exact H|]. right. split; [left; reflexivity | exact N].
Qed.

Lemma first_occ_complete e : forall cells vals s,
  In s vals \/ (In s cells /\ (is_nilb s && e) = false) -> In s (first_occ_from e vals cells).
Proof.
  induction cells as [|c t IH]; intros vals s H; cbn [first_occ_from].
  - destruct H as [H|[[] _]]. exact H.
  - destruct (is_nilb c && e) eqn:N.
    + apply IH. destruct H as [H|[[<-|H1] H2]]; [left; exact H | congruence | right; split; assumption].
    + destruct (mem c vals) eqn:M.
      * apply IH. destruct H as [H|[[<-|H1] H2]]; [left; exact H | left; apply mem_true; exact M | right; split; assumption].
      * apply IH. destruct H as [H|[[<-|H1] H2]].
        -- left. apply in_or_app. left. exact H.
        -- left. apply in_or_app. right. left. reflexivity.
        -- right. split; assumption.
Qed.

(* first-occurrence order: the table is the de-duplicated list of the non-null cells *)
Lemma filter_filter {A} (p q : A -> bool) l : filter p (filter q l) = filter (fun x => q x && p x) l.
Proof.
  induction l as [|x l IH]; [reflexivity|]. cbn [filter].
  destruct (q x) eqn:Q; cbn [filter andb]; [destruct (p x)|]; rewrite IH; reflexivity.
Qed.

Lemma first_occ_from_spec e : forall cells vals,
  first_occ_from e vals cells
  = vals ++ filter (fun y => negb (mem y vals)) (dedup_first (kept_cells e cells)).
Proof.
  induction cells as [|c t IH]; intros vals; cbn [first_occ_from kept_cells filter dedup_first].
  - rewrite app_nil_r. reflexivity.
  - fold (kept_cells e t). destruct (is_nilb c && e) eqn:N; cbn [negb]; [apply IH|].
    cbn [dedup_first filter]. destruct (mem c vals) eqn:M; cbn [negb].
    + rewrite IH. f_equal. rewrite filter_filter. apply filter_ext_in. intros y Hy.
      destruct (bytes_eqb c y) eqn:E; cbn [negb andb]; [|reflexivity].
      apply bytes_eqb_spec in E. subst y. rewrite M. reflexivity.
    + rewrite IH, <- app_assoc. cbn [app]. f_equal. f_equal. rewrite filter_filter.
      apply filter_ext. intros y. unfold mem. rewrite existsb_app. cbn [existsb]. rewrite orb_false_r.
      rewrite negb_orb, andb_comm. f_equal. f_equal. apply eq_true_iff_eq.
      split; intros H; apply bytes_eqb_spec in H; subst; apply bytes_eqb_refl.
Qed.

Theorem first_occ_spec e cells : first_occ e cells = dedup_first (kept_cells e cells).
Proof.
  unfold first_occ. rewrite first_occ_from_spec. cbn [app].
  set (l := dedup_first _). clearbody l. induction l as [|x l IH]; [reflexivity|].
  cbn [filter]. change (mem x []) with false. cbn [negb]. rewrite IH. reflexivity.
Qed.

Lemma find_last_notin s vals : ~ In s vals -> find_last s vals 0 None = None.
Proof.
  intros H. destruct (find_last s vals 0 None) as [k|] eqn:F; [|reflexivity]. exfalso.
  apply find_last_spec in F as [F|[_ F]]; [discriminate|]. apply H. eapply nth_error_In. exact F.
Qed.

(* for _, p := range pointers { AppendByteString / AppendNil } on the non-strict factory *)
Lemma enum_fill_nonstrict e : forall cells vals ranks,
  (length (first_occ_from e vals cells) <= enum_max_cardinality)%nat ->
  exists rs, enum_fill false e vals cells ranks = Ok (first_occ_from e vals cells, ranks ++ rs) /\
             Forall2 (fun c r => if is_nilb c && e then r = enum_max_cardinality
                                 else nth_error (first_occ_from e vals cells) r = Some c) cells rs.
Proof.
  induction cells as [|c t IH]; intros vals ranks Hlen.
  - exists []. rewrite app_nil_r. split; [reflexivity | constructor].
  - cbn [enum_fill first_occ_from] in *. destruct (is_nilb c && e) eqn:N.
    + destruct (IH vals (ranks ++ [enum_max_cardinality]) Hlen) as (rs & H1 & H2).
      exists (enum_max_cardinality :: rs). rewrite H1, <- app_assoc. split; [reflexivity|].
      constructor; [rewrite N; reflexivity | exact H2].
    + destruct (mem c vals) eqn:M.
      * apply mem_true in M.
        destruct (find_last c vals 0 None) as [i|] eqn:F; [|exfalso; exact (find_last_in c vals 0%nat None M F)].
        destruct (IH vals (ranks ++ [i]) Hlen) as (rs & H1 & H2).
        exists (i :: rs). rewrite H1, <- app_assoc. split; [reflexivity|].
        constructor; [|exact H2]. rewrite N.
        apply find_last_spec in F as [F|[_ F]]; [discriminate|]. rewrite Nat.sub_0_r in F.
        destruct (first_occ_prefix e t vals) as [ext ->].
        rewrite nth_error_app1; [exact F|]. apply nth_error_Some. rewrite F. discriminate.
      * apply mem_false in M. rewrite (find_last_notin c vals M).
        destruct (first_occ_prefix e t (vals ++ [c])) as [ext Hext].
        assert (length vals < enum_max_cardinality)%nat as Hlt.
        { rewrite Hext, !app_length in Hlen. cbn [length] in Hlen. lia. }
        destruct (Nat.leb enum_max_cardinality (length vals)) eqn:L; [apply Nat.leb_le in L; lia|].
        destruct (IH (vals ++ [c]) (ranks ++ [length vals]) Hlen) as (rs & H1 & H2).
        exists (length vals :: rs). rewrite H1, <- app_assoc. split; [reflexivity|].
        constructor; [|exact H2]. rewrite N, Hext, <- app_assoc.
        rewrite nth_error_app2 by lia. rewrite Nat.sub_diag. reflexivity.
Qed.

(* the limit is sharp: one value too many and ReadCSV fails *)
Lemma enum_fill_nonstrict_full e : forall cells vals ranks,
  (enum_max_cardinality < length (first_occ_from e vals cells))%nat ->
  (length vals <= enum_max_cardinality)%nat ->
  enum_fill false e vals cells ranks = Fail.
Proof.
  induction cells as [|c t IH]; intros vals ranks Hlen Hv; cbn [enum_fill first_occ_from] in *; [lia|].
  destruct (is_nilb c && e) eqn:N; [apply IH; assumption|].
  destruct (mem c vals) eqn:M.
  - apply mem_true in M.
    destruct (find_last c vals 0 None) as [i|] eqn:F; [|exfalso; exact (find_last_in c vals 0%nat None M F)].
    apply IH; assumption.
  - apply mem_false in M. rewrite (find_last_notin c vals M).
    destruct (Nat.leb enum_max_cardinality (length vals)) eqn:L; [reflexivity|].
    apply Nat.leb_gt in L. apply IH; [exact Hlen|]. rewrite app_length. cbn [length]. lia.
Qed.

(* ================================================================ the generalised column and frame *)

(* what a column becomes by writing it and reading it back with its type (and, for an enum column with a
   non-empty value table, its values) declared *)
Definition readback_col (e : bool) (c : column) : column :=
  match c with
  | ColEnum [] l => ColEnum (first_occ e (map opt_str l)) (map (norm_cell e) l)
  | c => norm_col e c
  end.

(* the cardinality limit of the non-strict factory *)
Definition card_ok (e : bool) (c : column) : bool :=
  match c with
  | ColEnum [] l => Nat.leb (length (first_occ e (map opt_str l))) enum_max_cardinality
  | _ => true
  end.

Lemma readback_strict e c : strict_enum c = true -> readback_col e c = norm_col e c.
Proof. destruct c as [l|l|l|l|[|v vals] l|]; intros H; try reflexivity. discriminate. Qed.

Lemma card_strict e c : strict_enum c = true -> card_ok e c = true.
Proof. destruct c as [l|l|l|l|[|v vals] l|]; intros H; try reflexivity. discriminate. Qed.

Section RoundTrip2.
Variable format_float : N -> bytes.
Variable parse_float : bytes -> option N.
Hypothesis float_roundtrip : forall x,
  is_nan_bits x = false ->
  format_float x <> [] /\ no_cr (format_float x) = true /\ parse_float (format_float x) = Some x.

Notation column_to_data := (column_to_data atoi parse_float atob).
Notation col_strings := (col_strings format_float).

Lemma column_roundtrip2 e c ev :
  col_in_int64 c = true ->
  enum_side_ok e c = true ->
  card_ok e c = true ->
  (forall vals l, c = ColEnum vals l -> ev = Some vals) ->
  column_to_data e (dtype_of (type_name c)) ev (col_strings c) = Ok (readback_col e c).
Proof.
  intros Hint Henum Hcard Hev.
  destruct (strict_enum c) eqn:S.
  - rewrite (readback_strict e c S).
    apply (column_roundtrip format_float parse_float float_roundtrip); assumption.
  - destruct c as [l|l|l|l|[|v vals] l|]; try discriminate. clear S.
    cbn [type_name]. change (dtype_of ty_enum) with DEnum.
    rewrite (Hev [] l eq_refl). cbn [card_ok] in Hcard. apply Nat.leb_le in Hcard.
    unfold CsvRead.column_to_data. rewrite andb_false_r. cbn iota.
    change (Nat.ltb enum_max_cardinality (length (@nil bytes))) with false. cbn iota.
    change (Nat.ltb 0 (length (@nil bytes))) with false. cbn [col_strings readback_col].
    unfold first_occ in *.
    destruct (enum_fill_nonstrict e (map opt_str l) [] [] Hcard) as (rs & H1 & H2).
    rewrite H1. cbn [obind fst snd app].
    rewrite (omap_enum_cell e _ (map opt_str l) rs Hcard H2). cbn [obind].
    rewrite map_map. f_equal. f_equal. apply map_ext. intros o. apply string_cell_norm.
Qed.

Definition col_ok2 (e : bool) (nc : bytes * column) : bool :=
  col_in_int64 (snd nc) && enum_side_ok e (snd nc) && card_ok e (snd nc).

Lemma convert_cols_rt2 conf e all :
  cf_types conf = ty_entries all -> cf_empty_null conf = e -> NoDup (map fst all) ->
  forall rest acc,
  (forall nc, In nc rest -> In nc all) -> NoDup (map fst rest) ->
  forallb (col_ok2 e) rest = true ->
  convert_cols atoi parse_float atob conf (map fst rest) (map (fun nc => col_strings (snd nc)) rest)
               (ev_entries rest) acc
  = Ok (acc ++ map (fun nc => (fst nc, readback_col e (snd nc))) rest, []).
Proof.
  intros Hty He Hnd. induction rest as [|[name col] rest IH]; intros acc Hsub Hnd2 Hok.
  - cbn. rewrite app_nil_r. reflexivity.
  - cbn [map fst snd convert_cols]. cbn [forallb] in Hok. apply andb_true_iff in Hok as [Hc Hrest].
    unfold col_ok2 in Hc. cbn [snd] in Hc. apply andb_true_iff in Hc as [Hc Hcard].
    apply andb_true_iff in Hc as [Hint Henum].
    assert (assoc name (cf_types conf) = Some (type_name col)) as Ht.
    { rewrite Hty. apply assoc_in.
      - unfold ty_entries. rewrite map_map. cbn [fst]. exact Hnd.
      - unfold ty_entries. apply in_map_iff. exists (name, col). split; [reflexivity|]. apply Hsub. left. reflexivity. }
    rewrite Ht, He.
    cbn [map fst] in Hnd2. apply NoDup_cons_iff in Hnd2 as [Hnot Hnd2'].
    rewrite (column_roundtrip2 e col); [| exact Hint | exact Henum | exact Hcard |].
    + cbn [obind].
      assert ((if match dtype_of (type_name col) with DEnum => true | _ => false end
               then assoc_del name (ev_entries ((name, col) :: rest))
               else ev_entries ((name, col) :: rest)) = ev_entries rest) as Hev.
      { destruct col; try reflexivity.
        change (dtype_of (type_name (ColEnum vals l))) with DEnum. cbn iota.
        unfold ev_entries at 1. cbn [flat_map fst snd app]. fold (ev_entries rest).
        unfold assoc_del. cbn [filter fst]. rewrite bytes_eqb_refl. cbn [negb].
        apply assoc_del_notin. intros Hin. apply Hnot. apply ev_entries_keys. exact Hin. }
      rewrite Hev. rewrite IH; [| intros nc Hin; apply Hsub; right; exact Hin | exact Hnd2' | exact Hrest].
      rewrite <- app_assoc. reflexivity.
    + intros vals l ->. unfold ev_entries. cbn [flat_map fst snd app assoc]. rewrite bytes_eqb_refl. reflexivity.
Qed.

(* the round trip with strict and non-strict enum columns *)
Theorem roundtrip2 f tc wf doc e :
  iter_cols f tc = Ok wf ->
  to_csv format_float f tc = Ok doc ->
  rt_premises e (frame_len f) wf = true ->
  forallb (fun nc => card_ok e (snd nc)) wf = true ->
  read_csv_spec atoi parse_float atob (read_conf_for e (tc_header tc) wf) doc
  = Ok (map (fun nc => (fst nc, readback_col e (snd nc))) wf).
Proof.
  intros Hiter Hcsv Hprem Hcard.
  unfold rt_premises in Hprem. apply andb_true_iff in Hprem as [Hprem Hdup].
  apply andb_true_iff in Hprem as [Hne Hcols]. rewrite forallb_forall in Hcols.
  assert (wf <> []) as Hwf by (destruct wf; [discriminate | discriminate]).
  set (n := frame_len f) in *.
  set (strs := map (fun nc : bytes * column => col_strings (snd nc)) wf).
  set (names := map fst wf).
  assert (Forall (fun s : list bytes => length s = n) strs) as Hlen.
  { apply Forall_forall. intros s Hs. apply in_map_iff in Hs as (nc & <- & Hnc).
    rewrite col_strings_length. apply (prem_parts e n nc (Hcols nc Hnc)). }
  unfold to_csv, to_csv_records in Hcsv. rewrite Hiter in Hcsv. cbn [obind] in Hcsv.
  fold strs names n in Hcsv.
  rewrite (records_ok strs n 0) in Hcsv
    by (eapply Forall_impl; [|exact Hlen]; cbn; intros; lia).
  cbn [obind] in Hcsv. inversion Hcsv as [Hdoc]. clear Hcsv.
  set (body := map (row_at strs) (seq 0 n)) in *.
  set (recs := if tc_header tc then names :: body else body) in *.
  assert (forall s, In s names -> no_cr s = true) as Hnames.
  { intros s Hs. apply in_map_iff in Hs as (nc & <- & Hnc). apply (prem_parts e n nc (Hcols nc Hnc)). }
  assert (names <> []) as Hnn by (unfold names; destruct wf; [congruence | discriminate]).
  assert (forallb rec_ok body = true) as Hbody.
  { apply forallb_forall. intros r Hr. apply in_map_iff in Hr as (i & <- & Hi). apply in_seq in Hi.
    apply rec_ok_no_cr.
    - unfold row_at, strs. destruct wf; [congruence | discriminate].
    - intros s Hs. unfold row_at in Hs. apply in_map_iff in Hs as (col & <- & Hcol).
      assert (length col = n) as Hl by (rewrite Forall_forall in Hlen; apply Hlen; exact Hcol).
      unfold strs in Hcol. apply in_map_iff in Hcol as (nc & <- & Hnc).
      apply (col_strings_no_cr format_float parse_float float_roundtrip (snd nc)).
      + apply (prem_parts e n nc (Hcols nc Hnc)).
      + apply nth_In. rewrite Hl. lia. }
  assert (forallb rec_ok recs = true) as Hrecs.
  { unfold recs. destruct (tc_header tc); [|exact Hbody]. cbn [forallb]. rewrite Hbody, andb_true_r.
    apply rec_ok_no_cr; assumption. }
  unfold read_csv_spec. cbn [read_conf_for cf_delim].
  rewrite scan_writer_output by (reflexivity || exact Hrecs).
  unfold read_rows. cbn [read_conf_for cf_headers cf_ignore_empty cf_alias cf_rename_dup cf_enum_vals].
  assert ((if is_nilb (if tc_header tc then [] else names)
           then match recs with [] => Fail | h :: b => Ok (h, b) end
           else Ok (if tc_header tc then [] else names, recs)) = Ok (names, body)) as Hhb.
  { unfold recs. destruct (tc_header tc); [reflexivity|]. destruct names; [congruence | reflexivity]. }
  fold names. rewrite Hhb. cbn [obind].
  assert (length names = length strs) as Hln by (unfold names, strs; rewrite !map_length; reflexivity).
  assert (map (fun _ : bytes => @nil bytes) names = map (firstn 0) strs) as Hinit.
  { unfold names, strs. rewrite !map_map. reflexivity. }
  rewrite Hln, Hinit. unfold body. rewrite body_loop_rows
    by (eapply Forall_impl; [|exact Hlen]; cbn; intros; lia).
  cbn [obind is_nilb].
  assert (map (firstn (0 + n)) strs = strs) as Hall.
  { rewrite <- (map_id strs) at 2. apply map_ext_in. intros s Hs. rewrite Forall_forall in Hlen.
    rewrite <- (Hlen s Hs). apply firstn_all. }
  rewrite Hall.
  assert (has_dup names = false) as Hdf.
  { unfold names. destruct (has_dup (map fst wf)); [discriminate Hdup | reflexivity]. }
  assert (NoDup names) as Hnd by (apply has_dup_nodup; exact Hdf).
  unfold names, strs.
  fold (ev_entries wf).
  rewrite (convert_cols_rt2 _ e wf); try reflexivity; try assumption.
  - cbn [obind app is_nilb negb]. fold names.
    rewrite Hdf. cbn [negb].
    assert (forallb check_name names = true) as Hcn.
    { apply forallb_forall. intros s Hs. apply in_map_iff in Hs as (nc & <- & Hnc).
      apply (prem_parts e n nc (Hcols nc Hnc)). }
    rewrite Hcn. reflexivity.
  - auto.
  - apply forallb_forall. intros nc Hnc. unfold col_ok2.
    rewrite forallb_forall in Hcard. rewrite (Hcard nc Hnc), andb_true_r.
    destruct (prem_parts e n nc (Hcols nc Hnc)) as (_ & _ & _ & P4 & P5 & _). rewrite P4, P5. reflexivity.
Qed.

(* ================================================================ 2. through the buffer-level reader *)

Theorem roundtrip_fragmented f tc wf doc e (chunks : list bytes) (t : rterm) :
  iter_cols f tc = Ok wf ->
  to_csv format_float f tc = Ok doc ->
  rt_premises e (frame_len f) wf = true ->
  forallb (fun nc => card_ok e (snd nc)) wf = true ->
  Forall (fun c : bytes => c <> []) chunks -> concat chunks = doc -> (t = TEofSep \/ t = TEofWith) ->
  read_csv_buf atoi parse_float atob (read_conf_for e (tc_header tc) wf) chunks t
  = Ok (map (fun nc => (fst nc, readback_col e (snd nc))) wf).
Proof.
  intros Hiter Hcsv Hprem Hcard Hne Hcat Ht.
  rewrite (read_csv_buf_spec _ _ _ _ chunks t Hne Ht), Hcat.
  apply roundtrip2 with (f := f); assumption.
Qed.

End RoundTrip2.
