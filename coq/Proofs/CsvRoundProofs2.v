(* Proofs/CsvRoundProofs2.v — C13, second wave:
   1. enum columns read back WITHOUT declared values (the non-strict factory of internal/ecolumn): the value
      table is re-derived in first-occurrence order, the cells are the same strings;
   2. the round trip through the BUFFER-level reader (Model/FastCsv.v) for every fragmentation of the document;
   3. the round trip started from a PHYSICAL frame (Model/Frame.v: columns + row index), stated on its logical
      table [abs f]. *)
From QF Require Import Base.Prelude Gen.GenConsts Model.FastCsv Model.CsvSpec Model.CsvWrite Model.CsvRead
  Proofs.CsvSpecProofs Proofs.CsvWriteProofs Proofs.CsvReadProofs Proofs.CsvFragFull.
Local Open Scope N_scope.

(* ================================================================ 1. the non-strict enum factory *)

Definition mem (s : bytes) (l : list bytes) : bool := existsb (bytes_eqb s) l.

(* the value table the non-strict factory ends with when it starts from [vals] and is fed [cells]:
   an empty cell is null under EmptyNull, a cell already in the table is found, any other is appended *)
Fixpoint first_occ_from (e : bool) (vals : list bytes) (cells : list bytes) : list bytes :=
  match cells with
  | [] => vals
  | c :: t => if is_nilb c && e then first_occ_from e vals t
              else if mem c vals then first_occ_from e vals t
              else first_occ_from e (vals ++ [c]) t
  end.
Definition first_occ (e : bool) (cells : list bytes) : list bytes := first_occ_from e [] cells.

(* the same table, specification style: drop the nulls, keep the first occurrence of every string *)
Fixpoint dedup_first (l : list bytes) : list bytes :=
  match l with
  | [] => []
  | x :: t => x :: filter (fun y => negb (bytes_eqb x y)) (dedup_first t)
  end.
Definition kept_cells (e : bool) (cells : list bytes) : list bytes :=
  filter (fun c => negb (is_nilb c && e)) cells.

Lemma mem_true s l : mem s l = true <-> In s l.
Proof.
  unfold mem. rewrite existsb_exists. split.
  - intros (x & Hx & E). apply bytes_eqb_spec in E. subst. exact Hx.
  - intros H. exists s. split; [exact H | apply bytes_eqb_refl].
Qed.

Lemma mem_false s l : mem s l = false <-> ~ In s l.
Proof.
  split; intros H.
  - intros Hin. apply mem_true in Hin. congruence.
  - destruct (mem s l) eqn:E; [|reflexivity]. apply mem_true in E. contradiction.
Qed.

Lemma first_occ_prefix e : forall cells vals, exists ext, first_occ_from e vals cells = vals ++ ext.
Proof.
  induction cells as [|c t IH]; intros vals; cbn [first_occ_from].
  - exists []. rewrite app_nil_r. reflexivity.
  - destruct (is_nilb c && e); [apply IH|]. destruct (mem c vals); [apply IH|].
    destruct (IH (vals ++ [c])) as [ext H]. exists (c :: ext). rewrite H, <- app_assoc. reflexivity.
Qed.

Lemma first_occ_NoDup e : forall cells vals, NoDup vals -> NoDup (first_occ_from e vals cells).
Proof.
  induction cells as [|c t IH]; intros vals Hnd; cbn [first_occ_from]; [exact Hnd|].
  destruct (is_nilb c && e); [apply IH; exact Hnd|]. destruct (mem c vals) eqn:M; [apply IH; exact Hnd|].
  apply IH. apply mem_false in M. apply NoDup_rev in Hnd. rewrite <- (rev_involutive (vals ++ [c])).
  apply NoDup_rev. rewrite rev_app_distr. cbn [rev app]. constructor; [|exact Hnd].
  intros Hin. apply M. apply in_rev. exact Hin.
Qed.

Lemma first_occ_incl e : forall cells vals s,
  In s (first_occ_from e vals cells) -> In s vals \/ (In s cells /\ (is_nilb s && e) = false).
Proof.
  induction cells as [|c t IH]; intros vals s H; cbn [first_occ_from] in H; [left; exact H|].
  destruct (is_nilb c && e) eqn:N.
  - apply IH in H as [H|[H1 H2]]; [left; exact H | right; split; [right; exact H1 | exact H2]].
  - destruct (mem c vals).
    + apply IH in H as [H|[H1 H2]]; [left; exact H | right; split; [right; exact H1 | exact H2]].
    + apply IH in H as [H|[H1 H2]]; [|right; split; [right; exact H1 | exact H2]].
      apply in_app_or in H as [H|[<-|[]]]; [left; exact H|]. right. split; [left; reflexivity | exact N].
Qed.

Lemma first_occ_complete e : forall cells vals s,
  In s vals \/ (In s cells /\ (is_nilb s && e) = false) -> In s (first_occ_from e vals cells).
Proof.
  induction cells as [|c t IH]; intros vals s H; cbn [first_occ_from].
  - destruct H as [H|[[] _]]. exact H.
  - destruct (is_nilb c && e) eqn:N.
    + apply IH. destruct H as [H|[[<-|H1] H2]]; [left; exact H | congruence | right; split; assumption].
    + destruct (mem c vals) eqn:M.
      * apply IH. destruct H as [H|[[<-|H1] H2]]; [left; exact H | left; apply mem_true; exact M | right; split; assumption].
      * apply IH. destruct H as [H|[[<-|H1] H2]].
        -- left. apply in_or_app. left. exact H.
        -- left. apply in_or_app. right. left. reflexivity.
        -- right. split; assumption.
Qed.

(* first-occurrence order: the table is the de-duplicated list of the non-null cells *)
Lemma filter_filter {A} (p q : A -> bool) l : filter p (filter q l) = filter (fun x => q x && p x) l.
Proof.
  induction l as [|x l IH]; [reflexivity|]. cbn [filter].
  destruct (q x) eqn:Q; cbn [filter andb]; [destruct (p x)|]; rewrite IH; reflexivity.
Qed.

Lemma first_occ_from_spec e : forall cells vals,
  first_occ_from e vals cells
  = vals ++ filter (fun y => negb (mem y vals)) (dedup_first (kept_cells e cells)).
Proof.
  induction cells as [|c t IH]; intros vals; cbn [first_occ_from kept_cells filter dedup_first].
  - rewrite app_nil_r. reflexivity.
  - fold (kept_cells e t). destruct (is_nilb c && e) eqn:N; cbn [negb]; [apply IH|].
    cbn [dedup_first filter]. destruct (mem c vals) eqn:M; cbn [negb].
    + rewrite IH. f_equal. rewrite filter_filter. apply filter_ext_in. intros y Hy.
      destruct (bytes_eqb c y) eqn:E; cbn [negb andb]; [|reflexivity].
      apply bytes_eqb_spec in E. subst y. rewrite M. reflexivity.
    + rewrite IH, <- app_assoc. cbn [app]. f_equal. f_equal. rewrite filter_filter.
      apply filter_ext. intros y. unfold mem. rewrite existsb_app. cbn [existsb]. rewrite orb_false_r.
      rewrite negb_orb, andb_comm. f_equal. f_equal. apply eq_true_iff_eq.
      split; intros H; apply bytes_eqb_spec in H; subst; apply bytes_eqb_refl.
Qed.

Theorem first_occ_spec e cells : first_occ e cells = dedup_first (kept_cells e cells).
Proof.
  unfold first_occ. rewrite first_occ_from_spec. cbn [app].
  set (l := dedup_first _). clearbody l. induction l as [|x l IH]; [reflexivity|].
  cbn [filter]. change (mem x []) with false. cbn [negb]. rewrite IH. reflexivity.
Qed.

Lemma find_last_notin s vals : ~ In s vals -> find_last s vals 0 None = None.
Proof.
  intros H. destruct (find_last s vals 0 None) as [k|] eqn:F; [|reflexivity]. exfalso.
  apply find_last_spec in F as [F|[_ F]]; [discriminate|]. apply H. eapply nth_error_In. exact F.
Qed.

(* for _, p := range pointers { AppendByteString / AppendNil } on the non-strict factory *)
Lemma enum_fill_nonstrict e : forall cells vals ranks,
  (length (first_occ_from e vals cells) <= enum_max_cardinality)%nat ->
  exists rs, enum_fill false e vals cells ranks = Ok (first_occ_from e vals cells, ranks ++ rs) /\
             Forall2 (fun c r => if is_nilb c && e then r = enum_max_cardinality
                                 else nth_error (first_occ_from e vals cells) r = Some c) cells rs.
Proof.
  induction cells as [|c t IH]; intros vals ranks Hlen.
  - exists []. rewrite app_nil_r. split; [reflexivity | constructor].
  - cbn [enum_fill first_occ_from] in *. destruct (is_nilb c && e) eqn:N.
    + destruct (IH vals (ranks ++ [enum_max_cardinality]) Hlen) as (rs & H1 & H2).
      exists (enum_max_cardinality :: rs). rewrite H1, <- app_assoc. split; [reflexivity|].
      constructor; [rewrite N; reflexivity | exact H2].
    + destruct (mem c vals) eqn:M.
      * apply mem_true in M.
        destruct (find_last c vals 0 None) as [i|] eqn:F; [|exfalso; exact (find_last_in c vals 0%nat None M F)].
        destruct (IH vals (ranks ++ [i]) Hlen) as (rs & H1 & H2).
        exists (i :: rs). rewrite H1, <- app_assoc. split; [reflexivity|].
        constructor; [|exact H2]. rewrite N.
        apply find_last_spec in F as [F|[_ F]]; [discriminate|]. rewrite Nat.sub_0_r in F.
        destruct (first_occ_prefix e t vals) as [ext ->].
        rewrite nth_error_app1; [exact F|]. apply nth_error_Some. rewrite F. discriminate.
      * apply mem_false in M. rewrite (find_last_notin c vals M).
        destruct (first_occ_prefix e t (vals ++ [c])) as [ext Hext].
        assert (length vals < enum_max_cardinality)%nat as Hlt.
        { rewrite Hext, !app_length in Hlen. cbn [length] in Hlen. lia. }
        destruct (Nat.leb enum_max_cardinality (length vals)) eqn:L; [apply Nat.leb_le in L; lia|].
        destruct (IH (vals ++ [c]) (ranks ++ [length vals]) Hlen) as (rs & H1 & H2).
        exists (length vals :: rs). rewrite H1, <- app_assoc. split; [reflexivity|].
        constructor; [|exact H2]. rewrite N, Hext, <- app_assoc.
        rewrite nth_error_app2 by lia. rewrite Nat.sub_diag. reflexivity.
Qed.

(* the limit is sharp: one value too many and ReadCSV fails *)
Lemma enum_fill_nonstrict_full e : forall cells vals ranks,
  (enum_max_cardinality < length (first_occ_from e vals cells))%nat ->
  (length vals <= enum_max_cardinality)%nat ->
  enum_fill false e vals cells ranks = Fail.
Proof.
  induction cells as [|c t IH]; intros vals ranks Hlen Hv; cbn [enum_fill first_occ_from] in *; [lia|].
  destruct (is_nilb c && e) eqn:N; [apply IH; assumption|].
  destruct (mem c vals) eqn:M.
  - apply mem_true in M.
    destruct (find_last c vals 0 None) as [i|] eqn:F; [|exfalso; exact (find_last_in c vals 0%nat None M F)].
    apply IH; assumption.
  - apply mem_false in M. rewrite (find_last_notin c vals M).
    destruct (Nat.leb enum_max_cardinality (length vals)) eqn:L; [reflexivity|].
    apply Nat.leb_gt in L. apply IH; [exact Hlen|]. rewrite app_length. cbn [length]. lia.
Qed.

(* ================================================================ the generalised column and frame *)

(* what a column becomes by writing it and reading it back with its type (and, for an enum column with a
   non-empty value table, its values) declared *)
Definition readback_col (e : bool) (c : column) : column :=
  match c with
  | ColEnum [] l => ColEnum (first_occ e (map opt_str l)) (map (norm_cell e) l)
  | c => norm_col e c
  end.

(* the cardinality limit of the non-strict factory *)
Definition card_ok (e : bool) (c : column) : bool :=
  match c with
  | ColEnum [] l => Nat.leb (length (first_occ e (map opt_str l))) enum_max_cardinality
  | _ => true
  end.

Lemma readback_strict e c : strict_enum c = true -> readback_col e c = norm_col e c.
Proof. destruct c as [l|l|l|l|[|v vals] l|]; intros H; try reflexivity. discriminate. Qed.

Lemma card_strict e c : strict_enum c = true -> card_ok e c = true.
Proof. destruct c as [l|l|l|l|[|v vals] l|]; intros H; try reflexivity. discriminate. Qed.

(* the premise on declared value lists (enum_decl_nodup, Proofs/CsvReadProofs.v), spelled out *)
Lemma enum_decl_nodup_iff c : enum_decl_nodup c = true <-> (forall vals l, c = ColEnum vals l -> NoDup vals).
Proof.
  destruct c as [l|l|l|l|vals l|]; cbn [enum_decl_nodup]; try (split; [intros _ vals0 l0 H; discriminate H | reflexivity]).
  rewrite nodup_values_spec. split.
  - intros H vals0 l0 E. inversion E; subst. exact H.
  - intros H. apply (H vals l eq_refl).
Qed.

(* what was read back can be declared again: the re-derived table lists no value twice *)
Lemma readback_decl_nodup e c : enum_decl_nodup c = true -> enum_decl_nodup (readback_col e c) = true.
Proof.
  destruct c as [l|l|l|l|[|v vals] l|]; intros H; try exact H; try reflexivity.
  cbn [readback_col enum_decl_nodup]. apply nodup_values_spec. apply first_occ_NoDup. constructor.
Qed.

Section RoundTrip2.
Variable format_float : N -> bytes.
Variable parse_float : bytes -> option N.
Hypothesis float_roundtrip : forall x,
  is_nan_bits x = false ->
  format_float x <> [] /\ no_cr (format_float x) = true /\ parse_float (format_float x) = Some x.

Notation column_to_data := (column_to_data atoi parse_float atob).
Notation col_strings := (col_strings format_float).

Lemma column_roundtrip2 e c ev :
  col_in_int64 c = true ->
  enum_side_ok e c = true ->
  card_ok e c = true ->
  enum_decl_nodup c = true ->
  (forall vals l, c = ColEnum vals l -> ev = Some vals) ->
  column_to_data e (dtype_of (type_name c)) ev (col_strings c) = Ok (readback_col e c).
Proof.
  intros Hint Henum Hcard Hndv Hev.
  destruct (strict_enum c) eqn:S.
  - rewrite (readback_strict e c S).
    apply (column_roundtrip format_float parse_float float_roundtrip); assumption.
  - destruct c as [l|l|l|l|[|v vals] l|]; try discriminate. clear S.
    cbn [type_name]. change (dtype_of ty_enum) with DEnum.
    rewrite (Hev [] l eq_refl). cbn [card_ok] in Hcard. apply Nat.leb_le in Hcard.
    unfold CsvRead.column_to_data. rewrite andb_false_r. cbn iota.
    change (Nat.ltb enum_max_cardinality (length (@nil bytes))) with false. cbn iota.
    cbn [nodup_values negb].
    change (Nat.ltb 0 (length (@nil bytes))) with false. cbn [col_strings readback_col].
    unfold first_occ in *.
    destruct (enum_fill_nonstrict e (map opt_str l) [] [] Hcard) as (rs & H1 & H2).
    rewrite H1. cbn [obind fst snd app].
    rewrite (omap_enum_cell e _ (map opt_str l) rs Hcard H2). cbn [obind].
    rewrite map_map. f_equal. f_equal. apply map_ext. intros o. apply string_cell_norm.
Qed.

Definition col_ok2 (e : bool) (nc : bytes * column) : bool :=
  col_in_int64 (snd nc) && enum_side_ok e (snd nc) && card_ok e (snd nc) && enum_decl_nodup (snd nc).

Lemma convert_cols_rt2 conf e all :
  cf_types conf = ty_entries all -> cf_empty_null conf = e -> NoDup (map fst all) ->
  forall rest acc,
  (forall nc, In nc rest -> In nc all) -> NoDup (map fst rest) ->
  forallb (col_ok2 e) rest = true ->
  convert_cols atoi parse_float atob conf (map fst rest) (map (fun nc => col_strings (snd nc)) rest)
               (ev_entries rest) acc
  = Ok (acc ++ map (fun nc => (fst nc, readback_col e (snd nc))) rest, []).
Proof.
  intros Hty He Hnd. induction rest as [|[name col] rest IH]; intros acc Hsub Hnd2 Hok.
  - cbn. rewrite app_nil_r. reflexivity.
  - cbn [map fst snd convert_cols]. cbn [forallb] in Hok. apply andb_true_iff in Hok as [Hc Hrest].
    unfold col_ok2 in Hc. cbn [snd] in Hc. apply andb_true_iff in Hc as [Hc Hndv]. apply andb_true_iff in Hc as [Hc Hcard].
    apply andb_true_iff in Hc as [Hint Henum].
    assert (assoc name (cf_types conf) = Some (type_name col)) as Ht.
    { rewrite Hty. apply assoc_in.
      - unfold ty_entries. rewrite map_map. cbn [fst]. exact Hnd.
      - unfold ty_entries. apply in_map_iff. exists (name, col). split; [reflexivity|]. apply Hsub. left. reflexivity. }
    rewrite Ht, He.
    cbn [map fst] in Hnd2. apply NoDup_cons_iff in Hnd2 as [Hnot Hnd2'].
    rewrite (column_roundtrip2 e col); [| exact Hint | exact Henum | exact Hcard | exact Hndv |].
    + cbn [obind].
      assert ((if match dtype_of (type_name col) with DEnum => true | _ => false end
               then assoc_del name (ev_entries ((name, col) :: rest))
               else ev_entries ((name, col) :: rest)) = ev_entries rest) as Hev.
      { destruct col; try reflexivity.
        change (dtype_of (type_name (ColEnum vals l))) with DEnum. cbn iota.
        unfold ev_entries at 1. cbn [flat_map fst snd app]. fold (ev_entries rest).
        unfold assoc_del. cbn [filter fst]. rewrite bytes_eqb_refl. cbn [negb].
        apply assoc_del_notin. intros Hin. apply Hnot. apply ev_entries_keys. exact Hin. }
      rewrite Hev. rewrite IH; [| intros nc Hin; apply Hsub; right; exact Hin | exact Hnd2' | exact Hrest].
      rewrite <- app_assoc. reflexivity.
    + intros vals l ->. unfold ev_entries. cbn [flat_map fst snd app assoc]. rewrite bytes_eqb_refl. reflexivity.
Qed.

(* ... and when some declared value list names a value twice, the conversion stops with an error at the first
   such column (the columns before it are converted as above) *)
Lemma convert_cols_dup conf e all :
  cf_types conf = ty_entries all -> cf_empty_null conf = e -> NoDup (map fst all) ->
  forall rest acc,
  (forall nc, In nc rest -> In nc all) -> NoDup (map fst rest) ->
  forallb (fun nc => col_in_int64 (snd nc) && enum_side_ok e (snd nc) && card_ok e (snd nc)) rest = true ->
  forallb (fun nc => enum_decl_nodup (snd nc)) rest = false ->
  convert_cols atoi parse_float atob conf (map fst rest) (map (fun nc => col_strings (snd nc)) rest)
               (ev_entries rest) acc
  = Fail.
Proof.
  intros Hty He Hnd. induction rest as [|[name col] rest IH]; intros acc Hsub Hnd2 Hok Hdv.
  - discriminate Hdv.
  - cbn [map fst snd convert_cols]. cbn [forallb] in Hok. apply andb_true_iff in Hok as [Hc Hrest].
    cbn [snd] in Hc. apply andb_true_iff in Hc as [Hc Hcard]. apply andb_true_iff in Hc as [Hint Henum].
    assert (assoc name (cf_types conf) = Some (type_name col)) as Ht.
    { rewrite Hty. apply assoc_in.
      - unfold ty_entries. rewrite map_map. cbn [fst]. exact Hnd.
      - unfold ty_entries. apply in_map_iff. exists (name, col). split; [reflexivity|]. apply Hsub. left. reflexivity. }
    rewrite Ht, He.
    cbn [map fst] in Hnd2. apply NoDup_cons_iff in Hnd2 as [Hnot Hnd2'].
    cbn [forallb snd] in Hdv. destruct (enum_decl_nodup col) eqn:D.
    + cbn [andb] in Hdv.
      rewrite (column_roundtrip2 e col); [| exact Hint | exact Henum | exact Hcard | exact D |].
      * cbn [obind].
        assert ((if match dtype_of (type_name col) with DEnum => true | _ => false end
                 then assoc_del name (ev_entries ((name, col) :: rest))
                 else ev_entries ((name, col) :: rest)) = ev_entries rest) as Hev.
        { destruct col; try reflexivity.
          change (dtype_of (type_name (ColEnum vals l))) with DEnum. cbn iota.
          unfold ev_entries at 1. cbn [flat_map fst snd app]. fold (ev_entries rest).
          unfold assoc_del. cbn [filter fst]. rewrite bytes_eqb_refl. cbn [negb].
          apply assoc_del_notin. intros Hin. apply Hnot. apply ev_entries_keys. exact Hin. }
        rewrite Hev. apply IH; [intros nc Hin; apply Hsub; right; exact Hin | exact Hnd2' | exact Hrest | exact Hdv].
      * intros vals l ->. unfold ev_entries. cbn [flat_map fst snd app assoc]. rewrite bytes_eqb_refl. reflexivity.
    + destruct col as [l|l|l|l|vals l|]; try discriminate D. cbn [enum_decl_nodup] in D.
      change (dtype_of (type_name (ColEnum vals l))) with DEnum.
      assert (assoc name (ev_entries ((name, ColEnum vals l) :: rest)) = Some vals) as ->
        by (unfold ev_entries; cbn [flat_map fst snd app assoc]; rewrite bytes_eqb_refl; reflexivity).
      rewrite (column_to_data_enum_duplicate_rejected parse_float); [reflexivity|].
      intro Hn. apply nodup_values_spec in Hn. congruence.
Qed.

(* the premises of the round trip that do not concern CR *)
Definition rt_premises_sharp (empty_null : bool) (nrows : nat) (f : frame) : bool :=
  negb (is_nilb f)
  && forallb (fun nc => check_name (fst nc) && col_in_int64 (snd nc) && enum_side_ok empty_null (snd nc)
                        && Nat.eqb (col_len (snd nc)) nrows) f
  && negb (has_dup (map fst f)).

Lemma sharp_parts e n (nc : bytes * column) :
  check_name (fst nc) && col_in_int64 (snd nc) && enum_side_ok e (snd nc) && Nat.eqb (col_len (snd nc)) n = true ->
  check_name (fst nc) = true /\ col_in_int64 (snd nc) = true /\ enum_side_ok e (snd nc) = true /\
  col_len (snd nc) = n.
Proof.
  intros H. apply andb_true_iff in H as [H H4]. apply andb_true_iff in H as [H H3].
  apply andb_true_iff in H as [H1 H2]. apply Nat.eqb_eq in H4. repeat split; assumption.
Qed.

Lemma rt_premises_weaken e n f : rt_premises e n f = true -> rt_premises_sharp e n f = true.
Proof.
  unfold rt_premises, rt_premises_sharp. intros H. apply andb_true_iff in H as [H Hd].
  apply andb_true_iff in H as [Hn Hall]. rewrite Hn, Hd, !andb_true_r. cbn [andb].
  rewrite forallb_forall in *. intros nc Hnc. destruct (prem_parts e n nc (Hall nc Hnc)) as (P1 & _ & _ & P4 & P5 & P6).
  rewrite P1, P4, P5, P6, Nat.eqb_refl. reflexivity.
Qed.

(* the records ToCSV hands to the csv.Writer *)
Definition written_records (n : nat) (hdr : bool) (wf : frame) : list (list bytes) :=
  let body := map (row_at (map (fun nc : bytes * column => col_strings (snd nc)) wf)) (seq 0 n) in
  if hdr then map fst wf :: body else body.

(* the checks of ReadCSV after the columns were converted *)
Definition finish_read (names : list bytes) (r : frame * list (bytes * list bytes)) : outcome frame :=
  let '(fr, enum_left) := r in
  if negb (is_nilb enum_left) then Fail
  else if has_dup names then Fail
  else if negb (forallb check_name names) then Fail
  else Ok fr.

(* reading what ToCSV wrote comes down to converting the written cell strings column by column: what is needed
   about CR is only that the scanner returns the records as written, i.e. (rec_ok) that no record's LAST field
   ends in CR *)
Lemma read_written_reduces f tc wf doc e :
  iter_cols f tc = Ok wf ->
  to_csv format_float f tc = Ok doc ->
  rt_premises_sharp e (frame_len f) wf = true ->
  forallb rec_ok (written_records (frame_len f) (tc_header tc) wf) = true ->
  read_csv_spec atoi parse_float atob (read_conf_for e (tc_header tc) wf) doc
  = do r <- convert_cols atoi parse_float atob (read_conf_for e (tc_header tc) wf) (map fst wf)
              (map (fun nc : bytes * column => col_strings (snd nc)) wf) (ev_entries wf) [];
    finish_read (map fst wf) r.
Proof.
  intros Hiter Hcsv Hprem Hrecs.
  unfold rt_premises_sharp in Hprem. apply andb_true_iff in Hprem as [Hprem Hdup].
  apply andb_true_iff in Hprem as [Hne Hcols]. rewrite forallb_forall in Hcols.
  assert (wf <> []) as Hwf by (destruct wf; [discriminate | discriminate]).
  unfold written_records in Hrecs.
  set (n := frame_len f) in *.
  set (strs := map (fun nc : bytes * column => col_strings (snd nc)) wf) in *.
  set (names := map fst wf) in *.
  assert (Forall (fun s : list bytes => length s = n) strs) as Hlen.
  { apply Forall_forall. intros s Hs. apply in_map_iff in Hs as (nc & <- & Hnc).
    rewrite col_strings_length. apply (sharp_parts e n nc (Hcols nc Hnc)). }
  unfold to_csv, to_csv_records in Hcsv. rewrite Hiter in Hcsv. cbn [obind] in Hcsv.
  fold strs names n in Hcsv.
  rewrite (records_ok strs n 0) in Hcsv
    by (eapply Forall_impl; [|exact Hlen]; cbn; intros; lia).
  cbn [obind] in Hcsv. inversion Hcsv as [Hdoc]. clear Hcsv.
  set (body := map (row_at strs) (seq 0 n)) in *.
  set (recs := if tc_header tc then names :: body else body) in *.
  assert (names <> []) as Hnn by (unfold names; destruct wf; [congruence | discriminate]).
  unfold read_csv_spec. cbn [read_conf_for cf_delim].
  rewrite scan_writer_output by (reflexivity || exact Hrecs).
  unfold read_rows. cbn [read_conf_for cf_headers cf_ignore_empty cf_alias cf_rename_dup cf_enum_vals].
  assert ((if is_nilb (if tc_header tc then [] else names)
           then match recs with [] => Fail | h :: b => Ok (h, b) end
           else Ok (if tc_header tc then [] else names, recs)) = Ok (names, body)) as Hhb.
  { unfold recs. destruct (tc_header tc); [reflexivity|]. destruct names; [congruence | reflexivity]. }
  fold names. rewrite Hhb. cbn [obind].
  assert (length names = length strs) as Hln by (unfold names, strs; rewrite !map_length; reflexivity).
  assert (map (fun _ : bytes => @nil bytes) names = map (firstn 0) strs) as Hinit.
  { unfold names, strs. rewrite !map_map. reflexivity. }
  rewrite Hln, Hinit. unfold body. rewrite body_loop_rows
    by (eapply Forall_impl; [|exact Hlen]; cbn; intros; lia).
  cbn [obind is_nilb].
  assert (map (firstn (0 + n)) strs = strs) as Hall.
  { rewrite <- (map_id strs) at 2. apply map_ext_in. intros s Hs. rewrite Forall_forall in Hlen.
    rewrite <- (Hlen s Hs). apply firstn_all. }
  rewrite Hall. reflexivity.
Qed.

(* the premises of roundtrip_core about the written frame, taken apart *)
Lemma sharp_names e n wf :
  rt_premises_sharp e n wf = true ->
  NoDup (map fst wf) /\ has_dup (map fst wf) = false /\ forallb check_name (map fst wf) = true /\
  forallb (fun nc => col_in_int64 (snd nc) && enum_side_ok e (snd nc)) wf = true.
Proof.
  intros Hprem. unfold rt_premises_sharp in Hprem. apply andb_true_iff in Hprem as [Hprem Hdup].
  apply andb_true_iff in Hprem as [Hne Hcols]. rewrite forallb_forall in Hcols.
  assert (has_dup (map fst wf) = false) as Hdf.
  { destruct (has_dup (map fst wf)); [discriminate Hdup | reflexivity]. }
  split; [apply has_dup_nodup; exact Hdf|]. split; [exact Hdf|]. split.
  - apply forallb_forall. intros s Hs. apply in_map_iff in Hs as (nc & <- & Hnc).
    apply (sharp_parts e n nc (Hcols nc Hnc)).
  - apply forallb_forall. intros nc Hnc.
    destruct (sharp_parts e n nc (Hcols nc Hnc)) as (_ & P4 & P5 & _). rewrite P4, P5. reflexivity.
Qed.

(* the core.  The declared value lists are duplicate-free (enum_decl_nodup, Proofs/CsvReadProofs.v: the reader's
   enum factory rejects any other declaration, roundtrip_core_duplicate below) *)
Theorem roundtrip_core f tc wf doc e :
  iter_cols f tc = Ok wf ->
  to_csv format_float f tc = Ok doc ->
  rt_premises_sharp e (frame_len f) wf = true ->
  forallb rec_ok (written_records (frame_len f) (tc_header tc) wf) = true ->
  forallb (fun nc => card_ok e (snd nc)) wf = true ->
  forallb (fun nc => enum_decl_nodup (snd nc)) wf = true ->
  read_csv_spec atoi parse_float atob (read_conf_for e (tc_header tc) wf) doc
  = Ok (map (fun nc => (fst nc, readback_col e (snd nc))) wf).
Proof.
  intros Hiter Hcsv Hprem Hrecs Hcard Hndv.
  rewrite (read_written_reduces f tc wf doc e Hiter Hcsv Hprem Hrecs).
  destruct (sharp_names e _ wf Hprem) as (Hnd & Hdf & Hcn & Hok).
  rewrite (convert_cols_rt2 _ e wf); try reflexivity; try assumption.
  - cbn [obind app finish_read is_nilb negb]. rewrite Hdf, Hcn. reflexivity.
  - auto.
  - apply forallb_forall. intros nc Hnc. unfold col_ok2.
    rewrite forallb_forall in Hcard, Hndv, Hok. rewrite (Hok nc Hnc), (Hcard nc Hnc), (Hndv nc Hnc). reflexivity.
Qed.

(* with every other premise in place, a declared value list that names a value twice makes ReadCSV fail *)
Theorem roundtrip_core_duplicate f tc wf doc e :
  iter_cols f tc = Ok wf ->
  to_csv format_float f tc = Ok doc ->
  rt_premises_sharp e (frame_len f) wf = true ->
  forallb rec_ok (written_records (frame_len f) (tc_header tc) wf) = true ->
  forallb (fun nc => card_ok e (snd nc)) wf = true ->
  forallb (fun nc => enum_decl_nodup (snd nc)) wf = false ->
  read_csv_spec atoi parse_float atob (read_conf_for e (tc_header tc) wf) doc = Fail.
Proof.
  intros Hiter Hcsv Hprem Hrecs Hcard Hndv.
  rewrite (read_written_reduces f tc wf doc e Hiter Hcsv Hprem Hrecs).
  destruct (sharp_names e _ wf Hprem) as (Hnd & Hdf & Hcn & Hok).
  rewrite (convert_cols_dup _ e wf); try reflexivity; try assumption.
  - auto.
  - apply forallb_forall. intros nc Hnc.
    rewrite forallb_forall in Hcard, Hok. rewrite (Hok nc Hnc), (Hcard nc Hnc). reflexivity.
Qed.

(* no CR anywhere: every record is fine *)
Lemma written_records_no_cr e n hdr wf :
  rt_premises e n wf = true -> forallb rec_ok (written_records n hdr wf) = true.
Proof.
  intros Hprem. unfold rt_premises in Hprem. apply andb_true_iff in Hprem as [Hprem Hdup].
  apply andb_true_iff in Hprem as [Hne Hcols]. rewrite forallb_forall in Hcols.
  assert (wf <> []) as Hwf by (destruct wf; [discriminate | discriminate]).
  unfold written_records.
  set (strs := map (fun nc : bytes * column => col_strings (snd nc)) wf).
  set (names := map fst wf).
  assert (Forall (fun s : list bytes => length s = n) strs) as Hlen.
  { apply Forall_forall. intros s Hs. apply in_map_iff in Hs as (nc & <- & Hnc).
    rewrite col_strings_length. apply (prem_parts e n nc (Hcols nc Hnc)). }
  assert (forall s, In s names -> no_cr s = true) as Hnames.
  { intros s Hs. apply in_map_iff in Hs as (nc & <- & Hnc). apply (prem_parts e n nc (Hcols nc Hnc)). }
  assert (names <> []) as Hnn by (unfold names; destruct wf; [congruence | discriminate]).
  assert (forallb rec_ok (map (row_at strs) (seq 0 n)) = true) as Hbody.
  { apply forallb_forall. intros r Hr. apply in_map_iff in Hr as (i & <- & Hi). apply in_seq in Hi.
    apply rec_ok_no_cr.
    - unfold row_at, strs. destruct wf; [congruence | discriminate].
    - intros s Hs. unfold row_at in Hs. apply in_map_iff in Hs as (col & <- & Hcol).
      assert (length col = n) as Hl by (rewrite Forall_forall in Hlen; apply Hlen; exact Hcol).
      unfold strs in Hcol. apply in_map_iff in Hcol as (nc & <- & Hnc).
      apply (col_strings_no_cr format_float parse_float float_roundtrip (snd nc)).
      + apply (prem_parts e n nc (Hcols nc Hnc)).
      + apply nth_In. rewrite Hl. lia. }
  destruct hdr; [|exact Hbody]. cbn [forallb]. rewrite Hbody, andb_true_r.
  apply rec_ok_no_cr; assumption.
Qed.

(* the round trip with strict and non-strict enum columns; the declared value lists are duplicate-free *)
Theorem roundtrip2 f tc wf doc e :
  iter_cols f tc = Ok wf ->
  to_csv format_float f tc = Ok doc ->
  rt_premises e (frame_len f) wf = true ->
  forallb (fun nc => card_ok e (snd nc)) wf = true ->
  forallb (fun nc => enum_decl_nodup (snd nc)) wf = true ->
  read_csv_spec atoi parse_float atob (read_conf_for e (tc_header tc) wf) doc
  = Ok (map (fun nc => (fst nc, readback_col e (snd nc))) wf).
Proof.
  intros Hiter Hcsv Hprem Hcard Hndv. apply roundtrip_core with (f := f); try assumption.
  - apply rt_premises_weaken. exact Hprem.
  - apply (written_records_no_cr e). exact Hprem.
Qed.

(* ... and the premise on the declared value lists is needed: without it ReadCSV reports an error *)
Theorem roundtrip2_duplicate f tc wf doc e :
  iter_cols f tc = Ok wf ->
  to_csv format_float f tc = Ok doc ->
  rt_premises e (frame_len f) wf = true ->
  forallb (fun nc => card_ok e (snd nc)) wf = true ->
  forallb (fun nc => enum_decl_nodup (snd nc)) wf = false ->
  read_csv_spec atoi parse_float atob (read_conf_for e (tc_header tc) wf) doc = Fail.
Proof.
  intros Hiter Hcsv Hprem Hcard Hndv. apply roundtrip_core_duplicate with (f := f); try assumption.
  - apply rt_premises_weaken. exact Hprem.
  - apply (written_records_no_cr e). exact Hprem.
Qed.

(* CR is allowed everywhere except at the END of a string of the LAST written column (and at the end of the last
   column name when the header row is written) *)
Definition col_no_trailing_cr (c : column) : bool :=
  match c with
  | ColString l | ColEnum _ l => forallb (fun o => match o with Some s => negb (ends_cr s) | None => true end) l
  | _ => true
  end.

Definition last_col_ok (hdr : bool) (wf : frame) : bool :=
  let nc := last wf ([], ColNone) in
  (negb hdr || negb (ends_cr (fst nc))) && col_no_trailing_cr (snd nc).

Lemma last_map {A B} (g : A -> B) (l : list A) d : last (map g l) (g d) = g (last l d).
Proof. induction l as [|x l IH]; [reflexivity|]. destruct l; [reflexivity|]. exact IH. Qed.

Lemma col_strings_no_trailing_cr c s : col_no_trailing_cr c = true -> In s (col_strings c) -> ends_cr s = false.
Proof.
  intros Hc Hin. destruct c as [l|l|l|l|vals l|]; cbn [col_strings] in Hin.
  - apply in_map_iff in Hin as (z & <- & _). apply no_cr_ends, itoa_no_cr.
  - apply in_map_iff in Hin as (x & <- & _). destruct (is_nan_bits x) eqn:E; [reflexivity|].
    apply no_cr_ends. apply (float_roundtrip x E).
  - apply in_map_iff in Hin as (b & <- & _). apply no_cr_ends, format_bool_no_cr.
  - apply in_map_iff in Hin as (o & <- & Ho). cbn [col_no_trailing_cr] in Hc. rewrite forallb_forall in Hc.
    specialize (Hc o Ho). destruct o; [apply negb_true_iff; exact Hc | reflexivity].
  - apply in_map_iff in Hin as (o & <- & Ho). cbn [col_no_trailing_cr] in Hc. rewrite forallb_forall in Hc.
    specialize (Hc o Ho). destruct o; [apply negb_true_iff; exact Hc | reflexivity].
  - destruct Hin.
Qed.

Lemma written_records_last_ok e n hdr wf :
  rt_premises_sharp e n wf = true -> last_col_ok hdr wf = true ->
  forallb rec_ok (written_records n hdr wf) = true.
Proof.
  intros Hprem Hlast. unfold rt_premises_sharp in Hprem. apply andb_true_iff in Hprem as [Hprem Hdup].
  apply andb_true_iff in Hprem as [Hne Hcols]. rewrite forallb_forall in Hcols.
  assert (wf <> []) as Hwf by (destruct wf; [discriminate | discriminate]).
  unfold last_col_ok in Hlast. apply andb_true_iff in Hlast as [Hln Hlc].
  set (lc := last wf ([], ColNone)) in *.
  assert (In lc wf) as Hlcin.
  { destruct (exists_last Hwf) as (l' & a & E). unfold lc. rewrite E, last_last. apply in_or_app. right. left. reflexivity. }
  unfold written_records.
  set (strs := map (fun nc : bytes * column => col_strings (snd nc)) wf).
  assert (forallb rec_ok (map (row_at strs) (seq 0 n)) = true) as Hbody.
  { apply forallb_forall. intros r Hr. apply in_map_iff in Hr as (i & <- & Hi). apply in_seq in Hi.
    unfold rec_ok. apply andb_true_iff. split.
    - unfold row_at, strs. destruct wf; [congruence | reflexivity].
    - apply negb_true_iff. unfold row_at, strs. rewrite map_map.
      match goal with |- ends_cr (last (map ?g0 wf) ?d0) = false => set (g := g0); set (d := d0) end.
      assert (last (map g wf) d = g lc) as E.
      { replace d with (g ([], ColNone)) by (unfold g, d; destruct i; reflexivity). apply last_map. }
      change (ends_cr (last (map g wf) d) = false). rewrite E. unfold g. apply (col_strings_no_trailing_cr (snd lc) _ Hlc).
      apply nth_In. rewrite col_strings_length.
      destruct (sharp_parts e n lc (Hcols lc Hlcin)) as (_ & _ & _ & P). rewrite P. lia. }
  destruct hdr; [|exact Hbody]. cbn [forallb]. rewrite Hbody, andb_true_r.
  unfold rec_ok. apply andb_true_iff. split.
  - destruct wf; [congruence | reflexivity].
  - change (@nil N) with (fst (@nil N, ColNone)). rewrite last_map. fold lc.
    cbn [negb orb] in Hln. exact Hln.
Qed.

Theorem roundtrip_sharp f tc wf doc e :
  iter_cols f tc = Ok wf ->
  to_csv format_float f tc = Ok doc ->
  rt_premises_sharp e (frame_len f) wf = true ->
  last_col_ok (tc_header tc) wf = true ->
  forallb (fun nc => card_ok e (snd nc)) wf = true ->
  forallb (fun nc => enum_decl_nodup (snd nc)) wf = true ->
  read_csv_spec atoi parse_float atob (read_conf_for e (tc_header tc) wf) doc
  = Ok (map (fun nc => (fst nc, readback_col e (snd nc))) wf).
Proof.
  intros Hiter Hcsv Hprem Hlast Hcard Hndv. apply roundtrip_core with (f := f); try assumption.
  apply (written_records_last_ok e); assumption.
Qed.

(* ================================================================ 2. through the buffer-level reader *)

Theorem roundtrip_fragmented f tc wf doc e (chunks : list bytes) (t : rterm) :
  iter_cols f tc = Ok wf ->
  to_csv format_float f tc = Ok doc ->
  rt_premises e (frame_len f) wf = true ->
  forallb (fun nc => card_ok e (snd nc)) wf = true ->
  forallb (fun nc => enum_decl_nodup (snd nc)) wf = true ->
  Forall (fun c : bytes => c <> []) chunks -> concat chunks = doc -> (t = TEofSep \/ t = TEofWith) ->
  read_csv_buf atoi parse_float atob (read_conf_for e (tc_header tc) wf) chunks t
  = Ok (map (fun nc => (fst nc, readback_col e (snd nc))) wf).
Proof.
  intros Hiter Hcsv Hprem Hcard Hndv Hne Hcat Ht.
  rewrite (read_csv_buf_spec _ _ _ _ chunks t Hne Ht), Hcat.
  apply roundtrip2 with (f := f); assumption.
Qed.

(* ---------------------------------------------------------------- enum values NOT declared by the reader *)

(* ReadCSV with Types{col: "enum"} but without EnumVals for it: whatever value table the written column had,
   the reader derives its own.  [forget_vals] is the written column as such a reader is told about it. *)
Definition forget_vals (c : column) : column :=
  match c with ColEnum _ l => ColEnum [] l | c => c end.
Definition forget_frame (f : frame) : frame := map (fun nc => (fst nc, forget_vals (snd nc))) f.

Lemma col_strings_forget c : col_strings (forget_vals c) = col_strings c.
Proof. destruct c; reflexivity. Qed.

Lemma find_col_forget name : forall f,
  find_col name (forget_frame f) = option_map (fun nc => (fst nc, forget_vals (snd nc))) (find_col name f).
Proof.
  induction f as [|[n c] f IH]; [reflexivity|]. cbn [forget_frame map fst snd find_col].
  destruct (bytes_eqb n name); [reflexivity | exact IH].
Qed.

Lemma iter_cols_forget f tc wf : iter_cols f tc = Ok wf -> iter_cols (forget_frame f) tc = Ok (forget_frame wf).
Proof.
  unfold iter_cols. destruct (tc_columns tc) as [order|]; [|intros H; inversion H; reflexivity].
  unfold forget_frame at 1. rewrite map_length.
  destruct (negb (Nat.eqb (length order) (length f))); [discriminate|].
  revert wf. induction order as [|name order IH]; intros wf H.
  - cbn in H. inversion H. reflexivity.
  - cbn [omap] in *. rewrite find_col_forget. destruct (find_col name f) as [nc|]; [|discriminate].
    cbn [option_map obind] in *.
    destruct (omap (fun name0 => match find_col name0 f with Some nc0 => Ok nc0 | None => Fail end) order)
      as [ys| |]; try discriminate.
    rewrite (IH ys eq_refl). cbn [obind] in *. inversion H. reflexivity.
Qed.

Lemma to_csv_forget f tc wf :
  iter_cols f tc = Ok wf -> to_csv format_float (forget_frame f) tc = to_csv format_float f tc.
Proof.
  intros E. unfold to_csv, to_csv_records.
  assert (frame_len (forget_frame f) = frame_len f) as Hl.
  { destruct f as [|[n c] f]; [reflexivity|]. destruct c; reflexivity. }
  rewrite E, (iter_cols_forget f tc wf E). cbn [obind]. rewrite Hl. unfold forget_frame. rewrite !map_map. cbn [fst snd].
  rewrite (map_ext (fun x : bytes * column => col_strings (forget_vals (snd x))) (fun x => col_strings (snd x)))
    by (intros x; apply col_strings_forget). reflexivity.
Qed.

(* nothing is declared for a forgotten value table, so there is nothing that could be listed twice *)
Lemma forget_frame_decl_nodup wf : forallb (fun nc => enum_decl_nodup (snd nc)) (forget_frame wf) = true.
Proof.
  apply forallb_forall. intros nc Hnc. unfold forget_frame in Hnc. apply in_map_iff in Hnc as (nc0 & <- & _).
  cbn [snd]. destruct (snd nc0); reflexivity.
Qed.

(* the written frame read back by a reader that declares the types only (no premise on the written columns'
   value tables: the reader never sees them) *)
Theorem roundtrip_undeclared f tc wf doc e (chunks : list bytes) (t : rterm) :
  iter_cols f tc = Ok wf ->
  to_csv format_float f tc = Ok doc ->
  rt_premises e (frame_len f) (forget_frame wf) = true ->
  forallb (fun nc => card_ok e (snd nc)) (forget_frame wf) = true ->
  Forall (fun c : bytes => c <> []) chunks -> concat chunks = doc -> (t = TEofSep \/ t = TEofWith) ->
  read_csv_buf atoi parse_float atob (read_conf_for e (tc_header tc) (forget_frame wf)) chunks t
  = Ok (map (fun nc => (fst nc, readback_col e (forget_vals (snd nc)))) wf).
Proof.
  intros Hiter Hcsv Hprem Hcard Hne Hcat Ht.
  assert (frame_len (forget_frame f) = frame_len f) as Hl.
  { destruct f as [|[n c] f']; [reflexivity|]. destruct c; reflexivity. }
  rewrite (roundtrip_fragmented (forget_frame f) tc (forget_frame wf) doc e chunks t); try assumption.
  - unfold forget_frame. rewrite map_map. reflexivity.
  - apply iter_cols_forget. exact Hiter.
  - rewrite (to_csv_forget f tc wf Hiter). exact Hcsv.
  - rewrite Hl. exact Hprem.
  - apply forget_frame_decl_nodup.
Qed.

End RoundTrip2.

(* the cardinality premise in terms of the number of distinct cell strings *)
Lemma first_occ_le_nodup e (cells : list bytes) :
  (length (first_occ e cells) <= length (nodup (list_eq_dec N.eq_dec) cells))%nat.
Proof.
  apply NoDup_incl_length; [apply first_occ_NoDup; constructor|].
  intros s Hs. apply nodup_In. unfold first_occ in Hs. apply first_occ_incl in Hs as [[]|[Hs _]]. exact Hs.
Qed.

(* the statement kept open by the first wave (Properties/C13.v C13_nonstrict_enum_full_statement) *)
Theorem nonstrict_enum_names
  (format_float : N -> bytes) (parse_float : bytes -> option N)
  (float_roundtrip : forall x, is_nan_bits x = false ->
       format_float x <> [] /\ no_cr (format_float x) = true /\ parse_float (format_float x) = Some x)
  (f : frame) (tc : to_conf) (wf : frame) (doc : bytes) (e : bool) :
  iter_cols f tc = Ok wf ->
  to_csv format_float f tc = Ok doc ->
  rt_premises e (frame_len f) wf = true ->
  (forall n vals l, In (n, ColEnum vals l) wf -> vals = [] ->
     (length (nodup (list_eq_dec N.eq_dec) (map (fun o => match o with Some s => s | None => [] end) l))
      <= enum_max_cardinality)%nat) ->
  (forall n vals l, In (n, ColEnum vals l) wf -> NoDup vals) ->
  exists g, read_csv_spec atoi parse_float atob (read_conf_for e (tc_header tc) wf) doc = Ok g /\
            map fst g = map fst wf.
Proof.
  intros Hiter Hcsv Hprem Hcard Hndv.
  exists (map (fun nc => (fst nc, readback_col e (snd nc))) wf). split.
  - apply (roundtrip2 format_float parse_float float_roundtrip f); try assumption.
    + apply forallb_forall. intros [n c] Hnc. cbn [snd].
      destruct c as [l|l|l|l|[|v vals] l|]; try reflexivity. cbn [card_ok]. apply Nat.leb_le.
      eapply Nat.le_trans; [apply first_occ_le_nodup|]. apply (Hcard n [] l Hnc eq_refl).
    + apply forallb_forall. intros [n c] Hnc. cbn [snd].
      destruct c as [l|l|l|l|vals l|]; try reflexivity. cbn [enum_decl_nodup].
      apply nodup_values_spec. apply (Hndv n vals l Hnc).
  - rewrite map_map. reflexivity.
Qed.

(* the limit is sharp: with more than 255 distinct non-null strings the non-strict reader reports an error *)
Theorem nonstrict_overflow (parse_float : bytes -> option N) e ev (cells : list bytes) :
  ev = None \/ ev = Some [] ->
  (enum_max_cardinality < length (first_occ e cells))%nat ->
  column_to_data atoi parse_float atob e DEnum ev cells = Fail.
Proof.
  intros Hev Hlen. unfold column_to_data. rewrite andb_false_r. cbn iota.
  assert (match ev with Some v => v | None => [] end = []) as -> by (destruct Hev as [-> | ->]; reflexivity).
  change (Nat.ltb enum_max_cardinality (length (@nil bytes))) with false. cbn iota.
  change (Nat.ltb 0 (length (@nil bytes))) with false.
  rewrite (enum_fill_nonstrict_full e cells [] [] Hlen); [reflexivity|]. cbn. lia.
Qed.

(* ================================================================ 3. from a physical frame *)

From QF Require Import Model.Json Model.Observe.
(* Model.Frame is imported last: from here on [frame], [col_len], [frame_len] mean the physical frame; the typed
   table of Model/CsvSpec.v is written CsvSpec.frame, CsvSpec.col_len, CsvWrite.frame_len *)
From QF Require Import Model.Frame Model.Filter Model.Ops Model.TableSpec.
From QF Require Import Proofs.EnumProofs Proofs.ObserveProofs.
Local Open Scope nat_scope.

(* the typed columns of Model/CsvSpec.v (what ReadCSV returns, what the typed views return) as a logical
   table of [n] rows.  ColNone (zero rows, no type) does not occur when the types are declared. *)
Definition col_cells (c : CsvSpec.column) : list cell :=
  match c with
  | ColInt l => map CInt l | ColFloat l => map CFloat l | ColBool l => map CBool l
  | ColString l => map CStr l | ColEnum _ l => map CEnum l | ColNone => []
  end.

Definition col_ctype (c : CsvSpec.column) : ctype :=
  match c with
  | ColInt _ => TInt | ColFloat _ => TFloat | ColBool _ => TBool | ColString _ => TString
  | ColEnum _ _ => TEnum | ColNone => TString
  end.

Definition table_of (n : nat) (g : CsvSpec.frame) : table :=
  mkTable (map fst g) (map (fun nc => col_ctype (snd nc)) g)
          (map (fun i => map (fun nc => nth i (col_cells (snd nc)) (CInt 0)) g) (seq 0 n)).

(* the normalisations of the property, cell by cell: null string/enum -> "" (or "" -> null under EmptyNull),
   every NaN is the one NaN *)
Definition norm_tcell (e : bool) (c : cell) : cell :=
  match c with
  | CStr s => CStr (norm_cell e s)
  | CEnum s => CEnum (norm_cell e s)
  | CFloat x => CFloat (canon_float x)
  | c => c
  end.

Definition norm_table (e : bool) (t : table) : table :=
  mkTable (tnames t) (ttypes t) (map (map (norm_tcell e)) (trows t)).

Lemma col_cells_readback e c : col_cells (readback_col e c) = map (norm_tcell e) (col_cells c).
Proof.
  destruct c as [l|l|l|l|[|v vals] l|]; cbn [readback_col norm_col col_cells]; rewrite ?map_map; reflexivity.
Qed.

Lemma col_ctype_readback e c : col_ctype (readback_col e c) = col_ctype c.
Proof. destruct c as [l|l|l|l|[|v vals] l|]; reflexivity. Qed.

Lemma table_of_readback e n (wf : CsvSpec.frame) :
  table_of n (map (fun nc => (fst nc, readback_col e (snd nc))) wf) = norm_table e (table_of n wf).
Proof.
  unfold table_of, norm_table. cbn [tnames ttypes trows]. rewrite !map_map. cbn [fst snd]. f_equal.
  - apply map_ext. intros nc. apply col_ctype_readback.
  - apply map_ext. intros i. rewrite !map_map. apply map_ext. intros nc. cbn [snd].
    rewrite col_cells_readback. change (CInt 0) with (norm_tcell e (CInt 0)) at 1. apply map_nth.
Qed.

(* enum cells of an observed column come out of its value table *)
Definition enum_in_vals (c : CsvSpec.column) : Prop :=
  match c with
  | ColEnum vs l => Forall (fun o => match o with Some s => In s vs | None => True end) l
  | _ => True
  end.

Lemma enum_cells_in d vs st : forall index zs,
  omap (cell_at (ECol d vs st)) index = Ok (map CEnum zs) ->
  Forall (fun o => match o with Some s => In s vs | None => True end) zs.
Proof.
  induction index as [|p index IH]; intros zs H.
  - cbn in H. destruct zs; [constructor | discriminate].
  - apply omap_cons_ok in H as (y & ys & Hy & Hys & Heq).
    destruct zs as [|z zs]; [discriminate|]. cbn [map] in Heq. inversion Heq; subst y ys.
    constructor; [|apply IH; exact Hys].
    cbn [cell_at] in Hy. destruct (idx d p) as [r| |]; cbn [obind] in Hy; try discriminate.
    unfold enum_string in Hy. destruct (enum_is_null r).
    + cbn [obind] in Hy. inversion Hy. exact I.
    + unfold idx in Hy. destruct (nth_error vs (N.to_nat r)) as [s|] eqn:E; cbn in Hy; [|discriminate].
      inversion Hy. eapply nth_error_In. exact E.
Qed.

Lemma typed_column_cells c index cells :
  omap (cell_at c) index = Ok cells ->
  exists col, typed_column (col_type c) (enum_values c) cells = Ok col
              /\ col_cells col = cells /\ col_ctype col = col_type c
              /\ CsvSpec.col_len col = length cells /\ enum_in_vals col.
Proof.
  intro H. pose proof (col_cells_shape c index cells H) as S.
  destruct c as [d|d|d|d|d vs st]; cbn [col_type] in *; destruct S as (zs & ->); unfold typed_column.
  - rewrite (omap_prj_inj CInt) by reflexivity. eexists. split; [reflexivity|].
    cbn [col_cells col_ctype CsvSpec.col_len enum_in_vals]. rewrite map_length. auto.
  - rewrite (omap_prj_inj CFloat) by reflexivity. eexists. split; [reflexivity|].
    cbn [col_cells col_ctype CsvSpec.col_len enum_in_vals]. rewrite map_length. auto.
  - rewrite (omap_prj_inj CBool) by reflexivity. eexists. split; [reflexivity|].
    cbn [col_cells col_ctype CsvSpec.col_len enum_in_vals]. rewrite map_length. auto.
  - rewrite (omap_prj_inj CStr) by reflexivity. eexists. split; [reflexivity|].
    cbn [col_cells col_ctype CsvSpec.col_len enum_in_vals]. rewrite map_length. auto.
  - rewrite (omap_prj_inj CEnum) by reflexivity. eexists. split; [reflexivity|].
    cbn [col_cells col_ctype CsvSpec.col_len enum_in_vals enum_values]. rewrite map_length.
    repeat split. eapply enum_cells_in. exact H.
Qed.

Lemma zipc_seq (F : nat -> list cell) (d : cell) : forall xs k,
  zipc xs (map F (seq k (length xs))) = map (fun i => nth (i - k) xs d :: F i) (seq k (length xs)).
Proof.
  induction xs as [|x xs IH]; intros k; [reflexivity|].
  cbn [length seq map zipc]. rewrite Nat.sub_diag. cbn [nth]. f_equal. rewrite IH.
  apply map_ext_in. intros i Hi. apply in_seq in Hi. replace (i - k) with (S (i - S k)) by lia. reflexivity.
Qed.

(* the frame as read through the typed views IS the logical table *)
Lemma observe_cols_table f : forall cs rows,
  (forall nc, In nc cs -> lookup_col f (fst nc) = Some (snd nc)) ->
  rows_of cs (ix f) = Ok rows ->
  exists obs, omap (observe_one f) cs = Ok obs /\ map fst obs = map fst cs
    /\ map (fun nc => col_ctype (snd nc)) obs = col_types cs
    /\ Forall (fun o => CsvSpec.col_len (snd o) = length (ix f)) obs
    /\ Forall (fun o => enum_in_vals (snd o)) obs
    /\ rows = map (fun i => map (fun nc => nth i (col_cells (snd nc)) (CInt 0)) obs) (seq 0 (length (ix f))).
Proof.
  induction cs as [|[n c] cs IH]; intros rows Hlk Hrows.
  - rewrite rows_of_nil in Hrows. inversion Hrows; subst. exists []. repeat split; try constructor.
    clear. generalize 0. induction (ix f) as [|p l IH]; intros k; [reflexivity|]. cbn [map length seq]. f_equal. apply IH.
  - apply rows_of_cons in Hrows as (xs & rows' & Hxs & Hrows' & ->).
    destruct (IH rows') as (obs & Hobs & Hnames & Htypes & Hlens & Henum & Hrec);
      [intros nc Hin; apply Hlk; right; exact Hin|exact Hrows'|].
    destruct (typed_column_cells c (ix f) xs Hxs) as (col & Hcol & Hcells & Hty & Hlen & Hin).
    assert (Hone : observe_one f (n, c) = Ok (n, col)).
    { pose proof (Hlk (n, c) (or_introl eq_refl)) as Hl. cbn [fst snd] in Hl.
      unfold observe_one, observe_named, get_view. cbn [fst snd].
      rewrite Hl. rewrite ctype_eqb_refl. cbn [obind].
      rewrite (view_items_slice (mkView c (ix f)) xs Hxs). cbn [obind v_col]. rewrite Hcol. reflexivity. }
    assert (Hxl : length xs = length (ix f)) by (apply (omap_len _ _ _ Hxs)).
    exists ((n, col) :: obs). split; [|split; [|split; [|split; [|split]]]].
    + cbn [omap]. rewrite Hone. cbn [obind]. rewrite Hobs. reflexivity.
    + cbn [map fst]. f_equal. exact Hnames.
    + cbn [map snd]. unfold col_types in *. cbn [map snd]. rewrite Hty, Htypes. reflexivity.
    + constructor; [|exact Hlens]. cbn [snd]. rewrite Hlen. exact Hxl.
    + constructor; [exact Hin | exact Henum].
    + rewrite Hrec. rewrite <- Hxl. rewrite (zipc_seq _ (CInt 0)). apply map_ext. intros i.
      cbn [map snd]. rewrite Hcells, Nat.sub_0_r. reflexivity.
Qed.

Theorem observe_table f t :
  abs f = Ok t -> NoDup (col_names f) ->
  exists o, observe_frame f = Ok o /\ table_of (length (ix f)) o = t
    /\ Forall (fun nc => CsvSpec.col_len (snd nc) = length (ix f)) o
    /\ Forall (fun nc => enum_in_vals (snd nc)) o.
Proof.
  intros Ht Hnd. destruct (abs_ok f t Ht) as (R & N & T).
  destruct (observe_cols_table f (cols f) (trows t)) as (obs & Hobs & Hnames & Htypes & Hlens & Henum & Hrows);
    [intros nc Hin; apply lookup_col_nodup; assumption|exact R|].
  exists obs. split; [exact Hobs|]. split; [|split; assumption].
  unfold table_of. rewrite Hnames, Htypes, <- Hrows. fold (col_names f). rewrite <- N, <- T.
  destruct t; reflexivity.
Qed.

(* ---------------------------------------------------------------- Columns(order) *)

Lemma find_col_some name : forall (o : CsvSpec.frame) nc, find_col name o = Some nc -> In nc o /\ fst nc = name.
Proof.
  induction o as [|[n c] o IH]; intros nc H; [discriminate|]. cbn [find_col] in H.
  destruct (bytes_eqb n name) eqn:E.
  - inversion H; subst. apply bytes_eqb_spec in E. split; [left; reflexivity | exact E].
  - apply IH in H as [H1 H2]. split; [right; exact H1 | exact H2].
Qed.

Lemma iter_cols_order (o : CsvSpec.frame) : forall order wf,
  omap (fun name => match find_col name o with Some nc => Ok nc | None => Fail end) order = Ok wf ->
  map fst wf = order /\ forall nc, In nc wf -> In nc o.
Proof.
  induction order as [|name order IH]; intros wf H.
  - cbn in H. inversion H. split; [reflexivity | intros nc []].
  - apply omap_cons_ok in H as (y & ys & Hy & Hys & ->).
    destruct (find_col name o) as [nc|] eqn:F; [|discriminate]. inversion Hy; subst y.
    apply find_col_some in F as [F1 F2]. destruct (IH ys Hys) as [I1 I2]. split.
    + cbn [map]. rewrite F2, I1. reflexivity.
    + intros x [<-|Hx]; [exact F1 | apply I2; exact Hx].
Qed.

(* the columns written: the frame's own, or for Columns(order) the frame's column of each listed name *)
Lemma iter_cols_spec (o : CsvSpec.frame) tc wf :
  iter_cols o tc = Ok wf ->
  (forall nc, In nc wf -> In nc o) /\ length wf = length o /\
  match tc_columns tc with None => wf = o | Some order => map fst wf = order end.
Proof.
  unfold iter_cols. destruct (tc_columns tc) as [order|].
  - destruct (Nat.eqb (length order) (length o)) eqn:L; cbn [negb]; [|discriminate].
    intros H. apply iter_cols_order in H as [H1 H2]. apply Nat.eqb_eq in L.
    split; [exact H2|]. split; [|exact H1]. rewrite <- L, <- H1, map_length. reflexivity.
  - intros H. inversion H. auto.
Qed.

Lemma rt_premises_written e n (o wf : CsvSpec.frame) tc :
  iter_cols o tc = Ok wf ->
  rt_premises e n o = true ->
  (forall order, tc_columns tc = Some order -> has_dup order = false) ->
  rt_premises e n wf = true.
Proof.
  intros Hit Hp Hord. destruct (iter_cols_spec o tc wf Hit) as (Hsub & Hlen & Hnames).
  unfold rt_premises in *. apply andb_true_iff in Hp as [Hp Hdup]. apply andb_true_iff in Hp as [Hne Hall].
  apply andb_true_iff. split; [apply andb_true_iff; split|].
  - destruct o; [discriminate|]. destruct wf; [discriminate | reflexivity].
  - rewrite forallb_forall in *. intros nc Hnc. apply Hall. apply Hsub. exact Hnc.
  - destruct (tc_columns tc) as [order|] eqn:T.
    + rewrite Hnames, (Hord order eq_refl). reflexivity.
    + subst wf. exact Hdup.
Qed.

(* a value table without values: every cell is null, so at most the empty string is derived *)
Lemma card_ok_observed e c : enum_in_vals c -> card_ok e c = true.
Proof.
  destruct c as [l|l|l|l|[|v vals] l|]; intros H; try reflexivity.
  cbn [enum_in_vals] in H. cbn [card_ok]. apply Nat.leb_le.
  assert (incl (first_occ e (map opt_str l)) [[]]) as Hincl.
  { intros s Hs. unfold first_occ in Hs. apply first_occ_incl in Hs as [[]|[Hs _]].
    apply in_map_iff in Hs as (o & <- & Ho). rewrite Forall_forall in H. specialize (H o Ho).
    destruct o as [s|]; [destruct H | left; reflexivity]. }
  apply NoDup_incl_length in Hincl; [|apply first_occ_NoDup; constructor].
  cbn [length] in Hincl. unfold enum_max_cardinality. lia.
Qed.

(* the premises on the physical frame, as a computable check: the frame as observed through its views has at
   least one column, valid distinct names without CR, no CR in strings, null enum cells readable, enum value
   tables without a repeated value (the reader declares them: ReadCSV rejects a declaration that lists a value
   twice; every column the enum factory built has such a table, Proofs/EnumProofs.v enum_new_ok_nodup, and
   phys_premises_intro below derives this part from enum_tables_nodup) *)
Definition phys_premises (e : bool) (f : frame) : bool :=
  match observe_frame f with
  | Ok o => rt_premises e (length (ix f)) o && forallb (fun nc => enum_decl_nodup (snd nc)) o
  | _ => false
  end.

Section Physical.
Variable format_float : N -> bytes.
Variable parse_float : bytes -> option N.
Hypothesis float_roundtrip : forall x,
  is_nan_bits x = false ->
  format_float x <> [] /\ no_cr (format_float x) = true /\ parse_float (format_float x) = Some x.

Theorem roundtrip_physical (f : frame) (t : table) tc doc e (chunks : list bytes) (term : rterm) :
  abs f = Ok t -> NoDup (col_names f) ->
  phys_premises e f = true ->
  (forall order, tc_columns tc = Some order -> has_dup order = false) ->
  frame_to_csv format_float f tc = Ok doc ->
  Forall (fun c : bytes => c <> []) chunks -> concat chunks = doc -> (term = TEofSep \/ term = TEofWith) ->
  exists o wf g,
    observe_frame f = Ok o /\ table_of (length (ix f)) o = t /\
    iter_cols o tc = Ok wf /\ (forall nc, In nc wf -> In nc o) /\
    match tc_columns tc with None => wf = o | Some order => map fst wf = order end /\
    read_csv_buf atoi parse_float atob (read_conf_for e (tc_header tc) wf) chunks term = Ok g /\
    g = map (fun nc => (fst nc, readback_col e (snd nc))) wf /\
    table_of (length (ix f)) g = norm_table e (table_of (length (ix f)) wf).
Proof.
  intros Ht Hnd Hprem Hord Hcsv Hne Hcat Hterm.
  destruct (observe_table f t Ht Hnd) as (o & Hobs & Htab & Hlens & Henum).
  unfold phys_premises in Hprem. rewrite Hobs in Hprem. apply andb_true_iff in Hprem as [Hprem Hndo].
  unfold frame_to_csv in Hcsv. rewrite Hobs in Hcsv. cbn [obind] in Hcsv.
  destruct (iter_cols o tc) as [wf| |] eqn:Hit;
    try (unfold to_csv, to_csv_records in Hcsv; rewrite Hit in Hcsv; discriminate).
  destruct (iter_cols_spec o tc wf Hit) as (Hsub & Hlen & Hnames).
  pose proof (rt_premises_written e _ o wf tc Hit Hprem Hord) as Hpw.
  assert (CsvWrite.frame_len o = length (ix f)) as Hn.
  { destruct o as [|[n0 c0] o']; [discriminate Hprem|]. inversion Hlens; subst. assumption. }
  exists o, wf, (map (fun nc => (fst nc, readback_col e (snd nc))) wf).
  split; [exact Hobs|]. split; [exact Htab|]. split; [exact Hit|]. split; [exact Hsub|]. split; [exact Hnames|].
  split; [|split; [reflexivity | apply table_of_readback]].
  apply (roundtrip_fragmented format_float parse_float float_roundtrip o tc wf doc e chunks term); try assumption.
  - rewrite Hn. exact Hpw.
  - apply forallb_forall. intros nc Hnc. apply card_ok_observed.
    rewrite Forall_forall in Henum. apply Henum. apply Hsub. exact Hnc.
  - apply forallb_forall. intros nc Hnc. rewrite forallb_forall in Hndo. apply Hndo. apply Hsub. exact Hnc.
Qed.

(* without Columns(order): the table read back is the logical table of the frame, normalised *)
Corollary roundtrip_physical_table (f : frame) (t : table) hdr doc e (chunks : list bytes) (term : rterm) :
  abs f = Ok t -> NoDup (col_names f) ->
  phys_premises e f = true ->
  frame_to_csv format_float f (mkToConf hdr None) = Ok doc ->
  Forall (fun c : bytes => c <> []) chunks -> concat chunks = doc -> (term = TEofSep \/ term = TEofWith) ->
  exists o g,
    observe_frame f = Ok o /\
    read_csv_buf atoi parse_float atob (read_conf_for e hdr o) chunks term = Ok g /\
    table_of (length (ix f)) g = norm_table e t.
Proof.
  intros Ht Hnd Hprem Hcsv Hne Hcat Hterm.
  destruct (roundtrip_physical f t (mkToConf hdr None) doc e chunks term Ht Hnd Hprem) as
    (o & wf & g & H1 & H2 & H3 & H4 & H5 & H6 & H7 & H8); try assumption; [intros order H; discriminate|].
  cbn [tc_columns tc_header] in *. subst wf. exists o, g. split; [exact H1|]. split; [exact H6|].
  rewrite H8, H2. reflexivity.
Qed.

End Physical.

(* ---------------------------------------------------------------- Columns(order) is Select on the table *)

Lemma last_pos_notin name : forall names pos acc, ~ In name names -> last_pos_from name names pos acc = acc.
Proof.
  induction names as [|n names IH]; intros pos acc H; [reflexivity|]. cbn [last_pos_from].
  rewrite IH by (intros Hin; apply H; right; exact Hin).
  destruct (bytes_eqb n name) eqn:E; [|reflexivity]. apply bytes_eqb_spec in E. exfalso. apply H. left. exact E.
Qed.

Lemma last_pos_find name nc : forall (o : CsvSpec.frame) pos acc,
  NoDup (map fst o) -> find_col name o = Some nc ->
  exists p, last_pos_from name (map fst o) pos acc = Some (pos + p) /\ nth_error o p = Some nc.
Proof.
  induction o as [|[n c] o IH]; intros pos acc Hnd H; [discriminate|].
  cbn [find_col] in H. cbn [map fst last_pos_from]. inversion Hnd as [|? ? Hnot Hnd']; subst.
  destruct (bytes_eqb n name) eqn:E.
  - inversion H; subst. apply bytes_eqb_spec in E. subst n. exists 0. rewrite Nat.add_0_r.
    split; [apply last_pos_notin; exact Hnot | reflexivity].
  - destruct (IH (S pos) acc Hnd' H) as (p & H1 & H2). exists (S p). split; [|exact H2].
    rewrite H1. f_equal. lia.
Qed.

Lemma nth_map_nth_error {A B} (g : A -> B) (l : list A) p x d : nth_error l p = Some x -> nth p (map g l) d = g x.
Proof.
  revert p. induction l as [|y l IH]; intros [|p] H; try discriminate.
  - inversion H. reflexivity.
  - cbn [map nth]. apply IH. exact H.
Qed.

Theorem columns_order_is_select n (o wf : CsvSpec.frame) tc order :
  NoDup (map fst o) -> order <> [] -> tc_columns tc = Some order ->
  iter_cols o tc = Ok wf ->
  tselect (table_of n o) order = Some (table_of n wf).
Proof.
  intros Hnd Hne Htc Hit. unfold iter_cols in Hit. rewrite Htc in Hit.
  destruct (negb (Nat.eqb (length order) (length o))); [discriminate|].
  assert (exists ps, tpositions (table_of n o) order = Some ps /\ map fst wf = order
                     /\ Forall2 (fun p nc => nth_error o p = Some nc) ps wf) as (ps & Hps & Hnames & HF).
  { clear Hne Htc. revert wf Hit. induction order as [|name order IH]; intros wf Hit.
    - cbn in Hit. inversion Hit. exists []. repeat split. constructor.
    - apply omap_cons_ok in Hit as (y & ys & Hy & Hys & ->).
      destruct (find_col name o) as [nc|] eqn:F; [|discriminate]. inversion Hy; subst y.
      destruct (IH ys Hys) as (ps & H1 & H2 & H3).
      destruct (last_pos_find name nc o 0 None Hnd F) as (p & P1 & P2).
      exists (p :: ps). cbn [tpositions]. unfold tpos. cbn [table_of tnames]. rewrite P1.
      fold (table_of n o). rewrite H1. split; [reflexivity|]. split.
      + cbn [map]. rewrite H2. apply find_col_some in F as [_ F]. rewrite F. reflexivity.
      + constructor; assumption. }
  unfold tselect. destruct order as [|name0 order0]; [congruence|]. rewrite Hps.
  f_equal. unfold table_of. cbn [ttypes trows]. rewrite Hnames. f_equal.
  - clear Hps Hnames Hit. induction HF as [|p nc ps wf' Hp _ IH]; [reflexivity|]. cbn [map]. rewrite IH. f_equal.
    apply (nth_map_nth_error (fun nc : bytes * column => col_ctype (snd nc)) o p nc TInt Hp).
  - rewrite map_map. apply map_ext. intros i.
    clear Hps Hnames Hit. induction HF as [|p nc ps wf' Hp _ IH]; [reflexivity|]. cbn [map]. rewrite IH. f_equal.
    apply (nth_map_nth_error (fun nc : bytes * column => nth i (col_cells (snd nc)) (CInt 0)) o p nc (CInt 0) Hp).
Qed.

Section PhysicalColumns.
Variable format_float : N -> bytes.
Variable parse_float : bytes -> option N.
Hypothesis float_roundtrip : forall x,
  is_nan_bits x = false ->
  format_float x <> [] /\ no_cr (format_float x) = true /\ parse_float (format_float x) = Some x.

(* with Columns(order), order duplicate-free: the table read back is Select(order...) of the logical table *)
Corollary roundtrip_physical_columns (f : frame) (t : table) hdr order doc e (chunks : list bytes) (term : rterm) :
  abs f = Ok t -> NoDup (col_names f) ->
  phys_premises e f = true -> has_dup order = false ->
  frame_to_csv format_float f (mkToConf hdr (Some order)) = Ok doc ->
  Forall (fun c : bytes => c <> []) chunks -> concat chunks = doc -> (term = TEofSep \/ term = TEofWith) ->
  exists o wf g t',
    observe_frame f = Ok o /\ iter_cols o (mkToConf hdr (Some order)) = Ok wf /\
    tselect t order = Some t' /\
    read_csv_buf atoi parse_float atob (read_conf_for e hdr wf) chunks term = Ok g /\
    table_of (length (ix f)) g = norm_table e t'.
Proof.
  intros Ht Hnd Hprem Hord Hcsv Hne Hcat Hterm.
  destruct (roundtrip_physical format_float parse_float float_roundtrip f t (mkToConf hdr (Some order)) doc e chunks term
              Ht Hnd Hprem) as (o & wf & g & H1 & H2 & H3 & H4 & H5 & H6 & H7 & H8); try assumption.
  { intros order' H. inversion H; subst. exact Hord. }
  cbn [tc_columns tc_header] in *.
  destruct (iter_cols_spec o _ wf H3) as (_ & Hlen & _).
  assert (o <> []) as Hone.
  { unfold phys_premises in Hprem. rewrite H1 in Hprem. destruct o; [discriminate Hprem | discriminate]. }
  assert (order <> []) as Hon.
  { rewrite <- H5. destruct wf; [|discriminate]. destruct o; [congruence | discriminate Hlen]. }
  assert (NoDup (map fst o)) as Hndo.
  { destruct (abs_ok f t Ht) as (_ & N & _). rewrite <- H2 in N. cbn [table_of tnames] in N. rewrite N. exact Hnd. }
  exists o, wf, g, (table_of (length (ix f)) wf).
  split; [exact H1|]. split; [exact H3|]. split; [|split; [exact H6 | exact H8]].
  rewrite <- H2. apply (columns_order_is_select _ o wf (mkToConf hdr (Some order)) order); auto.
Qed.

End PhysicalColumns.

(* ---------------------------------------------------------------- the strconv premise is satisfiable *)

(* a formatter/parser pair that meets the premise on FormatFloat/ParseFloat (the decimal digits of the bit
   pattern): the theorems above are not vacuous, and they do not depend on HOW floats are printed, only on the
   three facts the premise lists *)
Definition toy_format (x : N) : bytes := utoa x.
Definition toy_parse (s : bytes) : option N := digits_val s 0.

Lemma toy_float_roundtrip : forall x,
  is_nan_bits x = false ->
  toy_format x <> [] /\ no_cr (toy_format x) = true /\ toy_parse (toy_format x) = Some x.
Proof.
  intros x _. unfold toy_format, toy_parse. split; [|split; [|apply utoa_val]].
  - pose proof (utoa_hd x) as H. destruct (utoa x); [discriminate H | discriminate].
  - unfold no_cr. destruct (existsb (N.eqb c_cr) (utoa x)) eqn:E; [|reflexivity]. exfalso.
    apply existsb_exists in E as (c & Hin & Hc). apply N.eqb_eq in Hc. subst c.
    unfold utoa in Hin. apply udigits_chars in Hin as [[]|H]. discriminate H.
Qed.

(* ---------------------------------------------------------------- well-formed frames *)

Section PhysicalWf.
Variable format_float : N -> bytes.
Variable parse_float : bytes -> option N.
Hypothesis float_roundtrip : forall x,
  is_nan_bits x = false ->
  format_float x <> [] /\ no_cr (format_float x) = true /\ parse_float (format_float x) = Some x.

(* wf_frame (equal physical lengths, index in range - with or without repetitions, in any order -, enum ranks
   valid) is what every frame the library builds satisfies (C10); it makes abs defined *)
Corollary roundtrip_physical_wf (f : frame) hdr doc e (chunks : list bytes) (term : rterm) :
  wf_frame f = true -> NoDup (col_names f) ->
  phys_premises e f = true ->
  frame_to_csv format_float f (mkToConf hdr None) = Ok doc ->
  Forall (fun c : bytes => c <> []) chunks -> concat chunks = doc -> (term = TEofSep \/ term = TEofWith) ->
  exists t o g,
    abs f = Ok t /\ observe_frame f = Ok o /\
    read_csv_buf atoi parse_float atob (read_conf_for e hdr o) chunks term = Ok g /\
    table_of (length (ix f)) g = norm_table e t.
Proof.
  intros Hwf Hnd Hprem Hcsv Hne Hcat Hterm. destruct (wf_abs f Hwf) as [t Ht].
  destruct (roundtrip_physical_table format_float parse_float float_roundtrip f t hdr doc e chunks term)
    as (o & g & H1 & H2 & H3); try assumption.
  exists t, o, g. auto.
Qed.

End PhysicalWf.

(* ---------------------------------------------------------------- the premises, on the logical table *)

(* a cell the round trip preserves: an int64, a string without CR *)
Definition cell_rt_ok (c : cell) : Prop :=
  match c with
  | CInt z => in_int64 z = true
  | CStr (Some s) | CEnum (Some s) => no_cr s = true
  | _ => True
  end.

(* an enum column: at most 255 values (every ecolumn), and a null among the indexed rows only when the reader
   can produce one: EmptyNull, or the empty string is a value, or the table is empty (non-strict reading) *)
Definition enum_null_ok (e : bool) (index : list nat) (c : coldata) : Prop :=
  match c with
  | ECol d vs st =>
      (length vs <= enum_max_cardinality)%nat /\
      (e = true \/ vs = [] \/ In [] vs \/ forall p, In p index -> nth_error d p <> Some c_nullValue)
  | _ => True
  end.

Lemma enum_cells_null d vs st : forall index zs,
  omap (cell_at (ECol d vs st)) index = Ok (map CEnum zs) -> In None zs ->
  exists p, In p index /\ nth_error d p = Some c_nullValue.
Proof.
  induction index as [|p index IH]; intros zs H Hin.
  - cbn in H. destruct zs; [destruct Hin | discriminate].
  - apply omap_cons_ok in H as (y & ys & Hy & Hys & Heq).
    destruct zs as [|z zs]; [discriminate|]. cbn [map] in Heq. inversion Heq; subst y ys.
    destruct Hin as [->|Hin].
    + exists p. split; [left; reflexivity|].
      cbn [cell_at] in Hy. unfold idx at 1 in Hy.
      destruct (nth_error d p) as [r|] eqn:E; cbn [of_option obind] in Hy; [|discriminate].
      unfold enum_string in Hy. destruct (enum_is_null r) eqn:N.
      * unfold enum_is_null in N. apply N.eqb_eq in N. subst r. reflexivity.
      * unfold idx in Hy. destruct (nth_error vs (N.to_nat r)); cbn [of_option obind] in Hy; [inversion Hy | discriminate].
    + destruct (IH zs Hys Hin) as (q & Hq & Hd). exists q. split; [right; exact Hq | exact Hd].
Qed.

Lemma Forall_map_inv {A B} (P : B -> Prop) (g : A -> B) l : Forall P (map g l) -> Forall (fun x => P (g x)) l.
Proof. intros H. apply Forall_forall. intros x Hx. rewrite Forall_forall in H. apply H. apply in_map. exact Hx. Qed.

(* the two copies of NewFactory's duplicate check (Model/CsvRead.v for the reader, Model/Ops.v for qframe.New) *)
Lemma nodup_values_bytes (l : list bytes) : nodup_values l = nodup_bytes l.
Proof. induction l as [|x l IH]; [reflexivity|]. cbn [nodup_values nodup_bytes]. rewrite IH. reflexivity. Qed.

Lemma observed_col_prem e c index xs :
  omap (cell_at c) index = Ok xs -> Forall cell_rt_ok xs -> enum_null_ok e index c ->
  enum_table_nodup c = true ->
  exists col, typed_column (col_type c) (enum_values c) xs = Ok col
    /\ col_no_cr col = true /\ col_in_int64 col = true /\ enum_side_ok e col = true
    /\ CsvSpec.col_len col = length xs /\ enum_decl_nodup col = true.
Proof.
  intros H Hok Hen Hndt. pose proof (col_cells_shape c index xs H) as S.
  destruct c as [d|d|d|d|d vs st]; cbn [col_type] in *; destruct S as (zs & ->); unfold typed_column.
  - rewrite (omap_prj_inj CInt) by reflexivity. eexists. split; [reflexivity|].
    cbn [col_no_cr col_in_int64 enum_side_ok CsvSpec.col_len enum_decl_nodup]. rewrite map_length. repeat split.
    apply forallb_forall. intros z Hz. apply Forall_map_inv in Hok. rewrite Forall_forall in Hok. exact (Hok z Hz).
  - rewrite (omap_prj_inj CFloat) by reflexivity. eexists. split; [reflexivity|].
    cbn [col_no_cr col_in_int64 enum_side_ok CsvSpec.col_len enum_decl_nodup]. rewrite map_length. auto 6.
  - rewrite (omap_prj_inj CBool) by reflexivity. eexists. split; [reflexivity|].
    cbn [col_no_cr col_in_int64 enum_side_ok CsvSpec.col_len enum_decl_nodup]. rewrite map_length. auto 6.
  - rewrite (omap_prj_inj CStr) by reflexivity. eexists. split; [reflexivity|].
    cbn [col_no_cr col_in_int64 enum_side_ok CsvSpec.col_len enum_decl_nodup]. rewrite map_length. repeat split.
    apply forallb_forall. intros o Ho. apply Forall_map_inv in Hok. rewrite Forall_forall in Hok.
    specialize (Hok o Ho). destruct o; [exact Hok | reflexivity].
  - rewrite (omap_prj_inj CEnum) by reflexivity. eexists. split; [reflexivity|].
    cbn [col_no_cr col_in_int64 enum_side_ok CsvSpec.col_len enum_values enum_decl_nodup]. rewrite map_length.
    cbn [enum_null_ok] in Hen. destruct Hen as [Hlen Hnull].
    cbn [enum_table_nodup] in Hndt. rewrite nodup_values_bytes.
    pose proof (enum_cells_in d vs st index zs H) as Hin. rewrite Forall_forall in Hin.
    split; [|split; [reflexivity|split; [|split; [reflexivity | exact Hndt]]]].
    + apply forallb_forall. intros o Ho. apply Forall_map_inv in Hok. rewrite Forall_forall in Hok.
      specialize (Hok o Ho). destruct o; [exact Hok | reflexivity].
    + apply andb_true_iff. split; [|apply Nat.leb_le; exact Hlen].
      apply forallb_forall. intros o Ho. destruct o as [s|].
      * specialize (Hin (Some s) Ho). cbn in Hin.
        assert (existsb (bytes_eqb s) vs = true) as ->
          by (apply existsb_exists; exists s; split; [exact Hin | apply bytes_eqb_refl]).
        rewrite orb_true_r. reflexivity.
      * destruct Hnull as [->|[->|[H0|Hno]]]; try reflexivity.
        -- destruct e; reflexivity.
        -- assert (existsb (bytes_eqb []) vs = true) as ->
             by (apply existsb_exists; exists []; split; [exact H0 | reflexivity]).
           rewrite !orb_true_r. reflexivity.
        -- exfalso. destruct (enum_cells_null d vs st index zs H Ho) as (p & Hp & Hd). exact (Hno p Hp Hd).
Qed.

Lemma Forall_zipc (P : cell -> Prop) : forall xs rs,
  length xs = length rs -> Forall (Forall P) (zipc xs rs) -> Forall P xs /\ Forall (Forall P) rs.
Proof.
  induction xs as [|x xs IH]; intros [|r rs] Hl H; try discriminate; [split; constructor|].
  cbn [zipc] in H. inversion H as [|? ? Hxr Hrest]; subst. inversion Hxr as [|? ? Hx0 Hr0]; subst.
  destruct (IH rs) as [I1 I2]; [cbn in Hl; lia | exact Hrest|]. split; constructor; assumption.
Qed.

Lemma observe_cols_prem e f : forall cs rows,
  (forall nc, In nc cs -> lookup_col f (fst nc) = Some (snd nc)) ->
  rows_of cs (ix f) = Ok rows ->
  Forall (Forall cell_rt_ok) rows ->
  Forall (fun nc => CsvRead.check_name (fst nc) = true /\ no_cr (fst nc) = true /\ enum_null_ok e (ix f) (snd nc)
                    /\ enum_table_nodup (snd nc) = true) cs ->
  exists obs, omap (observe_one f) cs = Ok obs /\ map fst obs = map fst cs /\
    forallb (fun nc => CsvRead.check_name (fst nc) && no_cr (fst nc) && col_no_cr (snd nc)
                       && col_in_int64 (snd nc) && enum_side_ok e (snd nc)
                       && Nat.eqb (CsvSpec.col_len (snd nc)) (length (ix f))) obs = true /\
    forallb (fun nc => enum_decl_nodup (snd nc)) obs = true.
Proof.
  induction cs as [|[n c] cs IH]; intros rows Hlk Hrows Hok Hcs.
  - exists []. repeat split.
  - apply rows_of_cons in Hrows as (xs & rows' & Hxs & Hrows' & ->).
    assert (Hxl : length xs = length (ix f)) by (apply (omap_len _ _ _ Hxs)).
    apply Forall_zipc in Hok as [Hx Hr]; [|rewrite Hxl; symmetry; apply (rows_of_len _ _ _ Hrows')].
    inversion Hcs as [|? ? (N1 & N2 & N3 & N4) Hcs']; subst. cbn [fst snd] in *.
    destruct (IH rows') as (obs & Hobs & Hnames & Hall & Hnda); try assumption;
      [intros nc Hin; apply Hlk; right; exact Hin|].
    destruct (observed_col_prem e c (ix f) xs Hxs Hx N3 N4) as (col & Hcol & P1 & P2 & P3 & P4 & P5).
    assert (Hone : observe_one f (n, c) = Ok (n, col)).
    { pose proof (Hlk (n, c) (or_introl eq_refl)) as Hl. cbn [fst snd] in Hl.
      unfold observe_one, observe_named, get_view. cbn [fst snd].
      rewrite Hl. rewrite ctype_eqb_refl. cbn [obind].
      rewrite (view_items_slice (mkView c (ix f)) xs Hxs). cbn [obind v_col]. rewrite Hcol. reflexivity. }
    exists ((n, col) :: obs). split; [|split; [|split]].
    + cbn [omap]. rewrite Hone. cbn [obind]. rewrite Hobs. reflexivity.
    + cbn [map fst]. f_equal. exact Hnames.
    + cbn [forallb fst snd]. rewrite Hall, N1, N2, P1, P2, P3, P4, Hxl, Nat.eqb_refl. reflexivity.
    + cbn [forallb snd]. rewrite P5, Hnda. reflexivity.
Qed.

(* phys_premises from conditions on the logical table and the enum columns; enum_tables_nodup (Proofs/EnumProofs.v:
   no value table lists a value twice) is what every column built by the enum factory has *)
Theorem phys_premises_intro e (f : frame) (t : table) :
  abs f = Ok t -> NoDup (col_names f) -> cols f <> [] ->
  Forall (fun n => CsvRead.check_name n = true /\ no_cr n = true) (col_names f) ->
  Forall (Forall cell_rt_ok) (trows t) ->
  Forall (fun nc => enum_null_ok e (ix f) (snd nc)) (cols f) ->
  enum_tables_nodup f = true ->
  phys_premises e f = true.
Proof.
  intros Ht Hnd Hne Hnames Hcells Henum Hndt. destruct (abs_ok f t Ht) as (R & _ & _).
  destruct (observe_cols_prem e f (cols f) (trows t)) as (obs & Hobs & Hn & Hall & Hnda); try assumption.
  - intros nc Hin. apply lookup_col_nodup; assumption.
  - apply Forall_forall. intros nc Hnc. rewrite Forall_forall in Hnames, Henum.
    destruct (Hnames (fst nc)) as [H1 H2]; [unfold col_names; apply in_map; exact Hnc|].
    repeat split; try assumption; [apply Henum; exact Hnc|].
    unfold enum_tables_nodup in Hndt. rewrite forallb_forall in Hndt. apply Hndt. exact Hnc.
  - unfold phys_premises, observe_frame. fold (observe_one f). rewrite Hobs, Hnda, andb_true_r.
    unfold rt_premises. rewrite Hall.
    assert (has_dup (map fst obs) = false) as ->.
    { rewrite Hn. fold (col_names f). destruct (has_dup (col_names f)) eqn:D; [|reflexivity]. exfalso.
      clear - D Hnd. induction (col_names f) as [|x l IH]; [discriminate|]. cbn [has_dup] in D.
      inversion Hnd; subst. apply orb_true_iff in D as [D|D]; [|apply IH; assumption].
      apply existsb_exists in D as (y & Hy & E). apply bytes_eqb_spec in E. subst. contradiction. }
    destruct obs; [|reflexivity]. destruct (cols f); [congruence | discriminate Hn].
Qed.
