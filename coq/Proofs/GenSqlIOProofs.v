(* Proofs/GenSqlIOProofs.v — tie T1 for the SQL reader and writer: the definitions that tools/qf2coq/sqlio.go
   generates from internal/io/sql (Gen/GenSqlIO.v: records for the structs Column and SQLConfig, state passing,
   driver values as dval, Column.ptr as a reference into the column's own data, closures as constructors, maps as
   association lists, the *sql.Rows an arbitrary answering machine) agree with the hand-written model of
   Model/Sql.v, the one the sql engine executes through Corr/IOCorr.v.

   Conventions of the statements.
   * The model's states are injected into the generated records by rep_col / rep_conf (nat into Z, ckind into
     gx_Kind, pkind into gx_ref, coerce_kind into gx_CoerceFunc; the four slices into the nested record).  rep_col
     is injective (rep_col_inj): the statements determine the model's answer.
   * Errors.  A generated function with an error result answers Ok (gx_err, state) where the model answers Fail;
     obs forgets the state beside a non-nil error (ReadSQL drops it).  Panic is a Go panic or exhausted fuel.
   * Fuel.  gx_f fuel = (O => Panic | S fuel' => body); the only conditional loops are the back-fill loops of
     Float / String (nulls trips) and the row loop of ReadSQL (one trip per row).  Fuel relations:
     Float, String: nulls + 2 <= fuel;  StringToFloat: nulls + 3;  Scan: nulls + 4;  ReadSQL: rows + 6 <= fuel
     (nulls never exceeds the number of rows scanned: an invariant proved here). *)
From QF Require Import Base.Prelude Model.Sql Gen.GenSqlIO.
From QF Require Corr.IOCorr Proofs.SqlProofs.
Local Open Scope Z_scope.

Definition ofmap {A B : Type} (f : A -> B) (o : outcome A) : outcome B :=
  match o with Ok a => Ok (f a) | Fail => Fail | Panic => Panic end.

(* what the caller of an error-returning function observes: a non-nil error is Fail (the state is dropped) *)
Definition obs {A : Type} (r : outcome (gx_error * A)) : outcome A :=
  match r with
  | Ok (gx_nil, a) => Ok a
  | Ok (gx_err, _) => Fail
  | Fail => Fail
  | Panic => Panic
  end.

(* ================================================================== Part 0: injections *)
Definition rep_kind (k : ckind) : gx_Kind :=
  match k with KInvalid => gx_Invalid | KInt => gx_Int | KFloat => gx_Float64 | KString => gx_String | KBool => gx_Bool end.
Definition rep_ptr (p : pkind) : gx_ref :=
  match p with
  | PNil => gx_ref_nil | PInts => gx_ref_data_Ints | PFloats => gx_ref_data_Floats
  | PBools => gx_ref_data_Bools | PStrings => gx_ref_data_Strings
  end.
Definition rep_ck (k : coerce_kind) : gx_CoerceFunc :=
  match k with CoInt64ToBool => gx_fn_Int64ToBool | CoStringToFloat => gx_fn_StringToFloat end.
Definition rep_col (c : column) : gx_Column :=
  gx_mk_Column (rep_kind (c_kind c)) (Z.of_nat (c_nulls c)) (rep_ptr (c_ptr c))
               (gx_mk_Columndata (c_ints c) (c_floats c) (c_bools c) (c_strs c))
               (option_map rep_ck (c_coerce c)) (c_prec c).

Lemma rep_kind_inj a b : rep_kind a = rep_kind b -> a = b.
Proof. destruct a, b; simpl; congruence. Qed.
Lemma rep_ptr_inj a b : rep_ptr a = rep_ptr b -> a = b.
Proof. destruct a, b; simpl; congruence. Qed.
Lemma rep_ck_inj a b : rep_ck a = rep_ck b -> a = b.
Proof. destruct a, b; simpl; congruence. Qed.
Lemma rep_col_inj a b : rep_col a = rep_col b -> a = b.
Proof.
  destruct a as [k n p i f b0 s co pr], b as [k' n' p' i' f' b0' s' co' pr']. unfold rep_col; cbn.
  intros H; inversion H as [[Hk Hn Hp Hi Hf Hb Hs Hco Hpr]].
  apply rep_kind_inj in Hk. apply rep_ptr_inj in Hp. apply Nat2Z.inj in Hn. subst.
  f_equal. destruct co as [x|], co' as [y|]; simpl in Hco; try congruence.
  inversion Hco as [E]. apply rep_ck_inj in E. congruence.
Qed.

Lemma gx_NaN_eq : gx_NaN = nan_bits.
Proof. reflexivity. Qed.

(* ================================================================== Part 1: column.go *)

(* ---- Null *)
Lemma gx_Null_eq (c : column) : obs (gx_Column_Null (rep_col c)) = ofmap rep_col (col_null c).
Proof.
  destruct c as [k n p i f b s co pr]. unfold gx_Column_Null, col_null, rep_col.
  destruct k; cbn -[Z.of_nat Z.add]; try reflexivity.
  unfold rep_col; cbn -[Z.of_nat Z.add]. rewrite Nat2Z.inj_succ, Z.add_1_r. reflexivity.
Qed.

(* Null never panics and, when it reports an error, it is gx_err *)
Lemma gx_Null_shape (c : column) :
  gx_Column_Null (rep_col c)
  = match col_null c with Ok c' => Ok (gx_nil, rep_col c') | _ => Ok (gx_err, rep_col c) end.
Proof.
  destruct c as [k n p i f b s co pr]. unfold gx_Column_Null, col_null, rep_col.
  destruct k; cbn -[Z.of_nat Z.add]; try reflexivity.
  unfold rep_col; cbn -[Z.of_nat Z.add]. rewrite Nat2Z.inj_succ, Z.add_1_r. reflexivity.
Qed.

(* ---- Int, Bool *)
Lemma gx_Int_eq (c : column) (v : Z) : gx_Column_Int (rep_col c) v = Ok (rep_col (col_int c v)).
Proof.
  destruct c as [k n p i f b s co pr]. unfold gx_Column_Int, col_int, rep_col.
  destruct p; cbn; reflexivity.
Qed.

Lemma gx_Bool_eq (c : column) (v : bool) : gx_Column_Bool (rep_col c) v = Ok (rep_col (col_bool c v)).
Proof.
  destruct c as [k n p i f b s co pr]. unfold gx_Column_Bool, col_bool, rep_col.
  destruct p; cbn; reflexivity.
Qed.

(* ---- Float: the back-fill loop *)
Lemma gx_Float_loop (k : nat) : forall kd nl pt is fs bs ss co pr i,
  (Z.to_nat (nl - i) < k)%nat ->
  gx_Column_Float_loop1 k (gx_mk_Column kd nl pt (gx_mk_Columndata is fs bs ss) co pr) i
  = Ok (gx_mk_Column kd nl pt (gx_mk_Columndata is (fs ++ repeat nan_bits (Z.to_nat (nl - i))) bs ss) co pr).
Proof.
  induction k as [|k IH]; intros kd nl pt is fs bs ss co pr i H; [lia|].
  cbn [gx_Column_Float_loop1]. cbv [gx_Column_nulls gx_Column_data gx_Columndata_Floats gx_Columndata_set_Floats
    gx_Column_set_data gx_Column_kind gx_Column_ptr gx_Column_coerce gx_Column_precision gx_Columndata_Ints
    gx_Columndata_Bools gx_Columndata_Strings].
  destruct (i <? nl) eqn:E.
  - rewrite IH by lia. rewrite gx_NaN_eq.
    replace (Z.to_nat (nl - i)) with (S (Z.to_nat (nl - (i + 1)))) by lia.
    cbn [repeat]. rewrite <- app_assoc. reflexivity.
  - replace (Z.to_nat (nl - i)) with 0%nat by lia. cbn [repeat]. rewrite app_nil_r. reflexivity.
Qed.

Lemma gx_Float_eq fixed (fuel : nat) (c : column) (v : N) : (c_nulls c + 2 <= fuel)%nat ->
  gx_Column_Float fixed fuel (rep_col c) v = Ok (rep_col (col_float fixed c v)).
Proof.
  intros Hf. destruct fuel as [|fuel]; [lia|].
  destruct c as [k n p i f b s co pr]. unfold gx_Column_Float, col_float, rep_col. cbn in Hf.
  destruct p.
  2-5: cbv -[Z.ltb]; destruct (0 <? pr); reflexivity.
  destruct n as [|n].
  - cbv -[Z.ltb]. destruct (0 <? pr); reflexivity.
  - cbv -[Z.of_nat Z.ltb gx_Column_Float_loop1 repeat app nan_bits].
    replace (0 <? Z.of_nat (S n)) with true by lia. cbv iota.
    rewrite gx_Float_loop by lia.
    cbv -[Z.of_nat Z.ltb repeat app nan_bits Z.sub Z.to_nat]. rewrite Z.sub_0_r, Nat2Z.id.
    destruct (0 <? pr); reflexivity.
Qed.

(* ---- String *)
Lemma gx_String_loop (k : nat) : forall kd nl pt is fs bs ss co pr i,
  (Z.to_nat (nl - i) < k)%nat ->
  gx_Column_String_loop1 k (gx_mk_Column kd nl pt (gx_mk_Columndata is fs bs ss) co pr) i
  = Ok (gx_mk_Column kd nl pt (gx_mk_Columndata is fs bs (ss ++ repeat None (Z.to_nat (nl - i)))) co pr).
Proof.
  induction k as [|k IH]; intros kd nl pt is fs bs ss co pr i H; [lia|].
  cbn [gx_Column_String_loop1]. cbv [gx_Column_nulls gx_Column_data gx_Columndata_Floats gx_Columndata_set_Strings
    gx_Column_set_data gx_Column_kind gx_Column_ptr gx_Column_coerce gx_Column_precision gx_Columndata_Ints
    gx_Columndata_Bools gx_Columndata_Strings].
  destruct (i <? nl) eqn:E.
  - rewrite IH by lia.
    replace (Z.to_nat (nl - i)) with (S (Z.to_nat (nl - (i + 1)))) by lia.
    cbn [repeat]. rewrite <- app_assoc. reflexivity.
  - replace (Z.to_nat (nl - i)) with 0%nat by lia. cbn [repeat]. rewrite app_nil_r. reflexivity.
Qed.

Lemma gx_String_eq (fuel : nat) (c : column) (v : bytes) : (c_nulls c + 2 <= fuel)%nat ->
  gx_Column_String fuel (rep_col c) v = Ok (rep_col (col_string c v)).
Proof.
  intros Hf. destruct fuel as [|fuel]; [lia|].
  destruct c as [k n p i f b s co pr]. unfold gx_Column_String, col_string, rep_col. cbn in Hf.
  destruct p.
  2-5: reflexivity.
  destruct n as [|n].
  - reflexivity.
  - cbv -[Z.of_nat Z.ltb gx_Column_String_loop1 repeat app].
    replace (0 <? Z.of_nat (S n)) with true by lia. cbv iota.
    rewrite gx_String_loop by lia.
    cbv -[Z.of_nat Z.ltb repeat app Z.sub Z.to_nat]. rewrite Z.sub_0_r, Nat2Z.id.
    reflexivity.
Qed.

(* ================================================================== Part 2: coerce.go and Scan *)
Section WithFloatFunctions.
Variable fixed : N -> Z -> N.
Variable pf : bytes -> option N.

Lemma col_null_not_panic c : col_null c <> Panic.
Proof. unfold col_null. destruct (c_kind c); discriminate. Qed.

Lemma col_scan_not_panic c t : col_scan fixed pf c t <> Panic.
Proof.
  unfold col_scan, coerce_scan. pose proof (col_null_not_panic c) as Hn.
  destruct (c_coerce c) as [[|]|]; destruct t; try discriminate; try assumption.
  destruct (pf s); discriminate.
Qed.

Lemma gx_Int64ToBool_eq (c : column) (t : dval) :
  obs (gx_Int64ToBool (rep_col c) t) = ofmap rep_col (coerce_scan fixed pf CoInt64ToBool c t).
Proof.
  unfold gx_Int64ToBool, coerce_scan.
  destruct t; cbn [gx_any_isnil gx_assert_int64 negb]; try reflexivity.
  - rewrite gx_Bool_eq. reflexivity.
  - rewrite gx_Null_shape. pose proof (col_null_not_panic c) as Hnp. destruct (col_null c); [reflexivity|reflexivity|congruence].
Qed.

Lemma gx_StringToFloat_eq (fuel : nat) (c : column) (t : dval) : (c_nulls c + 3 <= fuel)%nat ->
  obs (gx_StringToFloat fixed pf fuel (rep_col c) t) = ofmap rep_col (coerce_scan fixed pf CoStringToFloat c t).
Proof.
  intros Hf. destruct fuel as [|fuel]; [lia|]. unfold gx_StringToFloat, coerce_scan.
  destruct t; cbn [gx_any_isnil gx_assert_string negb]; try reflexivity.
  - unfold gx_ParseFloat. destruct (pf s) as [x|]; cbn [gx_error_isnil negb]; [|reflexivity].
    rewrite (gx_Float_eq fixed) by lia. reflexivity.
  - rewrite gx_Null_shape. pose proof (col_null_not_panic c) as Hnp. destruct (col_null c); [reflexivity|reflexivity|congruence].
Qed.

Lemma gx_apply_eq (fuel' : nat) (k : coerce_kind) (c : column) (t : dval) : (c_nulls c + 3 <= fuel')%nat ->
  obs (gx_apply_CoerceFunc fixed pf fuel' (rep_ck k) (rep_col c) t) = ofmap rep_col (coerce_scan fixed pf k c t).
Proof.
  intros Hf. destruct k; cbn [rep_ck gx_apply_CoerceFunc].
  - apply gx_Int64ToBool_eq.
  - apply gx_StringToFloat_eq; assumption.
Qed.

(* ---- Scan: for every column state and every driver value; fuel relation: nulls + 4 <= fuel *)
Lemma gx_Scan_eq (fuel : nat) (c : column) (t : dval) : (c_nulls c + 4 <= fuel)%nat ->
  obs (gx_Column_Scan fixed pf fuel (rep_col c) t) = ofmap rep_col (col_scan fixed pf c t).
Proof.
  intros Hf. destruct fuel as [|fuel]; [lia|]. unfold gx_Column_Scan, col_scan.
  destruct (c_coerce c) as [k|] eqn:Eco.
  - replace (gx_Column_coerce (rep_col c)) with (Some (rep_ck k)) by (unfold rep_col; cbn; rewrite Eco; reflexivity).
    cbn [gx_opt_isnil negb].
    rewrite <- (gx_apply_eq fuel k c t) by lia.
    destruct (gx_apply_CoerceFunc fixed pf fuel (rep_ck k) (rep_col c) t) as [[[|] a]| |]; reflexivity.
  - replace (gx_Column_coerce (rep_col c)) with (@None gx_CoerceFunc) by (unfold rep_col; cbn; rewrite Eco; reflexivity).
    cbn [gx_opt_isnil negb].
    destruct t.
    + rewrite gx_Int_eq. reflexivity.
    + rewrite (gx_Float_eq fixed) by lia. reflexivity.
    + rewrite gx_Bool_eq. reflexivity.
    + rewrite gx_String_eq by lia. reflexivity.
    + rewrite gx_String_eq by lia. reflexivity.
    + rewrite gx_Null_shape. pose proof (col_null_not_panic c) as Hnp. destruct (col_null c); [reflexivity|reflexivity|congruence].
    + reflexivity.
Qed.

(* the generated Scan itself never answers Fail or Panic with that fuel: an error is the value gx_err *)
Lemma gx_Scan_shape (fuel : nat) (c : column) (t : dval) : (c_nulls c + 4 <= fuel)%nat ->
  exists e a, gx_Column_Scan fixed pf fuel (rep_col c) t = Ok (e, a) /\
    match e with
    | gx_nil => exists c', col_scan fixed pf c t = Ok c' /\ a = rep_col c'
    | gx_err => col_scan fixed pf c t = Fail
    end.
Proof.
  intros Hf. pose proof (gx_Scan_eq fuel c t Hf) as H. pose proof (col_scan_not_panic c t) as Hp.
  destruct (gx_Column_Scan fixed pf fuel (rep_col c) t) as [[[|] a]| |] eqn:E; cbn in H.
  - exists gx_nil, a. split; [reflexivity|]. destruct (col_scan fixed pf c t) as [c'| |]; cbn in H; try discriminate.
    exists c'. split; [reflexivity|]. congruence.
  - exists gx_err, a. split; [reflexivity|]. destruct (col_scan fixed pf c t); cbn in H; try discriminate. reflexivity.
  - exfalso. revert E. destruct fuel as [|fuel]; [lia|]. unfold gx_Column_Scan.
    destruct (negb (gx_opt_isnil (gx_Column_coerce (rep_col c)))).
    + destruct (gx_Column_coerce (rep_col c)) as [[|]|]; cbn [gx_apply_CoerceFunc]; try discriminate.
      * unfold gx_Int64ToBool. destruct (gx_any_isnil t).
        -- rewrite gx_Null_shape. destruct (col_null c); discriminate.
        -- destruct (gx_assert_int64 t) as [v ok]. destruct (negb ok); [discriminate|].
           rewrite gx_Bool_eq. discriminate.
      * destruct fuel as [|fuel]; [lia|]. unfold gx_StringToFloat. destruct (gx_any_isnil t).
        -- rewrite gx_Null_shape. destruct (col_null c); discriminate.
        -- destruct (gx_assert_string t) as [v ok]. destruct (negb ok); [discriminate|].
           destruct (gx_ParseFloat pf v) as [x e]. destruct (negb (gx_error_isnil e)); [discriminate|].
           rewrite (gx_Float_eq fixed) by lia. discriminate.
    + destruct t.
      * rewrite gx_Int_eq. discriminate.
      * rewrite (gx_Float_eq fixed) by lia. discriminate.
      * rewrite gx_Bool_eq. discriminate.
      * rewrite gx_String_eq by lia. discriminate.
      * rewrite gx_String_eq by lia. discriminate.
      * rewrite gx_Null_shape. destruct (col_null c); discriminate.
      * discriminate.
  - exfalso. destruct (col_scan fixed pf c t); cbn in H; try discriminate. apply Hp; reflexivity.
Qed.

(* ---- Data *)
Definition rep_data (d : option coldata) : gx_DataSlice :=
  match d with
  | None => gx_DataSlice_nil
  | Some (CInt l) => gx_DataSlice_Ints l
  | Some (CFloat l) => gx_DataSlice_Floats l
  | Some (CBool l) => gx_DataSlice_Bools l
  | Some (CStr l) => gx_DataSlice_Strings l
  | Some (CEnum _ _) => gx_DataSlice_nil        (* Data never answers an enum column *)
  end.

Lemma gx_Data_eq (c : column) : gx_Column_Data (rep_col c) = Ok (rep_data (col_data c)).
Proof.
  destruct c as [k n p i f b s co pr]. unfold gx_Column_Data, col_data, rep_col.
  destruct p; reflexivity.
Qed.

End WithFloatFunctions.

(* ================================================================== Part 3: stmt.go *)
(* the coercion map: a pair without function (None) is the nil CoerceFunc stored in the Go map *)
Definition rep_centry (p : bytes * option coerce_kind) : bytes * option gx_CoerceFunc := (fst p, option_map rep_ck (snd p)).
Definition rep_cmap (m : option (list (bytes * option coerce_kind))) : option (list (bytes * option gx_CoerceFunc)) :=
  option_map (map rep_centry) m.
(* the configuration: Query is not part of the model (it is not used by the translated functions) *)
Definition rep_conf (query : bytes) (conf : sql_config) : gx_SQLConfig :=
  gx_mk_SQLConfig query (q_incr conf) (q_table conf) (q_escape conf) (rep_cmap (q_coerce conf)) (q_precision conf).

Lemma gx_escape_eq (s : bytes) (ch : Z) (buf : bytes) : gx_escape s ch buf = Ok (buf ++ escape s ch).
Proof.
  unfold gx_escape, escape. destruct (ch =? 0); [reflexivity|].
  rewrite <- !app_assoc. reflexivity.
Qed.

Lemma lit_comma_eq : bs 1 0x2c = lit_comma. Proof. reflexivity. Qed.
Lemma lit_dollar_eq : bs 1 0x24 = lit_dollar. Proof. reflexivity. Qed.
Lemma lit_qmark_eq : bs 1 0x3f = lit_qmark. Proof. reflexivity. Qed.
Lemma lit_insert_eq : bs 12 0x494e5345525420494e544f20 = lit_insert_into. Proof. reflexivity. Qed.
Lemma lit_open_eq : bs 2 0x2028 = lit_open. Proof. reflexivity. Qed.
Lemma lit_values_eq : bs 10 0x292056414c5545532028 = lit_values. Proof. reflexivity. Qed.
Lemma lit_close_eq : bs 2 0x293b = lit_close. Proof. reflexivity. Qed.

Lemma gx_itoa_eq (i : nat) : gx_itoa (Z.of_nat i + 1) = itoa (N.of_nat (i + 1)).
Proof.
  unfold gx_itoa. replace (Z.of_nat i + 1 <? 0) with false by lia.
  f_equal. lia.
Qed.

Lemma gx_Insert_loop1_eq (names : list bytes) (cf : gx_SQLConfig) : forall (l : list bytes) (i : nat) (buf : bytes),
  gx_Insert_loop1 l (Z.of_nat i) names cf buf
  = Ok (buf ++ insert_names l (gx_SQLConfig_EscapeChar cf) i (length names)).
Proof.
  induction l as [|x l IH]; intros i buf; cbn [gx_Insert_loop1 insert_names].
  - rewrite app_nil_r. reflexivity.
  - rewrite gx_escape_eq. cbn [obind].
    replace (Z.of_nat i + 1) with (Z.of_nat (S i)) by lia.
    replace (Z.of_nat (S i) <? Z.of_nat (length names)) with (Nat.ltb (i + 1) (length names))
      by (destruct (Nat.ltb_spec (i + 1) (length names)); lia).
    destruct (Nat.ltb (i + 1) (length names)); rewrite IH; rewrite ?lit_comma_eq, <- ?app_assoc; reflexivity.
Qed.

Lemma gx_Insert_loop2_eq (names : list bytes) (cf : gx_SQLConfig) : forall (l : list bytes) (i : nat) (buf : bytes),
  gx_Insert_loop2 l (Z.of_nat i) names cf buf
  = Ok (buf ++ insert_marks l (gx_SQLConfig_Incrementing cf) i (length names)).
Proof.
  induction l as [|x l IH]; intros i buf; cbn [gx_Insert_loop2 insert_marks].
  - rewrite app_nil_r. reflexivity.
  - rewrite gx_itoa_eq.
    replace (Z.of_nat i + 1) with (Z.of_nat (S i)) by lia.
    replace (Z.of_nat (S i) <? Z.of_nat (length names)) with (Nat.ltb (i + 1) (length names))
      by (destruct (Nat.ltb_spec (i + 1) (length names)); lia).
    destruct (gx_SQLConfig_Incrementing cf); destruct (Nat.ltb (i + 1) (length names)); rewrite IH;
      rewrite ?lit_comma_eq, ?lit_dollar_eq, ?lit_qmark_eq, <- ?app_assoc; reflexivity.
Qed.

(* ---- Insert: byte for byte the model's statement text, for every name list and configuration *)
Lemma gx_Insert_eq (query : bytes) (names : list bytes) (conf : sql_config) :
  gx_Insert names (rep_conf query conf) = Ok (insert_text names conf).
Proof.
  unfold gx_Insert, insert_text. rewrite gx_escape_eq. cbn [obind].
  rewrite (gx_Insert_loop1_eq names (rep_conf query conf) names 0). cbn [obind].
  rewrite (gx_Insert_loop2_eq names (rep_conf query conf) names 0). cbn [obind].
  rewrite lit_insert_eq, lit_open_eq, lit_values_eq, lit_close_eq.
  unfold rep_conf; cbn [gx_SQLConfig_Table gx_SQLConfig_EscapeChar gx_SQLConfig_Incrementing].
  rewrite <- !app_assoc. reflexivity.
Qed.

(* ================================================================== Part 4: reader.go *)

(* ---- maps as association lists: conf.CoerceMap[name] *)
Lemma gx_assoc_lookup_eq (m : list (bytes * option coerce_kind)) (name : bytes) :
  gx_assoc_lookup (map rep_centry m) name = option_map (option_map rep_ck) (coerce_find m name).
Proof.
  induction m as [|[n k] m IH]; [reflexivity|]. cbn [map gx_assoc_lookup coerce_find rep_centry fst snd].
  rewrite IH. destruct (coerce_find m name); cbn [option_map]; [reflexivity|].
  destruct (bytes_eqb n name); reflexivity.
Qed.

Lemma gx_map_lookup_eq (conf : sql_config) (name : bytes) :
  gx_map_lookup (rep_cmap (q_coerce conf)) name = option_map (option_map rep_ck) (coerce_entry conf name).
Proof. unfold coerce_entry. destruct (q_coerce conf) as [l|]; [apply gx_assoc_lookup_eq|reflexivity]. Qed.

(* ---- the allocation loop: for _, name := range names { col := &Column{..}; .. if fn == nil { return .. error };
   .. columns = append(columns, col) }: it returns the error exactly where the model's alloc_columns fails (a
   column of the result set bound to an entry without function), else it appends the model's columns *)
Lemma gx_alloc_eq (query : bytes) (conf : sql_config) (colNames : list bytes) : forall (names : list bytes) (cols : list gx_Column),
  gx_ReadSQL_loop1 names (rep_conf query conf) cols colNames
  = Ok (match alloc_columns names conf with
        | Ok cs => gx_fall (cols ++ map rep_col cs)
        | _ => gx_ret (None, colNames, gx_err)
        end).
Proof.
  assert (Hm : gx_SQLConfig_CoerceMap (rep_conf query conf) = rep_cmap (q_coerce conf)) by reflexivity.
  assert (Hp : gx_SQLConfig_Precision (rep_conf query conf) = q_precision conf) by reflexivity.
  generalize dependent (rep_conf query conf). intros cf Hm Hp.
  induction names as [|n names IH]; intros cols; cbn [gx_ReadSQL_loop1 alloc_columns map].
  - rewrite app_nil_r. reflexivity.
  - rewrite Hm, Hp. rewrite gx_map_lookup_eq.
    assert (Hstep : forall co,
      gx_ReadSQL_loop1 names cf (cols ++ [rep_col (new_column (q_precision conf) co)]) colNames
      = Ok (match (do cs <- alloc_columns names conf; Ok (new_column (q_precision conf) co :: cs)) with
            | Ok cs => gx_fall (cols ++ map rep_col cs)
            | _ => gx_ret (None, colNames, gx_err)
            end)).
    { intros co. rewrite IH. destruct (alloc_columns names conf) as [cs| |]; cbn [obind map]; try reflexivity.
      rewrite <- app_assoc. reflexivity. }
    unfold coerce_entry. destruct (q_coerce conf) as [m|] eqn:Em.
    + cbn [rep_cmap option_map gx_opt_isnil negb].
      destruct (coerce_find m n) as [[k|]|]; cbn [option_map gx_opt_or gx_opt_isnil negb gx_make_closure obind].
      * exact (Hstep (Some k)).
      * reflexivity.
      * exact (Hstep None).
    + cbn [rep_cmap option_map gx_opt_isnil negb]. exact (Hstep None).
Qed.

(* ---- the block "ensure any column in the coercion map exists": as written it looks at colNames BEFORE
   colNames = names; the generated loops and the model's coerce_check agree for every colNames *)
Lemma gx_check_inner_eq (colNames : list bytes) (name : bytes) :
  gx_ReadSQL_loop2 colNames colNames name
  = Ok (match colNames with
        | [] => gx_cfall tt
        | cn :: _ => if bytes_eqb name cn then gx_ccont tt else gx_cret (None, colNames, gx_err)
        end).
Proof.
  generalize colNames at 2 4 as cn0. intros cn0.
  destruct colNames as [|cn rest]; cbn [gx_ReadSQL_loop2]; [reflexivity|].
  destruct (bytes_eqb name cn); reflexivity.
Qed.

Lemma gx_check_eq (colNames : list bytes) : forall (m : list (bytes * option coerce_kind)),
  gx_ReadSQL_loop3 (map fst (map rep_centry m)) colNames
  = Ok (if coerce_check m colNames then gx_fall tt else gx_ret (None, colNames, gx_err)).
Proof.
  induction m as [|[n k] m IH]; [reflexivity|].
  cbn [map fst snd rep_centry gx_ReadSQL_loop3]. rewrite gx_check_inner_eq. cbn [obind].
  unfold coerce_check in *. cbn [forallb fst]. unfold coerce_check_inner at 1.
  destruct colNames as [|cn rest].
  - cbn [andb]. exact IH.
  - destruct (bytes_eqb n cn); cbn [andb]; [exact IH|reflexivity].
Qed.

Lemma alloc_nulls conf : forall names cs,
  alloc_columns names conf = Ok cs -> Forall (fun c => (c_nulls c <= 0)%nat) cs.
Proof.
  induction names as [|n names IH]; intros cs H; cbn [alloc_columns] in H.
  - inversion H; subst. constructor.
  - destruct (coerce_entry conf n) as [[k|]|]; try discriminate;
      (destruct (alloc_columns names conf) as [cs'| |]; cbn [obind] in H; try discriminate;
       inversion H; subst; constructor; [cbn; lia|apply IH; reflexivity]).
Qed.

Lemma alloc_not_panic conf : forall names, alloc_columns names conf <> Panic.
Proof.
  induction names as [|n names IH]; cbn [alloc_columns]; [discriminate|].
  destruct (coerce_entry conf n) as [[k|]|]; try discriminate;
    (destruct (alloc_columns names conf); cbn [obind]; try discriminate; congruence).
Qed.

Section WithFloatFunctions2.
Variable fixed : N -> Z -> N.
Variable pf : bytes -> option N.

(* ---- rows.Scan(columns...) of database/sql against scan_row *)
Lemma scan_row_mismatch : forall (cs : list column) (vals : list dval),
  length cs <> length vals -> scan_row fixed pf cs vals = Fail.
Proof.
  induction cs as [|c cs IH]; intros [|v vs] H; cbn [scan_row]; try reflexivity; try (cbn in H; congruence).
  pose proof (col_scan_not_panic fixed pf c v) as Hp.
  destruct (col_scan fixed pf c v) as [c'| |]; cbn [obind]; try reflexivity; [|congruence].
  rewrite IH by (cbn in H; congruence). reflexivity.
Qed.

Lemma gx_scan_dests_eq (fuel : nat) : forall (cs : list column) (vals : list dval),
  Forall (fun c => (c_nulls c + 4 <= fuel)%nat) cs -> length cs = length vals ->
  exists e ds, gx_scan_dests fixed pf fuel (map rep_col cs) vals = Ok (e, ds) /\
    match e with
    | gx_nil => exists cs', scan_row fixed pf cs vals = Ok cs' /\ ds = map rep_col cs'
    | gx_err => scan_row fixed pf cs vals = Fail
    end.
Proof.
  induction cs as [|c cs IH]; intros [|v vs] HF Hl; try (cbn in Hl; congruence).
  - exists gx_nil, []. split; [reflexivity|]. exists []. split; reflexivity.
  - inversion HF as [|c0 cs0 Hc HF']; subst. cbn [map gx_scan_dests scan_row].
    destruct (gx_Scan_shape fixed pf fuel c v Hc) as [e [a [E HE]]]. rewrite E. cbn [obind].
    destruct e; cbn [gx_error_isnil].
    + destruct HE as [c' [Hs Ha]]. rewrite Hs. cbn [obind]. subst a.
      destruct (IH vs HF' ltac:(cbn in Hl; congruence)) as [e2 [ds' [E2 HE2]]]. rewrite E2. cbn [obind].
      exists e2, (rep_col c' :: ds'). split; [reflexivity|].
      destruct e2.
      * destruct HE2 as [cs' [Hs2 Hd]]. rewrite Hs2. cbn [obind]. exists (c' :: cs'). subst ds'. split; reflexivity.
      * rewrite HE2. reflexivity.
    + exists gx_err, (a :: map rep_col cs). split; [reflexivity|]. rewrite HE. reflexivity.
Qed.

Lemma gx_Rows_Scan_eq {Rt : Type} (values : Rt -> list dval) (fuel : nat) (r : Rt) (cs : list column) :
  Forall (fun c => (c_nulls c + 4 <= fuel)%nat) cs ->
  exists e ds, gx_Rows_Scan values fixed pf fuel r (map rep_col cs) = Ok (e, ds) /\
    match e with
    | gx_nil => exists cs', scan_row fixed pf cs (values r) = Ok cs' /\ ds = map rep_col cs'
    | gx_err => scan_row fixed pf cs (values r) = Fail
    end.
Proof.
  intros HF. unfold gx_Rows_Scan. rewrite map_length.
  destruct (Nat.eqb (length cs) (length (values r))) eqn:E.
  - apply Nat.eqb_eq in E. apply gx_scan_dests_eq; assumption.
  - apply Nat.eqb_neq in E. exists gx_err, (map rep_col cs). split; [reflexivity|].
    apply scan_row_mismatch; assumption.
Qed.

(* ---- the NULL counter of a column never exceeds the number of rows scanned *)
Lemma col_null_nulls c c' : col_null c = Ok c' -> (c_nulls c' <= S (c_nulls c))%nat.
Proof.
  unfold col_null. destruct c as [k n p i f b s co pr]. destruct k; cbn; intros H; inversion H; subst; cbn; lia.
Qed.

Lemma col_float_nulls c v : (c_nulls (col_float fixed c v) <= c_nulls c)%nat.
Proof.
  destruct c as [k n p i f b s co pr]. unfold col_float. destruct p; cbn -[Nat.ltb]; try lia.
  destruct (Nat.ltb 0 n); cbn; lia.
Qed.

Lemma col_string_nulls c v : (c_nulls (col_string c v) <= c_nulls c)%nat.
Proof.
  destruct c as [k n p i f b s co pr]. unfold col_string. destruct p; cbn -[Nat.ltb]; try lia.
  destruct (Nat.ltb 0 n); cbn; lia.
Qed.

Lemma col_scan_nulls c t c' : col_scan fixed pf c t = Ok c' -> (c_nulls c' <= S (c_nulls c))%nat.
Proof.
  unfold col_scan, coerce_scan. intros H.
  assert (Hb : forall b, c_nulls (col_bool c b) = c_nulls c) by (intros b; destruct c as [k n p i f b0 s co pr]; destruct p; reflexivity).
  assert (Hi : forall z, c_nulls (col_int c z) = c_nulls c) by (intros z; destruct c as [k n p i f b0 s co pr]; destruct p; reflexivity).
  pose proof (col_float_nulls c) as Hfl. pose proof (col_string_nulls c) as Hst. pose proof (col_null_nulls c c') as Hn.
  destruct (c_coerce c) as [[|]|]; destruct t; try discriminate; try (apply Hn; assumption);
    try (inversion H; subst; rewrite ?Hb, ?Hi; try lia; try (specialize (Hfl b); lia); try (specialize (Hst s); lia); fail).
  destruct (pf s) as [x|]; [|discriminate]. inversion H; subst. specialize (Hfl x). lia.
Qed.

Lemma scan_row_nulls (k : nat) : forall cs vals cs',
  scan_row fixed pf cs vals = Ok cs' -> Forall (fun c => (c_nulls c <= k)%nat) cs ->
  Forall (fun c => (c_nulls c <= S k)%nat) cs'.
Proof.
  induction cs as [|c cs IH]; intros [|v vs] cs' H HF; cbn [scan_row] in H; try discriminate.
  - inversion H; subst. constructor.
  - inversion HF as [|c0 cs0 Hc HF']; subst.
    destruct (col_scan fixed pf c v) as [c1| |] eqn:E1; cbn [obind] in H; try discriminate.
    destruct (scan_row fixed pf cs vs) as [cs1| |] eqn:E2; cbn [obind] in H; try discriminate.
    inversion H; subst. constructor.
    + apply col_scan_nulls in E1. lia.
    + eapply IH; eassumption.
Qed.

End WithFloatFunctions2.

(* ---- the result map: result[colNames[i]] = the Data() of column i *)
Definition rep_entry (p : bytes * option coldata) : bytes * gx_DataSlice := (fst p, rep_data (snd p)).

Lemma map_set_rep (n : bytes) (d : option coldata) : forall (acc : list (bytes * option coldata)),
  map_set (map rep_entry acc) n (rep_data d) = map rep_entry (map_set acc n d).
Proof.
  induction acc as [|[k v] acc IH]; [reflexivity|]. cbn [map map_set rep_entry fst snd].
  destruct (bytes_eqb n k); [reflexivity|]. cbn [map rep_entry fst snd]. rewrite <- IH. reflexivity.
Qed.

Lemma gx_result_map_eq (colNames : list bytes) : forall (cols : list column) (i : nat) (acc : list (bytes * option coldata)),
  gx_ReadSQL_loop5 (map rep_col cols) (Z.of_nat i) colNames (Some (map rep_entry acc))
  = ofmap (fun m => Some (map rep_entry m)) (result_map cols colNames i acc).
Proof.
  induction cols as [|c cols IH]; intros i acc; cbn [map gx_ReadSQL_loop5 result_map]; [reflexivity|].
  rewrite gx_Data_eq. cbn [obind]. unfold gx_list_index.
  replace (Z.of_nat i <? 0) with false by lia. rewrite Nat2Z.id.
  destruct (idx colNames i) as [n| |]; cbn [obind ofmap gx_map_set]; try reflexivity.
  rewrite map_set_rep. replace (Z.of_nat i + 1) with (Z.of_nat (S i)) by lia. apply IH.
Qed.


(* ================================================================== Part 5: ReadSQL against the model's schedule *)

(* The model's driver schedule as a *sql.Rows: the rows not yet delivered, the number of rows delivered, the
   current row.  fa = Some k: Next number k answers false and Err() is non-nil from then on (the model's
   fail_at); cerr: Columns() answers an error (a fault the model does not have). *)
Definition mR : Type := (list (list dval) * nat * list dval)%type.
Definition m_hit (fa : option nat) (k : nat) : bool := match fa with Some j => Nat.eqb j k | None => false end.
Definition m_next (fa : option nat) (r : mR) : bool * mR :=
  let '(pend, k, cur) := r in
  if m_hit fa k then (false, r)
  else match pend with [] => (false, r) | row :: rest => (true, (rest, S k, row)) end.
Definition m_columns (names : list bytes) (cerr : bool) (r : mR) : list bytes * gx_error :=
  (names, if cerr then gx_err else gx_nil).
Definition m_values (r : mR) : list dval := snd r.
Definition m_err (fa : option nat) (r : mR) : gx_error :=
  let '(pend, k, cur) := r in if m_hit fa k then gx_err else gx_nil.
Definition m_start (rows : list (list dval)) : mR := (rows, 0%nat, []).

(* what the caller of ReadSQL observes *)
Definition obs3 {A B : Type} (r : outcome (A * B * gx_error)) : outcome (A * B) :=
  match r with
  | Ok (a, b, gx_nil) => Ok (a, b)
  | Ok (_, _, gx_err) => Fail
  | Fail => Fail
  | Panic => Panic
  end.
Definition rep_res (r : list (bytes * option coldata) * list bytes) : option (list (bytes * gx_DataSlice)) * list bytes :=
  (Some (map rep_entry (fst r)), snd r).

Section ReadSQL.
Variable fixed : N -> Z -> N.
Variable pf : bytes -> option N.
Variable conf : sql_config.
Variable query : bytes.
Variable names : list bytes.
Variable fa : option nat.

Local Notation LOOP := (gx_ReadSQL_loop4 (m_next fa) (m_columns names false) m_values fixed pf).
Local Notation cf := (rep_conf query conf).

Lemma loop4_step (kk fuel' : nat) (row : list dval) (rest : list (list dval)) (k : nat) (cur : list dval)
      (cols : list column) (colNames : list bytes) :
  m_hit fa k = false -> Forall (fun c => (c_nulls c <= k)%nat) cols -> (k + 4 <= fuel')%nat ->
  (exists cols' cn', read_row fixed pf conf names (cols, colNames) row = Ok (cols', cn') /\
     Forall (fun c => (c_nulls c <= S k)%nat) cols' /\
     LOOP fuel' (S kk) (row :: rest, k, cur) cf (map rep_col cols) colNames
     = LOOP fuel' kk (rest, S k, row) cf (map rep_col cols') cn')
  \/ (read_row fixed pf conf names (cols, colNames) row = Fail /\
      exists X, LOOP fuel' (S kk) (row :: rest, k, cur) cf (map rep_col cols) colNames = Ok (gx_ret (None, X, gx_err))).
Proof.
  intros Hhit HF Hfuel.
  assert (Hscan : forall (cs : list column) (cn : list bytes),
    Forall (fun c => (c_nulls c <= k)%nat) cs ->
    (exists cs', scan_row fixed pf cs row = Ok cs' /\ Forall (fun c => (c_nulls c <= S k)%nat) cs' /\
       (do (t11, t12) <- gx_Rows_Scan m_values fixed pf fuel' (rest, S k, row) (map rep_col cs);
        if negb (gx_error_isnil t11) then Ok (gx_ret (None, cn, gx_err))
        else LOOP fuel' kk (rest, S k, row) cf t12 cn)
       = LOOP fuel' kk (rest, S k, row) cf (map rep_col cs') cn)
    \/ (scan_row fixed pf cs row = Fail /\
       (do (t11, t12) <- gx_Rows_Scan m_values fixed pf fuel' (rest, S k, row) (map rep_col cs);
        if negb (gx_error_isnil t11) then Ok (gx_ret (None, cn, gx_err))
        else LOOP fuel' kk (rest, S k, row) cf t12 cn)
       = Ok (gx_ret (None, cn, gx_err)))).
  { intros cs cn HFc.
    assert (HF4 : Forall (fun c => (c_nulls c + 4 <= fuel')%nat) cs).
    { eapply Forall_impl; [|exact HFc]. cbn. intros c Hc. lia. }
    destruct (gx_Rows_Scan_eq fixed pf m_values fuel' (rest, S k, row) cs HF4) as [e [ds [E HE]]].
    rewrite E. cbn [obind]. change (m_values (rest, S k, row)) with row in HE.
    destruct e; cbn [gx_error_isnil negb].
    - destruct HE as [cs' [Hs Hd]]. left. exists cs'. split; [exact Hs|]. split.
      + eapply scan_row_nulls; eassumption.
      + subst ds. reflexivity.
    - right. split; [exact HE|reflexivity]. }
  remember (LOOP fuel' (S kk) (row :: rest, k, cur) cf (map rep_col cols) colNames) as L eqn:EL.
  cbn [gx_ReadSQL_loop4] in EL. unfold m_next at 1 in EL. rewrite Hhit in EL.
  destruct cols as [|c cols].
  - cbn [map gx_isnil] in EL. unfold m_columns at 1 in EL. cbn [gx_error_isnil negb] in EL.
    rewrite gx_alloc_eq in EL. cbn [app obind] in EL.
    unfold read_row.
    pose proof (alloc_not_panic conf names) as Hanp.
    destruct (alloc_columns names conf) as [acs| |] eqn:Ea; [| |congruence].
    2:{ right. cbn [obind]. split; [reflexivity|]. exists colNames. rewrite EL. reflexivity. }
    cbn [obind].
    assert (HFa : Forall (fun c => (c_nulls c <= k)%nat) acs).
    { eapply Forall_impl; [|exact (alloc_nulls conf names acs Ea)]. cbn. intros c Hc. lia. }
    change (gx_SQLConfig_CoerceMap cf) with (rep_cmap (q_coerce conf)) in EL.
    destruct (q_coerce conf) as [m|] eqn:Em.
    + cbn [rep_cmap option_map gx_opt_isnil negb gx_map_keys] in EL.
      rewrite gx_check_eq in EL. cbn [obind] in EL.
      destruct (coerce_check m colNames) eqn:Ec.
      * cbn [obind]. destruct (Hscan acs names HFa) as [[cs' [Hs [Hn He]]]|[Hs He]].
        -- left. exists cs', names. rewrite Hs. cbn [obind]. split; [reflexivity|]. split; [exact Hn|]. rewrite EL. exact He.
        -- right. rewrite Hs. cbn [obind]. split; [reflexivity|]. exists names. rewrite EL. exact He.
      * right. cbn [obind]. split; [reflexivity|]. exists colNames. rewrite EL. reflexivity.
    + cbn [rep_cmap option_map gx_opt_isnil negb obind] in EL. cbn [obind].
      destruct (Hscan acs names HFa) as [[cs' [Hs [Hn He]]]|[Hs He]].
      * left. exists cs', names. rewrite Hs. cbn [obind]. split; [reflexivity|]. split; [exact Hn|]. rewrite EL. exact He.
      * right. rewrite Hs. cbn [obind]. split; [reflexivity|]. exists names. rewrite EL. exact He.
  - cbn [map gx_isnil] in EL. unfold read_row. cbn [obind].
    destruct (Hscan (c :: cols) colNames HF) as [[cs' [Hs [Hn He]]]|[Hs He]].
    + left. exists cs', colNames. rewrite Hs. cbn [obind]. split; [reflexivity|]. split; [exact Hn|]. rewrite EL. exact He.
    + right. rewrite Hs. cbn [obind]. split; [reflexivity|]. exists colNames. rewrite EL. exact He.
Qed.

(* the rest of ReadSQL behind the row loop, as generated *)
Definition gx_finish (t : gx_flow (option (list (bytes * gx_DataSlice)) * list bytes * gx_error)
                                  (mR * list gx_Column * list bytes))
  : outcome (option (list (bytes * gx_DataSlice)) * list bytes * gx_error) :=
  match t with
  | gx_fall (v_rows, v_columns, v_colNames) =>
      let v_err := m_err fa v_rows in
      if negb (gx_error_isnil v_err) then Ok (None, v_colNames, gx_err)
      else
        let v_result := Some (@nil (bytes * gx_DataSlice)) in
        do v_result <- gx_ReadSQL_loop5 v_columns 0 v_colNames v_result;
        Ok (v_result, v_colNames, gx_nil)
  | gx_ret t14 => Ok t14
  end.

Definition model_rest (st : outcome (list column * list bytes)) : outcome (list (bytes * option coldata) * list bytes) :=
  do st <- st;
  let '(columns, colNames) := st in
  do m <- result_map columns colNames 0 [];
  Ok (m, colNames).

Lemma loop4_eq : forall (pend : list (list dval)) (kk fuel' k : nat) (cur : list dval)
                        (cols : list column) (colNames : list bytes),
  (length pend < kk)%nat -> (k + length pend + 4 <= fuel')%nat -> Forall (fun c => (c_nulls c <= k)%nat) cols ->
  obs3 (do t <- LOOP fuel' kk (pend, k, cur) cf (map rep_col cols) colNames; gx_finish t)
  = ofmap rep_res (model_rest (read_rows fixed pf conf names fa k (cols, colNames) pend)).
Proof.
  induction pend as [|row rest IH]; intros kk fuel' k cur cols colNames Hkk Hfuel HF;
    (destruct kk as [|kk]; [cbn in Hkk; lia|]).
  - cbn [gx_ReadSQL_loop4 read_rows]. unfold m_next at 1. fold (m_hit fa k).
    destruct (m_hit fa k) eqn:Hhit.
    + cbn [obind gx_finish]. unfold m_err. rewrite Hhit. reflexivity.
    + cbn [obind gx_finish]. unfold m_err. rewrite Hhit. cbn [gx_error_isnil negb].
      unfold model_rest. cbn [obind].
      pose proof (gx_result_map_eq colNames cols 0 []) as Hr. cbn [Z.of_nat map] in Hr. rewrite Hr.
      destruct (result_map cols colNames 0 []) as [m| |]; reflexivity.
  - cbn [read_rows]. fold (m_hit fa k).
    destruct (m_hit fa k) eqn:Hhit.
    + cbn [gx_ReadSQL_loop4]. unfold m_next at 1. rewrite Hhit.
      cbn [obind gx_finish]. unfold m_err. rewrite Hhit. reflexivity.
    + destruct (loop4_step kk fuel' row rest k cur cols colNames Hhit HF ltac:(lia))
        as [[cols' [cn' [Hr [Hn He]]]]|[Hr [X He]]].
      * rewrite He, Hr. cbn [obind]. apply IH; [cbn in Hkk; lia|cbn in Hfuel; lia|exact Hn].
      * rewrite He, Hr. reflexivity.
Qed.

End ReadSQL.

(* ---- ReadSQL = io_read_sql for every driver schedule (result set, failing Next), every configuration, every
   fixed and pf; fuel relation: rows + 6 <= fuel *)
Lemma gx_ReadSQL_eq fixed pf (conf : sql_config) (query : bytes) (rs : result_set) (fa : option nat) (fuel : nat) :
  (length (rs_rows rs) + 6 <= fuel)%nat ->
  obs3 (gx_ReadSQL (m_next fa) (m_columns (rs_names rs) false) m_values (m_err fa) fixed pf fuel
                   (m_start (rs_rows rs)) (rep_conf query conf))
  = ofmap rep_res (io_read_sql fixed pf conf rs fa).
Proof.
  intros Hf. destruct fuel as [|fuel']; [lia|]. unfold gx_ReadSQL, io_read_sql, m_start.
  pose proof (loop4_eq fixed pf conf query (rs_names rs) fa (rs_rows rs) fuel' fuel' 0 [] [] []
                       ltac:(lia) ltac:(lia) (Forall_nil _)) as H.
  cbn [map] in H. unfold model_rest in H. rewrite <- H. clear H.
  destruct (gx_ReadSQL_loop4 (m_next fa) (m_columns (rs_names rs) false) m_values fixed pf fuel' fuel'
              (rs_rows rs, 0%nat, []) (rep_conf query conf) [] []) as [[[[r c] n]|t]| |]; reflexivity.
Qed.

(* ================================================================== Part 6: the round trip on the translated text *)

Lemma to_sql_loop_texts (f : frame) (conf : sql_config) (exec_ok : nat -> bool) : forall (is : list nat) log s,
  to_sql_loop f conf exec_ok is = (log, s) ->
  Forall (fun st => fst st = insert_text (map fst (fcols f)) conf) log.
Proof.
  induction is as [|i is IH]; intros log s H; cbn [to_sql_loop] in H.
  - inversion H; subst. constructor.
  - destruct (row_args f i) as [args| |]; try (inversion H; subst; constructor).
    destruct (exec_ok i).
    + destruct (to_sql_loop f conf exec_ok is) as [log' r] eqn:E. inversion H; subst.
      constructor; [reflexivity|]. eapply IH; reflexivity.
    + inversion H; subst. constructor; [reflexivity|constructor].
Qed.

(* every statement ToSQL hands to the driver carries the text the generated Insert computes *)
Lemma to_sql_texts_generated (query : bytes) (f : frame) (conf : sql_config) (exec_ok : nat -> bool) log s :
  to_sql f conf exec_ok = (log, s) ->
  Forall (fun st => gx_Insert (map fst (fcols f)) (rep_conf query conf) = Ok (fst st)) log.
Proof.
  intros H. unfold to_sql in H. apply to_sql_loop_texts in H.
  eapply Forall_impl; [|exact H]. cbn. intros st Hst. rewrite Hst. apply gx_Insert_eq.
Qed.

(* C19_roundtrip restated on the translated text: the frame is written with the statement text of the generated
   Insert, the store answers the generated ReadSQL as a *sql.Rows (one row per statement, no fault), and what
   ReadSQL answers makes qframe.New build the frame the property demands *)
Lemma gx_roundtrip fixed pf (query : bytes) (f : frame) (conf : sql_config) cols :
  q_coerce conf = None -> (q_precision conf <= 0)%Z ->
  Corr.IOCorr.spec_frame f = Some cols ->
  exists log data names,
    to_sql f conf (fun _ => true) = (log, SOk) /\
    length log = length (findex f) /\
    Forall (fun st => gx_Insert (map fst (fcols f)) (rep_conf query conf) = Ok (fst st)) log /\
    (forall fuel, (length log + 6 <= fuel)%nat ->
       obs3 (gx_ReadSQL (m_next None) (m_columns (map fst (fcols f)) false) m_values (m_err None) fixed pf fuel
                        (m_start (map snd log)) (rep_conf query conf))
       = Ok (Some (map rep_entry data), names)) /\
    qframe_new data names = Ok cols.
Proof.
  intros Hco Hp Hs.
  destruct (Proofs.SqlProofs.roundtrip fixed pf f conf cols Hco Hp Hs) as [log [Hlog [Hlen Hread]]].
  unfold read_sql, no_faults in Hread. cbn [sf_prepare sf_query sf_row] in Hread.
  destruct (io_read_sql fixed pf conf (store_of (map fst (fcols f)) log) None) as [[data names]| |] eqn:Eio;
    cbn [obind] in Hread; try discriminate.
  exists log, data, names. split; [exact Hlog|]. split; [exact Hlen|]. split.
  - eapply to_sql_texts_generated; exact Hlog.
  - split; [|exact Hread]. intros fuel Hfuel.
    pose proof (gx_ReadSQL_eq fixed pf conf query (store_of (map fst (fcols f)) log) None fuel) as H.
    unfold store_of in H. cbn [rs_rows rs_names] in H. rewrite map_length in H. specialize (H Hfuel).
    unfold store_of in Eio. rewrite Eio in H. exact H.
Qed.

(* a fault the model does not have: rows.Columns() answers an error on the first row *)
Lemma gx_ReadSQL_columns_error fixed pf (query : bytes) (conf : sql_config) (names : list bytes)
      (row : list dval) (rest : list (list dval)) (fa : option nat) (fuel : nat) :
  m_hit fa 0 = false ->
  gx_ReadSQL (m_next fa) (m_columns names true) m_values (m_err fa) fixed pf (S (S fuel))
             (m_start (row :: rest)) (rep_conf query conf)
  = Ok (None, [], gx_err).
Proof.
  intros Hhit. unfold gx_ReadSQL, m_start. cbn [gx_ReadSQL_loop4]. unfold m_next at 1. rewrite Hhit.
  cbn [gx_isnil]. unfold m_columns at 1. cbn [gx_error_isnil negb obind]. reflexivity.
Qed.

(* the repaired defect F26: a column of the result set bound, in the coercion map, to an entry WITHOUT function
   (a nil CoerceFunc stored by config/sql.Coerce): the generated ReadSQL answers the error on the first row — it
   does not reach fn(col), which would be Panic (gx_make_closure None) *)
Lemma alloc_columns_nil conf n : forall names,
  In n names -> coerce_entry conf n = Some None -> alloc_columns names conf = Fail.
Proof.
  induction names as [|x names IH]; intros Hin He; [contradiction|]. cbn [alloc_columns].
  destruct Hin as [->|Hin].
  - rewrite He. reflexivity.
  - rewrite (IH Hin He). destruct (coerce_entry conf x) as [[k|]|]; reflexivity.
Qed.

Lemma gx_ReadSQL_nil_coerce fixed pf (query : bytes) (conf : sql_config) (names : list bytes) (n : bytes)
      (row : list dval) (rest : list (list dval)) (fa : option nat) (fuel : nat) :
  m_hit fa 0 = false -> In n names -> coerce_entry conf n = Some None ->
  gx_ReadSQL (m_next fa) (m_columns names false) m_values (m_err fa) fixed pf (S (S fuel))
             (m_start (row :: rest)) (rep_conf query conf)
  = Ok (None, [], gx_err).
Proof.
  intros Hhit Hin He. unfold gx_ReadSQL, m_start. cbn [gx_ReadSQL_loop4]. unfold m_next at 1. rewrite Hhit.
  cbn [gx_isnil]. unfold m_columns at 1. cbn [gx_error_isnil negb].
  rewrite gx_alloc_eq. rewrite (alloc_columns_nil conf n names Hin He). reflexivity.
Qed.
