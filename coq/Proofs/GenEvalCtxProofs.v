(* Proofs/GenEvalCtxProofs.v — the translated evaluation context (Gen/GenEvalCtx.v, from config/eval/context.go,
   config.go and function/*.go) against the model's context (Model/Eval.v: ctx, get_func).

   REPRESENTATION.  The Go context is a map FunctionType -> {singleArgs, doubleArgs : map name -> interface{}}; the
   translation keeps the nesting (association lists, None = the nil map).  The model's context is ONE association
   list keyed by (type, two arguments?, name).  The abstraction function ctx_flat lists the Go context in the order
   outer entry / singleArgs / doubleArgs, keyed by (ctype_of_ft type, false | true, name); entries under a function
   type that no column has (FunctionTypeUndefined, an unused byte) are dropped; ctx_of abs maps the stored values
   through any abs : interface{} value -> afn (the engines' abstraction is the recorded table of the function).
   A Go map has every key once: ctx_wf (the outer keys are pairwise different) is the invariant of the list reading;
   NewDefaultCtx establishes it and SetFunc keeps it.  eval.ArgCountOne = false, every other ArgCount = true. *)
From QF Require Import Base.Prelude Model.Frame Model.Ops Model.Eval Gen.GenFuncs Gen.GenEvalCtx Proofs.GenFuncsProofs.
Local Open Scope Z_scope.

(* ------------------------------------------------------------------ association lists *)
Section Maps.
Context {K V : Type} (eqb : K -> K -> bool) (eqb_spec : forall a b, eqb a b = true <-> a = b).

Lemma assoc_set_same (l : list (K * V)) k v : gct_assoc eqb (gct_assoc_set eqb l k v) k = Some v.
Proof.
  induction l as [|[k0 v0] r IH]; cbn [gct_assoc_set gct_assoc].
  - rewrite (proj2 (eqb_spec k k) eq_refl). reflexivity.
  - destruct (eqb k0 k) eqn:E; cbn [gct_assoc]; rewrite E; [reflexivity|exact IH].
Qed.

Lemma assoc_set_other (l : list (K * V)) k v k' : k' <> k ->
  gct_assoc eqb (gct_assoc_set eqb l k v) k' = gct_assoc eqb l k'.
Proof.
  intro Hne. induction l as [|[k0 v0] r IH]; cbn [gct_assoc_set gct_assoc].
  - destruct (eqb k k') eqn:E; [apply eqb_spec in E; congruence|reflexivity].
  - destruct (eqb k0 k) eqn:E; cbn [gct_assoc].
    + apply eqb_spec in E. subst k0.
      destruct (eqb k k') eqn:E2; [apply eqb_spec in E2; congruence|reflexivity].
    + destruct (eqb k0 k'); [reflexivity|exact IH].
Qed.

Lemma assoc_in_keys (l : list (K * V)) k v : gct_assoc eqb l k = Some v -> In k (map fst l).
Proof.
  induction l as [|[k0 v0] r IH]; cbn [gct_assoc map fst]; [discriminate|].
  destruct (eqb k0 k) eqn:E; [apply eqb_spec in E; intros _; left; exact E|intro H; right; exact (IH H)].
Qed.

Lemma assoc_set_keys_present (l : list (K * V)) k v v0 : gct_assoc eqb l k = Some v0 ->
  map fst (gct_assoc_set eqb l k v) = map fst l.
Proof.
  induction l as [|[k1 v1] r IH]; cbn [gct_assoc gct_assoc_set map fst]; [discriminate|].
  destruct (eqb k1 k) eqn:E; cbn [map fst]; [reflexivity|]. intro H. rewrite (IH H). reflexivity.
Qed.
End Maps.

Lemma Zeqb_spec (a b : Z) : Z.eqb a b = true <-> a = b.
Proof. apply Z.eqb_eq. Qed.

Lemma bytes_eqb_sym (a b : bytes) : bytes_eqb a b = bytes_eqb b a.
Proof.
  destruct (bytes_eqb a b) eqn:E1, (bytes_eqb b a) eqn:E2; try reflexivity.
  - apply bytes_eqb_spec in E1. subst b. rewrite bytes_eqb_refl in E2. discriminate.
  - apply bytes_eqb_spec in E2. subst b. rewrite bytes_eqb_refl in E1. discriminate.
Qed.

Lemma ctype_eqb_refl (t : ctype) : ctype_eqb t t = true.
Proof. destruct t; reflexivity. Qed.
Lemma ctype_eqb_true (a b : ctype) : ctype_eqb a b = true -> a = b.
Proof. destruct a, b; cbn; congruence. Qed.

(* ------------------------------------------------------------------ the representation *)

(* types.FunctionType as the model's column type (what col_ftype answers; no column has TEnum as function type) *)
Definition ctype_of_ft (ft : Z) : option ctype :=
  if ft =? gct_types_FunctionTypeInt then Some TInt
  else if ft =? gct_types_FunctionTypeFloat then Some TFloat
  else if ft =? gct_types_FunctionTypeBool then Some TBool
  else if ft =? gct_types_FunctionTypeString then Some TString
  else None.
Definition ft_of (t : ctype) : Z :=
  match t with
  | TInt => gct_types_FunctionTypeInt | TFloat => gct_types_FunctionTypeFloat
  | TBool => gct_types_FunctionTypeBool | TString => gct_types_FunctionTypeString
  | TEnum => gct_types_FunctionTypeUndefined
  end.
Definition ac_of (two : bool) : Z := if two then gct_ArgCountTwo else gct_ArgCountOne.

Lemma ctype_of_ft_inj a b t : ctype_of_ft a = Some t -> ctype_of_ft b = Some t -> a = b.
Proof.
  unfold ctype_of_ft, gct_types_FunctionTypeInt, gct_types_FunctionTypeFloat, gct_types_FunctionTypeBool,
    gct_types_FunctionTypeString.
  destruct (a =? 1) eqn:A1; [|destruct (a =? 2) eqn:A2; [|destruct (a =? 3) eqn:A3; [|destruct (a =? 4) eqn:A4]]];
  (destruct (b =? 1) eqn:B1; [|destruct (b =? 2) eqn:B2; [|destruct (b =? 3) eqn:B3; [|destruct (b =? 4) eqn:B4]]]);
  intros H1 H2; try congruence; lia.
Qed.
Lemma ctype_of_ft_of t : t <> TEnum -> ctype_of_ft (ft_of t) = Some t.
Proof. destruct t; intro H; try reflexivity. congruence. Qed.
Lemma ctype_of_ft_defined ft t : ctype_of_ft ft = Some t -> (ft =? gct_types_FunctionTypeUndefined) = false /\ ft = ft_of t.
Proof.
  unfold ctype_of_ft, gct_types_FunctionTypeInt, gct_types_FunctionTypeFloat, gct_types_FunctionTypeBool,
    gct_types_FunctionTypeString, gct_types_FunctionTypeUndefined.
  destruct (ft =? 1) eqn:A1; [|destruct (ft =? 2) eqn:A2; [|destruct (ft =? 3) eqn:A3; [|destruct (ft =? 4) eqn:A4]]];
  intro H; inversion H; subst t; cbn [ft_of]; unfold gct_types_FunctionTypeInt, gct_types_FunctionTypeFloat,
    gct_types_FunctionTypeBool, gct_types_FunctionTypeString; split; lia.
Qed.

(* lookup in a list keyed like the model's context, for any type of values; get_func is the instance afn *)
Definition key_eqb (t : ctype) (two : bool) (name : bytes) (k : ctype * bool * bytes) : bool :=
  let '(t', two', n') := k in ctype_eqb t t' && Bool.eqb two two' && bytes_eqb name n'.
Definition lookup_g {V : Type} (l : list ((ctype * bool * bytes) * V)) (t : ctype) (two : bool) (name : bytes) : option V :=
  option_map snd (find (fun e => key_eqb t two name (fst e)) l).

Lemma get_func_lookup (cx : ctx) t two name : get_func cx t two name = lookup_g cx t two name.
Proof.
  unfold get_func, lookup_g. reflexivity.
Qed.

Lemma lookup_g_cons {V} k (v : V) (l : list ((ctype * bool * bytes) * V)) t two name :
  lookup_g ((k, v) :: l) t two name = if key_eqb t two name k then Some v else lookup_g l t two name.
Proof. unfold lookup_g. cbn [find fst]. destruct (key_eqb t two name k); reflexivity. Qed.

Lemma get_func_cons k v (cx : ctx) t two name :
  get_func ((k, v) :: cx) t two name = if key_eqb t two name k then Some v else get_func cx t two name.
Proof. exact (lookup_g_cons k v cx t two name). Qed.

Lemma lookup_g_app {V} (a b : list ((ctype * bool * bytes) * V)) t two name :
  lookup_g (a ++ b) t two name = match lookup_g a t two name with Some v => Some v | None => lookup_g b t two name end.
Proof.
  unfold lookup_g. induction a as [|e r IH]; [reflexivity|]. cbn [app find].
  destruct (key_eqb t two name (fst e)); [reflexivity|exact IH].
Qed.

Lemma lookup_g_map {V W} (f : V -> W) (l : list ((ctype * bool * bytes) * V)) t two name :
  lookup_g (map (fun e => (fst e, f (snd e))) l) t two name = option_map f (lookup_g l t two name).
Proof.
  unfold lookup_g. induction l as [|e r IH]; [reflexivity|]. cbn [map find fst].
  destruct (key_eqb t two name (fst e)); [reflexivity|exact IH].
Qed.

Section Rep.
Context {F64 OTHER : Type}.
Notation DYN := (@gct_dyn F64 OTHER).
Notation CTX := (@gct_Context F64 OTHER).
Notation FA := (@gct_functionsByArgCount F64 OTHER).

Definition keyed (t : ctype) (two : bool) (m : gct_map bytes DYN) : list ((ctype * bool * bytes) * DYN) :=
  match m with None => [] | Some l => map (fun e => ((t, two, fst e), snd e)) l end.
Definition flat_fa (t : ctype) (fa : FA) : list ((ctype * bool * bytes) * DYN) :=
  keyed t false (gct_functionsByArgCount_singleArgs fa) ++ keyed t true (gct_functionsByArgCount_doubleArgs fa).
Definition flat_entry (e : Z * FA) : list ((ctype * bool * bytes) * DYN) :=
  match ctype_of_ft (fst e) with Some t => flat_fa t (snd e) | None => [] end.
Definition ctx_flat (g : CTX) : list ((ctype * bool * bytes) * DYN) :=
  match gct_Context_functions g with None => [] | Some l => flat_map flat_entry l end.
(* the model context that a Go context stands for *)
Definition ctx_of (abs : DYN -> afn) (g : CTX) : ctx := map (fun e => (fst e, abs (snd e))) (ctx_flat g).
(* the invariant of reading a Go map as a list *)
Definition ctx_wf (g : CTX) : Prop :=
  match gct_Context_functions g with None => True | Some l => NoDup (map fst l) end.

Definition massoc (m : gct_map bytes DYN) (k : bytes) : option DYN :=
  match m with None => None | Some l => gct_assoc bytes_eqb l k end.
Definition sel (two : bool) (fa : FA) : gct_map bytes DYN :=
  if two then gct_functionsByArgCount_doubleArgs fa else gct_functionsByArgCount_singleArgs fa.
Definition fa_zero : FA := gct_mk_functionsByArgCount None None.
Definition fa_of (g : CTX) (ft : Z) : FA := fst (gct_mget Z.eqb fa_zero (gct_Context_functions g) ft).
Definition mget_res (o : option DYN) : DYN * bool := match o with Some v => (v, true) | None => (gct_dyn_nil, false) end.

Lemma mget_res_inj a b : mget_res a = mget_res b -> a = b.
Proof. destruct a, b; cbn; congruence. Qed.

Lemma mget_massoc (m : gct_map bytes DYN) k : gct_mget bytes_eqb gct_dyn_nil m k = mget_res (massoc m k).
Proof. destruct m as [l|]; [|reflexivity]. cbn. destruct (gct_assoc bytes_eqb l k); reflexivity. Qed.

Lemma lookup_keyed_same t two (m : gct_map bytes DYN) name : lookup_g (keyed t two m) t two name = massoc m name.
Proof.
  destruct m as [l|]; [|reflexivity]. unfold lookup_g. cbn [keyed massoc].
  induction l as [|[n v] r IH]; [reflexivity|]. cbn [map find fst snd key_eqb gct_assoc].
  rewrite ctype_eqb_refl, Bool.eqb_reflx, (bytes_eqb_sym name n). cbn [andb].
  destruct (bytes_eqb n name); [reflexivity|exact IH].
Qed.

Lemma lookup_keyed_other t' two' (m : gct_map bytes DYN) t two name :
  ctype_eqb t t' && Bool.eqb two two' = false -> lookup_g (keyed t' two' m) t two name = None.
Proof.
  intro H. destruct m as [l|]; [|reflexivity]. unfold lookup_g. cbn [keyed].
  induction l as [|[n v] r IH]; [reflexivity|]. cbn [map find fst snd key_eqb]. rewrite H. cbn [andb]. exact IH.
Qed.

Lemma lookup_flat_fa_same t (fa : FA) two name : lookup_g (flat_fa t fa) t two name = massoc (sel two fa) name.
Proof.
  unfold flat_fa. rewrite lookup_g_app. destruct two; cbn [sel].
  - rewrite lookup_keyed_other by (rewrite ctype_eqb_refl; reflexivity). apply lookup_keyed_same.
  - rewrite lookup_keyed_same. destruct (massoc (gct_functionsByArgCount_singleArgs fa) name); [reflexivity|].
    apply lookup_keyed_other. rewrite ctype_eqb_refl. reflexivity.
Qed.

Lemma lookup_flat_fa_other t' (fa : FA) t two name : t <> t' -> lookup_g (flat_fa t' fa) t two name = None.
Proof.
  intro Hne. assert (H : ctype_eqb t t' = false).
  { destruct (ctype_eqb t t') eqn:E; [apply ctype_eqb_true in E; congruence|reflexivity]. }
  unfold flat_fa. rewrite lookup_g_app, !lookup_keyed_other by (rewrite H; reflexivity). reflexivity.
Qed.

Lemma lookup_flat_absent (l : list (Z * FA)) ft t two name : ctype_of_ft ft = Some t -> ~ In ft (map fst l) ->
  lookup_g (flat_map flat_entry l) t two name = None.
Proof.
  intros Hft. induction l as [|[ft0 fa0] r IH]; intro Hnin; [reflexivity|].
  cbn [flat_map]. rewrite lookup_g_app. cbn [map fst In] in Hnin.
  assert (H0 : lookup_g (flat_entry (ft0, fa0)) t two name = None).
  { unfold flat_entry. cbn [fst snd]. destruct (ctype_of_ft ft0) as [t0|] eqn:E0; [|reflexivity].
    apply lookup_flat_fa_other. intro Heq. subst t0. apply Hnin. left. exact (ctype_of_ft_inj _ _ _ E0 Hft). }
  rewrite H0. apply IH. intro Hin. apply Hnin. right. exact Hin.
Qed.

(* the flattened list answers what the nested lookup answers *)
Lemma lookup_flat (l : list (Z * FA)) ft t two name : NoDup (map fst l) -> ctype_of_ft ft = Some t ->
  lookup_g (flat_map flat_entry l) t two name =
  match gct_assoc Z.eqb l ft with Some fa => massoc (sel two fa) name | None => None end.
Proof.
  intros Hnd Hft. induction l as [|[ft0 fa0] r IH]; [reflexivity|].
  cbn [flat_map gct_assoc]. rewrite lookup_g_app. cbn [map fst] in Hnd. inversion Hnd as [|x xs Hnin Hnd']; subst x xs.
  destruct (ft0 =? ft) eqn:E.
  - apply Z.eqb_eq in E. subst ft0. unfold flat_entry at 1. cbn [fst snd]. rewrite Hft, lookup_flat_fa_same.
    destruct (massoc (sel two fa0) name); [reflexivity|]. exact (lookup_flat_absent r ft t two name Hft Hnin).
  - assert (H0 : lookup_g (flat_entry (ft0, fa0)) t two name = None).
    { unfold flat_entry. cbn [fst snd]. destruct (ctype_of_ft ft0) as [t0|] eqn:E0; [|reflexivity].
      apply lookup_flat_fa_other. intro Heq. subst t0. pose proof (ctype_of_ft_inj _ _ _ E0 Hft). lia. }
    rewrite H0. exact (IH Hnd').
Qed.

Lemma lookup_ctx_flat (g : CTX) ft t two name : ctx_wf g -> ctype_of_ft ft = Some t ->
  lookup_g (ctx_flat g) t two name = massoc (sel two (fa_of g ft)) name.
Proof.
  unfold ctx_wf, ctx_flat, fa_of. intros Hwf Hft. destruct (gct_Context_functions g) as [l|]; [|destruct two; reflexivity].
  rewrite (lookup_flat l ft t two name Hwf Hft). cbn [gct_mget].
  destruct (gct_assoc Z.eqb l ft); [reflexivity|destruct two; reflexivity].
Qed.

Lemma get_func_ctx_of (abs : DYN -> afn) (g : CTX) t two name : ctx_wf g -> t <> TEnum ->
  get_func (ctx_of abs g) t two name = option_map abs (massoc (sel two (fa_of g (ft_of t))) name).
Proof.
  intros Hwf Ht. rewrite get_func_lookup. unfold ctx_of. rewrite lookup_g_map.
  rewrite (lookup_ctx_flat g (ft_of t) t two name Hwf (ctype_of_ft_of t Ht)). reflexivity.
Qed.

(* ------------------------------------------------------------------ Context.GetFunc *)

(* the undefined function type: (nil, true), whatever the context (even a nil one), count and name *)
Lemma g_GetFunc_undefined (c : option CTX) ac name :
  gct_Context_GetFunc c gct_types_FunctionTypeUndefined ac name = Ok (gct_dyn_nil, true).
Proof. reflexivity. Qed.

(* a nil context with a defined type: nil dereference *)
Lemma g_GetFunc_nil ft ac name : (ft =? gct_types_FunctionTypeUndefined) = false ->
  gct_Context_GetFunc (@None CTX) ft ac name = Panic.
Proof. intro H. unfold gct_Context_GetFunc. rewrite H. destruct (ac =? gct_ArgCountOne); reflexivity. Qed.

Lemma g_GetFunc_nested (g : CTX) ft ac name : (ft =? gct_types_FunctionTypeUndefined) = false ->
  gct_Context_GetFunc (Some g) ft ac name = Ok (mget_res (massoc (sel (negb (ac =? gct_ArgCountOne)) (fa_of g ft)) name)).
Proof.
  intro H. unfold gct_Context_GetFunc. rewrite H. cbv zeta.
  destruct (ac =? gct_ArgCountOne); cbn [gct_deref obind negb sel]; rewrite mget_massoc; unfold fa_of, fa_zero;
  match goal with |- (let '(a, b) := mget_res ?X in _) = _ => destruct (mget_res X) as [v ok]; reflexivity end.
Qed.

(* every ArgCount other than ArgCountOne is served by the table of two-argument functions *)
Lemma g_GetFunc_any_count (c : option CTX) ft ac name :
  gct_Context_GetFunc c ft ac name = gct_Context_GetFunc c ft (ac_of (negb (ac =? gct_ArgCountOne))) name.
Proof. unfold gct_Context_GetFunc. destruct (ac =? gct_ArgCountOne) eqn:E; cbn [negb ac_of]; reflexivity. Qed.

(* GetFunc = the model's get_func on the context that the Go context stands for *)
Theorem g_GetFunc_eq (abs : DYN -> afn) (g : CTX) ft t two name : ctx_wf g -> ctype_of_ft ft = Some t ->
  gct_Context_GetFunc (Some g) ft (ac_of two) name = Ok (mget_res (lookup_g (ctx_flat g) t two name))
  /\ get_func (ctx_of abs g) t two name = option_map abs (lookup_g (ctx_flat g) t two name).
Proof.
  intros Hwf Hft. split.
  - destruct (ctype_of_ft_defined ft t Hft) as [Hu _]. rewrite (g_GetFunc_nested g ft (ac_of two) name Hu).
    rewrite (lookup_ctx_flat g ft t two name Hwf Hft). destruct two; reflexivity.
  - rewrite get_func_lookup. unfold ctx_of. apply lookup_g_map.
Qed.

(* the same, read from the result of GetFunc: found = the model finds, and then the value is the stored one *)
Corollary g_GetFunc_model (abs : DYN -> afn) (g : CTX) ft t two name : ctx_wf g -> ctype_of_ft ft = Some t ->
  exists v ok, gct_Context_GetFunc (Some g) ft (ac_of two) name = Ok (v, ok)
    /\ get_func (ctx_of abs g) t two name = (if ok then Some (abs v) else None)
    /\ (ok = false -> v = gct_dyn_nil).
Proof.
  intros Hwf Hft. destruct (g_GetFunc_eq abs g ft t two name Hwf Hft) as [H1 H2].
  destruct (lookup_g (ctx_flat g) t two name) as [v|] eqn:E; cbn [mget_res option_map] in H1, H2.
  - exists v, true. repeat split; [exact H1|exact H2|discriminate].
  - exists gct_dyn_nil, false. repeat split; [exact H1|exact H2].
Qed.

(* ------------------------------------------------------------------ Context.setFunc / SetFunc *)

Definition fa_with (two : bool) (fa : FA) (m : gct_map bytes DYN) : FA :=
  if two then gct_mk_functionsByArgCount (gct_functionsByArgCount_singleArgs fa) m
  else gct_mk_functionsByArgCount m (gct_functionsByArgCount_doubleArgs fa).

(* every defined function type has an entry whose two tables are not nil: what NewDefaultCtx makes *)
Definition ctx_full (g : CTX) : Prop :=
  exists l, gct_Context_functions g = Some l /\
    forall t, t <> TEnum -> exists fa s d, gct_assoc Z.eqb l (ft_of t) = Some fa
      /\ gct_functionsByArgCount_singleArgs fa = Some s /\ gct_functionsByArgCount_doubleArgs fa = Some d.

Lemma g_setFunc_step (g : CTX) l ft ac name fn fa m :
  gct_Context_functions g = Some l -> gct_assoc Z.eqb l ft = Some fa -> sel (negb (ac =? gct_ArgCountOne)) fa = Some m ->
  gct_Context_setFunc (Some g) ft ac name fn =
  Ok (Some (gct_mk_Context (Some (gct_assoc_set Z.eqb l ft
        (fa_with (negb (ac =? gct_ArgCountOne)) fa (Some (gct_assoc_set bytes_eqb m name fn))))))).
Proof.
  intros Hl Hfa Hm. unfold gct_Context_setFunc.
  destruct (ac =? gct_ArgCountOne); cbn [negb sel fa_with] in *; cbn [gct_deref obind]; cbv zeta;
  rewrite Hl; cbn [gct_mget]; rewrite Hfa; cbn [fst]; rewrite Hm; cbn [gct_mset obind]; reflexivity.
Qed.

(* the three kinds of nil that make the store panic *)
Lemma g_setFunc_nil ft ac name fn : gct_Context_setFunc (@None CTX) ft ac name fn = Panic.
Proof. unfold gct_Context_setFunc. destruct (ac =? gct_ArgCountOne); reflexivity. Qed.
Lemma g_setFunc_missing_type (g : CTX) ft ac name fn :
  match gct_Context_functions g with None => True | Some l => gct_assoc Z.eqb l ft = None end ->
  gct_Context_setFunc (Some g) ft ac name fn = Panic.
Proof.
  intro H. unfold gct_Context_setFunc.
  destruct (ac =? gct_ArgCountOne); cbn [gct_deref obind]; cbv zeta;
  (destruct (gct_Context_functions g) as [l|]; [cbn [gct_mget]; rewrite H|]; reflexivity).
Qed.

Section After.
Variables (g : CTX) (l : list (Z * FA)) (ft : Z) (two : bool) (name : bytes) (fn : DYN) (fa : FA) (m : list (bytes * DYN)).
Context (Hl : gct_Context_functions g = Some l) (Hfa : gct_assoc Z.eqb l ft = Some fa) (Hm : sel two fa = Some m).
Let g' : CTX := gct_mk_Context (Some (gct_assoc_set Z.eqb l ft (fa_with two fa (Some (gct_assoc_set bytes_eqb m name fn))))).

Lemma after_fa_same : fa_of g' ft = fa_with two fa (Some (gct_assoc_set bytes_eqb m name fn)).
Proof. unfold fa_of, g'. cbn [gct_Context_functions gct_mget]. rewrite (assoc_set_same Z.eqb Zeqb_spec). reflexivity. Qed.
Lemma after_fa_other ft' : ft' <> ft -> fa_of g' ft' = fa_of g ft'.
Proof.
  intro Hne. unfold fa_of, g'. cbn [gct_Context_functions]. rewrite Hl. cbn [gct_mget].
  rewrite (assoc_set_other Z.eqb Zeqb_spec) by exact Hne. reflexivity.
Qed.
Lemma after_sel_same : sel two (fa_with two fa (Some (gct_assoc_set bytes_eqb m name fn))) = Some (gct_assoc_set bytes_eqb m name fn).
Proof. destruct two; reflexivity. Qed.
Lemma after_sel_other : sel (negb two) (fa_with two fa (Some (gct_assoc_set bytes_eqb m name fn))) = sel (negb two) fa.
Proof. destruct two; reflexivity. Qed.
Lemma fa_of_here : fa_of g ft = fa.
Proof. unfold fa_of. rewrite Hl. cbn [gct_mget]. rewrite Hfa. reflexivity. Qed.

(* the nested lookup after the store *)
Lemma after_lookup ft' two' name' :
  massoc (sel two' (fa_of g' ft')) name' =
  if (ft' =? ft) && Bool.eqb two' two && bytes_eqb name' name then Some fn else massoc (sel two' (fa_of g ft')) name'.
Proof.
  destruct (ft' =? ft) eqn:Eft.
  - apply Z.eqb_eq in Eft. subst ft'. rewrite after_fa_same, fa_of_here. cbn [andb].
    destruct (Bool.eqb two' two) eqn:Etwo.
    + apply Bool.eqb_prop in Etwo. subst two'. rewrite after_sel_same, Hm. cbn [andb massoc].
      destruct (bytes_eqb name' name) eqn:En.
      * apply bytes_eqb_spec in En. subst name'. apply (assoc_set_same bytes_eqb bytes_eqb_spec).
      * apply (assoc_set_other bytes_eqb bytes_eqb_spec). intro Heq. subst name'. rewrite bytes_eqb_refl in En. discriminate.
    + assert (two' = negb two) by (clear - Etwo; destruct two', two; cbn in Etwo |- *; congruence). subst two'.
      rewrite after_sel_other. reflexivity.
  - rewrite after_fa_other by (intro Heq; subst ft'; rewrite Z.eqb_refl in Eft; discriminate). reflexivity.
Qed.

Lemma after_wf : ctx_wf g -> ctx_wf g'.
Proof.
  unfold ctx_wf, g'. rewrite Hl. cbn [gct_Context_functions]. intro H.
  rewrite (assoc_set_keys_present Z.eqb l ft _ fa Hfa). exact H.
Qed.

Lemma after_full : ctx_full g -> ctx_full g'.
Proof.
  intros [l0 [Hl0 Hall]]. rewrite Hl in Hl0. inversion Hl0; subst l0. eexists. split; [reflexivity|].
  intros t Ht. destruct (Hall t Ht) as [fa1 [s [d [H1 [H2 H3]]]]].
  destruct (Z.eq_dec (ft_of t) ft) as [Heq|Hne].
  - rewrite Heq, (assoc_set_same Z.eqb Zeqb_spec). rewrite Heq, Hfa in H1. inversion H1; subst fa1.
    destruct two; cbn [fa_with sel] in *; do 3 eexists; (split; [reflexivity|]); cbn; split; try reflexivity; eassumption.
  - rewrite (assoc_set_other Z.eqb Zeqb_spec) by exact Hne. exists fa1, s, d. repeat split; assumption.
Qed.
End After.

(* SetFunc's gate: the signatures it accepts, as (function type, two arguments?) *)
Definition sig_of (fn : DYN) : option (ctype * bool) :=
  match fn with
  | gct_dyn_func_int_int_to_int _ => Some (TInt, true)
  | gct_dyn_func_int_to_int _ | gct_dyn_func_int_to_bool _ | gct_dyn_func_int_to_float64 _
  | gct_dyn_func_int_to_ptr_string _ => Some (TInt, false)
  | gct_dyn_func_float64_float64_to_float64 _ => Some (TFloat, true)
  | gct_dyn_func_float64_to_float64 _ | gct_dyn_func_float64_to_int _ | gct_dyn_func_float64_to_bool _
  | gct_dyn_func_float64_to_ptr_string _ => Some (TFloat, false)
  | gct_dyn_func_bool_bool_to_bool _ => Some (TBool, true)
  | gct_dyn_func_bool_to_bool _ | gct_dyn_func_bool_to_int _ | gct_dyn_func_bool_to_float64 _
  | gct_dyn_func_bool_to_ptr_string _ => Some (TBool, false)
  | gct_dyn_func_ptr_string_ptr_string_to_ptr_string _ => Some (TString, true)
  | gct_dyn_func_ptr_string_to_ptr_string _ | gct_dyn_func_ptr_string_to_int _ | gct_dyn_func_ptr_string_to_float64 _
  | gct_dyn_func_ptr_string_to_bool _ => Some (TString, false)
  | _ => None
  end.

Section SetFunc.
Context {E : Type}.
Variable name_err : E.
Variable err_New : bytes -> bytes -> E.
Variable err_Propagate : bytes -> option E -> E.
(* qfstrings.CheckName as translated in GenFuncs.v (= Ops.check_name, GenFuncsProofs): nil for a legal name *)
Definition m_CheckName (n : bytes) : option E := if gf_strings_CheckName (map Z.of_N n) then None else Some name_err.
Definition g_SetFunc := @gct_Context_SetFunc F64 OTHER E m_CheckName err_New err_Propagate.

Definition s_SetFunc : bytes := bs 7 0x53657446756e63.

Lemma g_SetFunc_bad_name (c : option CTX) name fn : check_name name = false ->
  g_SetFunc c name fn = Ok (c, Some (err_Propagate s_SetFunc (Some name_err))).
Proof.
  intro H. unfold g_SetFunc, gct_Context_SetFunc, m_CheckName. rewrite gf_strings_CheckName_eq, H. reflexivity.
Qed.

Lemma g_SetFunc_by_sig (c : option CTX) name fn t two : check_name name = true -> sig_of fn = Some (t, two) ->
  g_SetFunc c name fn = do c' <- gct_Context_setFunc c (ft_of t) (ac_of two) name fn; Ok (c', None).
Proof.
  intros Hn Hs. unfold g_SetFunc, gct_Context_SetFunc, m_CheckName. rewrite gf_strings_CheckName_eq, Hn.
  destruct fn; cbn [sig_of] in Hs; try discriminate; inversion Hs; subst t two; reflexivity.
Qed.

(* an unsupported signature (nil, a function of another type, any other value): an error, the context as it was *)
Lemma g_SetFunc_bad_sig (c : option CTX) name fn : check_name name = true -> sig_of fn = None ->
  exists fmt, g_SetFunc c name fn = Ok (c, Some (err_New s_SetFunc fmt)).
Proof.
  intros Hn Hs. unfold g_SetFunc, gct_Context_SetFunc, m_CheckName. rewrite gf_strings_CheckName_eq, Hn.
  destruct fn; cbn [sig_of] in Hs; try discriminate; eexists; reflexivity.
Qed.

(* SetFunc then GetFunc: the function is found under (type of its first parameter, its argument count, name), every
   other key answers what it answered before; the invariants are kept; in the model: the entry is put in front *)
Theorem g_SetFunc_ok (abs : DYN -> afn) (g : CTX) name fn t two :
  check_name name = true -> sig_of fn = Some (t, two) -> ctx_full g -> ctx_wf g ->
  exists g' : CTX, g_SetFunc (Some g) name fn = Ok (Some g', None)
    /\ ctx_wf g' /\ ctx_full g'
    /\ gct_Context_GetFunc (Some g') (ft_of t) (ac_of two) name = Ok (fn, true)
    /\ (forall ft' two' name', (ft' =? gct_types_FunctionTypeUndefined) = false ->
          (ft' =? ft_of t) && Bool.eqb two' two && bytes_eqb name' name = false ->
          gct_Context_GetFunc (Some g') ft' (ac_of two') name' = gct_Context_GetFunc (Some g) ft' (ac_of two') name')
    /\ (forall t' two' name', t' <> TEnum ->
          get_func (ctx_of abs g') t' two' name' = get_func (((t, two, name), abs fn) :: ctx_of abs g) t' two' name').
Proof.
  intros Hn Hs Hfull Hwf.
  assert (Ht : t <> TEnum) by (destruct fn; cbn [sig_of] in Hs; try discriminate; inversion Hs; discriminate).
  destruct Hfull as [l [Hl Hall]]. destruct (Hall t Ht) as [fa [s [d [Hfa [Hs1 Hd1]]]]].
  assert (Hsel : exists m, sel two fa = Some m) by (destruct two; cbn [sel]; eauto).
  destruct Hsel as [m Hm].
  assert (Hac : negb (ac_of two =? gct_ArgCountOne) = two) by (destruct two; reflexivity).
  pose proof (g_setFunc_step g l (ft_of t) (ac_of two) name fn fa m Hl Hfa) as Hstep. rewrite Hac in Hstep.
  specialize (Hstep Hm).
  eexists. split; [rewrite (g_SetFunc_by_sig _ name fn t two Hn Hs), Hstep; reflexivity|].
  assert (Hu : (ft_of t =? gct_types_FunctionTypeUndefined) = false) by (destruct t; try reflexivity; congruence).
  assert (Hwf' := after_wf g l (ft_of t) two name fn fa m Hl Hfa Hwf).
  split; [exact Hwf'|].
  split; [exact (after_full g l (ft_of t) two name fn fa m Hl Hfa Hm (ex_intro _ l (conj Hl Hall)))|].
  split; [|split].
  - rewrite g_GetFunc_nested by exact Hu. rewrite Hac, (after_lookup g l (ft_of t) two name fn fa m Hl Hfa Hm).
    rewrite Z.eqb_refl, Bool.eqb_reflx, bytes_eqb_refl. reflexivity.
  - intros ft' two' name' Hu' Hk. rewrite !g_GetFunc_nested by exact Hu'.
    assert (Hac' : negb (ac_of two' =? gct_ArgCountOne) = two') by (destruct two'; reflexivity).
    rewrite Hac', (after_lookup g l (ft_of t) two name fn fa m Hl Hfa Hm), Hk. reflexivity.
  - intros t' two' name' Ht'. rewrite get_func_cons. cbn [key_eqb].
    rewrite (get_func_ctx_of abs _ t' two' name' Hwf' Ht'), (get_func_ctx_of abs g t' two' name' Hwf Ht').
    rewrite (after_lookup g l (ft_of t) two name fn fa m Hl Hfa Hm).
    assert (Hk : (ft_of t' =? ft_of t) = ctype_eqb t' t).
    { destruct t', t; try reflexivity; congruence. }
    rewrite Hk. destruct (ctype_eqb t' t && Bool.eqb two' two && bytes_eqb name' name); reflexivity.
Qed.
End SetFunc.

(* ------------------------------------------------------------------ NewDefaultCtx, NewConfig, EvalContext *)
Section Default.
Variable strconv_Itoa : Z -> bytes.
Variable strconv_FormatBool : bool -> bytes.
Variable fmt_Sprintf_f : F64 -> bytes.
Variable f64_to_int : F64 -> Z.
Variable int_to_f64 : Z -> F64.
Variable go_strings_ToUpper go_strings_ToLower : bytes -> outcome bytes.
Variable math_Abs : F64 -> outcome F64.
Variable function_PlusF function_MinusF function_MulF function_DivF : F64 -> F64 -> outcome F64.

(* the integer and boolean functions are the translations of GenFuncs.v *)
Definition g_NewDefaultCtx : outcome (option CTX) :=
  gct_NewDefaultCtx strconv_Itoa strconv_FormatBool fmt_Sprintf_f f64_to_int int_to_f64 go_strings_ToUpper go_strings_ToLower
    math_Abs function_PlusF function_MinusF function_MulF function_DivF
    (fun x => Ok (gf_function_AbsI x)) (fun x => Ok (gf_function_BoolI x))
    (fun x y => Ok (gf_function_PlusI x y)) (fun x y => Ok (gf_function_MinusI x y)) (fun x y => Ok (gf_function_MulI x y))
    (fun x y => match gf_function_DivI x y with Some z => Ok z | None => Panic end)
    (fun x => Ok (gf_function_NotB x)) (fun x => Ok (gf_function_IntB x))
    (fun x y => Ok (gf_function_AndB x y)) (fun x y => Ok (gf_function_OrB x y)) (fun x y => Ok (gf_function_XorB x y))
    (fun x y => Ok (gf_function_NandB x y)).

Definition default_ctx : CTX :=
  match g_NewDefaultCtx with Ok (Some c) => c | _ => gct_mk_Context None end.

Lemma g_NewDefaultCtx_ok : g_NewDefaultCtx = Ok (Some default_ctx).
Proof. reflexivity. Qed.

(* the keys of the default context, in source order: float, int, bool, string; one argument before two *)
Definition default_keys : list (ctype * bool * bytes) :=
  [ (TFloat, false, bs 3 0x616273); (TFloat, false, bs 3 0x737472); (TFloat, false, bs 3 0x696e74);
    (TFloat, true, bs 1 0x2b); (TFloat, true, bs 1 0x2d); (TFloat, true, bs 1 0x2a); (TFloat, true, bs 1 0x2f);
    (TInt, false, bs 3 0x616273); (TInt, false, bs 3 0x737472); (TInt, false, bs 4 0x626f6f6c); (TInt, false, bs 5 0x666c6f6174);
    (TInt, true, bs 1 0x2b); (TInt, true, bs 1 0x2d); (TInt, true, bs 1 0x2a); (TInt, true, bs 1 0x2f);
    (TBool, false, bs 1 0x21); (TBool, false, bs 3 0x737472); (TBool, false, bs 3 0x696e74);
    (TBool, true, bs 1 0x26); (TBool, true, bs 1 0x7c); (TBool, true, bs 2 0x213d); (TBool, true, bs 4 0x6e616e64);
    (TString, false, bs 5 0x7570706572); (TString, false, bs 5 0x6c6f776572); (TString, false, bs 3 0x737472);
    (TString, false, bs 3 0x6c656e); (TString, true, bs 1 0x2b) ]%N.

Lemma default_keys_eq : map fst (ctx_flat default_ctx) = default_keys.
Proof. reflexivity. Qed.

Lemma default_keys_nodup : NoDup default_keys.
Proof.
  assert (H : forall (l : list (ctype * bool * bytes)),
    (fix nd (l : list (ctype * bool * bytes)) : bool :=
       match l with [] => true | k :: r => negb (existsb (fun k' => let '(t, two, n) := k in key_eqb t two n k') r) && nd r end) l = true
    -> NoDup l).
  { induction l as [|k r IH]; intro H; [constructor|]. apply andb_prop in H. destruct H as [H1 H2].
    constructor; [|exact (IH H2)]. intro Hin. apply Bool.negb_true_iff in H1.
    assert (Hex : existsb (fun k' => let '(t, two, n) := k in key_eqb t two n k') r = true).
    { apply existsb_exists. exists k. split; [exact Hin|]. destruct k as [[t two] n]. cbn [key_eqb].
      rewrite ctype_eqb_refl, Bool.eqb_reflx, bytes_eqb_refl. reflexivity. }
    congruence. }
  apply H. vm_compute. reflexivity.
Qed.

Lemma default_wf : ctx_wf default_ctx.
Proof.
  unfold ctx_wf. cbn. unfold gct_types_FunctionTypeFloat, gct_types_FunctionTypeInt, gct_types_FunctionTypeBool,
    gct_types_FunctionTypeString.
  repeat constructor; cbn [In]; intro H; repeat (destruct H as [H|H]; [discriminate|]); exact H.
Qed.

Lemma default_full : ctx_full default_ctx.
Proof.
  eexists. split; [reflexivity|]. intros t Ht. destruct t; try congruence; do 3 eexists; repeat split; reflexivity.
Qed.

(* what the default context holds for a key: a function of the signature that SetFunc would file under that key *)
Lemma default_sigs : forallb (fun e => match sig_of (snd e) with
                                        | Some (t, two) => let '(t', two', _) := fst e in ctype_eqb t t' && Bool.eqb two two'
                                        | None => false end) (ctx_flat default_ctx) = true.
Proof. reflexivity. Qed.

(* NewDefaultCtx: never nil, never a fault; exactly these keys, each once; the list reading is well formed and every
   defined function type has both tables; every stored function is filed where SetFunc would file it *)
Theorem g_NewDefaultCtx_spec :
  g_NewDefaultCtx = Ok (Some default_ctx)
  /\ map fst (ctx_flat default_ctx) = default_keys /\ NoDup default_keys
  /\ ctx_wf default_ctx /\ ctx_full default_ctx
  /\ forallb (fun e => match sig_of (snd e) with
                       | Some (t, two) => let '(t', two', _) := fst e in ctype_eqb t t' && Bool.eqb two two'
                       | None => false end) (ctx_flat default_ctx) = true.
Proof.
  exact (conj g_NewDefaultCtx_ok (conj default_keys_eq (conj default_keys_nodup (conj default_wf (conj default_full default_sigs))))).
Qed.

(* NewConfig: no option -> the default context; EvalContext(c) last -> c; the last EvalContext wins; a nil context
   given explicitly is replaced by the default one as well *)
Definition g_NewConfig := @gct_NewConfig F64 OTHER strconv_Itoa strconv_FormatBool fmt_Sprintf_f f64_to_int int_to_f64
    go_strings_ToUpper go_strings_ToLower math_Abs function_PlusF function_MinusF function_MulF function_DivF
    (fun x => Ok (gf_function_AbsI x)) (fun x => Ok (gf_function_BoolI x))
    (fun x y => Ok (gf_function_PlusI x y)) (fun x y => Ok (gf_function_MinusI x y)) (fun x y => Ok (gf_function_MulI x y))
    (fun x y => match gf_function_DivI x y with Some z => Ok z | None => Panic end)
    (fun x => Ok (gf_function_NotB x)) (fun x => Ok (gf_function_IntB x))
    (fun x y => Ok (gf_function_AndB x y)) (fun x y => Ok (gf_function_OrB x y)) (fun x y => Ok (gf_function_XorB x y))
    (fun x y => Ok (gf_function_NandB x y)).

Lemma last_cons_default {A} (l : list A) a d d' : last (a :: l) d = last (a :: l) d'.
Proof. revert a. induction l as [|b r IH]; intro a; [reflexivity|]. exact (IH b). Qed.

Lemma apply_all_EvalContext (cs : list (option CTX)) (c0 : @gct_Config F64 OTHER) :
  gct_apply_all (map gct_EvalContext cs) c0 = Ok (gct_mk_Config (last cs (gct_Config_Ctx c0))).
Proof.
  revert c0. induction cs as [|c r IH]; intro c0; [destruct c0; reflexivity|].
  cbn [map gct_apply_all]. unfold gct_EvalContext at 1. cbn [obind]. rewrite IH. cbn [gct_Config_Ctx].
  destruct r as [|o r']; [reflexivity|]. exact (f_equal (fun x => Ok (gct_mk_Config x)) (last_cons_default r' o c (gct_Config_Ctx c0))).
Qed.

Theorem g_NewConfig_eq (cs : list (option CTX)) :
  g_NewConfig (map gct_EvalContext cs) =
  Ok (gct_mk_Config (match last cs None with Some c => Some c | None => Some default_ctx end)).
Proof.
  unfold g_NewConfig, gct_NewConfig. cbv zeta. rewrite apply_all_EvalContext. cbn [obind gct_Config_Ctx].
  destruct (last cs None) as [c|]; cbn [gct_isnil]; [reflexivity|].
  fold g_NewDefaultCtx. rewrite g_NewDefaultCtx_ok. reflexivity.
Qed.
End Default.

(* ------------------------------------------------------------------ the function package *)
Section Functions.
Variable strconv_Itoa : Z -> bytes.
Variable strconv_FormatBool : bool -> bytes.
Variable fmt_Sprintf_f : F64 -> bytes.
Variable f64_to_int : F64 -> Z.
Variable int_to_f64 : Z -> F64.

Lemma g_StrS (s : option bytes) : gct_function_StrS s = Ok s.
Proof. reflexivity. Qed.
Lemma g_LenS (s : option bytes) :
  gct_function_LenS s = Ok (match s with None => 0 | Some b => Z.of_nat (length b) end).
Proof. destruct s; reflexivity. Qed.
Lemma g_ConcatS (x y : option bytes) :
  gct_function_ConcatS x y = Ok (match x, y with None, _ => y | _, None => x | Some a, Some b => Some (a ++ b) end).
Proof. destruct x, y; reflexivity. Qed.
Lemma g_nilSafe (f : bytes -> outcome bytes) (s : option bytes) :
  gct_function_nilSafe f s = match s with None => Ok None | Some b => do r <- f b; Ok (Some r) end.
Proof. destruct s as [b|]; [|reflexivity]. cbn. destruct (f b); reflexivity. Qed.
Lemma g_UpperS (up : bytes -> outcome bytes) (s : option bytes) :
  gct_function_UpperS up s = match s with None => Ok None | Some b => do r <- up b; Ok (Some r) end.
Proof. apply g_nilSafe. Qed.
Lemma g_LowerS (low : bytes -> outcome bytes) (s : option bytes) :
  gct_function_LowerS low s = match s with None => Ok None | Some b => do r <- low b; Ok (Some r) end.
Proof. apply g_nilSafe. Qed.
Lemma g_StrI (x : Z) : gct_function_StrI strconv_Itoa x = Ok (Some (strconv_Itoa x)).
Proof. reflexivity. Qed.
Lemma g_StrB (x : bool) : gct_function_StrB strconv_FormatBool x = Ok (Some (strconv_FormatBool x)).
Proof. reflexivity. Qed.
Lemma g_StrF (x : F64) : gct_function_StrF fmt_Sprintf_f x = Ok (Some (fmt_Sprintf_f x)).
Proof. reflexivity. Qed.
Lemma g_IntF (x : F64) : gct_function_IntF f64_to_int x = Ok (f64_to_int x).
Proof. reflexivity. Qed.
Lemma g_FloatI (x : Z) : gct_function_FloatI int_to_f64 x = Ok (int_to_f64 x).
Proof. reflexivity. Qed.

(* none of the string functions faults, whatever they are given, as long as the library's case functions do not *)
Lemma g_string_functions_total (up : bytes -> outcome bytes) (s y : option bytes) :
  (forall b, exists r, up b = Ok r) ->
  (exists r, gct_function_UpperS up s = Ok r) /\ (exists r, gct_function_StrS s = Ok r)
  /\ (exists r, gct_function_LenS s = Ok r) /\ (exists r, gct_function_ConcatS s y = Ok r).
Proof.
  intro Hup. split; [|split; [|split]].
  - rewrite (g_UpperS up s). destruct s as [b|]; [|eexists; reflexivity]. destruct (Hup b) as [r Hr]. rewrite Hr. eexists; reflexivity.
  - eexists; apply g_StrS.
  - eexists; apply g_LenS.
  - eexists; apply g_ConcatS.
Qed.
End Functions.
End Rep.

(* ArgCount.String *)
Lemma g_ArgCount_String (c : Z) :
  gct_ArgCount_String c = Ok (if c =? 0 then (bs 15 0x53696e676c6520617267756d656e74)%N
                              else if c =? 1 then (bs 15 0x446f75626c6520617267756d656e74)%N
                              else (bs 22 0x556e6b6e6f776e20617267756d656e7420636f756e74)%N).
Proof. unfold gct_ArgCount_String, gct_ArgCountOne, gct_ArgCountTwo. destruct (c =? 0); [reflexivity|]. destruct (c =? 1); reflexivity. Qed.

(* ------------------------------------------------------------------ examples (closed terms, evaluated) *)
Definition ex_up (b : bytes) : outcome bytes :=
  Ok (map (fun c => if (97 <=? c)%N && (c <=? 122)%N then (c - 32)%N else c) b).
Definition ex_default : @gct_Context N unit :=
  @default_ctx N unit (fun _ => []) (fun _ => []) (fun _ => []) (fun _ => 0) (fun _ => 0%N) ex_up ex_up
    (fun x => Ok x) (fun x _ => Ok x) (fun x _ => Ok x) (fun x _ => Ok x) (fun x _ => Ok x).
Definition found {A : Type} (r : outcome (A * bool)) : option bool := match r with Ok (_, b) => Some b | _ => None end.
Definition ex_user : @gct_dyn N unit := gct_dyn_func_int_to_int (fun x => Ok (x + 1)).
Definition ex_SetFunc := @g_SetFunc N unit unit tt (fun _ _ => tt) (fun _ _ => tt).
Definition s_abs : bytes := bs 3 0x616273.
Definition s_inc : bytes := bs 3 0x696e63.
Definition s_upper : bytes := bs 5 0x7570706572.

(* abs is a one-argument int function, not a two-argument one; upper is a string function; the undefined type *)
Lemma ex_GetFunc :
  found (gct_Context_GetFunc (Some ex_default) gct_types_FunctionTypeInt gct_ArgCountOne s_abs) = Some true
  /\ found (gct_Context_GetFunc (Some ex_default) gct_types_FunctionTypeInt gct_ArgCountTwo s_abs) = Some false
  /\ found (gct_Context_GetFunc (Some ex_default) gct_types_FunctionTypeString gct_ArgCountOne s_upper) = Some true
  /\ found (gct_Context_GetFunc (Some ex_default) gct_types_FunctionTypeUndefined 7 s_inc) = Some true.
Proof. vm_compute. repeat split. Qed.

(* the premises of the SetFunc theorem on the default context and a user function func(int) int under "inc" *)
Lemma ex_SetFunc_premises :
  check_name s_inc = true /\ sig_of ex_user = Some (TInt, false) /\ ctx_full ex_default /\ ctx_wf ex_default
  /\ ctype_of_ft gct_types_FunctionTypeInt = Some TInt.
Proof.
  split; [vm_compute; reflexivity|]. split; [reflexivity|]. split; [apply default_full|]. split; [apply default_wf|reflexivity].
Qed.

(* ... and what happens: found under (int, one, inc), not under (float, one, inc), 28 entries afterwards; an illegal
   name and a value that is not a function are refused and leave the 27 entries *)
Lemma ex_SetFunc_run :
  match ex_SetFunc (Some ex_default) s_inc ex_user with
  | Ok (Some g', None) =>
      found (gct_Context_GetFunc (Some g') gct_types_FunctionTypeInt gct_ArgCountOne s_inc) = Some true
      /\ found (gct_Context_GetFunc (Some g') gct_types_FunctionTypeFloat gct_ArgCountOne s_inc) = Some false
      /\ length (ctx_flat g') = 28%nat
  | _ => False
  end
  /\ match ex_SetFunc (Some ex_default) [] ex_user with
     | Ok (Some g', Some _) => length (ctx_flat g') = 27%nat | _ => False end
  /\ match ex_SetFunc (Some ex_default) s_inc (gct_dyn_other tt) with
     | Ok (Some g', Some _) => length (ctx_flat g') = 27%nat | _ => False end.
Proof. vm_compute. repeat split. Qed.

Lemma ex_functions :
  gct_function_ConcatS (Some s_abs) (Some s_inc) = Ok (Some (s_abs ++ s_inc))
  /\ gct_function_ConcatS None (Some s_inc) = Ok (Some s_inc)
  /\ gct_function_UpperS ex_up (Some s_abs) = Ok (Some (bs 3 0x414253))
  /\ gct_function_UpperS ex_up None = Ok None
  /\ gct_function_LenS (Some s_upper) = Ok 5 /\ gct_function_LenS None = Ok 0.
Proof. vm_compute. repeat split. Qed.
