(* Proofs/GenFilterClauseProofs.v — the definitions GENERATED from filter.go, qframe.go (QFrame.Filter) and
   internal/index/index.go (Gen/GenFilterClause.v, translator tools/qf2coq/filterclause.go) equal the
   hand-written model of Model/Filter.v, function by function, for all inputs.  There is no fuel on the generated
   side (range loops, structural recursion over the clause), so no fuel relation appears in the statements. *)
From QF Require Import Base.Prelude Gen.GenFilterClause.
From QF Require Import Model.Frame Model.Filter Model.FilterSpec Proofs.FilterTypedFrame.
Local Open Scope Z_scope.

(* ------------------------------------------------------------------ list helpers *)

Lemma gcp_skipn_some {T} (l : list T) n x : nth_error l n = Some x -> skipn n l = x :: skipn (S n) l.
Proof.
  revert n; induction l as [|y l IH]; intros [|n] H; cbn in *; try discriminate.
  - now inversion H.
  - now apply IH.
Qed.

Lemma gcp_skipn_none {T} (l : list T) n : nth_error l n = None -> skipn n l = [].
Proof. intro H. apply skipn_all2. now apply nth_error_None. Qed.

Lemma gcp_index {T} (l : list T) (n : nat) : gc_index l (Z.of_nat n) = of_option (nth_error l n).
Proof.
  unfold gc_index, idx. destruct (Z.of_nat n <? 0) eqn:E; [lia|]. now rewrite Nat2Z.id.
Qed.

Lemma gcp_succ (n : nat) : Z.of_nat n + 1 = Z.of_nat (S n).
Proof. lia. Qed.

Lemma gcp_lt_len {T} (l : list T) (n : nat) :
  (Z.of_nat n <? Z.of_nat (length l)) = match nth_error l n with Some _ => true | None => false end.
Proof.
  destruct (nth_error l n) eqn:E.
  - assert (n < length l)%nat by (apply nth_error_Some; congruence). lia.
  - apply nth_error_None in E. lia.
Qed.

Lemma gcp_app_mid {T} (res : list T) p m : res ++ p :: m = (res ++ [p]) ++ m.
Proof. now rewrite <- app_assoc. Qed.

(* ------------------------------------------------------------------ internal/index *)

Lemma gc_NewBool_eq (n : nat) : gc_NewBool (Z.of_nat n) = Ok (repeat false n).
Proof.
  unfold gc_NewBool, gc_make. destruct ((Z.of_nat n <? 0) || (Z.of_nat n <? Z.of_nat n)) eqn:E; [lia|].
  cbn [obind]. now rewrite Nat2Z.id.
Qed.

Lemma gc_NewBool_neg (z : Z) : z < 0 -> gc_NewBool z = Panic.
Proof. intro H. unfold gc_NewBool, gc_make. destruct ((z <? 0) || (z <? z)) eqn:E; [reflexivity|lia]. Qed.

(* the mask QFrame.filter starts from: index.NewBool(qf.index.Len()) *)
Lemma gc_NewBool_mask {T} (i : list T) : gc_NewBool (Z.of_nat (length i)) = Ok (map (fun _ => false) i).
Proof.
  rewrite gc_NewBool_eq. f_equal. induction i as [|x i IH]; cbn; [reflexivity|now rewrite IH].
Qed.

Lemma gc_NewAscending_loop (l : list Z) : forall (pre rest : list Z),
  length l = length rest ->
  gc_NewAscending_loop1 l (Z.of_nat (length pre)) (pre ++ rest)
  = Ok (pre ++ map (fun k => gc_u32 (Z.of_nat k)) (seq (length pre) (length rest))).
Proof.
  induction l as [|x l IH]; intros pre rest Hlen.
  - destruct rest; [|discriminate]. reflexivity.
  - destruct rest as [|r rest]; [discriminate|]. cbn [gc_NewAscending_loop1].
    unfold gc_update. destruct (Z.of_nat (length pre) <? 0) eqn:E; [lia|]. rewrite Nat2Z.id.
    unfold idx. rewrite nth_error_app2 by lia. rewrite Nat.sub_diag. cbn [nth_error of_option obind].
    assert (Hs : set_nth (pre ++ r :: rest) (length pre) (gc_u32 (Z.of_nat (length pre)))
                 = (pre ++ [gc_u32 (Z.of_nat (length pre))]) ++ rest).
    { clear. generalize (gc_u32 (Z.of_nat (length pre))) as v. intro v.
      induction pre as [|p pre IHp]; cbn [app length set_nth]; [reflexivity|now rewrite IHp]. }
    rewrite Hs, gcp_succ.
    replace (S (length pre)) with (length (pre ++ [gc_u32 (Z.of_nat (length pre))])) by (rewrite app_length; cbn; lia).
    rewrite IH by (cbn in Hlen; lia).
    rewrite <- app_assoc. cbn [app length seq map]. rewrite app_length. cbn [length].
    now replace (length pre + 1)%nat with (S (length pre)) by lia.
Qed.

(* NewAscending(size) = [0, 1, .., size-1] (each entry through uint32) *)
Lemma gc_NewAscending_eq (n : nat) :
  gc_NewAscending (Z.of_nat n) = Ok (map (fun k => gc_u32 (Z.of_nat k)) (seq 0 n)).
Proof.
  unfold gc_NewAscending, gc_make. destruct ((Z.of_nat n <? 0) || (Z.of_nat n <? Z.of_nat n)) eqn:E; [lia|].
  cbn [obind]. rewrite Nat2Z.id.
  pose proof (gc_NewAscending_loop (repeat 0 n) [] (repeat 0 n) eq_refl) as H.
  cbn [length app Z.of_nat] in H. rewrite H. cbn [obind]. now rewrite repeat_length.
Qed.

Lemma gc_u32_small (k : nat) : Z.of_nat k < 4294967296 -> gc_u32 (Z.of_nat k) = Z.of_nat k.
Proof. intro H. unfold gc_u32. apply Z.mod_small. lia. Qed.

Lemma gc_NewAscending_small (n : nat) : Z.of_nat n <= 4294967296 ->
  gc_NewAscending (Z.of_nat n) = Ok (map Z.of_nat (seq 0 n)).
Proof.
  intro H. rewrite gc_NewAscending_eq. f_equal. apply map_ext_in. intros k Hk.
  apply in_seq in Hk. apply gc_u32_small. lia.
Qed.

(* Int.Filter *)
Lemma gc_Int_Filter_count (b : list bool) : forall c, 0 <= c ->
  exists c', 0 <= c' /\ gc_Int_Filter_loop1 b c = Ok c'.
Proof.
  induction b as [|x b IH]; intros c Hc; cbn [gc_Int_Filter_loop1].
  - now exists c.
  - destruct x; cbn [obind]; apply IH; lia.
Qed.

Lemma gc_Int_Filter_loop {T} (ix : list T) (b : list bool) : forall (n : nat) (res : list T),
  gc_Int_Filter_loop2 b (Z.of_nat n) ix res
  = match b with
    | [] => Ok res
    | _ =>
      (fix go (index : list T) (b : list bool) (res : list T) : outcome (list T) :=
         match b with
         | [] => Ok res
         | x :: b' =>
           match index with
           | [] => if x then Panic else go [] b' res
           | p :: index' => go index' b' (if x then res ++ [p] else res)
           end
         end) (skipn n ix) b res
    end.
Proof.
  induction b as [|x b IH]; intros n res; [reflexivity|].
  cbn [gc_Int_Filter_loop2]. rewrite gcp_index, gcp_succ.
  destruct (nth_error ix n) as [p|] eqn:E.
  - rewrite (gcp_skipn_some _ _ _ E). destruct x; cbn [of_option obind]; rewrite IH; destruct b; reflexivity.
  - rewrite (gcp_skipn_none _ _ E). destruct x; cbn [of_option obind]; [reflexivity|].
    rewrite IH. rewrite (gcp_skipn_none ix (S n)) by (apply nth_error_None; apply nth_error_None in E; lia).
    destruct b; reflexivity.
Qed.

Lemma gcp_index_filter_acc (index : list nat) (b : list bool) : forall res,
  (fix go (index : list nat) (b : list bool) (res : list nat) : outcome (list nat) :=
     match b with
     | [] => Ok res
     | x :: b' =>
       match index with
       | [] => if x then Panic else go [] b' res
       | p :: index' => go index' b' (if x then res ++ [p] else res)
       end
     end) index b res
  = do r <- index_filter index b; Ok (res ++ r).
Proof.
  revert index; induction b as [|x b IH]; intros index res.
  - cbn. now rewrite app_nil_r.
  - destruct index as [|p index]; cbn [index_filter].
    + destruct x; [reflexivity|]. apply IH.
    + rewrite IH. destruct (index_filter index b) as [r| |]; cbn [obind]; [|reflexivity|reflexivity].
      destruct x; [now rewrite <- app_assoc|reflexivity].
Qed.

(* generated Int.Filter = the model's index filter, for all index lists and all masks *)
Lemma gc_Int_Filter_eq (index : list nat) (b : list bool) : gc_Int_Filter index b = index_filter index b.
Proof.
  unfold gc_Int_Filter. destruct (gc_Int_Filter_count b 0 ltac:(lia)) as [c [Hc Hl]]. rewrite Hl.
  cbn [obind]. unfold gc_make0. destruct (c <? 0) eqn:E; [lia|]. cbn [obind].
  change 0 with (Z.of_nat 0). rewrite gc_Int_Filter_loop. cbn [skipn].
  destruct b as [|x b]; [reflexivity|].
  rewrite (gcp_index_filter_acc index (x :: b) []). cbn [app].
  destruct (index_filter index (x :: b)); reflexivity.
Qed.

(* Int.Copy *)
Lemma gc_Int_Copy_eq {T} (z : T) (l : list T) : gc_Int_Copy z l = Ok l.
Proof.
  unfold gc_Int_Copy, gc_make.
  destruct ((Z.of_nat (length l) <? 0) || (Z.of_nat (length l) <? Z.of_nat (length l))) eqn:E; [lia|].
  cbn [obind]. unfold gc_copy. rewrite Nat2Z.id. rewrite skipn_all2 by (rewrite repeat_length; lia).
  rewrite repeat_length, firstn_all, app_nil_r. reflexivity.
Qed.

(* ------------------------------------------------------------------ the instance: the model's frames *)

(* qf.Err as an error value (the model keeps only the flag), qf.withErr(err) (nil clears the flag, as in Go),
   f.Inverse = b, qerrors.New *)
Definition m_Err (f : frame) : option unit := if ferr f then Some tt else None.
Definition m_withErr (f : frame) (e : option unit) : frame := mkFrame (cols f) (ix f) (negb (gc_isnil e)).
Definition m_setInverse (l : leaf) (b : bool) : leaf := mkLeaf (lcol l) (lcmp l) (larg l) b.
Definition m_new_error (_ _ : bytes) : unit := tt.
Notation gclause := (@gc_FilterClause unit leaf).

Lemma m_Err_nil f : negb (gc_isnil (m_Err f)) = ferr f.
Proof. unfold m_Err. now destruct (ferr f). Qed.

Ltac gsimp := cbn [obind gc_deref of_option fst snd].

(* ------------------------------------------------------------------ orFrames *)

Ltac gsk := first [ reflexivity
                  | symmetry; apply gcp_skipn_some; assumption
                  | symmetry; apply gcp_skipn_none; assumption ].

Lemma gc_orFrames_loop_gen (lf rf : frame) (orig : list nat) : forall (nl nr : nat) (res l r : list nat),
  l = skipn nl (ix lf) -> r = skipn nr (ix rf) ->
  exists a b,
    gc_orFrames_loop1 Nat.eqb ix orig (Some lf) (Some rf) res (Z.of_nat nl) (Z.of_nat nr)
    = Ok (res ++ or_merge orig l r, a, b).
Proof.
  induction orig as [|p orig IH]; intros nl nr res l r Hl Hr.
  - exists (Z.of_nat nl), (Z.of_nat nr). cbn [gc_orFrames_loop1 or_merge]. now rewrite app_nil_r.
  - cbn [gc_orFrames_loop1]. gsimp. rewrite !gcp_lt_len, !gcp_index.
    destruct (nth_error (ix lf) nl) as [x|] eqn:El; destruct (nth_error (ix rf) nr) as [y|] eqn:Er; gsimp.
    + rewrite (gcp_skipn_some _ _ _ El) in Hl. rewrite (gcp_skipn_some _ _ _ Er) in Hr. subst l r.
      cbn [or_merge].
      destruct (Nat.eqb x p) eqn:Ex; destruct (Nat.eqb y p) eqn:Ey; gsimp; cbn [orb]; rewrite ?gcp_succ;
        rewrite ?(gcp_app_mid res p (or_merge _ _ _)); apply IH; gsk.
    + rewrite (gcp_skipn_some _ _ _ El) in Hl. rewrite (gcp_skipn_none _ _ Er) in Hr. subst l r.
      cbn [or_merge].
      destruct (Nat.eqb x p) eqn:Ex; gsimp; cbn [orb]; rewrite ?gcp_succ;
        rewrite ?(gcp_app_mid res p (or_merge _ _ _)); apply IH; gsk.
    + rewrite (gcp_skipn_none _ _ El) in Hl. rewrite (gcp_skipn_some _ _ _ Er) in Hr. subst l r.
      cbn [or_merge].
      destruct (Nat.eqb y p) eqn:Ey; gsimp; cbn [orb]; rewrite ?gcp_succ;
        rewrite ?(gcp_app_mid res p (or_merge _ _ _)); apply IH; gsk.
    + rewrite (gcp_skipn_none _ _ El) in Hl. rewrite (gcp_skipn_none _ _ Er) in Hr. subst l r.
      cbn [or_merge orb]. apply IH; gsk.
Qed.

Lemma gc_orFrames_loop (lf rf : frame) (orig : list nat) :
  exists a b,
    gc_orFrames_loop1 Nat.eqb ix orig (Some lf) (Some rf) [] 0 0 = Ok (or_merge orig (ix lf) (ix rf), a, b).
Proof. exact (gc_orFrames_loop_gen lf rf orig 0 0 [] _ _ eq_refl eq_refl). Qed.

(* generated orFrames = Filter.or_frames (pointers that are not nil for the original and the right side, as at
   every call site; nil for either of them panics) *)
Lemma gc_orFrames_eq (o : frame) (l : option frame) (r : frame) :
  gc_orFrames Nat.eqb m_Err ix with_ix (Some o) l (Some r) = Ok (Some (or_frames o l r)).
Proof.
  unfold gc_orFrames, or_frames. destruct l as [lf|]; cbn [gc_isnil]; [|reflexivity]. gsimp.
  rewrite !m_Err_nil. destruct (ferr lf); [reflexivity|]. destruct (ferr r); [reflexivity|].
  unfold gc_make0.
  destruct (Z.max (Z.of_nat (length (ix lf))) (Z.of_nat (length (ix r))) <? 0) eqn:E; [lia|]. gsimp.
  destruct (gc_orFrames_loop lf r (ix o)) as [a [b H]]. rewrite H. gsimp.
  reflexivity.
Qed.

Lemma gc_orFrames_nil_original l r : gc_orFrames Nat.eqb m_Err ix with_ix None (Some l) (Some r) = Panic
                                     \/ ferr l = true \/ ferr r = true.
Proof.
  unfold gc_orFrames. cbn [gc_isnil]. gsimp. rewrite !m_Err_nil.
  destruct (ferr l); [auto|]. destruct (ferr r); [auto|]. left.
  unfold gc_make0.
  destruct (Z.max (Z.of_nat (length (ix l))) (Z.of_nat (length (ix r))) <? 0) eqn:E; [lia|]. reflexivity.
Qed.

(* ------------------------------------------------------------------ the complement loop of NotClause.filter *)

Lemma gc_Not_loop_gen (nf : frame) (orig : list nat) : forall (n : nat) (res l : list nat),
  l = skipn n (ix nf) ->
  exists a, gc_NotClause_filter_loop1 Nat.eqb ix orig nf res (Z.of_nat n) = Ok (res ++ not_merge orig l, a).
Proof.
  induction orig as [|p orig IH]; intros n res l Hl.
  - exists (Z.of_nat n). cbn [gc_NotClause_filter_loop1 not_merge]. now rewrite app_nil_r.
  - cbn [gc_NotClause_filter_loop1]. rewrite gcp_lt_len, gcp_index.
    destruct (nth_error (ix nf) n) as [x|] eqn:En; gsimp.
    + rewrite (gcp_skipn_some _ _ _ En) in Hl. subst l. cbn [not_merge].
      destruct (Nat.eqb x p) eqn:Ex; gsimp; rewrite ?gcp_succ;
        rewrite ?(gcp_app_mid res p (not_merge _ _)); apply IH; gsk.
    + rewrite (gcp_skipn_none _ _ En) in Hl. subst l. cbn [not_merge].
      rewrite (gcp_app_mid res p (not_merge _ _)). apply IH; gsk.
Qed.

Lemma gc_Not_loop (nf : frame) (orig : list nat) :
  exists a, gc_NotClause_filter_loop1 Nat.eqb ix orig nf [] 0 = Ok (not_merge orig (ix nf), a).
Proof. exact (gc_Not_loop_gen nf orig 0 [] _ eq_refl). Qed.

(* ------------------------------------------------------------------ clause trees *)

(* induction over the clause tree with the members of And / Or under Forall *)
Definition gcp_clause_ind (P : clause -> Prop)
  (HL : forall l, P (CLeaf l)) (HN : P CNull) (HNot : forall c, P c -> P (CNot c))
  (HAnd : forall cs, Forall P cs -> P (CAnd cs)) (HOr : forall cs, Forall P cs -> P (COr cs)) :
  forall c, P c :=
  fix go (c : clause) : P c :=
    match c with
    | CLeaf l => HL l
    | CNull => HN
    | CNot c' => HNot c' (go c')
    | CAnd cs => HAnd cs ((fix gol (cs : list clause) : Forall P cs :=
                             match cs with
                             | [] => Forall_nil P
                             | c' :: r => Forall_cons c' (go c') (gol r)
                             end) cs)
    | COr cs => HOr cs ((fix gol (cs : list clause) : Forall P cs :=
                           match cs with
                           | [] => Forall_nil P
                           | c' :: r => Forall_cons c' (go c') (gol r)
                           end) cs)
    end.

(* the error value a clause of the model carries, and the Go value of a model clause: what the constructors
   And / Or / Not / Null and a Filter literal build (g_And_eq .. g_Null_eq below) *)
Definition cerr (c : clause) : option unit := if clause_err c then Some tt else None.

Fixpoint embed (c : clause) : gclause :=
  match c with
  | CLeaf l => gc_mk_Filter l
  | CAnd cs => gc_mk_AndClause (cerr (CAnd cs)) (map embed cs)
  | COr cs => gc_mk_OrClause (cerr (COr cs)) (map embed cs)
  | CNot c' => gc_mk_NotClause (embed c')
  | CNull => gc_mk_NullClause
  end.

Lemma cerr_nil c : negb (gc_isnil (cerr c)) = clause_err c.
Proof. unfold cerr. now destruct (clause_err c). Qed.

Lemma cerr_withErr f c : clause_err c = true -> m_withErr f (cerr c) = with_err f.
Proof. intro H. unfold cerr. rewrite H. reflexivity. Qed.

(* Err() *)
Lemma g_Err_eq (c : clause) : gc_FilterClause_Err (embed c) = Ok (cerr c).
Proof.
  induction c as [l| |c IH|cs IH|cs IH] using gcp_clause_ind; try reflexivity.
  cbn [embed gc_FilterClause_Err]. unfold gc_NotClause_Err. rewrite IH. reflexivity.
Qed.

Lemma g_anyFilterErr_eq (cs : list clause) :
  gc_anyFilterErr (map embed cs) = Ok (if existsb clause_err cs then Some tt else None).
Proof.
  unfold gc_anyFilterErr. induction cs as [|c cs IH]; [reflexivity|].
  cbn [map gc_anyFilterErr_loop1 existsb]. rewrite g_Err_eq. gsimp. rewrite cerr_nil.
  unfold cerr. destruct (clause_err c); [reflexivity|]. exact IH.
Qed.

Lemma gcp_len_pos {T} (l : list T) :
  (0 <? Z.of_nat (length l)) = match l with [] => false | _ :: _ => true end.
Proof. destruct l; cbn [length]; [reflexivity|lia]. Qed.

Lemma gcp_len_zero {T} (l : list T) :
  (Z.of_nat (length l) =? 0) = match l with [] => true | _ :: _ => false end.
Proof. destruct l; cbn [length]; [reflexivity|lia]. Qed.

(* the constructors *)
Lemma g_And_eq (cs : list clause) : gc_And m_new_error (map embed cs) = Ok (embed (CAnd cs)).
Proof.
  unfold gc_And. rewrite gcp_len_zero. destruct cs as [|c cs]; [reflexivity|].
  cbn [map]. change (embed c :: map embed cs) with (map embed (c :: cs)).
  rewrite g_anyFilterErr_eq. reflexivity.
Qed.

Lemma g_Or_eq (cs : list clause) : gc_Or m_new_error (map embed cs) = Ok (embed (COr cs)).
Proof.
  unfold gc_Or. rewrite gcp_len_zero. destruct cs as [|c cs]; [reflexivity|].
  cbn [map]. change (embed c :: map embed cs) with (map embed (c :: cs)).
  rewrite g_anyFilterErr_eq. reflexivity.
Qed.

Lemma g_Not_eq (c : clause) : gc_Not (embed c) = Ok (embed (CNot c)).
Proof. reflexivity. Qed.

Lemma g_Null_eq : @gc_Null unit leaf = Ok (embed CNull).
Proof. reflexivity. Qed.

(* a clause built from a member that carries an error carries one *)
Lemma g_And_err_propagates (cs : list clause) c : In c cs -> clause_err c = true ->
  exists e, gc_And m_new_error (map embed cs) = Ok (gc_mk_AndClause (Some e) (map embed cs)).
Proof.
  intros Hin He. rewrite g_And_eq. exists tt. cbn [embed]. unfold cerr.
  assert (H : clause_err (CAnd cs) = true).
  { destruct cs as [|c0 cs]; [reflexivity|]. cbn [clause_err]. apply existsb_exists. now exists c. }
  rewrite H. reflexivity.
Qed.

Lemma g_Or_err_propagates (cs : list clause) c : In c cs -> clause_err c = true ->
  exists e, gc_Or m_new_error (map embed cs) = Ok (gc_mk_OrClause (Some e) (map embed cs)).
Proof.
  intros Hin He. rewrite g_Or_eq. exists tt. cbn [embed]. unfold cerr.
  assert (H : clause_err (COr cs) = true).
  { destruct cs as [|c0 cs]; [reflexivity|]. cbn [clause_err]. apply existsb_exists. now exists c. }
  rewrite H. reflexivity.
Qed.

(* ------------------------------------------------------------------ a filtered index is never longer *)
(* needed because NotClause.filter computes the capacity  qf.index.Len() - newQf.index.Len()  of make, which
   panics when negative; the model has no such path *)
Local Open Scope nat_scope.

Lemma gcp_index_filter_len (b : list bool) : forall index r,
  index_filter index b = Ok r -> length r <= length index.
Proof.
  induction b as [|x b IH]; intros index r H; cbn [index_filter] in H.
  - inversion H. cbn. lia.
  - destruct index as [|p index].
    + destruct x; [discriminate|]. apply IH in H. exact H.
    + destruct (index_filter index b) as [r'| |] eqn:E; cbn [obind] in H; try discriminate.
      inversion H. apply IH in E. destruct x; cbn [length]; lia.
Qed.

Lemma gcp_or_merge_len (orig : list nat) : forall l r, length (or_merge orig l r) <= length orig.
Proof.
  induction orig as [|p orig IH]; intros l r; cbn [or_merge]; [cbn; lia|].
  destruct l as [|x l]; [|destruct (Nat.eqb x p)]; (destruct r as [|y r]; [|destruct (Nat.eqb y p)]);
    cbn [orb length];
    match goal with |- context [or_merge orig ?a ?b] => pose proof (IH a b) end; lia.
Qed.

Lemma gcp_not_merge_len (orig : list nat) : forall s, length (not_merge orig s) <= length orig.
Proof.
  induction orig as [|p orig IH]; intros s; cbn [not_merge]; [cbn; lia|].
  destruct s as [|x s]; [|destruct (Nat.eqb x p)]; cbn [length];
    match goal with |- context [not_merge orig ?a] => pose proof (IH a) end; lia.
Qed.

Section Tree.
Variable mt : matcher_table.

Lemma gcp_filter_leaves_len f ls g : filter_leaves mt f ls = Ok g -> length (ix g) <= length (ix f).
Proof.
  unfold filter_leaves. destruct (ferr f); [intro H; inversion H; lia|].
  destruct (ofold _ ls _) as [b| |]; [|intro H; inversion H; cbn; lia|discriminate].
  destruct (index_filter (ix f) b) as [i| |] eqn:E; cbn [obind]; intro H; try discriminate.
  inversion H. cbn [with_ix ix]. now apply gcp_index_filter_len in E.
Qed.

Lemma gcp_or_frames_len f acc nf :
  (forall a, acc = Some a -> length (ix a) <= length (ix f)) -> length (ix nf) <= length (ix f) ->
  length (ix (or_frames f acc nf)) <= length (ix f).
Proof.
  intros Ha Hn. unfold or_frames. destruct acc as [a|]; [|exact Hn].
  destruct (ferr a); [now apply Ha|]. destruct (ferr nf); [exact Hn|].
  cbn [with_ix ix]. apply gcp_or_merge_len.
Qed.

Notation cf := (fun (c' : clause) (g : frame) => clause_filter mt c' g).

Definition or_flush (f : frame) (pending : list leaf) (acc : option frame) : outcome (option frame) :=
  match pending with
  | [] => Ok acc
  | _ => do nf <- filter_leaves mt f (rev pending); Ok (Some (or_frames f acc nf))
  end.

Definition is_leafb (c : clause) : bool := match c with CLeaf _ => true | _ => false end.

Lemma or_loop_nil cfn f pending acc :
  or_loop mt cfn f [] pending acc
  = do acc' <- or_flush f pending acc; match acc' with Some r => Ok r | None => Panic end.
Proof. reflexivity. Qed.

Lemma or_loop_leaf cfn f l rest pending acc :
  or_loop mt cfn f (CLeaf l :: rest) pending acc = or_loop mt cfn f rest (l :: pending) acc.
Proof. reflexivity. Qed.

Lemma or_loop_other cfn f c rest pending acc : is_leafb c = false ->
  or_loop mt cfn f (c :: rest) pending acc
  = do acc' <- or_flush f pending acc; do nf <- cfn c f; or_loop mt cfn f rest [] (Some (or_frames f acc' nf)).
Proof. destruct c; intro H; try discriminate; reflexivity. Qed.

Lemma clause_filter_and cs f :
  clause_filter mt (CAnd cs) f
  = if ferr f then Ok f else if clause_err (CAnd cs) then Ok (with_err f) else and_loop cf cs f.
Proof. reflexivity. Qed.

Lemma clause_filter_or cs f :
  clause_filter mt (COr cs) f
  = if ferr f then Ok f else if clause_err (COr cs) then Ok (with_err f) else or_loop mt cf f cs [] None.
Proof. reflexivity. Qed.

Lemma clause_filter_not c f :
  clause_filter mt (CNot c) f
  = if ferr f then Ok f else if clause_err c then Ok (with_err f)
    else match c with
         | CLeaf l => filter_leaves mt f [invert_leaf l]
         | _ => do nf <- clause_filter mt c f;
                if ferr nf then Ok nf else Ok (with_ix f (not_merge (ix f) (ix nf)))
         end.
Proof. destruct c; reflexivity. Qed.

Definition shrinks (c : clause) : Prop :=
  forall f g, clause_filter mt c f = Ok g -> length (ix g) <= length (ix f).

Lemma gcp_or_flush_len f pending acc acc' :
  (forall a, acc = Some a -> length (ix a) <= length (ix f)) ->
  or_flush f pending acc = Ok acc' ->
  forall a, acc' = Some a -> length (ix a) <= length (ix f).
Proof.
  intros Ha H. unfold or_flush in H. destruct pending as [|l0 pd]; [inversion H; subst; exact Ha|].
  destruct (filter_leaves mt f (rev (l0 :: pd))) as [nf| |] eqn:E; cbn [obind] in H; try discriminate.
  inversion H. intros a Hs. inversion Hs. apply gcp_or_frames_len; [exact Ha|]. now apply gcp_filter_leaves_len in E.
Qed.

Lemma gcp_or_loop_len f cs : Forall shrinks cs -> forall pending acc g,
  (forall a, acc = Some a -> length (ix a) <= length (ix f)) ->
  or_loop mt cf f cs pending acc = Ok g -> length (ix g) <= length (ix f).
Proof.
  induction 1 as [|c cs Hc Hcs IH]; intros pending acc g Ha H.
  - rewrite or_loop_nil in H. destruct (or_flush f pending acc) as [acc'| |] eqn:E; cbn [obind] in H; try discriminate.
    destruct acc' as [r|]; [|discriminate]. inversion H; subst.
    exact (gcp_or_flush_len f pending acc (Some g) Ha E g eq_refl).
  - destruct (is_leafb c) eqn:El.
    + destruct c; try discriminate. rewrite or_loop_leaf in H. exact (IH _ _ _ Ha H).
    + rewrite (or_loop_other _ _ _ _ _ _ El) in H.
      destruct (or_flush f pending acc) as [acc'| |] eqn:E; cbn [obind] in H; try discriminate.
      destruct (clause_filter mt c f) as [nf| |] eqn:En; cbn [obind] in H; try discriminate.
      refine (IH _ _ _ _ H). intros a Hs. inversion Hs. apply gcp_or_frames_len.
      * exact (gcp_or_flush_len f pending acc acc' Ha E).
      * exact (Hc f nf En).
Qed.

Lemma gcp_and_loop_len cs : Forall shrinks cs -> forall f g,
  and_loop cf cs f = Ok g -> length (ix g) <= length (ix f).
Proof.
  induction 1 as [|c cs Hc Hcs IH]; intros f g H; cbn [and_loop] in H.
  - inversion H. lia.
  - destruct (clause_filter mt c f) as [g'| |] eqn:E; cbn [obind] in H; try discriminate.
    apply IH in H. apply Hc in E. lia.
Qed.

Lemma clause_filter_shrinks (c : clause) : shrinks c.
Proof.
  induction c as [l| |c IH|cs IH|cs IH] using gcp_clause_ind; intros f g H.
  - cbn [clause_filter] in H. now apply gcp_filter_leaves_len in H.
  - cbn [clause_filter] in H. inversion H. lia.
  - rewrite clause_filter_not in H. destruct (ferr f); [inversion H; lia|].
    destruct (clause_err c); [inversion H; cbn; lia|].
    assert (Hgen : (do nf <- clause_filter mt c f;
                    if ferr nf then Ok nf else Ok (with_ix f (not_merge (ix f) (ix nf)))) = Ok g ->
                   length (ix g) <= length (ix f)).
    { intro H'. destruct (clause_filter mt c f) as [nf| |] eqn:E; cbn [obind] in H'; try discriminate.
      destruct (ferr nf); inversion H'; subst; [exact (IH f g E)|]. cbn [with_ix ix]. apply gcp_not_merge_len. }
    destruct c; try (exact (Hgen H)). now apply gcp_filter_leaves_len in H.
  - rewrite clause_filter_and in H. destruct (ferr f); [inversion H; lia|].
    destruct (clause_err (CAnd cs)); [inversion H; cbn; lia|]. exact (gcp_and_loop_len cs IH f g H).
  - rewrite clause_filter_or in H. destruct (ferr f); [inversion H; lia|].
    destruct (clause_err (COr cs)); [inversion H; cbn; lia|].
    refine (gcp_or_loop_len f cs IH [] None g _ H). intros a Ha. discriminate.
Qed.

(* ------------------------------------------------------------------ generated filter methods = clause_filter *)
Local Open Scope Z_scope.

(* the generated dispatcher on the model's frames, the column level being the model's filter_leaves *)
Definition g_filter : gclause -> frame -> outcome frame :=
  gc_FilterClause_filter Nat.eqb m_Err ix m_withErr with_ix (filter_leaves mt) linv m_setInverse.

Definition agrees (self : gclause -> frame -> outcome frame) (c : clause) : Prop :=
  forall g, self (embed c) g = clause_filter mt c g.

(* AndClause.filter *)
Lemma g_And_loop self cs : Forall (agrees self) cs -> forall g,
  gc_AndClause_filter_loop1 self (map embed cs) (Some g) = do r <- and_loop cf cs g; Ok (Some r).
Proof.
  induction 1 as [|c cs Hc Hcs IH]; intro g; [reflexivity|].
  cbn [map gc_AndClause_filter_loop1 and_loop]. gsimp. rewrite (Hc g).
  destruct (clause_filter mt c g) as [g'| |]; gsimp; [apply IH|reflexivity|reflexivity].
Qed.

Lemma g_AndClause_filter_eq self cs f : Forall (agrees self) cs ->
  gc_AndClause_filter m_Err m_withErr self (cerr (CAnd cs)) (map embed cs) f = clause_filter mt (CAnd cs) f.
Proof.
  intro H. rewrite clause_filter_and. unfold gc_AndClause_filter, gc_AndClause_Err. rewrite m_Err_nil.
  destruct (ferr f); [reflexivity|]. gsimp. rewrite cerr_nil.
  destruct (clause_err (CAnd cs)) eqn:E; [now rewrite cerr_withErr|].
  rewrite (g_And_loop self cs H f). destruct (and_loop cf cs f); reflexivity.
Qed.

(* OrClause.filter: what follows the loop *)
Definition g_or_tail (f : frame) (p : list leaf * option frame) : outcome frame :=
  let '(v_filters, v_filteredQf) := p in
  do v_filteredQf <- (
    if (0 <? (Z.of_nat (length v_filters))) then
      do t7 <- filter_leaves mt f v_filters;
      let v_newQf := t7 in
      do t8 <- gc_orFrames Nat.eqb m_Err ix with_ix (Some f) v_filteredQf (Some v_newQf);
      let v_filteredQf := t8 in
      Ok v_filteredQf
    else
      Ok v_filteredQf);
  do t9 <- gc_deref v_filteredQf;
  Ok t9.

Lemma gcp_rev_cons_ne {T} (x : T) l : rev (x :: l) <> [].
Proof. intro H. apply (f_equal (@length T)) in H. rewrite rev_length in H. discriminate. Qed.

Lemma g_Or_loop self f cs : Forall (agrees self) cs -> forall pending acc,
  (do p <- gc_OrClause_filter_loop1 Nat.eqb m_Err ix with_ix (filter_leaves mt) self (map embed cs) f (rev pending) acc;
   g_or_tail f p)
  = or_loop mt cf f cs pending acc.
Proof.
  induction 1 as [|c cs Hc Hcs IH]; intros pending acc.
  - cbn [map gc_OrClause_filter_loop1]. gsimp. rewrite or_loop_nil. unfold g_or_tail, or_flush.
    rewrite gcp_len_pos. destruct pending as [|l0 pd]; [cbn [rev]; gsimp; destruct acc; reflexivity|].
    destruct (rev (l0 :: pd)) as [|l1 l2] eqn:Er; [now apply gcp_rev_cons_ne in Er|].
    destruct (filter_leaves mt f (l1 :: l2)) as [nf| |]; gsimp; [|reflexivity|reflexivity].
    rewrite gc_orFrames_eq. reflexivity.
  - destruct (is_leafb c) eqn:El.
    + destruct c as [l| | | |]; try discriminate. rewrite or_loop_leaf.
      cbn [map embed gc_OrClause_filter_loop1]. gsimp. exact (IH (l :: pending) acc).
    + rewrite (or_loop_other _ _ _ _ _ _ El). unfold or_flush.
      assert (Hstep : forall ec, ec = embed c ->
        (do p <- gc_OrClause_filter_loop1 Nat.eqb m_Err ix with_ix (filter_leaves mt) self (ec :: map embed cs) f (rev pending) acc;
         g_or_tail f p)
        = (do p <- (do p1 <- (if 0 <? Z.of_nat (length (rev pending))
                             then do t3 <- filter_leaves mt f (rev pending);
                                  do t4 <- gc_orFrames Nat.eqb m_Err ix with_ix (Some f) acc (Some t3);
                                  Ok ([], t4)
                             else Ok (rev pending, acc));
                   do t5 <- self ec f;
                   do t6 <- gc_orFrames Nat.eqb m_Err ix with_ix (Some f) (snd p1) (Some t5);
                   gc_OrClause_filter_loop1 Nat.eqb m_Err ix with_ix (filter_leaves mt) self (map embed cs) f (fst p1) t6);
           g_or_tail f p)).
      { intros ec Hec. destruct c; try discriminate; cbn [embed] in Hec; subst ec; cbn [gc_OrClause_filter_loop1];
          destruct (0 <? Z.of_nat (length (rev pending)));
          repeat (match goal with |- context [obind ?x _] =>
                    match x with
                    | filter_leaves _ _ _ => destruct x
                    | gc_orFrames _ _ _ _ _ _ _ => destruct x
                    | self _ _ => destruct x
                    end end; gsimp); reflexivity. }
      cbn [map]. rewrite (Hstep (embed c) eq_refl). clear Hstep.
      rewrite gcp_len_pos. rewrite (Hc f).
      destruct pending as [|l0 pd].
      * cbn [rev]. gsimp. destruct (clause_filter mt c f) as [nf| |]; gsimp; [|reflexivity|reflexivity].
        rewrite gc_orFrames_eq. gsimp. exact (IH [] _).
      * destruct (rev (l0 :: pd)) as [|l1 l2] eqn:Er; [now apply gcp_rev_cons_ne in Er|].
        destruct (filter_leaves mt f (l1 :: l2)) as [nf0| |]; gsimp; [|reflexivity|reflexivity].
        rewrite gc_orFrames_eq. gsimp.
        destruct (clause_filter mt c f) as [nf| |]; gsimp; [|reflexivity|reflexivity].
        rewrite gc_orFrames_eq. gsimp. exact (IH [] _).
Qed.

Lemma g_OrClause_filter_eq self cs f : Forall (agrees self) cs ->
  gc_OrClause_filter Nat.eqb m_Err ix m_withErr with_ix (filter_leaves mt) self (cerr (COr cs)) (map embed cs) f
  = clause_filter mt (COr cs) f.
Proof.
  intro H. rewrite clause_filter_or. unfold gc_OrClause_filter, gc_OrClause_Err. rewrite m_Err_nil.
  destruct (ferr f); [reflexivity|]. gsimp. rewrite cerr_nil.
  destruct (clause_err (COr cs)) eqn:E; [now rewrite cerr_withErr|].
  exact (g_Or_loop self f cs H [] None).
Qed.

(* NotClause.filter *)
Lemma g_NotClause_filter_eq self c f : agrees self c ->
  gc_NotClause_filter Nat.eqb m_Err ix m_withErr with_ix (filter_leaves mt) linv m_setInverse self (embed c) f
  = clause_filter mt (CNot c) f.
Proof.
  intro Hs. rewrite clause_filter_not. unfold gc_NotClause_filter, gc_NotClause_Err. rewrite m_Err_nil.
  destruct (ferr f) eqn:Ef; [reflexivity|]. rewrite g_Err_eq. gsimp. rewrite cerr_nil.
  destruct (clause_err c) eqn:E; [now rewrite cerr_withErr|].
  assert (Hgen : (do t4 <- self (embed c) f;
                  if negb (gc_isnil (m_Err t4)) then Ok t4
                  else do t5 <- gc_make0 (Z.of_nat (length (ix f)) - Z.of_nat (length (ix t4)));
                       do p <- gc_NotClause_filter_loop1 Nat.eqb ix (ix f) t4 t5 0;
                       Ok (with_ix f (fst p)))
                 = (do nf <- clause_filter mt c f;
                    if ferr nf then Ok nf else Ok (with_ix f (not_merge (ix f) (ix nf))))).
  { rewrite (Hs f). destruct (clause_filter mt c f) as [nf| |] eqn:En; gsimp; [|reflexivity|reflexivity].
    rewrite m_Err_nil. destruct (ferr nf); [reflexivity|].
    pose proof (clause_filter_shrinks c f nf En) as Hlen. unfold gc_make0.
    destruct (Z.of_nat (length (ix f)) - Z.of_nat (length (ix nf)) <? 0) eqn:Ec; [lia|]. gsimp.
    destruct (gc_Not_loop nf (ix f)) as [a Ha]. rewrite Ha. reflexivity. }
  destruct c as [l|cs|cs|c'|]; cbn [embed]; cbn [embed] in Hgen;
    try (rewrite <- Hgen; clear Hgen;
         match goal with |- context [self ?x f] => destruct (self x f) as [t4| |] end; gsimp; try reflexivity;
         destruct (negb (gc_isnil (m_Err t4))); try reflexivity;
         destruct (gc_make0 _) as [t5| |]; gsimp; try reflexivity;
         destruct (gc_NotClause_filter_loop1 _ _ _ _ _ _) as [[a b]| |]; reflexivity).
  change (invert_leaf l) with (m_setInverse l (negb (linv l))).
  destruct (filter_leaves mt f [m_setInverse l (negb (linv l))]); reflexivity.
Qed.

(* the dispatcher: generated c.filter(qf) = clause_filter, for every clause tree and every frame *)
Theorem g_filter_eq (c : clause) : forall f, g_filter (embed c) f = clause_filter mt c f.
Proof.
  induction c as [l| |c IH|cs IH|cs IH] using gcp_clause_ind; intro f.
  - cbn [embed g_filter gc_FilterClause_filter clause_filter]. unfold g_filter. cbn [embed gc_FilterClause_filter].
    unfold gc_Filter_filter. destruct (filter_leaves mt f [l]); reflexivity.
  - reflexivity.
  - exact (g_NotClause_filter_eq g_filter c f IH).
  - exact (g_AndClause_filter_eq g_filter cs f IH).
  - exact (g_OrClause_filter_eq g_filter cs f IH).
Qed.

(* QFrame.Filter *)
Theorem g_QFrame_Filter_eq (f : frame) (c : clause) :
  gc_QFrame_Filter Nat.eqb m_Err ix m_withErr with_ix (filter_leaves mt) linv m_setInverse f (embed c)
  = frame_filter mt f c.
Proof.
  unfold gc_QFrame_Filter, frame_filter. rewrite m_Err_nil. destruct (ferr f); [reflexivity|].
  change (gc_FilterClause_filter Nat.eqb m_Err ix m_withErr with_ix (filter_leaves mt) linv m_setInverse (embed c) f)
    with (g_filter (embed c) f).
  rewrite g_filter_eq. destruct (clause_filter mt c f); reflexivity.
Qed.

(* the five methods, each on its own constructor *)
Lemma g_Filter_filter_eq (l : leaf) f : gc_Filter_filter (filter_leaves mt) l f = clause_filter mt (CLeaf l) f.
Proof. unfold gc_Filter_filter. cbn [clause_filter]. destruct (filter_leaves mt f [l]); reflexivity. Qed.

Lemma g_NullClause_filter_eq f : gc_NullClause_filter f = clause_filter mt CNull f.
Proof. reflexivity. Qed.

Lemma g_And_agrees cs : Forall (agrees g_filter) cs.
Proof. apply Forall_forall. intros c _ g. apply g_filter_eq. Qed.

(* filtering with a clause that carries an error sets Err (and touches neither columns nor index) *)
Lemma g_filter_err (c : clause) f : clause_err c = true -> ferr f = false ->
  g_filter (embed c) f = Ok (with_err f).
Proof.
  intros He Hf. rewrite g_filter_eq.
  destruct c as [l|cs|cs|c'|]; try discriminate.
  - rewrite clause_filter_and, Hf, He. reflexivity.
  - rewrite clause_filter_or, Hf, He. reflexivity.
  - rewrite clause_filter_not, Hf. cbn [clause_err] in He. rewrite He. reflexivity.
Qed.

(* a frame that already failed is returned as it is *)
Lemma g_filter_sticky (c : clause) f : ferr f = true -> is_leafb c = false -> g_filter (embed c) f = Ok f.
Proof.
  intros Hf Hl. rewrite g_filter_eq. destruct c as [l|cs|cs|c'|]; try discriminate.
  - rewrite clause_filter_and, Hf. reflexivity.
  - rewrite clause_filter_or, Hf. reflexivity.
  - rewrite clause_filter_not, Hf. reflexivity.
  - reflexivity.
Qed.

End Tree.

(* the zero value OrClause{} (no constructor builds it: Or() of no clauses carries an error) dereferences nil *)
Lemma g_OrClause_zero_panics mt f : ferr f = false ->
  g_filter mt (gc_mk_OrClause None []) f = Panic.
Proof.
  intro Hf. unfold g_filter. cbn [gc_FilterClause_filter]. unfold gc_OrClause_filter, gc_OrClause_Err.
  rewrite m_Err_nil, Hf. reflexivity.
Qed.

(* the three combinators with the generated dispatcher itself as the callee of their members *)
Lemma g_AndClause_filter_closed mt cs f :
  gc_AndClause_filter m_Err m_withErr (g_filter mt) (cerr (CAnd cs)) (map embed cs) f = clause_filter mt (CAnd cs) f.
Proof. exact (g_AndClause_filter_eq mt (g_filter mt) cs f (g_And_agrees mt cs)). Qed.

Lemma g_OrClause_filter_closed mt cs f :
  gc_OrClause_filter Nat.eqb m_Err ix m_withErr with_ix (filter_leaves mt) (g_filter mt) (cerr (COr cs)) (map embed cs) f
  = clause_filter mt (COr cs) f.
Proof. exact (g_OrClause_filter_eq mt (g_filter mt) cs f (g_And_agrees mt cs)). Qed.

Lemma g_NotClause_filter_closed mt c f :
  gc_NotClause_filter Nat.eqb m_Err ix m_withErr with_ix (filter_leaves mt) linv m_setInverse (g_filter mt) (embed c) f
  = clause_filter mt (CNot c) f.
Proof. exact (g_NotClause_filter_eq mt (g_filter mt) c f (fun g => g_filter_eq mt c g)). Qed.

(* C02's main theorem on the translated text: QFrame.Filter as generated from qframe.go / filter.go, applied to
   the Go value of the clause, returns exactly the rows the row-wise specification names *)
Definition g_clause_semantics_statement : Prop :=
  forall mt f c,
    c02_premises_b mt f c = true -> ix f <> [] ->
    match filter_spec mt f c with
    | VRows rows =>
        gc_QFrame_Filter Nat.eqb m_Err ix m_withErr with_ix (filter_leaves mt) linv m_setInverse f (embed c)
        = Ok (with_ix f rows)
        /\ rows = filter (fun p => sat_true (clause_sat mt f c p)) (ix f)
    | VError =>
        exists g, gc_QFrame_Filter Nat.eqb m_Err ix m_withErr with_ix (filter_leaves mt) linv m_setInverse f (embed c)
                  = Ok g /\ ferr g = true
    | VOpen | VFault => False
    end.

Theorem g_clause_semantics : g_clause_semantics_statement.
Proof.
  intros mt f c Hp Hne. rewrite g_QFrame_Filter_eq. exact (filter_meets_spec mt f c Hp Hne).
Qed.

(* ------------------------------------------------------------------ Err propagation with the identity of the error *)
(* for ANY error type, leaf type, frame type and column level (nothing instantiated) *)
Section ErrGeneric.
Context {A E L F : Type}.

Fixpoint g_err_of (c : @gc_FilterClause E L) : option E :=
  match c with
  | gc_mk_Filter _ => None
  | gc_mk_AndClause e _ => e
  | gc_mk_OrClause e _ => e
  | gc_mk_NotClause c' => g_err_of c'
  | gc_mk_NullClause => None
  end.

Fixpoint g_first_err (cs : list (@gc_FilterClause E L)) : option E :=
  match cs with
  | [] => None
  | c :: r => match g_err_of c with Some e => Some e | None => g_first_err r end
  end.

Lemma gc_Err_pure (c : @gc_FilterClause E L) : gc_FilterClause_Err c = Ok (g_err_of c).
Proof.
  induction c as [x|e s|e s|c IH|]; try reflexivity.
  cbn [gc_FilterClause_Err g_err_of]. unfold gc_NotClause_Err. rewrite IH. reflexivity.
Qed.

Lemma gc_anyFilterErr_pure (cs : list (@gc_FilterClause E L)) : gc_anyFilterErr cs = Ok (g_first_err cs).
Proof.
  unfold gc_anyFilterErr. induction cs as [|c cs IH]; [reflexivity|].
  cbn [gc_anyFilterErr_loop1 g_first_err]. rewrite gc_Err_pure. gsimp.
  destruct (g_err_of c); [reflexivity|exact IH].
Qed.

Lemma g_first_err_some (cs : list (@gc_FilterClause E L)) c e :
  In c cs -> g_err_of c = Some e -> exists e', g_first_err cs = Some e'.
Proof.
  induction cs as [|c0 cs IH]; intros Hin He; [destruct Hin|].
  cbn [g_first_err]. destruct (g_err_of c0) as [e0|] eqn:E0; [now exists e0|].
  destruct Hin as [->|Hin]; [congruence|]. exact (IH Hin He).
Qed.

(* And / Or store the Err of their first member that has one; without members, a new error *)
Lemma gc_And_pure (ne : bytes -> bytes -> E) (cs : list (@gc_FilterClause E L)) : cs <> [] ->
  gc_And ne cs = Ok (gc_mk_AndClause (g_first_err cs) cs).
Proof.
  intro H. unfold gc_And. rewrite gcp_len_zero. destruct cs; [congruence|]. rewrite gc_anyFilterErr_pure. reflexivity.
Qed.

Lemma gc_Or_pure (ne : bytes -> bytes -> E) (cs : list (@gc_FilterClause E L)) : cs <> [] ->
  gc_Or ne cs = Ok (gc_mk_OrClause (g_first_err cs) cs).
Proof.
  intro H. unfold gc_Or. rewrite gcp_len_zero. destruct cs; [congruence|]. rewrite gc_anyFilterErr_pure. reflexivity.
Qed.

Lemma gc_And_empty (ne : bytes -> bytes -> E) : exists e, @gc_And E L ne [] = Ok (gc_mk_AndClause (Some e) []).
Proof. eexists. reflexivity. Qed.

Lemma gc_Or_empty (ne : bytes -> bytes -> E) : exists e, @gc_Or E L ne [] = Ok (gc_mk_OrClause (Some e) []).
Proof. eexists. reflexivity. Qed.

(* filtering a frame without error with a clause that carries the error e answers qf.withErr(e): no member is
   evaluated and the column level is not called *)
Variable eqb : A -> A -> bool.
Variable qf_Err : F -> option E.
Variable qf_index : F -> list A.
Variable qf_withErr : F -> option E -> F.
Variable qf_withIndex : F -> list A -> F.
Variable qf_filter : F -> list L -> outcome F.
Variable l_Inverse : L -> bool.
Variable l_set_Inverse : L -> bool -> L.

Lemma gc_filter_carries_err (c : @gc_FilterClause E L) (e : E) (qf : F) :
  g_err_of c = Some e -> qf_Err qf = None ->
  gc_FilterClause_filter eqb qf_Err qf_index qf_withErr qf_withIndex qf_filter l_Inverse l_set_Inverse c qf
  = Ok (qf_withErr qf (Some e)).
Proof.
  intros He Hq. destruct c as [x|e0 s|e0 s|c|]; cbn [g_err_of] in He; try discriminate.
  - subst e0. cbn [gc_FilterClause_filter]. unfold gc_AndClause_filter, gc_AndClause_Err. rewrite Hq. reflexivity.
  - subst e0. cbn [gc_FilterClause_filter]. unfold gc_OrClause_filter, gc_OrClause_Err. rewrite Hq. reflexivity.
  - cbn [gc_FilterClause_filter]. unfold gc_NotClause_filter, gc_NotClause_Err. rewrite Hq.
    rewrite gc_Err_pure, He. reflexivity.
Qed.

(* a frame that already carries an error passes through And / Or / Not / Null unchanged *)
Lemma gc_filter_failed_frame (c : @gc_FilterClause E L) (e : E) (qf : F) :
  qf_Err qf = Some e -> (forall x, c <> gc_mk_Filter x) ->
  gc_FilterClause_filter eqb qf_Err qf_index qf_withErr qf_withIndex qf_filter l_Inverse l_set_Inverse c qf = Ok qf.
Proof.
  intros Hq Hc. destruct c as [x|e0 s|e0 s|c|]; cbn [gc_FilterClause_filter].
  - now destruct (Hc x).
  - unfold gc_AndClause_filter. rewrite Hq. reflexivity.
  - unfold gc_OrClause_filter. rewrite Hq. reflexivity.
  - unfold gc_NotClause_filter. rewrite Hq. reflexivity.
  - reflexivity.
Qed.
End ErrGeneric.
