(* Proofs/GenFuncsProofs.v — tie T1, semantic part: every definition of Gen/GenFuncs.v (produced by
   tools/qf2coq/funcs.go from the Go text of a small pure function) equals the hand-written model function
   for all inputs of the Go argument types.  After an edit of such a Go function the regenerated definition
   changes and the corresponding lemma below stops compiling.

   Conventions: the generated functions work on Z (a value of type uintN is a Z in [0, 2^N), of intN a Z in
   [-2^(N-1), 2^(N-1))), the models partly on N; [o2o f] turns the model's outcome into the option of the
   generated function (Ok x -> Some (f x); a panic of the model -> None; the models concerned never return
   Fail, see the *_no_fail lemmas). *)
From QF Require Import Base.Prelude Gen.GenConsts Gen.GenRyu Gen.GenFuncs.
From QF Require Model.Ryu Model.Bits Model.Grouper Model.Sort Model.Frame Model.Ops.
Local Open Scope Z_scope.

Definition o2o {A B : Type} (f : A -> B) (o : outcome A) : option B :=
  match o with Ok a => Some (f a) | Fail => None | Panic => None end.

Definition idZ (z : Z) : Z := z.

(* ------------------------------------------------------------------ N <-> Z *)

Lemma of_N_shiftr a n : Z.of_N (N.shiftr a n) = Z.shiftr (Z.of_N a) (Z.of_N n).
Proof.
  rewrite N.shiftr_div_pow2, N2Z.inj_div, N2Z.inj_pow, Z.shiftr_div_pow2 by lia. reflexivity.
Qed.

Lemma of_N_shiftl a n : Z.of_N (N.shiftl a n) = Z.shiftl (Z.of_N a) (Z.of_N n).
Proof.
  rewrite N.shiftl_mul_pow2, N2Z.inj_mul, N2Z.inj_pow, Z.shiftl_mul_pow2 by lia. reflexivity.
Qed.

Lemma of_N_lor a b : Z.of_N (N.lor a b) = Z.lor (Z.of_N a) (Z.of_N b).
Proof.
  apply Z.bits_inj'; intros n Hn.
  rewrite Z.lor_spec, !Z.testbit_of_N' by lia. apply N.lor_spec.
Qed.

Lemma of_N_land a b : Z.of_N (N.land a b) = Z.land (Z.of_N a) (Z.of_N b).
Proof.
  apply Z.bits_inj'; intros n Hn.
  rewrite Z.land_spec, !Z.testbit_of_N' by lia. apply N.land_spec.
Qed.

Lemma of_N_log2 a : Z.of_N (N.log2 a) = Z.log2 (Z.of_N a).
Proof. destruct a as [|[p|p|]]; reflexivity. Qed.

Lemma of_N_size a : Z.of_N (N.size a) = glen64 (Z.of_N a).
Proof.
  unfold glen64. destruct (N.eq_dec a 0) as [->|Hne]; [reflexivity|].
  destruct (Z.eqb_spec (Z.of_N a) 0) as [E|_]; [lia|].
  rewrite N.size_log2 by exact Hne. rewrite N2Z.inj_succ, of_N_log2. lia.
Qed.

Lemma of_N_ltb a b : (Z.of_N a <? Z.of_N b) = (a <? b)%N.
Proof. destruct (Z.ltb_spec (Z.of_N a) (Z.of_N b)), (N.ltb_spec a b); try reflexivity; lia. Qed.
Lemma of_N_leb a b : (Z.of_N a <=? Z.of_N b) = (a <=? b)%N.
Proof. destruct (Z.leb_spec (Z.of_N a) (Z.of_N b)), (N.leb_spec a b); try reflexivity; lia. Qed.
Lemma of_N_eqb a b : (Z.of_N a =? Z.of_N b) = (a =? b)%N.
Proof. destruct (Z.eqb_spec (Z.of_N a) (Z.of_N b)), (N.eqb_spec a b); try reflexivity; lia. Qed.

(* ------------------------------------------------------------------ internal/ryu *)

Lemma assert_eq (b : bool) : gf_ryu_assert b = o2o (fun u : unit => u) (Ryu.assert_ b).
Proof. destruct b; reflexivity. Qed.

Lemma u32_of_Z_eq e : Z.of_N (Ryu.u32_of_Z e) = gu32 e.
Proof. unfold Ryu.u32_of_Z, gu32. rewrite Z2N.id; [reflexivity|]. apply Z.mod_pos_bound. lia. Qed.

Lemma u64_of_Z_eq e : Z.of_N (Ryu.u64_of_Z e) = gu64 e.
Proof. unfold Ryu.u64_of_Z, gu64. rewrite Z2N.id; [reflexivity|]. apply Z.mod_pos_bound. lia. Qed.

Lemma u32_eq x : Z.of_N (Ryu.u32 x) = gu32 (Z.of_N x).
Proof. unfold Ryu.u32, gu32, Ryu.two32N. rewrite N2Z.inj_mod. reflexivity. Qed.

Lemma u64_eq x : Z.of_N (Ryu.u64 x) = gu64 (Z.of_N x).
Proof. unfold Ryu.u64, gu64, Ryu.two64N. rewrite N2Z.inj_mod. reflexivity. Qed.

Lemma i32_eq z : Ryu.i32 z = gs32 z.
Proof. reflexivity. Qed.

(* log10Pow2 / log10Pow5 / pow5Bits: no premise at all — both sides read e through uint32(e) *)
Lemma gf_ryu_log10Pow2_eq (e : Z) : gf_ryu_log10Pow2 e = o2o Z.of_N (Ryu.log10Pow2 e).
Proof.
  unfold gf_ryu_log10Pow2, Ryu.log10Pow2.
  change c_l10p2_min with 0%N; change c_l10p2_max with 1650%N;
    change c_l10p2_mul with 78913%N; change c_l10p2_shift with 18%N.
  rewrite !assert_eq, Z.geb_leb. change (Z.of_N 0) with 0. change (Z.of_N 1650) with 1650.
  destruct (0 <=? e); [|reflexivity]. destruct (e <=? 1650); [|reflexivity].
  cbn [Ryu.assert_ obind o2o gbind]. f_equal.
  rewrite of_N_shiftr, u32_eq, N2Z.inj_mul, u32_of_Z_eq. reflexivity.
Qed.

Lemma gf_ryu_log10Pow5_eq (e : Z) : gf_ryu_log10Pow5 e = o2o Z.of_N (Ryu.log10Pow5 e).
Proof.
  unfold gf_ryu_log10Pow5, Ryu.log10Pow5.
  change c_l10p5_min with 0%N; change c_l10p5_max with 2620%N;
    change c_l10p5_mul with 732923%N; change c_l10p5_shift with 20%N.
  rewrite !assert_eq, Z.geb_leb. change (Z.of_N 0) with 0. change (Z.of_N 2620) with 2620.
  destruct (0 <=? e); [|reflexivity]. destruct (e <=? 2620); [|reflexivity].
  cbn [Ryu.assert_ obind o2o gbind]. f_equal.
  rewrite of_N_shiftr, u32_eq, N2Z.inj_mul, u32_of_Z_eq. reflexivity.
Qed.

Lemma gf_ryu_pow5Bits_eq (e : Z) : gf_ryu_pow5Bits e = o2o idZ (Ryu.pow5Bits e).
Proof.
  unfold gf_ryu_pow5Bits, Ryu.pow5Bits.
  change c_p5b_min with 0%N; change c_p5b_max with 3528%N;
    change c_p5b_mul with 1217359%N; change c_p5b_shift with 19%N; change c_p5b_add with 1%N.
  rewrite !assert_eq, Z.geb_leb. change (Z.of_N 0) with 0. change (Z.of_N 3528) with 3528.
  destruct (0 <=? e); [|reflexivity]. destruct (e <=? 3528); [|reflexivity].
  cbn [Ryu.assert_ obind o2o gbind]. unfold idZ, Ryu.i32_of_N. f_equal.
  rewrite u32_eq, N2Z.inj_add, of_N_shiftr, u32_eq, N2Z.inj_mul, u32_of_Z_eq. reflexivity.
Qed.

Lemma gf_ryu_boolToUint64_eq (b : bool) : gf_ryu_boolToUint64 b = Z.of_N (Ryu.b2n b).
Proof. destruct b; reflexivity. Qed.
Lemma gf_ryu_boolToUint32_eq (b : bool) : gf_ryu_boolToUint32 b = Z.of_N (Ryu.b2n b).
Proof. destruct b; reflexivity. Qed.
Lemma gf_ryu_boolToInt_eq (b : bool) : gf_ryu_boolToInt b = Z.of_N (Ryu.b2n b).
Proof. destruct b; reflexivity. Qed.

(* pow5Factor64: the loop, fuel for fuel *)
Lemma pow5Factor64_loop_eq (fuel : nat) : forall v n : N,
  gf_ryu_pow5Factor64_loop1 fuel (Z.of_N v) (Z.of_N n) = o2o Z.of_N (Ryu.pow5Factor64_aux fuel v n).
Proof.
  induction fuel as [|f IH]; intros v n; [reflexivity|].
  cbn [gf_ryu_pow5Factor64_loop1 Ryu.pow5Factor64_aux].
  replace (Z.of_N v mod 5) with (Z.of_N (v mod 5)) by (rewrite N2Z.inj_mod; reflexivity).
  replace (Z.of_N v / 5) with (Z.of_N (v / 5)) by (rewrite N2Z.inj_div; reflexivity).
  change (Z.of_N (v mod 5) =? 0) with (Z.of_N (v mod 5) =? Z.of_N 0). rewrite of_N_eqb.
  destruct (v mod 5 =? 0)%N; cbn [negb]; [|reflexivity].
  replace (gu32 (Z.of_N n + 1)) with (Z.of_N (Ryu.u32 (n + 1))) by (rewrite u32_eq, N2Z.inj_add; reflexivity).
  apply IH.
Qed.

Lemma gf_ryu_pow5Factor64_eq (v : Z) : 0 <= v ->
  gf_ryu_pow5Factor64 v = o2o Z.of_N (Ryu.pow5Factor64 (Z.to_N v)).
Proof.
  intros Hv. unfold gf_ryu_pow5Factor64, Ryu.pow5Factor64.
  rewrite <- (Z2N.id v Hv) at 1. exact (pow5Factor64_loop_eq 64 (Z.to_N v) 0%N).
Qed.

Lemma gf_ryu_multipleOfPowerOfFive64_eq (v p : Z) : 0 <= v -> 0 <= p ->
  gf_ryu_multipleOfPowerOfFive64 v p = o2o (fun b : bool => b) (Ryu.multipleOfPowerOfFive64 (Z.to_N v) (Z.to_N p)).
Proof.
  intros Hv Hp. unfold gf_ryu_multipleOfPowerOfFive64, Ryu.multipleOfPowerOfFive64.
  rewrite gf_ryu_pow5Factor64_eq by exact Hv.
  destruct (Ryu.pow5Factor64 (Z.to_N v)) as [n| |]; cbn [o2o gbind obind]; try reflexivity.
  f_equal. rewrite Z.geb_leb. rewrite <- (Z2N.id p Hp) at 1. apply of_N_leb.
Qed.

(* bits.TrailingZeros64 *)
Lemma gtz_pos_eq p : gtz_pos p = Z.of_N (Ryu.ptz p).
Proof.
  induction p as [q IH|q IH|]; cbn [gtz_pos Ryu.ptz]; try reflexivity.
  rewrite IH, N2Z.inj_add. reflexivity.
Qed.

Lemma gtz64_eq (v : N) : gtz64 (Z.of_N v) = Z.of_N (Ryu.tz64 v).
Proof. destruct v as [|p]; [reflexivity|]. apply gtz_pos_eq. Qed.

Lemma gtz_pos_pow p : 0 <= gtz_pos p /\ 2 ^ gtz_pos p <= Z.pos p.
Proof.
  induction p as [q IH|q IH|]; cbn [gtz_pos]; try (split; [lia|change (2 ^ 0) with 1; lia]).
  destruct IH as [H0 H1]. split; [lia|].
  rewrite Z.pow_add_r by lia. change (2 ^ 1) with 2. lia.
Qed.

Lemma gtz64_range (v : Z) : 0 <= v < 18446744073709551616 -> 0 <= gtz64 v <= 64.
Proof.
  intros Hv. destruct v as [|p|p]; cbn [gtz64]; try lia.
  destruct (gtz_pos_pow p) as [H0 H1]. split; [exact H0|].
  destruct (Z.le_gt_cases (gtz_pos p) 64) as [H|H]; [exact H|exfalso].
  assert (H2 : 2 ^ 65 <= 2 ^ gtz_pos p) by (apply Z.pow_le_mono_r; lia).
  change (2 ^ 65) with 36893488147419103232 in H2. lia.
Qed.

Lemma gf_ryu_multipleOfPowerOfTwo64_eq (v p : Z) : 0 <= v < 18446744073709551616 -> 0 <= p ->
  gf_ryu_multipleOfPowerOfTwo64 v p = Ryu.multipleOfPowerOfTwo64 (Z.to_N v) (Z.to_N p).
Proof.
  intros Hv Hp. unfold gf_ryu_multipleOfPowerOfTwo64, Ryu.multipleOfPowerOfTwo64.
  pose proof (gtz64_range v Hv) as Hr.
  unfold gu32. rewrite Z.mod_small by lia. rewrite Z.geb_leb.
  rewrite <- (Z2N.id v) at 1 by lia. rewrite gtz64_eq.
  rewrite <- (Z2N.id p Hp) at 1. apply of_N_leb.
Qed.

(* shiftRight128 and mulShift64 *)
Lemma shl64_eq (x c : N) : Z.of_N (Ryu.shl64 x c) = gshl gu64 64 (Z.of_N x) (Z.of_N c).
Proof.
  unfold Ryu.shl64, gshl. change 64 with (Z.of_N 64) at 1. rewrite of_N_ltb.
  destruct (c <? 64)%N; [|reflexivity]. rewrite u64_eq, of_N_shiftl. reflexivity.
Qed.

Lemma shr64_eq (x c : N) : Z.of_N (Ryu.shr64 x c) = gshr 64 (Z.of_N x) (Z.of_N c).
Proof.
  unfold Ryu.shr64, gshr. change 64 with (Z.of_N 64) at 1. rewrite of_N_ltb.
  destruct (c <? 64)%N; [apply of_N_shiftr|].
  destruct (Z.ltb_spec (Z.of_N x) 0) as [H|H]; [lia|reflexivity].
Qed.

Lemma shiftRight128_eqN (lo hi : N) (shift : Z) :
  gf_ryu_shiftRight128 (Z.of_N lo, Z.of_N hi) shift = o2o Z.of_N (Ryu.shiftRight128 (lo, hi) shift).
Proof.
  unfold gf_ryu_shiftRight128, Ryu.shiftRight128. rewrite assert_eq.
  destruct (shift <? 64); [|reflexivity]. cbn [Ryu.assert_ obind o2o gbind]. f_equal.
  rewrite of_N_lor, shl64_eq, shr64_eq, !u64_of_Z_eq. reflexivity.
Qed.

Lemma gf_ryu_shiftRight128_eq (lo hi shift : Z) : 0 <= lo -> 0 <= hi ->
  gf_ryu_shiftRight128 (lo, hi) shift = o2o Z.of_N (Ryu.shiftRight128 (Z.to_N lo, Z.to_N hi) shift).
Proof.
  intros Hlo Hhi. rewrite <- (Z2N.id lo Hlo) at 1. rewrite <- (Z2N.id hi Hhi) at 1. apply shiftRight128_eqN.
Qed.

Lemma mulShift64_eqN (m lo hi : N) (shift : Z) :
  gf_ryu_mulShift64 (Z.of_N m) (Z.of_N lo, Z.of_N hi) shift = o2o Z.of_N (Ryu.mulShift64 m (lo, hi) shift).
Proof.
  unfold gf_ryu_mulShift64, Ryu.mulShift64, gmul64.
  cbv beta iota zeta.
  set (hihi := (m * hi / Ryu.two64N)%N). set (hilo := ((m * hi) mod Ryu.two64N)%N).
  set (lohi := (m * lo / Ryu.two64N)%N).
  replace (Z.of_N m * Z.of_N hi / 18446744073709551616) with (Z.of_N hihi)
    by (unfold hihi, Ryu.two64N; rewrite N2Z.inj_div, N2Z.inj_mul; reflexivity).
  replace ((Z.of_N m * Z.of_N hi) mod 18446744073709551616) with (Z.of_N hilo)
    by (unfold hilo, Ryu.two64N; rewrite N2Z.inj_mod, N2Z.inj_mul; reflexivity).
  replace (Z.of_N m * Z.of_N lo / 18446744073709551616) with (Z.of_N lohi)
    by (unfold lohi, Ryu.two64N; rewrite N2Z.inj_div, N2Z.inj_mul; reflexivity).
  replace (gu64 (Z.of_N lohi + Z.of_N hilo)) with (Z.of_N (Ryu.u64 (lohi + hilo)))
    by (rewrite u64_eq, N2Z.inj_add; reflexivity).
  rewrite of_N_ltb.
  replace (if (Ryu.u64 (lohi + hilo) <? lohi)%N then gu64 (Z.of_N hihi + 1) else Z.of_N hihi)
    with (Z.of_N (if (Ryu.u64 (lohi + hilo) <? lohi)%N then Ryu.u64 (hihi + 1) else hihi))
    by (destruct (Ryu.u64 (lohi + hilo) <? lohi)%N; [rewrite u64_eq, N2Z.inj_add|]; reflexivity).
  rewrite shiftRight128_eqN.
  change (gs32 (shift - 64)) with (Ryu.i32 (shift - 64)).
  destruct (Ryu.shiftRight128 _ _) as [r| |]; reflexivity.
Qed.

Lemma gf_ryu_mulShift64_eq (m lo hi shift : Z) : 0 <= m -> 0 <= lo -> 0 <= hi ->
  gf_ryu_mulShift64 m (lo, hi) shift = o2o Z.of_N (Ryu.mulShift64 (Z.to_N m) (Z.to_N lo, Z.to_N hi) shift).
Proof.
  intros Hm Hlo Hhi. rewrite <- (Z2N.id m Hm) at 1. rewrite <- (Z2N.id lo Hlo) at 1.
  rewrite <- (Z2N.id hi Hhi) at 1. apply mulShift64_eqN.
Qed.

(* decimalLen64 *)
Lemma gs64_small x : -9223372036854775808 <= x < 9223372036854775808 -> gs64 x = x.
Proof. intros H. unfold gs64. rewrite Z.mod_small by lia. lia. Qed.

Lemma glen64_range (u : Z) : 0 <= u < 18446744073709551616 -> 0 <= glen64 u <= 64.
Proof.
  intros Hu. unfold glen64. destruct (Z.eqb_spec u 0) as [E|E]; [lia|].
  assert (H0 : 0 <= Z.log2 u) by apply Z.log2_nonneg.
  assert (H1 : Z.log2 u < 64) by (apply Z.log2_lt_pow2; [lia|change (2 ^ 64) with 18446744073709551616; lia]).
  lia.
Qed.

Lemma powersOf10_table : gt_ryu_powersOf10 = map Z.of_N g_powersOf10.
Proof. reflexivity. Qed.

Lemma gidx_table_eq (l : list N) (n t : Z) : n = Z.of_nat (length l) ->
  gidx n (map Z.of_N l) t = o2o Z.of_N (Ryu.idxZ l t).
Proof.
  intros ->. unfold gidx, Ryu.idxZ, Ryu.idxN, idx.
  destruct (Z.ltb_spec t 0) as [Ht|Ht]; cbn [orb]; [reflexivity|].
  destruct (Z.leb_spec (Z.of_nat (length l)) t) as [H|H]; destruct (N.ltb_spec (Z.to_N t) (N.of_nat (length l))) as [H'|H'];
    try lia; [reflexivity|].
  rewrite Z_N_nat, nth_error_map. destruct (nth_error l (Z.to_nat t)); reflexivity.
Qed.

Lemma gf_ryu_decimalLen64_eq (u : Z) : 0 <= u < 18446744073709551616 ->
  gf_ryu_decimalLen64 u = o2o idZ (Ryu.decimalLen64 (Z.to_N u)).
Proof.
  intros Hu. unfold gf_ryu_decimalLen64, Ryu.decimalLen64.
  change Ryu.c_declen_mul with 1233. change Ryu.c_declen_shift with 12.
  rewrite of_N_size, Z2N.id by lia.
  pose proof (glen64_range u Hu) as Hl.
  cbv zeta.
  rewrite (gs64_small (64 - (64 - glen64 u))) by lia.
  rewrite (gs64_small (64 - (64 - glen64 u) - 1)) by lia.
  replace (64 - (64 - glen64 u) - 1) with (glen64 u - 1) by lia.
  rewrite (gs64_small (glen64 u - 1 + 1)) by lia.
  rewrite (gs64_small ((glen64 u - 1 + 1) * 1233)) by lia.
  set (t := Z.shiftr ((glen64 u - 1 + 1) * 1233) 12).
  assert (Ht : 0 <= t <= 19).
  { unfold t. rewrite Z.shiftr_div_pow2 by lia. change (2 ^ 12) with 4096.
    split; [apply Z.div_pos; lia|].
    assert ((glen64 u - 1 + 1) * 1233 / 4096 < 20) by (apply Z.div_lt_upper_bound; lia). lia. }
  rewrite powersOf10_table, (gidx_table_eq g_powersOf10 18 t) by reflexivity.
  destruct (Ryu.idxZ g_powersOf10 t) as [p| |]; cbn [o2o gbind obind]; try reflexivity.
  unfold idZ. f_equal.
  rewrite <- (Z2N.id u) at 1 by lia. rewrite of_N_ltb, gf_ryu_boolToInt_eq.
  assert (Hb : 0 <= Z.of_N (Ryu.b2n (Z.to_N u <? p)%N) <= 1) by (destruct (Z.to_N u <? p)%N; cbn; lia).
  rewrite (gs64_small (t - _)) by lia. rewrite gs64_small by lia. reflexivity.
Qed.

(* ------------------------------------------------------------------ internal/strings/pointer.go *)

Lemma gu64_small x : 0 <= x < 18446744073709551616 -> gu64 x = x.
Proof. intros H. unfold gu64. apply Z.mod_small. lia. Qed.

Lemma gu64_gs64 x : gu64 (gs64 x) = gu64 x.
Proof.
  unfold gu64, gs64.
  rewrite Zminus_mod, Zmod_mod, <- Zminus_mod.
  replace (x + 9223372036854775808 - 9223372036854775808) with x by lia. reflexivity.
Qed.

(* gu64 commutes with the bit operations: x mod 2^64 = land x (2^64 - 1) *)
Lemma gu64_land_ones x : gu64 x = Z.land x (Z.ones 64).
Proof. rewrite Z.land_ones by lia. reflexivity. Qed.

Lemma gu64_lor x y : gu64 (Z.lor x y) = Z.lor (gu64 x) (gu64 y).
Proof. rewrite !gu64_land_ones. apply Z.land_lor_distr_l. Qed.

Lemma gf_strings_NewPointer_eq (offset length : Z) (isNull : bool) :
  0 <= offset -> 0 <= length < 9223372036854775808 ->
  gf_strings_NewPointer offset length isNull = Z.of_N (Bits.new_pointer (Z.to_N offset) (Z.to_N length) isNull).
Proof.
  intros Ho Hl. unfold gf_strings_NewPointer, Bits.new_pointer.
  change c_ptr_new_shift with 28%N. change c_nullBit with 9223372036854775808%N.
  assert (E : gu64 (Z.lor (gs64 (Z.shiftl offset 28)) length)
              = Z.of_N (Bits.u64 (N.lor (N.shiftl (Z.to_N offset) 28) (Z.to_N length)))).
  { unfold Bits.u64. rewrite N2Z.inj_mod, of_N_lor, of_N_shiftl, !Z2N.id by lia.
    change (Z.of_N (2 ^ 64)) with 18446744073709551616. change (Z.of_N 28) with 28.
    fold (gu64 (Z.lor (Z.shiftl offset 28) length)).
    rewrite !gu64_lor, gu64_gs64. reflexivity. }
  cbv zeta. rewrite E. destruct isNull; [|reflexivity].
  rewrite of_N_lor. reflexivity.
Qed.

Lemma gf_strings_Pointer_Offset_eq (p : Z) : 0 <= p < 18446744073709551616 ->
  gf_strings_Pointer_Offset p = Z.of_N (Bits.ptr_offset (Z.to_N p)).
Proof.
  intros Hp. unfold gf_strings_Pointer_Offset, Bits.ptr_offset.
  change c_ptr_off_shift with 28%N. change c_ptr_off_mask with 34359738367%N.
  rewrite of_N_land, of_N_shiftr, Z2N.id by lia.
  change (Z.of_N 28) with 28. change (Z.of_N 34359738367) with 34359738367.
  rewrite gs64_small; [reflexivity|].
  rewrite Z.shiftr_div_pow2 by lia. change (2 ^ 28) with 268435456.
  split; [assert (0 <= p / 268435456) by (apply Z.div_pos; lia); lia|].
  apply Z.div_lt_upper_bound; lia.
Qed.

Lemma gf_strings_Pointer_Len_eq (p : Z) : 0 <= p < 18446744073709551616 ->
  gf_strings_Pointer_Len p = Z.of_N (Bits.ptr_len (Z.to_N p)).
Proof.
  intros Hp. unfold gf_strings_Pointer_Len, Bits.ptr_len.
  change c_ptr_len_mask with 268435455%N.
  rewrite of_N_land, Z2N.id by lia. change (Z.of_N 268435455) with 268435455.
  destruct (Z.lt_ge_cases p 9223372036854775808) as [H|H]; [rewrite gs64_small by lia; reflexivity|].
  assert (E : gs64 p = p + (-68719476736) * 2 ^ 28).
  { unfold gs64. change (2 ^ 28) with 268435456.
    replace ((p + 9223372036854775808) mod 18446744073709551616) with (p + 9223372036854775808 - 18446744073709551616); [lia|].
    apply Z.mod_unique with (q := 1); lia. }
  rewrite E. change 268435455 with (Z.ones 28). rewrite !Z.land_ones by lia.
  apply Z_mod_plus_full.
Qed.

Lemma gf_strings_Pointer_IsNull_eq (p : Z) : 0 <= p ->
  gf_strings_Pointer_IsNull p = Bits.ptr_isnull (Z.to_N p).
Proof.
  intros Hp. unfold gf_strings_Pointer_IsNull, Bits.ptr_isnull.
  change c_ptr_null_cmp with 0%N. change c_nullBit with 9223372036854775808%N.
  rewrite Z.gtb_ltb. rewrite <- (Z2N.id p Hp) at 1.
  change 9223372036854775808 with (Z.of_N 9223372036854775808). rewrite <- of_N_land.
  change 0 with (Z.of_N 0). apply of_N_ltb.
Qed.

(* ------------------------------------------------------------------ internal/ecolumn/bitset.go *)

Lemma gset_map (s : list N) (i : nat) (x : N) :
  gset (map Z.of_N s) i (Z.of_N x) = map Z.of_N (set_nth s i x).
Proof.
  revert i; induction s as [|a s IH]; intros [|i]; cbn [map gset set_nth]; try reflexivity.
  rewrite IH. reflexivity.
Qed.

Lemma gidx_map (s : list N) (n i : Z) : n = Z.of_nat (length s) -> 0 <= i < n ->
  gidx n (map Z.of_N s) i = Some (Z.of_N (nth (Z.to_nat i) s 0%N)).
Proof.
  intros -> Hi. unfold gidx.
  destruct (Z.ltb_spec i 0) as [H|_]; [lia|]. destruct (Z.leb_spec (Z.of_nat (length s)) i) as [H|_]; [lia|].
  cbn [orb]. rewrite nth_error_map.
  rewrite (nth_error_nth' s 0%N) by lia. reflexivity.
Qed.

Lemma gupd_map (s : list N) (n i : Z) (x : N) : n = Z.of_nat (length s) -> 0 <= i < n ->
  gupd n (map Z.of_N s) i (Z.of_N x) = Some (map Z.of_N (set_nth s (Z.to_nat i) x)).
Proof.
  intros -> Hi. unfold gupd. rewrite map_length.
  destruct (Z.ltb_spec i 0) as [H|_]; [lia|]. destruct (Z.leb_spec (Z.of_nat (length s)) i) as [H|_]; [lia|].
  cbn [orb]. rewrite gset_map. reflexivity.
Qed.

Lemma bit_of_val (v : Z) : 0 <= v ->
  gshl gu64 64 1 (Z.land v 63) = Z.of_N (Bits.u64 (N.shiftl 1 (N.land (Z.to_N v) 63))).
Proof.
  intros Hv. unfold gshl, Bits.u64.
  assert (Hb : 0 <= Z.land v 63 < 64).
  { change 63 with (Z.ones 6). rewrite Z.land_ones by lia. change (2 ^ 6) with 64. apply Z.mod_pos_bound. lia. }
  destruct (Z.ltb_spec (Z.land v 63) 64) as [_|H]; [|lia].
  rewrite N2Z.inj_mod, of_N_shiftl, of_N_land, Z2N.id by lia. reflexivity.
Qed.

Lemma word_of_val (v : Z) : 0 <= v < 256 ->
  0 <= Z.shiftr v 6 < 4 /\ Z.to_nat (Z.shiftr v 6) = N.to_nat (N.shiftr (Z.to_N v) 6).
Proof.
  intros Hv.
  assert (E : Z.shiftr v 6 = Z.of_N (N.shiftr (Z.to_N v) 6)) by (rewrite of_N_shiftr, Z2N.id by lia; reflexivity).
  split.
  - rewrite Z.shiftr_div_pow2 by lia. change (2 ^ 6) with 64.
    split; [apply Z.div_pos; lia|apply Z.div_lt_upper_bound; lia].
  - rewrite E. lia.
Qed.

Lemma gf_ecolumn_bitset_set_eq (s : list N) (v : Z) : length s = 4%nat -> 0 <= v < 256 ->
  gf_ecolumn_bitset_set (map Z.of_N s) v = Some (map Z.of_N (Bits.bitset_set s (Z.to_N v))).
Proof.
  intros Hs Hv. unfold gf_ecolumn_bitset_set, Bits.bitset_set.
  change c_bitset_set_shift with 6%N; change c_bitset_set_one with 1%N; change c_bitset_set_mask with 63%N.
  destruct (word_of_val v Hv) as [Hw Ew].
  rewrite (gidx_map s 4 (Z.shiftr v 6)) by (rewrite ?Hs; auto).
  cbn [gbind]. rewrite bit_of_val by lia. rewrite <- of_N_lor.
  rewrite (gupd_map s 4 (Z.shiftr v 6)) by (rewrite ?Hs; auto).
  cbn [gbind]. rewrite Ew. reflexivity.
Qed.

Lemma gf_ecolumn_bitset_isSet_eq (s : list N) (v : Z) : length s = 4%nat -> 0 <= v < 256 ->
  gf_ecolumn_bitset_isSet (map Z.of_N s) v = Some (Bits.bitset_isset s (Z.to_N v)).
Proof.
  intros Hs Hv. unfold gf_ecolumn_bitset_isSet, Bits.bitset_isset.
  change c_bitset_isset_shift with 6%N; change c_bitset_isset_one with 1%N;
    change c_bitset_isset_mask with 63%N; change c_bitset_isset_cmp with 0%N.
  destruct (word_of_val v Hv) as [Hw Ew].
  rewrite (gidx_map s 4 (Z.shiftr v 6)) by (rewrite ?Hs; auto).
  cbn [gbind]. rewrite bit_of_val by lia. rewrite <- of_N_land, Ew, Z.gtb_ltb.
  change 0 with (Z.of_N 0). rewrite of_N_ltb. reflexivity.
Qed.

(* internal/ecolumn/column.go: enumVal.isNull, enumVal.compVal (the model inlines them in Frame.enum_is_null and in
   the "compVal" case of Kernel.eval) *)
Lemma gf_ecolumn_enumVal_isNull_eq (v : Z) : 0 <= v ->
  gf_ecolumn_enumVal_isNull v = Frame.enum_is_null (Z.to_N v).
Proof.
  intros Hv. unfold gf_ecolumn_enumVal_isNull, Frame.enum_is_null. change c_nullValue with 255%N.
  rewrite <- (Z2N.id v Hv) at 1. change 255 with (Z.of_N 255). apply of_N_eqb.
Qed.

Lemma gf_ecolumn_enumVal_compVal_eq (v : Z) : 0 <= v < 256 ->
  gf_ecolumn_enumVal_compVal v
  = if Frame.enum_is_null (Z.to_N v) then - Z.of_N c_compval_null else Z.of_N (Z.to_N v).
Proof.
  intros Hv. unfold gf_ecolumn_enumVal_compVal. fold (gf_ecolumn_enumVal_isNull v).
  rewrite gf_ecolumn_enumVal_isNull_eq by lia.
  destruct (Frame.enum_is_null (Z.to_N v)); [reflexivity|].
  rewrite gs64_small by lia. rewrite Z2N.id by lia. reflexivity.
Qed.

(* ------------------------------------------------------------------ internal/math/integer, internal/grouper *)

Lemma gf_integer_Max_eq (x y : Z) : gf_integer_Max x y = Z.max x y.
Proof. unfold gf_integer_Max. rewrite Z.gtb_ltb. destruct (Z.ltb_spec y x); lia. Qed.

Lemma gf_integer_Min_eq (x y : Z) : gf_integer_Min x y = Z.min x y.
Proof. unfold gf_integer_Min. destruct (Z.ltb_spec x y); lia. Qed.

Lemma gf_grouper_calculateInitialSizeExp_eq (n : Z) : 0 <= n < 9223372036854775808 ->
  gf_grouper_calculateInitialSizeExp n = Z.of_N (Grouper.calculate_initial_size_exp (Z.to_N n)).
Proof.
  intros Hn. unfold gf_grouper_calculateInitialSizeExp, Grouper.calculate_initial_size_exp.
  change c_grouper_fit_div with 4%N; change c_grouper_min_exp with 3%N.
  cbv zeta. rewrite gf_integer_Max_eq, N2Z.inj_max, of_N_size, N2Z.inj_div, Z2N.id by lia.
  rewrite gu64_small by lia. reflexivity.
Qed.

(* ------------------------------------------------------------------ internal/sort: maxDepth *)

Lemma maxDepth_loop_eq (fuel : nat) : forall (i depth : nat),
  Z.of_nat depth + Z.of_nat i < 4611686018427387904 ->
  gf_sort_maxDepth_loop1 fuel (Z.of_nat depth) (Z.of_nat i) = o2o Z.of_nat (Sort.max_depth_loop fuel i depth)
  /\ (forall d, Sort.max_depth_loop fuel i depth = Ok d -> Z.of_nat d <= Z.of_nat depth + Z.of_nat i).
Proof.
  induction fuel as [|f IH]; intros i depth Hb; [split; [reflexivity|discriminate]|].
  cbn [gf_sort_maxDepth_loop1 Sort.max_depth_loop].
  change Sort.k_md_zero with 0%nat; change Sort.k_md_shift with 1%nat.
  rewrite Z.gtb_ltb. destruct (Z.ltb_spec 0 (Z.of_nat i)) as [Hi|Hi]; destruct (Nat.ltb_spec 0 i) as [Hi'|Hi']; try lia.
  - rewrite gs64_small by lia.
    replace (Z.of_nat depth + 1) with (Z.of_nat (S depth)) by lia.
    replace (Z.shiftr (Z.of_nat i) 1) with (Z.of_nat (i / 2 ^ 1)).
    2:{ rewrite Z.shiftr_div_pow2 by lia. change (2 ^ 1)%nat with 2%nat. change (2 ^ 1) with 2.
        rewrite Nat2Z.inj_div. reflexivity. }
    assert (Hd : Z.of_nat (i / 2 ^ 1) < Z.of_nat i).
    { change (2 ^ 1)%nat with 2%nat. rewrite Nat2Z.inj_div. change (Z.of_nat 2) with 2. apply Z.div_lt; lia. }
    destruct (IH (i / 2 ^ 1)%nat (S depth)) as [E B]; [lia|]. split; [exact E|].
    intros d Hd'. specialize (B d Hd'). lia.
  - split; [reflexivity|]. intros d Hd. injection Hd as <-. lia.
Qed.

Lemma gf_sort_maxDepth_eq (n : nat) : Z.of_nat n < 4611686018427387904 ->
  gf_sort_maxDepth (Z.of_nat n) = o2o Z.of_nat (Sort.max_depth n).
Proof.
  intros Hn. unfold gf_sort_maxDepth, Sort.max_depth. cbv zeta. rewrite Nat2Z.id.
  change 0 with (Z.of_nat 0) at 1.
  destruct (maxDepth_loop_eq (S n) n 0) as [E B]; [lia|]. rewrite E.
  destruct (Sort.max_depth_loop (S n) n 0) as [d| |]; cbn [o2o gbind obind]; try reflexivity.
  specialize (B d eq_refl). change Sort.k_md_mul with 2%nat.
  rewrite gs64_small by lia. f_equal. lia.
Qed.

(* ------------------------------------------------------------------ function/int.go, function/bool.go
   (no hand model: the meaning of the built-in scalar functions, stated against Prelude.wrap64) *)

Definition int_range (x : Z) : Prop := -9223372036854775808 <= x < 9223372036854775808.

Lemma gs64_wrap64 x : gs64 x = wrap64 x.
Proof. reflexivity. Qed.

Lemma gf_function_PlusI_eq x y : gf_function_PlusI x y = wrap64 (x + y).
Proof. reflexivity. Qed.
Lemma gf_function_MinusI_eq x y : gf_function_MinusI x y = wrap64 (x - y).
Proof. reflexivity. Qed.
Lemma gf_function_MulI_eq x y : gf_function_MulI x y = wrap64 (x * y).
Proof. reflexivity. Qed.

Lemma gf_function_PlusI_exact x y : int_range (x + y) -> gf_function_PlusI x y = x + y.
Proof. intros H. apply gs64_small. exact H. Qed.
Lemma gf_function_MinusI_exact x y : int_range (x - y) -> gf_function_MinusI x y = x - y.
Proof. intros H. apply gs64_small. exact H. Qed.
Lemma gf_function_MulI_exact x y : int_range (x * y) -> gf_function_MulI x y = x * y.
Proof. intros H. apply gs64_small. exact H. Qed.

Lemma gf_function_AbsI_eq x : int_range x -> gf_function_AbsI x = wrap64 (Z.abs x).
Proof.
  intros H. unfold gf_function_AbsI, int_range in *. destruct (Z.ltb_spec x 0) as [Hx|Hx].
  - rewrite Z.abs_neq by lia. reflexivity.
  - rewrite Z.abs_eq by lia. symmetry. apply gs64_small. lia.
Qed.

(* the one overflowing input: AbsI(math.MinInt64) = math.MinInt64 *)
Lemma gf_function_AbsI_spec x : int_range x ->
  (x <> -9223372036854775808 -> gf_function_AbsI x = Z.abs x)
  /\ (x = -9223372036854775808 -> gf_function_AbsI x = x).
Proof.
  intros H. unfold int_range in H. split.
  - intros Hne. unfold gf_function_AbsI. destruct (Z.ltb_spec x 0) as [Hx|Hx]; [|lia].
    rewrite gs64_small by lia. lia.
  - intros ->. reflexivity.
Qed.

Lemma gf_function_DivI_eq x y :
  gf_function_DivI x y = if y =? 0 then None else Some (wrap64 (Z.quot x y)).
Proof. unfold gf_function_DivI. destruct (y =? 0); reflexivity. Qed.

Lemma gf_function_BoolI_eq x : gf_function_BoolI x = negb (x =? 0).
Proof. reflexivity. Qed.
Lemma gf_function_IntB_eq b : gf_function_IntB b = Z.b2z b.
Proof. destruct b; reflexivity. Qed.
Lemma gf_function_NotB_eq b : gf_function_NotB b = negb b.
Proof. reflexivity. Qed.
Lemma gf_function_AndB_eq a b : gf_function_AndB a b = andb a b.
Proof. reflexivity. Qed.
Lemma gf_function_OrB_eq a b : gf_function_OrB a b = orb a b.
Proof. reflexivity. Qed.
Lemma gf_function_XorB_eq a b : gf_function_XorB a b = xorb a b.
Proof. destruct a, b; reflexivity. Qed.
Lemma gf_function_NandB_eq a b : gf_function_NandB a b = negb (andb a b).
Proof. reflexivity. Qed.

(* ------------------------------------------------------------------ the models concerned never return Fail *)

Lemma assert_no_fail b : Ryu.assert_ b <> Fail.
Proof. destruct b; discriminate. Qed.

(* ------------------------------------------------------------------ internal/ryu: float64ToDecimalExactInt *)

Lemma sub64_eq (a b : N) : (b <= a + Ryu.two64N)%N ->
  Z.of_N (Ryu.sub64 a b) = gu64 (Z.of_N a - Z.of_N b).
Proof.
  intros H. unfold Ryu.sub64. rewrite u64_eq, N2Z.inj_sub, N2Z.inj_add by exact H.
  unfold gu64. change (Z.of_N Ryu.two64N) with (1 * 18446744073709551616).
  replace (Z.of_N a + 1 * 18446744073709551616 - Z.of_N b) with (Z.of_N a - Z.of_N b + 1 * 18446744073709551616) by lia.
  apply Z_mod_plus_full.
Qed.

Lemma sub32_eq (a b : N) : (b <= a + Ryu.two32N)%N ->
  Z.of_N (Ryu.sub32 a b) = gu32 (Z.of_N a - Z.of_N b).
Proof.
  intros H. unfold Ryu.sub32. rewrite u32_eq, N2Z.inj_sub, N2Z.inj_add by exact H.
  unfold gu32. change (Z.of_N Ryu.two32N) with (1 * 4294967296).
  replace (Z.of_N a + 1 * 4294967296 - Z.of_N b) with (Z.of_N a - Z.of_N b + 1 * 4294967296) by lia.
  apply Z_mod_plus_full.
Qed.

Lemma u64_lt x : (Ryu.u64 x < Ryu.two64N)%N.
Proof. unfold Ryu.u64. apply N.mod_lt. discriminate. Qed.
Lemma u32_lt x : (Ryu.u32 x < Ryu.two32N)%N.
Proof. unfold Ryu.u32. apply N.mod_lt. discriminate. Qed.

Definition dec_of (d : N * Z) : Z * Z := (Z.of_N (fst d), snd d).

Lemma strip10_eq (fuel : nat) : forall (m : N) (e : Z),
  gf_ryu_float64ToDecimalExactInt_loop1 fuel (Z.of_N m) e = o2o dec_of (Ryu.strip10 fuel m e).
Proof.
  induction fuel as [|f IH]; intros m e; [reflexivity|].
  cbn [gf_ryu_float64ToDecimalExactInt_loop1 Ryu.strip10].
  replace (Z.of_N m mod 10) with (Z.of_N (m mod 10)) by (rewrite N2Z.inj_mod; reflexivity).
  replace (Z.of_N m / 10) with (Z.of_N (m / 10)) by (rewrite N2Z.inj_div; reflexivity).
  change 0 with (Z.of_N 0). rewrite of_N_eqb.
  destruct (m mod 10 =? 0)%N; [apply IH|reflexivity].
Qed.

Lemma strip10_no_fail (fuel : nat) : forall m e, Ryu.strip10 fuel m e <> Fail.
Proof.
  induction fuel as [|f IH]; intros m e; cbn [Ryu.strip10]; [discriminate|].
  destruct (m mod 10 =? 0)%N; [apply IH|discriminate].
Qed.

(* what the generated function returns for each answer of the model: the model drops the half-built d of the
   Go function when the answer is "not an exact integer" *)
Definition exact_int_rel (g : option ((Z * Z) * bool)) (o : outcome (option (N * Z))) : Prop :=
  match o with
  | Ok (Some d) => g = Some (dec_of d, true)
  | Ok None => exists d, g = Some (d, false)
  | Fail => False
  | Panic => g = None
  end.

Lemma gf_ryu_float64ToDecimalExactInt_eq (mant exp : N) :
  exact_int_rel (gf_ryu_float64ToDecimalExactInt (Z.of_N mant) (Z.of_N exp)) (Ryu.float64ToDecimalExactInt mant exp).
Proof.
  unfold gf_ryu_float64ToDecimalExactInt, Ryu.float64ToDecimalExactInt.
  change c_bias64 with 1023%N; change c_mantBits64 with 52%N.
  cbv zeta beta iota.
  set (e := Ryu.sub64 exp 1023).
  assert (Ee : gu64 (Z.of_N exp - 1023) = Z.of_N e).
  { unfold e. rewrite sub64_eq; [reflexivity|]. unfold Ryu.two64N. lia. }
  rewrite Ee, Z.gtb_ltb. change 52 with (Z.of_N 52) at 1. rewrite of_N_ltb.
  destruct (52 <? e)%N; [cbn; eexists; reflexivity|].
  set (shift := Ryu.sub64 52 e).
  assert (Es : gu64 (52 - Z.of_N e) = Z.of_N shift).
  { unfold shift. rewrite sub64_eq; [reflexivity|]. pose proof (u64_lt (exp + Ryu.two64N - 1023)) as H.
    unfold e, Ryu.sub64. lia. }
  rewrite Es.
  change (Ryu.shl64 1 52) with 4503599627370496%N.
  set (mant' := N.lor mant 4503599627370496).
  assert (Em : Z.lor (Z.of_N mant) 4503599627370496 = Z.of_N mant') by (unfold mant'; rewrite of_N_lor; reflexivity).
  rewrite Em, <- shr64_eq, <- shl64_eq, of_N_eqb.
  destruct (Ryu.shl64 (Ryu.shr64 mant' shift) shift =? mant')%N; cbn [negb]; [|cbn; eexists; reflexivity].
  rewrite strip10_eq.
  pose proof (strip10_no_fail 20 (Ryu.shr64 mant' shift) 0) as NF.
  destruct (Ryu.strip10 20 (Ryu.shr64 mant' shift) 0) as [[m2 e2]| |]; cbn; try reflexivity.
  apply NF; reflexivity.
Qed.

(* ------------------------------------------------------------------ internal/ryu: float64ToDecimal
   The whole digit generation (steps 2-4 of Ryu, ~200 lines of Go with four loops) as translated equals the
   hand-written model Ryu.float64ToDecimal for ALL mant, exp (no range premise). *)
Ltac zn c := let n := eval compute in (Z.to_N c) in change c with (Z.of_N n).

Definition gt1 (s : Ryu.gstate) : Z * Z * Z * bool * bool * Z * Z :=
  (Z.of_N (Ryu.g_vr s), Z.of_N (Ryu.g_vp s), Z.of_N (Ryu.g_vm s), Ryu.g_vmTZ s, Ryu.g_vrTZ s, Ryu.g_removed s,
   Z.of_N (Ryu.g_last s)).
Definition gt2 (s : Ryu.gstate) : Z * Z * Z * bool * Z * Z :=
  (Z.of_N (Ryu.g_vr s), Z.of_N (Ryu.g_vp s), Z.of_N (Ryu.g_vm s), Ryu.g_vrTZ s, Ryu.g_removed s,
   Z.of_N (Ryu.g_last s)).
Definition ct (s : Ryu.cstate) : Z * Z * Z * Z * bool :=
  (Z.of_N (Ryu.c_vr s), Z.of_N (Ryu.c_vp s), Z.of_N (Ryu.c_vm s), Ryu.c_removed s, Ryu.c_roundUp s).

Lemma u8_eq x : Z.of_N (Ryu.u8 x) = gu8 (Z.of_N x).
Proof. unfold Ryu.u8, gu8. rewrite N2Z.inj_mod. reflexivity. Qed.

Ltac pullN := rewrite <- ?N2Z.inj_div, <- ?N2Z.inj_mod, <- ?N2Z.inj_add, <- ?N2Z.inj_mul, <- ?u8_eq, <- ?u64_eq, <- ?u32_eq,
                ?of_N_eqb, ?of_N_leb, ?of_N_ltb, ?Z.gtb_ltb, ?Z.geb_leb, ?of_N_eqb, ?of_N_leb, ?of_N_ltb.

Lemma loop1_eq (fuel : nat) : forall s : Ryu.gstate,
  gf_ryu_float64ToDecimal_loop1 fuel (Z.of_N (Ryu.g_vr s)) (Z.of_N (Ryu.g_vp s)) (Z.of_N (Ryu.g_vm s))
    (Ryu.g_vmTZ s) (Ryu.g_vrTZ s) (Ryu.g_removed s) (Z.of_N (Ryu.g_last s))
  = o2o gt1 (Ryu.gen_loop1 fuel s).
Proof.
  induction fuel as [|f IH]; intros s; [reflexivity|].
  cbn [gf_ryu_float64ToDecimal_loop1 Ryu.gen_loop1]. cbv zeta.
  zn 10; zn 0. pullN.
  destruct (Ryu.g_vp s / 10 <=? Ryu.g_vm s / 10)%N; [reflexivity|].
  rewrite <- IH. reflexivity.
Qed.

Lemma loop2_eq (fuel : nat) : forall s : Ryu.gstate,
  gf_ryu_float64ToDecimal_loop2 fuel (Z.of_N (Ryu.g_vr s)) (Z.of_N (Ryu.g_vp s)) (Z.of_N (Ryu.g_vm s))
    (Ryu.g_vrTZ s) (Ryu.g_removed s) (Z.of_N (Ryu.g_last s))
  = o2o gt2 (Ryu.gen_loop2 fuel s)
  /\ (forall s', Ryu.gen_loop2 fuel s = Ok s' -> Ryu.g_vmTZ s' = Ryu.g_vmTZ s).
Proof.
  induction fuel as [|f IH]; intros s; [split; [reflexivity|discriminate]|].
  cbn [gf_ryu_float64ToDecimal_loop2 Ryu.gen_loop2]. cbv zeta.
  zn 10; zn 0. pullN.
  destruct (Ryu.g_vm s mod 10 =? 0)%N; cbn [negb]; [|split; [reflexivity|intros s' E; injection E as <-; reflexivity]].
  match goal with |- context [Ryu.gen_loop2 f ?st] => destruct (IH st) as [E1 E2] end.
  split; [rewrite <- E1; reflexivity|exact E2].
Qed.

Lemma loop3_eq (fuel : nat) : forall s : Ryu.cstate,
  gf_ryu_float64ToDecimal_loop3 fuel (Z.of_N (Ryu.c_vr s)) (Z.of_N (Ryu.c_vp s)) (Z.of_N (Ryu.c_vm s))
    (Ryu.c_removed s) (Ryu.c_roundUp s)
  = o2o ct (Ryu.com_loop100 fuel s).
Proof.
  induction fuel as [|f IH]; intros s; [reflexivity|].
  cbn [gf_ryu_float64ToDecimal_loop3 Ryu.com_loop100]. cbv zeta.
  zn 100; zn 50. pullN.
  destruct (Ryu.c_vm s / 100 <? Ryu.c_vp s / 100)%N; [|reflexivity].
  rewrite <- IH. reflexivity.
Qed.

Lemma loop4_eq (fuel : nat) : forall s : Ryu.cstate,
  gf_ryu_float64ToDecimal_loop4 fuel (Z.of_N (Ryu.c_vr s)) (Z.of_N (Ryu.c_vp s)) (Z.of_N (Ryu.c_vm s))
    (Ryu.c_removed s) (Ryu.c_roundUp s)
  = o2o ct (Ryu.com_loop10 fuel s).
Proof.
  induction fuel as [|f IH]; intros s; [reflexivity|].
  cbn [gf_ryu_float64ToDecimal_loop4 Ryu.com_loop10]. cbv zeta.
  zn 10; zn 5. pullN.
  destruct (Ryu.c_vm s / 10 <? Ryu.c_vp s / 10)%N; [|reflexivity].
  rewrite <- IH. reflexivity.
Qed.

Definition tup3 (r : Ryu.step3 * bool) : Z * Z * Z * Z * bool * bool :=
  let st := fst r in
  (Z.of_N (Ryu.s_vr st), Z.of_N (Ryu.s_vp st), Z.of_N (Ryu.s_vm st), Ryu.s_e10 st, Ryu.s_vmTZ st, Ryu.s_vrTZ st).

Lemma gs32_add_l a b : gs32 (gs32 a + b) = gs32 (a + b).
Proof.
  unfold gs32. f_equal.
  replace ((a + 2147483648) mod 4294967296 - 2147483648 + b + 2147483648) with ((a + 2147483648) mod 4294967296 + b) by lia.
  rewrite Zplus_mod_idemp_l. f_equal. lia.
Qed.
Lemma gs32_sub_l a b : gs32 (gs32 a - b) = gs32 (a - b).
Proof. exact (gs32_add_l a (- b)). Qed.

Definition pairZ (p : N * N) : Z * Z := (Z.of_N (fst p), Z.of_N (snd p)).
Lemma pow5InvSplit64_table : gt_ryu_pow5InvSplit64 = map pairZ g_pow5InvSplit64.
Proof. reflexivity. Qed.
Lemma pow5Split64_table : gt_ryu_pow5Split64 = map pairZ g_pow5Split64.
Proof. reflexivity. Qed.

Lemma gidx_mapN {A B} (f : A -> B) (l : list A) (n : Z) (q : N) : n = Z.of_nat (length l) ->
  gidx n (map f l) (Z.of_N q) = o2o f (Ryu.idxN l q).
Proof.
  intros ->. unfold gidx, Ryu.idxN, idx.
  destruct (Z.ltb_spec (Z.of_N q) 0) as [Ht|Ht]; [lia|]. cbn [orb].
  destruct (Z.leb_spec (Z.of_nat (length l)) (Z.of_N q)) as [H|H]; destruct (N.ltb_spec q (N.of_nat (length l))) as [H'|H'];
    try lia; [reflexivity|].
  replace (Z.to_nat (Z.of_N q)) with (N.to_nat q) by lia. rewrite nth_error_map. destruct (nth_error l (N.to_nat q)); reflexivity.
Qed.

Lemma gidx_mapZ {A B} (f : A -> B) (l : list A) (n i : Z) : n = Z.of_nat (length l) ->
  gidx n (map f l) i = o2o f (Ryu.idxZ l i).
Proof.
  intros Hn. unfold Ryu.idxZ. destruct (Z.ltb_spec i 0) as [Hi|Hi].
  - unfold gidx. destruct (Z.ltb_spec i 0); [reflexivity|lia].
  - rewrite <- (Z2N.id i Hi) at 1. apply gidx_mapN. exact Hn.
Qed.

Lemma mpo5_eqN (v p : N) :
  gf_ryu_multipleOfPowerOfFive64 (Z.of_N v) (Z.of_N p) = o2o (fun b : bool => b) (Ryu.multipleOfPowerOfFive64 v p).
Proof. rewrite gf_ryu_multipleOfPowerOfFive64_eq by lia. rewrite !N2Z.id. reflexivity. Qed.

Lemma mpo2_eqN (v p : N) : (v < Ryu.two64N)%N ->
  gf_ryu_multipleOfPowerOfTwo64 (Z.of_N v) (Z.of_N p) = Ryu.multipleOfPowerOfTwo64 v p.
Proof. intros H. rewrite gf_ryu_multipleOfPowerOfTwo64_eq; [rewrite !N2Z.id; reflexivity| |lia]. unfold Ryu.two64N in H. lia. Qed.

Lemma b2n_le1 b : (Ryu.b2n b <= 1)%N.
Proof. destruct b; cbn; lia. Qed.

Lemma gf_ryu_float64ToDecimal_eq (mant exp : N) : gf_ryu_float64ToDecimal (Z.of_N mant) (Z.of_N exp) = o2o dec_of (Ryu.float64ToDecimal mant exp).
Proof.
  unfold gf_ryu_float64ToDecimal, Ryu.float64ToDecimal, Ryu.f2d_step3.
  change c_bias64 with 1023%N; change c_mantBits64 with 52%N.
  change (Ryu.shl64 1 52) with 4503599627370496%N.
  change (gu64 (Z.shiftl 1 52)) with 4503599627370496.
  match goal with
  | |- (match ?X with pair a b => @?F a b end) = o2o _ (obind (match ?Y with pair c d => @?G c d end) ?H) =>
      assert (CORE : forall (e2 : Z) (m2 : N), F e2 (Z.of_N m2) = o2o dec_of (obind (G e2 m2) H))
  end.
  2:{ zn 0. rewrite of_N_eqb. destruct (exp =? 0)%N.
      - exact (CORE (-1076) mant).
      - zn 4503599627370496. rewrite <- of_N_lor.
        replace (gs32 (gs32 (gs32 (gs32 (Z.of_N exp) - 1023) - 52) - 2)) with (Ryu.i32 (Ryu.i32_of_N exp - Z.of_N 1023 - Z.of_N 52 - 2)).
        + exact (CORE _ (N.lor 4503599627370496 mant)).
        + change (Ryu.i32 (Ryu.i32_of_N exp - Z.of_N 1023 - Z.of_N 52 - 2)) with (gs32 (gs32 (Z.of_N exp) - 1023 - 52 - 2)).
          rewrite !gs32_sub_l.
          replace (gs32 (Z.of_N exp) - 1023 - 52 - 2) with (gs32 (Z.of_N exp) - 1077) by lia.
          replace (gs32 (Z.of_N exp - 1023) - 52 - 2) with (gs32 (Z.of_N exp - 1023) - 54) by lia.
          rewrite !gs32_sub_l. f_equal. lia. }

  intros e2 m2. cbv beta zeta.
  change Ryu.c_e2_pos_cut with 3; change Ryu.c_e2_neg_cut with 1; change Ryu.c_q_pos_small with 21%N;
    change Ryu.c_q_neg_small with 1%N; change Ryu.c_q_neg_max with 63%N;
    change c_pow5InvNumBits64 with 122%N; change c_pow5NumBits64 with 121%N.
  set (mv := Ryu.u64 (4 * m2)).
  set (mmShift := Ryu.b2n (negb (mant =? 0)%N || (exp <=? 1)%N)).
  set (mp := Ryu.u64 (mv + 2)).
  set (mm := Ryu.sub64 (Ryu.sub64 mv 1) mmShift).
  assert (E_mv : gu64 (4 * Z.of_N m2) = Z.of_N mv) by (unfold mv; rewrite u64_eq, N2Z.inj_mul; reflexivity).
  assert (E_ms : gf_ryu_boolToUint64 (negb (Z.of_N mant =? 0) || (Z.of_N exp <=? 1)) = Z.of_N mmShift).
  { rewrite gf_ryu_boolToUint64_eq. zn 0; zn 1. rewrite of_N_eqb, of_N_leb. reflexivity. }
  rewrite !E_mv, !E_ms.
  assert (E_mp : gu64 (Z.of_N mv + 2) = Z.of_N mp) by (unfold mp; rewrite u64_eq, N2Z.inj_add; reflexivity).
  assert (E_mm : gu64 (gu64 (Z.of_N mv - 1) - Z.of_N mmShift) = Z.of_N mm).
  { unfold mm. pose proof (b2n_le1 (negb (mant =? 0)%N || (exp <=? 1)%N)) as Hb. fold mmShift in Hb.
    rewrite !sub64_eq by (unfold Ryu.two64N; lia). reflexivity. }
  rewrite !E_mp, !E_mm.
  change gs32 with Ryu.i32. change (Z.of_N 122) with 122. change (Z.of_N 121) with 121.
  match goal with |- gbind ?X ?K = o2o _ (obind ?M _) =>
    assert (HAB : forall r, M = Ok r -> snd r = (N.land m2 1 =? 0)%N);
    [|assert (HX : X = o2o tup3 M)] end.
  { intros r.
    repeat match goal with
    | |- context [obind ?x _] => destruct x; cbn [obind]
    | |- context [if ?b then _ else _] => destruct b
    end; intros E; try discriminate; injection E as <-; reflexivity. }
  { rewrite Z.geb_leb. destruct (0 <=? e2).
    - rewrite gf_ryu_log10Pow2_eq. destruct (Ryu.log10Pow2 e2) as [l| |]; cbn [o2o gbind obind]; try reflexivity.
      set (q := Ryu.sub32 l (Ryu.b2n (3 <? e2))).
      assert (Eq : gu32 (Z.of_N l - gf_ryu_boolToUint32 (e2 >? 3)) = Z.of_N q).
      { unfold q. rewrite gf_ryu_boolToUint32_eq, Z.gtb_ltb. pose proof (b2n_le1 (3 <? e2)). rewrite sub32_eq by (unfold Ryu.two32N; lia). reflexivity. }
      rewrite !Eq.
      change (Ryu.i32 (Z.of_N q)) with (Ryu.i32_of_N q).
      rewrite gf_ryu_pow5Bits_eq. destruct (Ryu.pow5Bits (Ryu.i32_of_N q)) as [pb| |]; cbn [o2o gbind obind]; try reflexivity.
      unfold idZ.
      rewrite pow5InvSplit64_table, (gidx_mapN pairZ g_pow5InvSplit64 292 q) by reflexivity.
      destruct (Ryu.idxN g_pow5InvSplit64 q) as [[lo hi]| |]; cbn [o2o gbind obind pairZ fst snd]; try reflexivity.
      rewrite !mulShift64_eqN.
      match goal with |- context [Ryu.mulShift64 mv (lo, hi) ?sh] => set (shift := sh) end.
      destruct (Ryu.mulShift64 mv (lo, hi) shift) as [vr| |]; cbn [o2o gbind obind]; try reflexivity.
      destruct (Ryu.mulShift64 mp (lo, hi) shift) as [vp| |]; cbn [o2o gbind obind]; try reflexivity.
      destruct (Ryu.mulShift64 mm (lo, hi) shift) as [vm| |]; cbn [o2o gbind obind]; try reflexivity.
      zn 21. rewrite of_N_leb. destruct (q <=? 21)%N; [|reflexivity].
      zn 5; zn 0; zn 1. rewrite <- N2Z.inj_mod, <- of_N_land, !of_N_eqb.
      destruct (mv mod 5 =? 0)%N.
      + rewrite mpo5_eqN. destruct (Ryu.multipleOfPowerOfFive64 mv q) as [t| |]; reflexivity.
      + destruct (N.land m2 1 =? 0)%N.
        * rewrite mpo5_eqN. destruct (Ryu.multipleOfPowerOfFive64 mm q) as [t| |]; reflexivity.
        * rewrite mpo5_eqN. destruct (Ryu.multipleOfPowerOfFive64 mp q) as [[|]| |]; try reflexivity.
          cbn [o2o gbind obind tup3 fst snd Ryu.s_vr Ryu.s_vp Ryu.s_vm Ryu.s_e10 Ryu.s_vmTZ Ryu.s_vrTZ].
          unfold tup3; cbn [fst snd Ryu.s_vr Ryu.s_vp Ryu.s_vm Ryu.s_e10 Ryu.s_vmTZ Ryu.s_vrTZ]. rewrite sub64_eq by (unfold Ryu.two64N; lia). reflexivity.
    - set (ne2 := Ryu.i32 (- e2)).
      rewrite gf_ryu_log10Pow5_eq. destruct (Ryu.log10Pow5 ne2) as [l| |]; cbn [o2o gbind obind]; try reflexivity.
      set (q := Ryu.sub32 l (Ryu.b2n (1 <? ne2))).
      assert (Eq : gu32 (Z.of_N l - gf_ryu_boolToUint32 (ne2 >? 1)) = Z.of_N q).
      { unfold q. rewrite gf_ryu_boolToUint32_eq, Z.gtb_ltb. pose proof (b2n_le1 (1 <? ne2)). rewrite sub32_eq by (unfold Ryu.two32N; lia). reflexivity. }
      rewrite !Eq.
      change (Ryu.i32 (Z.of_N q)) with (Ryu.i32_of_N q).
      set (i := Ryu.i32 (ne2 - Ryu.i32_of_N q)).
      rewrite gf_ryu_pow5Bits_eq. destruct (Ryu.pow5Bits i) as [pb| |]; cbn [o2o gbind obind]; try reflexivity.
      unfold idZ.
      rewrite pow5Split64_table, (gidx_mapZ pairZ g_pow5Split64 326 i) by reflexivity.
      destruct (Ryu.idxZ g_pow5Split64 i) as [[lo hi]| |]; cbn [o2o gbind obind pairZ fst snd]; try reflexivity.
      rewrite !mulShift64_eqN.
      match goal with |- context [Ryu.mulShift64 mv (lo, hi) ?sh] => set (shift := sh) end.
      destruct (Ryu.mulShift64 mv (lo, hi) shift) as [vr| |]; cbn [o2o gbind obind]; try reflexivity.
      destruct (Ryu.mulShift64 mp (lo, hi) shift) as [vp| |]; cbn [o2o gbind obind]; try reflexivity.
      destruct (Ryu.mulShift64 mm (lo, hi) shift) as [vm| |]; cbn [o2o gbind obind]; try reflexivity.
      zn 1; zn 0; zn 63. rewrite <- of_N_land, !of_N_eqb, of_N_leb, of_N_ltb.
      unfold tup3.
      destruct (q <=? 1)%N.
      + destruct (N.land m2 1 =? 0)%N; cbn [o2o fst snd Ryu.s_vr Ryu.s_vp Ryu.s_vm Ryu.s_e10 Ryu.s_vmTZ Ryu.s_vrTZ]; [reflexivity|].
        rewrite sub64_eq by (unfold Ryu.two64N; lia). reflexivity.
      + destruct (q <? 63)%N; cbn [o2o fst snd Ryu.s_vr Ryu.s_vp Ryu.s_vm Ryu.s_e10 Ryu.s_vmTZ Ryu.s_vrTZ]; [|reflexivity].
        rewrite <- sub32_eq by (unfold Ryu.two32N; lia). rewrite mpo2_eqN by apply u64_lt. reflexivity. }
  rewrite HX. clear HX.
  match goal with |- context [o2o tup3 ?M] => destruct M as [[st ab]| |] eqn:EM end; cbn [o2o gbind obind]; try reflexivity.
  specialize (HAB _ eq_refl). cbn [snd] in HAB. subst ab. clear EM.
  destruct st as [vr vp vm e10 vmTZ vrTZ]. unfold tup3. cbn [fst snd Ryu.s_vr Ryu.s_vp Ryu.s_vm Ryu.s_e10 Ryu.s_vmTZ Ryu.s_vrTZ].
  unfold Ryu.f2d_step4. cbn [Ryu.s_vr Ryu.s_vp Ryu.s_vm Ryu.s_e10 Ryu.s_vmTZ Ryu.s_vrTZ].
  change Ryu.loop_fuel with 24%nat.
  destruct (vmTZ || vrTZ).
  - match goal with |- context [Ryu.gen_loop1 24 ?s] => set (s0 := s) end.
    change (gf_ryu_float64ToDecimal_loop1 24 (Z.of_N vr) (Z.of_N vp) (Z.of_N vm) vmTZ vrTZ 0 0)
      with (gf_ryu_float64ToDecimal_loop1 24 (Z.of_N (Ryu.g_vr s0)) (Z.of_N (Ryu.g_vp s0)) (Z.of_N (Ryu.g_vm s0))
              (Ryu.g_vmTZ s0) (Ryu.g_vrTZ s0) (Ryu.g_removed s0) (Z.of_N (Ryu.g_last s0))).
    rewrite loop1_eq. destruct (Ryu.gen_loop1 24 s0) as [s1| |]; cbn [o2o gbind obind]; try reflexivity.
    unfold gt1. cbv beta iota.
    match goal with |- gbind (gbind ?X _) _ = o2o _ (obind ?M _) =>
      assert (H2 : X = o2o gt2 M /\ forall s2, M = Ok s2 -> Ryu.g_vmTZ s2 = Ryu.g_vmTZ s1) end.
    { destruct (Ryu.g_vmTZ s1) eqn:E1.
      - destruct (loop2_eq 24 s1) as [L2 L2tz]. rewrite L2. split; [|intros s2 E; rewrite (L2tz s2 E); exact E1].
        destruct (Ryu.gen_loop2 24 s1) as [s2| |]; reflexivity.
      - split; [reflexivity|]. intros s2 E; injection E as <-; exact E1. }
    destruct H2 as [H2 H2tz]. rewrite H2. clear H2.
    match goal with |- context [o2o gt2 ?M] => destruct M as [s2| |] end; cbn [o2o gbind obind]; try reflexivity.
    rewrite <- (H2tz s2 eq_refl). unfold gt2, dec_of. cbn [gbind fst snd]. f_equal. f_equal.
    zn 5; zn 2; zn 0; zn 4; zn 1. rewrite <- N2Z.inj_mod, <- of_N_land, !of_N_eqb.
    destruct (Ryu.g_vrTZ s2 && (Ryu.g_last s2 =? 5)%N && (Ryu.g_vr s2 mod 2 =? 0)%N);
      rewrite Z.geb_leb, of_N_leb;
      match goal with |- (if ?c then _ else _) = Z.of_N (if ?c then _ else _) => destruct c end;
      try reflexivity; rewrite u64_eq, N2Z.inj_add; reflexivity.
  - match goal with |- context [Ryu.com_loop100 24 ?s] => set (s0 := s) end.
    change (gf_ryu_float64ToDecimal_loop3 24 (Z.of_N vr) (Z.of_N vp) (Z.of_N vm) 0 false)
      with (gf_ryu_float64ToDecimal_loop3 24 (Z.of_N (Ryu.c_vr s0)) (Z.of_N (Ryu.c_vp s0)) (Z.of_N (Ryu.c_vm s0))
              (Ryu.c_removed s0) (Ryu.c_roundUp s0)).
    rewrite loop3_eq. destruct (Ryu.com_loop100 24 s0) as [s1| |]; cbn [o2o gbind obind]; try reflexivity.
    unfold ct at 1. cbv beta iota.
    rewrite loop4_eq. destruct (Ryu.com_loop10 24 s1) as [s2| |]; cbn [o2o gbind obind]; try reflexivity.
    unfold ct, dec_of. cbn [gbind fst snd]. f_equal. f_equal.
    rewrite gf_ryu_boolToUint64_eq, of_N_eqb, u64_eq, N2Z.inj_add. reflexivity.
Qed.


(* ------------------------------------------------------------------ none of the models concerned returns Fail
   ([o2o] sends both Fail and Panic to None; with these lemmas None on the right means Panic) *)

Lemma obind_no_fail {A B} (x : outcome A) (f : A -> outcome B) :
  x <> Fail -> (forall a, f a <> Fail) -> obind x f <> Fail.
Proof. intros Hx Hf. destruct x as [a| |]; cbn [obind]; [apply Hf|exfalso; apply Hx; reflexivity|discriminate]. Qed.

Lemma of_option_no_fail {A} (o : option A) : of_option o <> Fail.
Proof. destruct o; discriminate. Qed.
Lemma idxN_no_fail {A} (l : list A) i : Ryu.idxN l i <> Fail.
Proof. unfold Ryu.idxN, idx. destruct (i <? N.of_nat (length l))%N; [apply of_option_no_fail|discriminate]. Qed.
Lemma idxZ_no_fail {A} (l : list A) i : Ryu.idxZ l i <> Fail.
Proof. unfold Ryu.idxZ. destruct (i <? 0); [discriminate|apply idxN_no_fail]. Qed.

Ltac nofail :=
  repeat first
    [ discriminate
    | assumption
    | apply assert_no_fail | apply idxN_no_fail | apply idxZ_no_fail
    | apply obind_no_fail; [|intros ?]
    | match goal with |- (if ?b then _ else _) <> Fail => destruct b end
    | match goal with |- (let '(_, _) := ?p in _) <> Fail => destruct p end ].

Lemma log10Pow2_no_fail e : Ryu.log10Pow2 e <> Fail.
Proof. unfold Ryu.log10Pow2. nofail. Qed.
Lemma log10Pow5_no_fail e : Ryu.log10Pow5 e <> Fail.
Proof. unfold Ryu.log10Pow5. nofail. Qed.
Lemma pow5Bits_no_fail e : Ryu.pow5Bits e <> Fail.
Proof. unfold Ryu.pow5Bits. nofail. Qed.
Lemma decimalLen64_no_fail u : Ryu.decimalLen64 u <> Fail.
Proof. unfold Ryu.decimalLen64. nofail. Qed.
Lemma shiftRight128_no_fail v s : Ryu.shiftRight128 v s <> Fail.
Proof. unfold Ryu.shiftRight128. nofail. Qed.
Lemma mulShift64_no_fail m mul s : Ryu.mulShift64 m mul s <> Fail.
Proof. unfold Ryu.mulShift64. destruct mul. cbv zeta. apply shiftRight128_no_fail. Qed.
Lemma pow5Factor64_aux_no_fail fuel : forall v n, Ryu.pow5Factor64_aux fuel v n <> Fail.
Proof. induction fuel as [|f IH]; intros v n; cbn [Ryu.pow5Factor64_aux]; [discriminate|]. destruct (v mod 5 =? 0)%N; [apply IH|discriminate]. Qed.
Lemma multipleOfPowerOfFive64_no_fail v p : Ryu.multipleOfPowerOfFive64 v p <> Fail.
Proof. unfold Ryu.multipleOfPowerOfFive64, Ryu.pow5Factor64. apply obind_no_fail; [apply pow5Factor64_aux_no_fail|discriminate]. Qed.
Lemma gen_loop1_no_fail fuel : forall s, Ryu.gen_loop1 fuel s <> Fail.
Proof. induction fuel as [|f IH]; intros s; cbn [Ryu.gen_loop1]; [discriminate|]. cbv zeta. destruct (_ <=? _)%N; [discriminate|apply IH]. Qed.
Lemma gen_loop2_no_fail fuel : forall s, Ryu.gen_loop2 fuel s <> Fail.
Proof. induction fuel as [|f IH]; intros s; cbn [Ryu.gen_loop2]; [discriminate|]. destruct (negb _); [discriminate|apply IH]. Qed.
Lemma com_loop100_no_fail fuel : forall s, Ryu.com_loop100 fuel s <> Fail.
Proof. induction fuel as [|f IH]; intros s; cbn [Ryu.com_loop100]; [discriminate|]. destruct (_ <? _)%N; [apply IH|discriminate]. Qed.
Lemma com_loop10_no_fail fuel : forall s, Ryu.com_loop10 fuel s <> Fail.
Proof. induction fuel as [|f IH]; intros s; cbn [Ryu.com_loop10]; [discriminate|]. destruct (_ <? _)%N; [apply IH|discriminate]. Qed.

Lemma float64ToDecimal_no_fail mant exp : Ryu.float64ToDecimal mant exp <> Fail.
Proof.
  unfold Ryu.float64ToDecimal. apply obind_no_fail.
  - unfold Ryu.f2d_step3. cbv zeta.
    repeat first
      [ discriminate
      | apply log10Pow2_no_fail | apply log10Pow5_no_fail | apply pow5Bits_no_fail | apply mulShift64_no_fail
      | apply multipleOfPowerOfFive64_no_fail | apply idxN_no_fail | apply idxZ_no_fail
      | apply obind_no_fail; [|intros ?]
      | match goal with |- (if ?b then _ else _) <> Fail => destruct b end
      | match goal with |- (let '(_, _) := ?p in _) <> Fail => destruct p end ].
  - intros [st ab]. unfold Ryu.f2d_step4. cbn [fst snd].
    repeat first
      [ discriminate
      | apply gen_loop1_no_fail | apply gen_loop2_no_fail | apply com_loop100_no_fail | apply com_loop10_no_fail
      | apply obind_no_fail; [|intros ?]
      | match goal with |- (if ?b then _ else _) <> Fail => destruct b end ].
Qed.

Lemma max_depth_loop_no_fail fuel : forall i d, Sort.max_depth_loop fuel i d <> Fail.
Proof. induction fuel as [|f IH]; intros i d; cbn [Sort.max_depth_loop]; [discriminate|]. destruct (_ <? _)%nat; [apply IH|discriminate]. Qed.
Lemma max_depth_no_fail n : Sort.max_depth n <> Fail.
Proof. unfold Sort.max_depth. apply obind_no_fail; [apply max_depth_loop_no_fail|discriminate]. Qed.

(* ------------------------------------------------------------------ internal/strings/name.go *)

Lemma ghasprefix1_eq (s : list N) (c : N) : ghasprefix (map Z.of_N s) [Z.of_N c] = Ops.has_prefix1 s c.
Proof.
  destruct s as [|x s]; cbn [map ghasprefix Ops.has_prefix1]; [reflexivity|].
  rewrite of_N_eqb, N.eqb_sym. destruct (x =? c)%N; destruct (map Z.of_N s); reflexivity.
Qed.

Lemma ghassuffix1_eq (s : list N) (c : N) : ghassuffix (map Z.of_N s) [Z.of_N c] = Ops.has_suffix1 s c.
Proof.
  unfold ghassuffix, Ops.has_suffix1. rewrite <- map_rev. cbn [rev app].
  rewrite ghasprefix1_eq. reflexivity.
Qed.

Lemma gf_strings_isQuoted_eq (s : list N) : gf_strings_isQuoted (map Z.of_N s) = Ops.is_quoted s.
Proof.
  unfold gf_strings_isQuoted, Ops.is_quoted. rewrite map_length.
  change [39] with [Z.of_N 39]; change [34] with [Z.of_N 34].
  rewrite !ghasprefix1_eq, !ghassuffix1_eq. f_equal.
  rewrite Z.gtb_ltb. destruct (Z.ltb_spec 2 (Z.of_nat (length s))), (Nat.ltb_spec 2 (length s)); try reflexivity; lia.
Qed.

(* CheckName: the error result is observed as nil (true) / not nil (false) *)
Lemma gf_strings_CheckName_eq (s : list N) : gf_strings_CheckName (map Z.of_N s) = Ops.check_name s.
Proof.
  unfold gf_strings_CheckName, Ops.check_name. rewrite map_length, gf_strings_isQuoted_eq.
  change [36] with [Z.of_N 36]. rewrite ghasprefix1_eq.
  destruct (Z.eqb_spec (Z.of_nat (length s)) 0) as [E|E]; destruct (Nat.eqb_spec (length s) 0) as [E'|E']; try lia;
    cbn [negb andb]; try reflexivity.
  all: destruct (Ops.is_quoted s); cbn [negb andb]; [reflexivity|]; destruct (Ops.has_prefix1 s 36); reflexivity.
Qed.
