(* Proofs/RyuHandoverStep3.v — stage 2 of the correctness of float64ToDecimal, part 2: what f2d_step3 hands
   over to step 4 satisfies [handover] (Proofs/RyuInterval.v) for EVERY finite non-zero float, except the two
   floats whose vr is off by one (Proofs/RyuIntervalMul.v).  Branch by branch:
     e2 >= 0 (A = 2^i, B = 5^q):  q <= 21 with mv = 0 (mod 5) / acceptBounds / not acceptBounds;  q >= 22;
     e2 <  0 (A = 5^k, B = 2^q):  q <= 1 (acceptBounds / not);  1 < q < 63;  q >= 63.
   The arithmetic over mantissas is symbolic; only exponent-only side conditions are swept. *)
From QF Require Import Base.Prelude Gen.GenConsts Gen.GenRyu Model.Ryu.
From QF Require Import Proofs.RyuTables Proofs.RyuArith Proofs.RyuAppendF Proofs.RyuExactInt Proofs.RyuNoPanic
                       Proofs.RyuShortest Proofs.RyuIntervalFrac Proofs.RyuIntervalMul
                       Proofs.RyuIntervalFinal Proofs.RyuIntervalLoops Proofs.RyuInterval Proofs.RyuHandover.
Local Open Scope N_scope.

(* lia with quotients/remainders by CONSTANTS expanded (never call it with a symbolic divisor in context) *)
Ltac cdlia := zify; Z.div_mod_to_equations; lia.

(* ------------------------------------------------------------------ the items of [handover], generically *)

Lemma item3_same (ab : bool) (p B : N) :
  0 < B -> (ab = true \/ p mod (10 * B) <> 0) ->
  p / B / 10 = (p - (if ab then 0 else 1)) / (10 * B).
Proof.
  intros HB H. rewrite div_div10 by exact HB. destruct ab.
  - rewrite N.sub_0_r. reflexivity.
  - destruct H as [H|H]; [discriminate H|]. symmetry. apply div_pred_nd; [lia|exact H].
Qed.

Lemma item3_dec (p B : N) :
  0 < B -> 0 < p -> p mod B = 0 -> (p / B - 1) / 10 = (p - 1) / (10 * B).
Proof.
  intros HB Hp H. rewrite <- (div_pred_d p B HB Hp H). apply div_div10. exact HB.
Qed.

Lemma item3_nodec (p B : N) :
  0 < B -> p mod B <> 0 -> p / B / 10 = (p - 1) / (10 * B).
Proof.
  intros HB H. rewrite <- (div_pred_nd p B HB H). apply div_div10. exact HB.
Qed.

Lemma item5_false (ab x : bool) (a B : N) :
  (ab = true -> a mod (10 * B) <> 0) -> false && x = ab && (a mod (10 * B) =? 0).
Proof.
  intro H. cbn [andb]. destruct ab; [|reflexivity]. cbn [andb]. symmetry. apply N.eqb_neq. apply H. reflexivity.
Qed.

Lemma item5_true (t : bool) (a B : N) :
  0 < B -> t = (a mod B =? 0) ->
  t && ((a / B) mod 10 =? 0) = true && (a mod (10 * B) =? 0).
Proof. intros HB ->. cbn [andb]. symmetry. apply mod0_mul. exact HB. Qed.

(* x not divisible by 5: neither is x 2^i by 10 B or 5 B *)
Lemma nd5_10 (x i B : N) : 0 < B -> x mod 5 <> 0 -> (x * 2 ^ i) mod (10 * B) <> 0.
Proof.
  intros HB H. replace (10 * B) with (2 * B * 5) by lia.
  apply mod_ne_up; [discriminate|lia|]. intro K. apply H. apply (gauss5_1 x i). exact K.
Qed.

Lemma nd5_5 (x i B : N) : 0 < B -> x mod 5 <> 0 -> (x * 2 ^ i) mod (5 * B) <> 0.
Proof.
  intros HB H. rewrite (N.mul_comm 5 B).
  apply mod_ne_up; [discriminate|lia|]. intro K. apply H. apply (gauss5_1 x i). exact K.
Qed.

(* x not divisible by 5^j: neither is x 2^i by c 5^j *)
Lemma nd5pow (x i j c : N) : c <> 0 -> x mod 5 ^ j <> 0 -> (x * 2 ^ i) mod (c * 5 ^ j) <> 0.
Proof.
  intros Hc H. apply mod_ne_up; [apply N.pow_nonzero; discriminate|exact Hc|].
  intro K. apply H. apply (gauss5 x i j). exact K.
Qed.

(* x not divisible by 4: x 5^k is not divisible by 10 2^q, q >= 2 *)
Lemma nd4_10 (x k q : N) : 2 <= q -> x mod 4 <> 0 -> (x * 5 ^ k) mod (10 * 2 ^ q) <> 0.
Proof.
  intros Hq H. rewrite (pow2_split 2 q Hq). change (2 ^ 2) with 4.
  replace (10 * (2 ^ (q - 2) * 4)) with (10 * 2 ^ (q - 2) * 4) by lia.
  apply mod_ne_up; [discriminate| |rewrite mul_pow5_mod4; exact H].
  pose proof (pow_pos_N 2 (q - 2) ltac:(discriminate)). lia.
Qed.

Lemma nd2pow (x k j c : N) : c <> 0 -> x mod 2 ^ j <> 0 -> (x * 5 ^ k) mod (c * 2 ^ j) <> 0.
Proof.
  intros Hc H. apply mod_ne_up; [apply N.pow_nonzero; discriminate|exact Hc|].
  intro K. apply H. apply (gauss2 x k j). exact K.
Qed.

(* ------------------------------------------------------------------ the "one bit too few" case *)

(* mv has exactly q - 1 trailing zero bits, A = 5^k with k >= 1: the exact value mv A / 2^q is an odd multiple
   of 5 over 2: its integer part ends in 2 or 7 *)
Lemma alt0_arith (mv k q : N) :
  2 <= q -> 1 <= k -> mv mod 2 ^ (q - 1) = 0 -> mv mod 2 ^ q <> 0 ->
  (mv * 5 ^ k / 2 ^ q) mod 10 <> 0 /\ (mv * 5 ^ k / 2 ^ q) mod 10 <> 5 /\ (mv * 5 ^ k) mod (5 * 2 ^ q) <> 0.
Proof.
  intros Hq Hk H1 H2.
  assert (NZP : 2 ^ (q - 1) <> 0) by (apply N.pow_nonzero; discriminate).
  assert (E2q : 2 ^ q = 2 * 2 ^ (q - 1)).
  { replace q with (N.succ (q - 1)) at 1 by lia. apply N.pow_succ_r'. }
  assert (E5k : 5 ^ k = 5 * 5 ^ (k - 1)).
  { replace k with (N.succ (k - 1)) at 1 by lia. apply N.pow_succ_r'. }
  set (P := 2 ^ (q - 1)) in *.
  pose proof (N.div_mod mv P NZP) as DM. rewrite H1, N.add_0_r in DM.
  set (w := mv / P) in *.
  assert (Hw : w mod 2 = 1).
  { destruct (N.eq_dec (w mod 2) 0) as [Z|Z].
    - exfalso. apply H2. rewrite E2q, DM.
      pose proof (N.div_mod w 2 ltac:(discriminate)) as DW. rewrite Z, N.add_0_r in DW.
      rewrite DW. replace (P * (2 * (w / 2))) with (w / 2 * (2 * P)) by lia.
      apply N.mod_mul. lia.
    - pose proof (N.mod_upper_bound w 2 ltac:(discriminate)). lia. }
  set (z := w * 5 ^ (k - 1)).
  assert (Hz : z mod 2 = 1).
  { pose proof (mul_pow5_mod4 w (k - 1)) as M4. fold z in M4.
    clearbody z w. clear - M4 Hw. cdlia. }
  assert (EQ : mv * 5 ^ k / 2 ^ q = 5 * z / 2).
  { rewrite E2q, E5k, DM. unfold z.
    replace (P * w * (5 * 5 ^ (k - 1))) with (5 * (w * 5 ^ (k - 1)) * P) by lia.
    apply N.div_mul_cancel_r; [discriminate|exact NZP]. }
  rewrite EQ. clearbody z. clear - Hz H2.
  split; [cdlia|]. split; [cdlia|].
  apply nd2pow; [discriminate|exact H2].
Qed.

(* ------------------------------------------------------------------ the branches *)

Section Branches.
  Variables (m2 mmS mv mm mp : N) (e10 : Z).
  Hypothesis Hm2 : 1 <= m2 < 9007199254740992.                 (* 2^53 *)
  Hypothesis HmmS : mmS = 1 \/ (mmS = 0 /\ m2 = 4503599627370496).   (* 2^52 *)
  Hypothesis Hmv : mv = 4 * m2.
  Hypothesis Hmp : mp = mv + 2.
  Hypothesis Hmm : mm = mv - 1 - mmS.

  Ltac start :=
    unfold handover; cbv zeta; cbn [s_vr s_vp s_vm s_vmTZ s_vrTZ];
    refine (conj eq_refl (conj eq_refl (conj _ (conj _ (conj _ (conj _ _)))))).

  Lemma B5_pos q : 0 < 5 ^ q. Proof. apply pow_pos_N. discriminate. Qed.
  Lemma B2_pos q : 0 < 2 ^ q. Proof. apply pow_pos_N. discriminate. Qed.

  Lemma mm_mod5 : mv mod 5 = 0 -> mm mod 5 <> 0.
  Proof. intro H. clear - H Hmm HmmS Hmv Hm2. destruct HmmS as [->|[-> _]]; cdlia. Qed.
  Lemma mp_mod5 : mv mod 5 = 0 -> mp mod 5 <> 0.
  Proof. intro H. clear - H Hmp. cdlia. Qed.
  Lemma mv_mod4 : mv mod 4 = 0. Proof. clear - Hmv. cdlia. Qed.
  Lemma mp_mod4 : mp mod 4 <> 0. Proof. clear - Hmv Hmp. cdlia. Qed.
  Lemma mm_mod4 : mm mod 4 <> 0.
  Proof. clear - Hmm HmmS Hmv Hm2. destruct HmmS as [->|[-> _]]; cdlia. Qed.
  Lemma mv_pos : 0 < mv. Proof. clear - Hmv Hm2. lia. Qed.
  Lemma mp_pos : 0 < mp. Proof. clear - Hmp. lia. Qed.

  (* e2 >= 0, q <= 21, mv = 0 (mod 5) *)
  Lemma pos_a (ab : bool) (i q : N) :
    mv mod 5 = 0 ->
    handover ab mv mm mp (2 ^ i) (5 ^ q)
      {| s_vr := mv * 2 ^ i / 5 ^ q; s_vp := mp * 2 ^ i / 5 ^ q; s_vm := mm * 2 ^ i / 5 ^ q; s_e10 := e10;
         s_vmTZ := false; s_vrTZ := (mv mod 5 ^ q =? 0) |}.
  Proof.
    intro H5. pose proof (B5_pos q) as HB. start.
    - apply item3_same; [exact HB|]. right. apply nd5_10; [exact HB|]. apply mp_mod5. exact H5.
    - discriminate.
    - apply item5_false. intros _. apply nd5_10; [exact HB|]. apply mm_mod5. exact H5.
    - intro T. left. apply N.eqb_eq in T. apply gauss5. exact T.
    - intro T. apply N.eqb_neq in T. apply nd5pow; [discriminate|exact T].
  Qed.

  (* e2 >= 0, q <= 21, mv <> 0 (mod 5), bounds accepted *)
  Lemma pos_b (i q : N) :
    mv mod 5 <> 0 ->
    handover true mv mm mp (2 ^ i) (5 ^ q)
      {| s_vr := mv * 2 ^ i / 5 ^ q; s_vp := mp * 2 ^ i / 5 ^ q; s_vm := mm * 2 ^ i / 5 ^ q; s_e10 := e10;
         s_vmTZ := (mm mod 5 ^ q =? 0); s_vrTZ := false |}.
  Proof.
    intro H5. pose proof (B5_pos q) as HB. start.
    - apply (item3_same true); [exact HB|]. left. reflexivity.
    - intro T. split; [reflexivity|]. apply N.eqb_eq in T. apply gauss5. exact T.
    - apply item5_true; [exact HB|]. apply mod0_eqb_iff. symmetry. apply gauss5.
    - discriminate.
    - intros _. apply nd5_5; [exact HB|exact H5].
  Qed.

  (* e2 >= 0, q <= 21, mv <> 0 (mod 5), bounds not accepted: vp-- when the upper bound is exact *)
  Lemma pos_c (i q : N) :
    mv mod 5 <> 0 ->
    handover false mv mm mp (2 ^ i) (5 ^ q)
      {| s_vr := mv * 2 ^ i / 5 ^ q;
         s_vp := if mp mod 5 ^ q =? 0 then mp * 2 ^ i / 5 ^ q - 1 else mp * 2 ^ i / 5 ^ q;
         s_vm := mm * 2 ^ i / 5 ^ q; s_e10 := e10; s_vmTZ := false; s_vrTZ := false |}.
  Proof.
    intro H5. pose proof (B5_pos q) as HB. pose proof (B2_pos i) as HA. pose proof mp_pos as HP. start.
    - destruct (N.eqb_spec (mp mod 5 ^ q) 0) as [T|T].
      + apply item3_dec; [exact HB|nia|]. apply gauss5. exact T.
      + apply item3_nodec; [exact HB|]. intro K. apply T. apply (gauss5 mp i q). exact K.
    - discriminate.
    - reflexivity.
    - discriminate.
    - intros _. apply nd5_5; [exact HB|exact H5].
  Qed.

  (* e2 >= 0, q >= 22: 5^23 divides none of mv, mp (m2 odd), mm (m2 even) *)
  Lemma pos_d (ab : bool) (i q : N) :
    22 <= q -> ab = N.even m2 ->
    handover ab mv mm mp (2 ^ i) (5 ^ q)
      {| s_vr := mv * 2 ^ i / 5 ^ q; s_vp := mp * 2 ^ i / 5 ^ q; s_vm := mm * 2 ^ i / 5 ^ q; s_e10 := e10;
         s_vmTZ := false; s_vrTZ := false |}.
  Proof.
    intros Hq Hab. pose proof (B5_pos q) as HB.
    assert (E23 : 5 ^ (q + 1) = 5 ^ (q - 22) * 11920928955078125).
    { change 11920928955078125 with (5 ^ 23). rewrite <- N.pow_add_r. f_equal. lia. }
    assert (E10 : 10 * 5 ^ q = 2 * 5 ^ (q + 1)).
    { rewrite N.add_1_r, N.pow_succ_r'. lia. }
    assert (E5 : 5 * 5 ^ q = 1 * 5 ^ (q + 1)).
    { rewrite N.add_1_r, N.pow_succ_r'. lia. }
    assert (NZ : 5 ^ (q - 22) <> 0) by (apply N.pow_nonzero; discriminate).
    (* x not divisible by 5^23 -> x 2^i not divisible by c 5^(q+1) *)
    assert (ND : forall x c, c <> 0 -> x mod 11920928955078125 <> 0 -> (x * 2 ^ i) mod (c * 5 ^ (q + 1)) <> 0).
    { intros x c Hc Hx. apply nd5pow; [exact Hc|]. rewrite E23. apply mod_ne_up; [discriminate|exact NZ|exact Hx]. }
    rewrite even_mod2' in Hab.
    start.
    - apply item3_same; [exact HB|]. destruct ab; [left; reflexivity|right].
      rewrite E10. apply ND; [discriminate|].
      symmetry in Hab. apply N.eqb_neq in Hab. clear - Hab Hmp Hmv Hm2. cdlia.
    - discriminate.
    - apply item5_false. intros ->. rewrite E10. apply ND; [discriminate|].
      symmetry in Hab. apply N.eqb_eq in Hab. clear - Hab Hmm HmmS Hmv Hm2.
      destruct HmmS as [->|[-> ->]]; [cdlia|]. subst mm mv. vm_compute. discriminate.
    - discriminate.
    - intros _. rewrite E5. apply ND; [discriminate|]. clear - Hmv Hm2. cdlia.
  Qed.

  (* e2 < 0, q <= 1, bounds accepted *)
  Lemma neg_a_even (k q : N) :
    q <= 1 ->
    handover true mv mm mp (5 ^ k) (2 ^ q)
      {| s_vr := mv * 5 ^ k / 2 ^ q; s_vp := mp * 5 ^ k / 2 ^ q; s_vm := mm * 5 ^ k / 2 ^ q; s_e10 := e10;
         s_vmTZ := (mmS =? 1); s_vrTZ := true |}.
  Proof.
    intro Hq. pose proof (B2_pos q) as HB.
    assert (D2 : forall x, x mod 2 = 0 -> (x * 5 ^ k) mod 2 ^ q = 0).
    { intros x Hx. assert (Q : q = 0 \/ q = 1) by lia. destruct Q as [-> | ->].
      - apply N.mod_1_r.
      - apply mod0_mul_l; [discriminate|exact Hx]. }
    start.
    - apply (item3_same true); [exact HB|]. left. reflexivity.
    - intro T. apply N.eqb_eq in T. split; [reflexivity|]. apply D2. clear - T Hmm Hmv Hm2. subst mmS. cdlia.
    - destruct HmmS as [->|[-> _]].
      + change (1 =? 1) with true. apply item5_true; [exact HB|]. symmetry. apply N.eqb_eq. apply D2.
        clear - Hmm Hmv Hm2. cdlia.
      + change (0 =? 1) with false. apply item5_false. intros _.
        replace (10 * 2 ^ q) with (5 * 2 ^ q * 2) by lia.
        apply mod_ne_up; [discriminate|lia|].
        pose proof (mul_pow5_mod4 mm k) as M4. set (a := mm * 5 ^ k) in *. clearbody a.
        clear - M4 Hmm Hmv Hm2. cdlia.
    - intros _. left. apply D2. clear - Hmv. cdlia.
    - discriminate.
  Qed.

  (* e2 < 0, q <= 1, bounds not accepted: vp-- (the upper bound is always exact) *)
  Lemma neg_a_odd (k q : N) :
    q <= 1 ->
    handover false mv mm mp (5 ^ k) (2 ^ q)
      {| s_vr := mv * 5 ^ k / 2 ^ q; s_vp := mp * 5 ^ k / 2 ^ q - 1; s_vm := mm * 5 ^ k / 2 ^ q; s_e10 := e10;
         s_vmTZ := false; s_vrTZ := true |}.
  Proof.
    intro Hq. pose proof (B2_pos q) as HB.
    assert (D2 : forall x, x mod 2 = 0 -> (x * 5 ^ k) mod 2 ^ q = 0).
    { intros x Hx. assert (Q : q = 0 \/ q = 1) by lia. destruct Q as [-> | ->].
      - apply N.mod_1_r.
      - apply mod0_mul_l; [discriminate|exact Hx]. }
    pose proof (pow_pos_N 5 k ltac:(discriminate)) as HA. pose proof mp_pos as HP.
    start.
    - apply item3_dec; [exact HB|nia|]. apply D2. clear - Hmp Hmv. cdlia.
    - discriminate.
    - reflexivity.
    - intros _. left. apply D2. clear - Hmv. cdlia.
    - discriminate.
  Qed.

  (* e2 < 0, 1 < q: the flag tests q - 1 bits *)
  Lemma neg_b (ab : bool) (k q : N) :
    2 <= q -> 1 <= k ->
    handover ab mv mm mp (5 ^ k) (2 ^ q)
      {| s_vr := mv * 5 ^ k / 2 ^ q; s_vp := mp * 5 ^ k / 2 ^ q; s_vm := mm * 5 ^ k / 2 ^ q; s_e10 := e10;
         s_vmTZ := false; s_vrTZ := (mv mod 2 ^ (q - 1) =? 0) |}.
  Proof.
    intros Hq Hk. pose proof (B2_pos q) as HB. start.
    - apply item3_same; [exact HB|]. right. apply nd4_10; [exact Hq|exact mp_mod4].
    - discriminate.
    - apply item5_false. intros _. apply nd4_10; [exact Hq|exact mm_mod4].
    - intro T. apply N.eqb_eq in T.
      destruct (N.eq_dec (mv mod 2 ^ q) 0) as [Z|Z].
      + left. apply gauss2. exact Z.
      + right. apply alt0_arith; assumption.
    - intro T. apply N.eqb_neq in T. apply nd2pow; [discriminate|].
      intro K. apply T. rewrite (pow2_split (q - 1) q ltac:(lia)) in K.
      apply (mod0_trans mv (2 ^ (q - 1)) (2 ^ (q - (q - 1)))); try (apply N.pow_nonzero; discriminate). exact K.
  Qed.

  (* e2 < 0, q >= 63: mv < 2^55 has fewer than q trailing zero bits *)
  Lemma neg_c (ab : bool) (k q : N) :
    63 <= q ->
    handover ab mv mm mp (5 ^ k) (2 ^ q)
      {| s_vr := mv * 5 ^ k / 2 ^ q; s_vp := mp * 5 ^ k / 2 ^ q; s_vm := mm * 5 ^ k / 2 ^ q; s_e10 := e10;
         s_vmTZ := false; s_vrTZ := false |}.
  Proof.
    intro Hq. pose proof (B2_pos q) as HB. start.
    - apply item3_same; [exact HB|]. right. apply nd4_10; [lia|exact mp_mod4].
    - discriminate.
    - apply item5_false. intros _. apply nd4_10; [lia|exact mm_mod4].
    - discriminate.
    - intros _. apply nd2pow; [discriminate|].
      assert (L : 2 ^ 63 <= 2 ^ q) by (apply N.pow_le_mono_r; [discriminate|exact Hq]).
      change (2 ^ 63) with 9223372036854775808 in L.
      rewrite N.mod_small by (clear - L Hmv Hm2; lia). clear - Hmv Hm2. lia.
  Qed.
End Branches.

(* ------------------------------------------------------------------ exponent-only side conditions *)

(* for negative binary exponents with more than one digit dropped, a power of 5 remains: -e2 - q >= 1 *)
Definition exp_side2 (exp : N) : bool :=
  match plan_of exp with
  | Ok pl => p_pos pl || (p_q pl <=? 1) || (Z.of_N (p_q pl) <? - e2_of exp)%Z
  | _ => false
  end.

Lemma all_exp_side2 : forallb exp_side2 (map N.of_nat (seq 0 2047)) = true.
Proof. vm_cast_no_check (eq_refl true). Qed.

Lemma exp_in_range (exp : N) : exp <= 2046 -> In exp (map N.of_nat (seq 0 2047)).
Proof. intro H. apply in_map_iff. exists (N.to_nat exp). split; [lia|]. apply in_seq. lia. Qed.

Lemma exp_side_facts (exp : N) (pl : plan) :
  exp <= 2046 -> plan_of exp = Ok pl ->
  (let q := Z.of_N (p_q pl) in
   if p_pos pl then (0 <= e2_of exp)%Z /\ (q <= e2_of exp)%Z /\ p_e10 pl = q
   else (e2_of exp < 0)%Z /\ (q <= - e2_of exp)%Z /\ p_e10 pl = (q + e2_of exp)%Z) /\
  (p_pos pl = false -> 1 < p_q pl -> (Z.of_N (p_q pl) < - e2_of exp)%Z).
Proof.
  intros He EP. split.
  - pose proof all_exp_side_ok as S. rewrite forallb_forall in S.
    specialize (S exp (exp_in_range exp He)). unfold exp_side_ok in S. rewrite EP in S.
    destruct (ratio_c pl (e2_of exp)) as [A B].
    repeat (apply andb_true_iff in S as [S ?]).
    cbv zeta. destruct (p_pos pl); repeat (apply andb_true_iff in S as [S ?]).
    + apply Z.leb_le in S. repeat match goal with K : (_ <=? _)%Z = true |- _ => apply Z.leb_le in K
                                             | K : (_ =? _)%Z = true |- _ => apply Z.eqb_eq in K end. auto.
    + apply Z.ltb_lt in S. repeat match goal with K : (_ <=? _)%Z = true |- _ => apply Z.leb_le in K
                                             | K : (_ =? _)%Z = true |- _ => apply Z.eqb_eq in K end. auto.
  - intros PP Hq. pose proof all_exp_side2 as S. rewrite forallb_forall in S.
    specialize (S exp (exp_in_range exp He)). unfold exp_side2 in S. rewrite EP, PP in S. cbn [orb] in S.
    apply orb_true_iff in S as [S|S].
    + apply N.leb_le in S. lia.
    + apply Z.ltb_lt in S. exact S.
Qed.

(* the two exceptional multipliers are multiples of 4: only mv can be one *)
Lemma mul_exception_mod4 (exp x : N) : x mod 4 <> 0 -> mul_exception exp x = false.
Proof.
  intro H. unfold mul_exception.
  destruct (N.eqb_spec x exc_x1) as [->|_]; [exfalso; apply H; reflexivity|].
  destruct (N.eqb_spec x exc_x2) as [->|_]; [exfalso; apply H; reflexivity|].
  rewrite !andb_false_r. reflexivity.
Qed.

Lemma sub32_1 (q : N) : 1 <= q -> q < 4294967296 -> sub32 q 1 = q - 1.
Proof.
  intros H1 H2. unfold sub32, u32. change two32N with 4294967296.
  replace (q + 4294967296 - 1) with (q - 1 + 1 * 4294967296) by lia.
  rewrite N.mod_add by discriminate. apply N.mod_small. lia.
Qed.

(* ------------------------------------------------------------------ step 3, all branches *)

(* Stage 2.  For every finite non-zero float except the two of Proofs/RyuIntervalMul.v: the record returned
   by the model's step 3 satisfies the hand-over conditions at the scale of its exponent, acceptBounds is the
   parity of the mantissa and s_e10 the planned exponent. *)
Theorem step3_handover (mant exp : N) (pl : plan) (st : step3) (ab : bool) :
  mant < 2 ^ 52 -> exp <= 2046 -> ~ (exp = 0 /\ mant = 0) ->
  let m2 := if exp =? 0 then mant else 2 ^ 52 + mant in
  let mv := 4 * m2 in
  let mm := mv - (if (mant =? 0) && (1 <? exp) then 1 else 2) in
  mul_exception exp mv = false ->
  plan_of exp = Ok pl -> f2d_step3 mant exp = Ok (st, ab) ->
  ab = N.even m2 /\ s_e10 st = p_e10 pl /\
  handover ab mv mm (mv + 2) (fst (ratio pl (e2_of exp))) (snd (ratio pl (e2_of exp))) st.
Proof.
  intros Hmant Hexp Hnz m2 mv mm Hexc EP E3.
  rewrite f2d_step3_split, EP in E3. cbn [obind] in E3.
  destruct (ryu_indices_ok exp Hexp) as (pl' & EP' & G & _). rewrite EP in EP'. inversion EP'; subst pl'. clear EP'.
  destruct (exp_side_facts exp pl Hexp EP) as [S1 S2]. cbv zeta in S1.
  assert (Be2 : (-1076 <= e2_of exp <= 969)%Z).
  { unfold e2_of. destruct (N.eqb_spec exp 0); lia. }
  assert (B52 : 2 ^ 52 = 4503599627370496) by reflexivity.
  assert (B53 : 2 ^ 53 = 9007199254740992) by reflexivity.
  assert (B64 : 2 ^ 64 = 18446744073709551616) by reflexivity.
  unfold step3_with in E3.
  assert (Em2 : (if exp =? 0 then mant else N.lor (shl64 1 c_mantBits64) mant) = m2).
  { unfold m2. destruct (exp =? 0); [reflexivity|].
    replace (shl64 1 c_mantBits64) with (1 * 2 ^ 52) by (vm_compute; reflexivity).
    rewrite lor_disjoint by exact Hmant. lia. }
  rewrite Em2 in E3.
  assert (Hm2 : 1 <= m2 < 9007199254740992).
  { unfold m2. destruct (N.eqb_spec exp 0); lia. }
  set (mmS := b2n (negb (mant =? 0) || (exp <=? 1))) in *.
  assert (HmmS : mmS = 1 \/ (mmS = 0 /\ m2 = 4503599627370496)).
  { unfold mmS, m2. destruct (N.eqb_spec mant 0) as [Z|Z]; cbn [negb orb]; [|left; reflexivity].
    destruct (N.leb_spec exp 1) as [L|L]; [left; reflexivity|right]. split; [reflexivity|].
    destruct (N.eqb_spec exp 0); lia. }
  assert (Emm' : mm = mv - 1 - mmS).
  { unfold mm, mmS, mv. destruct (N.eqb_spec mant 0) as [Z|Z]; cbn [negb orb andb b2n]; [|lia].
    destruct (N.leb_spec exp 1) as [L|L]; destruct (N.ltb_spec 1 exp) as [L'|L']; cbn [b2n]; lia. }
  assert (Emv : u64 (4 * m2) = mv) by (apply u64_small; unfold mv; lia).
  rewrite Emv in E3.
  assert (Emp : u64 (mv + 2) = mv + 2) by (apply u64_small; unfold mv; lia).
  rewrite Emp in E3.
  assert (Emm : sub64 (sub64 mv 1) mmS = mm).
  { rewrite (sub64_spec mv 1) by (unfold mv; lia).
    replace (1 <=? mv) with true by (symmetry; apply N.leb_le; unfold mv; lia).
    rewrite sub64_spec by (unfold mv; destruct HmmS as [->|[-> _]]; lia).
    replace (mmS <=? mv - 1) with true
      by (symmetry; apply N.leb_le; unfold mv; destruct HmmS as [->|[-> _]]; lia).
    symmetry. exact Emm'. }
  rewrite Emm in E3.
  assert (Hmax : mp_max = 36028797018963966) by reflexivity.
  assert (Rv : 1 <= mv <= mp_max) by (unfold mv; lia).
  assert (Rp : 1 <= mv + 2 <= mp_max) by (unfold mv; lia).
  assert (Rm : 1 <= mm <= mp_max) by (rewrite Emm'; unfold mv; destruct HmmS as [->|[-> _]]; lia).
  assert (M4p : (mv + 2) mod 4 <> 0) by (apply (mp_mod4 m2 mv (mv + 2)); reflexivity).
  assert (M4m : mm mod 4 <> 0) by (apply (mm_mod4 m2 mmS mv mm); assumption || reflexivity).
  rewrite !mulShift64_F in E3 by (assumption || lia). cbn [obind] in E3.
  rewrite (mulshift_exact exp pl mv Hexp EP Rv Hexc) in E3.
  rewrite (mulshift_exact exp pl (mv + 2) Hexp EP Rp (mul_exception_mod4 exp _ M4p)) in E3.
  rewrite (mulshift_exact exp pl mm Hexp EP Rm (mul_exception_mod4 exp _ M4m)) in E3.
  rewrite land1_even in E3.
  (* vp >= 1, for vp-- *)
  assert (Vp : forall A B, 0 < A -> 0 < B -> (mv + 2) * A / B < 2 ^ 64 ->
               sub64 ((mv + 2) * A / B) 1 = (mv + 2) * A / B - 1 \/ (mv + 2) * A / B = 0).
  { intros A B HA HB L. set (X := (mv + 2) * A / B) in *. clearbody X. clear - L B64.
    destruct (N.eq_dec X 0) as [Z|Z]; [right; exact Z|left].
    rewrite sub64_spec by lia.
    destruct (N.leb_spec 1 X); [reflexivity|lia]. }
  pose proof (mulshift_exact exp pl (mv + 2) Hexp EP Rp (mul_exception_mod4 exp _ M4p)) as EFp.
  assert (L2 : 2 <= mv + 2) by (clear; lia).
  assert (L3 : mv + 2 <= mp_max) by (clear - Rp; lia).
  pose proof (F_mono pl 2 (mv + 2) L2) as Fp1.
  pose proof (F_mono pl (mv + 2) mp_max L3) as Fp2.
  assert (Fp3 : 1 <= F pl (mv + 2) < 2 ^ 64).
  { unfold plan_good in G. repeat (apply andb_true_iff in G as [G ?]).
    repeat match goal with
           | H : (_ <=? _) = true |- _ => apply N.leb_le in H
           | H : (_ <? _) = true |- _ => apply N.ltb_lt in H
           end. lia. }
  rewrite EFp in Fp3. clear Fp1 Fp2 EFp.
  unfold ratio in *.
  destruct (p_pos pl) eqn:PP; cbn [fst snd] in *.
  - (* e2 >= 0 *)
    destruct S1 as (S1a & S1b & S1c).
    destruct (p_q pl <=? c_q_pos_small) eqn:Q1.
    + destruct (mv mod 5 =? 0) eqn:M5.
      * rewrite multipleOfPowerOfFive64_spec in E3 by lia. cbn [obind] in E3.
        injection E3 as <- <-. split; [reflexivity|]. split; [reflexivity|].
        apply N.eqb_eq in M5. apply (pos_a m2 mmS mv mm (mv + 2)); assumption || reflexivity.
      * apply N.eqb_neq in M5. destruct (N.even m2) eqn:EV.
        -- rewrite multipleOfPowerOfFive64_spec in E3 by lia. cbn [obind] in E3.
           injection E3 as <- <-. split; [reflexivity|]. split; [reflexivity|].
           apply (pos_b mv mm (mv + 2)). exact M5.
        -- rewrite multipleOfPowerOfFive64_spec in E3 by lia. cbn [obind] in E3.
           injection E3 as <- <-. split; [reflexivity|]. split; [reflexivity|].
           destruct (Vp (2 ^ (Z.to_N (e2_of exp) - p_q pl)) (5 ^ p_q pl)) as [V|V];
             try (apply pow_pos_N; discriminate); try lia.
           rewrite V. apply (pos_c m2 mmS mv mm (mv + 2)); assumption || reflexivity.
    + injection E3 as <- <-. split; [reflexivity|]. split; [reflexivity|].
      apply N.leb_gt in Q1. change c_q_pos_small with 21 in Q1.
      apply (pos_d m2 mmS mv mm (mv + 2)); try (assumption || reflexivity). lia.
  - (* e2 < 0 *)
    destruct S1 as (S1a & S1b & S1c).
    destruct (p_q pl <=? c_q_neg_small) eqn:Q1.
    + apply N.leb_le in Q1. change c_q_neg_small with 1 in Q1.
      destruct (N.even m2) eqn:EV.
      * injection E3 as <- <-. split; [reflexivity|]. split; [reflexivity|].
        apply (neg_a_even m2 mmS mv mm (mv + 2)); assumption || reflexivity.
      * injection E3 as <- <-. split; [reflexivity|]. split; [reflexivity|].
        destruct (Vp (5 ^ (Z.to_N (- e2_of exp) - p_q pl)) (2 ^ p_q pl)) as [V|V];
          try (apply pow_pos_N; discriminate); try lia.
        rewrite V. apply (neg_a_odd m2 mmS mv mm (mv + 2)); assumption || reflexivity.
    + apply N.leb_gt in Q1. change c_q_neg_small with 1 in Q1.
      destruct (p_q pl <? c_q_neg_max) eqn:Q2.
      * injection E3 as <- <-. split; [reflexivity|]. split; [reflexivity|].
        rewrite sub32_1 by lia.
        rewrite multipleOfPowerOfTwo64_spec by lia.
        apply (neg_b m2 mmS mv mm (mv + 2)); try (assumption || reflexivity); try lia.
      * injection E3 as <- <-. split; [reflexivity|]. split; [reflexivity|].
        apply N.ltb_ge in Q2. change c_q_neg_max with 63 in Q2.
        apply (neg_c m2 mmS mv mm (mv + 2)); assumption || reflexivity.
Qed.
