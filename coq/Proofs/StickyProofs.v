(* Proofs/StickyProofs.v — property C10 on the L0 model: an error is sticky, the failed frame exposes no rows,
   invalid arguments give Err and never a panic (for the operations whose model is total by construction). *)
From QF Require Import Base.Prelude Model.Frame Model.Filter Model.Ops.
Local Open Scope nat_scope.

Lemma len_err f : ferr f = true -> frame_len f = (-1)%Z.
Proof. intro H. unfold frame_len. rewrite H. reflexivity. Qed.

Lemma filter_sticky mt f c : ferr f = true -> frame_filter mt f c = Ok f.
Proof. intro H. unfold frame_filter. rewrite H. reflexivity. Qed.

Lemma filter_leaves_sticky mt f ls : ferr f = true -> filter_leaves mt f ls = Ok f.
Proof. intro H. unfold filter_leaves. rewrite H. reflexivity. Qed.

Lemma slice_sticky f a b : ferr f = true -> slice f a b = f.
Proof. intro H. unfold slice. rewrite H. reflexivity. Qed.

Lemma select_sticky f ns : ferr f = true -> select f ns = f.
Proof. intro H. unfold select. rewrite H. reflexivity. Qed.

Lemma drop_sticky f ns : ferr f = true -> drop f ns = f.
Proof. intro H. unfold drop. rewrite H. reflexivity. Qed.

Lemma copy_sticky f d s : ferr f = true -> copy f d s = f.
Proof. intro H. unfold copy. rewrite H. reflexivity. Qed.

Lemma apply_instr_sticky ut f i : ferr f = true -> apply_instr ut f i = Ok f.
Proof.
  intro H. unfold apply_instr, apply0, apply1, apply2. rewrite H.
  destruct (empty_name (isrc1 i)); [reflexivity|]. destruct (empty_name (isrc2 i)); reflexivity.
Qed.

(* no instruction is executed on a failed frame: in particular no user function is consulted
   (the function tables of the instructions are never looked at) *)
Lemma apply_sticky ut f is : ferr f = true -> apply ut f is = Ok f.
Proof.
  intro H. unfold apply, ofold. induction is as [|i is IH]; simpl; [reflexivity|].
  rewrite (apply_instr_sticky ut f i H). exact IH.
Qed.

Lemma filtered_apply_sticky mt ut f c is : ferr f = true -> filtered_apply mt ut f c is = Ok f.
Proof. intro H. unfold filtered_apply. rewrite (filter_sticky mt f c H). simpl. rewrite H. reflexivity. Qed.

Lemma with_row_nums_sticky f n : ferr f = true -> with_row_nums f n = Ok f.
Proof. intro H. unfold with_row_nums. apply apply_sticky. exact H. Qed.

(* the projections never panic and report invalid requests through Err *)
Lemma slice_invalid f a b :
  ferr f = false -> (a < 0 \/ b < a \/ Z.of_nat (length (ix f)) < b)%Z -> ferr (slice f a b) = true.
Proof.
  intros Hf H. unfold slice. rewrite Hf.
  destruct (a <? 0)%Z eqn:E1; [reflexivity|].
  destruct (b <? a)%Z eqn:E2; [reflexivity|].
  destruct (Z.of_nat (length (ix f)) <? b)%Z eqn:E3; [reflexivity|]. lia.
Qed.

Lemma select_invalid f ns : ferr f = false -> forallb (contains f) ns = false -> ferr (select f ns) = true.
Proof. intros Hf H. unfold select. rewrite Hf, H. reflexivity. Qed.

Lemma copy_invalid f d s : ferr f = false -> lookup_col f s = None -> ferr (copy f d s) = true.
Proof. intros Hf H. unfold copy. rewrite Hf, H. reflexivity. Qed.

Lemma set_column_bad_name f n c : check_name n = false -> ferr (set_column f n c) = true.
Proof. intro H. unfold set_column. rewrite H. reflexivity. Qed.

(* Filter: an empty And/Or, an unknown column, an unknown argument column are errors, not panics *)
Lemma filter_empty_and mt f : ferr f = false -> exists g, frame_filter mt f (CAnd []) = Ok g /\ ferr g = true.
Proof. intro H. unfold frame_filter. rewrite H. simpl. rewrite H. eexists; split; reflexivity. Qed.
Lemma filter_empty_or mt f : ferr f = false -> exists g, frame_filter mt f (COr []) = Ok g /\ ferr g = true.
Proof. intro H. unfold frame_filter. rewrite H. simpl. rewrite H. eexists; split; reflexivity. Qed.

Lemma filter_unknown_column mt f l :
  ferr f = false -> lookup_col f (lcol l) = None ->
  exists g, frame_filter mt f (CLeaf l) = Ok g /\ ferr g = true.
Proof.
  intros Hf H. unfold frame_filter. rewrite Hf. simpl. unfold filter_leaves. rewrite Hf.
  unfold ofold. simpl. unfold filter_leaf. rewrite H. simpl. eexists; split; reflexivity.
Qed.
