(* Proofs/GenEnumFacProofs.v — tie T1 for the enum factory and the serializers' record assembly: the definitions
   generated from internal/ecolumn/column.go and from QFrame.ToJSON / Len / ToCSV of qframe.go (Gen/GenEnumFac.v,
   translator tools/qf2coq/enumfac.go) are equal to the hand-written model the engines execute (Model/Ops.v enum_new /
   enum_step / find_value_last / nodup_bytes / enum_new_const / col_equals, Model/Frame.v cell_at, Model/Filter.v
   equal_types; second half of the file: Model/Json.v to_json_writes, Model/JsonRead.v frame_to_json,
   Model/CsvWrite.v to_csv_records).

   REPRESENTATION.  The model keeps no map: the lookup valToEnum[s] is find_value_last values s.  The generated
   code keeps the map as an association list; map_rep m values says the two agree on every key.  Ranks are N in
   the model and Z (inside the range of uint8) in the generated code: data = map Z.of_N ranks.  A factory state of
   the model is (values, ranks); fac_rep f strict st ties a generated factory record to it.  An error value of
   the generated code (operation, format) is observed as Fail. *)
From QF Require Import Base.Prelude Gen.GenConsts Gen.GenFuncs Gen.GenEnumFac.
From QF Require Import Model.Frame Model.Filter Model.Ops Proofs.EnumProofs.
Local Open Scope nat_scope.

(* ------------------------------------------------------------------ general facts *)

Lemma gef_index_nat {T} (s : list T) (p : nat) : gef_index s (Z.of_nat p) = idx s p.
Proof. unfold gef_index. destruct (Z.of_nat p <? 0)%Z eqn:E; [lia|]. rewrite Nat2Z.id. reflexivity. Qed.

Lemma gef_index_N {T} (s : list T) (r : N) : gef_index s (Z.of_N r) = idx s (N.to_nat r).
Proof. unfold gef_index. destruct (Z.of_N r <? 0)%Z eqn:E; [lia|]. f_equal. lia. Qed.

Lemma isNull_N (r : N) : gf_ecolumn_enumVal_isNull (Z.of_N r) = enum_is_null r.
Proof.
  unfold gf_ecolumn_enumVal_isNull, enum_is_null. change c_nullValue with 255%N.
  destruct (N.eqb_spec r 255) as [E|E]; [subst; reflexivity|]. apply Z.eqb_neq. lia.
Qed.

Lemma gef_u8_small (n : nat) : n < 256 -> gef_u8 (Z.of_nat n) = Z.of_nat n.
Proof. intro H. unfold gef_u8. apply Z.mod_small. lia. Qed.

Lemma ofold_fail' {A B} (f : B -> A -> outcome B) l :
  fold_left (fun acc x => do a <- acc; f a x) l Fail = Fail.
Proof. induction l as [|x xs IH]; cbn [fold_left obind]; auto. Qed.

Lemma ofold_panic' {A B} (f : B -> A -> outcome B) l :
  fold_left (fun acc x => do a <- acc; f a x) l Panic = Panic.
Proof. induction l as [|x xs IH]; cbn [fold_left obind]; auto. Qed.

Lemma ofold_cons' {A B} (f : B -> A -> outcome B) x l init :
  ofold f (x :: l) init = do a <- f init x; ofold f l a.
Proof.
  unfold ofold. cbn [fold_left obind].
  destruct (f init x) as [a| |]; cbn [obind]; auto using ofold_fail', ofold_panic'.
Qed.

(* ------------------------------------------------------------------ maps *)

Lemma bytes_eqb_eq a b : bytes_eqb a b = true -> a = b.
Proof. apply bytes_eqb_spec. Qed.

Lemma bytes_eqb_neq a b : bytes_eqb a b = false -> a <> b.
Proof. intros H E. subst. rewrite bytes_eqb_refl in H. discriminate. Qed.

Lemma gef_map_get_set {V} (m : gef_map V) k v s :
  gef_map_get (gef_map_set m k v) s = if bytes_eqb k s then Some v else gef_map_get m s.
Proof.
  induction m as [|[k' v'] r IH]; cbn [gef_map_set gef_map_get].
  - reflexivity.
  - destruct (bytes_eqb k' k) eqn:Ek.
    + apply bytes_eqb_eq in Ek. subst k'. cbn [gef_map_get]. destruct (bytes_eqb k s); reflexivity.
    + cbn [gef_map_get]. rewrite IH. destruct (bytes_eqb k' s) eqn:Es; [|reflexivity].
      apply bytes_eqb_eq in Es. subst s. apply bytes_eqb_neq in Ek.
      destruct (bytes_eqb k k') eqn:E2; [apply bytes_eqb_eq in E2; congruence|reflexivity].
Qed.

(* the lookup of the model: one more value at the end *)
Lemma find_value_last_snoc vals b s :
  find_value_last (vals ++ [b]) s =
  if bytes_eqb b s then Some (N.of_nat (length vals)) else find_value_last vals s.
Proof.
  unfold find_value_last. rewrite app_length. cbn [length]. rewrite Nat.add_1_r, seq_S, map_app. cbn [map].
  assert (Hc : forall (A B : Type) (l1 l2 : list A) (m1 m2 : list B), length l1 = length m1 ->
             combine (l1 ++ l2) (m1 ++ m2) = combine l1 m1 ++ combine l2 m2).
  { intros A B l1. induction l1 as [|a l1 IH]; intros l2 m1 m2 Hl; destruct m1 as [|c m1]; cbn in *; try lia; auto.
    f_equal. apply IH. lia. }
  rewrite Hc by (rewrite map_length, seq_length; reflexivity).
  rewrite fold_left_app. cbn [combine fold_left fst snd Nat.add]. reflexivity.
Qed.

Lemma find_value_last_in vals s : find_value_last vals s = None <-> ~ In s vals.
Proof.
  split; [apply find_value_last_none|].
  intro H. destruct (find_value_last vals s) as [r|] eqn:E; [|reflexivity].
  destruct (find_value_last_some _ _ _ E) as [j [_ [_ Hn]]]. exfalso. apply H. eapply nth_error_In. exact Hn.
Qed.

Lemma find_value_last_lt vals s r : find_value_last vals s = Some r -> (N.to_nat r < length vals).
Proof. intro E. destruct (find_value_last_some _ _ _ E) as [j [Hj [Hr _]]]. subst. lia. Qed.

(* the map agrees with the lookup of the model on every key *)
Definition map_rep (m : gef_map Z) (vals : list bytes) : Prop :=
  forall s, gef_map_get m s = option_map Z.of_N (find_value_last vals s).

Lemma map_rep_nil : map_rep [] [].
Proof. intro s. reflexivity. Qed.

Lemma map_rep_snoc m vals b :
  map_rep m vals -> length vals < 256 ->
  map_rep (gef_map_set m b (gef_u8 (Z.of_nat (length vals)))) (vals ++ [b]).
Proof.
  intros Hm Hl s. rewrite gef_map_get_set, find_value_last_snoc, gef_u8_small by exact Hl.
  destruct (bytes_eqb b s); [cbn [option_map]; f_equal; lia|apply Hm].
Qed.

Lemma map_rep_get2 m vals s :
  map_rep m vals ->
  gef_map_get2 0%Z m s = match find_value_last vals s with Some r => (Z.of_N r, true) | None => (0%Z, false) end.
Proof. intro Hm. unfold gef_map_get2. rewrite (Hm s). destruct (find_value_last vals s); reflexivity. Qed.

(* ------------------------------------------------------------------ NewFactory *)

Definition err_too_many : bytes * bytes :=
  ([78; 101; 119; 32; 101; 110; 117; 109]%N,
   [116; 111; 111; 32; 109; 97; 110; 121; 32; 117; 110; 105; 113; 117; 101; 32; 118; 97; 108; 117; 101; 115; 44; 32;
    109; 97; 120; 32; 99; 97; 114; 100; 105; 110; 97; 108; 105; 116; 121; 32; 105; 115; 32; 37; 100]%N).
Definition err_duplicate : bytes * bytes :=
  ([78; 101; 119; 32; 101; 110; 117; 109]%N,
   [100; 117; 112; 108; 105; 99; 97; 116; 101; 32; 101; 110; 117; 109; 32; 118; 97; 108; 117; 101; 32; 37; 113]%N).

(* the map the loop of NewFactory builds: positions in order *)
Fixpoint fac_map (l : list bytes) (i : Z) (m : gef_map Z) : gef_map Z :=
  match l with
  | [] => m
  | v :: l' => fac_map l' (i + 1)%Z (gef_map_set m v (gef_u8 i))
  end.

(* the duplicate test of the loop: a value already seen *)
Fixpoint dup_scan (pre l : list bytes) : bool :=
  match l with
  | [] => false
  | v :: l' => if existsb (bytes_eqb v) pre then true else dup_scan (pre ++ [v]) l'
  end.

Lemma NoDup_snoc (pre : list bytes) v : NoDup (pre ++ [v]) <-> NoDup pre /\ ~ In v pre.
Proof.
  split.
  - intro H. apply NoDup_remove in H. rewrite app_nil_r in H. exact H.
  - intros [H1 H2]. apply (Permutation_NoDup (l := v :: pre)).
    + apply Permutation_cons_append.
    + constructor; assumption.
Qed.

Lemma dup_scan_nodup l : forall pre, nodup_bytes pre = true -> dup_scan pre l = negb (nodup_bytes (pre ++ l)).
Proof.
  induction l as [|v l IH]; intros pre Hp; cbn [dup_scan].
  - rewrite app_nil_r, Hp. reflexivity.
  - destruct (existsb (bytes_eqb v) pre) eqn:E.
    + apply existsb_bytes_eqb_In in E. symmetry. apply negb_true_iff. apply nodup_bytes_false.
      intro H. apply NoDup_remove_2 in H. apply H. apply in_or_app. left. exact E.
    + assert (Hn : ~ In v pre).
      { intro H. apply existsb_bytes_eqb_In in H. congruence. }
      rewrite (IH (pre ++ [v])).
      * rewrite <- app_assoc. reflexivity.
      * apply nodup_bytes_spec. apply NoDup_snoc. split; [apply nodup_bytes_spec; exact Hp|exact Hn].
Qed.

Lemma fac_map_rep l : forall pre m,
  map_rep m pre -> length pre + length l <= 256 -> map_rep (fac_map l (Z.of_nat (length pre)) m) (pre ++ l).
Proof.
  induction l as [|v l IH]; intros pre m Hm Hl; cbn [fac_map].
  - rewrite app_nil_r. exact Hm.
  - cbn [length] in Hl.
    replace (Z.of_nat (length pre) + 1)%Z with (Z.of_nat (length (pre ++ [v]))) by (rewrite app_length; cbn [length]; lia).
    replace (pre ++ v :: l) with ((pre ++ [v]) ++ l) by (rewrite <- app_assoc; reflexivity).
    apply IH.
    + apply map_rep_snoc; [exact Hm|lia].
    + rewrite app_length. cbn [length]. lia.
Qed.

Lemma NewFactory_loop vs h l : forall pre m,
  map_rep m pre -> length pre + length l <= 256 ->
  gef_NewFactory_loop1 l (Z.of_nat (length pre)) vs h m =
  if dup_scan pre l then Ok (None, Some err_duplicate)
  else do t <- gef_make0 (T := Z) h;
       Ok (Some (gef_mk_Factory (gef_mk_Column t vs (0 <? Z.of_nat (length vs))%Z)
                                (fac_map l (Z.of_nat (length pre)) m)), None).
Proof.
  induction l as [|v l IH]; intros pre m Hm Hl.
  - reflexivity.
  - cbn [gef_NewFactory_loop1 dup_scan fac_map]. rewrite (map_rep_get2 m pre v Hm).
    cbn [length] in Hl.
    destruct (find_value_last pre v) as [r|] eqn:Ef.
    + assert (Hin : existsb (bytes_eqb v) pre = true).
      { apply existsb_bytes_eqb_In. destruct (find_value_last_some _ _ _ Ef) as [j [_ [_ Hn]]].
        eapply nth_error_In. exact Hn. }
      rewrite Hin. reflexivity.
    + assert (Hin : existsb (bytes_eqb v) pre = false).
      { destruct (existsb (bytes_eqb v) pre) eqn:E; [|reflexivity].
        apply existsb_bytes_eqb_In in E. apply find_value_last_in in Ef. tauto. }
      rewrite Hin.
      replace (Z.of_nat (length pre) + 1)%Z with (Z.of_nat (length (pre ++ [v]))) by (rewrite app_length; cbn [length]; lia).
      apply IH.
      * apply map_rep_snoc; [exact Hm|lia].
      * rewrite app_length. cbn [length]. lia.
Qed.

(* NewFactory: the two rejections of enum_new in the same order, then the factory for (values, no ranks); a
   negative size hint is a Go panic (make) — after the two tests.  The value table of the factory is a FRESH copy
   of the declaration (values = append(make([]string, 0, len(values)), values...), the repair of finding F27): in
   the list reading the same list — make([]string, 0, len(values)) cannot panic —, and the reason why the value
   reading of the later appends to it is exact (tools/qf2coq/enumfac.go rejects a NewFactory without the copy) *)
Definition factory_of (values : list bytes) : gef_Factory :=
  gef_mk_Factory (gef_mk_Column [] values (negb (Nat.eqb (length values) 0))) (fac_map values 0%Z []).

Theorem gef_NewFactory_eq values h :
  gef_NewFactory values h =
  if (N.to_nat c_maxCardinality <? length values) then Ok (None, Some err_too_many)
  else if negb (nodup_bytes values) then Ok (None, Some err_duplicate)
  else if (h <? 0)%Z then Panic
  else Ok (Some (factory_of values), None).
Proof.
  unfold gef_NewFactory. change (N.to_nat c_maxCardinality) with 255.
  destruct (255 <? length values) eqn:E1.
  - apply Nat.ltb_lt in E1. destruct (255 <? Z.of_nat (length values))%Z eqn:E2; [reflexivity|lia].
  - apply Nat.ltb_ge in E1. destruct (255 <? Z.of_nat (length values))%Z eqn:E2; [lia|].
    (* values = append(make([]string, 0, len(values)), values...): the fresh copy is the same list *)
    unfold gef_make0 at 1. destruct (Z.of_nat (length values) <? 0)%Z eqn:E0; [lia|]. cbn [obind app].
    assert (HL := NewFactory_loop values h values [] [] map_rep_nil ltac:(cbn [length]; lia)).
    change (Z.of_nat (length (@nil bytes))) with 0%Z in HL. rewrite HL. clear HL.
    rewrite (dup_scan_nodup values [] eq_refl). cbn [app].
    destruct (nodup_bytes values); cbn [negb]; [|reflexivity].
    unfold gef_make0. destruct (h <? 0)%Z; cbn [obind]; [reflexivity|].
    unfold factory_of.
    replace (0 <? Z.of_nat (length values))%Z with (negb (Nat.eqb (length values) 0)); [reflexivity|].
    destruct values as [|v vs]; [reflexivity|]. cbn [length Nat.eqb negb]. symmetry. apply Z.ltb_lt. lia.
Qed.

Lemma factory_of_map_rep values : length values <= 255 -> map_rep (fac_map values 0%Z []) values.
Proof. intro H. exact (fac_map_rep values [] [] map_rep_nil ltac:(cbn [length]; lia)). Qed.

(* ------------------------------------------------------------------ the factory state *)

(* a generated factory record stands for the model's factory state st = (values, ranks) in mode strict *)
Definition fac_rep (f : gef_Factory) (strict : bool) (st : list bytes * list N) : Prop :=
  gef_Factory_column f = gef_mk_Column (map Z.of_N (snd st)) (fst st) strict
  /\ map_rep (gef_Factory_valToEnum f) (fst st) /\ length (fst st) <= 255.

Lemma factory_of_rep values :
  length values <= 255 -> fac_rep (factory_of values) (negb (Nat.eqb (length values) 0)) (values, []).
Proof.
  intro H. split; [reflexivity|]. split; [|exact H]. apply factory_of_map_rep. exact H.
Qed.

Lemma AppendEnum_eq f (r : Z) :
  gef_Factory_AppendEnum f r =
  Ok (gef_Factory_set_column f (gef_Column_set_data (gef_Factory_column f) (gef_Column_data (gef_Factory_column f) ++ [r]))).
Proof. reflexivity. Qed.

Lemma AppendEnum_rep f strict vals acc (r : N) :
  fac_rep f strict (vals, acc) ->
  exists f', gef_Factory_AppendEnum f (Z.of_N r) = Ok f' /\ fac_rep f' strict (vals, acc ++ [r]).
Proof.
  intros [Hc [Hm Hl]]. eexists. split; [reflexivity|].
  destruct f as [c m]. cbn in *. subst c. split; [|split; assumption].
  cbn. rewrite map_app. reflexivity.
Qed.

(* AppendNil = the step of the model on a null cell *)
Theorem gef_AppendNil_step f strict st :
  fac_rep f strict st ->
  exists f', gef_Factory_AppendNil f = Ok f' /\ enum_step strict st None = Ok (fst st, snd st ++ [c_nullValue])
             /\ fac_rep f' strict (fst st, snd st ++ [c_nullValue]).
Proof.
  destruct st as [vals acc]. intro H.
  destruct (AppendEnum_rep f strict vals acc c_nullValue H) as [f' [E R]].
  exists f'. unfold gef_Factory_AppendNil. change 255%Z with (Z.of_N c_nullValue). rewrite E. cbn [obind].
  split; [reflexivity|]. split; [reflexivity|exact R].
Qed.

Definition err_append_strict : bytes * bytes :=
  ([97; 112; 112; 101; 110; 100; 32; 101; 110; 117; 109; 32; 118; 97; 108]%N,
   [117; 110; 107; 110; 111; 119; 110; 32; 101; 110; 117; 109; 32; 118; 97; 108; 117; 101; 32; 34; 37; 115; 34; 32;
    117; 115; 105; 110; 103; 32; 115; 116; 114; 105; 99; 116; 32; 101; 110; 117; 109]%N).
Definition err_append_card : bytes * bytes :=
  ([97; 112; 112; 101; 110; 100; 32; 101; 110; 117; 109; 32; 118; 97; 108]%N,
   [101; 110; 117; 109; 32; 109; 97; 120; 32; 99; 97; 114; 100; 105; 110; 97; 108; 105; 116; 121; 32; 40; 37; 100;
    41; 32; 101; 120; 99; 101; 101; 100; 101; 100]%N).

(* what a step of the model means for the generated code: the same new state, or an error and the old factory *)
Definition step_agrees (strict : bool) (f : gef_Factory) (r : outcome (gef_error * gef_Factory))
           (m : outcome (list bytes * list N)) : Prop :=
  match m with
  | Ok st' => exists f', r = Ok (None, f') /\ fac_rep f' strict st'
  | Fail => exists e, r = Ok (Some e, f)
  | Panic => False
  end.

Lemma newEnumVal_rep f strict vals acc s :
  fac_rep f strict (vals, acc) -> length vals < 255 ->
  exists f', gef_Factory_newEnumVal f s = Ok (Z.of_nat (length vals), f')
             /\ fac_rep f' strict (vals ++ [s], acc).
Proof.
  intros [Hc [Hm Hl]] Hlt. destruct f as [c m]. cbn in *. subst c.
  unfold gef_Factory_newEnumVal. cbn. rewrite gef_u8_small by lia.
  eexists. split; [reflexivity|]. split; [reflexivity|]. cbn. split.
  - rewrite <- (gef_u8_small (length vals)) by lia. apply map_rep_snoc; [exact Hm|lia].
  - rewrite app_length. cbn [length]. lia.
Qed.

(* the slow path: the value is not in the map *)
Lemma appendString_step f strict vals acc s :
  fac_rep f strict (vals, acc) -> find_value_last vals s = None ->
  step_agrees strict f (gef_Factory_appendString f s) (enum_step strict (vals, acc) (Some s))
  /\ (strict = true -> gef_Factory_appendString f s = Ok (Some err_append_strict, f))
  /\ (strict = false -> 255 <= length vals -> gef_Factory_appendString f s = Ok (Some err_append_card, f)).
Proof.
  intros H Ef. pose proof H as [Hc [Hm Hl]]. cbn [fst snd] in *.
  unfold enum_step. rewrite Ef. unfold gef_Factory_appendString. rewrite Hc. cbn [gef_Column_strict gef_Column_values].
  destruct strict.
  - split; [eexists; reflexivity|]. split; [reflexivity|discriminate].
  - change (N.to_nat c_maxCardinality) with 255.
    destruct (255 <=? length vals) eqn:E.
    + apply Nat.leb_le in E. destruct (255 <=? Z.of_nat (length vals))%Z eqn:E2; [|lia].
      split; [eexists; reflexivity|]. split; [discriminate|reflexivity].
    + apply Nat.leb_gt in E. destruct (255 <=? Z.of_nat (length vals))%Z eqn:E2; [lia|].
      destruct (newEnumVal_rep f false vals acc s H E) as [f1 [E1 R1]]. rewrite E1. cbn [obind].
      split; [|split; [discriminate|intros _ Hge; lia]].
      cbn [step_agrees]. eexists. split; [reflexivity|].
      destruct R1 as [Hc1 [Hm1 Hl1]]. cbn [fst snd] in *. split; [|split].
      * destruct f1 as [c1 m1]. cbn in *. subst c1. cbn. rewrite map_app. cbn [map]. rewrite nat_N_Z. reflexivity.
      * destruct f1 as [c1 m1]. cbn in *. exact Hm1.
      * exact Hl1.
Qed.

(* AppendString = the step of the model on a string cell *)
Theorem gef_AppendString_step f strict st s :
  fac_rep f strict st ->
  step_agrees strict f (gef_Factory_AppendString f s) (enum_step strict st (Some s)).
Proof.
  destruct st as [vals acc]. intro H. pose proof H as [Hc [Hm Hl]]. cbn [fst snd] in *.
  unfold gef_Factory_AppendString. rewrite (map_rep_get2 _ vals s Hm).
  destruct (find_value_last vals s) as [r|] eqn:Ef.
  - unfold enum_step. rewrite Ef. cbn [step_agrees]. eexists. split; [reflexivity|].
    destruct f as [c m]. cbn in *. subst c. split; [|split; assumption]. cbn. rewrite map_app. reflexivity.
  - destruct (appendString_step f strict vals acc s H Ef) as [HS _].
    destruct (enum_step strict (vals, acc) (Some s)) as [st'| |]; cbn [step_agrees] in *.
    + destruct HS as [f' [E R]]. rewrite E. cbn [obind]. exists f'. split; [reflexivity|exact R].
    + destruct HS as [e E]. rewrite E. cbn [obind]. exists e. reflexivity.
    + exact HS.
Qed.

(* AppendByteString: the same step (the conversion string(b) is the identity on byte strings) *)
Theorem gef_AppendByteString_step f strict st s :
  fac_rep f strict st ->
  step_agrees strict f (gef_Factory_AppendByteString f s) (enum_step strict st (Some s)).
Proof.
  destruct st as [vals acc]. intro H. pose proof H as [Hc [Hm Hl]]. cbn [fst snd] in *.
  unfold gef_Factory_AppendByteString. rewrite (map_rep_get2 _ vals s Hm).
  destruct (find_value_last vals s) as [r|] eqn:Ef.
  - unfold enum_step. rewrite Ef. cbn [step_agrees].
    destruct (AppendEnum_rep f strict vals acc r H) as [f' [E R]]. rewrite E. cbn [obind].
    exists f'. split; [reflexivity|exact R].
  - destruct (appendString_step f strict vals acc s H Ef) as [HS _].
    destruct (enum_step strict (vals, acc) (Some s)) as [st'| |]; cbn [step_agrees] in *.
    + destruct HS as [f' [E R]]. rewrite E. cbn [obind]. exists f'. split; [reflexivity|exact R].
    + destruct HS as [e E]. rewrite E. cbn [obind]. exists e. reflexivity.
    + exact HS.
Qed.

(* ToColumn *)
Lemma gef_ToColumn_eq f : gef_Factory_ToColumn f = Ok (gef_Factory_column f).
Proof. reflexivity. Qed.

(* ------------------------------------------------------------------ New *)

(* the enum column of the model as the generated record *)
Definition col_of (d : list N) (vals : list bytes) (strict : bool) : gef_Column :=
  gef_mk_Column (map Z.of_N d) vals strict.

(* what the model's answer means for the generated constructor *)
Definition new_agrees (r : outcome (gef_Column * gef_error)) (m : outcome coldata) : Prop :=
  match m with
  | Ok (ECol d vals strict) => r = Ok (col_of d vals strict, None)
  | Ok _ => False
  | Fail => exists e, r = Ok (gef_zero_Column, Some e)
  | Panic => False
  end.

Lemma New_loop strict l : forall f st,
  fac_rep f strict st ->
  match ofold (enum_step strict) l st with
  | Ok st' => gef_New_loop1 l (Some f) = Ok (col_of (snd st') (fst st') strict, None)
  | Fail => exists e, gef_New_loop1 l (Some f) = Ok (gef_zero_Column, Some e)
  | Panic => False
  end.
Proof.
  induction l as [|x l IH]; intros f st H.
  - cbn [ofold fold_left gef_New_loop1 gef_deref obind]. unfold ofold. cbn [fold_left].
    destruct H as [Hc _]. rewrite gef_ToColumn_eq. cbn [obind]. rewrite Hc. reflexivity.
  - rewrite ofold_cons'. cbn [gef_New_loop1]. destruct x as [s|]; cbn [gef_isnil negb gef_deref obind].
    + pose proof (gef_AppendString_step f strict st s H) as HS.
      destruct (enum_step strict st (Some s)) as [st1| |]; cbn [step_agrees obind] in *.
      * destruct HS as [f1 [E R]]. rewrite E. cbn [obind gef_isnil negb]. apply IH. exact R.
      * destruct HS as [e E]. rewrite E. cbn [obind gef_isnil negb]. exists e. reflexivity.
      * exact HS.
    + destruct (gef_AppendNil_step f strict st H) as [f1 [E [ES R]]]. rewrite E, ES. cbn [obind].
      apply IH. exact R.
Qed.

(* New = enum_new, for every data list and every declaration *)
Theorem gef_New_agrees data values : new_agrees (gef_New data values) (enum_new data values).
Proof.
  rewrite enum_new_unfold. unfold gef_New. rewrite gef_NewFactory_eq.
  destruct (N.to_nat c_maxCardinality <? length values) eqn:E1.
  - cbn [obind gef_isnil negb new_agrees]. eexists. reflexivity.
  - destruct (nodup_bytes values) eqn:E2; cbn [negb].
    + destruct (Z.of_nat (length data) <? 0)%Z eqn:E3; [lia|]. cbn [obind gef_isnil negb]. cbv zeta.
      apply Nat.ltb_ge in E1. change (N.to_nat c_maxCardinality) with 255 in E1.
      pose proof (New_loop _ data _ _ (factory_of_rep values E1)) as HL.
      destruct (ofold (enum_step (negb (length values =? 0))) data (values, [])) as [st'| |]; cbn [obind new_agrees].
      * exact HL.
      * exact HL.
      * exact HL.
    + cbn [obind gef_isnil negb new_agrees]. eexists. reflexivity.
Qed.

(* the same as an equation between observations: an error value is observed as Fail *)
Definition col_obs (r : outcome (gef_Column * gef_error)) : outcome coldata :=
  match r with
  | Ok (c, None) => Ok (ECol (map Z.to_N (gef_Column_data c)) (gef_Column_values c) (gef_Column_strict c))
  | Ok (_, Some _) => Fail
  | Panic => Panic
  | Fail => Panic
  end.

Lemma map_to_of_N d : map Z.to_N (map Z.of_N d) = d.
Proof. rewrite map_map. rewrite <- (map_id d) at 2. apply map_ext. intro a. apply N2Z.id. Qed.

Lemma enum_new_shape data values c : enum_new data values = Ok c -> exists d vals strict, c = ECol d vals strict.
Proof.
  rewrite enum_new_unfold. destruct (N.to_nat c_maxCardinality <? length values); [discriminate|].
  destruct (negb (nodup_bytes values)); [discriminate|]. cbv zeta.
  destruct (ofold _ data (values, [])) as [r| |]; cbn [obind]; try discriminate.
  intro H. inversion H. eauto.
Qed.

Lemma enum_new_no_panic data values : enum_new data values <> Panic.
Proof.
  intro H. pose proof (gef_New_agrees data values) as G. rewrite H in G. exact G.
Qed.

Theorem gef_New_eq data values : col_obs (gef_New data values) = enum_new data values.
Proof.
  pose proof (gef_New_agrees data values) as G.
  destruct (enum_new data values) as [c| |] eqn:E.
  - destruct (enum_new_shape _ _ _ E) as [d [vals [strict Hc]]]. subst c. cbn [new_agrees] in G.
    rewrite G. cbn [col_obs col_of gef_Column_data gef_Column_values gef_Column_strict]. rewrite map_to_of_N. reflexivity.
  - destruct G as [e G]. rewrite G. reflexivity.
  - exact (False_ind _ G).
Qed.

(* ------------------------------------------------------------------ NewConst *)

Lemma NewConst_loop (r : N) strict vals : forall (k : nat) (i : Z) f acc,
  fac_rep f strict (vals, acc) ->
  exists f', gef_NewConst_loop1 (repeat tt k) i (Some f) (Z.of_N r) = Ok (Some f')
             /\ fac_rep f' strict (vals, acc ++ repeat r k).
Proof.
  induction k as [|k IH]; intros i f acc H.
  - exists f. cbn [repeat]. rewrite app_nil_r. split; [reflexivity|exact H].
  - cbn [repeat gef_NewConst_loop1 gef_deref obind].
    destruct (AppendEnum_rep f strict vals acc r H) as [f1 [E R]]. rewrite E. cbn [obind].
    destruct (IH (i + 1)%Z f1 (acc ++ [r]) R) as [f' [E' R']]. exists f'. split; [exact E'|].
    rewrite <- app_assoc in R'. exact R'.
Qed.

(* enumVal: the resolution of the constant, once *)
Lemma enumVal_step f strict vals s :
  fac_rep f strict (vals, []) ->
  match s with
  | None => gef_Factory_enumVal f None = Ok (Z.of_N c_nullValue, None, f)
  | Some b =>
      match find_value_last vals b with
      | Some r => gef_Factory_enumVal f (Some b) = Ok (Z.of_N r, None, f)
      | None =>
          if strict then exists e, gef_Factory_enumVal f (Some b) = Ok (0%Z, Some e, f)
          else if (N.to_nat c_maxCardinality <=? length vals) then exists e, gef_Factory_enumVal f (Some b) = Ok (0%Z, Some e, f)
          else exists f', gef_Factory_enumVal f (Some b) = Ok (Z.of_nat (length vals), None, f')
                          /\ fac_rep f' strict (vals ++ [b], [])
      end
  end.
Proof.
  intro H. pose proof H as [Hc [Hm Hl]]. cbn [fst snd] in *.
  destruct s as [b|]; [|reflexivity].
  unfold gef_Factory_enumVal. cbn [gef_isnil gef_deref obind]. rewrite (map_rep_get2 _ vals b Hm).
  destruct (find_value_last vals b) as [r|] eqn:Ef; [reflexivity|].
  rewrite Hc. cbn [gef_Column_strict gef_Column_values]. destruct strict; [eexists; reflexivity|].
  change (N.to_nat c_maxCardinality) with 255.
  destruct (255 <=? length vals) eqn:E.
  - apply Nat.leb_le in E. destruct (255 <=? Z.of_nat (length vals))%Z eqn:E2; [|lia]. eexists; reflexivity.
  - apply Nat.leb_gt in E. destruct (255 <=? Z.of_nat (length vals))%Z eqn:E2; [lia|].
    destruct (newEnumVal_rep f false vals [] b H E) as [f1 [E1 R1]]. rewrite E1. cbn [obind].
    exists f1. split; [reflexivity|exact R1].
Qed.

Lemma fac_rep_column f strict vals acc : fac_rep f strict (vals, acc) -> gef_Factory_column f = col_of acc vals strict.
Proof. intros [Hc _]. exact Hc. Qed.

(* NewConst = enum_new_const for every count >= 0 *)
Theorem gef_NewConst_agrees v (count : Z) values :
  (0 <= count)%Z ->
  new_agrees (gef_NewConst v count values) (enum_new_const v (Z.to_nat count) values).
Proof.
  intro Hc. unfold enum_new_const, gef_NewConst. rewrite gef_NewFactory_eq.
  destruct (N.to_nat c_maxCardinality <? length values) eqn:E1.
  - cbn [obind gef_isnil negb new_agrees]. eexists. reflexivity.
  - destruct (nodup_bytes values) eqn:E2; cbn [negb]; [|cbn [obind gef_isnil negb new_agrees]; eexists; reflexivity].
    destruct (count <? 0)%Z eqn:E3; [lia|]. cbn [obind gef_isnil negb gef_deref]. cbv zeta.
    apply Nat.ltb_ge in E1. change (N.to_nat c_maxCardinality) with 255 in E1.
    pose proof (factory_of_rep values E1) as R0.
    set (strict := negb (length values =? 0)) in *.
    pose proof (enumVal_step (factory_of values) strict values v R0) as HV.
    unfold gef_count. rewrite Z.sub_0_r.
    destruct v as [b|].
    + destruct (find_value_last values b) as [r|] eqn:Ef.
      * rewrite HV. cbn [obind gef_isnil negb].
        destruct (NewConst_loop r strict values (Z.to_nat count) 0%Z _ [] R0) as [f' [E' R']]. rewrite E'.
        cbn [obind gef_deref app]. rewrite gef_ToColumn_eq. cbn [obind new_agrees].
        rewrite (fac_rep_column _ _ _ _ R'). reflexivity.
      * destruct strict.
        -- destruct HV as [e HV]. rewrite HV. cbn [obind gef_isnil negb new_agrees]. eexists. reflexivity.
        -- destruct (N.to_nat c_maxCardinality <=? length values).
           ++ destruct HV as [e HV]. rewrite HV. cbn [obind gef_isnil negb new_agrees]. eexists. reflexivity.
           ++ destruct HV as [f1 [HV R1]]. rewrite HV. cbn [obind gef_isnil negb].
              destruct (NewConst_loop (N.of_nat (length values)) false (values ++ [b]) (Z.to_nat count) 0%Z _ [] R1) as [f' [E' R']].
              rewrite nat_N_Z in E'. rewrite E'.
              cbn [obind gef_deref app]. rewrite gef_ToColumn_eq. cbn [obind new_agrees].
              rewrite (fac_rep_column _ _ _ _ R'). reflexivity.
    + rewrite HV. cbn [obind gef_isnil negb].
      destruct (NewConst_loop c_nullValue strict values (Z.to_nat count) 0%Z _ [] R0) as [f' [E' R']]. rewrite E'.
      cbn [obind gef_deref app]. rewrite gef_ToColumn_eq. cbn [obind new_agrees].
      rewrite (fac_rep_column _ _ _ _ R'). reflexivity.
Qed.

(* a negative count: the rejections of the declaration first, then the panic of make *)
Theorem gef_NewConst_negative v (count : Z) values :
  (count < 0)%Z ->
  gef_NewConst v count values =
  if (N.to_nat c_maxCardinality <? length values) then Ok (gef_zero_Column, Some err_too_many)
  else if negb (nodup_bytes values) then Ok (gef_zero_Column, Some err_duplicate) else Panic.
Proof.
  intro Hc. unfold gef_NewConst. rewrite gef_NewFactory_eq.
  destruct (N.to_nat c_maxCardinality <? length values); [reflexivity|].
  destruct (negb (nodup_bytes values)); [reflexivity|].
  destruct (count <? 0)%Z eqn:E; [reflexivity|lia].
Qed.

(* ------------------------------------------------------------------ Len, StringAt *)

Theorem gef_Len_eq d vals strict : gef_Column_Len (col_of d vals strict) = Ok (Z.of_nat (col_len (ECol d vals strict))).
Proof. unfold gef_Column_Len, col_of. cbn. rewrite map_length. reflexivity. Qed.

(* StringAt(i, naRep) = the cell of the model at i, naRep for null *)
Theorem gef_StringAt_eq d vals strict (p : nat) na :
  gef_Column_StringAt (col_of d vals strict) (Z.of_nat p) na =
  do c <- cell_at (ECol d vals strict) p;
  match c with CEnum (Some s) => Ok s | CEnum None => Ok na | _ => Panic end.
Proof.
  unfold gef_Column_StringAt, col_of. cbn [gef_Column_data gef_Column_values cell_at].
  rewrite gef_index_nat. unfold idx. rewrite nth_error_map.
  destruct (nth_error d p) as [r|]; cbn [option_map of_option obind]; [|reflexivity].
  rewrite isNull_N. unfold enum_string. destruct (enum_is_null r); cbn [obind]; [reflexivity|].
  rewrite gef_index_N. destruct (idx vals (N.to_nat r)); reflexivity.
Qed.

(* ------------------------------------------------------------------ equalTypes *)

Lemma equalTypes_loop s2vals d2 st2 : forall (l : list bytes) (pre : list bytes) (rest : list bytes),
  s2vals = pre ++ rest -> length rest = length l ->
  gef_equalTypes_loop1 l (Z.of_nat (length pre)) (gef_mk_Column d2 s2vals st2) = Ok (list_eqb bytes_eqb l rest).
Proof.
  induction l as [|v l IH]; intros pre rest Hs Hl; destruct rest as [|w rest]; cbn [length] in Hl; try lia.
  - reflexivity.
  - cbn [gef_equalTypes_loop1 gef_Column_values list_eqb]. rewrite gef_index_nat. unfold idx.
    assert (Hn : nth_error s2vals (length pre) = Some w).
    { rewrite Hs, nth_error_app2 by lia. rewrite Nat.sub_diag. reflexivity. }
    rewrite Hn. cbn [of_option obind].
    destruct (bytes_eqb v w); cbn [negb andb]; [|reflexivity].
    replace (Z.of_nat (length pre) + 1)%Z with (Z.of_nat (length (pre ++ [w]))) by (rewrite app_length; cbn [length]; lia).
    apply IH; [rewrite <- app_assoc; exact Hs|lia].
Qed.

Theorem gef_equalTypes_eq d1 v1 st1 d2 v2 st2 :
  gef_equalTypes (gef_mk_Column d1 v1 st1) (gef_mk_Column d2 v2 st2) =
  Ok (equal_types v1 (length d1) v2 (length d2)).
Proof.
  unfold gef_equalTypes, equal_types. cbn [gef_Column_values gef_Column_data].
  destruct (Nat.eqb_spec (length v1) (length v2)) as [E1|E1].
  - destruct (Z.eqb_spec (Z.of_nat (length v1)) (Z.of_nat (length v2))) as [_|N1]; [|lia]. cbn [negb orb andb].
    destruct (Nat.eqb_spec (length d1) (length d2)) as [E2|E2].
    + destruct (Z.eqb_spec (Z.of_nat (length d1)) (Z.of_nat (length d2))) as [_|N2]; [|lia]. cbn [negb andb].
      exact (equalTypes_loop v2 d2 st2 v1 [] v2 eq_refl (eq_sym E1)).
    + destruct (Z.eqb_spec (Z.of_nat (length d1)) (Z.of_nat (length d2))) as [N2|_]; [lia|]. reflexivity.
  - destruct (Z.eqb_spec (Z.of_nat (length v1)) (Z.of_nat (length v2))) as [N1|_]; [lia|]. reflexivity.
Qed.

(* ------------------------------------------------------------------ Equals *)

(* column.Column as the tagged union: the enum column or anything else *)
Definition anycol_of (c : coldata) : gef_anycolumn :=
  match c with ECol d vals strict => gef_col_enum (col_of d vals strict) | _ => gef_col_other end.

Definition ranks_ok (c : coldata) : bool :=
  match c with ECol d vs _ => forallb (enum_rank_ok vs) d | _ => true end.

Fixpoint eq_go (c o : coldata) (a b : list nat) : outcome bool :=
  match a with
  | [] => Ok true
  | p :: a' =>
      match b with
      | [] => Panic
      | q :: b' =>
          do x <- cell_at c p; do y <- cell_at o q;
          if cell_eqb x y then eq_go c o a' b' else Ok false
      end
  end.

Lemma col_equals_unfold c index o oindex :
  col_equals c index o oindex =
  if negb (ctype_eqb (col_type c) (col_type o)) then Ok false else eq_go c o index oindex.
Proof.
  unfold col_equals. destruct (negb (ctype_eqb (col_type c) (col_type o))); [reflexivity|].
  revert oindex. induction index as [|p a IH]; intro oindex; [reflexivity|].
  destruct oindex as [|q b]; [reflexivity|]. cbn [eq_go]. rewrite <- IH. reflexivity.
Qed.

Lemma rank_cell d vs p r :
  forallb (enum_rank_ok vs) d = true -> nth_error d p = Some r ->
  (enum_is_null r = true /\ enum_string vs r = Ok None)
  \/ (enum_is_null r = false /\ exists s, nth_error vs (N.to_nat r) = Some s /\ enum_string vs r = Ok (Some s)).
Proof.
  intros Hw Hn. rewrite forallb_forall in Hw. specialize (Hw r (nth_error_In _ _ Hn)).
  unfold enum_rank_ok in Hw. unfold enum_string. destruct (enum_is_null r) eqn:En.
  - left. split; reflexivity.
  - right. split; [reflexivity|]. cbn [orb] in Hw. apply Nat.ltb_lt in Hw.
    destruct (nth_error vs (N.to_nat r)) as [s|] eqn:Es.
    + exists s. split; [reflexivity|]. unfold idx. rewrite Es. reflexivity.
    + apply nth_error_None in Es. lia.
Qed.

Lemma Equals_loop d vs st d' vs' st' :
  forallb (enum_rank_ok vs) d = true -> forallb (enum_rank_ok vs') d' = true ->
  forall a opre b,
  gef_Column_Equals_loop1 (map Z.of_nat a) (Z.of_nat (length opre)) (col_of d vs st)
                          (map Z.of_nat (opre ++ b)) (col_of d' vs' st')
  = eq_go (ECol d vs st) (ECol d' vs' st') a b.
Proof.
  intros Hw Hw'. induction a as [|p a IH]; intros opre b; [reflexivity|].
  cbn [map gef_Column_Equals_loop1 eq_go col_of gef_Column_data gef_Column_values cell_at].
  rewrite gef_index_nat. unfold idx at 1. rewrite nth_error_map.
  destruct (nth_error d p) as [r|] eqn:Er; cbn [option_map of_option obind].
  2:{ destruct b; [reflexivity|]. unfold idx. rewrite Er. reflexivity. }
  rewrite gef_index_nat. unfold idx at 1. rewrite nth_error_map, nth_error_app2 by lia. rewrite Nat.sub_diag.
  destruct b as [|q b]; cbn [nth_error option_map of_option obind]; [reflexivity|].
  rewrite gef_index_nat. unfold idx at 1. rewrite nth_error_map.
  unfold idx at 1. rewrite Er. cbn [of_option obind].
  destruct (rank_cell d vs p r Hw Er) as [[En Es]|[En [s [Hs Es]]]]; rewrite Es; cbn [obind].
  - destruct (nth_error d' q) as [r'|] eqn:Er'; cbn [option_map of_option obind].
    2:{ unfold idx. rewrite Er'. reflexivity. }
    unfold idx at 1. rewrite Er'. cbn [of_option obind].
    rewrite !isNull_N, En. cbn [orb].
    destruct (rank_cell d' vs' q r' Hw' Er') as [[En' Es']|[En' [s' [Hs' Es']]]]; rewrite Es'; cbn [obind cell_eqb opt_bytes_eqb].
    + unfold enum_is_null in En, En'. apply N.eqb_eq in En, En'. subst r r'. rewrite Z.eqb_refl.
      replace (Z.of_nat (length opre) + 1)%Z with (Z.of_nat (length (opre ++ [q]))) by (rewrite app_length; cbn [length]; lia).
      replace (opre ++ q :: b) with ((opre ++ [q]) ++ b) by (rewrite <- app_assoc; reflexivity).
      apply IH.
    + unfold enum_is_null in En, En'. apply N.eqb_eq in En. apply N.eqb_neq in En'.
      destruct (Z.eqb_spec (Z.of_N r) (Z.of_N r')) as [E|E]; [|reflexivity]. apply N2Z.inj in E. congruence.
  - destruct (nth_error d' q) as [r'|] eqn:Er'; cbn [option_map of_option obind].
    2:{ unfold idx. rewrite Er'. reflexivity. }
    unfold idx at 1. rewrite Er'. cbn [of_option obind].
    rewrite !isNull_N, En. cbn [orb].
    destruct (rank_cell d' vs' q r' Hw' Er') as [[En' Es']|[En' [s' [Hs' Es']]]]; rewrite Es', En'; cbn [obind cell_eqb opt_bytes_eqb].
    + unfold enum_is_null in En, En'. apply N.eqb_eq in En'. apply N.eqb_neq in En.
      destruct (Z.eqb_spec (Z.of_N r) (Z.of_N r')) as [E|E]; [|reflexivity]. apply N2Z.inj in E. congruence.
    + rewrite !gef_index_N. unfold idx. rewrite Hs, Hs'. cbn [of_option obind].
      destruct (bytes_eqb s s'); cbn [negb]; [|reflexivity].
      replace (Z.of_nat (length opre) + 1)%Z with (Z.of_nat (length (opre ++ [q]))) by (rewrite app_length; cbn [length]; lia).
      replace (opre ++ q :: b) with ((opre ++ [q]) ++ b) by (rewrite <- app_assoc; reflexivity).
      apply IH.
Qed.

(* Column.Equals on an enum receiver = col_equals of the model, for every other column (an enum column or not),
   every pair of index lists — a too short second index is the same panic — provided the ranks of both columns
   point into their value tables (what every column built by the factory satisfies: col_wf) *)
Theorem gef_Equals_eq d vs st (o : coldata) (index oindex : list nat) :
  forallb (enum_rank_ok vs) d = true -> ranks_ok o = true ->
  gef_Column_Equals (col_of d vs st) (map Z.of_nat index) (anycol_of o) (map Z.of_nat oindex)
  = col_equals (ECol d vs st) index o oindex.
Proof.
  intros Hw Hw'. rewrite col_equals_unfold. unfold gef_Column_Equals.
  destruct o as [x|x|x|x|d' vs' st']; try reflexivity.
  cbn [anycol_of gef_as_Column negb col_type ctype_eqb ranks_ok] in *.
  exact (Equals_loop d vs st d' vs' st' Hw Hw' index [] oindex).
Qed.

(* ------------------------------------------------------------------ C17 on the translated text *)

(* whatever the translated New accepts is read back exactly through the translated StringAt *)
Theorem gef_New_decode data values c na :
  gef_New data values = Ok (c, None) ->
  length (gef_Column_values c) <= 255
  /\ (exists ext, gef_Column_values c = values ++ ext) /\ (values <> [] -> gef_Column_values c = values)
  /\ length (gef_Column_data c) = length data
  /\ forall k s, nth_error data k = Some s ->
       gef_Column_StringAt c (Z.of_nat k) na = Ok (match s with Some b => b | None => na end).
Proof.
  intro H. pose proof (gef_New_agrees data values) as G.
  destruct (enum_new data values) as [m| |] eqn:E; cbn [new_agrees] in G.
  - destruct (enum_new_shape _ _ _ E) as [d [vals [strict Hm]]]. subst m. rewrite H in G. inversion G; subst c.
    destruct (enum_new_decode _ _ _ _ _ E) as [H1 [H2 [H3 [H4 H5]]]].
    cbn [col_of gef_Column_values gef_Column_data]. rewrite map_length.
    repeat split; try assumption.
    intros k s Hk. fold (col_of d vals strict). rewrite gef_StringAt_eq, (H5 k s Hk). cbn [obind]. destruct s; reflexivity.
  - destruct G as [e G]. rewrite H in G. discriminate.
  - exact (False_ind _ G).
Qed.

(* with declared values the translated New answers an error on any undeclared value *)
Theorem gef_New_strict data values b :
  values <> [] -> In (Some b) data -> ~ In b values -> exists e, gef_New data values = Ok (gef_zero_Column, Some e).
Proof.
  intros H1 H2 H3. pose proof (gef_New_agrees data values) as G.
  destruct (enum_new_strict data values b H1 H2 H3) as [_ HS].
  destruct (enum_new data values) as [m| |] eqn:E; cbn [new_agrees] in G.
  - destruct (enum_new_shape _ _ _ E) as [d [vals [strict Hm]]]. subst m. exfalso. exact (HS d vals strict eq_refl).
  - exact G.
  - exact (False_ind _ G).
Qed.

(* ================================================================== QFrame.ToJSON: the record assembly *)
From QF Require Import Model.Json.

Section ToJSON.
Context {C W : Type}.
Variable cname : C -> bytes.                       (* col.name *)
Variable cellf : C -> Z -> outcome bytes.          (* the bytes col.AppendByteStringAt appends for row id ix *)
Variable write : W -> bytes -> Z * gef_error * W.  (* writer.Write *)

(* the reading of the column level: AppendByteStringAt appends the rendering of the cell to the buffer it is
   given (what T1_strings_AppendQuotedString_prefix proves for the string renderer, strconv.Append* do by contract) *)
Definition app_at (c : C) (buf : bytes) (ix : Z) : outcome bytes := do x <- cellf c ix; Ok (buf ++ x).

(* a sequence of Write calls stopped by the first error: the error returned and the final writer *)
Fixpoint write_all (w : W) (pieces : list bytes) : gef_error * W :=
  match pieces with
  | [] => (None, w)
  | p :: rest => let '(_, e, w') := write w p in if gef_isnil e then write_all w' rest else (e, w')
  end.

Lemma set_nth_mid {T} (pre : list T) x rest v : set_nth (pre ++ x :: rest) (length pre) v = pre ++ v :: rest.
Proof. induction pre as [|a pre IH]; cbn [app length set_nth]; [reflexivity|]. rewrite IH. reflexivity. Qed.

Lemma nth_error_mid {T} (pre : list T) x rest : nth_error (pre ++ x :: rest) (length pre) = Some x.
Proof. rewrite nth_error_app2 by lia. rewrite Nat.sub_diag. reflexivity. Qed.

Lemma ToJSON_loop1 (cols : list C) : forall (done : list bytes) (pad : list bytes),
  length pad = length cols ->
  gef_QFrame_ToJSON_loop1 cname quoted_bytes cols (Z.of_nat (length done)) (done ++ pad)
  = do qs <- omap (fun c => quoted_bytes (cname c)) cols; Ok (done ++ qs).
Proof.
  induction cols as [|c cols IH]; intros done pad Hl; destruct pad as [|x pad]; cbn [length] in Hl; try lia.
  - reflexivity.
  - cbn [gef_QFrame_ToJSON_loop1 omap].
    destruct (quoted_bytes (cname c)) as [q| |]; cbn [obind]; try reflexivity.
    unfold gef_update. destruct (Z.of_nat (length done) <? 0)%Z eqn:E; [lia|]. rewrite Nat2Z.id.
    unfold idx. rewrite nth_error_mid. cbn [of_option obind]. rewrite set_nth_mid.
    replace (Z.of_nat (length done) + 1)%Z with (Z.of_nat (length (done ++ [q]))) by (rewrite app_length; cbn [length]; lia).
    replace (done ++ q :: pad) with ((done ++ [q]) ++ pad) by (rewrite <- app_assoc; reflexivity).
    rewrite IH by lia.
    destruct (omap (fun c0 => quoted_bytes (cname c0)) cols) as [qs| |]; cbn [obind]; try reflexivity.
    rewrite <- app_assoc. reflexivity.
Qed.

Lemma ToJSON_loop2 (ix : Z) (cols : list C) : forall (pre qs : list bytes) (buf : bytes),
  length qs = length cols ->
  gef_QFrame_ToJSON_loop2 app_at cols (Z.of_nat (length pre)) (pre ++ qs) buf ix
  = do cells <- omap (fun c => cellf c ix) cols; Ok (tojson_cols buf qs cells).
Proof.
  induction cols as [|c cols IH]; intros pre qs buf Hl; destruct qs as [|q qs]; cbn [length] in Hl; try lia.
  - reflexivity.
  - cbn [gef_QFrame_ToJSON_loop2 omap]. rewrite gef_index_nat. unfold idx. rewrite nth_error_mid. cbn [of_option obind].
    unfold app_at. destruct (cellf c ix) as [x| |]; cbn [obind]; try reflexivity.
    replace (Z.of_nat (length pre) + 1)%Z with (Z.of_nat (length (pre ++ [q]))) by (rewrite app_length; cbn [length]; lia).
    replace (pre ++ q :: qs) with ((pre ++ [q]) ++ qs) by (rewrite <- app_assoc; reflexivity).
    rewrite IH by lia.
    destruct (omap (fun c0 => cellf c0 ix) cols) as [xs| |]; cbn [obind]; try reflexivity.
    cbn [tojson_cols]. do 2 f_equal. unfold c_colon, c_comma. rewrite <- !app_assoc. reflexivity.
Qed.

Lemma tojson_cols_extends qs : forall buf cells, exists t, tojson_cols buf qs cells = buf ++ t.
Proof.
  induction qs as [|q qs IH]; intros buf cells.
  - exists []. destruct cells; cbn; rewrite app_nil_r; reflexivity.
  - destruct cells as [|c cells]; [exists []; cbn; rewrite app_nil_r; reflexivity|].
    cbn [tojson_cols]. destruct (IH (buf ++ q ++ [c_colon] ++ c ++ [c_comma]) cells) as [t Ht].
    rewrite Ht. eexists. rewrite <- app_assoc. reflexivity.
Qed.

(* one row: the piece handed to Write *)
Definition row_piece (i : nat) (qs : list bytes) (cells : list bytes) : bytes :=
  let b2 := tojson_cols ((if (0 <? i) then [c_comma] else []) ++ [c_lbrace]) qs cells in
  (if (last b2 0%N =? c_comma)%N then removelast b2 else b2) ++ [c_rbrace].

Lemma last_idx (b : bytes) : b <> [] -> idx b (length b - 1) = Ok (last b 0%N).
Proof.
  intro H. destruct (exists_last H) as [b' [x Hb]]. subst b. rewrite last_last, app_length. cbn [length].
  replace (length b' + 1 - 1) with (length b') by lia. unfold idx. rewrite nth_error_mid. reflexivity.
Qed.

Lemma firstn_removelast (b : bytes) : b <> [] -> firstn (length b - 1) b = removelast b.
Proof.
  intro H. destruct (exists_last H) as [b' [x Hb]]. subst b. rewrite removelast_last, app_length. cbn [length].
  replace (length b' + 1 - 1) with (length b') by lia. rewrite firstn_app, Nat.sub_diag, firstn_all. cbn. apply app_nil_r.
Qed.

Lemma tojson_row_eq i qs cells : tojson_row i qs cells = Ok (row_piece i qs cells).
Proof.
  unfold tojson_row, row_piece, last_index. cbv zeta.
  set (b2 := tojson_cols _ qs cells).
  assert (Hne : b2 <> []).
  { subst b2. destruct (tojson_cols_extends qs ((if 0 <? i then [c_comma] else []) ++ [c_lbrace]) cells) as [t Ht].
    rewrite Ht. destruct (0 <? i); discriminate. }
  rewrite (last_idx b2 Hne). cbn [obind]. rewrite (firstn_removelast b2 Hne). reflexivity.
Qed.

Lemma tojson_rows_eq qs rows : forall i,
  tojson_rows i qs rows = Ok (map (fun ir => row_piece (fst ir) qs (snd ir)) (combine (seq i (length rows)) rows)).
Proof.
  induction rows as [|r rows IH]; intro i; [reflexivity|].
  cbn [tojson_rows length seq combine map fst snd]. rewrite tojson_row_eq. cbn [obind]. rewrite IH. reflexivity.
Qed.

Section Loop3.
Variable cols : list C.
Variable qs : list bytes.
Hypothesis Hqs : length qs = length cols.

Lemma ToJSON_loop3 cbn_ix qix cbn_e : forall (index : list Z) (i : nat) (w : W) (buf : bytes) (err : gef_error) (rows : list (list bytes)),
  omap (fun ix => omap (fun c => cellf c ix) cols) index = Ok rows ->
  gef_QFrame_ToJSON_loop3 app_at write index (Z.of_nat i) (gef_mk_QFrame cols cbn_ix qix cbn_e) w qs buf err
  = do ws <- tojson_rows i qs rows; Ok (write_all w (ws ++ [[c_rbracket]])).
Proof.
  induction index as [|ix index IH]; intros i w buf err rows Hr.
  - cbn [omap] in Hr. inversion Hr; subst rows. cbn [gef_QFrame_ToJSON_loop3 tojson_rows obind app write_all].
    unfold c_rbracket. destruct (write w [93%N]) as [[n e] w']. destruct e; reflexivity.
  - cbn [omap] in Hr.
    destruct (omap (fun c => cellf c ix) cols) as [cells| |] eqn:Ec; cbn [obind] in Hr; try discriminate.
    destruct (omap (fun ix0 => omap (fun c => cellf c ix0) cols) index) as [rows'| |] eqn:Er; cbn [obind] in Hr; try discriminate.
    inversion Hr; subst rows. clear Hr.
    cbn [gef_QFrame_ToJSON_loop3 tojson_rows gef_QFrame_columns].
    rewrite tojson_row_eq. cbn [obind].
    assert (Hb : (do v_jsonBuf <- (if (0 <? Z.of_nat i)%Z then Ok (([] : bytes) ++ [44%N]) else Ok ([] : bytes)); Ok v_jsonBuf)
                 = Ok (if (0 <? i) then [c_comma] else [])).
    { destruct i; reflexivity. }
    replace (if (0 <? Z.of_nat i)%Z then Ok (([] : bytes) ++ [44%N]) else Ok ([] : bytes))
      with (Ok (A := bytes) (if (0 <? i) then [c_comma] else [])) by (destruct i; reflexivity).
    cbn [obind].
    pose proof (ToJSON_loop2 ix cols [] qs ((if 0 <? i then [c_comma] else []) ++ [123%N]) Hqs) as H2.
    cbn [length app Z.of_nat] in H2.
    match goal with |- context [gef_QFrame_ToJSON_loop2 ?a ?b ?c ?d ?e ?f] =>
      rewrite (H2 : gef_QFrame_ToJSON_loop2 a b c d e f = _) end.
    rewrite Ec. cbn [obind]. clear H2 Hb.
    fold c_lbrace. set (b2 := tojson_cols _ qs cells).
    assert (Hne : b2 <> []).
    { subst b2. destruct (tojson_cols_extends qs ((if 0 <? i then [c_comma] else []) ++ [c_lbrace]) cells) as [t Ht].
      rewrite Ht. destruct (0 <? i); discriminate. }
    assert (Hlen : (Z.of_nat (length b2) - 1)%Z = Z.of_nat (length b2 - 1)).
    { destruct b2; [congruence|cbn [length]; lia]. }
    rewrite Hlen, gef_index_nat, (last_idx b2 Hne). cbn [obind].
    assert (Hp : (do v_jsonBuf <- (if (last b2 0 =? 44)%N then do t10 <- gef_prefix b2 (Z.of_nat (length b2 - 1)); Ok t10 else Ok b2); Ok v_jsonBuf)
                 = Ok (if (last b2 0%N =? c_comma)%N then removelast b2 else b2)).
    { unfold c_comma. destruct (last b2 0 =? 44)%N; [|reflexivity].
      unfold gef_prefix. destruct ((Z.of_nat (length b2 - 1) <? 0)%Z || (Z.of_nat (length b2) <? Z.of_nat (length b2 - 1))%Z) eqn:E; [lia|].
      cbn [obind]. rewrite Nat2Z.id, (firstn_removelast b2 Hne). reflexivity. }
    replace (if (last b2 0 =? 44)%N then do t10 <- gef_prefix b2 (Z.of_nat (length b2 - 1)); Ok t10 else Ok b2)
      with (Ok (A := bytes) (if (last b2 0%N =? c_comma)%N then removelast b2 else b2)).
    2:{ unfold c_comma. destruct (last b2 0 =? 44)%N; [|reflexivity].
        unfold gef_prefix. destruct ((Z.of_nat (length b2 - 1) <? 0)%Z || (Z.of_nat (length b2) <? Z.of_nat (length b2 - 1))%Z) eqn:E; [lia|].
        cbn [obind]. rewrite Nat2Z.id, (firstn_removelast b2 Hne). reflexivity. }
    clear Hp. cbn [obind]. fold c_rbrace.
    match goal with |- context [write w ?p] => change p with (row_piece i qs cells) end.
    rewrite tojson_rows_eq. cbn [obind app write_all].
    destruct (write w (row_piece i qs cells)) as [[n e] w'].
    destruct e as [e|]; cbn [gef_isnil negb]; [reflexivity|].
    replace (Z.of_nat i + 1)%Z with (Z.of_nat (S i)) by lia.
    rewrite (IH (S i) w' _ None rows' eq_refl), tojson_rows_eq. reflexivity.
Qed.
End Loop3.

Lemma omap_map {A B D} (f : A -> B) (g : B -> outcome D) l : omap g (map f l) = omap (fun x => g (f x)) l.
Proof. induction l as [|x l IH]; cbn [map omap]; [reflexivity|]. rewrite IH. reflexivity. Qed.

(* ToJSON on a frame whose Err is set: the error, nothing written *)
Theorem gef_ToJSON_err cols byname index e (w : W) :
  gef_QFrame_ToJSON cname app_at quoted_bytes write (gef_mk_QFrame cols byname index (Some e)) w
  = Ok (gef_propagate [84; 111; 74; 83; 79; 78]%N (Some e), w).
Proof. reflexivity. Qed.

(* ToJSON = the Write calls of Model/Json.v to_json_writes, handed to the writer until its first error *)
Theorem gef_ToJSON_eq cols byname index (w : W) rows :
  omap (fun ix => omap (fun c => cellf c ix) cols) index = Ok rows ->
  gef_QFrame_ToJSON cname app_at quoted_bytes write (gef_mk_QFrame cols byname index None) w
  = do pieces <- to_json_writes (map cname cols) rows; Ok (write_all w pieces).
Proof.
  intro Hr. unfold gef_QFrame_ToJSON, to_json_writes. cbn [gef_QFrame_Err gef_isnil negb gef_QFrame_columns gef_QFrame_index].
  unfold gef_make. destruct (Z.of_nat (length cols) <? 0)%Z eqn:E; [lia|]. cbn [obind]. rewrite Nat2Z.id.
  pose proof (ToJSON_loop1 cols [] (repeat ([] : bytes) (length cols)) (repeat_length _ _)) as H1.
  cbn [length app Z.of_nat] in H1. rewrite H1. clear H1. rewrite omap_map.
  destruct (omap (fun c => quoted_bytes (cname c)) cols) as [qs| |] eqn:Eq; cbn [obind]; try reflexivity.
  assert (Hqs : length qs = length cols).
  { clear - Eq. revert qs Eq. induction cols as [|c cols IH]; intros qs Eq; cbn [omap] in Eq.
    - inversion Eq. reflexivity.
    - destruct (quoted_bytes (cname c)); cbn [obind] in Eq; try discriminate.
      destruct (omap (fun c0 => quoted_bytes (cname c0)) cols) as [qs'| |]; cbn [obind] in Eq; try discriminate.
      inversion Eq. cbn [length]. f_equal. apply IH. reflexivity. }
  rewrite tojson_rows_eq. cbn [obind app write_all]. unfold c_lbracket.
  destruct (write w [91%N]) as [[n e] w'] eqn:Ew.
  destruct e as [e|]; cbn [gef_isnil negb]; [reflexivity|].
  pose proof (ToJSON_loop3 cols qs Hqs byname index None index 0 w' [91%N] None rows Hr) as H3.
  cbn [Z.of_nat] in H3. rewrite H3, tojson_rows_eq. reflexivity.
Qed.

End ToJSON.

(* ------------------------------------------------------------------ ToJSON with a recording writer; frames *)
From QF Require Import Proofs.JsonProofs Model.JsonRead.

(* a writer that accepts everything and records the Write calls *)
Definition rec_write (w : list bytes) (p : bytes) : Z * gef_error * list bytes := (Z.of_nat (length p), None, w ++ [p]).

Lemma write_all_rec pieces : forall w, write_all rec_write w pieces = (None, w ++ pieces).
Proof.
  induction pieces as [|p pieces IH]; intro w; cbn [write_all rec_write gef_isnil].
  - rewrite app_nil_r. reflexivity.
  - rewrite IH, <- app_assoc. reflexivity.
Qed.

Section ToJSONRecorded.
Context {C : Type}.
Variable cname : C -> bytes.
Variable cellf : C -> Z -> outcome bytes.

Theorem gef_ToJSON_recorded cols byname index rows :
  omap (fun ix => omap (fun c => cellf c ix) cols) index = Ok rows ->
  gef_QFrame_ToJSON cname (app_at cellf) quoted_bytes rec_write (gef_mk_QFrame cols byname index None) []
  = do pieces <- to_json_writes (map cname cols) rows; Ok (None, pieces).
Proof.
  intro H. rewrite (gef_ToJSON_eq cname cellf rec_write cols byname index [] rows H).
  destruct (to_json_writes (map cname cols) rows) as [ps| |]; cbn [obind]; try reflexivity.
  rewrite write_all_rec. reflexivity.
Qed.

(* C14_to_json_shape on the translated text: never an error, and the bytes written are
   [ obj , obj ... ]  with  obj = { qname : cell , ... } *)
Theorem gef_ToJSON_shape cols byname index rows :
  omap (fun ix => omap (fun c => cellf c ix) cols) index = Ok rows ->
  exists qnames ws, omap quoted_bytes (map cname cols) = Ok qnames /\ length qnames = length cols
    /\ gef_QFrame_ToJSON cname (app_at cellf) quoted_bytes rec_write (gef_mk_QFrame cols byname index None) [] = Ok (None, ws)
    /\ concat ws = doc_text qnames rows.
Proof.
  intro H. destruct (to_json_shape (map cname cols) rows) as [qnames [Hq [Hl Ht]]].
  rewrite (gef_ToJSON_recorded cols byname index rows H).
  unfold to_json in Ht. destruct (to_json_writes (map cname cols) rows) as [ps| |]; cbn [obind] in *; try discriminate.
  exists qnames, ps. rewrite map_length in Hl. repeat split; try assumption. inversion Ht. reflexivity.
Qed.
End ToJSONRecorded.

(* the frame of the model as the generated record (the by-name map plays no part in ToJSON) *)
Definition frame_rec (f : frame) : gef_QFrame (C := bytes * coldata) :=
  gef_mk_QFrame (cols f) [] (map Z.of_nat (ix f)) (if ferr f then Some (([] : bytes), ([] : bytes)) else None).
(* col.AppendByteStringAt at row id ix appends the model's rendering of the cell *)
Definition fcell (c : bytes * coldata) (ix : Z) : outcome bytes := do x <- cell_at (snd c) (Z.to_nat ix); cell_json x.

Lemma omap_ok_fuse {A B D} (g : A -> outcome B) (h : B -> outcome D) l : forall l' l'',
  omap g l = Ok l' -> omap h l' = Ok l'' -> omap (fun x => do y <- g x; h y) l = Ok l''.
Proof.
  induction l as [|x l IH]; intros l' l'' H1 H2; cbn [omap] in *.
  - inversion H1; subst. cbn [omap] in H2. exact H2.
  - destruct (g x) as [y| |]; cbn [obind] in *; try discriminate.
    destruct (omap g l) as [ys| |]; cbn [obind] in *; try discriminate.
    inversion H1; subst. cbn [omap] in H2.
    destruct (h y) as [z| |]; cbn [obind] in *; try discriminate.
    destruct (omap h ys) as [zs| |] eqn:E; cbn [obind] in *; try discriminate.
    rewrite (IH ys zs eq_refl E). exact H2.
Qed.

Lemma omap_ext {A B} (f g : A -> outcome B) l : (forall x, f x = g x) -> omap f l = omap g l.
Proof. intro H. induction l as [|x l IH]; cbn [omap]; [reflexivity|]. rewrite H, IH. reflexivity. Qed.

(* whenever the model of ToJSON (Model/JsonRead.v frame_to_json, the one the strings engine executes) produces a
   document, the translated ToJSON hands exactly that document to the writer, in pieces, without error *)
Theorem gef_ToJSON_frame f out :
  frame_to_json f = Ok out ->
  exists ws, gef_QFrame_ToJSON fst (app_at fcell) quoted_bytes rec_write (frame_rec f) [] = Ok (None, ws)
             /\ concat ws = out.
Proof.
  unfold frame_to_json, frame_rec. destruct (ferr f); [discriminate|].
  unfold abs. intro H.
  destruct (omap (row_at f) (ix f)) as [cellrows| |] eqn:E1; cbn [obind trows tnames] in H; try discriminate.
  destruct (omap (omap cell_json) cellrows) as [rows| |] eqn:E2; cbn [obind] in H; try discriminate.
  assert (Hr : omap (fun ix0 => omap (fun c => fcell c ix0) (cols f)) (map Z.of_nat (ix f)) = Ok rows).
  { rewrite omap_map. clear H. revert cellrows rows E1 E2. generalize (ix f). intro ixs.
    induction ixs as [|p ixs IH]; intros cellrows rows E1 E2; cbn [omap] in *.
    - inversion E1; subst. cbn [omap] in E2. exact E2.
    - destruct (row_at f p) as [cs| |] eqn:Ep; cbn [obind] in E1; try discriminate.
      destruct (omap (row_at f) ixs) as [crs| |]; cbn [obind] in E1; try discriminate.
      inversion E1; subst. cbn [omap] in E2.
      destruct (omap cell_json cs) as [r| |] eqn:Er; cbn [obind] in E2; try discriminate.
      destruct (omap (omap cell_json) crs) as [rs| |] eqn:Ers; cbn [obind] in E2; try discriminate.
      inversion E2; subst.
      rewrite (IH crs rs eq_refl Ers). unfold fcell. rewrite Nat2Z.id.
      unfold row_at in Ep. rewrite (omap_ok_fuse _ cell_json (cols f) cs r Ep Er). reflexivity. }
  rewrite (gef_ToJSON_recorded fst fcell (cols f) [] _ rows Hr).
  unfold to_json, col_names in H. destruct (to_json_writes (map fst (cols f)) rows) as [ps| |]; cbn [obind] in *; try discriminate.
  exists ps. split; [reflexivity|]. inversion H. reflexivity.
Qed.

Theorem gef_ToJSON_frame_err f w :
  ferr f = true ->
  frame_to_json f = Fail
  /\ exists e, gef_QFrame_ToJSON fst (app_at fcell) quoted_bytes rec_write (frame_rec f) w = Ok (Some e, w).
Proof.
  intro H. unfold frame_to_json, frame_rec. rewrite H. split; [reflexivity|]. eexists. reflexivity.
Qed.

(* ------------------------------------------------------------------ the JSON rendering of an enum cell *)

(* Column.AppendByteStringAt of the enum column, with the string escaper of Model/Json.v for
   qfstrings.AppendQuotedString (tied to its own translation by T1_strings_AppendQuotedString), is the reading
   app_at fcell that the ToJSON theorems take for the column level: it appends the model's rendering of the cell
   (null, or the quoted value) to the buffer it is given; the same panics *)
Theorem gef_enum_AppendByteStringAt_eq name d vs st buf (p : nat) :
  gef_Column_AppendByteStringAt append_quoted_string (col_of d vs st) buf (Z.of_nat p)
  = app_at fcell (name, ECol d vs st) buf (Z.of_nat p).
Proof.
  unfold gef_Column_AppendByteStringAt, app_at, fcell, col_of. cbn [gef_Column_data gef_Column_values snd cell_at].
  rewrite Nat2Z.id, gef_index_nat. unfold idx at 1. rewrite nth_error_map. unfold idx at 1.
  destruct (nth_error d p) as [r|]; cbn [option_map of_option obind]; [|reflexivity].
  rewrite isNull_N. unfold enum_string. destruct (enum_is_null r); cbn [obind cell_json]; [reflexivity|].
  rewrite gef_index_N. destruct (idx vs (N.to_nat r)) as [s| |]; cbn [obind cell_json]; try reflexivity.
  destruct (escape_prefix_independent buf s) as [out [H1 H2]]. rewrite H1, H2. reflexivity.
Qed.

(* ================================================================== QFrame.ToCSV: the record assembly *)
From QF Require Model.CsvSpec Model.CsvWrite.

Section ToCSV.
Import CsvSpec CsvWrite.
Context {W K : Type}.
Variable ff : N -> bytes.                                   (* strconv.FormatFloat(x, 'f', -1, 64) *)
Variable cw_new : W -> K.                                   (* encoding/csv NewWriter *)
Variable cw_write : K -> list bytes -> gef_error * K.       (* w.Write(record) *)
Variable cw_flush : K -> K.
Variable cw_error : K -> gef_error.
Variable cw_under : K -> W.

(* a namedColumn of the observed frame of Model/CsvSpec.v: its name and its cells in row order *)
Definition ccol : Type := (bytes * CsvSpec.column)%type.
Definition czero : ccol := (([] : bytes), CsvSpec.ColNone).
(* col.StringAt(i, ""): the i-th string of the column (ToCSV passes the empty null representation, the one
   col_strings is written for) *)
Definition strat (c : ccol) (i : Z) (na : bytes) : outcome bytes := idx (col_strings ff (snd c)) (Z.to_nat i).
(* csv.NewToConfig(confFuncs): the configuration the model takes *)
Definition ntc (conf : to_conf) : gef_ToConfig := gef_mk_ToConfig (tc_header conf) (tc_columns conf).
(* qf.columnsByName: every name bound to the (first) column of that name *)
Definition byname_of (f : CsvSpec.frame) : gef_map ccol := map (fun nc => (fst nc, nc)) f.
(* the observed frame as the generated record: the rows are read in order, no error *)
Definition csv_rec (f : CsvSpec.frame) : gef_QFrame (C := ccol) :=
  gef_mk_QFrame f (byname_of f) (map Z.of_nat (seq 0 (CsvWrite.frame_len f))) None.

(* the records handed to the csv.Writer until its first error, then Flush and Error *)
Fixpoint cw_all (k : K) (recs : list (list bytes)) : gef_error * W :=
  match recs with
  | [] => let k' := cw_flush k in (cw_error k', cw_under k')
  | r :: rest => let '(e, k') := cw_write k r in if gef_isnil e then cw_all k' rest else (e, cw_under k')
  end.

Definition err_csv_missing : bytes * bytes :=
  ([84; 111; 67; 83; 86]%N,
   [37; 115; 58; 32; 99; 111; 108; 117; 109; 110; 32; 100; 111; 101; 115; 32; 110; 111; 116; 32; 101; 120; 105; 115;
    116; 32; 105; 110; 32; 81; 70; 114; 97; 109; 101]%N).
Definition err_csv_count : bytes * bytes :=
  ([84; 111; 67; 83; 86]%N,
   [119; 114; 111; 110; 103; 32; 110; 117; 109; 98; 101; 114; 32; 111; 102; 32; 99; 111; 108; 117; 109; 110; 115; 58;
    32; 101; 120; 112; 101; 99; 116; 101; 100; 58; 32; 37; 100]%N).

Lemma byname_get (f : CsvSpec.frame) name : gef_map_get (byname_of f) name = find_col name f.
Proof.
  induction f as [|[n c] f IH]; cbn [byname_of map gef_map_get find_col fst]; [reflexivity|].
  destruct (bytes_eqb n name); [reflexivity|exact IH].
Qed.

Lemma byname_get1 (f : CsvSpec.frame) name :
  gef_map_get1 czero (byname_of f) name = match find_col name f with Some nc => nc | None => czero end.
Proof.
  induction f as [|[n c] f IH]; cbn [byname_of map gef_map_get1 find_col fst]; [reflexivity|].
  destruct (bytes_eqb n name); [reflexivity|exact IH].
Qed.

Lemma find_col_name name f nc : find_col name f = Some nc -> fst nc = name.
Proof.
  induction f as [|[n c] f IH]; cbn [find_col]; [discriminate|].
  destruct (bytes_eqb n name) eqn:E; [|exact IH]. intro H. inversion H. cbn. apply bytes_eqb_eq. exact E.
Qed.

(* every column is the one its name resolves to: what unique column names give *)
Definition names_resolve (f : CsvSpec.frame) (l : list ccol) : Prop := forall nc, In nc l -> find_col (fst nc) f = Some nc.

Lemma names_resolve_nodup f : NoDup (map fst f) -> names_resolve f f.
Proof.
  induction f as [|[n c] f IH]; intros Hn nc Hin; [destruct Hin|].
  cbn [map fst] in Hn. inversion Hn as [|? ? Hx Hr]; subst. cbn [find_col].
  destruct Hin as [E|Hin].
  - subst nc. cbn [fst]. rewrite bytes_eqb_refl. reflexivity.
  - destruct (bytes_eqb n (fst nc)) eqn:E.
    + apply bytes_eqb_eq in E. exfalso. apply Hx. subst n. apply in_map. exact Hin.
    + exact (IH Hr nc Hin).
Qed.

Lemma CSV_loop1 (l : list ccol) : forall row, gef_QFrame_ToCSV_loop1 fst l row = Ok (row ++ map fst l).
Proof.
  induction l as [|c l IH]; intro row; cbn [gef_QFrame_ToCSV_loop1 map].
  - rewrite app_nil_r. reflexivity.
  - rewrite IH, <- app_assoc. reflexivity.
Qed.

Lemma CSV_loop2 (qf : gef_QFrame (C := ccol)) (names : list bytes) : forall cols,
  gef_QFrame_ToCSV_loop2 czero names qf cols
  = Ok (cols ++ map (fun n => gef_map_get1 czero (gef_QFrame_columnsByName qf) n) names).
Proof.
  induction names as [|n names IH]; intro cols; cbn [gef_QFrame_ToCSV_loop2 map].
  - rewrite app_nil_r. reflexivity.
  - rewrite IH, <- app_assoc. reflexivity.
Qed.

Lemma resolve_again f (l : list ccol) :
  names_resolve f l -> map (fun n => gef_map_get1 czero (byname_of f) n) (map fst l) = l.
Proof.
  intro H. induction l as [|nc l IH]; [reflexivity|]. cbn [map]. rewrite byname_get1, (H nc (or_introl eq_refl)).
  f_equal. apply IH. intros x Hx. apply H. right. exact Hx.
Qed.

Lemma index_identity n i : i < n -> gef_index (map Z.of_nat (seq 0 n)) (Z.of_nat i) = Ok (Z.of_nat i).
Proof.
  intro H. rewrite gef_index_nat. unfold idx. rewrite nth_error_map.
  assert (Hn : nth_error (seq 0 n) i = Some i).
  { rewrite (nth_error_nth' _ 0) by (rewrite seq_length; exact H). rewrite seq_nth by exact H. reflexivity. }
  rewrite Hn. reflexivity.
Qed.

Lemma CSV_loop3 (qf : gef_QFrame (C := ccol)) n i : gef_QFrame_index qf = map Z.of_nat (seq 0 n) -> i < n ->
  forall (cols : list ccol) row,
  gef_QFrame_ToCSV_loop3 strat cols qf row (Z.of_nat i)
  = do r <- omap (fun c => idx (col_strings ff (snd c)) i) cols; Ok (row ++ r).
Proof.
  intros Hix Hi. induction cols as [|c cols IH]; intro row; cbn [gef_QFrame_ToCSV_loop3 omap obind].
  - rewrite app_nil_r. reflexivity.
  - rewrite Hix, (index_identity n i Hi). cbn [obind]. unfold strat at 1. rewrite Nat2Z.id.
    destruct (idx (col_strings ff (snd c)) i) as [s| |]; cbn [obind]; try reflexivity.
    rewrite IH.
    destruct (omap (fun c0 => idx (col_strings ff (snd c0)) i) cols) as [r| |]; cbn [obind]; try reflexivity.
    rewrite <- app_assoc. reflexivity.
Qed.

Lemma record_at_cols (cols : list ccol) i :
  record_at (map (fun nc => col_strings ff (snd nc)) cols) i = omap (fun c => idx (col_strings ff (snd c)) i) cols.
Proof. unfold record_at. apply omap_map. Qed.

Lemma CSV_loop4 (qf : gef_QFrame (C := ccol)) n (cols : list ccol) :
  gef_QFrame_index qf = map Z.of_nat (seq 0 n) ->
  forall m i k row body, i + m = n ->
  omap (record_at (map (fun nc => col_strings ff (snd nc)) cols)) (seq i m) = Ok body ->
  gef_QFrame_ToCSV_loop4 strat cw_write cw_flush cw_error cw_under (repeat tt m) (Z.of_nat i) qf row cols k
  = Ok (cw_all k body).
Proof.
  intro Hix. induction m as [|m IH]; intros i k row body Him Hb; cbn [seq omap repeat] in *.
  - inversion Hb; subst. reflexivity.
  - rewrite record_at_cols in Hb.
    destruct (omap (fun c => idx (col_strings ff (snd c)) i) cols) as [r| |] eqn:Er; cbn [obind] in Hb; try discriminate.
    destruct (omap (record_at (map (fun nc => col_strings ff (snd nc)) cols)) (seq (S i) m)) as [rs| |] eqn:Ers; cbn [obind] in Hb; try discriminate.
    inversion Hb; subst body. cbn [gef_QFrame_ToCSV_loop4].
    rewrite (CSV_loop3 qf n i Hix ltac:(lia) cols []), Er. cbn [obind app cw_all].
    destruct (cw_write k r) as [e k']. destruct e as [e|]; cbn [gef_isnil negb]; [reflexivity|].
    replace (Z.of_nat i + 1)%Z with (Z.of_nat (S i)) by lia.
    apply IH; [lia|exact Ers].
Qed.

(* the rest of ToCSV once the columns to write are known (the exit of the loop over conf.Columns) *)
Definition csv_tail (f : CsvSpec.frame) conf (w : W) (iter : list ccol) : outcome (gef_error * W) :=
  gef_QFrame_ToCSV_loop5 czero fst strat cw_new cw_write cw_flush cw_error cw_under [] 0%Z (csv_rec f) w (ntc conf) iter.

(* header, rows, Flush, Error *)
Lemma CSV_rest f conf w (iter : list ccol) body i :
  names_resolve f iter ->
  omap (record_at (map (fun nc => col_strings ff (snd nc)) iter)) (seq 0 (CsvWrite.frame_len f)) = Ok body ->
  gef_QFrame_ToCSV_loop5 czero fst strat cw_new cw_write cw_flush cw_error cw_under [] i (csv_rec f) w (ntc conf) iter
  = Ok (cw_all (cw_new w) (if tc_header conf then map fst iter :: body else body)).
Proof.
  intros Hres Hb. cbn [gef_QFrame_ToCSV_loop5].
  unfold gef_make0. destruct (Z.of_nat (length iter) <? 0)%Z eqn:E1; [lia|]. cbn [obind].
  rewrite CSV_loop1. cbn [obind app].
  destruct (Z.of_nat (length (gef_QFrame_columns (csv_rec f))) <? 0)%Z eqn:E2; [lia|]. cbn [obind].
  rewrite CSV_loop2. cbn [obind app csv_rec gef_QFrame_columnsByName]. rewrite (resolve_again f iter Hres).
  assert (HL : gef_QFrame_Len (csv_rec f) = Ok (Z.of_nat (CsvWrite.frame_len f))).
  { unfold gef_QFrame_Len, csv_rec. cbn [gef_QFrame_Err gef_isnil negb gef_QFrame_index]. rewrite map_length, seq_length. reflexivity. }
  fold (csv_rec f). rewrite HL. cbn [obind]. unfold gef_count. rewrite Z.sub_0_r, Nat2Z.id.
  pose proof (CSV_loop4 (csv_rec f) (CsvWrite.frame_len f) iter eq_refl (CsvWrite.frame_len f) 0) as H4. cbn [Z.of_nat] in H4.
  unfold ntc. cbn [gef_ToConfig_Header]. destruct (tc_header conf); cbn [cw_all].
  - destruct (cw_write (cw_new w) (map fst iter)) as [e k']. destruct e as [e|]; cbn [gef_isnil negb]; [reflexivity|].
    apply H4; [reflexivity|exact Hb].
  - apply H4; [reflexivity|exact Hb].
Qed.

Lemma CSV_loop5 f conf w order : tc_columns conf = Some order ->
  forall (suf pre : list bytes) (done pad : list ccol),
  order = pre ++ suf -> length done = length pre -> length pad = length suf ->
  gef_QFrame_ToCSV_loop5 czero fst strat cw_new cw_write cw_flush cw_error cw_under suf (Z.of_nat (length pre))
                         (csv_rec f) w (ntc conf) (done ++ pad)
  = match omap (fun name => match find_col name f with Some nc => Ok nc | None => Fail end) suf with
    | Ok ncs => csv_tail f conf w (done ++ ncs)
    | Fail => Ok (Some err_csv_missing, w)
    | Panic => Panic
    end.
Proof.
  intro Hc. induction suf as [|name suf IH]; intros pre done pad Ho Hd Hp; destruct pad as [|x pad]; cbn [length] in Hp; try lia.
  - cbn [omap]. reflexivity.
  - cbn [gef_QFrame_ToCSV_loop5 omap]. unfold ntc at 1. cbn [gef_ToConfig_Columns]. rewrite Hc. cbn [gef_nslice].
    rewrite gef_index_nat. unfold idx. rewrite Ho, nth_error_mid. cbn [of_option obind].
    unfold gef_map_get2. cbn [csv_rec gef_QFrame_columnsByName]. rewrite byname_get.
    destruct (find_col name f) as [nc|] eqn:Ef; cbn [negb obind]; [|reflexivity].
    unfold gef_update. destruct (Z.of_nat (length pre) <? 0)%Z eqn:E; [lia|]. rewrite Nat2Z.id, <- Hd.
    unfold idx. rewrite nth_error_mid. cbn [of_option obind]. rewrite set_nth_mid.
    match goal with |- ?L = _ =>
      assert (HL : L = gef_QFrame_ToCSV_loop5 czero fst strat cw_new cw_write cw_flush cw_error cw_under suf
                         (Z.of_nat (length (pre ++ [name]))) (csv_rec f) w (ntc conf) ((done ++ [nc]) ++ pad)) end.
    { f_equal; [rewrite app_length; cbn [length]; lia|rewrite <- app_assoc; reflexivity]. }
    rewrite HL. clear HL.
    rewrite (IH (pre ++ [name]) (done ++ [nc]) pad).
    + destruct (omap (fun name0 => match find_col name0 f with Some nc0 => Ok nc0 | None => Fail end) suf) as [ncs| |]; cbn [obind]; try reflexivity.
      rewrite <- app_assoc. reflexivity.
    + rewrite <- app_assoc. exact Ho.
    + rewrite !app_length. cbn [length]. lia.
    + lia.
Qed.

Lemma iter_cols_resolve f order ncs :
  omap (fun name => match find_col name f with Some nc => Ok nc | None => Fail end) order = Ok ncs -> names_resolve f ncs.
Proof.
  revert ncs. induction order as [|name order IH]; intros ncs H; cbn [omap] in H.
  - inversion H. intros nc [].
  - destruct (find_col name f) as [nc|] eqn:Ef; cbn [obind] in H; try discriminate.
    destruct (omap _ order) as [r| |]; cbn [obind] in H; try discriminate.
    inversion H; subst. intros x [Hx|Hx].
    + subst x. rewrite (find_col_name _ _ _ Ef). exact Ef.
    + exact (IH r eq_refl x Hx).
Qed.

Lemma iter_cols_length f order ncs :
  omap (fun name => match find_col name f with Some nc => Ok nc | None => Fail end) order = Ok ncs -> length ncs = length order.
Proof.
  revert ncs. induction order as [|name order IH]; intros ncs H; cbn [omap] in H.
  - inversion H. reflexivity.
  - destruct (find_col name f) as [nc|]; cbn [obind] in H; try discriminate.
    destruct (omap _ order) as [r| |]; cbn [obind] in H; try discriminate.
    inversion H; subst. cbn [length]. f_equal. apply IH. reflexivity.
Qed.

(* ToCSV hands exactly the records of Model/CsvWrite.v to_csv_records to the csv.Writer — the header when
   configured, one record per row —, stops at its first error, else flushes and returns its Error() *)
Theorem gef_ToCSV_eq (f : CsvSpec.frame) conf (w : W) recs :
  names_resolve f f ->
  to_csv_records ff f conf = Ok recs ->
  gef_QFrame_ToCSV czero fst strat ntc cw_new cw_write cw_flush cw_error cw_under (csv_rec f) w conf
  = Ok (cw_all (cw_new w) recs).
Proof.
  intros Hres H. unfold to_csv_records, iter_cols in H. unfold gef_QFrame_ToCSV.
  cbn [csv_rec gef_QFrame_Err gef_isnil negb]. fold (csv_rec f).
  assert (Hcols : gef_ToConfig_Columns (ntc conf) = tc_columns conf) by reflexivity.
  rewrite !Hcols.
  destruct (tc_columns conf) as [order|] eqn:Ec; cbn [gef_isnil negb gef_nslice].
  - cbn [csv_rec gef_QFrame_columns]. fold (csv_rec f).
    destruct (Nat.eqb_spec (length order) (length f)) as [El|El]; cbn [negb] in H; [|discriminate].
    match goal with |- context [Z.eqb ?a ?b] => destruct (Z.eqb_spec a b) as [_|N]; [|exfalso; apply N; f_equal; exact El] end.
    cbn [negb]. unfold gef_make.
    match goal with |- context [Z.ltb ?a 0%Z] => destruct (Z.ltb_spec a 0%Z) as [N|_]; [lia|] end.
    cbn [obind]. rewrite Nat2Z.id.
    etransitivity;
      [apply (CSV_loop5 f conf w order Ec order [] [] (repeat czero (length f)) eq_refl eq_refl); rewrite repeat_length; lia|].
    destruct (omap (fun name => match find_col name f with Some nc => Ok nc | None => Fail end) order) as [ncs| |] eqn:Eo;
      cbn [obind] in H; try discriminate.
    destruct (omap (record_at (map (fun nc => col_strings ff (snd nc)) ncs)) (seq 0 (CsvWrite.frame_len f))) as [body| |] eqn:Eb;
      cbn [obind] in H; try discriminate.
    inversion H; subst recs. cbn [app].
    unfold csv_tail. exact (CSV_rest f conf w ncs body 0%Z (iter_cols_resolve f order ncs Eo) Eb).
  - cbn [obind] in H.
    destruct (omap (record_at (map (fun nc => col_strings ff (snd nc)) f)) (seq 0 (CsvWrite.frame_len f))) as [body| |] eqn:Eb;
      cbn [obind] in H; try discriminate.
    inversion H; subst recs.
    exact (CSV_rest f conf w f body 0%Z Hres Eb).
Qed.

(* the Columns option naming a missing column or the wrong number of columns: an error, nothing written *)
Theorem gef_ToCSV_fail (f : CsvSpec.frame) conf (w : W) :
  iter_cols f conf = Fail ->
  exists e, gef_QFrame_ToCSV czero fst strat ntc cw_new cw_write cw_flush cw_error cw_under (csv_rec f) w conf
            = Ok (Some e, w).
Proof.
  unfold iter_cols, gef_QFrame_ToCSV. cbn [csv_rec gef_QFrame_Err gef_isnil negb]. fold (csv_rec f).
  assert (Hcols : gef_ToConfig_Columns (ntc conf) = tc_columns conf) by reflexivity.
  rewrite !Hcols.
  destruct (tc_columns conf) as [order|] eqn:Ec; cbn [gef_isnil negb gef_nslice]; [|discriminate].
  cbn [csv_rec gef_QFrame_columns]. fold (csv_rec f).
  destruct (Nat.eqb_spec (length order) (length f)) as [El|El]; cbn [negb].
  - intro H.
    match goal with |- context [Z.eqb ?a ?b] => destruct (Z.eqb_spec a b) as [_|N]; [|exfalso; apply N; f_equal; exact El] end.
    cbn [negb]. unfold gef_make.
    match goal with |- context [Z.ltb ?a 0%Z] => destruct (Z.ltb_spec a 0%Z) as [N|_]; [lia|] end.
    cbn [obind]. rewrite Nat2Z.id.
    eexists. etransitivity;
      [apply (CSV_loop5 f conf w order Ec order [] [] (repeat czero (length f)) eq_refl eq_refl); rewrite repeat_length; lia|].
    rewrite H. reflexivity.
  - intros _.
    match goal with |- context [Z.eqb ?a ?b] => destruct (Z.eqb_spec a b) as [N|_]; [exfalso; apply El; apply Nat2Z.inj; exact N|] end.
    cbn [negb]. eexists. reflexivity.
Qed.

(* a frame with Err set: the error, nothing written *)
Theorem gef_ToCSV_err cols byname index e conf (w : W) :
  gef_QFrame_ToCSV czero fst strat ntc cw_new cw_write cw_flush cw_error cw_under
                   (gef_mk_QFrame cols byname index (Some e)) w conf
  = Ok (gef_propagate [84; 111; 67; 83; 86]%N (Some e), w).
Proof. reflexivity. Qed.

End ToCSV.

(* a csv.Writer that accepts everything and records the records *)
Definition rec_cw_write (k : list (list bytes)) (r : list bytes) : gef_error * list (list bytes) := (None, k ++ [r]).

Lemma cw_all_rec recs : forall k,
  cw_all rec_cw_write (fun k => k) (fun _ => None) (fun k => k) k recs = (None, k ++ recs).
Proof.
  induction recs as [|r recs IH]; intro k; cbn [cw_all rec_cw_write gef_isnil].
  - rewrite app_nil_r. reflexivity.
  - rewrite IH, <- app_assoc. reflexivity.
Qed.

Theorem gef_ToCSV_recorded ff (f : CsvSpec.frame) conf recs :
  names_resolve f f ->
  CsvWrite.to_csv_records ff f conf = Ok recs ->
  gef_QFrame_ToCSV czero fst (strat ff) ntc (fun w => w) rec_cw_write (fun k => k) (fun _ => None) (fun k => k)
                   (csv_rec f) [] conf
  = Ok (None, recs).
Proof.
  intros Hres H.
  rewrite (gef_ToCSV_eq ff (fun w => w) rec_cw_write (fun k => k) (fun _ => None) (fun k => k) f conf [] recs Hres H).
  rewrite cw_all_rec. reflexivity.
Qed.
