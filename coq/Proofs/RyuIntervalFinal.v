(* Proofs/RyuIntervalFinal.v — the arithmetic core of step 4 of float64ToDecimal: from the facts that hold
   when the digit-removal loops stop, the rounded result is a certified shortest decimal.

   Everything is at one integer scale: the float unit is u (value r = mv u, lower bound a = mm u, upper bound
   p = mp u), the decimal unit after n removed digits is D (= B 10^n).  [cert] is the body of the checker
   shortest_b (Model/Ryu.v) with these four numbers as arguments. *)
From QF Require Import Base.Prelude Model.Ryu.
From QF Require Import Proofs.RyuShortest.
Local Open Scope N_scope.

Definition cert (even : bool) (lo v hi ud m : N) : bool :=
  let inI := in_interval even lo hi in
  let d := m * ud in
  let t0 := d - (m mod 10) * ud in
  let t1 := t0 + 10 * ud in
  let better c := negb (inI c) || (ndist d v <? ndist c v) || ((ndist d v =? ndist c v) && N.even m) in
  (0 <? m) && inI d && negb (inI t0) && negb (inI t1) && better (d - ud) && better (d + ud).

Lemma in_interval_true even lo hi x :
  in_interval even lo hi x = true <->
  (even = true /\ lo <= x <= hi) \/ (even = false /\ lo < x < hi).
Proof.
  unfold in_interval. destruct even.
  - rewrite andb_true_iff, !N.leb_le. split; [intros [? ?]; left; auto|intros [[_ ?]|[? _]]; [tauto|discriminate]].
  - rewrite andb_true_iff, !N.ltb_lt. split; [intros [? ?]; right; auto|intros [[? _]|[_ ?]]; [discriminate|tauto]].
Qed.

Lemma cert_intro even lo v hi ud m :
  0 < m ->
  in_interval even lo hi (m * ud) = true ->
  in_interval even lo hi (m / 10 * (10 * ud)) = false ->
  in_interval even lo hi ((m / 10 + 1) * (10 * ud)) = false ->
  (in_interval even lo hi (m * ud - ud) = true ->
     ndist (m * ud) v < ndist (m * ud - ud) v \/ (ndist (m * ud) v = ndist (m * ud - ud) v /\ N.even m = true)) ->
  (in_interval even lo hi (m * ud + ud) = true ->
     ndist (m * ud) v < ndist (m * ud + ud) v \/ (ndist (m * ud) v = ndist (m * ud + ud) v /\ N.even m = true)) ->
  cert even lo v hi ud m = true.
Proof.
  intros Hm Hd Ht0 Ht1 Hb1 Hb2. unfold cert.
  assert (E0 : m * ud - m mod 10 * ud = m / 10 * (10 * ud)).
  { pose proof (N.div_mod m 10 ltac:(lia)) as DM. rewrite DM at 1.
    rewrite N.mul_add_distr_r, N.add_sub. lia. }
  rewrite E0.
  replace (m / 10 * (10 * ud) + 10 * ud) with ((m / 10 + 1) * (10 * ud)) by lia.
  rewrite Hd, Ht0, Ht1. replace (0 <? m) with true by (symmetry; apply N.ltb_lt; exact Hm).
  cbn [andb negb].
  assert (B : forall c, (in_interval even lo hi c = true ->
                 ndist (m * ud) v < ndist c v \/ (ndist (m * ud) v = ndist c v /\ N.even m = true)) ->
              negb (in_interval even lo hi c) || (ndist (m * ud) v <? ndist c v)
              || ((ndist (m * ud) v =? ndist c v) && N.even m) = true).
  { intros c H. destruct (in_interval even lo hi c); [|reflexivity]. cbn [negb orb].
    destruct (H eq_refl) as [L|[L1 L2]].
    - apply N.ltb_lt in L. rewrite L. reflexivity.
    - apply N.eqb_eq in L1. rewrite L1, L2. apply orb_true_r. }
  rewrite (B _ Hb1), (B _ Hb2). reflexivity.
Qed.

(* ------------------------------------------------------------------ no candidate one level up *)

(* E: the loop stopped (vp/10 <= vm/10 at the exact level); T: the lower bound is not an admissible
   multiple of 10 D *)
Lemma no_coarser (ab : bool) (a p D c : N) :
  0 < D ->
  (p - (if ab then 0 else 1)) / (10 * D) <= a / (10 * D) ->
  ab && (a mod (10 * D) =? 0) = false ->
  in_interval ab a p (c * (10 * D)) = false.
Proof.
  intros HD E T.
  destruct (in_interval ab a p (c * (10 * D))) eqn:I; [|reflexivity]. exfalso.
  apply in_interval_true in I.
  set (D' := 10 * D) in *. assert (HD' : D' <> 0) by (unfold D'; lia).
  destruct I as [[-> [L U]]|[-> [L U]]].
  - rewrite N.sub_0_r in E.
    assert (c <= p / D') by (apply N.div_le_lower_bound; [exact HD'|lia]).
    pose proof (N.mul_div_le a D' HD') as M.
    assert (D' * c <= D' * (a / D')) by (apply N.mul_le_mono_l; lia).
    assert (EQ : a = c * D') by lia.
    cbn [andb] in T. apply N.eqb_neq in T. apply T. rewrite EQ. apply N.mod_mul. exact HD'.
  - assert (c <= (p - 1) / D') by (apply N.div_le_lower_bound; [exact HD'|lia]).
    pose proof (N.mul_div_le a D' HD') as M.
    assert (D' * c <= D' * (a / D')) by (apply N.mul_le_mono_l; lia). lia.
Qed.

(* ------------------------------------------------------------------ the rounding decision *)

Lemma ndist_up r x : r <= x -> ndist x r = x - r.
Proof. intro H. unfold ndist. destruct (x <? r) eqn:E; [apply N.ltb_lt in E; lia|reflexivity]. Qed.
Lemma ndist_down r x : x <= r -> ndist x r = r - x.
Proof.
  intro H. unfold ndist. destruct (x <? r) eqn:E; [reflexivity|].
  apply N.ltb_ge in E. lia.
Qed.

Section Final.
  Variables (ab : bool) (a r p D u g vr vm fr fa : N) (c1 up : bool).
  Hypothesis HD : 0 < D.
  Hypothesis Hu : 0 < u.
  Hypothesis Hg : g = 1 \/ g = 2.
  Hypothesis Hr : r = a + g * u.
  Hypothesis Hp : p = r + 2 * u.
  Hypothesis Hvr : r = vr * D + fr.
  Hypothesis Hfr : fr < D.
  Hypothesis Hvm : a = vm * D + fa.
  Hypothesis Hfa : fa < D.
  Let pe := p - (if ab then 0 else 1).
  Hypothesis HE : pe / (10 * D) <= a / (10 * D).
  Hypothesis HT : ab && (a mod (10 * D) =? 0) = false.
  (* c1: vr itself is below the admissible range *)
  Hypothesis Hc1 : c1 = (vr =? vm) && negb (ab && (fa =? 0)).
  (* when that happens there is room above (the loop ran because vp > vm) *)
  Hypothesis HN : c1 = true -> (vm + 1) * D <= pe.
  (* up: the removed part is at least half a unit (exactly half: decided towards even) *)
  Hypothesis Hup1 : up = true -> D <= 2 * fr /\ (2 * fr = D -> N.even vr = false).
  Hypothesis Hup0 : up = false -> 2 * fr <= D /\ (2 * fr = D -> N.even vr = true).

  Let out := if c1 || up then vr + 1 else vr.
  Hypothesis Hout : 0 < out.

  Lemma vm_le_vr : vm <= vr.
  Proof.
    clear HE HT HN Hup1 Hup0 Hc1 Hout.
    assert (L : a <= r) by (destruct Hg; subst g; lia).
    destruct (N.le_gt_cases vm vr) as [K|K]; [exact K|exfalso].
    assert (vr + 1 <= vm) by lia.
    assert ((vr + 1) * D <= vm * D) by (apply N.mul_le_mono_r; assumption). lia.
  Qed.

  Lemma a_split : a = vm * D + fa /\ fa < D.
  Proof. split; assumption. Qed.

  (* vr is admissible from below exactly when c1 is false *)
  Lemma low_vr : c1 = false -> (ab = true /\ a <= vr * D) \/ (ab = false /\ a < vr * D).
  Proof.
    clear HE HT Hout. intro C. rewrite Hc1 in C. pose proof vm_le_vr as L. pose proof a_split as [S1 S2].
    destruct (N.eqb_spec vr vm) as [EQ|NE].
    - cbn [andb] in C. apply negb_false_iff in C. apply andb_true_iff in C as [-> C].
      apply N.eqb_eq in C. left. split; [reflexivity|]. rewrite EQ. lia.
    - assert (vm + 1 <= vr) by lia.
      assert ((vm + 1) * D <= vr * D) by (apply N.mul_le_mono_r; assumption).
      destruct ab; [left|right]; split; try reflexivity; lia.
  Qed.

  Lemma c1_vr : c1 = true -> vr = vm /\ ~ ((ab = true /\ a <= vr * D) \/ (ab = false /\ a < vr * D)).
  Proof.
    clear HE HT Hout. intro C. rewrite Hc1 in C. apply andb_true_iff in C as [C1 C2]. apply N.eqb_eq in C1.
    split; [exact C1|]. pose proof a_split as [S1 S2]. rewrite C1.
    apply negb_true_iff in C2. intros [[-> L]|[-> L]]; [|lia].
    cbn [andb] in C2. apply N.eqb_neq in C2. lia.
  Qed.

  Lemma upper_vr : vr * D <= pe.
  Proof. clear HE HT Hout. unfold pe. destruct ab; lia. Qed.

  (* rounding up never leaves the interval *)
  Lemma upper_vr1 : c1 || up = true -> (vr + 1) * D <= pe.
  Proof.
    clear HE HT Hout. intro C.
    pose proof c1_vr as CV. pose proof low_vr as LV. pose proof HN as HN'. pose proof Hup1 as U.
    clear Hc1 HN. destruct c1.
    - destruct (CV eq_refl) as [EQ _]. specialize (HN' eq_refl). rewrite EQ. exact HN'.
    - cbn [orb] in C. destruct (U C) as [U1 U2]. clear CV HN' U Hup1 Hup0.
      destruct (LV eq_refl) as [[Eab L]|[Eab L]]; clear LV.
      + unfold pe. rewrite Eab in *. rewrite N.sub_0_r.
        destruct (N.le_gt_cases ((vr + 1) * D) p) as [K|K]; [exact K|exfalso].
        (* (vr+1) D > p: 2u < D - fr <= fr, so a > vr D + 2 fr - D >= vr D, impossible with a <= vr D *)
        destruct Hg; subst g; lia.
      + unfold pe. rewrite Eab in *.
        destruct (N.le_gt_cases ((vr + 1) * D) (p - 1)) as [K|K]; [exact K|exfalso].
        destruct Hg; subst g; lia.
  Qed.

  Lemma in_out : in_interval ab a p (out * D) = true.
  Proof.
    clear HE HT Hout. apply in_interval_true. unfold out.
    pose proof upper_vr1 as UV. pose proof low_vr as LV. pose proof upper_vr as U0.
    destruct (c1 || up) eqn:C.
    - pose proof (UV eq_refl) as U. unfold pe in U.
      assert (a < (vr + 1) * D) by (destruct Hg; subst g; lia).
      destruct ab; [left|right]; split; try reflexivity; lia.
    - apply orb_false_iff in C as [C _]. pose proof U0 as U. unfold pe in U.
      destruct (LV C) as [[Eab L]|[Eab L]]; rewrite Eab in *; [left|right]; split; try reflexivity; lia.
  Qed.

  Theorem final_cert : cert ab a r p D out = true.
  Proof.
    pose proof c1_vr as CV. pose proof Hup1 as UU1. pose proof Hup0 as UU0.
    pose proof in_out as IO. pose proof Hout as HO.
    pose proof (fun c => no_coarser ab a p D c HD HE HT) as NC.
    clear HE HT Hc1 HN Hup1 Hup0 Hout.
    apply cert_intro.
    - exact HO.
    - exact IO.
    - apply NC.
    - apply NC.
    - (* the neighbour below *)
      clear NC IO. intro I. unfold out in *. destruct (c1 || up) eqn:C.
      + replace ((vr + 1) * D - D) with (vr * D) in * by lia.
        rewrite (ndist_up r ((vr + 1) * D)) by lia. rewrite (ndist_down r (vr * D)) by lia.
        destruct c1.
        * exfalso. destruct (CV eq_refl) as [_ NA]. apply NA. apply in_interval_true in I.
          destruct I as [[-> ?]|[-> ?]]; [left|right]; split; try reflexivity; lia.
        * cbn [orb] in C. destruct (UU1 C) as [U1 U2].
          destruct (N.eq_dec (2 * fr) D) as [T|T].
          -- right. split; [lia|]. specialize (U2 T).
             rewrite N.add_1_r, N.even_succ, <- N.negb_even, U2. reflexivity.
          -- left. lia.
      + left. assert (1 <= vr) by lia.
        assert (D <= vr * D) by nia.
        rewrite (ndist_down r (vr * D)) by lia. rewrite (ndist_down r (vr * D - D)) by lia. lia.
    - (* the neighbour above *)
      clear NC IO. intro I. unfold out in *. destruct (c1 || up) eqn:C.
      + left. rewrite (ndist_up r ((vr + 1) * D)) by lia. rewrite (ndist_up r ((vr + 1) * D + D)) by lia. lia.
      + apply orb_false_iff in C as [_ C]. destruct (UU0 C) as [U1 U2].
        rewrite (ndist_down r (vr * D)) by lia. rewrite (ndist_up r (vr * D + D)) by lia.
        destruct (N.eq_dec (2 * fr) D) as [T|T].
        * right. split; [lia|]. exact (U2 T).
        * left. lia.
  Qed.
End Final.
