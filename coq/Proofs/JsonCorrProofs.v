(* Proofs/JsonCorrProofs.v — the property oracles of the engine families json-frame / json-read
   (Corr/StringsCorr.v json_table_oracle, readback_oracle, check_jframe, check_jread) accept what the model
   itself produces: they are implied by C14_valid / C14_readback (Proofs/JsonDocProofs.v).  So a case in which
   the implementation agrees byte for byte with the model (code 1 not raised) can raise code 2 only when a
   premise of those theorems fails for the concrete input. *)
From QF Require Import Base.Prelude Base.CaseLib Model.Utf8 Model.Json Model.Ryu Model.Frame Model.Filter Model.Ops
                       Model.JsonRead.
From QF Require Model.CsvWrite.
From QF Require Import Proofs.EnumProofs Proofs.JsonDocProofs.
From QF Require Proofs.RyuShortest.
From QF Require Import Corr.StringsCorr.
Local Open Scope N_scope.

(* ================================================================== reflexivity of the comparisons *)

Lemma list_eqb_refl {A} (eqb : A -> A -> bool) : (forall x, eqb x x = true) -> forall l, list_eqb eqb l l = true.
Proof.
  intros H l. induction l as [|x l IH]; cbn [list_eqb]; [reflexivity|]. rewrite H, IH. reflexivity.
Qed.

Lemma opt_bytes_eqb_refl o : opt_bytes_eqb o o = true.
Proof. destruct o as [s|]; cbn [opt_bytes_eqb]; [apply bytes_eqb_refl|reflexivity]. Qed.

Lemma bool_eqb_refl b : Bool.eqb b b = true.
Proof. destruct b; reflexivity. Qed.

Lemma cell_exact_eqb_refl c : cell_exact_eqb c c = true.
Proof.
  destruct c as [z|b|b|s|s]; cbn [cell_exact_eqb].
  - apply Z.eqb_refl.
  - apply N.eqb_refl.
  - apply bool_eqb_refl.
  - apply opt_bytes_eqb_refl.
  - apply opt_bytes_eqb_refl.
Qed.

Lemma ctype_eqb_refl ty : ctype_eqb ty ty = true.
Proof. destruct ty; reflexivity. Qed.

Lemma table_exact_eqb_refl t : table_exact_eqb t t = true.
Proof.
  unfold table_exact_eqb.
  rewrite (list_eqb_refl bytes_eqb bytes_eqb_refl), (list_eqb_refl ctype_eqb ctype_eqb_refl).
  rewrite (list_eqb_refl _ (list_eqb_refl cell_exact_eqb cell_exact_eqb_refl)). reflexivity.
Qed.

Lemma col_phys_eqb_refl c : col_phys_eqb c c = true.
Proof.
  destruct c as [d|d|d|d|d vs st]; cbn [col_phys_eqb].
  - apply (list_eqb_refl Z.eqb Z.eqb_refl).
  - apply (list_eqb_refl N.eqb N.eqb_refl).
  - apply (list_eqb_refl Bool.eqb bool_eqb_refl).
  - apply (list_eqb_refl opt_bytes_eqb opt_bytes_eqb_refl).
  - rewrite (list_eqb_refl N.eqb N.eqb_refl), (list_eqb_refl bytes_eqb bytes_eqb_refl), bool_eqb_refl. reflexivity.
Qed.

Lemma frame_phys_eqb_refl f : frame_phys_eqb f f = true.
Proof.
  unfold frame_phys_eqb. rewrite bool_eqb_refl, (list_eqb_refl Nat.eqb Nat.eqb_refl). cbn [andb].
  rewrite list_eqb_refl; [reflexivity|].
  intros [n c]. cbn [fst snd]. rewrite bytes_eqb_refl, col_phys_eqb_refl. reflexivity.
Qed.

Lemma enums_eqb_refl e : enums_eqb e e = true.
Proof.
  unfold enums_eqb. apply list_eqb_refl. intros [n vs]. cbn [fst snd].
  rewrite bytes_eqb_refl, (list_eqb_refl bytes_eqb bytes_eqb_refl). reflexivity.
Qed.

Lemma enum_conf_of_eq cs : enum_conf_of cs = enum_conf cs.
Proof. reflexivity. Qed.

(* ================================================================== the float test *)

(* the interval test of the oracle is the one of the C16 certificate checker *)
Lemma in_round_interval_sc_in fd k y : in_round_interval fd k y = RyuShortest.sc_in fd k y.
Proof. reflexivity. Qed.

Lemma pow10_succ j : 10 ^ N.of_nat (S j) = 10 * 10 ^ N.of_nat j.
Proof. rewrite Nat2N.inj_succ, N.pow_succ_r'. reflexivity. Qed.

(* a decimal written with j more trailing zeros is found by the search *)
Lemma interval_any_strip fd : forall (j fuel : nat) (m : N) (e : Z),
  0 < m -> in_round_interval fd e m = true -> (j <= fuel)%nat ->
  interval_any fuel fd (m * 10 ^ N.of_nat j) (e - Z.of_nat j) = true.
Proof.
  induction j as [|j IH]; intros fuel m e Hm Hin Hf.
  - change (N.of_nat 0) with 0. rewrite N.pow_0_r, N.mul_1_r. change (Z.of_nat 0) with 0%Z. rewrite Z.sub_0_r.
    destruct fuel as [|g]; cbn [interval_any]; rewrite Hin; reflexivity.
  - destruct fuel as [|g]; [lia|]. cbn [interval_any].
    destruct (in_round_interval fd (e - Z.of_nat (S j)) (m * 10 ^ N.of_nat (S j))); [reflexivity|].
    rewrite pow10_succ.
    assert (Hp : 0 < 10 ^ N.of_nat j) by (apply N.neq_0_lt_0, N.pow_nonzero; lia).
    replace (m * (10 * 10 ^ N.of_nat j)) with (m * 10 ^ N.of_nat j * 10) by lia.
    assert (H1 : (0 <? m * 10 ^ N.of_nat j * 10) = true) by (apply N.ltb_lt; nia).
    rewrite H1, N.mod_mul by lia. cbn [N.eqb andb]. rewrite N.div_mul by lia.
    replace (e - Z.of_nat (S j) + 1)%Z with (e - Z.of_nat j)%Z by lia.
    apply IH; [exact Hm|exact Hin|lia].
Qed.

Lemma pow2_le_pow10 j : 2 ^ N.of_nat j <= 10 ^ N.of_nat j.
Proof. apply N.pow_le_mono_l. lia. Qed.

Lemma zeros_lt_size (m : N) (j : nat) : 0 < m -> (j <= N.to_nat (N.size (m * 10 ^ N.of_nat j)))%nat.
Proof.
  intro Hm. set (M := m * 10 ^ N.of_nat j).
  pose proof (N.size_gt M) as HS. pose proof (pow2_le_pow10 j) as HP.
  assert (HM : 2 ^ N.of_nat j <= M) by (unfold M; nia).
  assert (HL : 2 ^ N.of_nat j < 2 ^ N.size M) by lia.
  apply N.pow_lt_mono_r_iff in HL; lia.
Qed.

(* the decimal the Ryu model computes for a float that is neither NaN nor infinite passes the float test,
   provided it lies in the rounding interval (C16's open statement, asked here of this one float only) *)
Definition ryu_ok (b : N) : Prop :=
  forall fd m e, decode_float b = Some fd -> float_decimal b = Ok (m, e) -> RyuShortest.sc_in fd e m = true.

Lemma decode_float_none_zero b :
  (b / 2 ^ 52) mod 2048 <> 2047 -> decode_float b = None -> (b / 2 ^ 52) mod 2048 = 0 /\ b mod 2 ^ 52 = 0.
Proof.
  unfold decode_float. change 4503599627370496 with (2 ^ 52).
  intros Hf H. destruct (N.eqb_spec ((b / 2 ^ 52) mod 2048) 2047) as [E|_]; [contradiction|]. cbn [orb] in H.
  destruct (N.eqb_spec ((b / 2 ^ 52) mod 2048) 0) as [E0|E0]; cbn [andb] in H; [|discriminate].
  destruct (N.eqb_spec (b mod 2 ^ 52) 0) as [E1|E1]; [split; assumption|discriminate].
Qed.

Lemma decode_float_some_nonzero b fd :
  decode_float b = Some fd -> ~ ((b / 2 ^ 52) mod 2048 = 0 /\ b mod 2 ^ 52 = 0).
Proof.
  unfold decode_float. change 4503599627370496 with (2 ^ 52). intros H [E0 E1]. rewrite E0, E1 in H.
  cbn in H. discriminate.
Qed.

Lemma float_cell_denoted b v :
  b < 2 ^ 64 -> f_isinf b = false -> ryu_ok b -> cell_value (CFloat b) = Ok v -> cell_denoted (CFloat b) v = true.
Proof.
  intros Hb Hi HR. cbn [cell_value]. destruct (f_isnan b) eqn:Hn.
  - intro H. inversion H. cbn [cell_denoted]. exact Hn.
  - pose proof (finite_exp b Hn Hi) as Hfin.
    destruct (float_text_finite b Hb Hfin) as [(Z1 & Z2 & ED & _)|(m & e & ED & H0 & _ & _)].
    + rewrite ED. cbn [obind]. intro H. inversion H. cbn [cell_denoted]. rewrite Hn, Hi. cbn [negb andb].
      unfold float_denoted, float_fields. cbn [fst]. rewrite bool_eqb_refl. cbn [andb].
      destruct (decode_float b) as [fd|] eqn:DF.
      * exfalso. exact (decode_float_some_nonzero b fd DF (conj Z1 Z2)).
      * rewrite (zero_bits b Hb Z1 Z2). destruct (negb (b / 2 ^ 63 =? 0)); vm_compute; reflexivity.
    + rewrite ED. cbn [obind]. intro H. inversion H. cbn [cell_denoted]. rewrite Hn, Hi. cbn [negb andb].
      unfold float_denoted, float_fields. cbn [fst]. rewrite bool_eqb_refl. cbn [andb].
      destruct (decode_float b) as [fd|] eqn:DF.
      * pose proof (HR fd m e DF ED) as Hin. rewrite <- in_round_interval_sc_in in Hin.
        set (j := Z.to_nat (e - Z.min e 0)).
        replace (Z.to_N (e - Z.min e 0)) with (N.of_nat j) by (unfold j; lia).
        replace (Z.min e 0) with (e - Z.of_nat j)%Z by (unfold j; lia).
        apply interval_any_strip; [exact H0|exact Hin|apply zeros_lt_size; exact H0].
      * exfalso. destruct (decode_float_none_zero b Hfin DF) as [Z1 Z2].
        unfold float_decimal, float_fields in ED. rewrite Z1, Z2 in ED. cbn in ED. inversion ED. subst m. lia.
Qed.

(* ================================================================== cells, rows, the document *)

Definition cell_ryu_ok (c : cell) : Prop := match c with CFloat b => ryu_ok b | _ => True end.

Lemma cell_value_denoted c v : cell_ok c -> cell_ryu_ok c -> cell_value c = Ok v -> cell_denoted c v = true.
Proof.
  destruct c as [z|b|b|[s|]|[s|]]; intros Hok HR H.
  - cbn [cell_value] in H. inversion H. cbn [cell_denoted]. unfold int_denoted.
    change (0 <=? 0)%Z with true. change (Z.to_N 0) with 0. rewrite N.pow_0_r, N.mul_1_r, N.eqb_refl. cbn [andb orb].
    rewrite bool_eqb_refl. apply orb_true_r.
  - destruct Hok as [Hb Hi]. exact (float_cell_denoted b v Hb Hi HR H).
  - cbn [cell_value] in H. inversion H. cbn [cell_denoted]. apply bool_eqb_refl.
  - cbn [cell_value] in H. inversion H. cbn [cell_denoted]. apply (list_eqb_refl N.eqb N.eqb_refl).
  - cbn [cell_value] in H. inversion H. reflexivity.
  - cbn [cell_value] in H. inversion H. cbn [cell_denoted]. apply (list_eqb_refl N.eqb N.eqb_refl).
  - cbn [cell_value] in H. inversion H. reflexivity.
Qed.

Lemma object_denotes_ok : forall names row vs,
  length row = length names -> Forall cell_ok row -> Forall cell_ryu_ok row ->
  omap cell_value row = Ok vs ->
  object_denotes names row (combine (map utf8_sanitize names) vs) = true.
Proof.
  induction names as [|n names IH]; intros row vs HL HC HR H.
  - destruct row; [|discriminate]. cbn [omap] in H. inversion H. reflexivity.
  - destruct row as [|c row]; [discriminate|]. cbn [omap] in H.
    destruct (cell_value c) as [v| |] eqn:Ev; cbn [obind] in H; try discriminate.
    destruct (omap cell_value row) as [vs'| |] eqn:Evs; cbn [obind] in H; try discriminate.
    inversion H; subst vs. inversion HC as [|? ? C1 C2]; subst. inversion HR as [|? ? R1 R2]; subst.
    cbn [map combine object_denotes].
    rewrite (list_eqb_refl N.eqb N.eqb_refl), (cell_value_denoted c v C1 R1 Ev). cbn [andb].
    apply IH; [cbn [length] in HL; lia|exact C2|exact R2|exact Evs].
Qed.

Lemma objects_denote_ok names : forall rows vals,
  Forall (fun r => length r = length names) rows ->
  Forall (Forall cell_ok) rows -> Forall (Forall cell_ryu_ok) rows ->
  omap (omap cell_value) rows = Ok vals ->
  objects_denote names rows (map (combine (map utf8_sanitize names)) vals) = true.
Proof.
  induction rows as [|r rows IH]; intros vals HL HC HR H.
  - cbn [omap] in H. inversion H. reflexivity.
  - cbn [omap] in H.
    destruct (omap cell_value r) as [vs| |] eqn:Ev; cbn [obind] in H; try discriminate.
    destruct (omap (omap cell_value) rows) as [vals'| |] eqn:Evs; cbn [obind] in H; try discriminate.
    inversion H; subst vals. inversion HL as [|? ? L1 L2]; subst. inversion HC as [|? ? C1 C2]; subst.
    inversion HR as [|? ? R1 R2]; subst.
    cbn [map objects_denote]. rewrite (object_denotes_ok names r vs L1 C1 R1 Ev). cbn [andb].
    apply IH; try assumption; reflexivity.
Qed.

(* json-frame: the document of the model passes the oracle, and the whole check returns 0 on it *)
Theorem frame_oracle_from_valid f t :
  ferr f = false -> abs f = Ok t -> Forall (Forall cell_ok) (trows t) -> Forall (Forall cell_ryu_ok) (trows t) ->
  exists out, frame_to_json f = Ok out /\ json_table_oracle t out = true /\ check_jframe f (Some out) = 0.
Proof.
  intros He Ha Hc Hr.
  destruct (frame_json_valid f t He Ha Hc) as (out & vals & Eo & Ev & Ed).
  destruct (abs_shape f t Ha) as [Hn Hl]. rewrite <- Hn in Hl.
  assert (HO : json_table_oracle t out = true).
  { unfold json_table_oracle. rewrite Ed. exact (objects_denote_ok (tnames t) (trows t) vals Hl Hc Hr Ev). }
  exists out. split; [exact Eo|]. split; [exact HO|].
  unfold check_jframe. rewrite He, Ha.
  assert (HI : existsb (existsb cell_has_inf) (trows t) = false).
  { clear - Hc. induction (trows t) as [|r rows IH]; [reflexivity|]. inversion Hc as [|? ? C1 C2]; subst.
    cbn [existsb]. rewrite (IH C2), orb_false_r. clear - C1.
    induction r as [|c r IH]; [reflexivity|]. inversion C1 as [|? ? D1 D2]; subst. cbn [existsb].
    rewrite (IH D2), orb_false_r. destruct c as [z|b|b|s|s]; try reflexivity. destruct D1 as [_ D1]. exact D1. }
  rewrite HI, HO, Eo, bytes_eqb_refl. reflexivity.
Qed.

(* ================================================================== json-read *)

Lemma rb_type_spec_eq ty : rb_type_spec true ty = rb_type ty.
Proof. destruct ty; reflexivity. Qed.

Lemma rb_cell_spec_eq c : rb_cell_spec true c = rb_cell int_to_float_spec c.
Proof. destruct c; reflexivity. Qed.

Lemma readback_expected_eq t :
  readback_expected true t
  = mkTable (tnames t) (map rb_type (ttypes t)) (map (map (rb_cell int_to_float_spec)) (trows t)).
Proof.
  unfold readback_expected. f_equal.
  - apply map_ext. exact rb_type_spec_eq.
  - apply map_ext. intro r. apply map_ext. exact rb_cell_spec_eq.
Qed.

(* json-read: for a source frame that satisfies the premises of C14_readback — with the shipped ParseFloat
   table in the role of parse_float and the nearest-float function of the oracle in the role of int_to_float —
   the frame the model reads back passes the oracle, and the whole check returns 0 on it *)
Theorem read_check_from_readback (tbl : list (bytes * option N)) f t :
  ferr f = false -> wf_frame f = true -> abs f = Ok t ->
  cols f <> [] -> ix f <> [] ->
  NoDup (col_names f) -> Forall name_ok (col_names f) ->
  enum_tables_nodup f = true ->
  Forall (Forall (rb_ok (pf_of tbl) int_to_float_spec)) (trows t) ->
  exists out f',
    frame_to_json f = Ok out /\
    read_json (pf_of tbl) out (col_names f) (enum_conf (cols f)) = Ok f' /\
    readback_oracle (Some f) (col_names f) (enum_conf_of (cols f)) f' = true /\
    check_jread (Some f) out (col_names f) (enum_conf_of (cols f)) tbl f' = 0.
Proof.
  intros He Hwf Ha Hc Hi Hnd Hnm Hen Hrb.
  destruct (readback (pf_of tbl) int_to_float_spec f t He Hwf Ha Hc Hi Hnd Hnm Hen Hrb)
    as (out & f' & Eo & Er & Ee & Et).
  assert (HO : readback_oracle (Some f) (col_names f) (enum_conf_of (cols f)) f' = true).
  { unfold readback_oracle. rewrite Ha. cbv zeta.
    rewrite (list_eqb_refl bytes_eqb bytes_eqb_refl), enums_eqb_refl. cbn [orb]. rewrite !andb_true_r.
    destruct (rb_premises f t); [|reflexivity].
    rewrite Ee, Et. cbn [negb andb]. unfold readback_table_ok.
    rewrite readback_expected_eq. apply table_exact_eqb_refl. }
  exists out, f'. split; [exact Eo|]. split; [exact Er|]. split; [exact HO|].
  unfold check_jread. rewrite HO. cbn [negb]. rewrite enum_conf_of_eq, Er, frame_phys_eqb_refl. reflexivity.
Qed.

(* the decided premises of the oracle are those of C14_readback (the cell premises about ParseFloat aside) *)
Lemma rb_premises_sound f t :
  rb_premises f t = true ->
  ferr f = false /\ wf_frame f = true /\ cols f <> [] /\ ix f <> [] /\
  Forall name_ok (col_names f) /\ enum_tables_nodup f = true.
Proof.
  unfold rb_premises. intro H.
  repeat (apply andb_true_iff in H as [H ?]).
  split; [destruct (ferr f); [discriminate|reflexivity]|]. split; [assumption|].
  split; [destruct (cols f); [discriminate|discriminate]|].
  split; [destruct (ix f); [discriminate|discriminate]|].
  split.
  - apply Forall_forall. intros n Hn.
    match goal with Hx : forallb (fun n => utf8_valid n && check_name n) _ = true |- _ =>
      pose proof (proj1 (forallb_forall _ _) Hx n Hn) as Hq end.
    apply andb_true_iff in Hq. exact Hq.
  - unfold enum_tables_nodup, enum_table_nodup. assumption.
Qed.

(* ================================================================== ints come back as the nearest float

   int_to_float_spec (Corr/StringsCorr.v, the oracle's reading of "equal-valued float") is what a correctly
   rounding strconv.ParseFloat (parse_float_correct, Proofs/JsonDocProofs.v) returns for the decimal text of an
   int: the integer lies in the rounding interval of that float (ties: the even significand), and up to 2^53 the
   float is equal to the integer. *)

(* a float assembled from sign s (0 / 1), biased exponent E (1..2046) and significand M (2^52 <= M < 2^53) *)
Lemma decode_build (s E M : N) :
  s <= 1 -> 1 <= E -> E <= 2046 -> 2 ^ 52 <= M -> M < 2 ^ 53 ->
  let bits := s * 2 ^ 63 + E * 2 ^ 52 + (M - 2 ^ 52) in
  bits < 2 ^ 64 /\ (2 ^ 63 <=? bits) = (s =? 1) /\
  decode_float bits = Some {| f_m2 := M; f_e2 := (Z.of_N E - 1077)%Z;
                              f_lowgap := if (M - 2 ^ 52 =? 0) && (1 <? E) then 1 else 2 |}.
Proof.
  intros Hs HE1 HE2 HM1 HM2 bits.
  assert (Hd : bits / 2 ^ 52 = s * 2048 + E).
  { symmetry. apply (N.div_unique bits (2 ^ 52) (s * 2048 + E) (M - 2 ^ 52)); [lia|].
    unfold bits. change (2 ^ 63) with (2048 * 2 ^ 52). lia. }
  assert (Hm : bits mod 2 ^ 52 = M - 2 ^ 52).
  { symmetry. apply (N.mod_unique bits (2 ^ 52) (s * 2048 + E) (M - 2 ^ 52)); [lia|].
    unfold bits. change (2 ^ 63) with (2048 * 2 ^ 52). lia. }
  assert (He : (bits / 2 ^ 52) mod 2048 = E).
  { rewrite Hd. symmetry. apply (N.mod_unique (s * 2048 + E) 2048 s E); lia. }
  split; [unfold bits; change (2 ^ 64) with (2 * 2048 * 2 ^ 52); change (2 ^ 63) with (2048 * 2 ^ 52);
          change (2 ^ 53) with (2 * 2 ^ 52) in HM2; nia|].
  split.
  { assert (s = 0 \/ s = 1) as [->| ->] by lia.
    - apply N.leb_gt. unfold bits. change (2 ^ 63) with (2048 * 2 ^ 52).
      change (2 ^ 53) with (2 * 2 ^ 52) in HM2. nia.
    - apply N.leb_le. unfold bits. lia. }
  unfold decode_float. change 4503599627370496 with (2 ^ 52). rewrite He, Hm.
  destruct (N.eqb_spec E 2047) as [?|_]; [lia|]. destruct (N.eqb_spec E 0) as [?|_]; [lia|]. cbn [orb andb].
  f_equal. f_equal; [lia|lia].
Qed.

Lemma scale_flt0 e2 x : scale_flt 0 e2 x = x * 2 ^ Z.to_N e2.
Proof.
  unfold scale_flt. rewrite N.shiftl_mul_pow2, RyuShortest.pow5N_spec. change (Z.to_N (- 0)) with 0.
  rewrite N.pow_0_r, N.mul_1_r, Z.sub_0_r. reflexivity.
Qed.
Lemma scale_dec0 e2 y : scale_dec 0 e2 y = y * 2 ^ Z.to_N (- e2).
Proof.
  unfold scale_dec. rewrite N.shiftl_mul_pow2, RyuShortest.pow5N_spec. change (Z.to_N 0) with 0.
  rewrite N.pow_0_r, N.mul_1_r, Z.sub_0_l. reflexivity.
Qed.

Lemma in_interval_intro (ev : bool) lo hi x :
  lo <= x -> x <= hi -> (ev = false -> lo < x /\ x < hi) -> in_interval ev lo hi x = true.
Proof.
  intros H1 H2 H3. unfold in_interval. destruct ev.
  - apply andb_true_iff. split; apply N.leb_le; assumption.
  - destruct (H3 eq_refl). apply andb_true_iff. split; apply N.ltb_lt; assumption.
Qed.

(* sc_in at the grid 10^0 for an integer y, written with G = 2^max(-e2,0), U = 2^max(e2,0) *)
Lemma sc_in0 M e2 lg y :
  RyuShortest.sc_in {| f_m2 := M; f_e2 := e2; f_lowgap := lg |} 0 y
  = in_interval (N.even M) (4 * M * 2 ^ Z.to_N e2 - lg * 2 ^ Z.to_N e2) (4 * M * 2 ^ Z.to_N e2 + 2 * 2 ^ Z.to_N e2)
                (y * 2 ^ Z.to_N (- e2)).
Proof.
  unfold RyuShortest.sc_in, RyuShortest.sc_lo, RyuShortest.sc_hi, RyuShortest.sc_v. cbn [f_m2 f_e2 f_lowgap].
  rewrite !scale_flt0, scale_dec0, N.mul_1_l. reflexivity.
Qed.

(* sign, biased exponent, significand of the nearest float *)
Definition i2f_EM (a : N) : N * N :=
  let k := N.size a in
  if k <=? 53 then (k + 1022, a * 2 ^ (53 - k))
  else
    let sh := k - 53 in
    let q := a / 2 ^ sh in
    let r := a mod 2 ^ sh in
    let half := 2 ^ (sh - 1) in
    let q' := if (half <? r) || ((half =? r) && N.odd q) then q + 1 else q in
    if q' =? 2 ^ 53 then (k + 1023, 2 ^ 52) else (k + 1022, q').

Lemma size_bounds a : 0 < a -> 1 <= N.size a /\ 2 ^ (N.size a - 1) <= a /\ a < 2 ^ N.size a.
Proof.
  intro Ha. rewrite N.size_log2 by lia. pose proof (N.log2_spec a Ha) as [L1 L2].
  split; [lia|]. split; [|exact L2]. replace (N.succ (N.log2 a) - 1) with (N.log2 a) by lia. exact L1.
Qed.

Lemma i2f_bits z : (z <> 0)%Z ->
  let a := Z.abs_N z in
  int_to_float_spec z = (if (z <? 0)%Z then 1 else 0) * 2 ^ 63 + fst (i2f_EM a) * 2 ^ 52 + (snd (i2f_EM a) - 2 ^ 52).
Proof.
  intros Hz a. assert (Ha : 0 < a) by (unfold a; lia).
  destruct (size_bounds a Ha) as (K1 & K2 & K3).
  unfold int_to_float_spec, i2f_EM. fold a. destruct (N.eqb_spec a 0) as [?|_]; [lia|].
  set (k := N.size a) in *. cbv zeta.
  assert (Hs : (if (z <? 0)%Z then 2 ^ 63 else 0) = (if (z <? 0)%Z then 1 else 0) * 2 ^ 63)
    by (destruct (z <? 0)%Z; reflexivity).
  rewrite Hs. destruct (k <=? 53) eqn:Ek.
  - cbn [fst snd]. replace (k - 1 + 1023) with (k + 1022) by lia. reflexivity.
  - match goal with |- context [if ?c then ?x + 1 else ?x] => set (q' := if c then x + 1 else x) end.
    destruct (N.eqb_spec q' (2 ^ 53)) as [Eq|Nq]; cbn [fst snd].
    + rewrite Eq. replace (k - 1 + 1023) with (k + 1022) by lia.
      change (2 ^ 53 - 2 ^ 52) with (2 ^ 52). change (2 ^ 52 - 2 ^ 52) with 0. lia.
    + replace (k - 1 + 1023) with (k + 1022) by lia. reflexivity.
Qed.

Lemma i2f_EM_ok a : 0 < a -> a < 2 ^ 64 ->
  let E := fst (i2f_EM a) in let M := snd (i2f_EM a) in
  1 <= E /\ E <= 2046 /\ 2 ^ 52 <= M /\ M < 2 ^ 53 /\
  RyuShortest.sc_in {| f_m2 := M; f_e2 := (Z.of_N E - 1077)%Z;
                       f_lowgap := if (M - 2 ^ 52 =? 0) && (1 <? E) then 1 else 2 |} 0 a = true.
Proof.
  intros Ha Hb. destruct (size_bounds a Ha) as (K1 & K2 & K3).
  assert (K4 : N.size a <= 64).
  { destruct (N.le_gt_cases (N.size a) 64) as [?|G]; [assumption|exfalso].
    assert (2 ^ 64 <= 2 ^ (N.size a - 1)) by (apply N.pow_le_mono_r; lia). lia. }
  unfold i2f_EM. set (k := N.size a) in *. cbv zeta.
  destruct (N.leb_spec k 53) as [Ek|Ek].
  - (* exact *)
    cbn [fst snd].
    assert (P1 : 2 ^ (k - 1) * 2 ^ (53 - k) = 2 ^ 52) by (rewrite <- N.pow_add_r; f_equal; lia).
    assert (P2 : 2 ^ k * 2 ^ (53 - k) = 2 ^ 53) by (rewrite <- N.pow_add_r; f_equal; lia).
    assert (P0 : 0 < 2 ^ (53 - k)) by (apply N.neq_0_lt_0, N.pow_nonzero; lia).
    assert (B1 : 2 ^ 52 <= a * 2 ^ (53 - k)) by (rewrite <- P1; apply N.mul_le_mono_r; exact K2).
    assert (B2 : a * 2 ^ (53 - k) < 2 ^ 53) by (rewrite <- P2; apply N.mul_lt_mono_pos_r; [exact P0|exact K3]).
    split; [lia|]. split; [lia|]. split; [exact B1|]. split; [exact B2|].
    rewrite sc_in0.
    replace (Z.to_N (Z.of_N (k + 1022) - 1077)) with 0 by lia.
    replace (Z.to_N (- (Z.of_N (k + 1022) - 1077))) with (55 - k) by lia.
    rewrite N.pow_0_r, !N.mul_1_r.
    assert (P3 : 2 ^ (55 - k) = 4 * 2 ^ (53 - k)).
    { replace (55 - k) with (2 + (53 - k)) by lia. rewrite N.pow_add_r. reflexivity. }
    rewrite P3. set (ac := a * 2 ^ (53 - k)) in *.
    replace (a * (4 * 2 ^ (53 - k))) with (4 * ac) by (unfold ac; lia).
    match goal with |- context [if ?c then 1 else 2] => set (lg := if c then 1 else 2);
      assert (Hlg : 1 <= lg /\ lg <= 2) by (unfold lg; destruct c; lia) end.
    apply in_interval_intro; lia.
  - (* rounded *)
    set (sh := k - 53). set (S := 2 ^ sh). set (half := 2 ^ (sh - 1)).
    assert (HS : S = 2 * half).
    { unfold S, half. replace sh with (N.succ (sh - 1)) at 1 by (unfold sh; lia). apply N.pow_succ_r'. }
    assert (Hh : 0 < half) by (apply N.neq_0_lt_0, N.pow_nonzero; lia).
    assert (P1 : 2 ^ (k - 1) = 2 ^ 52 * S) by (unfold S, sh; rewrite <- N.pow_add_r; f_equal; lia).
    assert (P2 : 2 ^ k = 2 ^ 53 * S) by (unfold S, sh; rewrite <- N.pow_add_r; f_equal; lia).
    pose proof (N.div_mod a S ltac:(lia)) as DM. pose proof (N.mod_upper_bound a S ltac:(lia)) as MU.
    set (q := a / S) in *. set (r := a mod S) in *.
    assert (Q1 : 2 ^ 52 <= q) by (apply N.div_le_lower_bound; lia).
    assert (Q2 : q < 2 ^ 53) by (apply N.div_lt_upper_bound; lia).
    clear K2 K3 P1 P2. rewrite HS in DM, MU.
    set (up := (half <? r) || ((half =? r) && N.odd q)).
    (* the two exponent directions: G = 2^max(-e2,0), U = 2^max(e2,0) *)
    destruct up eqn:Eup.
    + (* round up *)
      assert (Hr : half <= r).
      { unfold up in Eup. apply orb_true_iff in Eup as [C|C]; [apply N.ltb_lt in C; lia|].
        apply andb_true_iff in C as [C _]. apply N.eqb_eq in C. lia. }
      assert (Hev : half = r -> N.even (q + 1) = true).
      { intro Hx. unfold up in Eup. rewrite Hx, N.ltb_irrefl, N.eqb_refl in Eup. cbn [orb andb] in Eup.
        rewrite N.add_1_r, N.even_succ. exact Eup. }
      destruct (N.eqb_spec (q + 1) (2 ^ 53)) as [Eq|Nq]; cbn [fst snd].
      * (* carry into the exponent *)
        split; [lia|]. split; [lia|]. split; [lia|]. split; [vm_compute; reflexivity|].
        rewrite sc_in0. change (2 ^ 52 - 2 ^ 52 =? 0) with true.
        destruct (N.ltb_spec 1 (k + 1023)) as [_|?]; [|lia]. cbn [andb].
        replace (Z.to_N (Z.of_N (k + 1023) - 1077)) with (sh - 1) by (unfold sh; lia).
        replace (Z.to_N (- (Z.of_N (k + 1023) - 1077))) with 0 by (unfold sh in *; lia).
        fold half. rewrite N.pow_0_r, N.mul_1_r.
        assert (Hq : q = 2 ^ 53 - 1) by lia. rewrite Hq in DM.
        apply in_interval_intro; [lia|lia|]. intro Hodd. vm_compute in Hodd. discriminate.
      * split; [lia|]. split; [lia|]. split; [lia|]. split; [lia|].
        rewrite sc_in0.
        destruct (N.eqb_spec (q + 1 - 2 ^ 52) 0) as [?|_]; [lia|]. cbn [andb].
        destruct (N.eq_dec sh 1) as [S1|S1].
        -- replace (Z.to_N (Z.of_N (k + 1022) - 1077)) with 0 by (unfold sh in *; lia).
           replace (Z.to_N (- (Z.of_N (k + 1022) - 1077))) with 1 by (unfold sh in *; lia).
           assert (half = 1) by (unfold half; rewrite S1; reflexivity).
           rewrite N.pow_0_r, N.pow_1_r, !N.mul_1_r.
           apply in_interval_intro; [lia|lia|]. intro Hodd.
           assert (half <> r) by (intro Hx; rewrite (Hev Hx) in Hodd; discriminate). lia.
        -- replace (Z.to_N (Z.of_N (k + 1022) - 1077)) with (sh - 2) by (unfold sh in *; lia).
           replace (Z.to_N (- (Z.of_N (k + 1022) - 1077))) with 0 by (unfold sh in *; lia).
           set (T := 2 ^ (sh - 2)).
           assert (HT : half = 2 * T).
           { unfold half, T. replace (sh - 1) with (N.succ (sh - 2)) by lia. apply N.pow_succ_r'. }
           rewrite N.pow_0_r, N.mul_1_r. rewrite HT in *. clearbody T.
           apply in_interval_intro; [lia|lia|]. intro Hodd.
           assert (2 * T <> r) by (intro Hx; rewrite (Hev Hx) in Hodd; discriminate). lia.
    + (* round down *)
      assert (Hr : r <= half).
      { unfold up in Eup. apply orb_false_iff in Eup as [C _]. apply N.ltb_ge in C. exact C. }
      assert (Hev : half = r -> N.even q = true).
      { intro Hx. unfold up in Eup. rewrite Hx, N.ltb_irrefl, N.eqb_refl in Eup. cbn [orb andb] in Eup.
        rewrite <- N.negb_odd, Eup. reflexivity. }
      destruct (N.eqb_spec q (2 ^ 53)) as [?|_]; [lia|]. cbn [fst snd].
      split; [lia|]. split; [lia|]. split; [lia|]. split; [lia|].
      rewrite sc_in0.
      match goal with |- context [if ?c then 1 else 2] => set (lg := if c then 1 else 2);
      assert (Hlg : 1 <= lg /\ lg <= 2) by (unfold lg; destruct c; lia) end.
      destruct (N.eq_dec sh 1) as [S1|S1].
      * replace (Z.to_N (Z.of_N (k + 1022) - 1077)) with 0 by (unfold sh in *; lia).
        replace (Z.to_N (- (Z.of_N (k + 1022) - 1077))) with 1 by (unfold sh in *; lia).
        assert (half = 1) by (unfold half; rewrite S1; reflexivity).
        rewrite N.pow_0_r, N.pow_1_r, !N.mul_1_r.
        apply in_interval_intro; [lia|lia|]. intro Hodd.
        assert (half <> r) by (intro Hx; rewrite (Hev Hx) in Hodd; discriminate). lia.
      * replace (Z.to_N (Z.of_N (k + 1022) - 1077)) with (sh - 2) by (unfold sh in *; lia).
        replace (Z.to_N (- (Z.of_N (k + 1022) - 1077))) with 0 by (unfold sh in *; lia).
        set (T := 2 ^ (sh - 2)).
        assert (HT : half = 2 * T).
        { unfold half, T. replace (sh - 1) with (N.succ (sh - 2)) by lia. apply N.pow_succ_r'. }
        rewrite N.pow_0_r, N.mul_1_r. rewrite HT in *. clearbody T.
        apply in_interval_intro; [lia|lia|]. intro Hodd.
        assert (2 * T <> r) by (intro Hx; rewrite (Hev Hx) in Hodd; discriminate). lia.
Qed.

(* the nearest float is what a correctly rounding ParseFloat reads the decimal text of an int as *)
Theorem int_parse_nearest (pf : bytes -> option N) (z : Z) :
  parse_float_correct pf -> Z.abs_N z < 2 ^ 64 ->
  pf (CsvWrite.itoa z) = Some (int_to_float_spec z).
Proof.
  intros (PZ & PN) Hz. destruct (int_token z) as (_ & JV).
  destruct (Z.eq_dec z 0) as [->|Hnz].
  - rewrite (PZ _ _ _ JV). reflexivity.
  - set (a := Z.abs_N z) in *. assert (Ha : 0 < a) by (unfold a; lia).
    destruct (i2f_EM_ok a Ha Hz) as (E1 & E2 & M1 & M2 & SI).
    set (s := if (z <? 0)%Z then 1 else 0).
    assert (Hs : s <= 1) by (unfold s; destruct (z <? 0)%Z; lia).
    destruct (decode_build s _ _ Hs E1 E2 M1 M2) as (B1 & B2 & B3).
    rewrite (i2f_bits z Hnz). fold a. fold s.
    apply (PN (CsvWrite.itoa z) (z <? 0)%Z a 0%Z 0 _ _ B1 B3).
    + rewrite B2. unfold s. destruct (z <? 0)%Z; reflexivity.
    + exact Ha.
    + exact SI.
    + rewrite JV. change (Z.of_N 0) with 0%Z. rewrite N.pow_0_r, N.mul_1_r. reflexivity.
Qed.

(* up to 2^53 the nearest float is the float EQUAL to the integer: significand m2 and binary exponent e2 + 2 of
   the decoded float satisfy m2 = |z| * 2^-(e2+2), e2 + 2 <= 0 *)
Theorem int_to_float_exact (z : Z) :
  z <> 0%Z -> Z.abs_N z < 2 ^ 53 ->
  exists fd, decode_float (int_to_float_spec z) = Some fd /\
             (f_e2 fd + 2 <= 0)%Z /\ f_m2 fd = Z.abs_N z * 2 ^ Z.to_N (- (f_e2 fd + 2)) /\
             (2 ^ 63 <=? int_to_float_spec z) = (z <? 0)%Z.
Proof.
  intros Hnz Hz. set (a := Z.abs_N z) in *. assert (Ha : 0 < a) by (unfold a; lia).
  assert (Hz64 : a < 2 ^ 64) by (assert (2 ^ 53 < 2 ^ 64) by (vm_compute; reflexivity); lia).
  destruct (i2f_EM_ok a Ha Hz64) as (E1 & E2 & M1 & M2 & _).
  set (s := if (z <? 0)%Z then 1 else 0).
  assert (Hs : s <= 1) by (unfold s; destruct (z <? 0)%Z; lia).
  destruct (decode_build s _ _ Hs E1 E2 M1 M2) as (_ & B2 & B3).
  rewrite (i2f_bits z Hnz). fold a. fold s. eexists. split; [exact B3|]. cbn [f_e2 f_m2].
  destruct (size_bounds a Ha) as (K1 & K2 & K3).
  assert (K4 : N.size a <= 53).
  { destruct (N.le_gt_cases (N.size a) 53) as [?|G]; [assumption|exfalso].
    assert (2 ^ 53 <= 2 ^ (N.size a - 1)) by (apply N.pow_le_mono_r; lia). lia. }
  assert (EM : i2f_EM a = (N.size a + 1022, a * 2 ^ (53 - N.size a))).
  { unfold i2f_EM. destruct (N.leb_spec (N.size a) 53) as [_|?]; [reflexivity|lia]. }
  split; [|split].
  - rewrite EM. cbn [fst]. lia.
  - rewrite EM. cbn [fst snd]. f_equal. f_equal. lia.
  - rewrite B2. unfold s. destruct (z <? 0)%Z; reflexivity.
Qed.

(* C14's second sentence with the int clause discharged: with a correctly rounding ParseFloat and the Ryu
   decimal inside the rounding interval, int columns come back as the nearest float (the equal float up to
   2^53), for every int of 64 bits *)
Theorem readback_from_spec_ints parse_float f t :
  parse_float_correct parse_float -> ryu_in_interval ->
  ferr f = false -> wf_frame f = true -> abs f = Ok t ->
  cols f <> [] -> ix f <> [] ->
  NoDup (col_names f) -> Forall name_ok (col_names f) ->
  enum_tables_nodup f = true ->
  Forall (Forall (fun c =>
            match c with
            | CInt z => Z.abs_N z < 2 ^ 64
            | CFloat b => b < 2 ^ 64 /\ f_isnan b = false /\ f_isinf b = false
            | CStr (Some s) | CEnum (Some s) => utf8_valid s = true
            | _ => True
            end)) (trows t) ->
  exists out f',
    frame_to_json f = Ok out /\
    read_json parse_float out (col_names f) (enum_conf (cols f)) = Ok f' /\
    ferr f' = false /\
    abs f' = Ok (mkTable (tnames t) (map rb_type (ttypes t)) (map (map (rb_cell int_to_float_spec)) (trows t))).
Proof.
  intros HP HR He Hwf Ha Hcs HI Hnd Hnames Hndt Hcells.
  apply (readback_from_spec parse_float int_to_float_spec f t HP HR He Hwf Ha Hcs HI Hnd Hnames Hndt).
  eapply Forall_impl; [|exact Hcells]. intros row Hrow.
  eapply Forall_impl; [|exact Hrow]. intros c Hc.
  destruct c as [z|b|b|[s|]|[s|]]; try exact Hc.
  exact (int_parse_nearest parse_float z HP Hc).
Qed.

From Coq Require Import Sorting.Permutation.
From QF Require Import Proofs.JsonProofs.

(* ================================================================== ReadJSON without ColumnOrder

   New sorts the column names (sort.Strings = Model/Ops.v sort_names).  The frame that comes back is the source
   frame with its columns re-selected in that order: sort_cols is sort_names carried out on the (name, column)
   pairs. *)
Fixpoint insert_col (x : bytes * coldata) (l : list (bytes * coldata)) : list (bytes * coldata) :=
  match l with
  | [] => [x]
  | y :: r => match bytes_cmp (fst x) (fst y) with Gt => y :: insert_col x r | _ => x :: l end
  end.
Definition sort_cols (cs : list (bytes * coldata)) : list (bytes * coldata) := fold_right insert_col [] cs.

Lemma insert_col_names x l : map fst (insert_col x l) = insert_sorted (fst x) (map fst l).
Proof.
  induction l as [|y r IH]; [reflexivity|]. cbn [insert_col map insert_sorted].
  destruct (bytes_cmp (fst x) (fst y)); cbn [map]; try reflexivity. rewrite IH. reflexivity.
Qed.

Lemma sort_cols_names cs : map fst (sort_cols cs) = sort_names (map fst cs).
Proof.
  induction cs as [|x cs IH]; [reflexivity|]. unfold sort_cols, sort_names in *. cbn [fold_right map].
  rewrite insert_col_names, IH. reflexivity.
Qed.

Lemma insert_col_perm x l : Permutation (insert_col x l) (x :: l).
Proof.
  induction l as [|y r IH]; [apply Permutation_refl|]. cbn [insert_col].
  destruct (bytes_cmp (fst x) (fst y)); try apply Permutation_refl.
  eapply Permutation_trans; [apply perm_skip; exact IH|apply perm_swap].
Qed.

Lemma sort_cols_perm cs : Permutation (sort_cols cs) cs.
Proof.
  induction cs as [|x cs IH]; [apply Permutation_refl|]. unfold sort_cols in *. cbn [fold_right].
  eapply Permutation_trans; [apply insert_col_perm|apply perm_skip; exact IH].
Qed.

Lemma ofold_ext {A B} (f g : B -> A -> outcome B) :
  (forall b a, f b a = g b a) -> forall l i, ofold f l i = ofold g l i.
Proof.
  intros H l i. unfold ofold. generalize (Ok i). induction l as [|x l IH]; intro o; [reflexivity|].
  cbn [fold_left]. rewrite IH. f_equal. destruct o as [a| |]; cbn [obind]; [apply H|reflexivity|reflexivity].
Qed.

Lemma bytes_in_dec (n : bytes) (l : list bytes) : {In n l} + {~ In n l}.
Proof. apply in_dec. apply list_eq_dec. apply N.eq_dec. Qed.

Lemma map_fst_pair {A B} (h : bytes * A -> B) (cs : list (bytes * A)) :
  map fst (map (fun x => (fst x, h x)) cs) = map fst cs.
Proof. rewrite map_map. apply map_ext. reflexivity. Qed.

Lemma assocb_perm_map {B} (h : bytes * coldata -> B) cs cs' :
  NoDup (map fst cs) -> Permutation cs' cs ->
  forall n, assocb n (map (fun x => (fst x, h x)) cs') = assocb n (map (fun x => (fst x, h x)) cs).
Proof.
  intros Hnd HP n.
  assert (Hnd' : NoDup (map fst cs')).
  { eapply Permutation_NoDup; [|exact Hnd]. apply Permutation_map. apply Permutation_sym. exact HP. }
  destruct (bytes_in_dec n (map fst cs)) as [Hin|Hout].
  - apply in_map_iff in Hin as (nc & <- & Hnc).
    rewrite (assocb_map h cs nc Hnd Hnc).
    apply (assocb_map h cs' nc Hnd'). eapply Permutation_in; [apply Permutation_sym; exact HP|exact Hnc].
  - rewrite (assocb_none n (map (fun x => (fst x, h x)) cs)) by (rewrite map_fst_pair; exact Hout).
    apply assocb_none. rewrite map_fst_pair. intro X. apply Hout.
    eapply Permutation_in; [apply Permutation_map; exact HP|exact X].
Qed.

Lemma assocb_perm_enum cs cs' :
  NoDup (map fst cs) -> Permutation cs' cs ->
  forall n, assocb n (enum_conf cs') = assocb n (enum_conf cs).
Proof.
  intros Hnd HP n.
  assert (Hnd' : NoDup (map fst cs')).
  { eapply Permutation_NoDup; [|exact Hnd]. apply Permutation_map. apply Permutation_sym. exact HP. }
  destruct (bytes_in_dec n (map fst cs)) as [Hin|Hout].
  - apply in_map_iff in Hin as (nc & <- & Hnc).
    rewrite (assocb_enum_conf cs nc Hnd Hnc).
    apply (assocb_enum_conf cs' nc Hnd'). eapply Permutation_in; [apply Permutation_sym; exact HP|exact Hnc].
  - rewrite (assocb_none n (enum_conf cs)) by (intro X; apply Hout; apply enames_subset; exact X).
    apply assocb_none. intro X. apply Hout.
    eapply Permutation_in; [apply Permutation_map; exact HP|apply enames_subset; exact X].
Qed.

Lemma nf_step_ext data data' enums enums' :
  (forall n, assocb n data' = assocb n data) -> (forall n, assocb n enums' = assocb n enums) ->
  forall st n, nf_step data' enums' st n = nf_step data enums st n.
Proof.
  intros H1 H2 [[acc first] used] n. unfold nf_step. rewrite H1, H2. reflexivity.
Qed.

Lemma sort_names_length l : length (sort_names l) = length l.
Proof.
  induction l as [|x l IH]; [reflexivity|]. unfold sort_names in *. cbn [fold_right length].
  rewrite <- IH. generalize (fold_right insert_sorted [] l). intro s.
  induction s as [|y s IHs]; [reflexivity|]. cbn [insert_sorted].
  destruct (bytes_cmp x y); cbn [length]; try reflexivity. rewrite IHs. reflexivity.
Qed.

Theorem readback_noorder (parse_float : bytes -> option N) (int_to_float : Z -> N) f t :
  ferr f = false -> wf_frame f = true -> abs f = Ok t ->
  cols f <> [] -> ix f <> [] ->
  NoDup (col_names f) -> Forall name_ok (col_names f) ->
  enum_tables_nodup f = true ->
  Forall (Forall (rb_ok parse_float int_to_float)) (trows t) ->
  exists out f' tg,
    frame_to_json f = Ok out /\
    read_json parse_float out [] (enum_conf (cols f)) = Ok f' /\
    ferr f' = false /\
    abs (mkFrame (sort_cols (cols f)) (ix f) false) = Ok tg /\
    tnames tg = sort_names (col_names f) /\
    abs f' = Ok (mkTable (tnames tg) (map rb_type (ttypes tg)) (map (map (rb_cell int_to_float)) (trows tg))).
Proof.
  intros He Hwf Ha Hcs HI Hnd Hnames Hndt Hrb.
  destruct (abs_rows f t Ha) as (Hn & Hty & Hrows & Hcell).
  set (cs := cols f) in *. set (I := ix f) in *. unfold col_names in *. fold cs in Hnd, Hnames, Hn |- *.
  set (names := map fst cs) in *.
  assert (HL : Forall (fun r => length r = length names) (trows t)).
  { rewrite Hrows. apply Forall_forall. intros r Hr. apply in_map_iff in Hr as (p & <- & _).
    unfold names. rewrite !map_length. reflexivity. }
  destruct (rb_rows_tokens parse_float int_to_float names (trows t) HL Hrb) as (texts & toks & A & B & C).
  destruct (to_json_document names texts toks B) as (out & Eo & Ep).
  assert (Hvalid : Forall (fun n => utf8_valid n = true) names).
  { eapply Forall_impl; [|exact Hnames]. intros n [X _]. exact X. }
  assert (Erec : omap (decode_record parse_float) (map (combine (map utf8_sanitize names)) toks)
                 = Ok (map (rec_of int_to_float cs) I)).
  { rewrite (decode_records_ok parse_float int_to_float names toks (trows t) Hnd Hvalid C HL). f_equal.
    rewrite Hrows, map_map. apply map_ext. intro p. unfold names, rec_of.
    rewrite map_map. apply combine_map_fst. }
  (* the sorted columns *)
  set (cs' := sort_cols cs).
  assert (HP : Permutation cs' cs) by apply sort_cols_perm.
  assert (Hin' : forall nc, In nc cs' -> In nc cs) by (intros nc X; eapply Permutation_in; [exact HP|exact X]).
  assert (Hnd' : NoDup (map fst cs')).
  { eapply Permutation_NoDup; [|exact Hnd]. apply Permutation_map. apply Permutation_sym. exact HP. }
  assert (Hcol : forall nc, In nc cs ->
            create_column (rb_data int_to_float I (snd nc)) (enum_of (snd nc)) = Ok (rb_col int_to_float I (snd nc)) /\
            col_len (rb_col int_to_float I (snd nc)) = length I /\
            col_type (rb_col int_to_float I (snd nc)) = rb_type (col_type (snd nc)) /\
            forall k p, nth_error I k = Some p ->
              cell_at (rb_col int_to_float I (snd nc)) k = Ok (rb_cell int_to_float (cellT (snd nc) p))).
  { intros nc Hnc. apply create_ok.
    - intros p Hp. apply Hcell; assumption.
    - unfold wf_frame in Hwf. apply andb_true_iff in Hwf as [Hwf _]. rewrite forallb_forall in Hwf.
      specialize (Hwf nc Hnc). apply andb_true_iff in Hwf as [_ Hwf]. exact Hwf.
    - unfold enum_tables_nodup in Hndt. rewrite forallb_forall in Hndt. apply (Hndt nc Hnc). }
  set (data := map (fun nc => (fst nc, rb_data int_to_float I (snd nc))) cs).
  set (f' := mkFrame (map (fun nc => (fst nc, rb_col int_to_float I (snd nc))) cs') (seq 0 (length I)) false).
  set (tg := mkTable (map fst cs') (map (fun nc => col_type (snd nc)) cs')
                     (map (fun p => map (fun nc => cellT (snd nc) p) cs') I)).
  exists out, f', tg.
  split.
  { unfold frame_to_json. rewrite He, Ha. cbn [obind]. rewrite Hn, A. cbn [obind]. exact Eo. }
  split.
  { unfold read_json. rewrite Ep. unfold read_json_records. rewrite Erec.
    assert (HI' : exists p0 I', I = p0 :: I') by (destruct I as [|p0 I']; [congruence|eauto]).
    destruct HI' as (p0 & I' & EI).
    assert (Edata : records_to_data (map (rec_of int_to_float cs) I) = Ok data).
    { unfold data. rewrite EI. apply records_to_data_ok; [exact Hnd|].
      intros p nc Hp Hnc. apply Hcell; [rewrite EI; exact Hp|exact Hnc]. }
    rewrite Edata. rewrite new_frame_unfold. cbv zeta.
    assert (Hchk : forallb (fun kv : bytes * newdata => check_name (fst kv)) data = true).
    { apply forallb_forall. intros kv Hkv. unfold data in Hkv. apply in_map_iff in Hkv as (nc & <- & Hnc).
      cbn [fst]. rewrite Forall_forall in Hnames. apply (Hnames (fst nc)). apply in_map. exact Hnc. }
    rewrite Hchk. cbn [negb]. cbv iota.
    assert (Hord : sort_names (map fst data) = map fst cs').
    { unfold data. rewrite map_fst_pair. unfold cs'. symmetry. apply sort_cols_names. }
    rewrite Hord.
    assert (Hlen : Nat.eqb (length (map fst cs')) (length data) = true).
    { unfold data. rewrite !map_length. rewrite (Permutation_length HP). apply Nat.eqb_refl. }
    rewrite Hlen. cbn [negb].
    assert (Hfound : forallb (fun n => match assocb n data with Some _ => true | None => false end) (map fst cs') = true).
    { apply forallb_forall. intros n Hin. apply in_map_iff in Hin as (nc & <- & Hnc).
      unfold data. rewrite (assocb_map (fun x => rb_data int_to_float I (snd x)) cs nc Hnd (Hin' nc Hnc)). reflexivity. }
    rewrite Hfound. cbn [negb].
    rewrite (proj2 (nodup_bytes_spec (map fst cs')) Hnd'). cbn [negb].
    pose proof (nf_fold int_to_float cs' I Hnd'
                        (fun nc Hnc => conj (proj1 (Hcol nc (Hin' nc Hnc))) (proj1 (proj2 (Hcol nc (Hin' nc Hnc)))))
                        cs' [] eq_refl) as NF.
    cbn [map first_of rev] in NF. unfold enames at 1 in NF. cbn [enum_conf flat_map map rev] in NF.
    rewrite (ofold_ext _ _ (nf_step_ext data _ (enum_conf cs) _
               (assocb_perm_map (fun x => rb_data int_to_float I (snd x)) cs cs' Hnd HP)
               (assocb_perm_enum cs cs' Hnd HP))) in NF.
    rewrite NF.
    assert (Hused : forallb (fun kv : bytes * list bytes => existsb (bytes_eqb (fst kv)) (rev (enames cs')))
                            (enum_conf cs) = true).
    { apply forallb_forall. intros kv Hkv. apply existsb_in. rewrite <- in_rev. unfold enames.
      apply in_map_iff. exists kv. split; [reflexivity|].
      unfold enum_conf in *. apply in_flat_map in Hkv as (nc & Hnc & Hkv). apply in_flat_map. exists nc.
      split; [|exact Hkv]. eapply Permutation_in; [apply Permutation_sym; exact HP|exact Hnc]. }
    rewrite Hused. cbn [negb].
    assert (Hfirst : first_of cs' (length I) = length I).
    { destruct cs' eqn:Ec; [|reflexivity]. exfalso. apply Hcs. fold cs.
      apply Permutation_nil. exact HP. }
    rewrite Hfirst. reflexivity. }
  split; [reflexivity|].
  split.
  { unfold abs. cbn [ix cols]. fold cs'. fold I.
    rewrite (omap_map_ok _ (fun p => map (fun nc => cellT (snd nc) p) cs')).
    - cbn [obind]. reflexivity.
    - intros p Hp. unfold row_at. cbn [cols]. apply omap_map_ok. intros nc Hnc.
      apply Hcell; [exact Hp|exact (Hin' nc Hnc)]. }
  split.
  { unfold tg. cbn [tnames]. unfold cs'. rewrite sort_cols_names. reflexivity. }
  unfold f'. rewrite (abs_result int_to_float cs' I (fun nc Hnc => proj2 (proj2 (proj2 (Hcol nc (Hin' nc Hnc)))))).
  f_equal. unfold tg. cbn [tnames ttypes trows]. f_equal.
  - rewrite map_map. apply map_ext_in. intros nc Hnc. apply (Hcol nc (Hin' nc Hnc)).
  - rewrite map_map. apply map_ext. intro p. rewrite map_map. reflexivity.
Qed.

(* the same with the premises about ParseFloat replaced by its specification (as readback_from_spec_ints) *)
Theorem readback_noorder_from_spec parse_float f t :
  parse_float_correct parse_float -> ryu_in_interval ->
  ferr f = false -> wf_frame f = true -> abs f = Ok t ->
  cols f <> [] -> ix f <> [] ->
  NoDup (col_names f) -> Forall name_ok (col_names f) ->
  enum_tables_nodup f = true ->
  Forall (Forall (fun c =>
            match c with
            | CInt z => Z.abs_N z < 2 ^ 64
            | CFloat b => b < 2 ^ 64 /\ f_isnan b = false /\ f_isinf b = false
            | CStr (Some s) | CEnum (Some s) => utf8_valid s = true
            | _ => True
            end)) (trows t) ->
  exists out f' tg,
    frame_to_json f = Ok out /\
    read_json parse_float out [] (enum_conf (cols f)) = Ok f' /\
    ferr f' = false /\
    abs (mkFrame (sort_cols (cols f)) (ix f) false) = Ok tg /\
    tnames tg = sort_names (col_names f) /\
    abs f' = Ok (mkTable (tnames tg) (map rb_type (ttypes tg)) (map (map (rb_cell int_to_float_spec)) (trows tg))).
Proof.
  intros HP HR He Hwf Ha Hcs HI Hnd Hnames Hndt Hcells.
  apply (readback_noorder parse_float int_to_float_spec f t He Hwf Ha Hcs HI Hnd Hnames Hndt).
  eapply Forall_impl; [|exact Hcells]. intros row Hrow.
  eapply Forall_impl; [|exact Hrow]. intros c Hc.
  destruct c as [z|b|b|[s|]|[s|]]; cbn [rb_ok]; try exact Hc.
  - exact (int_parse_nearest parse_float z HP Hc).
  - destruct Hc as (H1 & H2 & H3). exact (float_rb_ok parse_float int_to_float_spec b HP HR H1 H2 H3).
Qed.
