(* Proofs/FilterProofs.v — the structural part of property C02 for the model of Model/Filter.v:
   the guarded loops only ever ADD matches to the shared mask and decide each row by itself;
   a batch of leaves evaluated on one shared mask keeps exactly the rows satisfying ANY of them;
   the order-preserving merges of Or and Not compute union and complement inside the frame's index;
   hence every clause tree keeps exactly the rows of its boolean reading, once each, in frame order,
   for every row index (however the frame was derived) and every nesting. *)
From QF Require Import Base.Prelude Base.KernelSyntax Model.Frame Model.Kernel Model.Filter.
Local Open Scope nat_scope.

(* ------------------------------------------------------------------ masks *)

Definition mask_or (b s : list bool) : list bool := map (fun xy : bool * bool => fst xy || snd xy) (combine b s).

Lemma mask_or_length b s : length b = length s -> length (mask_or b s) = length b.
Proof. intro H. unfold mask_or. rewrite map_length, combine_length. lia. Qed.

Lemma mask_or_false_l s : mask_or (map (fun _ : nat => false) (seq 0 (length s))) s = s.
Proof.
  unfold mask_or. generalize 0 as k. induction s as [|x s IH]; intro k; simpl; [reflexivity|].
  f_equal. apply IH.
Qed.

Lemma mask_or_all_false (A : Type) (l : list A) (s : list bool) :
  length l = length s -> mask_or (map (fun _ => false) l) s = s.
Proof.
  revert s; induction l as [|a l IH]; intros [|x s] H; simpl in *; try discriminate; [reflexivity|].
  unfold mask_or in *. simpl. f_equal. apply IH. lia.
Qed.

(* ------------------------------------------------------------------ the guarded loop is local and monotone *)

Section GuardedLoop.
  Variable env : kenv.
  Variable c : option kexpr.
  Variable e : kexpr.

  (* the decision of the loop body for one position *)
  Definition body_point (p : nat) : outcome bool :=
    do go <- match c with
             | None => Ok true
             | Some ce => do v <- keval env p ce; as_bool v
             end;
    if go then do v <- keval env p e; as_bool v else Ok false.

  (* whatever the loop returns is the old mask OR-ed with the per-row decision: rows that already matched
     stay matched, every other row is decided by its own cells only, positions keep their places *)
  Lemma guarded_loop_local : forall b index r,
    length index = length b ->
    guarded_loop env c e index b = Ok r ->
    Forall2 (fun xp y => y = true /\ fst xp = true \/ fst xp = false /\ body_point (snd xp) = Ok y) (combine b index) r.
  Proof.
    induction b as [|x b IH]; intros index r Hlen H.
    - destruct index; simpl in *; inversion H; constructor.
    - destruct index as [|p index]; simpl in Hlen; [discriminate|].
      simpl in H.
      destruct (guarded_loop env c e index b) as [r'| |] eqn:Hr; simpl in H; try discriminate.
      specialize (IH index r' ltac:(lia) Hr).
      destruct x.
      + inversion H; subst. simpl. constructor; [left; auto|exact IH].
      + assert (Hy : exists y, body_point p = Ok y /\ r = y :: r').
        { unfold body_point. clear IH Hr. unfold obind in *.
          destruct c as [ce|];
            repeat match goal with
                   | H : context[match keval env p ?x with _ => _ end] |- _ =>
                       destruct (keval env p x); try discriminate
                   | H : context[match as_bool ?x with _ => _ end] |- _ =>
                       destruct (as_bool x) as [[|]| |]; try discriminate
                   end; inversion H; subst; eexists; split; reflexivity. }
        destruct Hy as [y [Hy ->]]. constructor; [right; auto|exact IH].
  Qed.

  (* and the loop succeeds as soon as every row that is still undecided can be decided *)
  Lemma guarded_loop_total : forall b index,
    length index = length b ->
    (forall p, In p index -> exists v, body_point p = Ok v) ->
    exists r, guarded_loop env c e index b = Ok r.
  Proof.
    induction b as [|x b IH]; intros index Hlen Hpt.
    - exists []. destruct index; reflexivity.
    - destruct index as [|p index]; simpl in Hlen; [discriminate|].
      destruct (IH index ltac:(lia) (fun q Hq => Hpt q (or_intror Hq))) as [r' Hr].
      simpl. rewrite Hr. simpl.
      destruct x; [eexists; reflexivity|].
      destruct (Hpt p (or_introl eq_refl)) as [v Hv]. unfold body_point in Hv.
      destruct c as [ce|]; simpl in *.
      + destruct (keval env p ce) as [w| |]; simpl in *; try discriminate.
        destruct (as_bool w) as [[|]| |]; simpl in *; try discriminate.
        * destruct (keval env p e) as [u| |]; simpl in *; try discriminate.
          destruct (as_bool u) as [ub| |]; simpl in *; try discriminate. eexists; reflexivity.
        * eexists; reflexivity.
      + destruct (keval env p e) as [u| |]; simpl in *; try discriminate.
        destruct (as_bool u) as [ub| |]; simpl in *; try discriminate. eexists; reflexivity.
  Qed.
End GuardedLoop.

(* a kernel other than "fill with false" never clears a bit of the mask (this is the obligation that
   failed for icolumn.isNull before the repair: its body was `bIndex[i] = false` for every i) *)
Definition kernel_clears (k : kernel) : bool :=
  match k with KFill false => true | _ => false end.

Lemma run_kernel_monotone d env k index b r :
  kernel_clears k = false ->
  (forall fn k', k = KDelegate fn true \/ k = KDelegate fn false -> d fn = Some k' -> kernel_clears k' = false) ->
  length index = length b ->
  run_kernel d env k index b = Ok r ->
  Forall2 (fun x y => x = true -> y = true) b r.
Proof.
  intros Hk Hd Hlen H.
  assert (direct : forall k0, kernel_clears k0 = false ->
            match k0 with
            | KNoOp => Ok b
            | KFill v => Ok (map (fun _ => v) b)
            | KGuarded _ e => guarded_loop env None e index b
            | KGuardedIf _ c e => guarded_loop env (Some c) e index b
            | KDelegate _ _ => Panic
            end = Ok r -> Forall2 (fun x y => x = true -> y = true) b r).
  { intros k0 Hk0 H0. destruct k0 as [|v|p e|p c e|fn fl]; try discriminate.
    - inversion H0; subst. clear. induction r; constructor; auto.
    - destruct v; [|discriminate]. inversion H0; subst. clear. induction b; simpl; constructor; auto.
    - pose proof (guarded_loop_local env None e b index r Hlen H0) as HL.
      clear - HL Hlen. revert index r Hlen HL. induction b as [|x b IH]; intros [|p index] r Hlen HL; simpl in *; try discriminate.
      + inversion HL; constructor.
      + inversion HL as [|? y ? r' Hh Ht]; subst. constructor.
        * intro Hx. destruct Hh as [[? _]|[Hf _]]; [assumption|simpl in Hf; congruence].
        * eapply IH; [|exact Ht]. lia.
    - pose proof (guarded_loop_local env (Some c) e b index r Hlen H0) as HL.
      clear - HL Hlen. revert index r Hlen HL. induction b as [|x b IH]; intros [|p index] r Hlen HL; simpl in *; try discriminate.
      + inversion HL; constructor.
      + inversion HL as [|? y ? r' Hh Ht]; subst. constructor.
        * intro Hx. destruct Hh as [[? _]|[Hf _]]; [assumption|simpl in Hf; congruence].
        * eapply IH; [|exact Ht]. lia. }
  unfold run_kernel in H.
  destruct k as [|v|p e|p c e|fn fl].
  - exact (direct KNoOp Hk H).
  - exact (direct (KFill v) Hk H).
  - exact (direct (KGuarded p e) Hk H).
  - exact (direct (KGuardedIf p c e) Hk H).
  - destruct (d fn) as [k'|] eqn:Hdf; [|discriminate].
    apply (direct k'); [|exact H].
    eapply Hd; [|exact Hdf]. destruct fl; auto.
Qed.

(* ------------------------------------------------------------------ index.Filter *)

Lemma index_filter_spec : forall b index,
  length index = length b ->
  index_filter index b = Ok (map snd (filter (fun xp : bool * nat => fst xp) (combine b index))).
Proof.
  induction b as [|x b IH]; intros [|p index] H; simpl in *; try discriminate; [reflexivity|].
  rewrite IH by lia. simpl. destruct x; reflexivity.
Qed.

Lemma filter_by_mask (P : nat -> bool) : forall index,
  map snd (filter (fun xp : bool * nat => fst xp) (combine (map P index) index)) = filter P index.
Proof.
  induction index as [|p index IH]; simpl; [reflexivity|].
  destruct (P p); simpl; rewrite IH; reflexivity.
Qed.

(* ------------------------------------------------------------------ the order preserving merges *)

Lemma filter_head_notin (P : nat -> bool) p l :
  ~ In p l -> match filter P l with x :: _ => Nat.eqb x p = false | [] => True end.
Proof.
  intro Hn. destruct (filter P l) as [|x t] eqn:E; [exact I|].
  apply Nat.eqb_neq. intro Hx; subst x.
  assert (In p (filter P l)) by (rewrite E; left; reflexivity).
  apply filter_In in H. tauto.
Qed.

(* OrClause: union, in the order of the original index, each row once *)
Lemma or_merge_filter (P Q : nat -> bool) : forall orig,
  NoDup orig ->
  or_merge orig (filter P orig) (filter Q orig) = filter (fun p => P p || Q p) orig.
Proof.
  induction orig as [|p orig IH]; intro Hnd; [reflexivity|].
  inversion Hnd as [|? ? Hnotin Hnd']; subst.
  specialize (IH Hnd').
  simpl.
  pose proof (filter_head_notin P p orig Hnotin) as HP.
  pose proof (filter_head_notin Q p orig Hnotin) as HQ.
  destruct (P p) eqn:EP; destruct (Q p) eqn:EQ; simpl; rewrite ?Nat.eqb_refl; simpl.
  - f_equal. exact IH.
  - destruct (filter Q orig) as [|x t] eqn:E; simpl.
    + f_equal. exact IH.
    + rewrite HQ. simpl. f_equal. exact IH.
  - destruct (filter P orig) as [|x t] eqn:E; simpl.
    + f_equal. exact IH.
    + rewrite HP. simpl. f_equal. exact IH.
  - destruct (filter P orig) as [|x t] eqn:E; destruct (filter Q orig) as [|y u] eqn:E2; simpl;
      rewrite ?HP, ?HQ; simpl; exact IH.
Qed.

(* NotClause: complement inside the frame *)
Lemma not_merge_filter (P : nat -> bool) : forall orig,
  NoDup orig ->
  not_merge orig (filter P orig) = filter (fun p => negb (P p)) orig.
Proof.
  induction orig as [|p orig IH]; intro Hnd; [reflexivity|].
  inversion Hnd as [|? ? Hnotin Hnd']; subst.
  specialize (IH Hnd').
  simpl.
  pose proof (filter_head_notin P p orig Hnotin) as HP.
  destruct (P p) eqn:EP; simpl.
  - rewrite Nat.eqb_refl. exact IH.
  - destruct (filter P orig) as [|x t] eqn:E; simpl.
    + f_equal. exact IH.
    + rewrite HP. f_equal. exact IH.
Qed.

Lemma NoDup_filter (P : nat -> bool) l : NoDup l -> NoDup (filter P l).
Proof.
  induction l as [|x l IH]; intro H; simpl; [constructor|].
  inversion H; subst. destruct (P x); [constructor|]; auto.
  intro Hin. apply filter_In in Hin. tauto.
Qed.

Lemma filter_filter (P Q : nat -> bool) l : filter Q (filter P l) = filter (fun p => P p && Q p) l.
Proof.
  induction l as [|x l IH]; simpl; [reflexivity|].
  destruct (P x); simpl; [destruct (Q x)|]; rewrite IH; reflexivity.
Qed.

(* ------------------------------------------------------------------ a batch of leaves on one shared mask *)

Section Clauses.
  Variable mt : matcher_table.
  Variable f : frame.                       (* the frame whose columns are filtered; its index varies below *)
  Hypothesis f_ok : ferr f = false.

  (* the row-wise meaning of a leaf: any function of the row position ... *)
  Variable leaf_set : leaf -> nat -> bool.

  (* the physical positions that exist in the frame's columns; every row index considered below
     consists of such positions (wf_frame), out-of-range positions would be a Go panic *)
  Variable inb : nat -> Prop.

  Lemma Forall_filter_inb (P : nat -> bool) i : Forall inb i -> Forall inb (filter P i).
  Proof.
    induction 1 as [|x i Hx Hi IH]; simpl; [constructor|]. destruct (P x); [constructor|]; assumption.
  Qed.

  (* ... that the per-leaf step of QFrame.filter realises on the shared mask, for every sub-index *)
  Definition leaf_realised (l : leaf) : Prop :=
    forall (i : list nat) (b : list bool), length i = length b -> Forall inb i ->
      filter_leaf mt (with_ix f i) l b = Ok (mask_or b (map (leaf_set l) i)).

  Lemma ofold_ok_step {A B} (g : B -> A -> outcome B) l x b :
    ofold g (x :: l) b = do b' <- g b x; ofold g l b'.
  Proof.
    unfold ofold. simpl.
    destruct (g b x) as [b'| |]; simpl; [reflexivity| |];
      induction l as [|y l IH]; simpl; auto.
  Qed.

  Lemma batch_mask : forall ls i b,
    Forall leaf_realised ls -> length i = length b -> Forall inb i ->
    ofold (fun b l => filter_leaf mt (with_ix f i) l b) ls b
    = Ok (mask_or b (map (fun p => existsb (fun l => leaf_set l p) ls) i)).
  Proof.
    induction ls as [|l ls IH]; intros i b Hall Hlen Hin.
    - unfold ofold; simpl. f_equal. unfold mask_or.
      clear - Hlen. revert b Hlen. induction i as [|p i IHi]; intros [|x b] H; simpl in *; try discriminate; [reflexivity|].
      rewrite orb_false_r. f_equal. apply IHi. lia.
    - inversion Hall as [|? ? Hl Hls]; subst.
      rewrite ofold_ok_step. rewrite (Hl i b Hlen Hin). simpl.
      rewrite IH; [|assumption|rewrite mask_or_length; rewrite ?map_length; lia|assumption].
      f_equal. unfold mask_or.
      clear - Hlen. revert b Hlen. induction i as [|p i IHi]; intros [|x b] H; simpl in *; try discriminate; [reflexivity|].
      f_equal; [|apply IHi; lia].
      destruct x, (leaf_set l p); reflexivity.
  Qed.

  (* QFrame.filter on a batch of leaves keeps exactly the rows satisfying ANY leaf, in index order *)
  Lemma filter_leaves_or : forall ls i,
    Forall leaf_realised ls -> Forall inb i ->
    filter_leaves mt (with_ix f i) ls = Ok (with_ix f (filter (fun p => existsb (fun l => leaf_set l p) ls) i)).
  Proof.
    intros ls i Hall Hin. unfold filter_leaves. simpl. rewrite f_ok.
    rewrite (batch_mask ls i (map (fun _ => false) i) Hall) by (rewrite ?map_length; auto).
    rewrite mask_or_all_false by (rewrite map_length; reflexivity).
    rewrite index_filter_spec by (rewrite map_length; reflexivity).
    simpl. rewrite filter_by_mask. reflexivity.
  Qed.

  (* ---------------------------------------------------------------- clause trees *)

  (* the boolean reading of a clause *)
  Fixpoint clause_set (c : clause) (p : nat) {struct c} : bool :=
    match c with
    | CLeaf l => leaf_set l p
    | CNull => true
    | CNot c' => negb (clause_set c' p)
    | CAnd cs => (fix go (cs : list clause) : bool :=
                    match cs with [] => true | c' :: rest => clause_set c' p && go rest end) cs
    | COr cs => (fix go (cs : list clause) : bool :=
                   match cs with [] => false | c' :: rest => clause_set c' p || go rest end) cs
    end.

  Lemma clause_set_and cs p : clause_set (CAnd cs) p = forallb (fun c => clause_set c p) cs.
  Proof. simpl. induction cs as [|c cs IH]; simpl; [reflexivity|]. rewrite IH. reflexivity. Qed.
  Lemma clause_set_or cs p : clause_set (COr cs) p = existsb (fun c => clause_set c p) cs.
  Proof. simpl. induction cs as [|c cs IH]; simpl; [reflexivity|]. rewrite IH. reflexivity. Qed.

  (* which clauses the theorem covers: no empty And/Or, every leaf realised, and for a leaf directly
     under Not the inverted leaf is realised as the complement (Filter.Inverse = logical complement) *)
  Inductive clause_ok : clause -> Prop :=
  | ok_leaf l : leaf_realised l -> clause_ok (CLeaf l)
  | ok_null : clause_ok CNull
  | ok_not_leaf l : leaf_realised (invert_leaf l) ->
                    (forall p, leaf_set (invert_leaf l) p = negb (leaf_set l p)) -> clause_ok (CNot (CLeaf l))
  | ok_not c : (forall l, c <> CLeaf l) -> clause_ok c -> clause_ok (CNot c)
  | ok_and cs : cs <> [] -> Forall clause_ok cs -> clause_ok (CAnd cs)
  | ok_or cs : cs <> [] -> Forall clause_ok cs -> clause_ok (COr cs).

  Fixpoint clause_ok_noerr (c : clause) (H : clause_ok c) {struct H} : clause_err c = false.
  Proof.
    destruct H as [l Hl| |l Hl Hinv|c Hnl Hc|cs Hne Hall|cs Hne Hall]; simpl; try reflexivity.
    - exact (clause_ok_noerr c Hc).
    - destruct cs as [|c0 cs]; [congruence|].
      induction Hall as [|c1 cs1 H1 Hr IH]; [reflexivity|].
      simpl. rewrite (clause_ok_noerr c1 H1). simpl.
      destruct cs1; [reflexivity|]. apply IH. discriminate.
    - destruct cs as [|c0 cs]; [congruence|].
      induction Hall as [|c1 cs1 H1 Hr IH]; [reflexivity|].
      simpl. rewrite (clause_ok_noerr c1 H1). simpl.
      destruct cs1; [reflexivity|]. apply IH. discriminate.
  Qed.

  Definition keeps (c : clause) : Prop :=
    forall i, NoDup i -> Forall inb i -> clause_filter mt c (with_ix f i) = Ok (with_ix f (filter (clause_set c) i)).

  Lemma with_ix_with_ix i j : with_ix (with_ix f i) j = with_ix f j.
  Proof. reflexivity. Qed.

  Lemma and_loop_keeps cs :
    Forall keeps cs -> forall i, NoDup i -> Forall inb i ->
    and_loop (fun c' g => clause_filter mt c' g) cs (with_ix f i) = Ok (with_ix f (filter (fun p => forallb (fun c => clause_set c p) cs) i)).
  Proof.
    induction 1 as [|c cs Hc Hcs IH]; intros i Hnd Hin; simpl.
    - f_equal. f_equal. clear. induction i; simpl; congruence.
    - rewrite (Hc i Hnd Hin). simpl.
      rewrite IH by (apply NoDup_filter || apply Forall_filter_inb; assumption).
      rewrite filter_filter. reflexivity.
  Qed.

  (* state of the Or loop: what has been merged so far (None before the first merge) *)
  Definition or_acc_is (i : list nat) (acc : option frame) (done : list clause) : Prop :=
    match acc with
    | None => done = []
    | Some a => a = with_ix f (filter (fun p => existsb (fun c => clause_set c p) done) i)
    end.

  Lemma or_frames_merge i (P Q : nat -> bool) : NoDup i ->
    or_frames (with_ix f i) (Some (with_ix f (filter P i))) (with_ix f (filter Q i))
    = with_ix f (filter (fun p => P p || Q p) i).
  Proof.
    intro Hnd. unfold or_frames. simpl. rewrite f_ok. simpl.
    rewrite or_merge_filter by assumption. reflexivity.
  Qed.

  Lemma existsb_app_leaf (done : list clause) (ls : list leaf) p :
    existsb (fun c => clause_set c p) (done ++ map CLeaf ls)
    = existsb (fun c => clause_set c p) done || existsb (fun l => leaf_set l p) ls.
  Proof.
    rewrite existsb_app. f_equal. induction ls as [|l ls IH]; simpl; [reflexivity|]. rewrite IH. reflexivity.
  Qed.

  Lemma filter_ext_nat (P Q : nat -> bool) l : (forall p, P p = Q p) -> filter P l = filter Q l.
  Proof. intro H. induction l as [|x l IH]; simpl; [reflexivity|]. rewrite H, IH. reflexivity. Qed.

  (* flushing the pending batch merges "any pending leaf" into the accumulator *)
  Lemma flush_keeps i acc done pending :
    NoDup i -> Forall inb i -> Forall leaf_realised pending -> or_acc_is i acc done ->
    exists acc',
      (match pending with
       | [] => Ok acc
       | _ => do nf <- filter_leaves mt (with_ix f i) (rev pending); Ok (Some (or_frames (with_ix f i) acc nf))
       end) = Ok acc'
      /\ or_acc_is i acc' (done ++ map CLeaf (rev pending)).
  Proof.
    intros Hnd Hin Hall Hacc.
    destruct pending as [|l0 pending'].
    - exists acc. split; [reflexivity|]. simpl. rewrite app_nil_r. exact Hacc.
    - rewrite filter_leaves_or by (try apply Forall_rev; assumption). simpl.
      eexists. split; [reflexivity|].
      destruct acc as [a|]; simpl in Hacc; subst.
      + unfold or_acc_is. rewrite or_frames_merge by assumption. f_equal.
        apply filter_ext_nat. intro p. rewrite existsb_app_leaf. reflexivity.
      + unfold or_acc_is, or_frames. f_equal. apply filter_ext_nat. intro p.
        rewrite (existsb_app_leaf [] _ p). reflexivity.
  Qed.

  Lemma or_acc_step i acc' D c : NoDup i -> or_acc_is i acc' D ->
    or_acc_is i (Some (or_frames (with_ix f i) acc' (with_ix f (filter (clause_set c) i)))) (D ++ [c]).
  Proof.
    intros Hnd Hacc. destruct acc' as [a|]; unfold or_acc_is in *.
    - subst a. rewrite or_frames_merge by assumption. f_equal.
      apply filter_ext_nat. intro p. rewrite existsb_app. cbn [existsb]. rewrite orb_false_r. reflexivity.
    - subst D. unfold or_frames. f_equal. apply filter_ext_nat. intro p. cbn [existsb app]. rewrite orb_false_r. reflexivity.
  Qed.

  Lemma or_loop_keeps : forall cs i acc done pending,
    NoDup i -> Forall inb i -> Forall keeps cs -> Forall leaf_realised pending ->
    (forall l, In (CLeaf l) cs -> leaf_realised l) ->
    or_acc_is i acc done ->
    (cs <> [] \/ pending <> [] \/ acc <> None) ->
    or_loop mt (fun c' g => clause_filter mt c' g) (with_ix f i) cs pending acc
    = Ok (with_ix f (filter (fun p => existsb (fun c => clause_set c p) (done ++ map CLeaf (rev pending) ++ cs)) i)).
  Proof.
    induction cs as [|c cs IH]; intros i acc done pending Hnd Hin Hk Hp Hleaf Hacc Hne.
    - cbn [or_loop].
      destruct (flush_keeps i acc done pending Hnd Hin Hp Hacc) as [acc' [Hf Hacc']].
      rewrite Hf. cbn [obind]. rewrite app_nil_r.
      destruct acc' as [a|]; unfold or_acc_is in Hacc'.
      + subst a. reflexivity.
      + exfalso. destruct pending as [|l0 pending'].
        * simpl in Hf. inversion Hf; subst. destruct Hne as [H|[H|H]]; congruence.
        * apply app_eq_nil in Hacc' as [_ Hm]. apply map_eq_nil in Hm.
          simpl in Hm. apply app_eq_nil in Hm as [_ Hm]. discriminate.
    - inversion Hk as [|? ? Hc Hcs]; subst.
      destruct c as [l|cs'|cs'|c'|].
      + (* a leaf joins the pending batch *)
        cbn [or_loop].
        assert (Hne' : cs <> [] \/ l :: pending <> [] \/ acc <> None) by (right; left; discriminate).
        assert (Hp' : Forall leaf_realised (l :: pending)) by (constructor; [apply Hleaf; left; reflexivity|assumption]).
        assert (Hleaf' : forall l', In (CLeaf l') cs -> leaf_realised l') by (intros l' Hl'; apply Hleaf; right; exact Hl').
        rewrite (IH i acc done (l :: pending) Hnd Hin Hcs Hp' Hleaf' Hacc Hne').
        f_equal. f_equal. apply filter_ext_nat. intro p. cbn [rev].
        rewrite map_app. cbn [map app]. rewrite <- !app_assoc. reflexivity.
      + cbn [or_loop].
        destruct (flush_keeps i acc done pending Hnd Hin Hp Hacc) as [acc' [Hf Hacc']].
        rewrite Hf. cbn [obind]. rewrite (Hc i Hnd Hin). cbn [obind].
        assert (Hleaf' : forall l', In (CLeaf l') cs -> leaf_realised l') by (intros l' Hl'; apply Hleaf; right; exact Hl').
        pose proof (or_acc_step i acc' _ (CAnd cs') Hnd Hacc') as Hacc''.
        match type of Hacc'' with
        | or_acc_is _ ?A ?D =>
            assert (Hne' : cs <> [] \/ @nil leaf <> [] \/ A <> None) by (right; right; discriminate);
            rewrite (IH i A D [] Hnd Hin Hcs (Forall_nil _) Hleaf' Hacc'' Hne')
        end.
        f_equal. f_equal. apply filter_ext_nat. intro p. cbn [rev map app]. rewrite <- !app_assoc. reflexivity.
      + cbn [or_loop].
        destruct (flush_keeps i acc done pending Hnd Hin Hp Hacc) as [acc' [Hf Hacc']].
        rewrite Hf. cbn [obind]. rewrite (Hc i Hnd Hin). cbn [obind].
        assert (Hleaf' : forall l', In (CLeaf l') cs -> leaf_realised l') by (intros l' Hl'; apply Hleaf; right; exact Hl').
        pose proof (or_acc_step i acc' _ (COr cs') Hnd Hacc') as Hacc''.
        match type of Hacc'' with
        | or_acc_is _ ?A ?D =>
            assert (Hne' : cs <> [] \/ @nil leaf <> [] \/ A <> None) by (right; right; discriminate);
            rewrite (IH i A D [] Hnd Hin Hcs (Forall_nil _) Hleaf' Hacc'' Hne')
        end.
        f_equal. f_equal. apply filter_ext_nat. intro p. cbn [rev map app]. rewrite <- !app_assoc. reflexivity.
      + cbn [or_loop].
        destruct (flush_keeps i acc done pending Hnd Hin Hp Hacc) as [acc' [Hf Hacc']].
        rewrite Hf. cbn [obind]. rewrite (Hc i Hnd Hin). cbn [obind].
        assert (Hleaf' : forall l', In (CLeaf l') cs -> leaf_realised l') by (intros l' Hl'; apply Hleaf; right; exact Hl').
        pose proof (or_acc_step i acc' _ (CNot c') Hnd Hacc') as Hacc''.
        match type of Hacc'' with
        | or_acc_is _ ?A ?D =>
            assert (Hne' : cs <> [] \/ @nil leaf <> [] \/ A <> None) by (right; right; discriminate);
            rewrite (IH i A D [] Hnd Hin Hcs (Forall_nil _) Hleaf' Hacc'' Hne')
        end.
        f_equal. f_equal. apply filter_ext_nat. intro p. cbn [rev map app]. rewrite <- !app_assoc. reflexivity.
      + cbn [or_loop].
        destruct (flush_keeps i acc done pending Hnd Hin Hp Hacc) as [acc' [Hf Hacc']].
        rewrite Hf. cbn [obind]. rewrite (Hc i Hnd Hin). cbn [obind].
        assert (Hleaf' : forall l', In (CLeaf l') cs -> leaf_realised l') by (intros l' Hl'; apply Hleaf; right; exact Hl').
        pose proof (or_acc_step i acc' _ (CNull) Hnd Hacc') as Hacc''.
        match type of Hacc'' with
        | or_acc_is _ ?A ?D =>
            assert (Hne' : cs <> [] \/ @nil leaf <> [] \/ A <> None) by (right; right; discriminate);
            rewrite (IH i A D [] Hnd Hin Hcs (Forall_nil _) Hleaf' Hacc'' Hne')
        end.
        f_equal. f_equal. apply filter_ext_nat. intro p. cbn [rev map app]. rewrite <- !app_assoc. reflexivity.
  Qed.

  (* THE STRUCTURAL THEOREM: every admissible clause tree keeps exactly the rows of its boolean reading,
     once each, in the order of the frame's row index, for EVERY duplicate-free row index *)
  Fixpoint clause_keeps (c : clause) (H : clause_ok c) {struct H} : keeps c.
  Proof.
    destruct H as [l Hl| |l Hl Hinv|c Hnl Hc|cs Hne Hall|cs Hne Hall].
    - intros i Hnd Hin. simpl. rewrite filter_leaves_or by (assumption || (constructor; [assumption|constructor])).
      apply f_equal. apply f_equal. apply filter_ext_nat. intro p. simpl. apply orb_false_r.
    - intros i Hnd Hin. simpl. apply f_equal. apply f_equal. clear. induction i; simpl; congruence.
    - intros i Hnd Hin. simpl. rewrite f_ok.
      rewrite filter_leaves_or by (assumption || (constructor; [assumption|constructor])).
      apply f_equal. apply f_equal. apply filter_ext_nat. intro p. simpl. rewrite orb_false_r. apply Hinv.
    - intros i Hnd Hin.
      pose proof (clause_keeps c Hc i Hnd Hin) as Hk.
      pose proof (clause_ok_noerr c Hc) as Hne.
      simpl. rewrite f_ok. rewrite Hne.
      destruct c as [l| | | |]; try (exfalso; eapply Hnl; reflexivity);
        rewrite Hk; simpl; rewrite f_ok; rewrite not_merge_filter by assumption; reflexivity.
    - intros i Hnd Hin. cbn [clause_filter]. simpl ferr. rewrite f_ok.
      rewrite (clause_ok_noerr (CAnd cs) (ok_and cs Hne Hall)).
      assert (Hk : Forall keeps cs).
      { clear Hne. induction Hall as [|c1 cs1 H1 Hr IH]; constructor; [exact (clause_keeps c1 H1)|exact IH]. }
      rewrite (and_loop_keeps cs Hk i Hnd Hin).
      apply f_equal. apply f_equal. apply filter_ext_nat. intro p. rewrite clause_set_and. reflexivity.
    - intros i Hnd Hin. cbn [clause_filter]. simpl ferr. rewrite f_ok.
      rewrite (clause_ok_noerr (COr cs) (ok_or cs Hne Hall)).
      assert (Hk : Forall keeps cs).
      { clear Hne. induction Hall as [|c1 cs1 H1 Hr IH]; constructor; [exact (clause_keeps c1 H1)|exact IH]. }
      assert (Hleaf : forall l, In (CLeaf l) cs -> leaf_realised l).
      { intros l Hl0. rewrite Forall_forall in Hall. specialize (Hall _ Hl0). inversion Hall; assumption. }
      rewrite (or_loop_keeps cs i None [] [] Hnd Hin Hk (Forall_nil _) Hleaf eq_refl (or_introl Hne)).
      apply f_equal. apply f_equal. apply filter_ext_nat. intro p. cbn [app rev map]. rewrite clause_set_or. reflexivity.
  Qed.
End Clauses.
