(* Proofs/RyuHandoverUnique.v — the certificate checker shortest_b accepts AT MOST ONE pair (m, k) per float:
   "the shortest closest decimal" is a function of the float.  Hence any text accepted by the property oracle
   oracle_f for a bit pattern is THE text the model writes (so any other correct shortest-decimal printer, such
   as strconv.FormatFloat(f, 'f', -1, 64), must produce the same bytes).
   Method: the checker's interval test is invariant under a change of decimal grid (k -> k + J with the
   candidate multiplied by 10^J), so an accepted candidate on a coarser grid would be a multiple of 10 on the
   finer grid, which the checker excludes; on one grid two accepted candidates are equally close to the exact
   value, hence adjacent (a grid point between them would be closer) and both even — impossible. *)
From QF Require Import Base.Prelude Gen.GenConsts Gen.GenRyu Model.Ryu.
From QF Require Import Proofs.RyuArith Proofs.RyuAppendF Proofs.RyuNoPanic Proofs.RyuShortest
                       Proofs.RyuIntervalFinal Proofs.RyuInterval
                       Proofs.RyuHandover Proofs.RyuHandoverFinal Proofs.RyuHandoverText.
Local Open Scope N_scope.

(* ------------------------------------------------------------------ change of grid *)

Lemma pow_balance (b a1 a2 c1 c2 : N) : a1 + a2 = c1 + c2 -> b ^ a1 * b ^ a2 = b ^ c1 * b ^ c2.
Proof. intro H. rewrite <- !N.pow_add_r, H. reflexivity. Qed.

Lemma scale_dec_1 (k e2 : Z) : scale_dec k e2 1 = 5 ^ Z.to_N k * 2 ^ Z.to_N (k - e2).
Proof. unfold scale_dec. rewrite N.shiftl_mul_pow2, pow5N_spec. lia. Qed.

Lemma scale_flt_1 (k e2 : Z) : scale_flt k e2 1 = 5 ^ Z.to_N (- k) * 2 ^ Z.to_N (e2 - k).
Proof. unfold scale_flt. rewrite N.shiftl_mul_pow2, pow5N_spec. lia. Qed.

Lemma scale_rel_grid (k e2 : Z) (J : N) :
  scale_dec (k + Z.of_N J) e2 1 * scale_flt k e2 1
  = 10 ^ J * scale_dec k e2 1 * scale_flt (k + Z.of_N J) e2 1.
Proof.
  rewrite !scale_dec_1, !scale_flt_1, pow10_split.
  set (k' := (k + Z.of_N J)%Z).
  assert (E5 : 5 ^ Z.to_N k' * 5 ^ Z.to_N (- k) = 5 ^ (J + Z.to_N k) * 5 ^ Z.to_N (- k'))
    by (apply pow_balance; unfold k'; lia).
  assert (E2 : 2 ^ Z.to_N (k' - e2) * 2 ^ Z.to_N (e2 - k) = 2 ^ (J + Z.to_N (k - e2)) * 2 ^ Z.to_N (e2 - k'))
    by (apply pow_balance; unfold k'; lia).
  rewrite !N.pow_add_r in E5, E2.
  set (a1 := 5 ^ Z.to_N k') in *. set (a2 := 5 ^ Z.to_N (- k)) in *. set (a3 := 5 ^ Z.to_N k) in *.
  set (a4 := 5 ^ Z.to_N (- k')) in *. set (b1 := 2 ^ Z.to_N (k' - e2)) in *. set (b2 := 2 ^ Z.to_N (e2 - k)) in *.
  set (b3 := 2 ^ Z.to_N (k - e2)) in *. set (b4 := 2 ^ Z.to_N (e2 - k')) in *.
  set (x5 := 5 ^ J) in *. set (x2 := 2 ^ J) in *. clearbody a1 a2 a3 a4 b1 b2 b3 b4 x5 x2.
  transitivity ((a1 * a2) * (b1 * b2)); [ring|]. rewrite E5, E2. ring.
Qed.

(* the interval test does not depend on the grid *)
Lemma sc_in_rescale (f : fdec) (k : Z) (J y : N) :
  sc_in f (k + Z.of_N J) y = sc_in f k (y * 10 ^ J).
Proof.
  unfold sc_in, sc_lo, sc_hi, sc_v. set (e2 := f_e2 f). set (k' := (k + Z.of_N J)%Z).
  rewrite (scale_flt_lin k e2 (4 * f_m2 f)), (scale_flt_lin k' e2 (4 * f_m2 f)).
  rewrite (scale_dec_lin k' e2 y), (scale_dec_lin k e2 (y * 10 ^ J)).
  pose proof (scale_rel_grid k e2 J) as REL. fold k' in REL.
  pose proof (scale_flt_pos k e2) as P1. pose proof (scale_flt_pos k' e2) as P2.
  set (ud := scale_dec k e2 1) in *. set (uf := scale_flt k e2 1) in *.
  set (ud' := scale_dec k' e2 1) in *. set (uf' := scale_flt k' e2 1) in *.
  rewrite <- !N.mul_sub_distr_r.
  replace (4 * f_m2 f * uf' + 2 * uf') with ((4 * f_m2 f + 2) * uf') by ring.
  replace (4 * f_m2 f * uf + 2 * uf) with ((4 * f_m2 f + 2) * uf) by ring.
  set (lo := 4 * f_m2 f - f_lowgap f). set (hi := 4 * f_m2 f + 2).
  rewrite <- (in_interval_scale _ (lo * uf') (hi * uf') (y * ud') uf P1).
  rewrite <- (in_interval_scale _ (lo * uf) (hi * uf) (y * 10 ^ J * ud) uf' P2).
  f_equal.
  - ring.
  - ring.
  - transitivity (y * (ud' * uf)); [ring|]. rewrite REL. ring.
Qed.

(* ------------------------------------------------------------------ one grid: at most one candidate *)

Lemma same_grid_unique (ev : bool) (lo hi v ud m m' : N) :
  0 < ud -> m < m' ->
  in_interval ev lo hi (m * ud) = true -> in_interval ev lo hi (m' * ud) = true ->
  (forall x, in_interval ev lo hi (x * ud) = true -> ndist (m * ud) v <= ndist (x * ud) v) ->
  (forall x, in_interval ev lo hi (x * ud) = true -> ndist (m' * ud) v <= ndist (x * ud) v) ->
  N.even m = true -> N.even m' = true -> False.
Proof.
  intros Hud Hlt I1 I2 C1 C2 E1 E2.
  destruct (N.eq_dec m' (m + 1)) as [->|NE].
  - rewrite N.add_1_r, N.even_succ, <- N.negb_even, E1 in E2. discriminate E2.
  - assert (L2 : (m + 2) * ud <= m' * ud) by (apply N.mul_le_mono_r; lia).
    assert (I3 : in_interval ev lo hi ((m + 1) * ud) = true).
    { apply (in_interval_convex ev lo hi (m * ud) _ (m' * ud)); try assumption; nia. }
    pose proof (C1 _ I2) as D1. pose proof (C2 _ I1) as D2. pose proof (C1 _ I3) as D3.
    pose proof (ndist_abs (m * ud) v) as A1. pose proof (ndist_abs (m' * ud) v) as A2.
    pose proof (ndist_abs ((m + 1) * ud) v) as A3.
    replace ((m + 1) * ud) with (m * ud + ud) in * by ring.
    replace ((m + 2) * ud) with (m * ud + 2 * ud) in * by ring.
    set (d := m * ud) in *. set (d' := m' * ud) in *. clearbody d d'. lia.
Qed.

(* ------------------------------------------------------------------ uniqueness of the accepted pair *)

Lemma coarser_excluded (bits m m' : N) (k : Z) (J : N) :
  1 <= J -> shortest_b bits m k = true -> shortest_b bits m' (k + Z.of_N J) = true -> False.
Proof.
  intros HJ S1 S2.
  destruct (shortest_b_sound_scaled bits m k S1) as (f & D1 & _ & _ & NC & _).
  destruct (shortest_b_sound_scaled bits m' _ S2) as (f' & D2 & _ & IN' & _).
  rewrite D1 in D2. inversion D2; subst f'. clear D2.
  rewrite sc_in_rescale in IN'.
  replace (m' * 10 ^ J) with (10 * (m' * 10 ^ (J - 1))) in IN'.
  - rewrite NC in IN'. discriminate IN'.
  - replace J with (N.succ (J - 1)) at 2 by lia. rewrite N.pow_succ_r'. ring.
Qed.

Theorem shortest_b_unique (bits m m' : N) (k k' : Z) :
  shortest_b bits m k = true -> shortest_b bits m' k' = true -> m = m' /\ k = k'.
Proof.
  intros S1 S2.
  assert (Ek : k = k').
  { destruct (Z.lt_trichotomy k k') as [L|[E|L]]; [exfalso|exact E|exfalso].
    - apply (coarser_excluded bits m m' k (Z.to_N (k' - k))); [lia|exact S1|].
      replace (k + Z.of_N (Z.to_N (k' - k)))%Z with k' by lia. exact S2.
    - apply (coarser_excluded bits m' m k' (Z.to_N (k - k'))); [lia|exact S2|].
      replace (k' + Z.of_N (Z.to_N (k - k')))%Z with k by lia. exact S1. }
  subst k'. split; [|reflexivity].
  destruct (shortest_b_sound_scaled bits m k S1) as (f & D1 & _ & I1 & _ & C1 & T1).
  destruct (shortest_b_sound_scaled bits m' k S2) as (f' & D2 & _ & I2 & _ & C2 & T2).
  rewrite D1 in D2. inversion D2; subst f'. clear D2.
  destruct (N.eq_dec m m') as [E|NE]; [exact E|exfalso].
  pose proof (C1 m' I2) as L1. pose proof (C2 m I1) as L2.
  assert (EQ : ndist (scale_dec k (f_e2 f) m) (sc_v f k) = ndist (scale_dec k (f_e2 f) m') (sc_v f k)) by lia.
  assert (E1 : N.even m = true) by (apply (T1 m'); [congruence|exact I2|exact EQ]).
  assert (E2 : N.even m' = true) by (apply (T2 m); [exact NE|exact I1|symmetry; exact EQ]).
  unfold sc_in in *. set (e2 := f_e2 f) in *.
  pose proof (scale_dec_pos k e2) as Hud.
  assert (LIN : forall y, scale_dec k e2 y = y * scale_dec k e2 1) by (intro y; apply scale_dec_lin).
  rewrite (LIN m) in I1. rewrite (LIN m') in I2.
  assert (C1' : forall x, in_interval (N.even (f_m2 f)) (sc_lo f k) (sc_hi f k) (x * scale_dec k e2 1) = true ->
                ndist (m * scale_dec k e2 1) (sc_v f k) <= ndist (x * scale_dec k e2 1) (sc_v f k)).
  { intros x Ix. rewrite <- !LIN. apply C1. rewrite LIN. exact Ix. }
  assert (C2' : forall x, in_interval (N.even (f_m2 f)) (sc_lo f k) (sc_hi f k) (x * scale_dec k e2 1) = true ->
                ndist (m' * scale_dec k e2 1) (sc_v f k) <= ndist (x * scale_dec k e2 1) (sc_v f k)).
  { intros x Ix. rewrite <- !LIN. apply C2. rewrite LIN. exact Ix. }
  destruct (N.lt_trichotomy m m') as [L|[E|L]]; [|contradiction|].
  - exact (same_grid_unique _ _ _ _ _ m m' Hud L I1 I2 C1' C2' E1 E2).
  - exact (same_grid_unique _ _ _ _ _ m' m Hud L I2 I1 C2' C1' E2 E1).
Qed.

(* ------------------------------------------------------------------ the oracle determines the text *)

Theorem oracle_f_unique (bits : N) (text : bytes) :
  bits < 2 ^ 64 ->
  ~ ((bits / 2 ^ 52) mod 2048 = 2047 /\ bits mod 2 ^ 52 <> 0) ->
  oracle_f bits text = true -> text = ryu_text bits.
Proof.
  intros Hb Hnan HO. pose proof (oracle_f_accepts bits Hb Hnan) as HR.
  unfold oracle_f in *.
  destruct ((bits / 4503599627370496) mod 2048 =? 2047).
  - apply andb_true_iff in HO as [_ HO]. apply andb_true_iff in HR as [_ HR].
    apply bytes_eqb_spec in HO, HR. congruence.
  - destruct (((bits / 4503599627370496) mod 2048 =? 0) && (bits mod 4503599627370496 =? 0)).
    + apply bytes_eqb_spec in HO, HR. congruence.
    + destruct (parse_f text) as [[[n1 m1] e1]|]; [|discriminate HO].
      destruct (parse_f (ryu_text bits)) as [[[n2 m2] e2]|]; [|discriminate HR].
      apply andb_true_iff in HO as [HO S1]. apply andb_true_iff in HO as [N1 T1].
      apply andb_true_iff in HR as [HR S2]. apply andb_true_iff in HR as [N2 T2].
      apply bytes_eqb_spec in T1, T2. apply Bool.eqb_prop in N1, N2.
      destruct (shortest_b_unique bits m1 m2 e1 e2 S1 S2) as [-> ->].
      rewrite T1, T2. congruence.
Qed.
