(* Proofs/JsonDocProofs.v — number cells of ToJSON are JSON number tokens with the right value (ints, floats
   through the Ryu model), hence the whole document ToJSON writes for a frame is read back by the Coq JSON
   reader as the records of the frame; ReadJSON (Model/JsonRead.v) inverts ToJSON. *)
From QF Require Import Base.Prelude Gen.GenConsts Gen.GenRyu Model.Utf8 Model.Json Model.Ryu Model.Frame
                       Model.Filter Model.Ops Model.JsonRead.
From QF Require Model.CsvWrite.
From QF Require Import Proofs.Utf8Proofs Proofs.JsonProofs Proofs.RyuArith Proofs.RyuAppendF Proofs.RyuExactInt
                       Proofs.RyuNoPanic Proofs.EnumProofs.
From QF Require Proofs.RyuShortest.
Local Open Scope N_scope.

(* ================================================================== digit strings and the number grammar *)

Notation jdigit := Json.is_digit.

Lemma jdigit_iff c : jdigit c = true <-> 48 <= c <= 57.
Proof. unfold Json.is_digit, rng. lia. Qed.

Lemma jdigit_numchar c : jdigit c = true -> is_numchar c = true.
Proof. intro H. unfold is_numchar. rewrite H. reflexivity. Qed.

Lemma alld_numchar l : forallb jdigit l = true -> forallb is_numchar l = true.
Proof.
  induction l as [|c l IH]; [reflexivity|]. cbn [forallb]. intro H.
  apply andb_true_iff in H as [H1 H2]. rewrite (jdigit_numchar c H1), (IH H2). reflexivity.
Qed.

Lemma lowdigits_alld : forall n m, forallb jdigit (lowdigits n m) = true.
Proof.
  induction n as [|n IH]; intro m; [reflexivity|].
  cbn [lowdigits]. rewrite forallb_app, IH. cbn [forallb andb].
  pose proof (N.mod_upper_bound m 10 ltac:(lia)) as MU.
  rewrite andb_true_r. apply jdigit_iff. lia.
Qed.

Lemma repeat48_alld k : forallb jdigit (repeat 48 k) = true.
Proof. induction k as [|k IH]; [reflexivity|]. cbn [repeat forallb]. rewrite IH. reflexivity. Qed.

Lemma skip_digits_app l r : forallb jdigit l = true -> skip_digits (l ++ r) = skip_digits r.
Proof.
  induction l as [|c l IH]; [reflexivity|]. cbn [forallb app skip_digits]. intro H.
  apply andb_true_iff in H as [H1 H2]. rewrite H1. apply IH. exact H2.
Qed.

Lemma skip_digits_all l : forallb jdigit l = true -> skip_digits l = [].
Proof. intro H. rewrite <- (app_nil_r l), skip_digits_app by exact H. reflexivity. Qed.

Lemma skip_digits_stop c r : jdigit c = false -> skip_digits (c :: r) = c :: r.
Proof. intro H. cbn [skip_digits]. rewrite H. reflexivity. Qed.

Lemma strip_minus_eq (s : bytes) :
  match s with 0x2D :: t => t | _ => s end
  = match s with c :: t => if c =? 0x2D then t else s | [] => s end.
Proof.
  destruct s as [|c t]; [reflexivity|]. destruct c as [|p]; [reflexivity|].
  do 6 (destruct p as [p|p|]; try reflexivity).
Qed.

Lemma num_after_int_dot c t :
  num_after_int (0x2E :: c :: t) = jdigit c && num_after_frac (skip_digits t).
Proof. reflexivity. Qed.

(* int = zero / digit1-9 *DIGIT *)
Definition int_part_ok (ip : bytes) : Prop :=
  forallb jdigit ip = true /\ (ip = [48] \/ exists d r, ip = d :: r /\ 49 <= d <= 57).

Definition sign_ok (sgn : bytes) (neg : bool) : Prop := sgn = (if neg then [45] else []).

Lemma json_number_body sgn neg ip tail :
  sign_ok sgn neg -> int_part_ok ip ->
  forallb is_numchar tail = true ->
  (forall r, num_after_int (skip_digits (r ++ tail)) = true \/ True) ->
  json_number (sgn ++ ip ++ tail)
  = match ip with
    | c :: t => if c =? 0x30 then num_after_int (t ++ tail) else num_after_int (skip_digits (t ++ tail))
    | [] => false
    end.
Proof.
  intros Hs (Hd & Hip) Ht _. unfold json_number.
  assert (Hnc : forallb is_numchar (sgn ++ ip ++ tail) = true).
  { rewrite !forallb_app, (alld_numchar ip Hd), Ht. red in Hs. subst sgn. destruct neg; reflexivity. }
  rewrite Hnc. cbn [andb]. rewrite strip_minus_eq.
  assert (Hhd : exists d r, ip = d :: r /\ 48 <= d <= 57).
  { destruct Hip as [->|(d & r & -> & Hr)]; [exists 48, []; split; [reflexivity|lia]|].
    exists d, r. split; [reflexivity|lia]. }
  destruct Hhd as (d & r & -> & Hdr).
  match goal with |- match ?X with [] => _ | _ :: _ => _ end = _ => assert (Hstrip : X = d :: r ++ tail) end.
  { red in Hs. subst sgn. destruct neg; cbn [app].
    - reflexivity.
    - destruct (N.eqb_spec d 0x2D); [lia|reflexivity]. }
  rewrite Hstrip.
  destruct (N.eqb_spec d 0x30) as [E|E]; [reflexivity|].
  assert (rng 0x31 0x39 d = true) as -> by (unfold rng; lia). reflexivity.
Qed.

(* a number without fraction and exponent *)
Lemma json_number_int sgn neg ip :
  sign_ok sgn neg -> int_part_ok ip -> json_number (sgn ++ ip) = true.
Proof.
  intros Hs Hip. pose proof (json_number_body sgn neg ip [] Hs Hip eq_refl (fun _ => or_intror I)) as E.
  rewrite app_nil_r in E. rewrite E. destruct Hip as (Hd & [->|(d & r & -> & Hr)]); [reflexivity|].
  destruct (N.eqb_spec d 0x30); [lia|]. rewrite app_nil_r.
  cbn [forallb] in Hd. apply andb_true_iff in Hd as [_ Hd]. rewrite (skip_digits_all r Hd). reflexivity.
Qed.

(* a number with a fraction *)
Lemma json_number_frac sgn neg ip fp :
  sign_ok sgn neg -> int_part_ok ip -> forallb jdigit fp = true -> fp <> [] ->
  json_number (sgn ++ ip ++ [0x2E] ++ fp) = true.
Proof.
  intros Hs Hip Hf Hne.
  assert (Ht : forallb is_numchar ([0x2E] ++ fp) = true).
  { cbn [app forallb]. rewrite (alld_numchar fp Hf). reflexivity. }
  rewrite (json_number_body sgn neg ip ([0x2E] ++ fp) Hs Hip Ht (fun _ => or_intror I)).
  destruct fp as [|c t]; [congruence|]. cbn [forallb] in Hf. apply andb_true_iff in Hf as [Hc Ht'].
  assert (Hdot : num_after_int ([0x2E] ++ c :: t) = true).
  { cbn [app]. rewrite num_after_int_dot, Hc, (skip_digits_all t Ht'). reflexivity. }
  destruct Hip as (Hd & [->|(d & r & -> & Hr)]).
  - cbn [app N.eqb Pos.eqb]. exact Hdot.
  - destruct (N.eqb_spec d 0x30); [lia|].
    cbn [forallb] in Hd. apply andb_true_iff in Hd as [_ Hd].
    rewrite (skip_digits_app r _ Hd). cbn [app]. rewrite skip_digits_stop by reflexivity. exact Hdot.
Qed.

(* ================================================================== a number token inside a document *)

Lemma parse_value_default c r :
  c <> 0x22 -> c <> 0x6E -> c <> 0x74 -> c <> 0x66 ->
  parse_value (c :: r)
  = (let p := span_num (c :: r) in if json_number (fst p) then Some (JNum (fst p), snd p) else None).
Proof.
  intros H1 H2 H3 H4. unfold parse_value.
  destruct c as [|p]; [reflexivity|].
  repeat (match goal with q : positive |- _ => destruct q as [q|q|] end; try reflexivity); congruence.
Qed.

Lemma span_num_app : forall t d tl, forallb is_numchar t = true -> is_numchar d = false ->
  span_num (t ++ d :: tl) = (t, d :: tl).
Proof.
  induction t as [|c t IH]; intros d tl Ht Hd.
  - cbn [app span_num]. rewrite Hd. reflexivity.
  - cbn [forallb] in Ht. apply andb_true_iff in Ht as [Hc Ht].
    cbn [app span_num]. rewrite Hc, (IH d tl Ht Hd). reflexivity.
Qed.

Lemma numchar_head_cases c : is_numchar c = true -> c <> 0x22 /\ c <> 0x6E /\ c <> 0x74 /\ c <> 0x66.
Proof. unfold is_numchar, Json.is_digit, rng. intro H. lia. Qed.

Lemma json_number_nonempty t : json_number t = true -> t <> [].
Proof. intros H E. subst t. discriminate. Qed.

(* every text accepted by the number grammar is read, in front of , or }, as that number token *)
Theorem number_value_denotes t : json_number t = true -> value_denotes t (JNum t).
Proof.
  intros H d tl Hd.
  assert (Hnc : forallb is_numchar t = true).
  { unfold json_number in H. apply andb_true_iff in H as [H _]. exact H. }
  destruct t as [|c t']; [discriminate|].
  assert (Hc : is_numchar c = true) by (cbn [forallb] in Hnc; apply andb_true_iff in Hnc as [X _]; exact X).
  destruct (numchar_head_cases c Hc) as (A1 & A2 & A3 & A4).
  change ((c :: t') ++ d :: tl) with (c :: (t' ++ d :: tl)).
  rewrite (parse_value_default c _ A1 A2 A3 A4). cbv zeta.
  change (c :: (t' ++ d :: tl)) with ((c :: t') ++ d :: tl).
  rewrite (span_num_app (c :: t') d tl Hnc) by (destruct Hd as [-> | ->]; reflexivity).
  cbn [fst snd]. rewrite H. reflexivity.
Qed.

(* ================================================================== the value of a plain decimal *)

Lemma jnum_value_plain sgn neg body all cf :
  sign_ok sgn neg -> (exists d r, body = d :: r /\ 48 <= d <= 57) ->
  json_number (sgn ++ body) = true -> dec_parse body = Some (all, cf) ->
  jnum_value (sgn ++ body) = Some (neg, all, (- cf)%Z).
Proof.
  intros Hs (d & r & Hb & Hd) Hj Hp. unfold jnum_value. rewrite Hj. cbn [negb]. cbv zeta.
  assert (Hsplit : strip_sign (sgn ++ body) = (neg, body)).
  { red in Hs. subst sgn body. destruct neg; cbn [app strip_sign]; [reflexivity|].
    destruct (N.eqb_spec d 0x2D); [lia|reflexivity]. }
  rewrite Hsplit. cbn [fst snd].
  unfold dec_parse in Hp.
  destruct (parse_digits body 0 0%Z) as [[[ip ci] rest]|]; [|discriminate].
  destruct (ci =? 0)%Z; [discriminate|].
  destruct rest as [|c rest].
  - inversion Hp; subst. reflexivity.
  - destruct (N.eqb_spec c 46) as [->|Hc]; [|discriminate]. cbn [N.eqb Pos.eqb].
    destruct (parse_digits rest ip 0%Z) as [[[a f] [|? ?]]|]; try discriminate.
    destruct (f =? 0)%Z; [discriminate|]. inversion Hp; subst. cbn [jnum_exp]. f_equal.
Qed.

(* ================================================================== integers: strconv.FormatInt *)

Lemma ndig_small n : 0 < n -> n < 10 -> ndig n = 1%nat.
Proof. intros H0 H1. apply ndig_unique; [exact H0|lia| |]; cbn; lia. Qed.

Lemma ndig_step n : 10 <= n -> ndig n = S (ndig (n / 10)).
Proof.
  intro H. assert (Hq : 0 < n / 10) by (apply N.div_str_pos; lia).
  destruct (ndig_spec (n / 10) Hq) as (L1 & L2 & L3).
  pose proof (N.div_mod n 10 ltac:(lia)) as DM.
  pose proof (N.mod_upper_bound n 10 ltac:(lia)) as MU.
  apply ndig_unique; [lia|lia| |].
  - replace (N.of_nat (S (ndig (n / 10))) - 1) with (N.succ (N.of_nat (ndig (n / 10)) - 1)) by lia.
    rewrite N.pow_succ_r'. lia.
  - rewrite Nat2N.inj_succ, N.pow_succ_r'. lia.
Qed.

Lemma udigits_digits : forall fuel n acc, 0 < n -> n < 2 ^ N.of_nat fuel ->
  CsvWrite.udigits fuel n acc = digits n ++ acc.
Proof.
  induction fuel as [|f IH]; intros n acc H0 Hf.
  - cbn in Hf. lia.
  - cbn [CsvWrite.udigits].
    pose proof (N.div_mod n 10 ltac:(lia)) as DM.
    pose proof (N.mod_upper_bound n 10 ltac:(lia)) as MU.
    destruct (N.eqb_spec (n / 10) 0) as [E|E].
    + assert (n < 10) by lia. unfold digits. rewrite (ndig_small n H0 H).
      cbn [lowdigits app]. reflexivity.
    + assert (Hq : 0 < n / 10) by lia.
      assert (Hf' : n / 10 < 2 ^ N.of_nat f).
      { rewrite Nat2N.inj_succ, N.pow_succ_r' in Hf. apply N.div_lt_upper_bound; lia. }
      rewrite (IH (n / 10) _ Hq Hf'). unfold digits at 2. rewrite (ndig_step n) by lia.
      cbn [lowdigits]. rewrite <- app_assoc. reflexivity.
Qed.

Lemma pos_size_nat_gt p : N.pos p < 2 ^ N.of_nat (Pos.size_nat p).
Proof.
  induction p as [p IH|p IH|]; cbn [Pos.size_nat]; rewrite ?Nat2N.inj_succ, ?N.pow_succ_r'; lia.
Qed.

Lemma utoa_digits p : CsvWrite.utoa (N.pos p) = digits (N.pos p).
Proof.
  unfold CsvWrite.utoa. rewrite udigits_digits; [apply app_nil_r|lia|].
  rewrite Nat2N.inj_succ, N.pow_succ_r'. pose proof (pos_size_nat_gt p). cbn [N.size_nat]. lia.
Qed.

Lemma digits_int_part m : 0 < m -> int_part_ok (digits m).
Proof.
  intro H. split; [apply lowdigits_alld|]. right. exact (digits_head m H).
Qed.

Lemma dec_parse_digits m : 0 < m -> dec_parse (digits m) = Some (m, 0%Z).
Proof.
  intro H. pose proof (positional_value m 0 H) as P. unfold positional in P.
  change (0 <=? 0)%Z with true in P. cbv iota in P. change (Z.to_nat 0) with 0%nat in P.
  cbn [repeat] in P. rewrite app_nil_r in P. rewrite P. change (Z.to_N 0) with 0.
  rewrite N.pow_0_r, N.mul_1_r. reflexivity.
Qed.

Lemma digits_head48 m : 0 < m -> exists d r, digits m = d :: r /\ 48 <= d <= 57.
Proof. intro H. destruct (digits_head m H) as (d & r & E & B). exists d, r. split; [exact E|lia]. Qed.

(* the text of an int cell is a number token and denotes the int — for every z (no range premise) *)
Theorem int_token (z : Z) :
  value_denotes (CsvWrite.itoa z) (JNum (CsvWrite.itoa z)) /\
  jnum_value (CsvWrite.itoa z) = Some ((z <? 0)%Z, Z.abs_N z, 0%Z).
Proof.
  destruct z as [|p|p]; cbn [CsvWrite.itoa].
  - split; [apply number_value_denotes|]; reflexivity.
  - rewrite utoa_digits.
    assert (J : json_number ([] ++ digits (N.pos p)) = true)
      by (apply (json_number_int [] false); [reflexivity|apply digits_int_part; lia]).
    split; [apply number_value_denotes; exact J|].
    apply (jnum_value_plain [] false (digits (N.pos p)) (N.pos p) 0%Z);
      [reflexivity|apply digits_head48; lia|exact J|apply dec_parse_digits; lia].
  - rewrite utoa_digits.
    assert (J : json_number ([45] ++ digits (N.pos p)) = true)
      by (apply (json_number_int [45] true); [reflexivity|apply digits_int_part; lia]).
    split; [apply number_value_denotes; exact J|].
    apply (jnum_value_plain [45] true (digits (N.pos p)) (N.pos p) 0%Z);
      [reflexivity|apply digits_head48; lia|exact J|apply dec_parse_digits; lia].
Qed.

(* ================================================================== floats: the Ryu text *)

Lemma alld_split (l : bytes) a : forallb jdigit l = true ->
  forallb jdigit (firstn a l) = true /\ forallb jdigit (skipn a l) = true.
Proof.
  intro H. rewrite <- (firstn_skipn a l), forallb_app in H. apply andb_true_iff in H. exact H.
Qed.

(* the positional text is int [ frac ] of the number grammar *)
Lemma positional_parts m e : 0 < m ->
  exists ip tail, positional m e = ip ++ tail /\ int_part_ok ip /\
    (tail = [] \/ exists fp, tail = [0x2E] ++ fp /\ forallb jdigit fp = true /\ fp <> []).
Proof.
  intro H0. destruct (ndig_spec m H0) as (L1 & _).
  destruct (digits_head m H0) as (d & r & Ed & Hd).
  pose proof (lowdigits_alld (ndig m) m) as AD. fold (digits m) in AD.
  pose proof (digits_length m) as DL.
  unfold positional. rewrite DL.
  destruct (0 <=? e)%Z eqn:E0.
  - exists (digits m ++ repeat 48 (Z.to_nat e)), []. split; [rewrite app_nil_r; reflexivity|].
    split; [|left; reflexivity]. split.
    + rewrite forallb_app, AD, repeat48_alld. reflexivity.
    + right. rewrite Ed. exists d, (r ++ repeat 48 (Z.to_nat e)). split; [reflexivity|exact Hd].
  - apply Z.leb_gt in E0. destruct (Z.of_nat (ndig m) <=? - e)%Z eqn:E1.
    + exists [48], ([0x2E] ++ repeat 48 (Z.to_nat (- e - Z.of_nat (ndig m))) ++ digits m).
      split; [reflexivity|]. split; [split; [reflexivity|left; reflexivity]|].
      right. eexists. split; [reflexivity|]. split.
      * rewrite forallb_app, AD, repeat48_alld. reflexivity.
      * rewrite Ed. intro X. apply app_eq_nil in X as [_ X]. discriminate.
    + apply Z.leb_gt in E1.
      set (a := Z.to_nat (Z.of_nat (ndig m) + e)).
      assert (Ha : (1 <= a < ndig m)%nat) by (unfold a; lia).
      destruct (alld_split (digits m) a AD) as [A1 A2].
      exists (firstn a (digits m)), ([0x2E] ++ skipn a (digits m)).
      split; [reflexivity|]. split.
      * split; [exact A1|]. right. rewrite Ed. destruct a as [|a']; [lia|].
        cbn [firstn]. exists d, (firstn a' r). split; [reflexivity|exact Hd].
      * right. eexists. split; [reflexivity|]. split; [exact A2|].
        intro X. apply (f_equal (@length N)) in X. rewrite skipn_length, DL in X. cbn [length] in X. lia.
Qed.

Lemma render_f_number neg m e : 0 < m ->
  json_number (render_f neg m e) = true /\
  exists d r, positional m e = d :: r /\ 48 <= d <= 57.
Proof.
  intro H0. destruct (positional_parts m e H0) as (ip & tail & E & Hip & Ht).
  unfold render_f. rewrite E. split.
  - destruct Ht as [->|(fp & -> & Hf & Hne)].
    + rewrite app_nil_r. apply (json_number_int _ neg); [reflexivity|exact Hip].
    + apply (json_number_frac _ neg); [reflexivity|exact Hip|exact Hf|exact Hne].
  - destruct Hip as (_ & [->|(d & r & -> & Hr)]).
    + exists 48, tail. split; [reflexivity|lia].
    + exists d, (r ++ tail). split; [reflexivity|lia].
Qed.

(* a text render_f neg m e is a number token that denotes (-1)^neg * m * 10^e *)
Theorem render_f_token neg m e : 0 < m ->
  value_denotes (render_f neg m e) (JNum (render_f neg m e)) /\
  jnum_value (render_f neg m e) = Some (neg, m * 10 ^ Z.to_N (e - Z.min e 0), Z.min e 0).
Proof.
  intro H0. destruct (render_f_number neg m e H0) as (J & Hhd).
  split; [apply number_value_denotes; exact J|].
  pose proof (positional_value m e H0) as PV. unfold render_f in *.
  destruct (0 <=? e)%Z eqn:E0.
  - apply Z.leb_le in E0.
    pose proof (jnum_value_plain _ neg _ _ _ eq_refl Hhd J PV) as Q.
    etransitivity; [exact Q|].
    replace (Z.min e 0) with 0%Z by lia. rewrite Z.sub_0_r. reflexivity.
  - apply Z.leb_gt in E0.
    pose proof (jnum_value_plain _ neg _ _ _ eq_refl Hhd J PV) as Q.
    etransitivity; [exact Q|].
    replace (Z.min e 0) with e by lia. rewrite Z.sub_diag, Z.opp_involutive.
    change (Z.to_N 0) with 0. rewrite N.pow_0_r, N.mul_1_r. reflexivity.
Qed.

(* AppendFloat64f on the fields of a finite bit pattern *)
Theorem float_text_finite bits :
  bits < 2 ^ 64 -> (bits / 2 ^ 52) mod 2048 <> 2047 ->
  let neg := negb (bits / 2 ^ 63 =? 0) in
  ((bits / 2 ^ 52) mod 2048 = 0 /\ bits mod 2 ^ 52 = 0 /\
   float_decimal bits = Ok (0, 0%Z) /\ float_text bits = Ok ((if neg then [45] else []) ++ [48])) \/
  (exists m e, float_decimal bits = Ok (m, e) /\ 0 < m /\ m < 2 ^ 59 /\
               float_text bits = Ok (render_f neg m e)).
Proof.
  intros Hb Hfin neg.
  unfold float_text, float_decimal, float_fields, AppendFloat64f.
  replace (sub64 (shl64 1 c_mantBits64) 1) with (N.ones 52) by (vm_compute; reflexivity).
  replace (sub64 (shl64 1 c_expBits64) 1) with (N.ones 11) by (vm_compute; reflexivity).
  change c_mantBits64 with 52. change c_expBits64 with 11.
  rewrite !N.land_ones. rewrite (shr64_spec bits 52) by lia. rewrite (shr64_spec bits (52 + 11)) by lia.
  change (52 + 11) with 63. change (2 ^ 11) with 2048 in *.
  fold neg.
  set (mant := bits mod 2 ^ 52) in *. set (exp := (bits / 2 ^ 52) mod 2048) in *.
  assert (Hmant : mant < 2 ^ 52) by (apply N.mod_upper_bound; lia).
  assert (Hexp : exp < 2048) by (apply N.mod_upper_bound; lia).
  replace (N.ones 11) with 2047 by (vm_compute; reflexivity).
  destruct (N.eqb_spec exp 2047) as [?|_]; [contradiction|]. cbn [orb].
  destruct ((exp =? 0) && (mant =? 0)) eqn:SP.
  - left. apply andb_true_iff in SP as [S1 S2]. apply N.eqb_eq in S1, S2.
    split; [exact S1|]. split; [exact S2|]. split; [reflexivity|].
    rewrite S1, S2. destruct neg; reflexivity.
  - right.
    assert (Hnz : ~ (exp = 0 /\ mant = 0)).
    { intros [Z1 Z2]. rewrite Z1, Z2 in SP. discriminate. }
    pose proof (exact_int_ok mant exp Hmant Hexp) as EI. cbv zeta in EI.
    destruct (float64ToDecimalExactInt mant exp) as [[[m e]|]| |] eqn:EE; try contradiction.
    + destruct EI as (_ & _ & EV & _ & Hpos).
      assert (Hm59 : m < 2 ^ 59).
      { assert (2 ^ 52 + mant < 2 ^ 59).
        { assert (2 ^ 52 + 2 ^ 52 < 2 ^ 59) by (vm_compute; reflexivity). lia. }
        assert (1 <= 10 ^ Z.to_N e * 2 ^ (1075 - exp)).
        { assert (10 ^ Z.to_N e <> 0) by (apply N.pow_nonzero; lia).
          assert (2 ^ (1075 - exp) <> 0) by (apply N.pow_nonzero; lia). nia. }
        nia. }
      exists m, e. split; [reflexivity|]. split; [exact Hpos|]. split; [exact Hm59|].
      cbn [obind fst snd].
      destruct (appendF_ok59 (fun _ => []) {| bdata := []; bspare := [] |} m e neg Hpos Hm59) as (sp & E).
      rewrite E. reflexivity.
    + destruct (float64ToDecimal_total mant exp Hmant ltac:(lia) Hnz) as (out & e & ED & O1 & O2).
      exists out, e. cbn [obind]. rewrite ED. split; [reflexivity|]. split; [exact O1|]. split; [exact O2|].
      cbn [obind fst snd].
      destruct (appendF_ok59 (fun _ => []) {| bdata := []; bspare := [] |} out e neg O1 O2) as (sp & E).
      rewrite E. reflexivity.
Qed.

(* neither NaN nor an infinity: the biased exponent is not 2047 *)
Lemma finite_exp bits : f_isnan bits = false -> f_isinf bits = false -> (bits / 2 ^ 52) mod 2048 <> 2047.
Proof.
  unfold f_isnan, f_isinf. replace f_abs_mask with (N.ones 63) by reflexivity. rewrite N.land_ones.
  unfold f_inf_bits. intros H1 H2 E.
  assert (Hx : bits mod 2 ^ 63 < 0x7FF0000000000000) by lia. clear H1 H2.
  pose proof (N.div_mod bits (2 ^ 52) ltac:(lia)) as D1.
  pose proof (N.mod_upper_bound bits (2 ^ 52) ltac:(lia)) as U1.
  pose proof (N.div_mod (bits / 2 ^ 52) 2048 ltac:(lia)) as D2.
  rewrite E in D2.
  assert (X : 2 ^ 52 * 2047 + bits mod 2 ^ 52 = bits mod 2 ^ 63).
  { apply (N.mod_unique bits (2 ^ 63) (bits / 2 ^ 52 / 2048)).
    - change (2 ^ 63) with (2 ^ 52 * 2048). lia.
    - change (2 ^ 63) with (2 ^ 52 * 2048). lia. }
  change (2 ^ 52) with 4503599627370496 in *. lia.
Qed.

(* C14_float_token: the text written for a finite float is a number token that denotes the decimal
   m * 10^e of the Ryu model, with the sign of the float *)
Theorem float_token bits :
  bits < 2 ^ 64 -> f_isnan bits = false -> f_isinf bits = false ->
  exists text m e,
    float_text bits = Ok text /\ float_decimal bits = Ok (m, e) /\
    value_denotes text (JNum text) /\
    jnum_value text = Some (negb (bits / 2 ^ 63 =? 0), m * 10 ^ Z.to_N (e - Z.min e 0), Z.min e 0).
Proof.
  intros Hb Hn Hi.
  destruct (float_text_finite bits Hb (finite_exp bits Hn Hi)) as [(_ & _ & ED & ET)|(m & e & ED & H0 & _ & ET)].
  - eexists _, 0, 0%Z. split; [exact ET|]. split; [exact ED|].
    destruct (negb (bits / 2 ^ 63 =? 0)); split; (apply number_value_denotes; reflexivity) || reflexivity.
  - exists (render_f (negb (bits / 2 ^ 63 =? 0)) m e), m, e. split; [exact ET|]. split; [exact ED|].
    apply render_f_token. exact H0.
Qed.

(* ================================================================== C14_valid: the whole document *)

(* floats finite or NaN (bit patterns are 64 bit) *)
Definition cell_ok (c : cell) : Prop :=
  match c with CFloat b => b < 2 ^ 64 /\ f_isinf b = false | _ => True end.

Definition cell_spec (c : cell) (text : bytes) (tok : jtoken) (v : jval) : Prop :=
  cell_json c = Ok text /\ value_denotes text tok /\ token_value tok = Some v /\ cell_value c = Ok v.

Lemma cell_token c : cell_ok c -> exists text tok v, cell_spec c text tok v.
Proof.
  intro Hc. unfold cell_spec. destruct c as [z|b|b|[s|]|[s|]]; cbn [cell_json cell_value].
  - destruct (int_token z) as [A B].
    exists (CsvWrite.itoa z), (JNum (CsvWrite.itoa z)), (VNum (z <? 0)%Z (Z.abs_N z) 0%Z).
    split; [reflexivity|]. split; [exact A|]. split; [|reflexivity]. cbn [token_value]. rewrite B. reflexivity.
  - destruct Hc as [Hb Hi]. destruct (f_isnan b) eqn:En.
    + exists s_null, JNull, VNull. split; [reflexivity|]. split; [exact null_value_denotes|]. split; reflexivity.
    + destruct (float_token b Hb En Hi) as (text & m & e & ET & ED & VD & JV).
      exists text, (JNum text), (VNum (negb (b / 2 ^ 63 =? 0)) (m * 10 ^ Z.to_N (e - Z.min e 0)) (Z.min e 0)).
      split; [exact ET|]. split; [exact VD|]. split; [cbn [token_value]; rewrite JV; reflexivity|].
      rewrite ED. reflexivity.
  - destruct b.
    + exists (CsvWrite.format_bool true), (JBool true), (VBool true). split; [reflexivity|]. split; [exact true_value_denotes|]. split; reflexivity.
    + exists (CsvWrite.format_bool false), (JBool false), (VBool false). split; [reflexivity|]. split; [exact false_value_denotes|]. split; reflexivity.
  - destruct (escape_valid s) as (out & E & _).
    exists out, (JStr (utf8_sanitize s)), (VStr (utf8_sanitize s)).
    split; [exact E|]. split; [exact (string_value_denotes s out E)|]. split; reflexivity.
  - exists s_null, JNull, VNull. split; [reflexivity|]. split; [exact null_value_denotes|]. split; reflexivity.
  - destruct (escape_valid s) as (out & E & _).
    exists out, (JStr (utf8_sanitize s)), (VStr (utf8_sanitize s)).
    split; [exact E|]. split; [exact (string_value_denotes s out E)|]. split; reflexivity.
  - exists s_null, JNull, VNull. split; [reflexivity|]. split; [exact null_value_denotes|]. split; reflexivity.
Qed.

Lemma row_tokens row : Forall cell_ok row ->
  exists texts toks vals,
    omap cell_json row = Ok texts /\ Forall2 value_denotes texts toks /\
    opt_map token_value toks = Some vals /\ omap cell_value row = Ok vals /\ length texts = length row.
Proof.
  induction 1 as [|c row Hc _ (texts & toks & vals & A & B & C & D & E)].
  - exists [], [], []. repeat split. constructor.
  - destruct (cell_token c Hc) as (text & tok & v & A1 & B1 & C1 & D1).
    exists (text :: texts), (tok :: toks), (v :: vals). cbn [omap opt_map length].
    rewrite A1, A, C1, C, D1, D. cbn [obind]. repeat split; [constructor; assumption|lia].
Qed.

Lemma members_values keys : forall toks vals, opt_map token_value toks = Some vals ->
  opt_map member_value (combine keys toks) = Some (combine keys vals).
Proof.
  induction keys as [|k keys IH]; intros toks vals H; [reflexivity|].
  destruct toks as [|t toks]; cbn [opt_map] in H.
  - inversion H. reflexivity.
  - destruct (token_value t) as [v|] eqn:Ev; [|discriminate].
    destruct (opt_map token_value toks) as [vs|] eqn:Evs; [|discriminate]. inversion H; subst.
    cbn [combine opt_map]. unfold member_value at 1. cbn [fst snd]. rewrite Ev, (IH toks vs Evs). reflexivity.
Qed.

Lemma omap_length {A B} (f : A -> outcome B) : forall l r, omap f l = Ok r -> length r = length l.
Proof.
  induction l as [|x l IH]; intros r H; cbn [omap] in H.
  - inversion H. reflexivity.
  - destruct (f x) as [y| |]; cbn [obind] in H; try discriminate.
    destruct (omap f l) as [ys| |] eqn:E; cbn [obind] in H; try discriminate.
    inversion H. cbn [length]. rewrite (IH ys eq_refl). reflexivity.
Qed.

Lemma omap_forall {A B} (f : A -> outcome B) (P : B -> Prop) :
  (forall x y, f x = Ok y -> P y) -> forall l r, omap f l = Ok r -> Forall P r.
Proof.
  intros Hf. induction l as [|x l IH]; intros r H; cbn [omap] in H.
  - inversion H. constructor.
  - destruct (f x) as [y| |] eqn:Ey; cbn [obind] in H; try discriminate.
    destruct (omap f l) as [ys| |] eqn:E; cbn [obind] in H; try discriminate.
    inversion H. constructor; [exact (Hf x y Ey)|exact (IH ys eq_refl)].
Qed.

(* shape of the logical table *)
Lemma abs_shape f t : abs f = Ok t ->
  tnames t = col_names f /\ Forall (fun r => length r = length (col_names f)) (trows t).
Proof.
  unfold abs. intro H. destruct (omap (row_at f) (ix f)) as [rows| |] eqn:E; cbn [obind] in H; try discriminate.
  inversion H; subst. cbn [tnames trows]. split; [reflexivity|].
  apply (omap_forall (row_at f) _ (fun p r Hr => eq_trans (omap_length _ _ _ Hr) (eq_sym (map_length _ _))) _ _ E).
Qed.

Lemma rows_tokens names : forall rows,
  Forall (fun r => length r = length names) rows -> Forall (Forall cell_ok) rows ->
  exists texts toks vals,
    omap (omap cell_json) rows = Ok texts /\
    Forall2 (fun cells ts => length cells = length names /\ Forall2 value_denotes cells ts) texts toks /\
    opt_map (opt_map member_value) (map (combine (map utf8_sanitize names)) toks)
      = Some (map (combine (map utf8_sanitize names)) vals) /\
    omap (omap cell_value) rows = Ok vals.
Proof.
  induction rows as [|row rows IH]; intros HL HC.
  - exists [], [], []. repeat split. constructor.
  - inversion HL as [|? ? L1 L2]; subst. inversion HC as [|? ? C1 C2]; subst.
    destruct (IH L2 C2) as (texts & toks & vals & A & B & C & D).
    destruct (row_tokens row C1) as (tx & tk & vs & A1 & B1 & C1' & D1 & E1).
    exists (tx :: texts), (tk :: toks), (vs :: vals). cbn [omap map opt_map].
    rewrite A1, A, D1, D, (members_values _ tk vs C1'), C. cbn [obind].
    repeat split. constructor; [|exact B]. split; [lia|exact B1].
Qed.

(* C14_valid: for every frame whose floats are finite or NaN, ToJSON succeeds and the Coq JSON reader
   decodes the output to one object per row (in row order) with the sanitized column names as keys in column
   order and the values the cells are required to denote *)
Theorem frame_json_valid f t :
  ferr f = false -> abs f = Ok t -> Forall (Forall cell_ok) (trows t) ->
  exists out vals,
    frame_to_json f = Ok out /\
    omap (omap cell_value) (trows t) = Ok vals /\
    decode_doc out = Some (map (combine (map utf8_sanitize (tnames t))) vals).
Proof.
  intros He Ha Hc. destruct (abs_shape f t Ha) as [Hn Hl]. rewrite <- Hn in Hl.
  destruct (rows_tokens (tnames t) (trows t) Hl Hc) as (texts & toks & vals & A & B & C & D).
  destruct (to_json_document (tnames t) texts toks B) as (out & Eo & Ep).
  exists out, vals. unfold frame_to_json. rewrite He, Ha. cbn [obind]. rewrite A. cbn [obind].
  split; [exact Eo|]. split; [exact D|]. unfold decode_doc. rewrite Ep. exact C.
Qed.

(* the text does not depend on the buffer it is appended to *)
Lemma float_text_any_buffer bits text : bits < 2 ^ 64 -> float_text bits = Ok text ->
  forall (g : nat -> bytes) (b : buf), exists sp,
    AppendFloat64f g b bits = Ok {| bdata := bdata b ++ text; bspare := sp |}.
Proof.
  intros Hb Ht g b. unfold float_text in Ht.
  destruct (AppendFloat64f_total (fun _ => []) {| bdata := []; bspare := [] |} bits Hb) as (sp0 & E0).
  rewrite E0 in Ht. cbn [obind bdata app] in Ht. inversion Ht; subst text.
  apply AppendFloat64f_total. exact Hb.
Qed.

(* ================================================================== ReadJSON inverts ToJSON *)

(* ------------------------------------------------------------------ generic helpers *)
Definition unok {A} (d : A) (o : outcome A) : A := match o with Ok a => a | _ => d end.

Lemma omap_total {A B} (g : A -> outcome B) (d : B) : forall l r, omap g l = Ok r ->
  r = map (fun x => unok d (g x)) l /\ forall x, In x l -> g x = Ok (unok d (g x)).
Proof.
  induction l as [|x l IH]; intros r H; cbn [omap] in H.
  - inversion H. split; [reflexivity|]. intros ? [].
  - destruct (g x) as [y| |] eqn:Ey; cbn [obind] in H; try discriminate.
    destruct (omap g l) as [ys| |] eqn:E; cbn [obind] in H; try discriminate.
    inversion H; subst. destruct (IH ys eq_refl) as [A1 A2]. split.
    + cbn [map]. rewrite Ey. cbn [unok]. f_equal. exact A1.
    + intros x' [<-|Hin]; [rewrite Ey; reflexivity|exact (A2 x' Hin)].
Qed.

Lemma omap_map_ok {A B} (g : A -> outcome B) (h : A -> B) : forall l,
  (forall x, In x l -> g x = Ok (h x)) -> omap g l = Ok (map h l).
Proof.
  induction l as [|x l IH]; intro H; [reflexivity|].
  cbn [omap map]. rewrite (H x (or_introl eq_refl)). cbn [obind].
  rewrite IH by (intros y Hy; apply H; right; exact Hy). reflexivity.
Qed.

Lemma ofold_cons_ok {A B} (f : B -> A -> outcome B) x l i a :
  f i x = Ok a -> ofold f (x :: l) i = ofold f l a.
Proof. intro H. unfold ofold. cbn [fold_left obind]. rewrite H. reflexivity. Qed.

Lemma ofold_nil {A B} (f : B -> A -> outcome B) i : ofold f [] i = Ok i.
Proof. reflexivity. Qed.

Lemma map_nth_seq {A B} (h : A -> B) (d : A) (l : list A) :
  map (fun k => h (nth k l d)) (seq 0 (length l)) = map h l.
Proof.
  induction l as [|x l IH]; [reflexivity|].
  cbn [length seq map nth]. f_equal. rewrite <- seq_shift, map_map. exact IH.
Qed.

Lemma assocb_none {A} k (l : list (bytes * A)) : ~ In k (map fst l) -> assocb k l = None.
Proof.
  induction l as [|[n v] l IH]; intro H; [reflexivity|]. cbn [assocb].
  destruct (bytes_eqb n k) eqn:E.
  - apply bytes_eqb_spec in E. subst. exfalso. apply H. left. reflexivity.
  - apply IH. intro X. apply H. right. exact X.
Qed.

Lemma assocb_map {A B} (h : bytes * A -> B) : forall (cs : list (bytes * A)) nc,
  NoDup (map fst cs) -> In nc cs -> assocb (fst nc) (map (fun x => (fst x, h x)) cs) = Some (h nc).
Proof.
  induction cs as [|x cs IH]; intros nc Hnd Hin; [destruct Hin|].
  cbn [map fst] in Hnd. inversion Hnd as [|? ? Hx Hnd']; subst. cbn [map assocb fst].
  destruct Hin as [->|Hin].
  - rewrite bytes_eqb_refl. reflexivity.
  - destruct (bytes_eqb (fst x) (fst nc)) eqn:E.
    + apply bytes_eqb_spec in E. exfalso. apply Hx. rewrite E. apply in_map. exact Hin.
    + apply IH; assumption.
Qed.

(* ------------------------------------------------------------------ the cells of a frame, totally *)
Definition cellT (c : coldata) (p : nat) : cell := unok (CInt 0) (cell_at c p).

Lemma abs_rows f t : abs f = Ok t ->
  tnames t = col_names f /\ ttypes t = map (fun nc => col_type (snd nc)) (cols f) /\
  trows t = map (fun p => map (fun nc => cellT (snd nc) p) (cols f)) (ix f) /\
  forall p nc, In p (ix f) -> In nc (cols f) -> cell_at (snd nc) p = Ok (cellT (snd nc) p).
Proof.
  unfold abs. intro H. destruct (omap (row_at f) (ix f)) as [rows| |] eqn:E; cbn [obind] in H; try discriminate.
  inversion H; subst. cbn [tnames ttypes trows]. split; [reflexivity|]. split; [reflexivity|].
  destruct (omap_total (row_at f) [] _ _ E) as [R1 R2].
  assert (Hrow : forall p, In p (ix f) ->
            unok [] (row_at f p) = map (fun nc => cellT (snd nc) p) (cols f) /\
            forall nc, In nc (cols f) -> cell_at (snd nc) p = Ok (cellT (snd nc) p)).
  { intros p Hp. specialize (R2 p Hp). unfold row_at in *.
    destruct (omap_total (fun nc => cell_at (snd nc) p) (CInt 0) _ _ R2) as [Q1 Q2].
    split; [exact Q1|exact Q2]. }
  split.
  - rewrite R1. apply map_ext_in. intros p Hp. apply (Hrow p Hp).
  - intros p nc Hp Hnc. apply (Hrow p Hp). exact Hnc.
Qed.

Section Readback.

Variable parse_float : bytes -> option N.     (* strconv.ParseFloat on a number literal *)
Variable int_to_float : Z -> N.               (* the float64 an integer literal is read as *)

(* what a cell must satisfy to come back: ParseFloat reads the int literal as int_to_float says; a float is
   finite, not NaN, and ParseFloat inverts the Ryu text (the round trip of C16 + correct rounding of
   strconv); strings are valid UTF-8 *)
Definition rb_ok (c : cell) : Prop :=
  match c with
  | CInt z => parse_float (CsvWrite.itoa z) = Some (int_to_float z)
  | CFloat b => b < 2 ^ 64 /\ f_isnan b = false /\ f_isinf b = false /\
                forall text, float_text b = Ok text -> parse_float text = Some b
  | CBool _ => True
  | CStr (Some s) | CEnum (Some s) => utf8_valid s = true
  | CStr None | CEnum None => True
  end.

(* the interface{} value a cell comes back as *)
Definition gv (c : cell) : gval :=
  match c with
  | CInt z => GFloat (int_to_float z)
  | CFloat b => GFloat b
  | CBool b => GBool b
  | CStr (Some s) | CEnum (Some s) => GStr s
  | CStr None | CEnum None => GNil
  end.

(* the cell that comes back *)
Definition rb_cell (c : cell) : cell := match c with CInt z => CFloat (int_to_float z) | c => c end.
Definition rb_type (t : ctype) : ctype := match t with TInt => TFloat | t => t end.

Lemma go_string_valid s : utf8_valid s = true -> go_string (utf8_sanitize s) = s.
Proof. intro H. unfold go_string. exact (encode_decode_id s H). Qed.

Lemma rb_cell_token c : rb_ok c ->
  exists text tok, cell_json c = Ok text /\ value_denotes text tok /\ decode_value parse_float tok = Ok (gv c).
Proof.
  intro Hc. destruct c as [z|b|b|[s|]|[s|]]; cbn [cell_json gv rb_ok] in *.
  - destruct (int_token z) as [A _]. exists (CsvWrite.itoa z), (JNum (CsvWrite.itoa z)).
    split; [reflexivity|]. split; [exact A|]. cbn [decode_value]. rewrite Hc. reflexivity.
  - destruct Hc as (Hb & Hn & Hi & Hp). rewrite Hn.
    destruct (float_token b Hb Hn Hi) as (text & m & e & ET & _ & VD & _).
    exists text, (JNum text). split; [exact ET|]. split; [exact VD|]. cbn [decode_value].
    rewrite (Hp text ET). reflexivity.
  - destruct b.
    + exists (CsvWrite.format_bool true), (JBool true). split; [reflexivity|]. split; [exact true_value_denotes|reflexivity].
    + exists (CsvWrite.format_bool false), (JBool false). split; [reflexivity|]. split; [exact false_value_denotes|reflexivity].
  - destruct (escape_valid s) as (out & E & _). exists out, (JStr (utf8_sanitize s)).
    split; [exact E|]. split; [exact (string_value_denotes s out E)|]. cbn [decode_value].
    rewrite (go_string_valid s Hc). reflexivity.
  - exists s_null, JNull. split; [reflexivity|]. split; [exact null_value_denotes|reflexivity].
  - destruct (escape_valid s) as (out & E & _). exists out, (JStr (utf8_sanitize s)).
    split; [exact E|]. split; [exact (string_value_denotes s out E)|]. cbn [decode_value].
    rewrite (go_string_valid s Hc). reflexivity.
  - exists s_null, JNull. split; [reflexivity|]. split; [exact null_value_denotes|reflexivity].
Qed.

Definition tok_ok (tok : jtoken) (c : cell) : Prop := decode_value parse_float tok = Ok (gv c).

Lemma rb_row_tokens row : Forall rb_ok row ->
  exists texts toks, omap cell_json row = Ok texts /\ Forall2 value_denotes texts toks /\
                     Forall2 tok_ok toks row /\ length texts = length row.
Proof.
  induction 1 as [|c row Hc _ (texts & toks & A & B & C & D)].
  - exists [], []. repeat split; constructor.
  - destruct (rb_cell_token c Hc) as (text & tok & A1 & B1 & C1).
    exists (text :: texts), (tok :: toks). cbn [omap length]. rewrite A1, A. cbn [obind].
    repeat split; [constructor; assumption|constructor; assumption|lia].
Qed.

Lemma rb_rows_tokens (names : list bytes) : forall rows,
  Forall (fun r => length r = length names) rows -> Forall (Forall rb_ok) rows ->
  exists texts toks,
    omap (omap cell_json) rows = Ok texts /\
    Forall2 (fun cells ts => length cells = length names /\ Forall2 value_denotes cells ts) texts toks /\
    Forall2 (Forall2 tok_ok) toks rows.
Proof.
  induction rows as [|row rows IH]; intros HL HC.
  - exists [], []. repeat split; constructor.
  - inversion HL as [|? ? L1 L2]; subst. inversion HC as [|? ? C1 C2]; subst.
    destruct (IH L2 C2) as (texts & toks & A & B & C).
    destruct (rb_row_tokens row C1) as (tx & tk & A1 & B1 & C1' & E1).
    exists (tx :: texts), (tk :: toks). cbn [omap]. rewrite A1, A. cbn [obind].
    repeat split; [constructor; [split; [lia|exact B1]|exact B]|constructor; assumption].
Qed.

(* ------------------------------------------------------------------ one record *)
Lemma map_set_fresh k v : forall m, ~ In k (map fst m) -> map_set k v m = m ++ [(k, v)].
Proof.
  induction m as [|[k' v'] m IH]; intro H; [reflexivity|]. cbn [map_set].
  destruct (bytes_eqb k' k) eqn:E.
  - apply bytes_eqb_spec in E. subst. exfalso. apply H. left. reflexivity.
  - cbn [app]. rewrite IH; [reflexivity|]. intro X. apply H. right. exact X.
Qed.

Lemma decode_record_acc : forall names toks row acc,
  NoDup names -> Forall (fun n => utf8_valid n = true) names ->
  (forall n, In n names -> ~ In n (map fst acc)) ->
  Forall2 tok_ok toks row -> length names = length row ->
  ofold (fun m kv => do v <- decode_value parse_float (snd kv); Ok (map_set (go_string (fst kv)) v m))
        (combine (map utf8_sanitize names) toks) acc
  = Ok (acc ++ combine names (map gv row)).
Proof.
  induction names as [|n names IH]; intros toks row acc Hnd Hv Hfr Ht Hl.
  - destruct row; [|discriminate]. cbn [map combine]. rewrite app_nil_r. reflexivity.
  - destruct Ht as [|tok c toks row Htc Ht]; [discriminate|].
    inversion Hnd as [|? ? Hn Hnd']; subst. inversion Hv as [|? ? Hvn Hv']; subst.
    cbn [map combine].
    erewrite ofold_cons_ok.
    2:{ cbn [fst snd]. red in Htc. rewrite Htc. cbn [obind]. rewrite (go_string_valid n Hvn).
        rewrite map_set_fresh by (apply Hfr; left; reflexivity). reflexivity. }
    rewrite (IH toks row (acc ++ [(n, gv c)]) Hnd' Hv'); [rewrite <- app_assoc; reflexivity| |exact Ht|cbn [length] in Hl; lia].
    intros n' Hn' X. rewrite map_app in X. apply in_app_or in X as [X|X].
    + apply (Hfr n' (or_intror Hn')). exact X.
    + cbn in X. destruct X as [<-|[]]. contradiction.
Qed.

Lemma decode_record_ok names toks row :
  NoDup names -> Forall (fun n => utf8_valid n = true) names ->
  Forall2 tok_ok toks row -> length names = length row ->
  decode_record parse_float (combine (map utf8_sanitize names) toks) = Ok (combine names (map gv row)).
Proof.
  intros Hnd Hv Ht Hl. unfold decode_record.
  rewrite (decode_record_acc names toks row [] Hnd Hv (fun _ _ X => X) Ht Hl). reflexivity.
Qed.

Lemma decode_records_ok names : forall toks rows,
  NoDup names -> Forall (fun n => utf8_valid n = true) names ->
  Forall2 (Forall2 tok_ok) toks rows -> Forall (fun r => length r = length names) rows ->
  omap (decode_record parse_float) (map (combine (map utf8_sanitize names)) toks)
  = Ok (map (fun row => combine names (map gv row)) rows).
Proof.
  intros toks rows Hnd Hv H. induction H as [|tk row toks rows H1 _ IH]; intro HL; [reflexivity|].
  inversion HL as [|? ? L1 L2]; subst. cbn [map omap].
  rewrite (decode_record_ok names tk row Hnd Hv H1 (eq_sym L1)). cbn [obind].
  rewrite (IH L2). reflexivity.
Qed.

(* ------------------------------------------------------------------ the columns *)
Definition fl (c : cell) : N := match c with CInt z => int_to_float z | CFloat b => b | _ => 0 end.
Definition bo (c : cell) : bool := match c with CBool b => b | _ => false end.
Definition st (c : cell) : option bytes := match c with CStr s | CEnum s => s | _ => None end.

(* the slice jsonRecordsToData builds for a column, read through the index I *)
Definition rb_data (I : list nat) (c : coldata) : newdata :=
  match c with
  | ICol _ | FCol _ => DFloats (map (fun p => fl (cellT c p)) I)
  | BCol _ => DBools (map (fun p => bo (cellT c p)) I)
  | SCol _ | ECol _ _ _ => DStrPtrs (map (fun p => st (cellT c p)) I)
  end.

Definition enum_of (c : coldata) : option (list bytes) :=
  match c with ECol _ vs _ => Some vs | _ => None end.

(* the Enums configuration that declares every enum column with its value table *)
Definition enum_conf (cs : list (bytes * coldata)) : list (bytes * list bytes) :=
  flat_map (fun nc => match snd nc with ECol _ vs _ => [(fst nc, vs)] | _ => [] end) cs.

Definition rb_col (I : list nat) (c : coldata) : coldata :=
  unok c (create_column (rb_data I c) (enum_of c)).

Lemma cell_at_kind c p x : cell_at c p = Ok x ->
  match c with
  | ICol _ => exists z, x = CInt z
  | FCol _ => exists b, x = CFloat b
  | BCol _ => exists b, x = CBool b
  | SCol _ => exists s, x = CStr s
  | ECol _ vs _ => exists s, x = CEnum s /\ forall b, s = Some b -> In b vs
  end.
Proof.
  destruct c as [d|d|d|d|d vs sct]; cbn [cell_at]; destruct (idx d p) as [v| |]; cbn [obind]; intro H;
    try discriminate; try (inversion H; eauto; fail).
  unfold enum_string in H. destruct (enum_is_null v).
  - cbn [obind] in H. inversion H. exists None. split; [reflexivity|]. intros b Hb. discriminate.
  - unfold idx in H. destruct (nth_error vs (N.to_nat v)) as [s|] eqn:E; cbn [of_option obind] in H; [|discriminate].
    inversion H. exists (Some s). split; [reflexivity|]. intros b Hb. inversion Hb; subst.
    eapply nth_error_In. exact E.
Qed.

Lemma enum_fold_ok strict values : forall data acc,
  (forall s, In (Some s) data -> In s values) ->
  exists rs, ofold (enum_step strict) data (values, acc) = Ok (values, acc ++ rs).
Proof.
  induction data as [|x data IH]; intros acc H.
  - exists []. rewrite app_nil_r. reflexivity.
  - destruct x as [b|].
    + destruct (find_value_last values b) as [rk|] eqn:E.
      * destruct (IH (acc ++ [rk]) (fun s Hs => H s (or_intror Hs))) as (rs & Er).
        exists (rk :: rs). erewrite ofold_cons_ok by (cbn [enum_step]; rewrite E; reflexivity).
        rewrite Er, <- app_assoc. reflexivity.
      * exfalso. apply (find_value_last_none values b E). apply H. left. reflexivity.
    + destruct (IH (acc ++ [c_nullValue]) (fun s Hs => H s (or_intror Hs))) as (rs & Er).
      exists (c_nullValue :: rs). erewrite ofold_cons_ok by reflexivity.
      rewrite Er, <- app_assoc. reflexivity.
Qed.

Lemma enum_new_succeeds data values :
  (length values <= 255)%nat -> nodup_bytes values = true -> (forall s, In (Some s) data -> In s values) ->
  exists d vals strict, enum_new data values = Ok (ECol d vals strict).
Proof.
  intros Hl Hnd H. rewrite enum_new_unfold. change (N.to_nat c_maxCardinality) with 255%nat.
  destruct (255 <? length values)%nat eqn:E; [apply Nat.ltb_lt in E; lia|]. rewrite Hnd. cbv zeta. cbn [negb].
  destruct (enum_fold_ok (negb (length values =? 0)%nat) values data [] H) as (rs & Er).
  rewrite Er. cbn [obind fst snd]. eauto.
Qed.

Lemma nth_error_map_some {A B} (g : A -> B) l k p : nth_error l k = Some p -> nth_error (map g l) k = Some (g p).
Proof. intro H. rewrite nth_error_map, H. reflexivity. Qed.

(* createColumn on the slice of a column succeeds and the new column holds the cells that come back *)
Lemma create_ok (I : list nat) (c : coldata) :
  (forall p, In p I -> cell_at c p = Ok (cellT c p)) -> col_wf c = true -> enum_table_nodup c = true ->
  create_column (rb_data I c) (enum_of c) = Ok (rb_col I c) /\
  col_len (rb_col I c) = length I /\ col_type (rb_col I c) = rb_type (col_type c) /\
  forall k p, nth_error I k = Some p -> cell_at (rb_col I c) k = Ok (rb_cell (cellT c p)).
Proof.
  intros Hc Hwf Hndt. unfold rb_col.
  assert (Hk : forall k p, nth_error I k = Some p -> In p I) by (intros k p H; eapply nth_error_In; exact H).
  destruct c as [d|d|d|d|d vs sct]; cbn [rb_data enum_of create_column unok col_len col_type rb_type].
  - split; [reflexivity|]. split; [apply map_length|]. split; [reflexivity|]. intros k p Hp.
    cbn [cell_at]. unfold idx. rewrite (nth_error_map_some _ _ _ _ Hp). cbn [of_option obind].
    destruct (cell_at_kind _ _ _ (Hc p (Hk k p Hp))) as (z & ->). reflexivity.
  - split; [reflexivity|]. split; [apply map_length|]. split; [reflexivity|]. intros k p Hp.
    cbn [cell_at]. unfold idx. rewrite (nth_error_map_some _ _ _ _ Hp). cbn [of_option obind].
    destruct (cell_at_kind _ _ _ (Hc p (Hk k p Hp))) as (z & ->). reflexivity.
  - split; [reflexivity|]. split; [apply map_length|]. split; [reflexivity|]. intros k p Hp.
    cbn [cell_at]. unfold idx. rewrite (nth_error_map_some _ _ _ _ Hp). cbn [of_option obind].
    destruct (cell_at_kind _ _ _ (Hc p (Hk k p Hp))) as (z & ->). reflexivity.
  - split; [reflexivity|]. split; [apply map_length|]. split; [reflexivity|]. intros k p Hp.
    cbn [cell_at]. unfold idx. rewrite (nth_error_map_some _ _ _ _ Hp). cbn [of_option obind].
    destruct (cell_at_kind _ _ _ (Hc p (Hk k p Hp))) as (z & ->). reflexivity.
  - set (x := map (fun p => st (cellT (ECol d vs sct) p)) I).
    assert (Hin : forall s, In (Some s) x -> In s vs).
    { intros s Hs. unfold x in Hs. apply in_map_iff in Hs as (p & Ep & Hp).
      destruct (cell_at_kind _ _ _ (Hc p Hp)) as (s' & Es & Hv). rewrite Es in Ep. cbn [st] in Ep.
      apply Hv. exact Ep. }
    assert (Hlen : (length vs <= 255)%nat).
    { cbn [col_wf] in Hwf. apply andb_true_iff in Hwf as [_ Hwf]. apply Nat.leb_le in Hwf.
      change (N.to_nat c_maxCardinality) with 255%nat in Hwf. exact Hwf. }
    destruct (enum_new_succeeds x vs Hlen Hndt Hin) as (d' & vals & strict & En). rewrite En. cbn [unok].
    destruct (enum_new_decode x vs d' vals strict En) as (_ & _ & _ & Hl' & Hcell).
    split; [reflexivity|]. split; [cbn [col_len]; rewrite Hl'; apply map_length|]. split; [reflexivity|].
    intros k p Hp. rewrite (Hcell k (st (cellT (ECol d vs sct) p))) by (exact (nth_error_map_some (fun q => st (cellT (ECol d vs sct) q)) I k p Hp)).
    destruct (cell_at_kind _ _ _ (Hc p (Hk k p Hp))) as (s' & -> & _). reflexivity.
Qed.

(* ------------------------------------------------------------------ jsonRecordsToData *)
Lemma combine_map_fst {A B C} (f : A -> B) (g : A -> C) (l : list A) :
  combine (map f l) (map g l) = map (fun x => (f x, g x)) l.
Proof. induction l as [|x l IH]; [reflexivity|]. cbn [map combine]. rewrite IH. reflexivity. Qed.

Lemma omap_map {A B C} (g : B -> outcome C) (r : A -> B) (l : list A) :
  omap g (map r l) = omap (fun x => g (r x)) l.
Proof. induction l as [|x l IH]; [reflexivity|]. cbn [map omap]. rewrite IH. reflexivity. Qed.

(* the decoded record of the row at physical position p *)
Definition rec_of (cs : list (bytes * coldata)) (p : nat) : grecord :=
  map (fun nc => (fst nc, gv (cellT (snd nc) p))) cs.

Lemma fill_ok {A} (proj : gval -> option A) (a : cell -> A) cs (I : list nat) nc :
  NoDup (map fst cs) -> In nc cs ->
  (forall p, In p I -> proj (gv (cellT (snd nc) p)) = Some (a (cellT (snd nc) p))) ->
  fill proj (map (rec_of cs) I) (fst nc) = Ok (map (fun p => a (cellT (snd nc) p)) I).
Proof.
  intros Hnd Hin H. unfold fill. rewrite omap_map. apply omap_map_ok. intros p Hp.
  unfold map_get, rec_of. rewrite (assocb_map (fun x => gv (cellT (snd x) p)) cs nc Hnd Hin).
  rewrite (H p Hp). reflexivity.
Qed.

Definition rtd_col (records : list grecord) (kv : bytes * gval) : outcome (bytes * newdata) :=
  let name := fst kv in
  match snd kv with
  | GFloat _ => do c <- fill as_float records name; Ok (name, DFloats c)
  | GBool _ => do c <- fill as_bool records name; Ok (name, DBools c)
  | GNil | GStr _ => do c <- fill as_strptr records name; Ok (name, DStrPtrs c)
  end.

Lemma records_to_data_cons r0 rest : records_to_data (r0 :: rest) = omap (rtd_col (r0 :: rest)) r0.
Proof. reflexivity. Qed.

Lemma records_to_data_ok cs p0 I' :
  NoDup (map fst cs) ->
  (forall p nc, In p (p0 :: I') -> In nc cs -> cell_at (snd nc) p = Ok (cellT (snd nc) p)) ->
  records_to_data (map (rec_of cs) (p0 :: I'))
  = Ok (map (fun nc => (fst nc, rb_data (p0 :: I') (snd nc))) cs).
Proof.
  intros Hnd Hc. cbn [map]. rewrite records_to_data_cons.
  change (rec_of cs p0 :: map (rec_of cs) I') with (map (rec_of cs) (p0 :: I')).
  set (I := p0 :: I') in *.
  unfold rec_of at 2. rewrite omap_map. apply omap_map_ok. intros [n c] Hnc. unfold rtd_col. cbn [fst snd].
  assert (H0 : In p0 I) by (left; reflexivity).
  pose proof (fun p Hp => cell_at_kind _ _ _ (Hc p (n, c) Hp Hnc)) as HK. cbn [snd] in HK.
  destruct c as [d|d|d|d|d vs sct]; cbn [rb_data].
  - assert (F : fill as_float (map (rec_of cs) I) n = Ok (map (fun p => fl (cellT (ICol d) p)) I)).
    { apply (fill_ok as_float fl cs I (n, ICol d) Hnd Hnc).
      intros p Hp. cbn [snd]. destruct (HK p Hp) as (z' & ->). reflexivity. }
    destruct (HK p0 H0) as (z & Ez). rewrite Ez. cbn [gv]. rewrite F. reflexivity.
  - assert (F : fill as_float (map (rec_of cs) I) n = Ok (map (fun p => fl (cellT (FCol d) p)) I)).
    { apply (fill_ok as_float fl cs I (n, FCol d) Hnd Hnc).
      intros p Hp. cbn [snd]. destruct (HK p Hp) as (z' & ->). reflexivity. }
    destruct (HK p0 H0) as (z & Ez). rewrite Ez. cbn [gv]. rewrite F. reflexivity.
  - assert (F : fill as_bool (map (rec_of cs) I) n = Ok (map (fun p => bo (cellT (BCol d) p)) I)).
    { apply (fill_ok as_bool bo cs I (n, BCol d) Hnd Hnc).
      intros p Hp. cbn [snd]. destruct (HK p Hp) as (z' & ->). reflexivity. }
    destruct (HK p0 H0) as (z & Ez). rewrite Ez. cbn [gv]. rewrite F. reflexivity.
  - assert (F : fill as_strptr (map (rec_of cs) I) n = Ok (map (fun p => st (cellT (SCol d) p)) I)).
    { apply (fill_ok as_strptr st cs I (n, SCol d) Hnd Hnc).
      intros p Hp. cbn [snd]. destruct (HK p Hp) as (z' & ->). destruct z'; reflexivity. }
    destruct (HK p0 H0) as (z & Ez). rewrite Ez. destruct z; cbn [gv]; rewrite F; reflexivity.
  - assert (F : fill as_strptr (map (rec_of cs) I) n = Ok (map (fun p => st (cellT (ECol d vs sct) p)) I)).
    { apply (fill_ok as_strptr st cs I (n, ECol d vs sct) Hnd Hnc).
      intros p Hp. cbn [snd]. destruct (HK p Hp) as (z' & -> & _). destruct z'; reflexivity. }
    destruct (HK p0 H0) as (z & Ez & _). rewrite Ez. destruct z; cbn [gv]; rewrite F; reflexivity.
Qed.

(* ------------------------------------------------------------------ qframe.New on the data *)
Definition nf_step (data : list (bytes * newdata)) (enums : list (bytes * list bytes))
           (st : list (bytes * coldata) * nat * list bytes) (n : bytes)
  : outcome (list (bytes * coldata) * nat * list bytes) :=
  let '(acc, first, used) := st in
  match assocb n data with
  | None => Panic
  | Some d =>
      let en := if is_string_data d && negb (existsb (bytes_eqb n) used) then assocb n enums else None in
      do c <- create_column d en;
      let used' := match en with Some _ => n :: used | None => used end in
      let first' := match acc with [] => col_len c | _ => first end in
      if Nat.eqb first' (col_len c) then Ok (acc ++ [(n, c)], first', used') else Fail
  end.

Lemma new_frame_unfold data order enums :
  new_frame data order enums =
  let errf := mkFrame [] [] true in
  if negb (forallb (fun kv => check_name (fst kv)) data) then Ok errf
  else
    let order' := match order with [] => sort_names (map fst data) | _ => order end in
    if negb (Nat.eqb (length order') (length data)) then Ok errf
    else if negb (forallb (fun n => match assocb n data with Some _ => true | None => false end) order') then Ok errf
    else if negb (nodup_bytes order') then Ok errf
    else
      match ofold (nf_step data enums) order' ([], 0%nat, []) with
      | Ok (cs, len, used) =>
          if negb (forallb (fun kv => existsb (bytes_eqb (fst kv)) used) enums) then Ok errf
          else Ok (mkFrame cs (seq 0 len) false)
      | Fail => Ok errf
      | Panic => Panic
      end.
Proof. reflexivity. Qed.

Lemma existsb_notin n (l : list bytes) : ~ In n l -> existsb (bytes_eqb n) l = false.
Proof.
  induction l as [|x l IH]; intro H; [reflexivity|]. cbn [existsb].
  destruct (bytes_eqb n x) eqn:E.
  - apply bytes_eqb_spec in E. exfalso. apply H. left. congruence.
  - apply IH. intro X. apply H. right. exact X.
Qed.

Lemma existsb_in n (l : list bytes) : In n l -> existsb (bytes_eqb n) l = true.
Proof. intro H. apply existsb_exists. exists n. split; [exact H|apply bytes_eqb_refl]. Qed.

Definition enames (cs : list (bytes * coldata)) : list bytes := map fst (enum_conf cs).

Lemma enum_conf_app a b : enum_conf (a ++ b) = enum_conf a ++ enum_conf b.
Proof. unfold enum_conf. apply flat_map_app. Qed.

Lemma enames_subset cs n : In n (enames cs) -> In n (map fst cs).
Proof.
  unfold enames, enum_conf. intro H. apply in_map_iff in H as (kv & <- & Hkv).
  apply in_flat_map in Hkv as (nc & Hnc & Hkv). apply in_map_iff. exists nc. split; [|exact Hnc].
  destruct (snd nc) as [?|?|?|?|? vs ?]; cbn [In] in Hkv; try contradiction. destruct Hkv as [<-|[]]. reflexivity.
Qed.

Lemma assocb_enum_conf : forall cs nc, NoDup (map fst cs) -> In nc cs ->
  assocb (fst nc) (enum_conf cs) = enum_of (snd nc).
Proof.
  induction cs as [|x cs IH]; intros nc Hnd Hin; [destruct Hin|].
  cbn [map] in Hnd. inversion Hnd as [|? ? Hx Hnd']; subst.
  change (enum_conf (x :: cs)) with
    ((match snd x with ECol _ vs _ => [(fst x, vs)] | _ => [] end) ++ enum_conf cs).
  destruct Hin as [->|Hin].
  - assert (Hn : assocb (fst nc) (enum_conf cs) = None).
    { apply assocb_none. intro X. apply Hx. apply enames_subset. exact X. }
    destruct (snd nc); cbn [app enum_of assocb]; try exact Hn.
    rewrite bytes_eqb_refl. reflexivity.
  - assert (Hne : bytes_eqb (fst x) (fst nc) = false).
    { destruct (bytes_eqb (fst x) (fst nc)) eqn:E; [|reflexivity].
      apply bytes_eqb_spec in E. exfalso. apply Hx. rewrite E. apply in_map. exact Hin. }
    destruct (snd x); cbn [app assocb]; rewrite ?Hne; apply IH; assumption.
Qed.

Definition first_of {A} (l : list A) (n : nat) : nat := match l with [] => 0%nat | _ => n end.

Lemma nf_fold cs (I : list nat) :
  NoDup (map fst cs) ->
  (forall nc, In nc cs ->
     create_column (rb_data I (snd nc)) (enum_of (snd nc)) = Ok (rb_col I (snd nc)) /\
     col_len (rb_col I (snd nc)) = length I) ->
  let data := map (fun nc => (fst nc, rb_data I (snd nc))) cs in
  let rbc := fun nc : bytes * coldata => (fst nc, rb_col I (snd nc)) in
  forall suf pre, cs = pre ++ suf ->
    ofold (nf_step data (enum_conf cs)) (map fst suf)
          (map rbc pre, first_of pre (length I), rev (enames pre))
    = Ok (map rbc cs, first_of cs (length I), rev (enames cs)).
Proof.
  intros Hnd Hcr data rbc. induction suf as [|nc suf IH]; intros pre E.
  - rewrite app_nil_r in E. subst pre. reflexivity.
  - assert (Hin : In nc cs) by (rewrite E; apply in_or_app; right; left; reflexivity).
    destruct (Hcr nc Hin) as [C1 C2].
    assert (Hfresh : ~ In (fst nc) (map fst pre)).
    { rewrite E, map_app in Hnd. cbn [map] in Hnd. apply NoDup_remove_2 in Hnd.
      intro X. apply Hnd. apply in_or_app. left. exact X. }
    cbn [map]. erewrite ofold_cons_ok.
    2:{ unfold nf_step. unfold data. rewrite (assocb_map (fun x => rb_data I (snd x)) cs nc Hnd Hin).
        rewrite (assocb_enum_conf cs nc Hnd Hin).
        rewrite existsb_notin by (rewrite <- in_rev; intro X; apply Hfresh; apply enames_subset; exact X).
        cbn [negb]. rewrite andb_true_r.
        assert (Een : (if is_string_data (rb_data I (snd nc)) then enum_of (snd nc) else None) = enum_of (snd nc))
          by (destruct (snd nc); reflexivity).
        rewrite Een, C1. cbn [obind]. rewrite C2.
        assert (Ef : match map rbc pre with [] => length I | _ :: _ => first_of pre (length I) end = length I)
          by (destruct pre; reflexivity).
        rewrite Ef, Nat.eqb_refl. reflexivity. }
    specialize (IH (pre ++ [nc])). rewrite <- app_assoc in IH. specialize (IH E).
    rewrite <- IH. f_equal. f_equal; [f_equal|].
    + rewrite map_app. reflexivity.
    + destruct pre; reflexivity.
    + unfold enames. rewrite enum_conf_app, map_app, rev_app_distr.
      assert (E1 : enum_conf [nc] = match snd nc with ECol _ vs _ => [(fst nc, vs)] | _ => [] end)
        by (unfold enum_conf; cbn [flat_map]; apply app_nil_r).
      rewrite E1. destruct (snd nc); reflexivity.
Qed.

(* ------------------------------------------------------------------ the logical table of the result *)
Lemma abs_result cs (I : list nat) :
  (forall nc, In nc cs -> forall k p, nth_error I k = Some p ->
     cell_at (rb_col I (snd nc)) k = Ok (rb_cell (cellT (snd nc) p))) ->
  abs (mkFrame (map (fun nc => (fst nc, rb_col I (snd nc))) cs) (seq 0 (length I)) false)
  = Ok (mkTable (map fst cs) (map (fun nc => col_type (rb_col I (snd nc))) cs)
                (map (fun p => map (fun nc => rb_cell (cellT (snd nc) p)) cs) I)).
Proof.
  intro H. unfold abs. cbn [ix cols].
  rewrite (omap_map_ok _ (fun k => map (fun nc => rb_cell (cellT (snd nc) (nth k I 0%nat))) cs)).
  - cbn [obind]. f_equal. f_equal.
    + unfold col_names. cbn [cols]. rewrite map_map. reflexivity.
    + cbn [cols]. rewrite map_map. reflexivity.
    + exact (map_nth_seq (fun p => map (fun nc => rb_cell (cellT (snd nc) p)) cs) 0%nat I).
  - intros k Hk. apply in_seq in Hk. unfold row_at. cbn [cols]. rewrite omap_map.
    apply omap_map_ok. intros nc Hnc. cbn [snd]. apply (H nc Hnc). apply nth_error_nth'. lia.
Qed.

(* ------------------------------------------------------------------ C14_readback *)
Definition name_ok (n : bytes) : Prop := utf8_valid n = true /\ check_name n = true.

Theorem readback f t :
  ferr f = false -> wf_frame f = true -> abs f = Ok t ->
  cols f <> [] -> ix f <> [] ->
  NoDup (col_names f) -> Forall name_ok (col_names f) ->
  enum_tables_nodup f = true ->
  Forall (Forall rb_ok) (trows t) ->
  exists out f',
    frame_to_json f = Ok out /\
    read_json parse_float out (col_names f) (enum_conf (cols f)) = Ok f' /\
    ferr f' = false /\
    abs f' = Ok (mkTable (tnames t) (map rb_type (ttypes t)) (map (map rb_cell) (trows t))).
Proof.
  intros He Hwf Ha Hcs HI Hnd Hnames Hndt Hrb.
  destruct (abs_rows f t Ha) as (Hn & Hty & Hrows & Hcell).
  set (cs := cols f) in *. set (I := ix f) in *. unfold col_names in *. fold cs in Hnd, Hnames, Hn |- *.
  set (names := map fst cs) in *.
  assert (HL : Forall (fun r => length r = length names) (trows t)).
  { rewrite Hrows. apply Forall_forall. intros r Hr. apply in_map_iff in Hr as (p & <- & _).
    unfold names. rewrite !map_length. reflexivity. }
  destruct (rb_rows_tokens names (trows t) HL Hrb) as (texts & toks & A & B & C).
  destruct (to_json_document names texts toks B) as (out & Eo & Ep).
  assert (Hvalid : Forall (fun n => utf8_valid n = true) names).
  { eapply Forall_impl; [|exact Hnames]. intros n [X _]. exact X. }
  (* the decoded records *)
  assert (Erec : omap (decode_record parse_float) (map (combine (map utf8_sanitize names)) toks)
                 = Ok (map (rec_of cs) I)).
  { rewrite (decode_records_ok names toks (trows t) Hnd Hvalid C HL). f_equal.
    rewrite Hrows, map_map. apply map_ext. intro p. unfold names, rec_of.
    rewrite map_map. apply combine_map_fst. }
  (* the columns *)
  assert (Hcol : forall nc, In nc cs ->
            create_column (rb_data I (snd nc)) (enum_of (snd nc)) = Ok (rb_col I (snd nc)) /\
            col_len (rb_col I (snd nc)) = length I /\
            col_type (rb_col I (snd nc)) = rb_type (col_type (snd nc)) /\
            forall k p, nth_error I k = Some p -> cell_at (rb_col I (snd nc)) k = Ok (rb_cell (cellT (snd nc) p))).
  { intros nc Hnc. apply create_ok.
    - intros p Hp. apply Hcell; assumption.
    - unfold wf_frame in Hwf. apply andb_true_iff in Hwf as [Hwf _]. rewrite forallb_forall in Hwf.
      specialize (Hwf nc Hnc). apply andb_true_iff in Hwf as [_ Hwf]. exact Hwf.
    - unfold enum_tables_nodup in Hndt. rewrite forallb_forall in Hndt. apply (Hndt nc Hnc). }
  set (data := map (fun nc => (fst nc, rb_data I (snd nc))) cs).
  set (f' := mkFrame (map (fun nc => (fst nc, rb_col I (snd nc))) cs) (seq 0 (length I)) false).
  exists out, f'.
  split.
  { unfold frame_to_json. rewrite He, Ha. cbn [obind]. rewrite Hn, A. cbn [obind]. exact Eo. }
  split.
  { unfold read_json. rewrite Ep. unfold read_json_records. rewrite Erec.
    assert (HI' : exists p0 I', I = p0 :: I') by (destruct I as [|p0 I']; [congruence|eauto]).
    destruct HI' as (p0 & I' & EI).
    assert (Edata : records_to_data (map (rec_of cs) I) = Ok data).
    { unfold data. rewrite EI. apply records_to_data_ok; [exact Hnd|].
      intros p nc Hp Hnc. apply Hcell; [rewrite EI; exact Hp|exact Hnc]. }
    rewrite Edata. rewrite new_frame_unfold. cbv zeta.
    assert (Hchk : forallb (fun kv : bytes * newdata => check_name (fst kv)) data = true).
    { apply forallb_forall. intros kv Hkv. unfold data in Hkv. apply in_map_iff in Hkv as (nc & <- & Hnc).
      cbn [fst]. rewrite Forall_forall in Hnames. apply (Hnames (fst nc)). apply in_map. exact Hnc. }
    rewrite Hchk. cbn [negb].
    assert (Hord : match names with [] => sort_names (map fst data) | _ :: _ => names end = names).
    { unfold names. destruct cs; [congruence|reflexivity]. }
    rewrite Hord.
    assert (Hlen : Nat.eqb (length names) (length data) = true).
    { unfold names, data. rewrite !map_length. apply Nat.eqb_refl. }
    rewrite Hlen. cbn [negb].
    assert (Hfound : forallb (fun n => match assocb n data with Some _ => true | None => false end) names = true).
    { apply forallb_forall. intros n Hin. unfold names in Hin. apply in_map_iff in Hin as (nc & <- & Hnc).
      unfold data. rewrite (assocb_map (fun x => rb_data I (snd x)) cs nc Hnd Hnc). reflexivity. }
    rewrite Hfound. cbn [negb].
    rewrite (proj2 (nodup_bytes_spec names) Hnd). cbn [negb].
    pose proof (nf_fold cs I Hnd (fun nc Hnc => conj (proj1 (Hcol nc Hnc)) (proj1 (proj2 (Hcol nc Hnc))))
                        cs [] eq_refl) as NF.
    cbn [map first_of rev] in NF. unfold enames at 1 in NF. cbn [enum_conf flat_map map rev] in NF.
    fold data in NF. fold names in NF. rewrite NF.
    assert (Hused : forallb (fun kv : bytes * list bytes => existsb (bytes_eqb (fst kv)) (rev (enames cs)))
                            (enum_conf cs) = true).
    { apply forallb_forall. intros kv Hkv. apply existsb_in. rewrite <- in_rev. unfold enames.
      apply in_map. exact Hkv. }
    rewrite Hused. cbn [negb].
    assert (Hfirst : first_of cs (length I) = length I) by (destruct cs; [congruence|reflexivity]).
    rewrite Hfirst. reflexivity. }
  split; [reflexivity|].
  unfold f'. rewrite (abs_result cs I (fun nc Hnc => proj2 (proj2 (proj2 (Hcol nc Hnc))))).
  f_equal. rewrite Hn, Hty, Hrows. f_equal.
  - rewrite map_map. apply map_ext_in. intros nc Hnc. apply (Hcol nc Hnc).
  - rewrite map_map. apply map_ext. intro p. rewrite map_map. reflexivity.
Qed.

End Readback.

(* ================================================================== the float premise of the readback,
   reduced to (a) a correctly rounding ParseFloat and (b) the Ryu decimal lying in the rounding interval *)

(* specification of strconv.ParseFloat on number tokens: a text that denotes +-m * 10^k (in any
   representation m * 10^j, k - j) is read as the float in whose rounding interval m * 10^k lies (interval
   test of the C16 certificate checker, Proofs/RyuShortest.v); zero keeps its sign *)
Definition parse_float_correct (parse_float : bytes -> option N) : Prop :=
  (forall text neg k, jnum_value text = Some (neg, 0, k) ->
     parse_float text = Some (if neg then 2 ^ 63 else 0)) /\
  (forall text neg m k j bits fd,
     bits < 2 ^ 64 -> decode_float bits = Some fd -> (2 ^ 63 <=? bits) = neg ->
     0 < m -> RyuShortest.sc_in fd k m = true ->
     jnum_value text = Some (neg, m * 10 ^ j, (k - Z.of_N j)%Z) ->
     parse_float text = Some bits).

(* what is needed of C16 (weaker than shortestness): the decimal computed by the Ryu model rounds to the float *)
Definition ryu_in_interval : Prop :=
  forall bits m e fd, bits < 2 ^ 64 -> decode_float bits = Some fd -> float_decimal bits = Ok (m, e) ->
    RyuShortest.sc_in fd e m = true.

Lemma zero_bits b : b < 2 ^ 64 -> (b / 2 ^ 52) mod 2048 = 0 -> b mod 2 ^ 52 = 0 ->
  b = (if negb (b / 2 ^ 63 =? 0) then 2 ^ 63 else 0).
Proof.
  intros Hb He Hm.
  pose proof (N.div_mod b (2 ^ 52) ltac:(lia)) as D1. rewrite Hm in D1.
  pose proof (N.div_mod (b / 2 ^ 52) 2048 ltac:(lia)) as D2. rewrite He in D2.
  assert (E63 : b / 2 ^ 63 = b / 2 ^ 52 / 2048).
  { rewrite N.div_div by lia. reflexivity. }
  assert (Hq : b / 2 ^ 52 < 4096).
  { apply N.div_lt_upper_bound; [lia|]. change (2 ^ 52 * 4096) with (2 ^ 64). exact Hb. }
  assert (Hq2 : b / 2 ^ 52 / 2048 < 2) by (apply N.div_lt_upper_bound; lia).
  rewrite E63. change (2 ^ 52) with 4503599627370496 in *. change (2 ^ 63) with 9223372036854775808.
  destruct (N.eqb_spec (b / 4503599627370496 / 2048) 0) as [Z0|Z0]; cbn [negb]; lia.
Qed.

Lemma sign_bit b : negb (b / 2 ^ 63 =? 0) = (2 ^ 63 <=? b).
Proof.
  destruct (N.leb_spec (2 ^ 63) b) as [H|H].
  - assert (1 <= b / 2 ^ 63) by (apply N.div_le_lower_bound; lia).
    destruct (N.eqb_spec (b / 2 ^ 63) 0); [lia|reflexivity].
  - rewrite (N.div_small b (2 ^ 63) H). reflexivity.
Qed.

Lemma float_rb_ok parse_float int_to_float b :
  parse_float_correct parse_float -> ryu_in_interval ->
  b < 2 ^ 64 -> f_isnan b = false -> f_isinf b = false -> rb_ok parse_float int_to_float (CFloat b).
Proof.
  intros (PZ & PN) HR Hb Hn Hi. cbn [rb_ok]. split; [exact Hb|]. split; [exact Hn|]. split; [exact Hi|].
  intros text Ht.
  destruct (float_token b Hb Hn Hi) as (text' & m & e & ET & ED & _ & JV).
  rewrite ET in Ht. inversion Ht; subst text'. clear Ht.
  pose proof (finite_exp b Hn Hi) as Hfin.
  destruct (float_text_finite b Hb Hfin) as [(E0 & M0 & ED0 & _)|(m' & e' & ED' & Hpos & _ & _)].
  - rewrite ED0 in ED. inversion ED; subst m e. rewrite N.mul_0_l in JV.
    rewrite (PZ _ _ _ JV). f_equal. symmetry. apply zero_bits; assumption.
  - rewrite ED' in ED. inversion ED; subst m' e'.
    assert (Hfd : exists fd, decode_float b = Some fd).
    { unfold decode_float. change 4503599627370496 with (2 ^ 52).
      destruct (((b / 2 ^ 52) mod 2048 =? 2047) || (((b / 2 ^ 52) mod 2048 =? 0) && (b mod 2 ^ 52 =? 0))) eqn:C;
        [exfalso|eauto].
      apply orb_true_iff in C as [C|C]; [apply N.eqb_eq in C; contradiction|].
      unfold float_decimal, float_fields in ED'. rewrite C in ED'. inversion ED'. lia. }
    destruct Hfd as (fd & Hfd).
    apply (PN text _ m e (Z.to_N (e - Z.min e 0)) b fd Hb Hfd (eq_sym (sign_bit b)) Hpos (HR b m e fd Hb Hfd ED')).
    rewrite JV. f_equal. f_equal. lia.
Qed.

(* C14_readback with the float premise replaced by (a) and (b) *)
Theorem readback_from_spec parse_float int_to_float f t :
  parse_float_correct parse_float -> ryu_in_interval ->
  ferr f = false -> wf_frame f = true -> abs f = Ok t ->
  cols f <> [] -> ix f <> [] ->
  NoDup (col_names f) -> Forall name_ok (col_names f) ->
  enum_tables_nodup f = true ->
  Forall (Forall (fun c =>
            match c with
            | CInt z => parse_float (CsvWrite.itoa z) = Some (int_to_float z)
            | CFloat b => b < 2 ^ 64 /\ f_isnan b = false /\ f_isinf b = false
            | CStr (Some s) | CEnum (Some s) => utf8_valid s = true
            | _ => True
            end)) (trows t) ->
  exists out f',
    frame_to_json f = Ok out /\
    read_json parse_float out (col_names f) (enum_conf (cols f)) = Ok f' /\
    ferr f' = false /\
    abs f' = Ok (mkTable (tnames t) (map rb_type (ttypes t)) (map (map (rb_cell int_to_float)) (trows t))).
Proof.
  intros HP HR He Hwf Ha Hcs HI Hnd Hnames Hndt Hcells.
  apply (readback parse_float int_to_float f t He Hwf Ha Hcs HI Hnd Hnames Hndt).
  eapply Forall_impl; [|exact Hcells]. intros row Hrow.
  eapply Forall_impl; [|exact Hrow]. intros c Hc.
  destruct c as [z|b|b|[s|]|[s|]]; cbn [rb_ok]; try exact Hc.
  destruct Hc as (H1 & H2 & H3). exact (float_rb_ok parse_float int_to_float b HP HR H1 H2 H3).
Qed.
